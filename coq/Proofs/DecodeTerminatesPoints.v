(* DecodeTerminatesPoints: the parser bound behind the decode-level "never
   hangs" theorem of C01.

   Every control point the hit-object line parser stores is an integer point
   relative to the slider head: the head and the absolute point are both
   clamped/rejected beyond +-MAX_COORDINATE_VALUE = 131072, the difference of
   two such integers is exact in binary32.  That is part of [path_image]
   (Model/EncPathSpec.v), which holds of every control-point list
   convert_path_str produces (Proofs/EncPathImage.v).  Here it is read as the
   hypothesis of the Bezier termination theorem: every control point is
   [BezierIEEE.point_ok 18] (finite, |x| <= 2^18 = 262144), and -- graded --
   [point_ok E] whenever its integer coordinates are within +-2^E. *)
From RM Require Import Model.EncPathSpec Model.CurveDist Proofs.EncFloat Proofs.EncPathEnc Proofs.EncPathDec
     Proofs.EncPathRT Proofs.EncPathImage Proofs.EncObjects.
From RM Require Model.Curve Proofs.BezierIEEE.
From RM Require Import Gen.Generated.
From Flocq Require Import Core BinarySingleNaN.
From Coq Require Import Reals Lra Lia ZifyBool.
Open Scope Z_scope.

(* ---------- one coordinate ---------- *)

Lemma of_Z_coord_ok E n : 0 <= E <= 23 -> Z.abs n <= 2 ^ E -> BezierIEEE.coord_ok E (S.of_Z n).
Proof.
  intros HE Hn.
  assert (H24 : Z.abs n < 2 ^ 24).
  { assert (2 ^ E <= 2 ^ 23) by (apply Z.pow_le_mono_r; lia). change (2 ^ 24) with 16777216.
    change (2 ^ 23) with 8388608 in *. lia. }
  destruct (of_Z_exact 24 128 Hp32 He32 n H24) as (R & F). split; [exact F|].
  unfold S.of_Z. rewrite R, <- abs_IZR, <- (IZR_Zpower radix2 E) by lia.
  apply IZR_le. exact Hn.
Qed.

(* the control point of the curve model that a decoded control point becomes *)
Definition pcp_point_ok (E : Z) (p : PCP) : Prop := BezierIEEE.point_ok E (conv_pos (cp_pos p)).

(* an integer-valued position within +-2^E *)
Definition pos_within (E : Z) (p : Pos) : bool :=
  (Z.abs (f32_as_i32 (px p)) <=? 2 ^ E) && (Z.abs (f32_as_i32 (py p)) <=? 2 ^ E).

Lemma int_pos_point_ok E p : 0 <= E <= 23 ->
  int_pos (cp_pos p) = true -> pos_within E (cp_pos p) = true -> pcp_point_ok E p.
Proof.
  intros HE Hi Hw. unfold int_pos in Hi. apply andb_true_iff in Hi. destruct Hi as [Hx Hy].
  apply f32_eqb_eq in Hx. apply f32_eqb_eq in Hy.
  unfold pos_within in Hw. apply andb_true_iff in Hw. destruct Hw as [Wx Wy].
  unfold pcp_point_ok, BezierIEEE.point_ok, conv_pos. cbn [Curve.px Curve.py].
  rewrite Hx, Hy. split; apply of_Z_coord_ok; try exact HE; lia.
Qed.

(* ---------- the image of convert_path_str ---------- *)

Lemma zimage_abs P l : Pok P -> zimage P l = true ->
  Forall (fun z => Z.abs (fst (fst z)) <= 262144 /\ Z.abs (snd (fst z)) <= 262144) l.
Proof.
  intros HP H. unfold zimage in H. destruct l as [|[q [t|]] r]; try discriminate.
  apply andb_true_iff in H. destruct H as [H Hr]. apply andb_true_iff in H. destruct H as [H _].
  apply andb_true_iff in H. destruct H as [Hq _]. apply zeq_eq in Hq. subst q.
  constructor; [cbn [fst snd]; lia|].
  pose proof (zinv_abs P r t (0, 0) Hr) as HA.
  eapply Forall_impl; [|exact HA]. intros z Hz. exact (abs_ok_tight P HP (fst z) Hz).
Qed.

Lemma forallb_map_Forall {A B} (f : A -> B) (Q : B -> Prop) l :
  Forall Q (map f l) -> Forall (fun a => Q (f a)) l.
Proof. intros H. rewrite Forall_map in H. exact H. Qed.

(* every control point of a list in the decoder's image: integer-valued,
   within +-262144 of the slider head *)
Theorem path_image_within pos cps : path_image pos cps = true ->
  Forall (fun p => int_pos (cp_pos p) = true /\ pos_within 18 (cp_pos p) = true) cps.
Proof.
  intros H. unfold path_image in H. apply andb_true_iff in H. destruct H as [H Hz].
  apply andb_true_iff in H. destruct H as [H Hi]. apply andb_true_iff in H. destruct H as [Hx Hy].
  destruct (coord_ok_int _ Hx) as [_ Bx]. destruct (coord_ok_int _ Hy) as [_ By].
  assert (HP : Pok (zpt pos)) by (split; assumption).
  pose proof (zimage_abs (zpt pos) (map zcp cps) HP Hz) as HA.
  apply forallb_map_Forall in HA.
  rewrite forallb_forall in Hi. rewrite Forall_forall in HA |- *. intros p Hp.
  split; [exact (Hi p Hp)|]. specialize (HA p Hp). unfold zcp, zpt in HA. cbn [fst snd] in HA.
  unfold pos_within. change (2 ^ 18) with 262144. lia.
Qed.

Theorem path_image_points_ok pos cps : path_image pos cps = true -> Forall (pcp_point_ok 18) cps.
Proof.
  intros H. eapply Forall_impl; [|exact (path_image_within pos cps H)].
  intros p [Hi Hw]. apply int_pos_point_ok; [lia|exact Hi|exact Hw].
Qed.

(* graded: inside +-2^E of the head *)
Definition cps_within (E : Z) (cps : list PCP) : bool := forallb (fun p => pos_within E (cp_pos p)) cps.

Theorem path_image_points_ok_graded pos cps E : 0 <= E <= 23 ->
  path_image pos cps = true -> cps_within E cps = true -> Forall (pcp_point_ok E) cps.
Proof.
  intros HE H Hw. pose proof (path_image_within pos cps H) as HA.
  unfold cps_within in Hw. rewrite forallb_forall in Hw. rewrite Forall_forall in HA |- *.
  intros p Hp. apply int_pos_point_ok; [exact HE|exact (proj1 (HA p Hp))|exact (Hw p Hp)].
Qed.

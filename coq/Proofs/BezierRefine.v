(* BezierRefine: the Bezier routine with scratch buffers (L0: in-place
   bezier_subdivide, extend_exact, explicit stack with buffer reuse) computes
   the same path as the pure routine (L1), whatever the buffers held. *)
From RM Require Import Model.ControlPoints Model.Curve.
Require Import ZifyBool.
Open Scope nat_scope.

(* ---------- lists ---------- *)

Lemma replace_nth_app {A} (a : list A) x y b :
  replace_nth (length a) x (a ++ y :: b) = a ++ x :: b.
Proof. induction a as [|h t IH]; cbn [replace_nth app length]; [reflexivity|]. now rewrite IH. Qed.

Lemma replace_nth_length {A} n (x : A) l : length (replace_nth n x l) = length l.
Proof.
  revert n; induction l as [|h t IH]; intros [|n]; cbn [replace_nth length]; try reflexivity.
  now rewrite IH.
Qed.

Lemma nth_error_app_mid {A} (a : list A) y b : nth_error (a ++ y :: b) (length a) = Some y.
Proof. induction a; cbn; auto. Qed.

Lemma split_at {A} (l : list A) n :
  n < length l -> exists a y b, l = a ++ y :: b /\ length a = n.
Proof.
  intros H. exists (firstn n l).
  destruct (skipn n l) as [|y b] eqn:E.
  - apply (f_equal (@length A)) in E. rewrite skipn_length in E. cbn in E. lia.
  - exists y, b. split.
    + rewrite <- E. symmetry. apply firstn_skipn.
    + rewrite firstn_length. lia.
Qed.

Lemma firstn_app_exact {A} n (a b : list A) : length a = n -> firstn n (a ++ b) = a.
Proof. intros <-. rewrite firstn_app, Nat.sub_diag, firstn_all. cbn [firstn]. apply app_nil_r. Qed.

Lemma skipn_app_exact {A} n (a b : list A) : length a = n -> skipn n (a ++ b) = b.
Proof. intros <-. rewrite skipn_app, Nat.sub_diag, skipn_all. reflexivity. Qed.

Lemma skipn_app_S {A} n (a : list A) y b : length a = n -> skipn (S n) (a ++ y :: b) = b.
Proof.
  intros H. replace (a ++ y :: b) with ((a ++ [y]) ++ b) by (now rewrite <- app_assoc).
  apply skipn_app_exact. rewrite app_length. cbn. lia.
Qed.

Lemma aget_app_mid {A} (a : list A) y b : aget (a ++ y :: b) (length a) = Done y.
Proof. unfold aget. now rewrite nth_error_app_mid. Qed.

Lemma aset_app_mid {A} (a : list A) x y b : aset (a ++ y :: b) (length a) x = Done (a ++ x :: b).
Proof.
  unfold aset. rewrite app_length. cbn [length].
  replace (length a <? length a + S (length b)) with true by (symmetry; apply Nat.ltb_lt; lia).
  now rewrite replace_nth_app.
Qed.

Lemma aget_app_mid' {A} (a : list A) y b n : length a = n -> aget (a ++ y :: b) n = Done y.
Proof. intros <-. apply aget_app_mid. Qed.
Lemma aset_app_mid' {A} (a : list A) x y b n : length a = n -> aset (a ++ y :: b) n x = Done (a ++ x :: b).
Proof. intros <-. apply aset_app_mid. Qed.

(* ---------- the pure de Casteljau step ---------- *)

Lemma avg_step_length m : length (avg_step m) = pred (length m).
Proof.
  induction m as [|a [|b t] IH]; cbn [avg_step length pred]; try reflexivity.
  cbn [avg_step length pred] in IH. now rewrite IH.
Qed.

Lemma firstn_avg_step n : forall l, n < length l -> firstn n (avg_step l) = avg_step (firstn (S n) l).
Proof.
  induction n as [|n IH]; intros l H.
  - destruct l as [|a [|b t]]; reflexivity.
  - destruct l as [|a [|b t]]; cbn [length] in H; try lia.
    change (avg_step (a :: b :: t)) with (avg2 a b :: avg_step (b :: t)).
    change (firstn (S (S n)) (a :: b :: t)) with (a :: firstn (S n) (b :: t)).
    cbn [firstn]. rewrite IH by (cbn [length]; lia).
    destruct n; reflexivity.
Qed.

Lemma subdiv_S k m :
  subdiv (S k) m = let '(l, r) := subdiv k (avg_step m) in (hd pos0 m :: l, r ++ [last m pos0]).
Proof. reflexivity. Qed.

Lemma subdiv_length n : forall m, length (fst (subdiv n m)) = n /\ length (snd (subdiv n m)) = n.
Proof.
  induction n as [|n IH]; intros m; cbn [subdiv]; [split; reflexivity|].
  specialize (IH (avg_step m)). destruct (subdiv n (avg_step m)) as [l r].
  cbn [fst snd] in *. rewrite app_length. cbn [length]. lia.
Qed.

(* ---------- inner loop ---------- *)

Lemma avg_loop_spec n : forall done cur,
  n < length cur ->
  avg_loop n (length done) (done ++ cur) = Done (done ++ firstn n (avg_step cur) ++ skipn n cur).
Proof.
  induction n as [|n IH]; intros done cur H.
  - reflexivity.
  - destruct cur as [|a [|b t]]; cbn [length] in H; try lia.
    cbn [avg_loop].
    rewrite aget_app_mid. cbn [obind].
    replace (done ++ a :: b :: t) with ((done ++ [a]) ++ b :: t) at 1 by (now rewrite <- app_assoc).
    replace (S (length done)) with (length (done ++ [a])) by (rewrite app_length; cbn; lia).
    rewrite aget_app_mid. cbn [obind].
    rewrite aset_app_mid. cbn [obind].
    replace (done ++ avg2 a b :: b :: t) with ((done ++ [avg2 a b]) ++ b :: t) by (now rewrite <- app_assoc).
    replace (length (done ++ [a])) with (length (done ++ [avg2 a b])) by (rewrite !app_length; reflexivity).
    rewrite IH by (cbn [length]; lia).
    rewrite <- app_assoc. reflexivity.
Qed.

Lemma avg_loop_top i mid :
  i < length mid ->
  avg_loop i 0 mid = Done (avg_step (firstn (S i) mid) ++ skipn i mid).
Proof.
  intros H. change (avg_loop i 0 mid) with (avg_loop i (length (@nil Pos)) ([] ++ mid)).
  rewrite avg_loop_spec by exact H. cbn [app]. now rewrite firstn_avg_step.
Qed.

(* ---------- bezier_subdivide ---------- *)

(* the loop followed by the two final writes *)
Definition sub_full (i count : nat) (l r mid : list Pos) : outcome (list Pos * list Pos * list Pos) :=
  obind (sub_loop i count l r mid) (fun '(l1, r1, mid1) =>
  obind (aget mid1 0) (fun m0 =>
  obind (aset l1 (count - 1) m0) (fun l2 =>
  obind (aset r1 0 m0) (fun r2 =>
  Done (l2, r2, mid1))))).

Lemma hd_firstn {A} (d : A) n l : hd d (firstn (S n) l) = hd d l.
Proof. destruct l; reflexivity. Qed.

Lemma last_firstn_nth (d : Pos) n l : n < length l -> nth_error l n = Some (last (firstn (S n) l) d).
Proof.
  revert l; induction n as [|n IH]; intros l H.
  - destruct l; cbn in *; [lia|reflexivity].
  - destruct l as [|a t]; cbn [length] in H; [lia|].
    cbn [nth_error]. rewrite (IH t) by lia.
    change (firstn (S (S n)) (a :: t)) with (a :: firstn (S n) t).
    destruct t as [|b t']; cbn [length] in H; [lia|]. reflexivity.
Qed.

Lemma sub_full_spec i : forall count l r mid,
  S i <= count -> count <= length l -> count <= length r -> S i <= length mid ->
  exists mid',
    sub_full i count l r mid =
      Done (firstn (count - S i) l ++ fst (subdiv (S i) (firstn (S i) mid)) ++ skipn count l,
            snd (subdiv (S i) (firstn (S i) mid)) ++ skipn (S i) r,
            mid')
    /\ length mid' = length mid.
Proof.
  induction i as [|i IH]; intros count l r mid Hi Hl Hr Hm.
  - exists mid. split; [|reflexivity].
    unfold sub_full. cbn [sub_loop obind].
    destruct mid as [|m0 mt]; [cbn in Hm; lia|].
    cbn [aget nth_error obind firstn subdiv avg_step fst snd hd last app].
    destruct (split_at l (count - 1)) as (la & y & lb & -> & Hla); [lia|].
    rewrite <- Hla at 1. rewrite aset_app_mid. cbn [obind].
    destruct r as [|r0 rt]; [cbn in Hr; lia|].
    change (aset (r0 :: rt) 0 m0) with (aset ([] ++ r0 :: rt) (length (@nil Pos)) m0).
    rewrite aset_app_mid. cbn [obind app skipn].
    replace (count - 1 + 1) with count in * by lia.
    rewrite (firstn_app_exact (count - 1)) by exact Hla.
    assert (E : skipn count (la ++ y :: lb) = lb).
    { replace count with (S (length la)) by lia. now apply skipn_app_S. }
    rewrite E. reflexivity.
  - set (m := firstn (S (S i)) mid).
    assert (Emid : exists m0 mt, mid = m0 :: mt).
    { destruct mid as [|m0 mt]; [cbn in Hm; lia|]. eauto. }
    destruct Emid as (m0 & mt & Emid).
    assert (Hg0 : aget mid 0 = Done m0) by (rewrite Emid; reflexivity).
    assert (Hhd : hd pos0 m = m0) by (unfold m; rewrite Emid; reflexivity).
    destruct (split_at l (count - S i - 1)) as (la & y & lb & El & Hla); [lia|].
    destruct (split_at r (S i)) as (ra & z & rb & Er & Hra); [lia|].
    assert (Hlm : length (avg_step m) = S i).
    { rewrite avg_step_length. unfold m. rewrite firstn_length. lia. }
    assert (Hll : length l = length la + S (length lb)) by (rewrite El, app_length; reflexivity).
    assert (Hrl : length r = length ra + S (length rb)) by (rewrite Er, app_length; reflexivity).
    destruct (IH count (la ++ m0 :: lb) (ra ++ last m pos0 :: rb) (avg_step m ++ skipn (S i) mid))
      as (mid' & IH' & Hlen).
    + lia.
    + rewrite app_length. cbn [length]. lia.
    + rewrite app_length. cbn [length]. lia.
    + rewrite app_length. lia.
    + exists mid'. split.
      * unfold sub_full. cbn [sub_loop].
        rewrite Hg0. cbn [obind].
        rewrite El at 1. rewrite (aset_app_mid' la m0 y lb _ Hla). cbn [obind].
        unfold aget at 1. rewrite (last_firstn_nth pos0 (S i) mid) by lia. fold m. cbn [obind].
        rewrite Er at 1. rewrite (aset_app_mid' ra (last m pos0) z rb _ Hra). cbn [obind].
        rewrite avg_loop_top by lia. fold m. cbn [obind].
        unfold sub_full in IH'. rewrite IH'. clear IH'.
        rewrite (firstn_app_exact (S i)) by exact Hlm.
        rewrite (subdiv_S (S i) m).
        destruct (subdiv (S i) (avg_step m)) as [L R] eqn:ES. cbn [fst snd].
        rewrite Hhd.
        assert (E1 : firstn (count - S i) (la ++ m0 :: lb) = la ++ [m0]).
        { replace (la ++ m0 :: lb) with ((la ++ [m0]) ++ lb) by (now rewrite <- app_assoc).
          apply firstn_app_exact. rewrite app_length. cbn [length]. lia. }
        assert (E2 : firstn (count - S (S i)) l = la).
        { rewrite El. apply firstn_app_exact. lia. }
        assert (E3 : skipn count (la ++ m0 :: lb) = skipn count l).
        { rewrite El. rewrite !skipn_app. rewrite !(skipn_all2 la) by lia.
          replace (count - length la) with (S (count - length la - 1)) by lia. reflexivity. }
        assert (E4 : skipn (S i) (ra ++ last m pos0 :: rb) = last m pos0 :: rb).
        { apply skipn_app_exact. exact Hra. }
        assert (E5 : skipn (S (S i)) r = rb).
        { rewrite Er. apply skipn_app_S. exact Hra. }
        rewrite E1, E2, E3, E4, E5.
        rewrite <- !app_assoc. reflexivity.
      * rewrite Hlen. rewrite app_length, skipn_length. lia.
Qed.

Lemma bezier_subdivide_L0_full points l r mid :
  bezier_subdivide_L0 points l r mid =
  if Nat.ltb (length mid) (length points) then Panic 2
  else match length points with
       | O => Panic 2
       | S c1 => sub_full c1 (length points) l r (points ++ skipn (length points) mid)
       end.
Proof.
  unfold bezier_subdivide_L0, sub_full.
  destruct (Nat.ltb (length mid) (length points)); [reflexivity|].
  destruct (length points) as [|c1] eqn:E.
  - cbn [Nat.sub sub_loop obind]. reflexivity.
  - replace (S c1 - 1) with c1 by lia.
    destruct (sub_loop c1 (S c1) l r (points ++ skipn (S c1) mid)) as [[[l1 r1] m1]| |]; reflexivity.
Qed.

Lemma bezier_subdivide_L0_spec points l r mid :
  points <> [] ->
  length points <= length l -> length points <= length r -> length points <= length mid ->
  exists mid',
    bezier_subdivide_L0 points l r mid =
      Done (fst (subdiv (length points) points) ++ skipn (length points) l,
            snd (subdiv (length points) points) ++ skipn (length points) r,
            mid')
    /\ length mid' = length mid.
Proof.
  intros Hne Hl Hr Hm.
  rewrite bezier_subdivide_L0_full.
  replace (Nat.ltb (length mid) (length points)) with false by (symmetry; apply Nat.ltb_ge; lia).
  destruct (length points) as [|c1] eqn:E; [destruct points; [congruence|discriminate]|].
  destruct (sub_full_spec c1 (S c1) l r (points ++ skipn (S c1) mid)) as (mid' & H & Hlen); try lia.
  { rewrite app_length. lia. }
  exists mid'. split.
  - rewrite H. rewrite Nat.sub_diag.
    rewrite (firstn_app_exact (S c1)) by exact E. reflexivity.
  - rewrite Hlen. rewrite app_length, skipn_length. lia.
Qed.

Lemma bezier_subdivide_L0_nil l r mid : bezier_subdivide_L0 [] l r mid = Panic 2.
Proof. rewrite bezier_subdivide_L0_full. reflexivity. Qed.

(* ---------- bezier_approximate ---------- *)

Lemma bezier_approximate_L0_spec points path l r mid :
  points <> [] ->
  length points <= length l -> length points <= length r -> length points <= length mid ->
  exists l' r' mid',
    bezier_approximate_L0 points path l r mid = Done (path ++ bezier_approx_pts points, l', r', mid')
    /\ length l' = length l /\ length r' = length r /\ length mid' = length mid.
Proof.
  intros Hne Hl Hr Hm.
  destruct (bezier_subdivide_L0_spec points l r mid Hne Hl Hr Hm) as (mid' & Hs & Hlen).
  unfold bezier_approximate_L0. rewrite Hs. cbn [obind].
  destruct (subdiv_length (length points) points) as [HL HR].
  unfold bezier_approx_pts.
  destruct (subdiv (length points) points) as [L R] eqn:ES. cbn [fst snd] in *.
  destruct points as [|p0 pt] eqn:Ep; [congruence|]. rewrite <- Ep in *.
  assert (Hg : aget points 0 = Done p0) by (rewrite Ep; reflexivity).
  rewrite Hg. cbn [obind].
  assert (Hc1 : 1 <= length points) by (rewrite Ep; cbn; lia).
  rewrite !app_length, !skipn_length, HL, HR.
  replace (length points + (length l - length points) <? length points) with false
    by (symmetry; apply Nat.ltb_ge; lia).
  replace (length points + (length r - length points) <? length points) with false
    by (symmetry; apply Nat.ltb_ge; lia).
  replace (length points <? 1) with false by (symmetry; apply Nat.ltb_ge; lia).
  cbn [orb].
  exists (L ++ skipn (length points) l), (R ++ skipn (length points) r), mid'.
  split; [|repeat split; rewrite ?app_length, ?skipn_length; lia].
  rewrite (firstn_app_exact (length points) L) by exact HL.
  rewrite (firstn_app_exact (length points) R) by exact HR.
  rewrite Ep. cbn [hd app]. destruct R; reflexivity.
Qed.

(* ---------- generic simulation of fuelled loops ---------- *)

Section IterSim.
  Context {S0 R0 S1 R1 : Type}.
  Variables (step0 : S0 -> S0 + outcome R0) (step1 : S1 -> S1 + outcome R1).
  Variable Rel : S0 -> S1 -> Prop.
  Variable Sim : outcome R0 -> outcome R1 -> Prop.
  Hypothesis Sim_fuel : Sim OutOfFuel OutOfFuel.
  Hypothesis Hstep : forall s0 s1, Rel s0 s1 ->
    match step1 s1 with
    | inl s1' => exists s0', step0 s0 = inl s0' /\ Rel s0' s1'
    | inr r1 => exists r0, step0 s0 = inr r0 /\ Sim r0 r1
    end.

  Lemma iterP_sim p : forall k0 k1,
    (forall s0 s1, Rel s0 s1 -> Sim (k0 s0) (k1 s1)) ->
    forall s0 s1, Rel s0 s1 -> Sim (iterP step0 p k0 s0) (iterP step1 p k1 s1).
  Proof.
    induction p as [q IH|q IH|]; intros k0 k1 Hk s0 s1 HR; cbn [iterP].
    - specialize (Hstep s0 s1 HR). destruct (step1 s1) as [s1'|r1].
      + destruct Hstep as (s0' & -> & HR'). apply IH; [|exact HR'].
        intros a b Hab. apply IH; assumption.
      + destruct Hstep as (r0 & -> & HS). exact HS.
    - apply IH; [|exact HR]. intros a b Hab. apply IH; assumption.
    - specialize (Hstep s0 s1 HR). destruct (step1 s1) as [s1'|r1].
      + destruct Hstep as (s0' & -> & HR'). apply Hk. exact HR'.
      + destruct Hstep as (r0 & -> & HS). exact HS.
  Qed.

  Lemma iter_fuel_sim p s0 s1 : Rel s0 s1 -> Sim (iter_fuel step0 p s0) (iter_fuel step1 p s1).
  Proof. intros H. unfold iter_fuel. apply iterP_sim; [intros; exact Sim_fuel|exact H]. Qed.
End IterSim.

(* ---------- the subdivision stack ---------- *)

(* all four scratch vectors have length n *)
Definition bb_len (n : nat) (b : BezierBuffers) : Prop :=
  length (bb_left b) = n /\ length (bb_right b) = n /\ length (bb_mid b) = n /\ length (bb_lchild b) = n.

(* reachable buffer states: the four vectors always have the same length *)
Definition bb_wf (b : BezierBuffers) : Prop := exists n, bb_len n b.

Definition bs_rel (p n : nat) (s0 : BsState) (s1 : list (list Pos) * list Pos) : Prop :=
  bs_stack s0 = fst s1 /\ bs_path s0 = snd s1 /\
  Forall (fun x => length x = p) (bs_stack s0) /\
  Forall (fun x => length x = p) (bs_free s0) /\
  bb_len n (bs_buf s0).

(* outcome of the L0 routine against the L1 routine: same path, buffers keep their size *)
Definition bs_sim (n : nat) (o0 : outcome (list Pos * BezierBuffers)) (o1 : outcome (list Pos)) : Prop :=
  match o1 with
  | Done path => exists b', o0 = Done (path, b') /\ bb_len n b'
  | Panic w => o0 = Panic w
  | OutOfFuel => o0 = OutOfFuel
  end.

Lemma bspline_step_sim p n : 1 <= p -> p <= n ->
  forall s0 s1, bs_rel p n s0 s1 ->
  match bspline_step1 s1 with
  | inl s1' => exists s0', bspline_step0 p s0 = inl s0' /\ bs_rel p n s0' s1'
  | inr r1 => exists r0, bspline_step0 p s0 = inr r0 /\ bs_sim n r0 r1
  end.
Proof.
  intros Hp Hpn s0 [stack path] (Hst & Hpa & Hfs & Hff & Hb).
  cbn [fst snd] in *. unfold bspline_step1, bspline_step0. cbn [fst snd].
  rewrite Hst. destruct stack as [|parent rest].
  - eexists. split; [reflexivity|]. cbn [bs_sim]. eexists. rewrite Hpa. split; [reflexivity|exact Hb].
  - rewrite Hst in Hfs. pose proof (Forall_inv Hfs) as Hlp. pose proof (Forall_inv_tail Hfs) as Hfr.
    cbn beta in Hlp.
    destruct Hb as (Hl & Hr & Hm & Hc).
    assert (Hne : parent <> []) by (intros ->; cbn in Hlp; lia).
    destruct parent as [|q0 qt]; [congruence|]. cbv iota.
    set (parent := q0 :: qt) in *.
    destruct (flat_enough parent).
    + destruct (bezier_approximate_L0_spec parent (bs_path s0) (bb_left (bs_buf s0)) (bb_right (bs_buf s0))
                 (bb_mid (bs_buf s0)) Hne) as (l' & r' & m' & -> & Hl' & Hr' & Hm'); try lia.
      eexists. split; [reflexivity|].
      unfold bs_rel. cbn [bs_stack bs_path bs_free bs_buf fst snd].
      rewrite Hpa. repeat split; cbn [bb_left bb_right bb_mid bb_lchild]; try assumption; try lia.
      constructor; [exact Hlp|exact Hff].
    + assert (Hrc : exists rc free', (match bs_free s0 with f :: fr => (f, fr) | [] => (repeat pos0 p, []) end) = (rc, free')
                     /\ length rc = p /\ Forall (fun x => length x = p) free').
      { destruct (bs_free s0) as [|f fr].
        - do 2 eexists. split; [reflexivity|]. split; [apply repeat_length|constructor].
        - pose proof (Forall_inv Hff) as Hf1. pose proof (Forall_inv_tail Hff) as Hf2. cbn beta in Hf1.
          do 2 eexists. split; [reflexivity|]. split; assumption. }
      destruct Hrc as (rc & free' & -> & Hrcl & Hfree').
      destruct (bezier_subdivide_L0_spec parent (bb_lchild (bs_buf s0)) rc (bb_mid (bs_buf s0)) Hne)
        as (m' & -> & Hm'); try lia.
      destruct (subdiv_length (length parent) parent) as [HL HR].
      rewrite Hlp in *.
      destruct (subdiv p parent) as [L R] eqn:ES. cbn [fst snd] in *.
      rewrite app_length, skipn_length, HL.
      replace (p <=? p + (length (bb_lchild (bs_buf s0)) - p)) with true
        by (symmetry; apply Nat.leb_le; lia).
      rewrite Nat.eqb_refl. cbn [andb].
      eexists. split; [reflexivity|].
      unfold bs_rel. cbn [bs_stack bs_path bs_free bs_buf fst snd].
      rewrite (firstn_app_exact p L) by exact HL.
      rewrite (skipn_all2 rc) by lia. rewrite app_nil_r.
      repeat split; cbn [bb_left bb_right bb_mid bb_lchild]; rewrite ?app_length, ?skipn_length;
        try assumption; try lia.
      constructor; [exact HL|]. constructor; [exact HR|exact Hfr].
Qed.

Lemma iterP_stop {St R} (step : St -> St + outcome R) r p : forall k s,
  step s = inr r -> iterP step p k s = r.
Proof.
  induction p as [q IH|q IH|]; intros k s H; cbn [iterP]; try rewrite H; try reflexivity.
  apply IH. exact H.
Qed.

Lemma extend_exact_len b n len : bb_len n b -> bb_len (Nat.max n len) (extend_exact b len).
Proof.
  intros (Hl & Hr & Hm & Hc). unfold extend_exact. rewrite Hl.
  destruct (Nat.leb len n) eqn:E.
  - apply Nat.leb_le in E. replace (Nat.max n len) with n by lia. repeat split; assumption.
  - apply Nat.leb_gt in E. unfold bb_len. cbn [bb_left bb_right bb_mid bb_lchild].
    rewrite !app_length, repeat_length. repeat split; lia.
Qed.

(* T18a, Bezier layer: for any buffers whose four vectors have equal length *)
Theorem approximate_bezier_refines fuel path points b :
  bb_wf b ->
  match approximate_bezier_L1 fuel path points tt with
  | Done (path', _) => exists b', approximate_bezier_L0 fuel path points b = Done (path', b') /\ bb_wf b'
  | Panic w => approximate_bezier_L0 fuel path points b = Panic w
  | OutOfFuel => approximate_bezier_L0 fuel path points b = OutOfFuel
  end.
Proof.
  intros (n0 & Hb).
  unfold approximate_bezier_L0, approximate_bspline_L0, approximate_bezier_L1.
  destruct points as [|p0 pt] eqn:Ep.
  - (* empty: both panic in the first step *)
    unfold iter_fuel.
    rewrite (iterP_stop bspline_step1 (Panic 2)) by reflexivity.
    rewrite (iterP_stop (bspline_step0 (length (@nil Pos))) (Panic 2)).
    + reflexivity.
    + unfold bspline_step0. cbn [bs_stack flat_enough].
      unfold bezier_approximate_L0. rewrite bezier_subdivide_L0_nil. reflexivity.
  - rewrite <- Ep.
    set (p := length points). set (n := Nat.max n0 p).
    assert (Hp : 1 <= p) by (unfold p; rewrite Ep; cbn; lia).
    pose proof (extend_exact_len b n0 p Hb) as Hb'. fold n in Hb'.
    assert (HR : bs_rel p n (mkBs [points] [] path (extend_exact b p)) ([points], path)).
    { unfold bs_rel. cbn [bs_stack bs_path bs_free bs_buf fst snd].
      split; [reflexivity|]. split; [reflexivity|]. split; [repeat constructor|].
      split; [constructor|exact Hb']. }
    pose proof (iter_fuel_sim (bspline_step0 p) bspline_step1 (bs_rel p n) (bs_sim n) eq_refl
                  (bspline_step_sim p n Hp ltac:(lia)) fuel _ _ HR) as HS.
    destruct (iter_fuel bspline_step1 fuel ([points], path)) as [path'| |]; cbn [bs_sim] in HS.
    + destruct HS as (b' & -> & Hb2). cbn [obind].
      destruct p as [|p1] eqn:Epp; [lia|].
      assert (Hlast : aget points p1 = Done (last points pos0)).
      { unfold aget. rewrite (last_firstn_nth pos0 p1 points) by (fold p; lia).
        rewrite firstn_all2 by (fold p; lia). reflexivity. }
      exists b'. rewrite Hlast. cbn [obind]. split; [reflexivity|]. exists n. exact Hb2.
    + rewrite HS. reflexivity.
    + rewrite HS. reflexivity.
Qed.

Lemma bb_wf_default : bb_wf (mkBB [] [] [] []).
Proof. exists 0. repeat split. Qed.

(* InterpExact: T19b, per segment -- the interpolation formula of
   interpolate_vertices read over the reals.  The formula is written once
   over abstract operations; the model's expression is its IEEE instance
   ([model_interp], by reflexivity), the theorems are about its real instance. *)
From RM Require Import Model.ControlPoints Model.Curve.
From Coq Require Import Reals Lra Psatz.
Open Scope R_scope.

(* c0 + (c1 - c0) * ((d - d0) / (d1 - d0)) as f32 *)
Definition interp_coord_g {T64 T32} (sub64 div64 : T64 -> T64 -> T64) (conv : T64 -> T32)
    (add32 sub32 mul32 : T32 -> T32 -> T32) (c0 c1 : T32) (d0 d1 d : T64) : T32 :=
  add32 c0 (mul32 (sub32 c1 c0) (conv (div64 (sub64 d d0) (sub64 d1 d0)))).

Lemma model_interp p0 p1 d0 d1 d :
  padd p0 (pmul (psub p1 p0) (f32_of_f64 (D.div (D.sub d d0) (D.sub d1 d0)))) =
  mkPos (interp_coord_g D.sub D.div f32_of_f64 S.add S.sub S.mul (px p0) (px p1) d0 d1 d)
        (interp_coord_g D.sub D.div f32_of_f64 S.add S.sub S.mul (py p0) (py p1) d0 d1 d).
Proof. reflexivity. Qed.

Definition interp_R (c0 c1 d0 d1 d : R) : R :=
  interp_coord_g Rminus Rdiv (fun x => x) Rplus Rminus Rmult c0 c1 d0 d1 d.

(* at the cumulative length of either end the position is that vertex *)
Lemma interp_R_at_d0 c0 c1 d0 d1 : d1 <> d0 -> interp_R c0 c1 d0 d1 d0 = c0.
Proof. intros H. unfold interp_R, interp_coord_g. field. lra. Qed.

Lemma interp_R_at_d1 c0 c1 d0 d1 : d1 <> d0 -> interp_R c0 c1 d0 d1 d1 = c1.
Proof. intros H. unfold interp_R, interp_coord_g. field. lra. Qed.

(* the value position_at returns at progress 1 (PositionFacts.position_at_one) *)
Lemma end_value_R (c0 c1 : R) : c0 + (c1 - c0) = c1.
Proof. ring. Qed.

Lemma interp_R_affine c0 c1 d0 d1 a b : d1 <> d0 ->
  interp_R c0 c1 d0 d1 a - interp_R c0 c1 d0 d1 b = (c1 - c0) * ((a - b) / (d1 - d0)).
Proof. intros H. unfold interp_R, interp_coord_g. field. lra. Qed.

(* between two distances on one segment the position moves by exactly
   |a - b| * (segment length / bookkeeping length): never farther than the arc
   length |a - b| as long as the bookkeeping length d1 - d0 is at least the
   geometric length (equal for true cumulative lengths, larger with the osu!
   Catmull surplus) *)
Theorem segment_lipschitz x0 y0 x1 y1 d0 d1 a b :
  d0 < d1 -> (x1 - x0) ^ 2 + (y1 - y0) ^ 2 <= (d1 - d0) ^ 2 ->
  (interp_R x0 x1 d0 d1 a - interp_R x0 x1 d0 d1 b) ^ 2 +
  (interp_R y0 y1 d0 d1 a - interp_R y0 y1 d0 d1 b) ^ 2 <= (a - b) ^ 2.
Proof.
  intros Hd Hl. rewrite !interp_R_affine by (apply Rgt_not_eq; lra).
  set (D := d1 - d0) in *. assert (HD : 0 < D) by (unfold D; lra).
  replace (((x1 - x0) * ((a - b) / D)) ^ 2 + ((y1 - y0) * ((a - b) / D)) ^ 2)
    with (((x1 - x0) ^ 2 + (y1 - y0) ^ 2) * ((a - b) ^ 2 / D ^ 2)) by (field; lra).
  assert (H0 : 0 <= (a - b) ^ 2 / D ^ 2).
  { apply Rmult_le_pos; [apply pow2_ge_0|]. apply Rlt_le, Rinv_0_lt_compat. apply pow_lt. exact HD. }
  replace ((a - b) ^ 2) with (D ^ 2 * ((a - b) ^ 2 / D ^ 2)) at 2 by (field; lra).
  apply Rmult_le_compat_r; assumption.
Qed.

(* with true cumulative lengths it is an isometry: arc-length parametrisation *)
Theorem segment_isometry x0 y0 x1 y1 d0 d1 a b :
  d0 < d1 -> (x1 - x0) ^ 2 + (y1 - y0) ^ 2 = (d1 - d0) ^ 2 ->
  (interp_R x0 x1 d0 d1 a - interp_R x0 x1 d0 d1 b) ^ 2 +
  (interp_R y0 y1 d0 d1 a - interp_R y0 y1 d0 d1 b) ^ 2 = (a - b) ^ 2.
Proof.
  intros Hd Hl. rewrite !interp_R_affine by (apply Rgt_not_eq; lra).
  set (D := d1 - d0) in *. assert (HD : 0 < D) by (unfold D; lra).
  replace (((x1 - x0) * ((a - b) / D)) ^ 2 + ((y1 - y0) * ((a - b) / D)) ^ 2)
    with (((x1 - x0) ^ 2 + (y1 - y0) ^ 2) * ((a - b) ^ 2 / D ^ 2)) by (field; lra).
  rewrite Hl. field. lra.
Qed.

(* the point stays on the segment: weight in [0, 1] for d0 <= d <= d1 *)
Lemma interp_R_convex c0 c1 d0 d1 d : d0 < d1 -> d0 <= d <= d1 ->
  exists w, 0 <= w <= 1 /\ interp_R c0 c1 d0 d1 d = (1 - w) * c0 + w * c1.
Proof.
  intros Hd Hr. exists ((d - d0) / (d1 - d0)). split.
  - split.
    + apply Rmult_le_pos; [lra|]. apply Rlt_le, Rinv_0_lt_compat. lra.
    + apply (Rmult_le_reg_r (d1 - d0)); [lra|]. unfold Rdiv. rewrite Rmult_assoc, Rinv_l by lra. lra.
  - unfold interp_R, interp_coord_g. field. lra.
Qed.

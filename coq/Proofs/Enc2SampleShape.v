(* Enc2SampleShape: the hypotheses [samples_image] / [kind_image] of the T02b round-trip theorems
   (Proofs/EncObjectsRT.v) hold of every hit object of every decoded map: the sample list is the
   primary sample followed by finish / whistle / clap in one real bank, with the "bank was given"
   flag a function of the name (as SamplePoint::apply leaves it); a circle carries a combo offset
   only next to the new-combo flag; a spinner sits at the fixed centre.  Uses that every sample
   point of a decoded map carries a real bank (1..3): the decoder replaces None by Normal
   (TimingPointsValues.good_sp) and every bank is an enum value (EncImage). *)
From RM Require Import Model.EncPathSpec Model.EncObjCarry Proofs.EncText Proofs.EncFmt Proofs.EncImage Proofs.EncObjectsRT Proofs.EncMapImage Proofs.FramingFacts
     Proofs.DecodersFacts Proofs.DecodersTotal Proofs.MapLevelFacts Proofs.TimingPointsValues
     Proofs.Enc2Values Proofs.Enc2Samples.
From RM Require Import Gen.Generated.
From Coq Require Import ZifyBool Permutation.
Open Scope Z_scope.

Definition obj_shape (h : HitObject) : Prop :=
  kind_image (h_kind h) = true /\ samples_image (h_samples h) = true.

Lemma post_process_inv bs : forall objs, Forall line_inv objs ->
  Forall line_inv (post_process_breaks h_start force_new_combo bs objs).
Proof.
  intros objs. revert bs. induction objs as [|h r IH]; intros bs H; cbn [post_process_breaks]; [constructor|].
  inversion H as [|? ? Hh Hr]; subst. destruct (skip_breaks bs (h_start h) false) as [bs' f].
  constructor; [apply force_new_combo_inv; exact Hh|apply IH; exact Hr].
Qed.

Section WithDist.
  Variable dist_of : Z -> list PCP -> option F64 -> outcome F64.

  Lemma process_objects_shape c sm mode : (forall p, In p (cp_sample c) -> bank13 (sp_bank p) = true) ->
    forall l l', Forall line_inv l -> process_objects dist_of c sm mode l = Done l' -> Forall obj_shape l'.
  Proof.
    intros Hc. induction l as [|h r IH]; intros l' Hl H; cbn [process_objects] in H.
    - injection H as <-. constructor.
    - inversion Hl as [|? ? Hh Hr]; subst.
      destruct (process_object dist_of c sm mode h) as [h'|w|] eqn:Eh; cbn [obind] in H; try discriminate.
      destruct (process_objects dist_of c sm mode r) as [r'|w|] eqn:Er; cbn [obind] in H; try discriminate.
      injection H as <-. constructor; [exact (processed_object_inv dist_of c sm mode h h' Hh Hc Eh)|exact (IH r' Hr eq_refl)].
  Qed.

  Definition line_inv_inv (os : outcome BMD) : Prop :=
    match os with Done b => Forall line_inv (hod_objects (bmd_ho b)) | _ => True end.

  Lemma line_inv_step sec os l : line_inv_inv os -> line_inv_inv (fst (parser_of bm_parsers sec os l)).
  Proof.
    intros Hos. destruct os as [b|w|]; [|destruct sec; exact I|destruct sec; exact I].
    cbn [line_inv_inv] in Hos. destruct b as [ver ed md co ho]. destruct ho as [tp df ev last curve verts objs].
    cbn [bmd_ho hod_objects] in Hos.
    destruct sec; cbn [parser_of bm_parsers p_general p_editor p_metadata p_difficulty p_events p_timing_points
                       p_colors p_hit_objects p_variables p_catch_the_beat p_mania];
      unfold liftp, liftt, on_ho, noop; cbn [obind bmd_ho bmd_version bmd_editor bmd_metadata bmd_colors fst].
    - unfold hod_parse_general. destruct (tpd_parse_general _ l) as [g r]. cbn [obind fst line_inv_inv bmd_ho hod_with_tp hod_objects]. exact Hos.
    - unfold bmd_parse_editor. destruct (parse_editor _ l) as [e r]. cbn [fst line_inv_inv bmd_ho hod_objects]. exact Hos.
    - unfold bmd_parse_metadata. destruct (parse_metadata _ l) as [m r]. cbn [fst line_inv_inv bmd_ho hod_objects]. exact Hos.
    - unfold hod_parse_difficulty. destruct (parse_difficulty _ l) as [d r]. cbn [obind fst line_inv_inv bmd_ho hod_objects]. exact Hos.
    - unfold hod_parse_events. destruct (parse_events _ l) as [e r]. cbn [obind fst line_inv_inv bmd_ho hod_objects]. exact Hos.
    - unfold hod_parse_timing_points. destruct (tpd_parse_timing_points _ l) as [[t r]|w|]; cbn [obind fst line_inv_inv]; try exact I.
      cbn [bmd_ho hod_with_tp hod_objects]. exact Hos.
    - unfold bmd_parse_colors. destruct (parse_colors _ l) as [c r]. cbn [fst line_inv_inv bmd_ho hod_objects]. exact Hos.
    - unfold hod_parse_hit_objects. destruct (parse_hit_objects _ l) as [[c r]|w|] eqn:E; cbn [obind fst line_inv_inv]; try exact I.
      cbn [bmd_ho hod_with_core hod_objects]. eapply parse_line_inv; [|exact E]. exact Hos.
    - exact Hos.
    - exact Hos.
    - exact Hos.
  Qed.

  (* every sample point of a decoded map carries a real bank *)
  Lemma decoded_banks13 lines m : Forall no_lf_line lines -> decode_beatmap dist_of lines = Done m ->
    forall p, In p (cp_sample (hov_control_points (bmv_ho m))) -> bank13 (sp_bank p) = true.
  Proof.
    intros Hl Hd p Hin.
    pose proof (decode_image_pre dist_of lines m Hl Hd) as Hp. unfold simple_pre in Hp. apply andb_prop_r in Hp.
    unfold sample_banks_ok in Hp. rewrite forallb_forall in Hp. specialize (Hp p Hin).
    destruct (decoded_cp_ranges dist_of lines m Hd) as (_ & _ & _ & Hs). rewrite Forall_forall in Hs.
    destruct (Hs p Hin) as ((_ & Hb & _) & _). unfold bank_none in Hb. unfold enum4_ok in Hp. unfold bank13. lia.
  Qed.

  Theorem decoded_objects_shape lines m :
    Forall no_lf_line lines -> decode_beatmap dist_of lines = Done m ->
    Forall obj_shape (hov_hit_objects (bmv_ho m)).
  Proof.
    intros Hl Hd. pose proof (decoded_banks13 lines m Hl Hd) as Hb.
    assert (G : forall m0, decode_beatmap dist_of lines = Done m0 ->
              (forall p, In p (cp_sample (hov_control_points (bmv_ho m0))) -> bank13 (sp_bank p) = true) ->
              Forall obj_shape (hov_hit_objects (bmv_ho m0))); [|exact (G m Hd Hb)].
    unfold decode_beatmap.
    assert (Hc : forall v, line_inv_inv (Done (bmd_create v))) by (intros v; cbn; constructor).
    apply (driver_invariant _ _ _ line_inv_inv Hc line_inv_step
             (fun ov => forall m0, ov = Done m0 ->
                (forall p, In p (cp_sample (hov_control_points (bmv_ho m0))) -> bank13 (sp_bank p) = true) ->
                Forall obj_shape (hov_hit_objects (bmv_ho m0)))).
    intros st Hst m0. destruct st as [s|w|]; cbn [obind]; try discriminate.
    cbn [line_inv_inv] in Hst. intros Hf Hb0.
    destruct (bmd_finish_inv dist_of s m0 Hf) as (_ & _ & _ & _ & Hh).
    destruct (hod_finish_inv dist_of _ _ Hh) as (_ & _ & _ & _ & Hfin).
    unfold finish_hit_objects in Hfin.
    eapply process_objects_shape; [exact Hb0| |exact Hfin].
    apply post_process_inv. eapply Permutation_Forall; [|exact Hst]. symmetry. apply ssort_perm.
  Qed.
End WithDist.

(* ---------- T02b on decoded maps ---------- *)

(* [object_ok] for the circles, spinners and holds of decoded maps, outside D30 (sample file name
   ending in white space) and D26 (end time beyond the parse limit) *)
Definition d26_class (h : HitObject) : bool :=
  match h_kind h with
  | KSpinner s => negb (in_lim64 (D.add (h_start h) (sp_duration s)))
  | KHold hd => negb (in_lim64 (D.add (h_start h) (hd_duration hd)))
  | _ => false
  end.

Section Decoded.
  Variable dist_of : Z -> list PCP -> option F64 -> outcome F64.

  Theorem decoded_object_ok lines m h :
    Forall no_lf_line lines -> decode_beatmap dist_of lines = Done m -> In h (hov_hit_objects (bmv_ho m)) ->
    (match h_kind h with KSlider _ => False | _ => True end) ->
    d30_class h = false -> d26_class h = false -> object_ok h = true.
  Proof.
    intros Hl Hd Hin Hk H30 H26.
    pose proof (decoded_objects_image dist_of lines m Hd) as Hi. rewrite Forall_forall in Hi. specialize (Hi h Hin).
    pose proof (decoded_samples_img dist_of lines m Hl Hd) as Hs. rewrite Forall_forall in Hs. specialize (Hs h Hin).
    cbv beta in Hi, Hs. unfold object_image in Hi. unfold obj_simg in Hs. unfold d30_class in H30. unfold d26_class in H26.
    apply andb_true_iff in Hi. destruct Hi as [Ht Hi]. apply andb_true_iff in Hs. destruct Hs as [Hs _].
    apply orb_false_iff in H30. destruct H30 as [H30 _].
    unfold object_ok. rewrite Ht, (forallb_img_ok _ Hs H30). cbn [andb].
    destruct (h_kind h) as [c|s|sp|hd]; try contradiction.
    - exact Hi.
    - apply negb_false_iff in H26. rewrite Hi, H26. reflexivity.
    - apply negb_false_iff in H26. rewrite Hi, H26. reflexivity.
  Qed.

  Variables (fmt_f64 : F64 -> str) (fmt_f32 : F32 -> str) (fmt_int : Z -> str).
  Hypothesis Hfmt : fmt_ok fmt_f64 fmt_f32 fmt_int.
  Notation rline := (render fmt_f64 fmt_f32 fmt_int).

  (* a circle of a decoded map, outside D30: the line is accepted in every parser state and the
     object read back is the circle up to [carry] (the new-combo flag re-derived from the state) *)
  Theorem decoded_circle_round_trip lines m mode h c l :
    Forall no_lf_line lines -> decode_beatmap dist_of lines = Done m -> In h (hov_hit_objects (bmv_ho m)) ->
    h_kind h = KCircle c -> d30_class h = false -> object_line dist_of mode h = Done l ->
    forall st, exists st' o,
      parse_hit_objects st (rline l) = Done (st', Ok) /\ st' = push st o /\
      ho_objects st' = ho_objects st ++ [o] /\
      carry_object o =
        carry_object (mkHObj (h_start h)
                             (KCircle (mkCircle (ci_pos c) (forced_new_combo st (ci_new_combo c))
                                                (if ci_new_combo c then ci_combo_offset c else 0)))
                             (h_samples h)) /\
      (combo_kept st c = true -> carry_object o = carry_object h).
  Proof.
    intros Hl Hd Hin Hk H30 Hline.
    assert (Hok : object_ok h = true).
    { apply (decoded_object_ok lines m h Hl Hd Hin); [rewrite Hk; exact I|exact H30|unfold d26_class; rewrite Hk; reflexivity]. }
    pose proof (decoded_objects_shape dist_of lines m Hl Hd) as Hsh. rewrite Forall_forall in Hsh.
    destruct (Hsh h Hin) as (_ & Hsi).
    exact (circle_line_round_trip fmt_f64 fmt_f32 fmt_int Hfmt dist_of mode h c l Hk Hok Hsi Hline).
  Qed.

  (* spinners and holds: additionally outside D26, and with the float side condition on the two
     time operations (proved for integer-valued times: EncObjTimes.decoded_times_ok_partial) *)
  Theorem decoded_spinner_round_trip lines m mode h s l :
    Forall no_lf_line lines -> decode_beatmap dist_of lines = Done m -> In h (hov_hit_objects (bmv_ho m)) ->
    h_kind h = KSpinner s -> d30_class h = false -> d26_class h = false ->
    spinner_time_ok (h_start h) (sp_duration s) -> object_line dist_of mode h = Done l ->
    forall st, exists st' o,
      parse_hit_objects st (rline l) = Done (st', Ok) /\ st' = push st o /\
      ho_objects st' = ho_objects st ++ [o] /\ carry_object o = carry_object h.
  Proof.
    intros Hl Hd Hin Hk H30 H26 Ht Hline.
    assert (Hok : object_ok h = true).
    { apply (decoded_object_ok lines m h Hl Hd Hin); [rewrite Hk; exact I|exact H30|exact H26]. }
    pose proof (decoded_objects_shape dist_of lines m Hl Hd) as Hsh. rewrite Forall_forall in Hsh.
    destruct (Hsh h Hin) as (_ & Hsi).
    exact (spinner_line_round_trip fmt_f64 fmt_f32 fmt_int Hfmt dist_of mode h s l Hk Hok Hsi Ht Hline).
  Qed.

  Theorem decoded_hold_round_trip lines m mode h hd l :
    Forall no_lf_line lines -> decode_beatmap dist_of lines = Done m -> In h (hov_hit_objects (bmv_ho m)) ->
    h_kind h = KHold hd -> d30_class h = false -> d26_class h = false ->
    hold_time_ok (h_start h) (hd_duration hd) -> object_line dist_of mode h = Done l ->
    forall st, exists st' o,
      parse_hit_objects st (rline l) = Done (st', Ok) /\ st' = push st o /\
      ho_objects st' = ho_objects st ++ [o] /\ carry_object o = carry_object h.
  Proof.
    intros Hl Hd Hin Hk H30 H26 Ht Hline.
    assert (Hok : object_ok h = true).
    { apply (decoded_object_ok lines m h Hl Hd Hin); [rewrite Hk; exact I|exact H30|exact H26]. }
    pose proof (decoded_objects_shape dist_of lines m Hl Hd) as Hsh. rewrite Forall_forall in Hsh.
    destruct (Hsh h Hin) as (_ & Hsi).
    exact (hold_line_round_trip fmt_f64 fmt_f32 fmt_int Hfmt dist_of mode h hd l Hk Hok Hsi Ht Hline).
  Qed.
End Decoded.

Print Assumptions decoded_objects_shape.
Print Assumptions decoded_circle_round_trip.

(* DecodeNoPanic: C01 layers 2 + 3 (+ 1) composed, without any hypothesis.

   DecodersTotal reduces "decode_hit_objects / decode_beatmap return a value"
   to "[dist_of] returns a value".  Here the same reduction is done for the
   weaker outcome class "not a panic", and [dist_of] is instantiated with the
   curve model ([dist_of_curve lm], for every libm record), which never panics
   (CurveNoPanic).  Result: decoding any list of lines -- and, with the reader
   layer, any byte string -- is a value or, only if one of the two unbounded
   loops of curve.rs exhausts its fuel, [OutOfFuel]; never [Panic]. *)
From RM Require Import Model.Decoders Model.CurveDist Model.Reader Model.Encoding.
From RM Require Import Proofs.FramingFacts Proofs.ControlPointsFacts Proofs.HitObjectLineFacts
     Proofs.MapLevelFacts Proofs.DecodersFacts Proofs.DecodersTotal
     Proofs.ReaderFacts Proofs.EncodingFacts Proofs.TransparencyFacts Proofs.C01Bytes.
From RM Require Proofs.CurveNoPanic.
Open Scope Z_scope.

(* ------------------------------------------------------------------ *)
(* the curve distance of the model                                     *)

Theorem dist_of_curve_no_panic lm mode cps e w : dist_of_curve lm mode cps e <> Panic w.
Proof.
  unfold dist_of_curve, curve_of.
  pose proof (CurveNoPanic.curve_L1_no_panic lm Curve.bezier_fuel mode (map conv_pcp cps) e) as N.
  destruct (Curve.curve_L1 lm Curve.bezier_fuel mode (map conv_pcp cps) e) as [c|w'|]; cbn [obind].
  - discriminate.
  - exfalso. exact (N w' eq_refl).
  - discriminate.
Qed.

Corollary dist_of_curve_outcome lm mode cps e :
  (exists d, dist_of_curve lm mode cps e = Done d) \/ dist_of_curve lm mode cps e = OutOfFuel.
Proof.
  pose proof (dist_of_curve_no_panic lm mode cps e) as N.
  destruct (dist_of_curve lm mode cps e) as [d|w|]; [left; eauto|exfalso; exact (N w eq_refl)|right; reflexivity].
Qed.

(* ------------------------------------------------------------------ *)
(* line layer: a [dist_of] that never panics gives decoders that never   *)
(* panic                                                               *)

Definition nopanic {A} (o : outcome A) : Prop := forall w, o <> Panic w.

Lemma nopanic_cases {A} (o : outcome A) : nopanic o <-> (exists a, o = Done a) \/ o = OutOfFuel.
Proof.
  unfold nopanic. destruct o as [a|w|]; split; intros H.
  - left. eauto.
  - discriminate.
  - exfalso. exact (H w eq_refl).
  - destruct H as [[a H]|H]; discriminate.
  - right. reflexivity.
  - discriminate.
Qed.

Lemma nopanic_obind {A C} (o : outcome A) (g : A -> outcome C) :
  nopanic o -> (forall a, o = Done a -> nopanic (g a)) -> nopanic (obind o g).
Proof.
  unfold nopanic. destruct o as [a|w|]; cbn [obind]; intros Ho Hg.
  - exact (Hg a eq_refl).
  - exfalso. exact (Ho w eq_refl).
  - discriminate.
Qed.

Lemma nopanic_done {A} (a : A) : nopanic (Done a).
Proof. intros w. discriminate. Qed.

Section WithDist.
  Variable dist_of : Z -> list PCP -> option F64 -> outcome F64.
  Hypothesis dist_np : forall m cps e, nopanic (dist_of m cps e).

  Lemma process_object_np c sm mode h : cp_sorted c -> nopanic (process_object dist_of c sm mode h).
  Proof.
    intros (_ & Hd & _ & _). unfold process_object.
    apply nopanic_obind.
    - destruct (h_kind h) as [ci|s|sp|hd]; try apply nopanic_done.
      unfold difficulty_point_at. rewrite (at_opt_spec dp_time _ _ Hd). cbn [obind].
      apply nopanic_obind.
      + unfold slider_duration. apply nopanic_obind; [apply dist_np|]. intros; apply nopanic_done.
      + intros; apply nopanic_done.
    - intros [kind end_time] _. apply nopanic_done.
  Qed.

  Lemma process_objects_np c sm mode l : cp_sorted c -> nopanic (process_objects dist_of c sm mode l).
  Proof.
    intros Hc. induction l as [|h r IH]; cbn [process_objects]; [apply nopanic_done|].
    apply nopanic_obind; [apply process_object_np; exact Hc|]. intros h' _.
    apply nopanic_obind; [exact IH|]. intros; apply nopanic_done.
  Qed.

  Lemma hod_finish_np s : cp_sorted (tpd_cp (hod_tp s)) -> nopanic (hod_finish dist_of s).
  Proof.
    intros H. unfold hod_finish.
    destruct (tpd_finish_total (hod_tp s) H) as (tv & -> & Hc). cbn [obind].
    apply nopanic_obind; [|intros; apply nopanic_done].
    unfold finish_hit_objects. apply process_objects_np. exact Hc.
  Qed.

  Lemma bmd_finish_np s : cp_sorted (tpd_cp (hod_tp (bmd_ho s))) -> nopanic (bmd_finish dist_of s).
  Proof.
    intros H. unfold bmd_finish. apply nopanic_obind; [apply hod_finish_np; exact H|].
    intros; apply nopanic_done.
  Qed.

  Theorem decode_hit_objects_np lines : nopanic (decode_hit_objects dist_of lines).
  Proof.
    unfold decode_hit_objects.
    apply (driver_invariant _ _ _ ho_ok (fun _ => ho_ok_create) ho_ok_step (fun ov => nopanic ov)).
    intros st (s & -> & Hs). cbn [obind]. exact (hod_finish_np s Hs).
  Qed.

  Theorem decode_beatmap_np lines : nopanic (decode_beatmap dist_of lines).
  Proof.
    unfold decode_beatmap.
    apply (driver_invariant _ _ _ bm_ok bm_ok_create bm_ok_step (fun ov => nopanic ov)).
    intros st (s & -> & Hs). cbn [obind]. exact (bmd_finish_np s Hs).
  Qed.

  (* byte layer: a value, or out of fuel (only out of [dist_of]); never an
     Err (in-memory buffer: the reader reports no failure), never a panic *)
  Lemma from_bytes_beatmap_np b :
    (exists v, decode_bytes_beatmap dist_of b = IoDone v) \/
    (decode_bytes_beatmap dist_of b = IoFuel /\
     exists lines, read_all_lines (mk_reader b []) = IoDone lines /\
                   decode_beatmap dist_of lines = OutOfFuel).
  Proof.
    unfold decode_bytes_beatmap.
    destruct (clean_stream_never_fails b [] faultless_nil) as (lines & ->).
    cbn [io_bind]. pose proof (decode_beatmap_np lines) as N. apply nopanic_cases in N.
    destruct N as [(v & Hv)|Hf]; rewrite ?Hv, ?Hf; cbn [io_of_outcome].
    - left. eauto.
    - right. split; [reflexivity|]. exists lines. split; [reflexivity|exact Hf].
  Qed.

  Lemma from_bytes_hit_objects_np b :
    (exists v, decode_bytes_hit_objects dist_of b = IoDone v) \/
    (decode_bytes_hit_objects dist_of b = IoFuel /\
     exists lines, read_all_lines (mk_reader b []) = IoDone lines /\
                   decode_hit_objects dist_of lines = OutOfFuel).
  Proof.
    unfold decode_bytes_hit_objects.
    destruct (clean_stream_never_fails b [] faultless_nil) as (lines & ->).
    cbn [io_bind]. pose proof (decode_hit_objects_np lines) as N. apply nopanic_cases in N.
    destruct N as [(v & Hv)|Hf]; rewrite ?Hv, ?Hf; cbn [io_of_outcome].
    - left. eauto.
    - right. split; [reflexivity|]. exists lines. split; [reflexivity|exact Hf].
  Qed.
End WithDist.

(* ------------------------------------------------------------------ *)
(* instantiated with the curve model, for every libm record              *)

Theorem decode_never_panics lm lines :
  ((exists v, decode_hit_objects (dist_of_curve lm) lines = Done v) \/
   decode_hit_objects (dist_of_curve lm) lines = OutOfFuel) /\
  ((exists v, decode_beatmap (dist_of_curve lm) lines = Done v) \/
   decode_beatmap (dist_of_curve lm) lines = OutOfFuel).
Proof.
  split; apply nopanic_cases.
  - apply decode_hit_objects_np. intros m cps e w. apply dist_of_curve_no_panic.
  - apply decode_beatmap_np. intros m cps e w. apply dist_of_curve_no_panic.
Qed.

Theorem decode_no_panic lm lines w :
  decode_hit_objects (dist_of_curve lm) lines <> Panic w /\
  decode_beatmap (dist_of_curve lm) lines <> Panic w.
Proof.
  split.
  - apply decode_hit_objects_np. intros m cps e w'. apply dist_of_curve_no_panic.
  - apply decode_beatmap_np. intros m cps e w'. apply dist_of_curve_no_panic.
Qed.

Theorem decode_bytes_never_panics lm b :
  ((exists v, decode_bytes_beatmap (dist_of_curve lm) b = IoDone v) \/
   decode_bytes_beatmap (dist_of_curve lm) b = IoFuel) /\
  ((exists v, decode_bytes_hit_objects (dist_of_curve lm) b = IoDone v) \/
   decode_bytes_hit_objects (dist_of_curve lm) b = IoFuel).
Proof.
  assert (N : forall m cps e, nopanic (dist_of_curve lm m cps e)).
  { intros m cps e w. apply dist_of_curve_no_panic. }
  split.
  - destruct (from_bytes_beatmap_np _ N b) as [H|[H _]]; auto.
  - destruct (from_bytes_hit_objects_np _ N b) as [H|[H _]]; auto.
Qed.

Corollary decode_bytes_no_panic lm b w :
  decode_bytes_beatmap (dist_of_curve lm) b <> IoPanic w /\
  decode_bytes_hit_objects (dist_of_curve lm) b <> IoPanic w.
Proof.
  destruct (decode_bytes_never_panics lm b) as [H1 H2]. split.
  - destruct H1 as [(v & ->)| ->]; discriminate.
  - destruct H2 as [(v & ->)| ->]; discriminate.
Qed.

(* no Err either: from_bytes cannot return an io::Error *)
Corollary decode_bytes_no_error lm b k :
  decode_bytes_beatmap (dist_of_curve lm) b <> IoErr k /\
  decode_bytes_hit_objects (dist_of_curve lm) b <> IoErr k.
Proof.
  destruct (decode_bytes_never_panics lm b) as [H1 H2]. split.
  - destruct H1 as [(v & ->)| ->]; discriminate.
  - destruct H2 as [(v & ->)| ->]; discriminate.
Qed.

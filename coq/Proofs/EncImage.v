(* EncImage: the decoder's image satisfies the representability predicates of
   Model/EncSpec.v ([decode_image_inv]): strings are trimmed and contain no
   line break, numbers are within the parse limits, clamped values lie in
   their clamp range, ...  First for each of the six section parsers, one line
   at a time; then lifted through the framing driver to [decode_beatmap]. *)
From RM Require Import Model.EncSpec Proofs.EncText Proofs.EncFloat Proofs.FloatCmp Proofs.NumFacts Proofs.FramingFacts Proofs.TimingPointsValues.
From RM Require Import Gen.Generated.
From Flocq Require Import BinarySingleNaN.
From Coq Require Import ZifyBool.
Open Scope Z_scope.

(* ---------- contiguous substrings ---------- *)

Definition sub (a s : str) : Prop := exists p q, s = p ++ a ++ q.

Lemma sub_refl s : sub s s.
Proof. exists [], []. rewrite app_nil_r. reflexivity. Qed.
Lemma sub_trans a b c : sub a b -> sub b c -> sub a c.
Proof.
  intros (p & q & ->) (p' & q' & ->). exists (p' ++ p), (q ++ q'). repeat rewrite <- app_assoc. reflexivity.
Qed.
Lemma sub_prefix a q : sub a (a ++ q). Proof. exists [], q. reflexivity. Qed.
Lemma sub_suffix p a : sub a (p ++ a). Proof. exists p, []. rewrite app_nil_r. reflexivity. Qed.

Lemma sub_trim_start s : sub (trim_start s) s.
Proof. destruct (trim_start_suffix s) as [w E]. rewrite E at 2. apply sub_suffix. Qed.
Lemma sub_trim_end s : sub (trim_end s) s.
Proof. destruct (trim_end_prefix s) as [w E]. rewrite E at 2. apply sub_prefix. Qed.
Lemma sub_trim s : sub (trim s) s.
Proof. unfold trim. eapply sub_trans; [apply sub_trim_end|apply sub_trim_start]. Qed.

Lemma memb_sub c a s : sub a s -> memb c s = false -> memb c a = false.
Proof.
  intros (p & q & ->) H. rewrite !memb_app in H. apply orb_false_iff in H. destruct H as [_ H].
  apply orb_false_iff in H. tauto.
Qed.

Lemma has_ss_drop p : forall x, has_ss (p ++ x) = false -> has_ss x = false.
Proof.
  induction p as [|c p IH]; intros x H; [exact H|]. cbn [app has_ss] in H.
  apply orb_false_iff in H. apply IH. tauto.
Qed.
Lemma has_ss_take a : forall q, has_ss (a ++ q) = false -> has_ss a = false.
Proof.
  induction a as [|c a IH]; intros q H; [reflexivity|]. cbn [app has_ss] in H.
  apply orb_false_iff in H. destruct H as [H1 H2]. cbn [has_ss]. rewrite (IH _ H2), orb_false_r.
  destruct a as [|d a']; [apply andb_false_r|exact H1].
Qed.
Lemma has_ss_sub a s : sub a s -> has_ss s = false -> has_ss a = false.
Proof. intros (p & q & ->) H. apply has_ss_drop in H. exact (has_ss_take _ _ H). Qed.

(* before_first: a prefix without "//" *)
Lemma before_first_prefix p : forall s pre, before_first p s = Some pre -> exists q, s = pre ++ q.
Proof.
  induction s as [|c r IH]; intros pre H; cbn [before_first] in H.
  - destruct (starts_with p []); [|discriminate]. inversion H. exists []. reflexivity.
  - destruct (starts_with p (c :: r)).
    + inversion H. exists (c :: r). reflexivity.
    + destruct (before_first p r) as [pre'|] eqn:E; [|discriminate]. inversion H; subst.
      destruct (IH _ eq_refl) as [q ->]. exists q. reflexivity.
Qed.

Lemma before_first_no_ss : forall s pre, before_first slashes s = Some pre -> has_ss pre = false.
Proof.
  induction s as [|c r IH]; intros pre H; cbn [before_first] in H.
  - destruct (starts_with slashes []); inversion H; reflexivity.
  - rewrite starts_with_slashes in H. destruct ((c =? slash) && first_is slash r) eqn:E.
    + inversion H. reflexivity.
    + destruct (before_first slashes r) as [pre'|] eqn:Eb; [|discriminate]. inversion H; subst.
      cbn [has_ss]. rewrite (IH _ eq_refl), orb_false_r.
      destruct (before_first_prefix _ _ _ Eb) as [q ->].
      destruct pre' as [|d t]; [apply andb_false_r|exact E].
Qed.

Lemma before_first_none_no_ss : forall s, before_first slashes s = None -> has_ss s = false.
Proof.
  induction s as [|c r IH]; intros H; [reflexivity|]. cbn [before_first] in H.
  rewrite starts_with_slashes in H. destruct ((c =? slash) && first_is slash r) eqn:E; [discriminate|].
  destruct (before_first slashes r) eqn:Eb; [discriminate|]. cbn [has_ss]. rewrite E, (IH eq_refl). reflexivity.
Qed.

Lemma trim_comment_sub s : sub (trim_comment s) s.
Proof.
  unfold trim_comment. destruct (before_first slashes s) as [pre|] eqn:E; cbn [odflt].
  - destruct (before_first_prefix _ _ _ E) as [q ->].
    eapply sub_trans; [apply sub_trim_end|apply sub_prefix].
  - apply sub_trim_end.
Qed.

Lemma trim_comment_no_ss s : has_ss (trim_comment s) = false.
Proof.
  unfold trim_comment. destruct (before_first slashes s) as [pre|] eqn:E; cbn [odflt].
  - apply (has_ss_sub _ pre (sub_trim_end pre)). exact (before_first_no_ss _ _ E).
  - apply (has_ss_sub _ s (sub_trim_end s)). exact (before_first_none_no_ss _ E).
Qed.

(* cutting at the first colon *)
Lemma split_once_parts d : forall s a b, split_once d s = Some (a, b) -> s = a ++ d :: b /\ memb d a = false.
Proof.
  induction s as [|c r IH]; intros a b H; cbn [split_once] in H; [discriminate|].
  destruct (c =? d) eqn:E.
  - inversion H; subst. assert (c = d) by lia. subst. split; reflexivity.
  - destruct (split_once d r) as [[a' b']|] eqn:Es; [|discriminate]. inversion H; subst.
    destruct (IH _ _ eq_refl) as [-> Hm]. split; [reflexivity|].
    cbn [memb existsb]. rewrite Z.eqb_sym, E. exact Hm.
Qed.

(* key and value of a record: substrings of the record, trimmed; the key has no colon *)
Lemma kv_pieces_facts s k v : kv_pieces s = (k, v) ->
  sub k s /\ sub v s /\ tidyb k = true /\ tidyb v = true /\ memb colon k = false.
Proof.
  unfold kv_pieces. destruct (split_once colon s) as [[a b]|] eqn:E; cbn [odflt]; intros H; inversion H; subst.
  - destruct (split_once_parts _ _ _ _ E) as [-> Hm].
    refine (conj _ (conj _ (conj _ (conj _ _)))).
    + eapply sub_trans; [apply sub_trim|apply sub_prefix].
    + eapply sub_trans; [apply sub_trim|]. exists (a ++ [colon]), []. rewrite app_nil_r, <- app_assoc. reflexivity.
    + apply tidy_trim.
    + apply tidy_trim.
    + exact (memb_sub _ _ _ (sub_trim a) Hm).
  - refine (conj _ (conj _ (conj _ (conj _ _)))).
    + apply sub_trim.
    + exists [], s. reflexivity.
    + apply tidy_trim.
    + reflexivity.
    + apply (memb_sub _ _ _ (sub_trim s)). apply split_once_none_memb. exact E.
Qed.

(* ---------- numbers accepted by the decoder are representable ---------- *)

Lemma pn_i32_ok v n : pn_i32 v = Some n -> i32_ok n = true.
Proof. intros H. apply pn_i32_spec in H. destruct H as [_ H]. unfold i32_ok. lia. Qed.

Lemma pn_f64_ok v x : pn_f64 v = Some x -> in_lim64 x = true.
Proof.
  intros H. apply pn_f64_spec in H. destruct H as (_ & H0 & H1 & H2).
  unfold in_lim64. change lim64 with f64_limit. unfold D.is_nan, fis_nan in *. rewrite H0, H1, H2. reflexivity.
Qed.
Lemma pn_f32_ok v x : pn_f32 v = Some x -> in_lim32 x = true.
Proof.
  intros H. apply pn_f32_spec in H. destruct H as (_ & H0 & H1 & H2).
  unfold in_lim32. change lim32 with f32_limit. unfold S.is_nan, fis_nan in *. rewrite H0, H1, H2. reflexivity.
Qed.

Lemma raw_i32_range s n : parse_i32_raw s = Some n -> raw_i32_ok n = true.
Proof. intros H. apply parse_int_raw_spec in H. destruct H as [_ H]. unfold raw_i32_ok. lia. Qed.
Lemma raw_u8_range s n : parse_u8_raw s = Some n -> u8_ok n = true.
Proof. intros H. apply parse_int_raw_spec in H. destruct H as [_ H]. unfold u8_ok. lia. Qed.

Lemma sf_eqb_refl a : sf_eqb a a = true.
Proof. destruct a as [s|s| |s m e]; cbn; rewrite ?eqb_reflx, ?Pos.eqb_refl, ?Z.eqb_refl; reflexivity. Qed.
Lemma f64_eqb_refl x : f64_eqb x x = true. Proof. apply sf_eqb_refl. Qed.

Lemma lead_in_of_Z n : i32_ok n = true -> lead_in_ok (D.of_Z n) = true.
Proof.
  intros H. unfold lead_in_ok.
  assert (E : f64_as_i32 (D.of_Z n) = n) by (apply f64_as_i32_of_Z; unfold i32_ok, max_parse_value in H; lia).
  rewrite E, H, f64_eqb_refl. reflexivity.
Qed.

Lemma assoc_str_in {A} (tbl : list (string * A)) v a : assoc_str tbl v = Some a -> In a (map snd tbl).
Proof.
  induction tbl as [|[n x] r IH]; cbn [assoc_str map]; [discriminate|].
  destruct (str_eqb (lit n) v); [intros [= <-]; left; reflexivity|]. intros H. right. exact (IH H).
Qed.
Lemma game_mode_enum v n : assoc_str game_mode_table v = Some n -> enum4_ok n = true.
Proof.
  intros H. apply assoc_str_in in H. cbn in H.
  repeat (destruct H as [<- | H]; [reflexivity|]). contradiction.
Qed.
Lemma countdown_enum v n : assoc_str countdown_table v = Some n -> enum4_ok n = true.
Proof.
  intros H. apply assoc_str_in in H. cbn in H.
  repeat (destruct H as [<- | H]; [reflexivity|]). contradiction.
Qed.
Lemma sample_bank_enum v n : assoc_str sample_bank_table v = Some n -> enum4_ok n = true.
Proof.
  intros H. apply assoc_str_in in H. cbn in H.
  repeat (destruct H as [<- | H]; [reflexivity|]). contradiction.
Qed.

(* ---------- text produced by the decoder ---------- *)

Definition no_lf_b (s : str) : bool := negb (memb ch_lf s).

(* `\` -> `/` is a character map *)
Lemma replace_sub_aux_map c d : forall s fuel, (length s < fuel)%nat ->
  replace_sub_aux fuel [c] [d] s = map (fun x => if x =? c then d else x) s.
Proof.
  induction s as [|x r IH]; intros fuel Hf.
  - destruct fuel; [inversion Hf|]. reflexivity.
  - destruct fuel as [|k]; [inversion Hf|]. cbn [replace_sub_aux strip_prefix map].
    rewrite (Z.eqb_sym c x). destruct (x =? c).
    + cbn [app]. f_equal. apply IH. cbn in Hf. lia.
    + f_equal. apply IH. cbn in Hf. lia.
Qed.
Definition bs_map (x : char) : char := if x =? backslash then 47 else x.
Lemma to_standardized_path_map s : to_standardized_path s = map bs_map s.
Proof. unfold to_standardized_path, replace_sub. apply replace_sub_aux_map. lia. Qed.

Lemma map_first_ws (f : char -> char) s : (forall c, is_ws (f c) = is_ws c) -> first_ws (map f s) = first_ws s.
Proof. intros H. destruct s; [reflexivity|]. cbn. apply H. Qed.

Lemma tidyb_map (f : char -> char) s : (forall c, is_ws (f c) = is_ws c) -> tidyb (map f s) = tidyb s.
Proof.
  intros H. unfold tidyb, last_ws. rewrite <- map_rev.
  rewrite (map_first_ws f s H), (map_first_ws f (rev s) H). reflexivity.
Qed.

Lemma std_path_facts s : tidyb s = true -> memb ch_lf s = false ->
  file_pre (to_standardized_path s) = true.
Proof.
  intros Ht Hl. rewrite to_standardized_path_map. set (f := bs_map). assert (Ef : f = bs_map) by reflexivity.
  assert (Hws : forall c, is_ws (f c) = is_ws c).
  { intros c. unfold f, bs_map. destruct (c =? backslash) eqn:E; [|reflexivity]. assert (c = 92) by (unfold backslash in E; lia).
    subst. reflexivity. }
  assert (Tm : tidyb (map f s) = true) by (rewrite (tidyb_map f s Hws); exact Ht).
  unfold file_pre, str_ok. rewrite Tm. cbn [andb].
  assert (M : forall c, (forall x, f x = c -> x = c \/ (x = backslash /\ c = 47)) -> memb c s = false ->
              (c = 47 -> memb backslash s = false) -> memb c (map f s) = false).
  { intros c Hc Hm Hb. unfold memb in *. destruct (existsb (Z.eqb c) (map f s)) eqn:E; [|reflexivity].
    apply existsb_exists in E. destruct E as (y & Hy & Ey). apply in_map_iff in Hy. destruct Hy as (x & Hx & Hin).
    assert (Eyc : y = c) by lia. rewrite Eyc in Hx. clear Eyc Ey. destruct (Hc x Hx) as [-> | [-> ->]].
    - assert (existsb (Z.eqb c) s = true) by (apply existsb_exists; exists c; split; [exact Hin|lia]). congruence.
    - specialize (Hb eq_refl).
      assert (existsb (Z.eqb backslash) s = true) by (apply existsb_exists; exists backslash; split; [exact Hin|reflexivity]).
      congruence. }
  assert (Hlf : memb ch_lf (map f s) = false).
  { apply M; [|exact Hl|discriminate]. intros x Hx. unfold f, bs_map in Hx. destruct (x =? backslash); [discriminate Hx|left; exact Hx]. }
  assert (Hbs : memb backslash (map f s) = false).
  { unfold memb. destruct (existsb (Z.eqb backslash) (map f s)) eqn:E; [|reflexivity].
    apply existsb_exists in E. destruct E as (y & Hy & Ey). apply in_map_iff in Hy. destruct Hy as (x & Hx & _).
    unfold f, bs_map in Hx. destruct (x =? backslash) eqn:Ex; unfold backslash in *; lia. }
  rewrite Hlf, Hbs. reflexivity.
Qed.

Lemma kv_parse_facts {K} (from_str : str -> option K) s key v :
  kv_parse from_str s = Some (key, v) -> sub v s /\ tidyb v = true.
Proof.
  unfold kv_parse. destruct (kv_pieces s) as [k v'] eqn:E. destruct (from_str k); [|discriminate].
  intros [= <- <-]. destruct (kv_pieces_facts _ _ _ E) as (_ & Hs & _ & Ht & _). split; assumption.
Qed.

Ltac split_ands H :=
  repeat match type of H with _ && _ = true => let X := fresh "P" in
           apply andb_true_iff in H; destruct H as [H X] end.
Ltac lsplit := match goal with
               | |- ?a && ?b = true => apply andb_true_iff; split; [lsplit|]
               | _ => idtac
               end.
Ltac solve_ands := lsplit; try assumption.

(* ---------- [General] ---------- *)

Lemma parse_general_pre st l : memb ch_lf l = false -> general_pre st = true ->
  general_pre (fst (parse_general st l)) = true.
Proof.
  intros Hl Hst. unfold parse_general.
  destruct (kv_parse general_key_from_str (trim_comment l)) as [[key v]|] eqn:E; [|exact Hst].
  destruct (kv_parse_facts _ _ _ _ E) as [Hsub Hv].
  assert (Hlf : memb ch_lf v = false).
  { apply (memb_sub _ _ _ Hsub). apply (memb_sub _ _ _ (trim_comment_sub l)). exact Hl. }
  unfold general_pre in Hst. split_ands Hst.
  destruct key;
    repeat match goal with
           | |- context [pn_i32 v] => let n := fresh "n" in let En := fresh "En" in
                                      destruct (pn_i32 v) as [n|] eqn:En
           | |- context [pn_f32 v] => let n := fresh "x" in let En := fresh "En" in
                                      destruct (pn_f32 v) as [n|] eqn:En
           | |- context [assoc_str ?t v] => let n := fresh "n" in let En := fresh "En" in
                                      destruct (assoc_str t v) as [n|] eqn:En
           end;
    cbn [fst]; unfold general_pre;
    cbn [g_audio_file g_audio_lead_in g_preview_time g_stack_leniency g_mode g_countdown g_countdown_offset
         g_default_sample_bank set_g_audio_file set_g_audio_lead_in set_g_preview_time set_g_default_sample_bank
         set_g_default_sample_volume set_g_stack_leniency set_g_mode set_g_letterbox_in_breaks
         set_g_special_style set_g_widescreen_storyboard set_g_epilepsy_warning
         set_g_samples_match_playback_rate set_g_countdown set_g_countdown_offset];
    solve_ands.
  - exact (std_path_facts v Hv Hlf).
  - exact (lead_in_of_Z _ (pn_i32_ok _ _ En)).
  - exact (pn_i32_ok _ _ En).
  - exact (sample_bank_enum _ _ En).
  - exact (pn_f32_ok _ _ En).
  - exact (game_mode_enum _ _ En).
  - exact (countdown_enum _ _ En).
  - exact (pn_i32_ok _ _ En).
Qed.

(* ---------- [Editor] ---------- *)

Lemma filter_map_raw_ok l : forallb i32_ok (KeyValue.filter_map pn_i32 l) = true.
Proof.
  induction l as [|x r IH]; [reflexivity|]. cbn [KeyValue.filter_map].
  destruct (pn_i32 x) as [n|] eqn:E; [|exact IH]. cbn [forallb]. rewrite (pn_i32_ok _ _ E), IH. reflexivity.
Qed.

Lemma parse_editor_ok st l : editor_ok st = true -> editor_ok (fst (parse_editor st l)) = true.
Proof.
  intros Hst. unfold parse_editor.
  destruct (kv_parse editor_key_from_str (trim_comment l)) as [[key v]|] eqn:E; [|exact Hst].
  unfold editor_ok in Hst. split_ands Hst.
  destruct key;
    repeat match goal with
           | |- context [pn_i32 v] => let n := fresh "n" in let En := fresh "En" in
                                      destruct (pn_i32 v) as [n|] eqn:En
           | |- context [pn_f64 v] => let n := fresh "x" in let En := fresh "En" in
                                      destruct (pn_f64 v) as [n|] eqn:En
           end;
    cbn [fst]; unfold editor_ok;
    cbn [ed_bookmarks ed_distance_spacing ed_beat_divisor ed_grid_size ed_timeline_zoom
         set_ed_bookmarks set_ed_distance_spacing set_ed_beat_divisor set_ed_grid_size set_ed_timeline_zoom];
    solve_ands.
  - apply filter_map_raw_ok.
  - exact (pn_f64_ok _ _ En).
  - exact (pn_i32_ok _ _ En).
  - exact (pn_i32_ok _ _ En).
  - exact (pn_f64_ok _ _ En).
Qed.

(* ---------- [Metadata] ---------- *)

Lemma parse_metadata_ok st l : memb ch_lf l = false -> metadata_ok st = true ->
  metadata_ok (fst (parse_metadata st l)) = true.
Proof.
  intros Hl Hst. unfold parse_metadata.
  destruct (kv_parse metadata_key_from_str l) as [[key v]|] eqn:E; [|exact Hst].
  destruct (kv_parse_facts _ _ _ _ E) as [Hsub Hv].
  assert (Hs : str_ok v = true).
  { unfold str_ok. rewrite Hv, (memb_sub _ _ _ Hsub Hl). reflexivity. }
  unfold metadata_ok in Hst. split_ands Hst.
  destruct key;
    repeat match goal with
           | |- context [pn_i32 v] => let n := fresh "n" in let En := fresh "En" in
                                      destruct (pn_i32 v) as [n|] eqn:En
           end;
    cbn [fst]; unfold metadata_ok;
    cbn [m_title m_title_unicode m_artist m_artist_unicode m_creator m_version m_source m_tags
         m_beatmap_id m_beatmap_set_id
         set_m_title set_m_title_unicode set_m_artist set_m_artist_unicode set_m_creator set_m_version
         set_m_source set_m_tags set_m_beatmap_id set_m_beatmap_set_id];
    solve_ands.
  - exact (pn_i32_ok _ _ En).
  - exact (pn_i32_ok _ _ En).
Qed.

(* ---------- [Difficulty] ---------- *)

Lemma clamp_ok lo hi x : in_lim64 x = true -> in_lim64 lo = true -> in_lim64 hi = true -> D.le lo hi = true ->
  in_lim64 (D.clamp x lo hi) = true /\ within64 lo hi (D.clamp x lo hi) = true.
Proof.
  intros Hx Hlo Hhi Hle. split.
  - unfold D.clamp, fclamp_t. destruct (flt 53 1024 x lo); [destruct (fgt 53 1024 lo hi)|destruct (fgt 53 1024 x hi)]; assumption.
  - assert (Hn : is_nan x = false).
    { unfold in_lim64 in Hx. apply andb_prop_l in Hx. apply andb_prop_l in Hx. apply negb_true_iff in Hx. exact Hx. }
    destruct (fclamp_t_range 53 1024 x lo hi Hn Hle) as [A B]. unfold within64, D.clamp, D.le. rewrite A, B. reflexivity.
Qed.

Lemma sm_bounds_ok : in_lim64 slider_mult_lo = true /\ in_lim64 slider_mult_hi = true /\ D.le slider_mult_lo slider_mult_hi = true.
Proof. repeat split; vm_compute; reflexivity. Qed.
Lemma tr_bounds_ok : in_lim64 tick_rate_lo = true /\ in_lim64 tick_rate_hi = true /\ D.le tick_rate_lo tick_rate_hi = true.
Proof. repeat split; vm_compute; reflexivity. Qed.

Lemma parse_difficulty_ok st l : difficulty_ok st = true -> difficulty_ok (fst (parse_difficulty st l)) = true.
Proof.
  intros Hst. unfold parse_difficulty.
  destruct (kv_parse difficulty_key_from_str (trim_comment l)) as [[key v]|] eqn:E; [|exact Hst].
  unfold difficulty_ok in Hst. split_ands Hst.
  destruct sm_bounds_ok as (S1 & S2 & S3). destruct tr_bounds_ok as (T1 & T2 & T3).
  destruct key;
    repeat match goal with
           | |- context [pn_f32 v] => let n := fresh "x" in let En := fresh "En" in
                                      destruct (pn_f32 v) as [n|] eqn:En
           | |- context [pn_f64 v] => let n := fresh "x" in let En := fresh "En" in
                                      destruct (pn_f64 v) as [n|] eqn:En
           end;
    cbv zeta; cbn [d_has_approach_rate set_d_overall_difficulty];
    try (destruct (d_has_approach_rate st); cbn [negb]);
    cbn [fst]; unfold difficulty_ok;
    cbn [d_has_approach_rate d_hp_drain_rate d_circle_size d_overall_difficulty d_approach_rate d_slider_multiplier
         d_slider_tick_rate set_d_has_approach_rate set_d_hp_drain_rate set_d_circle_size
         set_d_overall_difficulty set_d_approach_rate set_d_slider_multiplier set_d_slider_tick_rate negb];
    solve_ands;
    try exact (pn_f32_ok _ _ En);
    try (apply (clamp_ok _ _ _ (pn_f64_ok _ _ En)); assumption).
Qed.

(* ---------- [Events] ---------- *)

Fixpoint last_is (d : char) (s : str) : bool :=
  match s with
  | [] => false
  | [c] => c =? d
  | _ :: r => last_is d r
  end.

Lemma last_is_cons d c r : r <> [] -> last_is d (c :: r) = last_is d r.
Proof. destruct r; [congruence|reflexivity]. Qed.
Lemma last_is_app d s c : last_is d (s ++ [c]) = (c =? d).
Proof.
  induction s as [|x r IH]; [reflexivity|]. cbn [app].
  rewrite last_is_cons by (destruct r; discriminate). exact IH.
Qed.
Lemma last_is_rev d s : last_is d s = first_is d (rev s).
Proof.
  destruct (rev s) as [|c r] eqn:E.
  - assert (s = []) by (rewrite <- (rev_involutive s), E; reflexivity). subst. reflexivity.
  - assert (s = rev r ++ [c]) by (rewrite <- (rev_involutive s), E; reflexivity). subst.
    rewrite last_is_app. reflexivity.
Qed.
(* trim_start_matches: a suffix that does not start with the character *)
Lemma tsm_suffix d s : exists w, s = w ++ trim_start_matches d s.
Proof.
  induction s as [|c r [w IH]]; [exists []; reflexivity|]. cbn [trim_start_matches].
  destruct (c =? d); [exists (c :: w); cbn; f_equal; exact IH|exists []; reflexivity].
Qed.
Lemma tsm_first d s : first_is d (trim_start_matches d s) = false.
Proof.
  induction s as [|c r IH]; [reflexivity|]. cbn [trim_start_matches]. destruct (c =? d) eqn:E; [exact IH|].
  cbn [first_is]. exact E.
Qed.

Lemma trim_matches_sub d s : sub (trim_matches d s) s.
Proof.
  unfold trim_matches. destruct (tsm_suffix d s) as [w1 E1].
  destruct (tsm_suffix d (rev (trim_start_matches d s))) as [w2 E2].
  exists w1, (rev w2). rewrite E1 at 1. f_equal.
  rewrite <- (rev_involutive (trim_start_matches d s)) at 1. rewrite E2 at 1. apply rev_app_distr.
Qed.

Lemma trim_matches_ends d s :
  first_is d (trim_matches d s) = false /\ first_is d (rev (trim_matches d s)) = false.
Proof.
  unfold trim_matches. split.
  - set (u := trim_start_matches d s). pose proof (tsm_first d s) as Hu. fold u in Hu.
    destruct (tsm_suffix d (rev u)) as [w E].
    assert (Eu : u = rev (trim_start_matches d (rev u)) ++ rev w).
    { rewrite <- rev_app_distr, <- E. symmetry. apply rev_involutive. }
    destruct (rev (trim_start_matches d (rev u))) as [|c r]; [reflexivity|].
    rewrite Eu in Hu. exact Hu.
  - rewrite rev_involutive. apply tsm_first.
Qed.

(* collapsing `\\` to `\` *)
Lemma collapse_in c : forall fuel s x, In x (replace_sub_aux fuel [c; c] [c] s) -> In x s.
Proof.
  induction fuel as [|k IH]; intros s x H; [exact H|]. destruct s as [|y r]; [exact H|].
  cbn [replace_sub_aux] in H. destruct (strip_prefix [c; c] (y :: r)) as [r'|] eqn:E.
  - cbn [strip_prefix] in E. destruct (c =? y) eqn:E1; [|discriminate]. destruct r as [|z r'']; [discriminate|].
    destruct (c =? z) eqn:E2; [|discriminate]. inversion E; subst r'. assert (y = c) by lia. subst y.
    cbn [app] in H. destruct H as [<- | H]; [left; reflexivity|].
    right. right. exact (IH r'' x H).
  - destruct H as [<- | H]; [left; reflexivity|]. right. exact (IH r x H).
Qed.

Lemma collapse_nil c : forall s fuel, (length s < fuel)%nat -> replace_sub_aux fuel [c; c] [c] s = [] -> s = [].
Proof.
  intros s fuel Hf H. destruct fuel as [|k]; [inversion Hf|]. destruct s as [|y r]; [reflexivity|].
  cbn [replace_sub_aux] in H. destruct (strip_prefix [c; c] (y :: r)); discriminate.
Qed.

Lemma collapse_first c d s : (c =? d) = false -> first_is d s = false ->
  first_is d (replace_sub [c; c] [c] s) = false.
Proof.
  intros Hcd H. unfold replace_sub. destruct s as [|y r]; [reflexivity|].
  cbn [replace_sub_aux]. destruct (strip_prefix [c; c] (y :: r)); [cbn [app first_is]; exact Hcd|exact H].
Qed.

Lemma collapse_last c d : (c =? d) = false -> forall fuel s, (length s < fuel)%nat ->
  last_is d s = false -> last_is d (replace_sub_aux fuel [c; c] [c] s) = false.
Proof.
  intros Hcd. induction fuel as [|k IH]; intros s Hf H; [inversion Hf|]. destruct s as [|y r]; [reflexivity|].
  cbn [replace_sub_aux]. destruct (strip_prefix [c; c] (y :: r)) as [r'|] eqn:E.
  - cbn [strip_prefix] in E. destruct (c =? y) eqn:E1; [|discriminate]. destruct r as [|z r'']; [discriminate|].
    destruct (c =? z) eqn:E2; [|discriminate]. inversion E; subst r'. cbn [app].
    destruct (replace_sub_aux k [c; c] [c] r'') as [|a t] eqn:Er.
    + cbn [last_is]. exact Hcd.
    + rewrite last_is_cons by discriminate. rewrite <- Er.
      apply IH; [cbn in Hf; lia|].
      destruct r'' as [|q r3]; [reflexivity|]. exact H.
  - destruct (replace_sub_aux k [c; c] [c] r) as [|a t] eqn:Er.
    + assert (r = []) by (apply (collapse_nil c r k); [cbn in Hf; lia|exact Er]). subst r. exact H.
    + rewrite last_is_cons by discriminate. rewrite <- Er. apply IH; [cbn in Hf; lia|].
      destruct r as [|q r3]; [cbn in Er; destruct k; discriminate|]. exact H.
Qed.

Lemma bs_map_quote x : (bs_map x =? 34) = (x =? 34).
Proof. unfold bs_map. destruct (x =? backslash) eqn:E; [|reflexivity]. unfold backslash in E. lia. Qed.
Lemma map_first_is s : first_is 34 (map bs_map s) = first_is 34 s.
Proof. destruct s; [reflexivity|]. cbn. apply bs_map_quote. Qed.

Lemma clean_filename_pre p : memb comma p = false -> memb ch_lf p = false ->
  bg_pre (clean_filename p) = true.
Proof.
  intros Hc Hl. unfold clean_filename. rewrite to_standardized_path_map.
  set (t := trim_matches 34 p). set (cl := replace_sub [backslash; backslash] [backslash] t).
  destruct (trim_matches_ends 34 p) as [Tf Tl]. fold t in Tf, Tl.
  assert (Hin : forall x, In x cl -> In x p).
  { intros x Hx. unfold cl, replace_sub in Hx. apply collapse_in in Hx.
    destruct (trim_matches_sub 34 p) as (a & b & E). fold t in E. rewrite E. apply in_or_app. right.
    apply in_or_app. left. exact Hx. }
  assert (Hmem : forall d, (d =? 47) = false -> memb d p = false -> memb d (map bs_map cl) = false).
  { intros d Hd Hp. unfold memb. destruct (existsb (Z.eqb d) (map bs_map cl)) eqn:E; [|reflexivity].
    apply existsb_exists in E. destruct E as (y & Hy & Ey). apply in_map_iff in Hy. destruct Hy as (x & Hx & Hxin).
    assert (Eyd : y = d) by lia. rewrite Eyd in Hx. clear Eyd Ey. unfold bs_map in Hx. destruct (x =? backslash).
    - lia.
    - subst x. exfalso. apply (memb_false_In d p Hp). apply Hin. exact Hxin. }
  assert (Hbs : memb backslash (map bs_map cl) = false).
  { unfold memb. destruct (existsb (Z.eqb backslash) (map bs_map cl)) eqn:E; [|reflexivity].
    apply existsb_exists in E. destruct E as (y & Hy & Ey). apply in_map_iff in Hy. destruct Hy as (x & Hx & _).
    unfold bs_map in Hx. destruct (x =? backslash) eqn:Ex; unfold backslash in *; lia. }
  assert (Hfirst : first_is 34 (map bs_map cl) = false).
  { rewrite map_first_is. apply collapse_first; [reflexivity|exact Tf]. }
  assert (Hlast : first_is 34 (rev (map bs_map cl)) = false).
  { rewrite <- map_rev, map_first_is, <- last_is_rev. unfold cl, replace_sub.
    apply collapse_last; [reflexivity|lia|]. rewrite last_is_rev. exact Tl. }
  unfold bg_pre. rewrite (Hmem ch_lf eq_refl Hl), Hbs, (Hmem comma eq_refl Hc), Hfirst, Hlast. reflexivity.
Qed.

Lemma split_on_piece d : forall s p, In p (split_on d s) -> sub p s /\ memb d p = false.
Proof.
  induction s as [|c r IH]; intros p H.
  - cbn in H. destruct H as [<- | []]. split; [apply sub_refl|reflexivity].
  - cbn [split_on] in H. destruct (c =? d) eqn:E.
    + destruct H as [<- | H].
      * split; [exists [], (c :: r); reflexivity|reflexivity].
      * destruct (IH p H) as [(a & b & ->) Hm]. split; [exists (c :: a), b; reflexivity|exact Hm].
    + destruct (split_on d r) as [|p0 ps] eqn:Es.
      * destruct H as [<- | []]. split; [exists [], r; reflexivity|]. cbn [memb existsb]. rewrite Z.eqb_sym, E. reflexivity.
      * destruct H as [<- | H].
        -- destruct (IH p0 (or_introl eq_refl)) as [(a & b & Eab) Hm]. split.
           ++ (* p0 is the first piece: it is a prefix of r *)
              assert (Hpre : exists q, r = p0 ++ q).
              { clear - Es. revert p0 ps Es. induction r as [|x r' IHr]; intros p0 ps Es.
                - cbn in Es. inversion Es. exists []. reflexivity.
                - cbn [split_on] in Es. destruct (x =? d).
                  + inversion Es. exists (x :: r'). reflexivity.
                  + destruct (split_on d r') as [|p1 ps'] eqn:E1; [inversion Es; exists r'; reflexivity|].
                    inversion Es; subst. destruct (IHr _ _ eq_refl) as [q ->]. exists q. reflexivity. }
              destruct Hpre as [q ->]. exists [], q. reflexivity.
           ++ cbn [memb existsb]. rewrite Z.eqb_sym, E. exact Hm.
        -- destruct (IH p (or_intror H)) as [(a & b & ->) Hm]. split; [exists (c :: a), b; reflexivity|exact Hm].
Qed.

Lemma in_lim64_not_nan x : in_lim64 x = true -> D.is_nan x = false.
Proof. unfold in_lim64. intros H. apply andb_prop_l in H. apply andb_prop_l in H. apply negb_true_iff in H. exact H. Qed.

Lemma flt_irrefl (s : F64) : D.is_nan s = false -> D.lt s s = false.
Proof. intros Hs. unfold D.lt, flt. rewrite Bltb_cmp, Bcompare_refl by exact Hs. reflexivity. Qed.

Lemma break_image s e : in_lim64 s = true -> in_lim64 e = true ->
  break_ok (mkBreak s (if D.lt e s then s else e)) = true.
Proof.
  intros Hs He. unfold break_ok. cbn [bp_start bp_end].
  destruct (D.lt e s) eqn:E.
  - rewrite Hs, (flt_irrefl s (in_lim64_not_nan _ Hs)). reflexivity.
  - rewrite Hs, He, E. reflexivity.
Qed.

Lemma parse_events_pre st l : memb ch_lf l = false -> events_pre st = true ->
  events_pre (fst (parse_events st l)) = true.
Proof.
  intros Hl Hst. unfold parse_events.
  set (split0 := split_on comma (trim_comment l)).
  assert (Hp : forall p, In p split0 -> memb comma p = false /\ memb ch_lf p = false).
  { intros p Hp. destruct (split_on_piece comma _ p Hp) as [Hs Hm]. split; [exact Hm|].
    apply (memb_sub _ _ _ Hs). apply (memb_sub _ _ _ (trim_comment_sub l)). exact Hl. }
  clearbody split0.
  destruct split0 as [|t0 s1]; cbn [next]; [exact Hst|].
  destruct s1 as [|t1 s2]; cbn [next]; [exact Hst|].
  destruct s2 as [|t2 s3]; cbn [next]; [exact Hst|].
  assert (H2 : memb comma t2 = false /\ memb ch_lf t2 = false) by (apply Hp; right; right; left; reflexivity).
  unfold events_pre in Hst. apply andb_true_iff in Hst. destruct Hst as [Hbg Hbr].
  destruct (event_type_from_str t0) as [[| | | | | |]|]; try (cbn [fst]; unfold events_pre; rewrite Hbg, Hbr; reflexivity).
  - (* Background *)
    cbn [fst]. unfold events_pre. cbn [ev_background_file ev_breaks set_ev_background_file].
    rewrite (clean_filename_pre t2 (proj1 H2) (proj2 H2)), Hbr. reflexivity.
  - (* Video *)
    destruct (last3_lower (clean_filename t2)) as [ext|]; [|cbn [fst]; unfold events_pre; rewrite Hbg, Hbr; reflexivity].
    destruct (negb (is_video_ext ext)); cbn [fst]; unfold events_pre;
      cbn [ev_background_file ev_breaks set_ev_background_file].
    + rewrite (clean_filename_pre t2 (proj1 H2) (proj2 H2)), Hbr. reflexivity.
    + rewrite Hbg, Hbr. reflexivity.
  - (* Break *)
    destruct (pn_f64 t1) as [s|] eqn:Es; [|cbn [fst]; unfold events_pre; rewrite Hbg, Hbr; reflexivity].
    destruct (pn_f64 t2) as [e|] eqn:Ee; [|cbn [fst]; unfold events_pre; rewrite Hbg, Hbr; reflexivity].
    cbn [fst]. unfold events_pre. cbn [ev_background_file ev_breaks set_ev_breaks].
    rewrite Hbg, forallb_app, Hbr. cbn [forallb].
    rewrite (break_image s e (pn_f64_ok _ _ Es) (pn_f64_ok _ _ Ee)). reflexivity.
  - (* Sprite *)
    destruct (ev_background_file st) eqn:Ebg; [|cbn [fst]; unfold events_pre; rewrite Ebg, Hbg, Hbr; reflexivity].
    destruct s3 as [|t3 s4]; cbn [next fst]; [unfold events_pre; rewrite Ebg, Hbr; reflexivity|].
    unfold events_pre. cbn [ev_background_file ev_breaks set_ev_background_file].
    assert (H3 : memb comma t3 = false /\ memb ch_lf t3 = false) by (apply Hp; right; right; right; left; reflexivity).
    rewrite (clean_filename_pre t3 (proj1 H3) (proj2 H3)), Hbr. reflexivity.
Qed.

(* ---------- [Colours] ---------- *)

Lemma color_from_str_ok v c : color_from_str v = Some c -> color_ok c = true.
Proof.
  unfold color_from_str.
  destruct (next (map trim (split_on comma v))) as [r s1]. destruct (next s1) as [g s2]. destruct (next s2) as [b s3].
  destruct r as [r|]; [|discriminate]. destruct g as [g|]; [|discriminate]. destruct b as [b|]; [|discriminate].
  destruct (nth_error s3 1); [discriminate|].
  destruct (parse_u8_raw r) as [r'|] eqn:Er; [|discriminate].
  destruct (parse_u8_raw g) as [g'|] eqn:Eg; [|discriminate].
  destruct (parse_u8_raw b) as [b'|] eqn:Eb; [|discriminate].
  intros [= <-]. unfold color_ok. cbn [c_r c_g c_b c_a].
  rewrite (raw_u8_range _ _ Er), (raw_u8_range _ _ Eg), (raw_u8_range _ _ Eb), Z.eqb_refl. reflexivity.
Qed.

Definition name_in' (name : str) (l : list CustomColor) : bool :=
  existsb (fun y => str_eqb (cc_name y) name) l.

Lemma set_custom_color_some l name c : forall l', set_custom_color l name c = Some l' ->
  map cc_name l' = map cc_name l /\
  (forall P : CustomColor -> bool, forallb P l = true ->
     (forall x, In x l -> P (mkCustomColor (cc_name x) c) = true) -> forallb P l' = true).
Proof.
  induction l as [|x r IH]; intros l' H; cbn [set_custom_color] in H; [discriminate|].
  destruct (str_eqb (cc_name x) name).
  - inversion H; subst. split; [reflexivity|]. intros P HP Hn. cbn [forallb] in *.
    apply andb_true_iff in HP. rewrite (Hn x (or_introl eq_refl)), (proj2 HP). reflexivity.
  - destruct (set_custom_color r name c) as [r'|] eqn:E; [|discriminate]. inversion H; subst.
    destruct (IH _ eq_refl) as [Hm Hf]. split; [cbn [map]; rewrite Hm; reflexivity|].
    intros P HP Hn. cbn [forallb] in *. apply andb_true_iff in HP. rewrite (proj1 HP). cbn [andb].
    apply Hf; [exact (proj2 HP)|]. intros y Hy. apply Hn. right. exact Hy.
Qed.

Lemma set_custom_color_none l name c : set_custom_color l name c = None -> name_in' name l = false.
Proof.
  induction l as [|x r IH]; [reflexivity|]. cbn [set_custom_color]. unfold name_in'. cbn [existsb].
  destruct (str_eqb (cc_name x) name); [discriminate|].
  destruct (set_custom_color r name c) eqn:E; [discriminate|]. intros _. exact (IH eq_refl).
Qed.

Lemma distinct_names_by_names : forall l l', map cc_name l = map cc_name l' -> distinct_names l = distinct_names l'.
Proof.
  assert (Ex : forall n l l', map cc_name l = map cc_name l' ->
               existsb (fun y => str_eqb (cc_name y) n) l = existsb (fun y => str_eqb (cc_name y) n) l').
  { intros n. induction l as [|x r IH]; intros [|y r'] H; try discriminate; [reflexivity|].
    cbn [map] in H. inversion H. cbn [existsb]. rewrite H1, (IH r' H2). reflexivity. }
  induction l as [|x r IH]; intros [|y r'] H; try discriminate; [reflexivity|].
  cbn [map] in H. inversion H. cbn [distinct_names]. rewrite H1, (Ex _ r r' H2), (IH r' H2). reflexivity.
Qed.

Lemma distinct_names_snoc l n c : distinct_names l = true -> name_in' n l = false ->
  distinct_names (l ++ [mkCustomColor n c]) = true.
Proof.
  induction l as [|x r IH]; intros Hd Hn; [reflexivity|].
  cbn [distinct_names app] in *. unfold name_in' in Hn. cbn [existsb] in Hn.
  apply orb_false_iff in Hn. destruct Hn as [Hn1 Hn2]. apply andb_true_iff in Hd. destruct Hd as [Hd1 Hd2].
  rewrite existsb_app. cbn [existsb cc_name]. apply negb_true_iff in Hd1. rewrite Hd1, orb_false_r.
  rewrite str_eqb_comm, Hn1. cbn [orb negb andb]. exact (IH Hd2 Hn2).
Qed.

Lemma starts_with_sub_no_ss k s : sub k s -> has_ss s = false -> has_ss k = false.
Proof. apply has_ss_sub. Qed.

Lemma parse_colors_ok st l : memb ch_lf l = false -> colors_ok st = true ->
  colors_ok (fst (parse_colors st l)) = true.
Proof.
  intros Hl Hst. unfold parse_colors, kv_parse.
  destruct (kv_pieces (trim_comment l)) as [k v] eqn:E.
  destruct (kv_pieces_facts _ _ _ E) as (Hks & _ & Hkt & _ & Hkc).
  unfold colors_key_from_str.
  unfold colors_ok in Hst. apply andb_true_iff in Hst. destruct Hst as [Hst Hd].
  apply andb_true_iff in Hst. destruct Hst as [Hcombo Hcust].
  destruct (starts_with (lit colors_combo_prefix) k) eqn:Es;
    (destruct (color_from_str v) as [c|] eqn:Ec;
     [|cbn [fst]; unfold colors_ok; rewrite Hcombo, Hcust, Hd; reflexivity]).
  - cbn [fst]. unfold colors_ok. cbn [co_custom_combo_colors co_custom_colors set_co_custom_combo_colors].
    rewrite forallb_app, Hcombo, Hcust, Hd. cbn [forallb]. rewrite (color_from_str_ok _ _ Ec). reflexivity.
  - assert (Hname : color_name_ok k = true).
    { unfold color_name_ok, str_ok. rewrite Hkt, Hkc, Es.
      rewrite (memb_sub _ _ _ Hks (memb_sub _ _ _ (trim_comment_sub l) Hl)).
      rewrite (has_ss_sub _ _ Hks (trim_comment_no_ss l)). reflexivity. }
    destruct (set_custom_color (co_custom_colors st) k c) as [l'|] eqn:El; cbn [fst]; unfold colors_ok;
      cbn [co_custom_combo_colors co_custom_colors set_co_custom_colors]; rewrite Hcombo; cbn [andb].
    + destruct (set_custom_color_some _ _ _ _ El) as [Hm Hf].
      rewrite (distinct_names_by_names _ _ Hm), Hd, andb_true_r.
      apply Hf; [exact Hcust|]. intros x Hx. cbn [cc_name cc_color].
      rewrite forallb_forall in Hcust. specialize (Hcust x Hx). apply andb_prop_l in Hcust.
      rewrite Hcust, (color_from_str_ok _ _ Ec). reflexivity.
    + rewrite forallb_app, Hcust. cbn [forallb cc_name cc_color].
      rewrite Hname, (color_from_str_ok _ _ Ec). cbn [andb].
      apply distinct_names_snoc; [exact Hd|exact (set_custom_color_none _ _ _ El)].
Qed.

(* ---------- [TimingPoints]: sample banks stay enum values ---------- *)

Definition opt_bank_ok (o : option SamplePoint) : bool :=
  match o with Some p => enum4_ok (sp_bank p) | None => true end.
Definition tps_ok (st : TPState) : bool :=
  enum4_ok (tpg_bank (ts_general st)) && opt_bank_ok (ts_ps st) && sample_banks_ok (ts_cp st).

Lemma Forallb_insert_nth {A} (P : A -> bool) x : forall n l, forallb P l = true -> P x = true ->
  forallb P (insert_nth n x l) = true.
Proof.
  induction n as [|n IH]; intros l Hl Hx; [cbn; rewrite Hx, Hl; reflexivity|].
  destruct l as [|y r]; cbn [insert_nth forallb]; [rewrite Hx; reflexivity|].
  cbn [forallb] in Hl. apply andb_true_iff in Hl. rewrite (proj1 Hl), (IH r (proj2 Hl) Hx). reflexivity.
Qed.
Lemma Forallb_replace_nth {A} (P : A -> bool) x : forall n l, forallb P l = true -> P x = true ->
  forallb P (replace_nth n x l) = true.
Proof.
  induction n as [|n IH]; intros [|y r] Hl Hx; cbn [replace_nth forallb] in *; try reflexivity.
  - apply andb_true_iff in Hl. rewrite Hx, (proj2 Hl). reflexivity.
  - apply andb_true_iff in Hl. rewrite (proj1 Hl), (IH r (proj2 Hl) Hx). reflexivity.
Qed.

Lemma put_banks l p l' : put sp_time l p = Done l' ->
  forallb (fun q => enum4_ok (sp_bank q)) l = true -> enum4_ok (sp_bank p) = true ->
  forallb (fun q => enum4_ok (sp_bank q)) l' = true.
Proof.
  unfold put. destruct (search sp_time l (sp_time p)) as [i|i].
  - destruct (Nat.ltb i (length l)); [|discriminate]. intros [= <-] Hl Hp. apply Forallb_replace_nth; assumption.
  - destruct (Nat.leb i (length l)); [|discriminate]. intros [= <-] Hl Hp. apply Forallb_insert_nth; assumption.
Qed.

Lemma add_sample_banks c p c' : add_sample c p = Done c' -> sample_banks_ok c = true ->
  enum4_ok (sp_bank p) = true -> sample_banks_ok c' = true.
Proof.
  unfold add_sample. destruct (at_opt sp_time (cp_sample c) (sp_time p)) as [ex|w|]; cbn [obind]; try discriminate.
  destruct (match ex with Some e => sp_redundant p e | None => false end); [intros [= <-] H _; exact H|].
  destruct (put sp_time (cp_sample c) p) as [l|w|] eqn:E; cbn [obind]; try discriminate.
  intros [= <-] H Hp. unfold sample_banks_ok in *. cbn [cp_sample]. exact (put_banks _ _ _ E H Hp).
Qed.

Lemma other_adds_banks :
  (forall c p c', add_timing c p = Done c' -> cp_sample c' = cp_sample c) /\
  (forall c p c', add_difficulty c p = Done c' -> cp_sample c' = cp_sample c) /\
  (forall c p c', add_effect c p = Done c' -> cp_sample c' = cp_sample c).
Proof.
  refine (conj _ (conj _ _)); intros c p c'.
  - unfold add_timing. destruct (put tp_time _ _); cbn [obind]; try discriminate. intros [= <-]. reflexivity.
  - unfold add_difficulty. destruct (difficulty_point_at c (dp_time p)) as [ex|w|]; cbn [obind]; try discriminate.
    destruct (match ex with Some e => _ | None => _ end); [intros [= <-]; reflexivity|].
    destruct (put dp_time _ _); cbn [obind]; try discriminate. intros [= <-]. reflexivity.
  - unfold add_effect. destruct (effect_point_at c (ep_time p)) as [ex|w|]; cbn [obind]; try discriminate.
    destruct (match ex with Some e => _ | None => _ end); [intros [= <-]; reflexivity|].
    destruct (put ep_time _ _); cbn [obind]; try discriminate. intros [= <-]. reflexivity.
Qed.

Lemma flush_cp_banks st c : flush_cp st = Done c -> sample_banks_ok (ts_cp st) = true ->
  opt_bank_ok (ts_ps st) = true -> sample_banks_ok c = true.
Proof.
  destruct other_adds_banks as (At & Ad & Ae).
  unfold flush_cp, add_opt. intros H Hc Hp.
  destruct (match ts_pt st with Some p => add_timing (ts_cp st) p | None => Done (ts_cp st) end) as [c1|w|] eqn:E1;
    cbn [obind] in H; try discriminate.
  destruct (match ts_pd st with Some p => add_difficulty c1 p | None => Done c1 end) as [c2|w|] eqn:E2;
    cbn [obind] in H; try discriminate.
  destruct (match ts_pe st with Some p => add_effect c2 p | None => Done c2 end) as [c3|w|] eqn:E3;
    cbn [obind] in H; try discriminate.
  assert (S1 : cp_sample c1 = cp_sample (ts_cp st)).
  { destruct (ts_pt st); [exact (At _ _ _ E1)|inversion E1; reflexivity]. }
  assert (S2 : cp_sample c2 = cp_sample c1).
  { destruct (ts_pd st); [exact (Ad _ _ _ E2)|inversion E2; reflexivity]. }
  assert (S3 : cp_sample c3 = cp_sample c2).
  { destruct (ts_pe st); [exact (Ae _ _ _ E3)|inversion E3; reflexivity]. }
  assert (H3 : sample_banks_ok c3 = true) by (unfold sample_banks_ok in *; rewrite S3, S2, S1; exact Hc).
  destruct (ts_ps st) as [p|]; [exact (add_sample_banks _ _ _ H H3 Hp)|inversion H; subst; exact H3].
Qed.

Lemma bank_of_int_enum n b : bank_of_int n = Some b -> enum4_ok b = true.
Proof.
  unfold bank_of_int. assert (G : forall l, (forall x, In x (map snd l) -> enum4_ok x = true) ->
                                  assoc_z n l = Some b -> enum4_ok b = true).
  { induction l as [|[a x] r IH]; cbn [assoc_z map]; [discriminate|]. intros Hall.
    destruct (a =? n); [intros [= <-]; apply Hall; left; reflexivity|]. apply IH. intros y Hy. apply Hall. right. exact Hy. }
  apply G. cbn. intros x Hx. repeat (destruct Hx as [<- | Hx]; [reflexivity|]). contradiction.
Qed.

Lemma parse_tp_line_bank g line r : parse_tp_line g line = Some r -> enum4_ok (tpg_bank g) = true ->
  enum4_ok (l_bank r) = true.
Proof.
  unfold parse_tp_line. rewrite parse_fields_nth. unfold parse_opts. intros H Hg.
  repeat match type of H with
         | obnd ?x _ = Some _ => destruct x eqn:?; cbn [obnd] in H; [|discriminate H]
         end.
  destruct p as [kiai omit]. cbv zeta in H.
  match type of H with (if ?b then _ else _) = _ => destruct b; [discriminate|] end.
  inversion H; subst; clear H. cbn [l_bank].
  assert (Hb : enum4_ok z0 = true).
  { unfold f_bank in *. match goal with X : match ?o with Some _ => _ | None => _ end = Some z0 |- _ =>
      destruct o as [s3|]; [|inversion X; subst; exact Hg] end.
    match goal with X : obnd (pn_i32 s3) _ = Some z0 |- _ =>
      destruct (pn_i32 s3) as [n|]; cbn [obnd] in X; [|discriminate]; inversion X; subst end.
    destruct (bank_of_int n) as [b|] eqn:Eb; cbn [odflt]; [exact (bank_of_int_enum _ _ Eb)|exact Hg]. }
  destruct (z0 =? bank_none); [reflexivity|exact Hb].
Qed.

Lemma tps_ok_parts st : tps_ok st = true ->
  enum4_ok (tpg_bank (ts_general st)) = true /\ opt_bank_ok (ts_ps st) = true /\ sample_banks_ok (ts_cp st) = true.
Proof.
  unfold tps_ok. intros H. apply andb_true_iff in H. destruct H as [H H3]. apply andb_true_iff in H. tauto.
Qed.

Lemma add_control_point_banks st time p tc st' : add_control_point st time p tc = Done st' ->
  tps_ok st = true -> (forall q, p = PS q -> enum4_ok (sp_bank q) = true) -> tps_ok st' = true.
Proof.
  unfold add_control_point. intros H Hst Hp.
  unfold tps_ok in Hst. apply andb_true_iff in Hst. destruct Hst as [Hst H3]. apply andb_true_iff in Hst. destruct Hst as [H1 H2].
  assert (Hflush : forall st1, (if time_changed time (ts_time st) then flush_pending_points st else Done st) = Done st1 ->
                   tps_ok st1 = true).
  { intros st1 E. destruct (time_changed time (ts_time st)).
    - unfold flush_pending_points in E. destruct (flush_cp st) as [c|w|] eqn:Ef; cbn [obind] in E; try discriminate.
      inversion E; subst. unfold tps_ok. cbn [ts_general ts_ps ts_cp opt_bank_ok].
      rewrite H1, (flush_cp_banks _ _ Ef H3 H2). reflexivity.
    - inversion E; subst. unfold tps_ok. rewrite H1, H2, H3. reflexivity. }
  destruct (if time_changed time (ts_time st) then flush_pending_points st else Done st) as [st1|w|] eqn:E;
    cbn [obind] in H; try discriminate.
  specialize (Hflush st1 eq_refl). inversion H; subst; clear H.
  unfold tps_ok in Hflush. apply andb_true_iff in Hflush. destruct Hflush as [Hf F3].
  apply andb_true_iff in Hf. destruct Hf as [F1 F2].
  destruct st1 as [g t pt pd pe ps c]. cbn [ts_general ts_ps ts_cp] in *.
  destruct tc; destruct p; cbn [push_front push_back set_time keep_first]; unfold tps_ok;
    cbn [ts_general ts_ps ts_cp]; rewrite ?F1, ?F2, ?F3; try reflexivity.
  - destruct ps as [q|]; cbn [keep_first opt_bank_ok] in *; [rewrite F2; reflexivity|rewrite (Hp _ eq_refl); reflexivity].
  - cbn [opt_bank_ok]. rewrite (Hp _ eq_refl). reflexivity.
Qed.

Lemma parse_timing_points_banks st l st' r : parse_timing_points st l = Done (st', r) ->
  tps_ok st = true -> tps_ok st' = true.
Proof.
  unfold parse_timing_points. destruct (parse_tp_line (ts_general st) l) as [ln|] eqn:E; [|intros [= <- <-] H; exact H].
  intros H Hst. destruct (apply_line st ln) as [st1|w|] eqn:Ea; cbn [obind] in H; try discriminate.
  inversion H; subst; clear H.
  assert (Hb : enum4_ok (l_bank ln) = true).
  { apply (parse_tp_line_bank _ _ _ E). unfold tps_ok in Hst. apply andb_prop_l in Hst. apply andb_prop_l in Hst. exact Hst. }
  unfold apply_line in Ea.
  assert (Hnot : forall (x : pend) q, (forall t, x <> PS t) -> x = PS q -> enum4_ok (sp_bank q) = true)
    by (intros x q Hx Hq; exfalso; exact (Hx q Hq)).
  destruct (if l_tc ln then add_control_point st (l_time ln) (PT (line_tp ln)) (l_tc ln) else Done st) as [s1|w|] eqn:E1;
    cbn [obind] in Ea; try discriminate.
  assert (I1 : tps_ok s1 = true).
  { destruct (l_tc ln); [|inversion E1; subst; exact Hst].
    apply (add_control_point_banks _ _ _ _ _ E1 Hst). intros q Hq. discriminate Hq. }
  destruct (add_control_point s1 (l_time ln) (PD (line_dp ln)) (l_tc ln)) as [s2|w|] eqn:E2; cbn [obind] in Ea; try discriminate.
  assert (I2 : tps_ok s2 = true) by (apply (add_control_point_banks _ _ _ _ _ E2 I1); intros q Hq; discriminate Hq).
  destruct (add_control_point s2 (l_time ln) (PS (line_sp ln)) (l_tc ln)) as [s3|w|] eqn:E3; cbn [obind] in Ea; try discriminate.
  assert (I3 : tps_ok s3 = true).
  { apply (add_control_point_banks _ _ _ _ _ E3 I2). intros q Hq. inversion Hq; subst. exact Hb. }
  destruct (add_control_point s3 (l_time ln) (PE _) (l_tc ln)) as [s4|w|] eqn:E4; cbn [obind] in Ea; try discriminate.
  assert (I4 : tps_ok s4 = true) by (apply (add_control_point_banks _ _ _ _ _ E4 I3); intros q Hq; discriminate Hq).
  inversion Ea; subst. destruct s4. exact I4.
Qed.

(* ================================================================== *)
(* lifting to the whole decoder                                        *)
(* ================================================================== *)

Definition no_lf_line (l : str) : Prop := memb ch_lf l = false.

Definition bmd_pre (b : BMD) : bool :=
  i32_ok (bmd_version b) && general_pre (tpd_general (hod_tp (bmd_ho b))) && editor_ok (bmd_editor b) &&
  metadata_ok (bmd_metadata b) && difficulty_ok (hod_difficulty (bmd_ho b)) &&
  events_pre (hod_events (bmd_ho b)) && colors_ok (bmd_colors b) && tps_ok (tpd_core (hod_tp (bmd_ho b))).

Definition bmd_inv (os : outcome BMD) : Prop :=
  match os with Done b => bmd_pre b = true | _ => True end.

Lemma defaults_pre v : i32_ok v = true -> bmd_pre (bmd_create v) = true.
Proof. intros H. unfold bmd_pre, bmd_create. cbn [bmd_version]. rewrite H. vm_compute. reflexivity. Qed.

Lemma general_pre_bank g : general_pre g = true -> enum4_ok (g_default_sample_bank g) = true.
Proof. unfold general_pre. apply andb_prop_r. Qed.

Lemma tpd_core_ok tp : general_pre (tpd_general tp) = true -> opt_bank_ok (tpd_ps tp) = true ->
  sample_banks_ok (tpd_cp tp) = true -> tps_ok (tpd_core tp) = true.
Proof.
  intros Hg Hp Hc. unfold tps_ok, tpd_core, tpg_of. cbn [ts_general ts_ps ts_cp tpg_bank].
  rewrite (general_pre_bank _ Hg), Hp, Hc. reflexivity.
Qed.

Lemma bm_step sec os l : no_lf_line l -> bmd_inv os -> bmd_inv (fst (parser_of bm_parsers sec os l)).
Proof.
  intros Hl Hos. destruct os as [b|w|]; [|destruct sec; exact I|destruct sec; exact I].
  cbn [bmd_inv] in Hos. unfold bmd_pre in Hos.
  apply andb_true_iff in Hos. destruct Hos as [Hos Qt]. apply andb_true_iff in Hos. destruct Hos as [Hos Qc].
  apply andb_true_iff in Hos. destruct Hos as [Hos Qe]. apply andb_true_iff in Hos. destruct Hos as [Hos Qd].
  apply andb_true_iff in Hos. destruct Hos as [Hos Qm]. apply andb_true_iff in Hos. destruct Hos as [Hos Qed'].
  apply andb_true_iff in Hos. destruct Hos as [Qv Qg].
  destruct b as [ver ed md co ho]. destruct ho as [tp df ev last curve verts objs].
  destruct tp as [gen ptime ppt ppd ppe pps pcp].
  cbn [bmd_version bmd_editor bmd_metadata bmd_colors bmd_ho hod_tp hod_difficulty hod_events tpd_general] in *.
  destruct (tps_ok_parts _ Qt) as (_ & Tp & Tc). cbn [tpd_core ts_ps ts_cp] in Tp, Tc.
  assert (Fin : forall ver' ed' md' co' tp' df' ev' last' curve' verts' objs',
            i32_ok ver' = true -> general_pre (tpd_general tp') = true -> editor_ok ed' = true -> metadata_ok md' = true ->
            difficulty_ok df' = true -> events_pre ev' = true -> colors_ok co' = true ->
            opt_bank_ok (tpd_ps tp') = true -> sample_banks_ok (tpd_cp tp') = true ->
            bmd_pre (mkBMD ver' ed' md' co' (mkHOD tp' df' ev' last' curve' verts' objs')) = true).
  { intros. unfold bmd_pre.
    cbn [bmd_version bmd_editor bmd_metadata bmd_colors bmd_ho hod_tp hod_difficulty hod_events].
    rewrite (tpd_core_ok tp') by assumption. lsplit; try assumption; reflexivity. }
  destruct sec; cbn [parser_of bm_parsers p_general p_editor p_metadata p_difficulty p_events p_timing_points
                     p_colors p_hit_objects p_variables p_catch_the_beat p_mania];
    unfold liftp, liftt, on_ho, noop; cbn [obind bmd_ho bmd_version bmd_editor bmd_metadata bmd_colors fst].
  - (* General *)
    unfold hod_parse_general, tpd_parse_general, hod_with_tp, tpd_with_general.
    cbn [hod_tp tpd_general hod_difficulty hod_events hod_last hod_curve hod_vertices hod_objects
         tpd_time tpd_pt tpd_pd tpd_pe tpd_ps tpd_cp].
    pose proof (parse_general_pre gen l Hl Qg) as Hg. destruct (parse_general gen l) as [g r]. cbn [fst] in Hg.
    cbn [obind fst bmd_inv]. apply Fin; cbn [tpd_general tpd_ps tpd_cp]; assumption.
  - (* Editor *)
    unfold bmd_parse_editor. cbn [bmd_editor bmd_version bmd_metadata bmd_colors bmd_ho].
    pose proof (parse_editor_ok ed l Qed') as He. destruct (parse_editor ed l) as [e r]. cbn [fst] in He.
    cbn [fst bmd_inv]. apply Fin; cbn [tpd_general tpd_ps tpd_cp]; assumption.
  - (* Metadata *)
    unfold bmd_parse_metadata. cbn [bmd_editor bmd_version bmd_metadata bmd_colors bmd_ho].
    pose proof (parse_metadata_ok md l Hl Qm) as Hm. destruct (parse_metadata md l) as [m r]. cbn [fst] in Hm.
    cbn [fst bmd_inv]. apply Fin; cbn [tpd_general tpd_ps tpd_cp]; assumption.
  - (* Difficulty *)
    unfold hod_parse_difficulty.
    cbn [hod_tp tpd_general hod_difficulty hod_events hod_last hod_curve hod_vertices hod_objects].
    pose proof (parse_difficulty_ok df l Qd) as Hd. destruct (parse_difficulty df l) as [d r]. cbn [fst] in Hd.
    cbn [obind fst bmd_inv]. apply Fin; cbn [tpd_general tpd_ps tpd_cp]; assumption.
  - (* Events *)
    unfold hod_parse_events.
    cbn [hod_tp tpd_general hod_difficulty hod_events hod_last hod_curve hod_vertices hod_objects].
    pose proof (parse_events_pre ev l Hl Qe) as He. destruct (parse_events ev l) as [e r]. cbn [fst] in He.
    cbn [obind fst bmd_inv]. apply Fin; cbn [tpd_general tpd_ps tpd_cp]; assumption.
  - (* TimingPoints *)
    unfold hod_parse_timing_points, tpd_parse_timing_points, hod_with_tp, tpd_with_core.
    cbn [hod_tp tpd_general hod_difficulty hod_events hod_last hod_curve hod_vertices hod_objects].
    destruct (parse_timing_points _ l) as [[c r]|w|] eqn:Et; cbn [obind fst bmd_inv]; try exact I.
    destruct (tps_ok_parts _ (parse_timing_points_banks _ _ _ _ Et Qt)) as (_ & Np & Nc).
    apply Fin; cbn [tpd_general tpd_ps tpd_cp]; assumption.
  - (* Colours *)
    unfold bmd_parse_colors. cbn [bmd_editor bmd_version bmd_metadata bmd_colors bmd_ho].
    pose proof (parse_colors_ok co l Hl Qc) as Hc. destruct (parse_colors co l) as [c r]. cbn [fst] in Hc.
    cbn [fst bmd_inv]. apply Fin; cbn [tpd_general tpd_ps tpd_cp]; assumption.
  - (* HitObjects *)
    unfold hod_parse_hit_objects, hod_with_core.
    cbn [hod_tp tpd_general hod_difficulty hod_events hod_last hod_curve hod_vertices hod_objects].
    destruct (parse_hit_objects _ l) as [[c r]|w|]; cbn [obind fst bmd_inv]; try exact I.
    apply Fin; cbn [tpd_general tpd_ps tpd_cp]; assumption.
  - cbn [bmd_inv]. apply Fin; cbn [tpd_general tpd_ps tpd_cp]; assumption.
  - cbn [bmd_inv]. apply Fin; cbn [tpd_general tpd_ps tpd_cp]; assumption.
  - cbn [bmd_inv]. apply Fin; cbn [tpd_general tpd_ps tpd_cp]; assumption.
Qed.

Lemma section_loop_inv {S} (ps : parsers S) (P : S -> Prop) (Q : str -> Prop) :
  (forall sec st l, Q l -> P st -> P (fst (parser_of ps sec st l))) ->
  forall lines sec st, Forall Q lines -> P st -> P (section_loop ps sec st lines).
Proof.
  intros Hstep. induction lines as [|l r IH]; intros sec st HQ HP; [exact HP|].
  inversion HQ; subst. cbn [section_loop]. destruct (skip ps l); [apply IH; assumption|].
  destruct (section_of_line l); apply IH; auto.
Qed.

Lemma parse_version_rest Q lines : Forall Q lines -> Forall Q (vr_rest (parse_version lines)).
Proof.
  induction lines as [|l r IH]; intros H; [constructor|]. inversion H; subst. cbn [parse_version].
  destruct (try_version_from_line l) as [|[v|]]; cbn [vr_rest]; auto.
Qed.

Lemma scan_first_rest Q lines sec rest : Forall Q lines -> scan_first_section lines = Some (sec, rest) -> Forall Q rest.
Proof.
  induction lines as [|l r IH]; intros H E; [discriminate|]. inversion H; subst. cbn [scan_first_section] in E.
  destruct (section_of_line l); [inversion E; subst; assumption|exact (IH H3 E)].
Qed.

Lemma parse_version_ok lines v : vr_version (parse_version lines) = Some v -> i32_ok v = true.
Proof.
  induction lines as [|l r IH]; cbn [parse_version]; [discriminate|].
  destruct (try_version_from_line l) as [|[w|]] eqn:E; cbn [vr_version]; try discriminate; [exact IH|].
  intros [= <-]. unfold try_version_from_line in E. destruct (negb _); [destruct l; discriminate|].
  inversion E. exact (pn_i32_ok _ _ H0).
Qed.

(* the decoder's image: every decoded map satisfies [simple_pre] *)
Theorem decode_image_pre dist lines m :
  Forall no_lf_line lines -> decode_beatmap dist lines = Done m -> simple_pre m = true.
Proof.
  intros Hl H. unfold decode_beatmap, driver in H.
  set (vr := parse_version lines) in *.
  assert (Hv : i32_ok (odflt latest_format_version (vr_version vr)) = true).
  { destruct (vr_version vr) as [v|] eqn:E; [exact (parse_version_ok lines v E)|reflexivity]. }
  assert (Hfin : forall os, bmd_inv os -> obind os (bmd_finish dist) = Done m -> simple_pre m = true).
  { intros os Hos Hf. destruct os as [b|w|]; cbn [obind] in Hf; try discriminate.
    cbn [bmd_inv] in Hos. unfold bmd_finish, hod_finish, tpd_finish in Hf.
    destruct (tp_finish (tpd_core (hod_tp (bmd_ho b)))) as [c|w|] eqn:Etp; cbn [obind] in Hf; try discriminate.
    cbn [tpv_general tpv_control_points] in Hf.
    destruct (finish_hit_objects dist c _ _ _ _) as [objs|w|]; cbn [obind] in Hf; try discriminate.
    inversion Hf; subst m. unfold bmd_pre in Hos. apply andb_true_iff in Hos. destruct Hos as [Hos Ht].
    unfold simple_pre. cbn [bmv_version bmv_editor bmv_metadata bmv_colors bmv_ho hov_general hov_difficulty
                            hov_events hov_control_points]. rewrite Hos. cbn [andb].
    unfold tps_ok in Ht. apply andb_true_iff in Ht. destruct Ht as [Ht T3]. apply andb_true_iff in Ht.
    unfold tp_finish in Etp. exact (flush_cp_banks _ _ Etp T3 (proj2 Ht)). }
  destruct (parse_first_section (vr_use_curr_line vr) (vr_curr_line vr) (vr_rest vr)) as [[sec rest]|] eqn:Ef.
  - assert (Hrest : Forall no_lf_line rest); [|
      exact (Hfin _ (section_loop_inv bm_parsers bmd_inv no_lf_line bm_step rest sec
                       (Done (bmd_create (odflt latest_format_version (vr_version vr))))
                       Hrest (defaults_pre _ Hv)) H)].
    unfold parse_first_section in Ef.
    destruct (if vr_use_curr_line vr then section_of_line (vr_curr_line vr) else None).
    + inversion Ef; subst. apply parse_version_rest. exact Hl.
    + apply (scan_first_rest _ _ _ _ (parse_version_rest _ _ Hl) Ef).
  - exact (Hfin (Done (bmd_create (odflt latest_format_version (vr_version vr)))) (defaults_pre _ Hv) H).
Qed.

Lemma general_pre_ok g : general_pre g = true -> has_ss (g_audio_file g) = false -> general_ok g = true.
Proof.
  unfold general_pre, general_ok, file_pre, file_ok. intros H Ha.
  repeat (apply andb_true_iff in H; let X := fresh "X" in destruct H as [H X]; rewrite X).
  rewrite H, Ha. reflexivity.
Qed.

Lemma events_pre_ok e : events_pre e = true -> has_ss (ev_background_file e) = false -> events_ok e = true.
Proof.
  unfold events_pre, events_ok, bg_pre, bg_ok. intros H Hb.
  repeat (apply andb_true_iff in H; let X := fresh "X" in destruct H as [H X]; rewrite X).
  rewrite H, Hb. reflexivity.
Qed.

Lemma simple_pre_ok m : simple_pre m = true -> d23_class m = false -> simple_ok m = true.
Proof.
  unfold simple_pre, d23_class, simple_ok. intros H Hd. apply orb_false_iff in Hd. destruct Hd as [Ha Hb].
  apply andb_true_iff in H. destruct H as [H Qs]. apply andb_true_iff in H. destruct H as [H Qc].
  apply andb_true_iff in H. destruct H as [H Qe]. apply andb_true_iff in H. destruct H as [H Qd].
  apply andb_true_iff in H. destruct H as [H Qm]. apply andb_true_iff in H. destruct H as [H Qed'].
  apply andb_true_iff in H. destruct H as [Qv Qg].
  rewrite Qv, (general_pre_ok _ Qg Ha), Qed', Qm, Qd, (events_pre_ok _ Qe Hb), Qc, Qs. reflexivity.
Qed.

(* decode_image_inv *)
Theorem decode_image_inv dist lines m :
  Forall no_lf_line lines -> decode_beatmap dist lines = Done m -> d23_class m = false -> simple_ok m = true.
Proof. intros Hl H Hd. exact (simple_pre_ok m (decode_image_pre dist lines m Hl H) Hd). Qed.

Lemma first_bank_enum c : sample_banks_ok c = true -> enum4_ok (first_sample_bank c) = true.
Proof.
  unfold sample_banks_ok, first_sample_bank. destruct (cp_sample c) as [|p r]; [reflexivity|].
  cbn [forallb]. apply andb_prop_l.
Qed.

Lemma simple_ok_parts m : simple_ok m = true ->
  i32_ok (bmv_version m) = true /\ general_ok (hov_general (bmv_ho m)) = true /\
  editor_ok (bmv_editor m) = true /\ metadata_ok (bmv_metadata m) = true /\
  difficulty_ok (hov_difficulty (bmv_ho m)) = true /\ events_ok (hov_events (bmv_ho m)) = true /\
  colors_ok (bmv_colors m) = true /\ enum4_ok (first_sample_bank (hov_control_points (bmv_ho m))) = true.
Proof.
  unfold simple_ok. intros H.
  apply andb_true_iff in H. destruct H as [H Qs]. apply andb_true_iff in H. destruct H as [H Qc].
  apply andb_true_iff in H. destruct H as [H Qe]. apply andb_true_iff in H. destruct H as [H Qd].
  apply andb_true_iff in H. destruct H as [H Qm]. apply andb_true_iff in H. destruct H as [H Qed'].
  apply andb_true_iff in H. destruct H as [Qv Qg].
  repeat split; try assumption. exact (first_bank_enum _ Qs).
Qed.

(* D23: the decoder's `\` -> `/` normalisation can leave "//" in a file name, and such a
   name is cut as a comment when the encoded record is read back *)
Definition d23_text : str :=
  lit "osu file format v14" ++ [10] ++ lit "[General]" ++ [10] ++ lit "AudioFilename: a\\b.mp3" ++ [10].

Lemma d23_witness :
  let g := decode_general (lines_of_text d23_text) in
  general_pre g = true /\ has_ss (g_audio_file g) = true /\
  forall f64 f32 fi st,
    g_audio_file (fst (parse_general st (render f64 f32 fi (kv_line (gkey GAudioFilename) (TStr (g_audio_file g))))))
    <> g_audio_file g.
Proof.
  cbv zeta. split; [vm_compute; reflexivity|]. split; [vm_compute; reflexivity|].
  intros f64 f32 fi st.
  replace (g_audio_file (decode_general (lines_of_text d23_text))) with (lit "a//b.mp3") by (vm_compute; reflexivity).
  vm_compute. discriminate.
Qed.

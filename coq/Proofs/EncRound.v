(* EncRound: C02 pieces -- the simple sections of every decoded map read back
   (T02a), and model-level witnesses of the known classes. *)
From RM Require Import Model.EncSpec Proofs.EncText Proofs.EncFmt Proofs.EncSimple Proofs.EncImage Proofs.EncEdit.
From RM Require Import Gen.Generated.
From Coq Require Import ZifyBool.
Open Scope Z_scope.

Section Round.
  Variables (fmt_f64 : F64 -> str) (fmt_f32 : F32 -> str) (fmt_int : Z -> str).
  Hypothesis Hfmt : fmt_ok fmt_f64 fmt_f32 fmt_int.

  (* T02a *)
  Theorem decoded_sections_read_back dist lines m :
    Forall no_lf_line lines -> decode_beatmap dist lines = Done m -> d23_class m = false ->
    sections_read_back fmt_f64 fmt_f32 fmt_int m.
  Proof.
    intros Hl H Hd. apply (simple_sections_read_back _ _ _ Hfmt). exact (decode_image_inv dist lines m Hl H Hd).
  Qed.
End Round.

(* ---------- model-level witnesses (integer-valued numbers only, printed by the
   reference printer of Model/Render.v, which agrees with `Display` on them) ---------- *)

Definition stub_dist : Z -> list PCP -> option F64 -> outcome F64 :=
  fun _ _ e => Done (match e with Some d => d | None => D.zero end).
Definition stub_events : F64 -> F64 -> F64 -> F64 -> F64 -> Z -> outcome (list EncEvent) :=
  fun _ _ _ _ _ _ => Done [].

Definition round_trip (text : str) : outcome (BeatmapV * BeatmapV) :=
  obind (decode_beatmap stub_dist (lines_of_text text)) (fun m1 =>
  obind (encode_lines stub_dist stub_events m1) (fun ls =>
  obind (decode_beatmap stub_dist (lines_of_text (render_text wit_f64 wit_f32 dec_int ls))) (fun m2 =>
  Done (m1, m2)))).

Definition nl : str := [10].
Fixpoint join_lines (l : list string) : str :=
  match l with [] => [] | x :: r => lit x ++ nl ++ join_lines r end.

(* D12: taiko, inherited line with multiplier 0.01 *)
Definition d12_text : str :=
  join_lines ["osu file format v14"; "[General]"; "Mode: 1"; "[TimingPoints]";
              "0,500,4,1,0,100,1,0"; "100,-10000,4,1,0,100,0,0"]%string.

Definition scroll_bits (m : BeatmapV) : list Z :=
  map (fun p => D.bits (ep_scroll p)) (cp_effect (hov_control_points (bmv_ho m))).

Lemma d12_witness :
  match round_trip d12_text with
  | Done (m1, m2) => scroll_bits m1 = [D.bits (D.of_decimal false 1 (-2))] /\
                     scroll_bits m2 = [D.bits (D.of_decimal false 1 (-1))]
  | _ => False
  end.
Proof. vm_compute. split; reflexivity. Qed.

Definition cps_count (m : BeatmapV) : list Z :=
  map (fun h => match h_kind h with
                | KSlider s => Z.of_nat (length (sl_control_points s))
                | _ => -1 end) (hov_hit_objects (bmv_ho m)).

(* D13: Catmull segment whose first two control points coincide *)
Definition d13_text : str :=
  join_lines ["osu file format v14"; "[HitObjects]"; "63,186,1000,2,0,C|63:186|63:186|111:89,1,100"]%string.
Lemma d13_witness :
  match round_trip d13_text with Done (m1, m2) => cps_count m1 = [3] /\ cps_count m2 = [2] | _ => False end.
Proof. vm_compute. split; reflexivity. Qed.

(* D17: a one-point segment that repeats the previous segment's type *)
Definition d17_text : str :=
  join_lines ["osu file format v14"; "[HitObjects]";
              "196,111,1493,2,15,B|177:95|119:136|118:91|B3|64:65|84:15|B3|44:78|L|93:68|43:140,1,33"]%string.
Lemma d17_witness :
  match round_trip d17_text with Done (m1, m2) => cps_count m1 = [9] /\ cps_count m2 = [10] | _ => False end.
Proof. vm_compute. split; reflexivity. Qed.

(* D22: the Mode record comes after the timing points *)
Definition d22_text : str :=
  join_lines ["osu file format v14"; "[TimingPoints]"; "0,500,4,1,0,100,1,0"; "100,-50,4,1,0,100,0,0";
              "[General]"; "Mode: 1"]%string.
Lemma d22_witness :
  match round_trip d22_text with
  | Done (m1, m2) => scroll_bits m1 = [] /\ scroll_bits m2 = [D.bits (D.of_Z 2)]
  | _ => False
  end.
Proof. vm_compute. split; reflexivity. Qed.

(* a plain file goes round: same sections, control points and objects (dump equality; all
   numbers of the file are integer-valued, as the reference printer requires) *)
Definition plain_text : str :=
  join_lines ["osu file format v14"; "[General]"; "Mode: 3"; "StackLeniency: 1"; "[Difficulty]"; "SliderMultiplier: 2";
              "[Metadata]"; "Title:Re:Zero"; "BeatmapID:5";
              "[Events]"; "2,100,900"; "[TimingPoints]"; "0,500,4,2,1,60,1,0"; "1000,-50,4,2,1,60,0,1";
              "[Colours]"; "Combo1: 1,2,3"; "[HitObjects]"; "64,192,1000,1,2,0:0:0:0:";
              "192,192,1500,128,0,2000:0:0:0:0:"; "256,192,2500,12,0,3000,0:0:0:0:"]%string.
Lemma plain_round_trip :
  match round_trip plain_text with
  | Done (m1, m2) => dump_bmv (read_back m1) = dump_bmv m2 /\ length (hov_hit_objects (bmv_ho m1)) = 3%nat
  | _ => False
  end.
Proof. vm_compute. split; reflexivity. Qed.

Lemma read_back_ids m : 0 < m_beatmap_id (bmv_metadata m) -> 0 < m_beatmap_set_id (bmv_metadata m) ->
  m_beatmap_id (bmv_metadata (read_back m)) = m_beatmap_id (bmv_metadata m) /\
  m_beatmap_set_id (bmv_metadata (read_back m)) = m_beatmap_set_id (bmv_metadata m).
Proof.
  intros H1 H2. unfold read_back, carry_metadata. cbn [bmv_metadata m_beatmap_id m_beatmap_set_id].
  replace (0 <? m_beatmap_id (bmv_metadata m)) with true by lia.
  replace (0 <? m_beatmap_set_id (bmv_metadata m)) with true by lia. split; reflexivity.
Qed.

(* Enc4Inv: ONE generic invariant skeleton for facts about every hit object of every decoded map
   (any input, any curve function): a predicate [P] that every accepted hit-object line
   establishes of the object it adds and that the break post-processing keeps, and a predicate [Q]
   that the per-object loop establishes of its output when [P] holds of its input, give
   [Forall Q] of the hit objects of the decoded map -- through the framing driver, every section
   parser, the stable sort (a permutation), the break post-processing and the per-object loop.
   (The same route as [decoded_objects_image] / [decoded_objects_shape] / [decoded_nodes_image],
   stated once.) *)
From RM Require Import Model.EncPathSpec Model.HitObjectSpec Proofs.FramingFacts
     Proofs.HitObjectLineFacts Proofs.DecodersFacts Proofs.DecodersTotal Proofs.MapLevelFacts Proofs.EncMapImage.
From RM Require Import Gen.Generated.
From Coq Require Import ZifyBool Permutation.
Open Scope Z_scope.

Section Generic.
  Variable dist_of : Z -> list PCP -> option F64 -> outcome F64.
  Variables P Q : HitObject -> Prop.

  Hypothesis Hparse : forall st line st',
    parse_hit_objects st line = Done (st', Ok) -> exists o, ho_objects st' = ho_objects st ++ [o] /\ P o.
  Hypothesis Hforce : forall h f, P h -> P (force_new_combo h f).
  Hypothesis Hproc : forall c sm mode h h', P h -> process_object dist_of c sm mode h = Done h' -> Q h'.

  Lemma g_parse_objects st line st' r :
    Forall P (ho_objects st) -> parse_hit_objects st line = Done (st', r) -> Forall P (ho_objects st').
  Proof.
    intros Hst H. destruct r.
    - destruct (Hparse st line st' H) as (o & -> & Ho). apply Forall_app. split; [exact Hst|constructor; [exact Ho|constructor]].
    - rewrite (parse_rejected_objects st line st' H). exact Hst.
  Qed.

  Lemma g_post_process bs : forall objs, Forall P objs ->
    Forall P (post_process_breaks h_start force_new_combo bs objs).
  Proof.
    intros objs. revert bs. induction objs as [|h r IH]; intros bs H; cbn [post_process_breaks]; [constructor|].
    inversion H as [|? ? Hh Hr]; subst. destruct (skip_breaks bs (h_start h) false) as [bs' f].
    constructor; [apply Hforce; exact Hh|apply IH; exact Hr].
  Qed.

  Lemma g_process_objects c sm mode : forall l l',
    Forall P l -> process_objects dist_of c sm mode l = Done l' -> Forall Q l'.
  Proof.
    induction l as [|h r IH]; intros l' Hl H; cbn [process_objects] in H.
    - injection H as <-. constructor.
    - inversion Hl as [|? ? Hh Hr]; subst.
      destruct (process_object dist_of c sm mode h) as [h'|w|] eqn:Eh; cbn [obind] in H; try discriminate.
      destruct (process_objects dist_of c sm mode r) as [r'|w|] eqn:Er; cbn [obind] in H; try discriminate.
      injection H as <-. constructor; [exact (Hproc c sm mode h h' Hh Eh)|exact (IH r' Hr eq_refl)].
  Qed.

  Lemma g_finish c breaks sm mode objs objs' :
    Forall P objs -> finish_hit_objects dist_of c breaks sm mode objs = Done objs' -> Forall Q objs'.
  Proof.
    intros H E. unfold finish_hit_objects in E.
    eapply g_process_objects; [|exact E].
    apply g_post_process.
    eapply Permutation_Forall; [|exact H]. symmetry. apply ssort_perm.
  Qed.

  Definition g_inv (os : outcome BMD) : Prop :=
    match os with Done b => Forall P (hod_objects (bmd_ho b)) | _ => True end.

  Lemma g_step sec os l : g_inv os -> g_inv (fst (parser_of bm_parsers sec os l)).
  Proof.
    intros Hos. destruct os as [b|w|]; [|destruct sec; exact I|destruct sec; exact I].
    cbn [g_inv] in Hos. destruct b as [ver ed md co ho]. destruct ho as [tp df ev last curve verts objs].
    cbn [bmd_ho hod_objects] in Hos.
    destruct sec; cbn [parser_of bm_parsers p_general p_editor p_metadata p_difficulty p_events p_timing_points
                       p_colors p_hit_objects p_variables p_catch_the_beat p_mania];
      unfold liftp, liftt, on_ho, noop; cbn [obind bmd_ho bmd_version bmd_editor bmd_metadata bmd_colors fst].
    - unfold hod_parse_general. destruct (tpd_parse_general _ l) as [g r]. cbn [obind fst g_inv bmd_ho hod_with_tp hod_objects]. exact Hos.
    - unfold bmd_parse_editor. destruct (parse_editor _ l) as [e r]. cbn [fst g_inv bmd_ho hod_objects]. exact Hos.
    - unfold bmd_parse_metadata. destruct (parse_metadata _ l) as [m r]. cbn [fst g_inv bmd_ho hod_objects]. exact Hos.
    - unfold hod_parse_difficulty. destruct (parse_difficulty _ l) as [d r]. cbn [obind fst g_inv bmd_ho hod_objects]. exact Hos.
    - unfold hod_parse_events. destruct (parse_events _ l) as [e r]. cbn [obind fst g_inv bmd_ho hod_objects]. exact Hos.
    - unfold hod_parse_timing_points. destruct (tpd_parse_timing_points _ l) as [[t r]|w|]; cbn [obind fst g_inv]; try exact I.
      cbn [bmd_ho hod_with_tp hod_objects]. exact Hos.
    - unfold bmd_parse_colors. destruct (parse_colors _ l) as [c r]. cbn [fst g_inv bmd_ho hod_objects]. exact Hos.
    - unfold hod_parse_hit_objects. destruct (parse_hit_objects _ l) as [[c r]|w|] eqn:E; cbn [obind fst g_inv]; try exact I.
      cbn [bmd_ho hod_with_core hod_objects]. eapply g_parse_objects; [|exact E]. exact Hos.
    - exact Hos.
    - exact Hos.
    - exact Hos.
  Qed.

  (* every hit object of every decoded map *)
  Theorem decoded_objects_forall lines m :
    decode_beatmap dist_of lines = Done m -> Forall Q (hov_hit_objects (bmv_ho m)).
  Proof.
    revert m. unfold decode_beatmap.
    assert (Hc : forall v, g_inv (Done (bmd_create v))) by (intros v; cbn; constructor).
    apply (driver_invariant _ _ _ g_inv Hc g_step
             (fun ov => forall m, ov = Done m -> Forall Q (hov_hit_objects (bmv_ho m)))).
    intros st Hst m. destruct st as [s|w|]; cbn [obind]; try discriminate.
    cbn [g_inv] in Hst. unfold bmd_finish, hod_finish.
    destruct (tpd_finish (hod_tp (bmd_ho s))) as [tv|w|]; cbn [obind]; try discriminate.
    destruct (finish_hit_objects _ _ _ _ _ _) as [objs|w|] eqn:E; cbn [obind]; try discriminate.
    intros H; inversion H; subst. cbn [bmv_ho hov_hit_objects].
    exact (g_finish _ _ _ _ _ objs Hst E).
  Qed.
End Generic.

Print Assumptions decoded_objects_forall.

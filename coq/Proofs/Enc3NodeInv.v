(* Enc3NodeInv: two invariants of decoded maps that the slider clause of the whole-map theorem
   uses -- every node of every decoded slider has a sample list of the decoder's image
   ([samples_image]), and a decoded slider's OWN sample list holds no file name (its extras field
   is read banks-only).  Carried through the line parser, the stable sort, the break
   post-processing and the per-object loop, like [decoded_objects_shape]. *)
From RM Require Import Model.EncSpec Model.EncObjCarry Model.HitObjectSpec Proofs.EncImage Proofs.EncObjectsRT Proofs.Enc2Samples
     Proofs.Enc2SampleShape Proofs.HitSamplesFacts Proofs.HitObjectLineFacts Proofs.MapLevelFacts Proofs.MapLevelConcrete
     Proofs.FramingFacts Proofs.DecodersFacts Proofs.DecodersTotal Proofs.Enc3Nodes.
From RM Require Import Gen.Generated.
From Coq Require Import Sorting.Permutation ZifyBool Lia.
Open Scope Z_scope.

(* a list built by convert_sound_type from an info without a None bank and WITHOUT a file name *)
Definition own_raw (l : list HitSampleInfo) : Prop :=
  exists b st, bank_info_ok b = true /\ sbi_filename b = None /\ l = convert_sound_type b st.

Definition node_inv (h : HitObject) : Prop :=
  match h_kind h with
  | KSlider s => Forall raw_samples (sl_node_samples s) /\ own_raw (h_samples h)
  | _ => True
  end.

(* ---------- the slider fields ---------- *)

Lemma all_some_in {A} : forall (l : list (option A)) xs x, all_some l = Some xs -> In x xs -> In (Some x) l.
Proof.
  induction l as [|o r IH]; intros xs x H Hin; cbn [all_some] in H.
  - injection H as <-. contradiction.
  - destruct o as [a|]; [|discriminate]. destruct (all_some r) as [ys|] eqn:E; cbn [omap] in H; [|discriminate].
    injection H as <-. destruct Hin as [<-|Hin]; [left; reflexivity|right; exact (IH ys x eq_refl Hin)].
Qed.

Lemma banks_only_filename b fields b' : banks_spec b fields true = Some b' -> sbi_filename b' = sbi_filename b.
Proof.
  rewrite <- read_custom_sample_banks_spec. intros H. exact (proj1 (read_banks_only_fields _ _ _ H)).
Qed.

Lemma slider_pre_nodes sound rest pre :
  parse_slider_pre sound rest = Done (Some pre) ->
  bank_info_ok (spre_bank pre) = true /\ sbi_filename (spre_bank pre) = None /\ Forall raw_samples (spre_nodes pre).
Proof.
  rewrite parse_slider_pre_spec. intros H. inversion H as [H1]. clear H. unfold slider_fields_spec in H1.
  destruct (nth_error rest 0); [|discriminate].
  destruct (obnd (nth_error rest 1) pn_i32); [|discriminate].
  destruct (repeat_cap <? z); [discriminate|].
  destruct (length_spec (nth_error rest 2)); [|discriminate].
  destruct (match nth_error rest 5 with Some s0 => banks_spec sbi_default (split_on 58 s0) true | None => Some sbi_default end) as [bank|] eqn:E; [|discriminate].
  destruct (node_samples_spec _ _ _ _ _) as [nodes|] eqn:En; [|discriminate]. cbn [omap] in H1. inversion H1; subst.
  cbn [spre_bank spre_nodes].
  assert (Hb : bank_info_ok bank = true /\ sbi_filename bank = None).
  { destruct (nth_error rest 5).
    - split; [exact (banks_spec_ok _ _ _ _ sbi_default_ok E)|rewrite (banks_only_filename _ _ _ E); reflexivity].
    - inversion E; subst. split; reflexivity. }
  destruct Hb as [Hb Hf]. split; [exact Hb|]. split; [exact Hf|].
  unfold node_samples_spec in En.
  destruct (all_some _) as [banks|] eqn:Ea; cbn [omap] in En; [|discriminate]. injection En as <-.
  apply Forall_forall. intros l Hl. apply in_map_iff in Hl. destruct Hl as ([i b] & <- & Hin). cbn [fst snd].
  apply in_combine_r in Hin. pose proof (all_some_in _ _ _ Ea Hin) as Hs.
  apply in_map_iff in Hs. destruct Hs as (j & Hj & _). unfold node_bank_at in Hj.
  exists b, (node_sound_at sound (pieces (nth_error rest 3)) i). split; [|symmetry; apply convert_sound_type_spec].
  destruct (nth_error (pieces (nth_error rest 4)) j).
  - exact (banks_spec_ok _ _ _ _ Hb Hj).
  - injection Hj as <-. exact Hb.
Qed.

(* ---------- the line parser ---------- *)

Lemma parse_kind_nodes st hd st1 kind bank :
  parse_kind st hd = Done (st1, Some (kind, bank)) ->
  match kind with
  | KSlider s => Forall raw_samples (sl_node_samples s) /\ bank_info_ok bank = true /\ sbi_filename bank = None
  | _ => True
  end.
Proof.
  unfold parse_kind. intros H.
  destruct (has_flag (hd_type hd) hot_circle).
  { destruct (read_extras _ _) as [b|] eqn:E; inversion H; subst. exact I. }
  destruct (has_flag (hd_type hd) hot_slider).
  { destruct (parse_slider_pre (hd_sound hd) (hd_rest hd)) as [[pre|]| |] eqn:E; try discriminate.
    destruct (convert_path_str _ _ _) as [[pb [|]]| |]; inversion H; subst.
    destruct (slider_pre_nodes _ _ _ E) as (A & B & C). cbn [sl_node_samples]. repeat split; assumption. }
  destruct (has_flag (hd_type hd) hot_spinner).
  { destruct (hd_rest hd) as [|d r1]; [discriminate|]. destruct (pn_f64 d); [|discriminate].
    destruct (read_extras _ _) as [b|] eqn:E; inversion H; subst. exact I. }
  destruct (has_flag (hd_type hd) hot_hold); [|discriminate].
  destruct (nonempty _) as [s|]; [|inversion H; subst; exact I].
  destruct (split_on 58 s) as [|e ss]; [discriminate|]. destruct (pn_f64 e); [|discriminate].
  destruct (read_custom_sample_banks sbi_default ss false) as [b|] eqn:E; inversion H; subst. exact I.
Qed.

Theorem parse_node_inv st line st' r :
  Forall node_inv (ho_objects st) -> parse_hit_objects st line = Done (st', r) -> Forall node_inv (ho_objects st').
Proof.
  intros Hst H. unfold parse_hit_objects in H.
  destruct (parse_header line) as [hd|]; [|inversion H; subst; exact Hst].
  destruct (parse_kind st hd) as [[st1 [[kind bank]|]]| |] eqn:E; try discriminate.
  - destruct (parse_kind_image _ _ _ _ _ E) as (Ho & _ & _). pose proof (parse_kind_nodes _ _ _ _ _ E) as Hn.
    inversion H; subst. cbn [ho_objects]. rewrite Ho. apply Forall_app. split; [exact Hst|]. constructor; [|constructor].
    unfold node_inv. cbn [h_kind h_samples]. destruct kind as [c|s|s|hd0]; try exact I.
    destruct Hn as (A & B & C). split; [exact A|]. exists bank, (hd_sound hd). repeat split; assumption.
  - inversion H; subst. rewrite (parse_kind_rejected_objects _ _ _ E). exact Hst.
Qed.

(* ---------- the map-level processing ---------- *)

Lemma force_node_inv h f : node_inv h -> node_inv (force_new_combo h f).
Proof. unfold node_inv, force_new_combo. destruct (h_kind h) eqn:E; cbn [h_kind h_samples sl_node_samples]; rewrite ?E; intros H; exact H. Qed.

Lemma post_process_node_inv bs : forall objs, Forall node_inv objs ->
  Forall node_inv (post_process_breaks h_start force_new_combo bs objs).
Proof.
  intros objs. revert bs. induction objs as [|h r IH]; intros bs H; cbn [post_process_breaks]; [constructor|].
  inversion H; subst. destruct (skip_breaks bs (h_start h) false) as [bs' f]. constructor; [apply force_node_inv; assumption|apply IH; assumption].
Qed.

(* what the composed theorem needs of a decoded slider *)
Definition nodes_image (h : HitObject) : Prop :=
  match h_kind h with
  | KSlider s => Forall (fun l => samples_image l = true) (sl_node_samples s) /\ first_file (h_samples h) = None
  | _ => True
  end.

Lemma sp_apply_name p s : hs_name (sp_apply p s) = hs_name s.
Proof. unfold sp_apply. destruct (hs_name s); reflexivity. Qed.

Lemma first_file_apply p : forall l, first_file l = None -> first_file (map (sp_apply p) l) = None.
Proof.
  induction l as [|s r IH]; intros H; [reflexivity|]. cbn [map first_file] in H |- *.
  unfold nonempty_file in *. rewrite sp_apply_name. destruct (hs_name s) as [n|[|c f]]; try discriminate; exact (IH H).
Qed.

Lemma convert_no_file b st : sbi_filename b = None -> first_file (convert_sound_type b st) = None.
Proof.
  intros H. unfold convert_sound_type. rewrite H.
  repeat match goal with |- context [if ?c then _ else _] => destruct c end; reflexivity.
Qed.

Section WithDist.
  Variable dist_of : Z -> list PCP -> option F64 -> outcome F64.

  Lemma sample_point_bank13 c t : (forall p, In p (cp_sample c) -> bank13 (sp_bank p) = true) ->
    bank13 (sp_bank (sample_point_or_default c t)) = true.
  Proof.
    intros Hc. unfold sample_point_or_default. destruct (sample_point_at c t) as [p|] eqn:Ep; [|reflexivity].
    exact (Hc p (sample_point_in _ _ _ Ep)).
  Qed.

  Lemma apply_nodes_image c start dur spans : (forall p, In p (cp_sample c) -> bank13 (sp_bank p) = true) ->
    forall nodes i, Forall raw_samples nodes ->
    Forall (fun l => samples_image l = true) (apply_nodes c start dur spans i nodes).
  Proof.
    intros Hc. induction nodes as [|n r IH]; intros i H; cbn [apply_nodes]; [constructor|].
    inversion H as [|? ? (b & st & Hb & ->) Hr]; subst. constructor; [|exact (IH (i + 1) Hr)].
    apply processed_samples_image; [exact Hb|apply sample_point_bank13; exact Hc].
  Qed.

  Lemma process_object_nodes c sm mode h h' : (forall p, In p (cp_sample c) -> bank13 (sp_bank p) = true) ->
    node_inv h -> process_object dist_of c sm mode h = Done h' -> nodes_image h'.
  Proof.
    intros Hc Hn H. unfold nodes_image. destruct (h_kind h) as [ci|s|s|hd] eqn:Hk.
    2: { destruct (process_object_slider dist_of c sm mode h s h' Hk H) as (dp & d & _ & _ & E). cbv zeta in E. subst h'.
         cbn [h_kind h_samples sl_node_samples]. unfold node_inv in Hn. rewrite Hk in Hn. destruct Hn as (A & b & st & Hb & Hf & Es).
         split; [apply apply_nodes_image; assumption|].
         rewrite Es. apply first_file_apply. apply convert_no_file. exact Hf. }
    all: destruct (process_object_non_slider dist_of c sm mode h) as (e & E & _);
      [intros s0; rewrite Hk; discriminate|]; rewrite E in H; injection H as <-; cbn [h_kind]; rewrite Hk; exact I.
  Qed.

  Lemma process_objects_nodes c sm mode : (forall p, In p (cp_sample c) -> bank13 (sp_bank p) = true) ->
    forall l l', Forall node_inv l -> process_objects dist_of c sm mode l = Done l' -> Forall nodes_image l'.
  Proof.
    intros Hc. induction l as [|h r IH]; intros l' Hl H; cbn [process_objects] in H.
    - injection H as <-. constructor.
    - inversion Hl as [|? ? Hh Hr]; subst.
      destruct (process_object dist_of c sm mode h) as [h'|w|] eqn:Eh; cbn [obind] in H; try discriminate.
      destruct (process_objects dist_of c sm mode r) as [r'|w|] eqn:Er; cbn [obind] in H; try discriminate.
      injection H as <-. constructor; [exact (process_object_nodes c sm mode h h' Hc Hh Eh)|exact (IH r' Hr eq_refl)].
  Qed.

  Definition node_inv_bm (os : outcome BMD) : Prop :=
    match os with Done b => Forall node_inv (hod_objects (bmd_ho b)) | _ => True end.

  Lemma node_inv_bm_step sec os l : node_inv_bm os -> node_inv_bm (fst (parser_of bm_parsers sec os l)).
  Proof.
    intros Hos. destruct os as [b|w|]; [|destruct sec; exact I|destruct sec; exact I].
    cbn [node_inv_bm] in Hos. destruct b as [ver ed md co ho]. destruct ho as [tp df ev last curve verts objs].
    cbn [bmd_ho hod_objects] in Hos.
    destruct sec; cbn [parser_of bm_parsers p_general p_editor p_metadata p_difficulty p_events p_timing_points
                       p_colors p_hit_objects p_variables p_catch_the_beat p_mania];
      unfold liftp, liftt, on_ho, noop; cbn [obind bmd_ho bmd_version bmd_editor bmd_metadata bmd_colors fst].
    - unfold hod_parse_general. destruct (tpd_parse_general _ l) as [g r]. cbn [obind fst node_inv_bm bmd_ho hod_with_tp hod_objects]. exact Hos.
    - unfold bmd_parse_editor. destruct (parse_editor _ l) as [e r]. cbn [fst node_inv_bm bmd_ho hod_objects]. exact Hos.
    - unfold bmd_parse_metadata. destruct (parse_metadata _ l) as [m r]. cbn [fst node_inv_bm bmd_ho hod_objects]. exact Hos.
    - unfold hod_parse_difficulty. destruct (parse_difficulty _ l) as [d r]. cbn [obind fst node_inv_bm bmd_ho hod_objects]. exact Hos.
    - unfold hod_parse_events. destruct (parse_events _ l) as [e r]. cbn [obind fst node_inv_bm bmd_ho hod_objects]. exact Hos.
    - unfold hod_parse_timing_points. destruct (tpd_parse_timing_points _ l) as [[t r]|w|]; cbn [obind fst node_inv_bm]; try exact I.
      cbn [bmd_ho hod_with_tp hod_objects]. exact Hos.
    - unfold bmd_parse_colors. destruct (parse_colors _ l) as [c r]. cbn [fst node_inv_bm bmd_ho hod_objects]. exact Hos.
    - unfold hod_parse_hit_objects. destruct (parse_hit_objects _ l) as [[c r]|w|] eqn:E; cbn [obind fst node_inv_bm]; try exact I.
      cbn [bmd_ho hod_with_core hod_objects]. eapply parse_node_inv; [|exact E]. exact Hos.
    - exact Hos.
    - exact Hos.
    - exact Hos.
  Qed.

  (* every slider of every decoded map: nodes in the decoder's image, own samples without file name *)
  Theorem decoded_nodes_image lines m :
    Forall no_lf_line lines -> decode_beatmap dist_of lines = Done m ->
    Forall nodes_image (hov_hit_objects (bmv_ho m)).
  Proof.
    intros Hl Hd. pose proof (decoded_banks13 dist_of lines m Hl Hd) as Hb.
    assert (G : forall m0, decode_beatmap dist_of lines = Done m0 ->
              (forall p, In p (cp_sample (hov_control_points (bmv_ho m0))) -> bank13 (sp_bank p) = true) ->
              Forall nodes_image (hov_hit_objects (bmv_ho m0))); [|exact (G m Hd Hb)].
    unfold decode_beatmap.
    assert (Hc : forall v, node_inv_bm (Done (bmd_create v))) by (intros v; cbn; constructor).
    apply (driver_invariant _ _ _ node_inv_bm Hc node_inv_bm_step
             (fun ov => forall m0, ov = Done m0 ->
                (forall p, In p (cp_sample (hov_control_points (bmv_ho m0))) -> bank13 (sp_bank p) = true) ->
                Forall nodes_image (hov_hit_objects (bmv_ho m0)))).
    intros st Hst m0. destruct st as [s|w|]; cbn [obind]; try discriminate.
    cbn [node_inv_bm] in Hst. intros Hf Hb0.
    destruct (bmd_finish_inv dist_of s m0 Hf) as (_ & _ & _ & _ & Hh).
    destruct (hod_finish_inv dist_of _ _ Hh) as (_ & _ & _ & _ & Hfin).
    unfold finish_hit_objects in Hfin.
    eapply process_objects_nodes; [exact Hb0| |exact Hfin].
    apply post_process_node_inv. eapply Permutation_Forall; [|exact Hst]. symmetry. apply ssort_perm.
  Qed.
End WithDist.

Print Assumptions decoded_nodes_image.

(* SliderEventsIEEE: facts about the binary64 instance of the slider event
   model: exactly when new() panics, zero tick distance. *)
From RM Require Import Model.SliderEvents Proofs.SliderEventsFacts.
From RM Require Import Gen.Generated.
Open Scope Z_scope.

Lemma c_zero64 : c_zero ops64 = D.zero.
Proof. reflexivity. Qed.

Lemma max_len_not_nan : D.is_nan (c_max_len ops64) = false.
Proof. vm_compute. reflexivity. Qed.
Lemma max_len_nonneg : D.le D.zero (c_max_len ops64) = true.
Proof. vm_compute. reflexivity. Qed.

(* comparisons against +0.0, by cases on the IEEE datum *)
Lemma le0_lt0 (t : F64) : D.is_nan t = false -> D.le D.zero t = negb (D.lt t D.zero).
Proof.
  destruct t as [s|s| |s m e H]; try (destruct s; reflexivity). discriminate.
Qed.

Lemma lt0_le0_lt (x y : F64) : D.lt x D.zero = true -> D.le D.zero y = true -> D.lt x y = true.
Proof.
  destruct x as [sx|sx| |sx mx ex Hx]; destruct y as [sy|sy| |sy my ey Hy];
    try (destruct sx); try (destruct sy); intros H1 H2; try discriminate; reflexivity.
Qed.

Lemma le0_not_lt_zero (y : F64) s : D.le D.zero y = true -> D.lt y (B754_zero s) = false.
Proof.
  destruct y as [sy|sy| |sy my ey Hy]; try (destruct sy); intros H; try discriminate; reflexivity.
Qed.

(* the effective length is never NaN and is >= 0 unless total_dist < 0 *)
Lemma sp_len_cases (t : F64) :
  let len := D.min (c_max_len ops64) t in
  D.le D.zero len = negb (D.lt t D.zero).
Proof.
  cbn zeta. unfold D.min, fmin. fold D.is_nan D.lt.
  rewrite max_len_not_nan.
  destruct (D.is_nan t) eqn:En.
  - rewrite max_len_nonneg. destruct t; try discriminate. reflexivity.
  - destruct (D.lt t (c_max_len ops64)) eqn:El.
    + apply le0_lt0. exact En.
    + rewrite max_len_nonneg. destruct (D.lt t D.zero) eqn:Ez; [|reflexivity].
      rewrite (lt0_le0_lt _ _ Ez max_len_nonneg) in El. discriminate.
Qed.

(* No-panic characterisation of SliderEventsIter::new: it panics (f64::clamp,
   "min > max") exactly when total_dist < 0 numerically -- negative finite or
   -inf; -0.0, NaN and +inf do not panic.  Otherwise it returns an iterator in
   the Head state with an empty tick buffer, whatever the buffer held. *)
Theorem iter_new_panics_iff (p : params F64) (buf : list (event F64)) :
  if D.lt (p_total p) D.zero
  then iter_new ops64 p buf = Panic 1
  else exists td, iter_new ops64 p buf =
         Done (mkIt (p_start p) (p_dur p) (sp_mdfe ops64 p) td (sp_len ops64 p) (p_n p) [] SHead).
Proof.
  unfold iter_new. cbn [ops64 f_min f_clamp_chk f_mul].
  unfold D.clamp_chk, fclamp. fold D.le. rewrite c_zero64.
  rewrite sp_len_cases.
  destruct (D.lt (p_total p) D.zero); cbn [negb obind]; [reflexivity|].
  eexists. reflexivity.
Qed.

(* a zero tick distance (+0.0 or -0.0) stays zero through the clamp *)
Lemma clamp_zero (p : params F64) s :
  D.lt (p_total p) D.zero = false -> p_td p = B754_zero s ->
  f_clamp_chk ops64 (p_td p) (c_zero ops64) (sp_len ops64 p) = Done (B754_zero s) /\
  f_lt ops64 (c_zero ops64) (B754_zero s) = false.
Proof.
  intros Ht Hz. cbn [ops64 f_clamp_chk f_lt]. unfold sp_len. cbn [ops64 f_min].
  unfold D.clamp_chk, fclamp. fold D.le. rewrite c_zero64.
  pose proof (sp_len_cases (p_total p)) as Hl. cbn zeta in Hl. rewrite Ht in Hl. cbn [negb] in Hl.
  rewrite Hl, Hz. split; [|destruct s; reflexivity].
  replace (flt 53 1024 (B754_zero s) D.zero) with false by (destruct s; reflexivity).
  change (fgt 53 1024 (B754_zero s) (D.min (c_max_len ops64) (p_total p)))
    with (D.lt (D.min (c_max_len ops64) (p_total p)) (B754_zero s)).
  rewrite (le0_not_lt_zero _ s Hl). reflexivity.
Qed.

(* T20a, zero tick distance: no ticks, every repeat, for any fuel *)
Theorem zero_tick_dist_stream chk fuel tf (p : params F64) buf s :
  0 <= p_n p <= i32_max -> D.lt (p_total p) D.zero = false -> p_td p = B754_zero s ->
  (Z.to_nat (p_n p) + 3 < fuel)%nat ->
  run ops64 chk fuel tf p buf =
  Done (sp_head ops64 (p_start p) :: map (sp_repeat ops64 (p_start p) (p_dur p)) (spans (p_n p - 1))
          ++ [sp_last_tick ops64 (p_start p) (p_dur p) (p_n p); sp_tail ops64 (p_start p) (p_dur p) (p_n p)]).
Proof.
  intros Hn Ht Hz Hf. destruct (clamp_zero p s Ht Hz) as [Ec Hlt].
  pose proof (events_spec_no_ticks ops64 tf p _ Ec Hlt) as Hs.
  rewrite <- Hs. apply run_eq_spec; [exact Hn|].
  intros evs He. rewrite Hs in He. injection He as <-.
  cbn [length]. rewrite app_length, map_length. unfold spans. rewrite map_length, seq_length.
  cbn [length]. lia.
Qed.

(* CurveNoPanic: the slider-curve computation never panics (C01, layer 3).

   For EVERY libm record (no hypothesis on sin/cos/atan2/acosf), every fuel,
   every list of control points (empty, a single point, NaN / infinite
   coordinates) and every requested length, [curve_L1] is [Done c] or
   [OutOfFuel]; it is never [Panic w].  Per function:
     - approximate_bezier_L1: every array popped from the stack has the length
       p of the segment (>= 1), so `l[count - 1]`, `points[p - 1]` are in range;
     - approximate_catmull: `points.len() - 1` on a non-empty slice;
     - approximate_circular_arc: no panic point; the `while theta_end <
       theta_start` loop either stops or runs out of fuel;
     - cpath_loop (calculate_path): `points[i]`, `vertices[start..=i]` with
       start <= i < len, the slice is never empty (the `unreachable!()` arm),
       `points[start]`; every sub-path routine is called on >= 2 vertices;
       when skip_first holds, `path[path_len..].rotate_left(1)` and `pop()`
       act on a non-empty tail;
     - calculate_length: by the case analysis of LengthFacts every branch
       returns (all of pop / truncate / path[end_idx] / path[prev_idx] /
       cumulative_len[prev_idx] are in range).
   The same for the buffer-reusing code level (L0) on well-formed buffers, by
   the refinement theorems of C18.

   [OutOfFuel] has exactly two sources, the two loops of curve.rs without a
   structural bound: the Bezier subdivision stack and the theta loop.  If
   both return, the curve is a value ([curve_L1_done_if]).  The theta loop
   returns after at most one addition as soon as the atan2 of the libm
   record has its values in [-pi, pi] (Proofs/ThetaLoop.v); no such fact is
   needed for "never panics". *)
From RM Require Import Model.ControlPoints Model.Curve Gen.Generated
     Proofs.BezierRefine Proofs.PathFacts Proofs.LengthFacts Proofs.CurveRefine.
Require Import ZifyBool.
Open Scope nat_scope.

(* ------------------------------------------------------------------ *)
(* outcomes: [good true] = not a panic, [good false] = a value          *)

Definition good {A} (fuel_ok : bool) (o : outcome A) : Prop :=
  match o with Done _ => True | Panic _ => False | OutOfFuel => fuel_ok = true end.

Definition np {A} (o : outcome A) : Prop := good true o.

Lemma np_iff {A} (o : outcome A) : np o <-> forall w, o <> Panic w.
Proof.
  unfold np. destruct o as [a|w|]; cbn [good]; split; intros H; try discriminate; try exact I; try reflexivity.
  - contradiction.
  - exact (H w eq_refl).
Qed.

Lemma good_false_iff {A} (o : outcome A) : good false o <-> exists a, o = Done a.
Proof.
  destruct o as [a|w|]; cbn [good]; split; intros H; try discriminate; try contradiction; eauto.
  - destruct H; discriminate.
  - destruct H; discriminate.
Qed.

Lemma np_cases {A} (o : outcome A) : np o <-> (exists a, o = Done a) \/ o = OutOfFuel.
Proof.
  unfold np. destruct o as [a|w|]; cbn [good]; split; intros H; eauto.
  - contradiction.
  - destruct H as [[a H]|H]; discriminate.
Qed.

Lemma good_weaken {A} f (o : outcome A) : good f o -> np o.
Proof. unfold np. destruct o; cbn [good]; auto. Qed.

Lemma good_obind {A C} f (o : outcome A) (g : A -> outcome C) :
  good f o -> (forall a, o = Done a -> good f (g a)) -> good f (obind o g).
Proof. destruct o as [a|w|]; cbn [obind good]; auto. Qed.

Lemma good_done {A} f (a : A) : good f (Done a).
Proof. exact I. Qed.

Lemma aget_lt {A} (l : list A) i : i < length l -> exists x, aget l i = Done x.
Proof.
  intros H. unfold aget. destruct (nth_error l i) as [x|] eqn:E; [eauto|].
  apply nth_error_None in E. lia.
Qed.

(* ------------------------------------------------------------------ *)
(* Bezier: stack discipline                                            *)

Section BezierStack.
  Variable p : nat.

  (* every array on the to_flatten stack has the p control points of the segment *)
  Definition bz_len_inv (st : list (list Pos) * list Pos) : Prop :=
    Forall (fun c => length c = p) (fst st).

  Lemma bspline_step1_len st : 1 <= p -> bz_len_inv st ->
    match bspline_step1 st with inl st' => bz_len_inv st' | inr r => np r end.
  Proof.
    intros Hp. destruct st as [stack path]. unfold bz_len_inv, bspline_step1. cbn [fst snd].
    intros H. destruct stack as [|parent rest]; [exact I|].
    inversion H as [|? ? Hpar Hrest]; subst.
    destruct parent as [|q0 qt]; [cbn [length] in Hp; lia|].
    destruct (flat_enough (q0 :: qt)); cbn [fst]; [exact Hrest|].
    pose proof (subdiv_length (length (q0 :: qt)) (q0 :: qt)) as [Hl Hr].
    destruct (subdiv (length (q0 :: qt)) (q0 :: qt)) as [l r]. cbn [fst snd] in *.
    repeat constructor; assumption.
  Qed.
End BezierStack.

(* approximate_bezier / approximate_bspline on a non-empty slice *)
Lemma approximate_bezier_L1_np fuel path points b :
  points <> [] -> np (approximate_bezier_L1 fuel path points b).
Proof.
  intros Hne. unfold approximate_bezier_L1.
  assert (Hp : 1 <= length points) by (destruct points; [congruence|cbn [length]; lia]).
  apply good_obind.
  - apply (iter_fuel_inv bspline_step1 (bz_len_inv (length points)) np eq_refl).
    + intros s Hs. apply bspline_step1_len; assumption.
    + unfold bz_len_inv. cbn [fst]. repeat constructor.
  - intros path' _. destruct points; [congruence|exact I].
Qed.

(* the popped arrays are never empty: `l[count - 1]` of bezier_subdivide *)
Lemma approximate_bezier_L1_nil fuel path b : exists w, approximate_bezier_L1 fuel path [] b = Panic w.
Proof.
  unfold approximate_bezier_L1, iter_fuel.
  rewrite (iterP_stop bspline_step1 (Panic 2)) by reflexivity. eexists. reflexivity.
Qed.

(* the code level: for well-formed scratch buffers *)
Lemma approximate_bezier_L0_np fuel path points b :
  bb_wf b -> points <> [] -> np (approximate_bezier_L0 fuel path points b).
Proof.
  intros Hwf Hne. pose proof (approximate_bezier_refines fuel path points b Hwf) as R.
  pose proof (approximate_bezier_L1_np fuel path points tt Hne) as H1.
  destruct (approximate_bezier_L1 fuel path points tt) as [[p1 u]| |].
  - destruct R as (b' & -> & _). exact I.
  - contradiction.
  - rewrite R. reflexivity.
Qed.

(* ------------------------------------------------------------------ *)
(* Catmull                                                             *)

Lemma approximate_catmull_done points :
  points <> [] -> exists cat, approximate_catmull points = Done cat.
Proof.
  intros H. unfold approximate_catmull. destruct points as [|p0 [|p1 r]]; [congruence| |]; eauto.
Qed.

(* ------------------------------------------------------------------ *)
(* circular arc                                                        *)

Lemma theta_loop_np ts te : np (theta_loop ts te).
Proof.
  unfold theta_loop.
  apply (iter_fuel_inv _ (fun _ => True) np eq_refl); [|exact I].
  intros s _. destruct (D.lt s ts); exact I.
Qed.

Section Arc.
  Variable lm : Libm.
  Variable f : bool.

  Lemma circular_arc_properties_good :
    (forall ts te, good f (theta_loop ts te)) ->
    forall a b c, good f (circular_arc_properties lm a b c).
  Proof.
    intros theta_good a b c. unfold circular_arc_properties.
    destruct (S.le _ S.eps); [exact I|].
    destruct (arc_centre_g _ _ _ _ _ _ _ _ _ _ _) as [ccx ccy].
    apply good_obind; [apply theta_good|].
    intros te _. destruct (S.lt _ S.zero); exact I.
  Qed.

  Hypothesis arc_good : forall a b c, good f (circular_arc_properties lm a b c).

  Lemma approximate_circular_arc_good a b c : good f (approximate_circular_arc lm a b c).
  Proof.
    unfold approximate_circular_arc. apply good_obind; [apply arc_good|].
    intros [pr|] _; [|exact I].
    destruct (arc_subpoint_cap <=? arc_sub_points lm pr)%Z; exact I.
  Qed.
End Arc.

(* ------------------------------------------------------------------ *)
(* calculate_subpath / calculate_path                                  *)

Section Path.
  Context {B : Type}.
  Variable bezier : list Pos -> list Pos -> B -> outcome (list Pos * B).
  Variable lm : Libm.
  Variable f : bool.
  (* which scratch states occur (L1: all; L0: the well-formed ones) *)
  Variable Inv : B -> Prop.
  Hypothesis bezier_good : forall path sub b, Inv b -> sub <> [] ->
    good f (bezier path sub b) /\ forall path' b', bezier path sub b = Done (path', b') -> Inv b'.
  Hypothesis arc_good : forall a b c, good f (circular_arc_properties lm a b c).

  Definition good3 (o : outcome (list Pos * F64 * B)) : Prop :=
    good f o /\ forall path opt b, o = Done (path, opt, b) -> Inv b.

  Lemma good3_done path opt b : Inv b -> good3 (Done (path, opt, b)).
  Proof. intros H. split; [exact I|]. intros ? ? ? E. inversion E; subst. exact H. Qed.

  Lemma bez3_good path sub opt b : Inv b -> sub <> [] -> good3 (bez3 bezier path sub opt b).
  Proof.
    intros Hb Hne. destruct (bezier_good path sub b Hb Hne) as [Hg Hi]. unfold bez3.
    destruct (bezier path sub b) as [[path' b']| |]; cbn [obind].
    - apply good3_done. exact (Hi _ _ eq_refl).
    - contradiction.
    - split; [exact Hg|discriminate].
  Qed.

  (* all four segment kinds, on a non-empty slice of vertices *)
  Lemma calculate_subpath_good osu path sub kind opt b : Inv b -> sub <> [] ->
    good3 (calculate_subpath bezier lm osu path sub kind opt b).
  Proof.
    intros Hb Hne. unfold calculate_subpath. destruct kind.
    - (* Catmull *)
      destruct (approximate_catmull_done sub Hne) as (cat & ->). cbn [obind].
      destruct (negb osu); [apply good3_done; exact Hb|].
      destruct (catmull_simplify cat opt) as [kept opt']. apply good3_done; exact Hb.
    - (* BSpline *) apply bez3_good; assumption.
    - (* Linear *) apply good3_done; exact Hb.
    - (* PerfectCurve *)
      destruct sub as [|a [|m [|c [|x t]]]]; try (apply bez3_good; assumption).
      pose proof (approximate_circular_arc_good lm f arc_good a m c) as Ha.
      destruct (approximate_circular_arc lm a m c) as [[arc|]| |]; cbn [obind].
      + apply good3_done; exact Hb.
      + apply bez3_good; assumption.
      + contradiction.
      + split; [exact Ha|discriminate].
  Qed.

  (* `for i in 0..points.len()`: i + k = n = points.len() = vertices.len(), start <= i *)
  Lemma cpath_loop_good k : forall i start n osu pts verts path opt b,
    Inv b -> i + k = n -> start <= i -> length pts = n -> length verts = n ->
    good3 (cpath_loop bezier lm k i start n osu pts verts path opt b).
  Proof.
    induction k as [|k IH]; intros i start n osu pts verts path opt b Hb Hik Hsi Hp Hv; cbn [cpath_loop].
    - apply good3_done; exact Hb.
    - destruct (aget_lt pts i ltac:(lia)) as (cp & ->). cbn [obind].
      destruct ((match pc_type cp with None => true | Some _ => false end) && Nat.ltb i (n - 1))%bool.
      + apply IH; try assumption; lia.
      + replace (Nat.ltb i start || Nat.leb (length verts) i)%bool with false.
        2:{ symmetry. apply Bool.orb_false_iff. split; [apply Nat.ltb_ge; lia|apply Nat.leb_gt; lia]. }
        assert (Hlen : length (firstn (S i - start) (skipn start verts)) = S i - start).
        { rewrite firstn_length, skipn_length. lia. }
        destruct (firstn (S i - start) (skipn start verts)) as [|v [|v2 t]] eqn:Eseg.
        * cbn [length] in Hlen. lia.
        * apply IH; try assumption; lia.
        * destruct (aget_lt pts start ltac:(lia)) as (cps & ->). cbn [obind].
          pose proof (calculate_subpath_good osu path (v :: v2 :: t)
                        (match pc_type cps with None => Linear | Some t0 => t0 end) opt b Hb
                        ltac:(discriminate)) as [Hg Hi].
          destruct (calculate_subpath bezier lm osu path (v :: v2 :: t) _ opt b) as [[[path' opt'] b']| |];
            cbn [obind].
          -- apply IH; try lia. exact (Hi _ _ _ eq_refl).
          -- contradiction.
          -- split; [exact Hg|discriminate].
  Qed.
End Path.

(* the model's [drop_joint] is total; in the code `path[path_len..]` needs
   path_len <= len, and rotate_left(1) needs a non-empty tail: both hold
   whenever [skip_first] is true *)
Lemma skip_first_in_range (path : list Pos) path_len :
  skip_first path path_len = true -> 1 <= path_len < length path.
Proof.
  unfold skip_first. destruct path_len as [|idx]; [discriminate|].
  destruct (nth_error path (S idx)) as [x|] eqn:E; [|discriminate].
  intros _. split; [lia|]. apply nth_error_Some. congruence.
Qed.

(* ------------------------------------------------------------------ *)
(* calculate_length                                                    *)

Theorem calculate_length_done path e opt : exists r, calculate_length path e opt = Done r.
Proof.
  pose proof (calculate_length_cases path e opt) as C. cbv zeta in C.
  destruct e as [L|]; [|eauto].
  destruct (keeps_natural (natural_len path opt) L); [eauto|].
  destruct (last_two_equal path && D.gt L (natural_len path opt))%bool; [eauto|].
  destruct (Nat.leb (length path) 1); [eauto|].
  destruct (last_valid (removelast (natural path opt)) L); [eauto|].
  destruct C as (p' & _ & _ & C). eauto.
Qed.

(* ------------------------------------------------------------------ *)
(* Curve::new                                                          *)

Section Curve.
  Variable lm : Libm.
  Variable fuel : positive.

  Section Level.
    Variable f : bool.
    Hypothesis bezier_good : forall path sub, sub <> [] -> good f (approximate_bezier_L1 fuel path sub tt).
    Hypothesis arc_good : forall a b c, good f (circular_arc_properties lm a b c).

    Lemma calculate_path_L1_good mode pts : good f (calculate_path_L1 lm fuel mode pts).
    Proof.
      unfold calculate_path_L1. destruct pts as [|p0 pt]; [exact I|].
      set (pts := p0 :: pt).
      assert (H : @good3 unit f (fun _ => True)
                    (cpath_loop (approximate_bezier_L1 fuel) lm (length pts) 0 0 (length pts) (is_osu mode)
                       pts (map pc_pos pts) [] D.zero tt)).
      { apply cpath_loop_good; try lia; try exact I.
        - intros path sub [] _ Hne. split; [apply bezier_good; exact Hne|auto].
        - exact arc_good.
        - apply map_length. }
      destruct H as [H _]. apply good_obind; [exact H|].
      intros [[path opt] u] _. exact I.
    Qed.

    Lemma curve_L1_good mode pts e : good f (curve_L1 lm fuel mode pts e).
    Proof.
      unfold curve_L1. apply good_obind; [apply calculate_path_L1_good|].
      intros [path opt] _. destruct (calculate_length_done path e opt) as ([path' lens] & ->). exact I.
    Qed.
  End Level.

  (* T01a for the curve, first half: never a panic *)
  Theorem curve_L1_no_panic : forall mode pts e w, curve_L1 lm fuel mode pts e <> Panic w.
  Proof.
    intros mode pts e. apply np_iff. apply (curve_L1_good true).
    - intros path sub Hne. apply approximate_bezier_L1_np. exact Hne.
    - apply circular_arc_properties_good. exact theta_loop_np.
  Qed.

  Corollary curve_L1_outcome mode pts e :
    (exists c, curve_L1 lm fuel mode pts e = Done c) \/ curve_L1 lm fuel mode pts e = OutOfFuel.
  Proof. apply np_cases, np_iff. apply curve_L1_no_panic. Qed.

  (* second half: [OutOfFuel] can only come out of the two unbounded loops *)
  Theorem curve_L1_done_if mode pts e :
    (forall path sub, sub <> [] -> exists r, approximate_bezier_L1 fuel path sub tt = Done r) ->
    (forall ts te, exists r, theta_loop ts te = Done r) ->
    exists c, curve_L1 lm fuel mode pts e = Done c.
  Proof.
    intros Hb Ht. apply good_false_iff. apply curve_L1_good.
    - intros path sub Hne. apply good_false_iff. exact (Hb path sub Hne).
    - apply circular_arc_properties_good. intros ts te. apply good_false_iff. exact (Ht ts te).
  Qed.

  (* the same with the condition on the arcs instead of all theta loops *)
  Theorem curve_L1_done_if_arc mode pts e :
    (forall path sub, sub <> [] -> exists r, approximate_bezier_L1 fuel path sub tt = Done r) ->
    (forall a b c, exists r, circular_arc_properties lm a b c = Done r) ->
    exists c, curve_L1 lm fuel mode pts e = Done c.
  Proof.
    intros Hb Ha. apply good_false_iff. apply curve_L1_good.
    - intros path sub Hne. apply good_false_iff. exact (Hb path sub Hne).
    - intros a b c. apply good_false_iff. exact (Ha a b c).
  Qed.

  (* the code level, for any well-formed buffers *)
  Corollary curve_new_L0_no_panic mode pts e bufs w :
    cb_wf bufs -> curve_new_L0 lm fuel mode pts e bufs <> Panic w.
  Proof.
    intros Hwf. pose proof (curve_new_refines lm fuel mode pts e bufs Hwf) as R.
    pose proof (curve_L1_no_panic mode pts e) as N.
    destruct (curve_L1 lm fuel mode pts e) as [c|w'|].
    - destruct R as (b' & -> & _). discriminate.
    - exfalso. exact (N w' eq_refl).
    - rewrite R. discriminate.
  Qed.

  Corollary borrowed_new_L0_no_panic mode pts e bufs w :
    cb_wf bufs -> borrowed_new_L0 lm fuel mode pts e bufs <> Panic w.
  Proof.
    intros Hwf. pose proof (borrowed_new_refines lm fuel mode pts e bufs Hwf) as R.
    pose proof (curve_L1_no_panic mode pts e) as N.
    destruct (curve_L1 lm fuel mode pts e) as [c|w'|].
    - destruct R as (b' & -> & _). discriminate.
    - exfalso. exact (N w' eq_refl).
    - rewrite R. discriminate.
  Qed.
End Curve.

(* VertexIEEEBezierTight: C17, Bezier / B-spline segments -- the two-sided
   bound of VertexIEEEBezierPath with a smaller rounding allowance.

   In VertexIEEEBezierPath the real second differences of the exact control
   polygon Q of a node are bounded through the distance between the node's
   binary32 polygon c and Q, which grows with the depth: 4 k m u.  Here the
   DIFFERENCE of the second differences, dd c - dd Q, is carried along the
   tree: an exact subdivision step quarters it (Proofs/BezierTermination:
   dd_left, dd_right; averaging does not increase a difference), the rounding
   of the child's m + 1 control points adds at most 4 m u ([dd_close]).  So it
   stays below the fixed point 16/3 m u at every depth ([nodeT_sub]), and
     M = 1/2 + 2^-20 + 3/2 (2^(E-22) + 16/3 m u)
   replaces M_k.  Only the distance e'_k of the emitted vertices from the real
   emitted points still grows with the depth k <= 19.
   Result ([bezier_hausdorff_ieee_tight]): Kbez m + E_bez_t E m 19, with
     E_bez_t E m k = m (2m - 1) / 8 * (2^-20 + 3/2 (2^(E-22) + 16/3 m u))
                     + 3/2 ((k + 1) m u + 2^(E-24) + 2^-150). *)
From RM Require Import Model.ControlPoints Model.Curve Proofs.PathFacts Proofs.BezierTermination Proofs.DeCasteljau
     Proofs.BezierEqualPoints Proofs.BezierIEEEScalar Proofs.BezierIEEE Proofs.BezierIEEETight Proofs.ArcExact Proofs.HausdorffPlane
     Proofs.HausdorffBezierCore Proofs.HausdorffBezier Proofs.HausdorffCatmull Proofs.VertexIEEEBezierScalar Proofs.VertexIEEECatmullPath
     Proofs.VertexIEEEBezier Proofs.VertexIEEEBezierPath.
From Flocq Require Import Core BinarySingleNaN.
From Coq Require Import Reals Lra Lia Psatz.
Open Scope R_scope.

Local Notation fin x := (is_finite x = true).
Local Notation bp := (bpow radix2).

(* ---------- closeness of real lists under the subdivision operators ---------- *)

Lemma closeL_mono e e' X Y : e <= e' -> closeL e X Y -> closeL e' X Y.
Proof. intros H. unfold closeL. induction 1; constructor; [lra|assumption]. Qed.

Lemma closeL_trans e1 e2 X Y Z : closeL e1 X Y -> closeL e2 Y Z -> closeL (e1 + e2) X Z.
Proof.
  unfold closeL. intros H. revert Z. induction H as [|x y X' Y' Hxy HF IH]; intros Z HZ.
  - inversion HZ; subst. constructor.
  - inversion HZ as [|y' z Y'' Z' Hyz HF']; subst. constructor; [|apply IH; exact HF'].
    replace (x - z) with ((x - y) + (y - z)) by ring. eapply Rle_trans; [apply Rabs_triang|]. lra.
Qed.

Lemma closeL_A e X Y : closeL e X Y -> closeL e (A X) (A Y).
Proof.
  unfold closeL, A. induction 1 as [|x y X' Y' Hxy HF IH]; [constructor|].
  inversion HF as [|x2 y2 X2 Y2 H2 HF2]; subst; [constructor|].
  rewrite !lstep_cons2. constructor; [|exact IH].
  replace ((1 - 1 / 2) * x + 1 / 2 * x2 - ((1 - 1 / 2) * y + 1 / 2 * y2)) with ((x - y) / 2 + (x2 - y2) / 2) by field.
  eapply Rle_trans; [apply Rabs_triang|].
  unfold Rdiv. rewrite !Rabs_mult, (Rabs_pos_eq (/ 2)) by lra. lra.
Qed.

Lemma closeL_hd e X Y : 0 <= e -> closeL e X Y -> Rabs (hd 0 X - hd 0 Y) <= e.
Proof. intros H0 [|x y X' Y' H _]; [cbn; replace (0 - 0) with 0 by ring; rewrite Rabs_R0; exact H0|exact H]. Qed.

Lemma closeL_last e X Y : 0 <= e -> closeL e X Y -> Rabs (last X 0 - last Y 0) <= e.
Proof.
  intros H0. unfold closeL. induction 1 as [|x y X' Y' Hxy HF IH].
  - cbn. replace (0 - 0) with 0 by ring. rewrite Rabs_R0. exact H0.
  - inversion HF; subst; [exact Hxy|exact IH].
Qed.

Lemma closeL_left e n : 0 <= e -> forall X Y, closeL e X Y -> closeL e (left n X) (left n Y).
Proof.
  intros H0. induction n as [|n IH]; intros X Y H; [constructor|].
  cbn [left]. constructor; [apply closeL_hd; assumption|]. apply IH, closeL_A, H.
Qed.

Lemma closeL_right e n : 0 <= e -> forall X Y, closeL e X Y -> closeL e (right n X) (right n Y).
Proof.
  intros H0. induction n as [|n IH]; intros X Y H; [constructor|].
  cbn [right]. apply Forall2_app; [apply IH, closeL_A, H|].
  constructor; [apply closeL_last; assumption|constructor].
Qed.

Lemma closeL_quarter e X Y : closeL e X Y -> closeL (e / 4) (map quarter X) (map quarter Y).
Proof.
  unfold closeL. induction 1 as [|x y X' Y' Hxy HF IH]; [constructor|].
  cbn [map]. constructor; [|exact IH]. unfold quarter, half.
  replace (x / 2 / 2 - y / 2 / 2) with ((x - y) * / 4) by field.
  rewrite Rabs_mult, (Rabs_pos_eq (/ 4)) by lra. lra.
Qed.

Lemma closeL_len e X Y : closeL e X Y -> length X = length Y.
Proof. unfold closeL. induction 1; [reflexivity|cbn [length]; congruence]. Qed.

Lemma dd_left_close e n X Y : 0 <= e -> length X = n -> length Y = n ->
  closeL e (dd X) (dd Y) -> closeL (e / 4) (dd (left n X)) (dd (left n Y)).
Proof.
  intros H0 HX HY H. destruct n as [|[|k]]; try constructor.
  rewrite (dd_left k X HX), (dd_left k Y HY). apply closeL_quarter, closeL_left; assumption.
Qed.

Lemma dd_right_close e n X Y : 0 <= e -> length X = n -> length Y = n ->
  closeL e (dd X) (dd Y) -> closeL (e / 4) (dd (right n X)) (dd (right n Y)).
Proof.
  intros H0 HX HY H. destruct n as [|[|k]]; try constructor.
  rewrite (dd_right k X HX), (dd_right k Y HY). apply closeL_quarter, closeL_right; assumption.
Qed.

Lemma dd_length X : length (dd X) = (length X - 2)%nat.
Proof. rewrite dd_diff, !diff_length. lia. Qed.

Lemma dd_nth : forall X i, (i + 2 < length X)%nat ->
  nth i (dd X) 0 = nth i X 0 - 2 * nth (S i) X 0 + nth (S (S i)) X 0.
Proof.
  induction X as [|a X IH]; intros i Hi; [cbn [length] in Hi; lia|].
  destruct X as [|b [|c r]]; try (cbn [length] in Hi; lia).
  rewrite dd_cons3. destruct i as [|i]; [reflexivity|].
  change (nth (S i) ((a - 2 * b + c) :: dd (b :: c :: r)) 0) with (nth i (dd (b :: c :: r)) 0).
  rewrite IH by (cbn [length] in *; lia). reflexivity.
Qed.

(* ---------- the nodes ---------- *)

Section Tight.
  Variable E : Z.
  Hypothesis HE : (0 <= E <= 40)%Z.
  Let HE100 : (0 <= E <= 100)%Z. Proof. lia. Qed.
  Let HE126 : (0 <= E <= 126)%Z. Proof. lia. Qed.
  Variable n' : nat.
  Let n : nat := S (S n').
  Let m : nat := S n'.
  Variable B : R -> RP.

  Definition dlt : R := 16 / 3 * ue E n'.

  Definition NodeT (k : nat) (c : list Pos) (a b : R) : Prop :=
    length c = n /\ a <= b /\
    exists Q : list RP, length Q = n /\ (forall t, Bez Q t = B (a + t * (b - a))) /\
      nearL E (INR k * ue E n') (xs_of c) (map fst Q) /\ nearL E (INR k * ue E n') (ys_of c) (map snd Q) /\
      closeL dlt (dd (map B2R (xs_of c))) (dd (map fst Q)) /\
      closeL dlt (dd (map B2R (ys_of c))) (dd (map snd Q)).

  Definition Mt : R := 1 / 2 + bp (-20) + 3 / 2 * (bp (E - 22) + dlt).
  Definition Dt (k : nat) : R := Kn n' * Mt + 3 / 2 * e'k E n' k.

  Lemma dlt_pos : 0 < dlt.
  Proof. unfold dlt. pose proof (ue_pos E n'). lra. Qed.

  Lemma Mt_nonneg : 0 <= Mt.
  Proof. unfold Mt. pose proof dlt_pos. pose proof (bpow_gt_0 radix2 (-20)). pose proof (bpow_gt_0 radix2 (E - 22)). lra. Qed.

  Lemma Dt_mono k k' : (k <= k')%nat -> Dt k <= Dt k'.
  Proof.
    intros Hk. pose proof (ue_pos E n') as Hu.
    assert (Hi : INR k * ue E n' <= INR k' * ue E n') by (apply Rmult_le_compat_r; [lra|apply le_INR; exact Hk]).
    unfold Dt, e'k. lra.
  Qed.

  (* one coordinate of a child: second differences against the exact child's *)
  Lemma child_dd_close xs Qx : Forall (coord_ok E) xs -> length xs = n -> length Qx = n ->
    closeL dlt (dd (map B2R xs)) (dd Qx) ->
    closeL dlt (dd (map B2R (fst (subdiv_g avg1 S.zero n xs)))) (dd (left n Qx)) /\
    closeL dlt (dd (map B2R (snd (subdiv_g avg1 S.zero n xs)))) (dd (right n Qx)).
  Proof.
    intros Hok Lx LQ H. pose proof dlt_pos as Hd. pose proof (ue_pos E n') as Hu.
    destruct (nearL_subdiv E HE126 n 0 xs (map B2R xs) (Rle_refl 0) (nearL_self E xs Hok)) as [NL NR].
    rewrite Rplus_0_l in NL, NR.
    replace (INR (Nat.pred n) * uE E) with (ue E n') in NL, NR by (unfold n, ue; reflexivity).
    assert (Lb : length (map B2R xs) = n) by (rewrite map_length; exact Lx).
    assert (Eq : dlt / 4 + 4 * ue E n' = dlt) by (unfold dlt; field).
    split.
    - rewrite <- Eq. rewrite Rplus_comm.
      apply (closeL_trans _ _ _ (dd (left n (map B2R xs)))).
      + apply dd_close, nearL_close with (E := E). exact NL.
      + apply dd_left_close; try assumption. lra.
    - rewrite <- Eq. rewrite Rplus_comm.
      apply (closeL_trans _ _ _ (dd (right n (map B2R xs)))).
      + apply dd_close, nearL_close with (E := E). exact NR.
      + apply dd_right_close; try assumption. lra.
  Qed.

  Lemma nodeT_sub k c a b : NodeT k c a b ->
    NodeT (S k) (fst (sub32 c)) a ((a + b) / 2) /\ NodeT (S k) (snd (sub32 c)) ((a + b) / 2) b.
  Proof.
    intros (Hlen & Hab & Q & HQ & HB & Nx & Ny & Cx & Cy).
    destruct (sub32_length c) as [LL LR].
    destruct (sub32_xs c) as [X1 X2]. destruct (sub32_ys c) as [Y1 Y2].
    assert (Lx : length (xs_of c) = n) by (unfold xs_of; rewrite map_length; exact Hlen).
    assert (Ly : length (ys_of c) = n) by (unfold ys_of; rewrite map_length; exact Hlen).
    rewrite Lx in X1, X2. rewrite Ly in Y1, Y2.
    destruct (sub_R_Bez Q (S n') HQ) as (QL & QR & HBez).
    destruct (sub_R_fst Q) as [F1 F2]. destruct (sub_R_snd Q) as [S1 S2]. rewrite HQ in F1, F2, S1, S2.
    pose proof (ke_nonneg E n' k) as Hk0.
    destruct (nearL_subdiv E HE126 n (INR k * ue E n') _ _ Hk0 Nx) as [NLx NRx].
    destruct (nearL_subdiv E HE126 n (INR k * ue E n') _ _ Hk0 Ny) as [NLy NRy].
    assert (Ek : INR k * ue E n' + INR (Nat.pred n) * uE E = INR (S k) * ue E n').
    { unfold n, ue. cbn [Nat.pred]. rewrite (S_INR k). ring. }
    rewrite Ek in NLx, NRx, NLy, NRy.
    destruct (child_dd_close (xs_of c) (map fst Q) (nearL_ok E _ _ _ Nx) Lx ltac:(rewrite map_length; exact HQ) Cx) as [DLx DRx].
    destruct (child_dd_close (ys_of c) (map snd Q) (nearL_ok E _ _ _ Ny) Ly ltac:(rewrite map_length; exact HQ) Cy) as [DLy DRy].
    rewrite <- X1, <- F1 in NLx, DLx. rewrite <- X2, <- F2 in NRx, DRx.
    rewrite <- Y1, <- S1 in NLy, DLy. rewrite <- Y2, <- S2 in NRy, DRy.
    split.
    - split; [rewrite LL; exact Hlen|]. split; [lra|]. exists (fst (sub_R Q)). split; [exact QL|].
      split; [|repeat split; assumption].
      intros t. rewrite (proj1 (HBez t)), HB. f_equal. field.
    - split; [rewrite LR; exact Hlen|]. split; [lra|]. exists (snd (sub_R Q)). split; [exact QR|].
      split; [|repeat split; assumption].
      intros t. rewrite (proj2 (HBez t)), HB. f_equal. field.
  Qed.

  (* a flat node *)
  Lemma piece_follows_tight k c a b : NodeT k c a b -> flat_enough c = true ->
    PL B (Dt k) c a b (bezier_approx_pts c).
  Proof.
    intros (Hlen & Hab & Q & HQ & HB & Nx & Ny & Cx & Cy) Hflat.
    pose proof (ke_nonneg E n' k) as Hk0. pose proof (ue_pos E n') as Hue. pose proof (terr_pos E) as Hte.
    pose proof (INRm_pos n') as HN. fold m in HN. pose proof dlt_pos as Hdl.
    assert (Lx : length (xs_of c) = n) by (unfold xs_of; rewrite map_length; exact Hlen).
    assert (Ly : length (ys_of c) = n) by (unfold ys_of; rewrite map_length; exact Hlen).
    pose proof (emit_near E HE100 _ _ _ n Hk0 Nx Lx) as EX.
    pose proof (emit_near E HE100 _ _ _ n Hk0 Ny Ly) as EY.
    rewrite <- map_px_emit, <- map_fst_emit in EX. rewrite <- map_py_emit, <- map_snd_emit in EY.
    assert (Ee : INR k * ue E n' + INR (Nat.pred n) * uE E + terr E = e'k E n' k) by (unfold e'k, n, ue; cbn [Nat.pred]; ring).
    rewrite Ee in EX, EY.
    set (em := bezier_approx_pts c) in *.
    assert (Lem : length em = m).
    { unfold em. rewrite model_approx_pts. apply approx_pts_length. exact Hlen. }
    assert (LemR : length (emit_R Q) = m) by (apply approx_pts_length; exact HQ).
    assert (He' : 0 <= e'k E n' k) by (unfold e'k; lra).
    assert (Hke : INR k * ue E n' <= e'k E n' k) by (unfold e'k; lra).
    assert (Hok : Forall (point_ok E) c).
    { pose proof (nearL_ok E _ _ _ Nx) as Ox. pose proof (nearL_ok E _ _ _ Ny) as Oy.
      unfold xs_of, ys_of in Ox, Oy. rewrite Forall_forall in *. intros p Hp.
      split; [apply Ox|apply Oy]; apply in_map; exact Hp. }
    pose proof Mt_nonneg as HM.
    (* the real second differences of Q *)
    assert (Hdd : forall i, (i + 2 < length Q)%nat ->
       (fst (nth i Q zeroRR) - 2 * fst (nth (S i) Q zeroRR) + fst (nth (S (S i)) Q zeroRR)) *
       (fst (nth i Q zeroRR) - 2 * fst (nth (S i) Q zeroRR) + fst (nth (S (S i)) Q zeroRR)) +
       (snd (nth i Q zeroRR) - 2 * snd (nth (S i) Q zeroRR) + snd (nth (S (S i)) Q zeroRR)) *
       (snd (nth i Q zeroRR) - 2 * snd (nth (S i) Q zeroRR) + snd (nth (S (S i)) Q zeroRR)) <= Mt * Mt).
    { intros i Hi. rewrite HQ in Hi.
      destruct (flat_enough_inv E c HE Hok Hflat i ltac:(rewrite Hlen; exact Hi)) as (X & Y & HX & HY & HXY).
      assert (Ldx : length (dd (map B2R (xs_of c))) = n') by (unfold xs_of; rewrite dd_length, !map_length, Hlen; unfold n; lia).
      assert (Ldy : length (dd (map B2R (ys_of c))) = n') by (unfold ys_of; rewrite dd_length, !map_length, Hlen; unfold n; lia).
      assert (Hin' : (i < n')%nat) by (unfold n in Hi; lia).
      pose proof (Forall2_nth _ 0 0 _ _ Cx i ltac:(rewrite Ldx; exact Hin')) as Ax.
      pose proof (Forall2_nth _ 0 0 _ _ Cy i ltac:(rewrite Ldy; exact Hin')) as Ay.
      cbv beta in Ax, Ay.
      rewrite (dd_nth (map B2R (xs_of c))) in Ax by (unfold xs_of; rewrite !map_length, Hlen; exact Hi).
      rewrite (dd_nth (map B2R (ys_of c))) in Ay by (unfold ys_of; rewrite !map_length, Hlen; exact Hi).
      rewrite (dd_nth (map fst Q)) in Ax by (rewrite map_length; exact (eq_ind n (fun z => (i + 2 < z)%nat) Hi _ (eq_sym HQ))).
      rewrite (dd_nth (map snd Q)) in Ay by (rewrite map_length; exact (eq_ind n (fun z => (i + 2 < z)%nat) Hi _ (eq_sym HQ))).
      unfold xs_of in Ax. unfold ys_of in Ay.
      change 0 with (B2R S.zero) in Ax at 1 2 3. change 0 with (B2R S.zero) in Ay at 1 2 3.
      rewrite !(map_nth B2R) in Ax, Ay.
      change S.zero with (px pos0) in Ax. change S.zero with (py pos0) in Ay. rewrite !(map_nth px) in Ax. rewrite !(map_nth py) in Ay.
      change 0 with (fst zeroRR) in Ax. change 0 with (snd zeroRR) in Ay. rewrite !(map_nth fst) in Ax. rewrite !(map_nth snd) in Ay.
      set (r := 1 / 2 + bp (-20)).
      assert (Hr : X * X + Y * Y <= r * r).
      { unfold r. pose proof (bpow_gt_0 radix2 (-20)). nra. }
      replace Mt with (r + 3 / 2 * (bp (E - 22) + dlt)) by (unfold Mt, r; ring).
      pose proof (bpow_gt_0 radix2 (-20)). pose proof (bpow_gt_0 radix2 (E - 22)).
      apply (norm_perturb X Y); try assumption; try (unfold r; lra).
      - apply Rabs_le_inv in HX, Ax. apply Rabs_le. unfold RP in *. lra.
      - apply Rabs_le_inv in HY, Ay. apply Rabs_le. unfold RP in *. lra. }
    (* the computed polyline against the real one, vertex by vertex *)
    set (PLp := map posR em ++ [posR (last c pos0)]).
    assert (LPL : length PLp = S m) by (unfold PLp; rewrite app_length, map_length, Lem; cbn [length]; lia).
    assert (LEp : length (Epts Q) = S m) by (unfold Epts; rewrite app_length, LemR; cbn [length]; lia).
    assert (Hfin : Forall pos_fin em).
    { rewrite Forall_forall. intros p Hp. destruct (In_nth _ _ pos0 Hp) as (j & Hj & Ep).
      pose proof (Forall2_nth _ S.zero 0 _ _ EX j ltac:(rewrite map_length; exact Hj)) as [[Fx _] _].
      pose proof (Forall2_nth _ S.zero 0 _ _ EY j ltac:(rewrite map_length; exact Hj)) as [[Fy _] _].
      change S.zero with (px pos0) in Fx. change S.zero with (py pos0) in Fy. rewrite map_nth in Fx, Fy.
      rewrite Ep in Fx, Fy. split; assumption. }
    assert (Hclose : forall j, (j < S m)%nat ->
              Rabs (fst (nth j PLp zeroRR) - fst (nth j (Epts Q) zeroRR)) <= e'k E n' k /\
              Rabs (snd (nth j PLp zeroRR) - snd (nth j (Epts Q) zeroRR)) <= e'k E n' k).
    { intros j Hj. unfold PLp, Epts. destruct (Nat.eq_dec j m) as [->|Hne].
      - rewrite !app_nth2 by (rewrite ?map_length, ?Lem, ?LemR; lia).
        rewrite map_length, Lem, LemR, Nat.sub_diag. cbn [nth].
        pose proof (nearL_last E _ _ _ Hk0 Nx) as [_ Hx]. pose proof (nearL_last E _ _ _ Hk0 Ny) as [_ Hy].
        unfold xs_of in Hx. unfold ys_of in Hy.
        rewrite <- (map_last' pos0 S.zero px eq_refl) in Hx. rewrite <- (map_last' pos0 S.zero py eq_refl) in Hy.
        rewrite <- (map_last' zeroRR 0 fst eq_refl) in Hx. rewrite <- (map_last' zeroRR 0 snd eq_refl) in Hy.
        unfold posR. cbn [fst snd]. split; lra.
      - assert (Hjm : (j < m)%nat) by lia.
        rewrite !app_nth1 by (rewrite ?map_length, ?Lem, ?LemR; exact Hjm).
        pose proof (Forall2_nth _ S.zero 0 _ _ EX j ltac:(rewrite map_length, Lem; exact Hjm)) as [_ Dx].
        pose proof (Forall2_nth _ S.zero 0 _ _ EY j ltac:(rewrite map_length, Lem; exact Hjm)) as [_ Dy].
        change S.zero with (px pos0) in Dx. change S.zero with (py pos0) in Dy. rewrite map_nth in Dx, Dy.
        change 0 with (fst zeroRR) in Dx. change 0 with (snd zeroRR) in Dy. rewrite map_nth in Dx, Dy.
        change zeroRR with (posR pos0) at 1 3. rewrite map_nth. unfold posR at 1 2. cbn [fst snd]. split; assumption. }
    (* the parametrised polyline follows the curve *)
    assert (HF : follows B (Dt k) (combine (map (tau n' a b) (seq 0 (S m))) PLp)).
    { apply (follows_nth B _ (0, zeroRR)). intros j Hj.
      rewrite combine_length, map_length, seq_length, LPL, Nat.min_id in Hj.
      assert (Hcn : forall i, nth i (combine (map (tau n' a b) (seq 0 (S m))) PLp) (0, zeroRR)
                              = (nth i (map (tau n' a b) (seq 0 (S m))) 0, nth i PLp zeroRR)).
      { intros i. apply combine_nth. rewrite map_length, seq_length. symmetry. exact LPL. }
      rewrite !Hcn. clear Hcn.
      rewrite !nth_map_seq by lia.
      unfold edge_ok. cbn [fst snd]. split.
      - unfold tau. fold m. rewrite S_INR.
        assert (0 <= / INR m * (b - a)) by (apply Rmult_le_pos; [apply Rlt_le, Rinv_0_lt_compat; lra|lra]).
        unfold Rdiv. nra.
      - intros s Hs.
        replace ((1 - s) * tau n' a b j + s * tau n' a b (S j)) with (a + (INR j + s) / INR m * (b - a))
          by (unfold tau; fold m; rewrite S_INR; field; lra).
        rewrite <- HB.
        pose proof (piece_close_2D_gen Q n' Mt j s HQ HM Hdd ltac:(unfold m in Hj; lia) Hs) as HP.
        fold m in HP. fold (Kn n') in HP.
        destruct (Hclose j ltac:(lia)) as [C1 C2]. destruct (Hclose (S j) ltac:(lia)) as [C3 C4].
        destruct (lerp2_perturb _ _ _ _ s _ Hs C1 C2 C3 C4) as [L1 L2].
        assert (HKM : 0 <= Kn n' * Mt) by (apply Rmult_le_pos; [apply Kn_nonneg|exact HM]).
        unfold Dt. apply (dist2_perturb _ (lerp2 (nth j (Epts Q) zeroRR) (nth (S j) (Epts Q) zeroRR) s)); assumption. }
    (* shape *)
    destruct (bezier_approx_pts_hd c) as (rest & Eem). fold em in Eem.
    assert (Lrest : length rest = n') by (rewrite Eem in Lem; cbn [length] in Lem; unfold m in Lem; lia).
    exists (map (tau n' a b) (seq 1 n')), rest.
    split; [exact Eem|]. split; [rewrite map_length, seq_length, Lrest; reflexivity|]. split; [exact Hfin|].
    assert (Etau_0 : tau n' a b 0 = a) by (unfold tau; fold m; cbn [INR]; field; lra).
    assert (Etau_m : tau n' a b m = b) by (unfold tau; fold m; field; lra).
    assert (Eseq : seq 0 (S m) = 0%nat :: seq 1 n' ++ [m]).
    { unfold m. change (seq 0 (S (S n'))) with (0%nat :: seq 1 (S n')). rewrite (seq_S n' 1). reflexivity. }
    rewrite Eseq in HF. unfold PLp in HF. rewrite Eem in HF. cbn [map app combine] in HF.
    rewrite map_app in HF. cbn [map] in HF.
    rewrite combine_app in HF by (rewrite !map_length, seq_length, Lrest; reflexivity).
    cbn [combine] in HF. rewrite Etau_0, Etau_m in HF. exact HF.
  Qed.

  (* the sub-tree of a node *)
  Lemma tree_follows_tight d : forall k c a b rest path, within32 d c -> NodeT k c a b ->
    exists nn new,
      (forall mm, run (bstep_g flat_enough sub32 bezier_approx_pts) (nn + mm) (c :: rest, path)
                  = run (bstep_g flat_enough sub32 bezier_approx_pts) mm (rest, path ++ new)) /\
      PL B (Dt (k + d)) c a b new.
  Proof.
    induction d as [|d IH]; intros k c a b rest path [Hne H] HN.
    - destruct H as [H|[]]. exists 1%nat, (bezier_approx_pts c). split.
      + intros mm. cbn [Nat.add run]. unfold bstep_g at 1. cbn [fst snd]. rewrite H.
        destruct c; [congruence|reflexivity].
      + apply (PL_weaken B (Dt k)); [apply Dt_mono; lia|]. apply piece_follows_tight; assumption.
    - destruct (flat_enough c) eqn:Ef.
      + exists 1%nat, (bezier_approx_pts c). split.
        * intros mm. cbn [Nat.add run]. unfold bstep_g at 1. cbn [fst snd]. rewrite Ef.
          destruct c; [congruence|reflexivity].
        * apply (PL_weaken B (Dt k)); [apply Dt_mono; lia|]. apply piece_follows_tight; assumption.
      + destruct H as [H|[H1 H2]]; [congruence|].
        destruct (nodeT_sub k c a b HN) as [N1 N2].
        assert (Hc1 : (1 <= length c)%nat) by (destruct HN as [Hl _]; rewrite Hl; unfold n; lia).
        destruct (sub32_ends c Hc1) as (E1 & E2 & E3).
        destruct (sub32 c) as [l r] eqn:Es. cbn [fst snd] in *.
        destruct (IH (S k) l a ((a + b) / 2) (r :: rest) path H1 N1) as (n1 & new1 & R1 & G1).
        destruct (IH (S k) r ((a + b) / 2) b rest (path ++ new1) H2 N2) as (n2 & new2 & R2 & G2).
        exists (1 + (n1 + n2))%nat, (new1 ++ new2). split.
        * intros mm. cbn [Nat.add run]. unfold bstep_g at 1. cbn [fst snd]. rewrite Ef, Es.
          destruct c; [congruence|].
          rewrite <- Nat.add_assoc, R1, R2, app_assoc. reflexivity.
        * replace (k + S d)%nat with (S k + d)%nat by lia.
          apply (PL_join n' B _ c l r a ((a + b) / 2) b); assumption.
  Qed.
End Tight.

(* ---------- the routine ---------- *)

Definition E_bez_t (E : Z) (m k : nat) : R :=
  INR m * (2 * INR m - 1) / 8 * (bp (-20) + 3 / 2 * (bp (E - 22) + 16 / 3 * (INR m * uE E)))
  + 3 / 2 * (INR k * (INR m * uE E) + INR m * uE E + (bp (E - 24) + bp (-150))).

Lemma Dt_split E n' k : Dt E n' k = Kbez (S n') + E_bez_t E (S n') k.
Proof.
  unfold Dt, Kn, Mt, dlt, e'k, ue, terr, E_bez_t, Kbez. rewrite bez_tol_value. field.
Qed.

Lemma closeL_refl l : closeL 0 l l.
Proof.
  unfold closeL. induction l; constructor; [|assumption].
  replace (a - a) with 0 by ring. rewrite Rabs_R0. lra.
Qed.

Theorem bezier_hausdorff_ieee_tight_depth E points n' d path fuel path' :
  (0 <= E <= 40)%Z -> length points = S (S n') -> Forall (point_ok E) points ->
  within32 d points ->
  approximate_bezier_L1 fuel path points tt = Done (path', tt) ->
  let K := Kbez (S n') + E_bez_t E (S n') d in
  let B := Bez (map posR points) in
  exists new, path' = path ++ new /\ (2 <= length new)%nat /\ Forall pos_fin new /\
    (forall k, (k < length new)%nat ->
       exists t, 0 <= t <= 1 /\ dist2 (B t) (posR (nth k new pos0)) <= K) /\
    (forall k s, (S k < length new)%nat -> 0 <= s <= 1 ->
       exists t, 0 <= t <= 1 /\ dist2 (B t) (lerp2 (posR (nth k new pos0)) (posR (nth (S k) new pos0)) s) <= K) /\
    (forall t, 0 <= t <= 1 ->
       exists k s, (S k < length new)%nat /\ 0 <= s <= 1 /\
         dist2 (B t) (lerp2 (posR (nth k new pos0)) (posR (nth (S k) new pos0)) s) <= K).
Proof.
  intros HE Hlen Hok HW Hrun K B.
  rewrite model_approximate_bezier in Hrun. unfold approximate_bezier_g in Hrun.
  destruct (iter_fuel (bstep_g flat_enough sub32 bezier_approx_pts) fuel ([points], path)) as [p1| |] eqn:Eit;
    cbn [obind] in Hrun; try discriminate Hrun.
  assert (Hp1 : path' = p1 ++ [last points pos0]).
  { destruct points; [discriminate Hlen|]. cbn [obind] in Hrun. injection Hrun as <-. reflexivity. }
  clear Hrun.
  assert (HN : NodeT E n' B 0 points 0 1).
  { split; [exact Hlen|]. split; [lra|]. exists (map posR points). split; [rewrite map_length; exact Hlen|]. split.
    - intros t. unfold B. f_equal. ring.
    - assert (Hx : Forall (coord_ok E) (xs_of points))
        by (unfold xs_of; apply Forall_map; eapply Forall_impl; [|exact Hok]; intros p [Hp _]; exact Hp).
      assert (Hy : Forall (coord_ok E) (ys_of points))
        by (unfold ys_of; apply Forall_map; eapply Forall_impl; [|exact Hok]; intros p [_ Hp]; exact Hp).
      replace (INR 0 * ue E n') with 0 by (cbn [INR]; ring).
      rewrite map_fst_posR, map_snd_posR.
      pose proof (dlt_pos E n') as Hd.
      repeat split; try (apply nearL_self; assumption); apply (closeL_mono 0); try lra; apply closeL_refl. }
  destruct (tree_follows_tight E HE n' B d 0 points 0 1 [] path HW HN) as (nn & new0 & R & HPL).
  cbn [Nat.add] in HPL.
  assert (Ep1 : p1 = path ++ new0).
  { specialize (R 1%nat). cbn [run] in R. unfold bstep_g at 2 in R. cbn [fst snd] in R.
    unfold iter_fuel in Eit. rewrite iterP_run in Eit.
    destruct (le_lt_dec (nn + 1) (Pos.to_nat fuel)) as [Hle|Hlt].
    - rewrite (run_stop _ (nn + 1) _ _ _ R Hle) in Eit. cbn [cont] in Eit. congruence.
    - replace (nn + 1)%nat with (Pos.to_nat fuel + (nn + 1 - Pos.to_nat fuel))%nat in R by lia.
      rewrite run_add in R.
      destruct (run (bstep_g flat_enough sub32 bezier_approx_pts) (Pos.to_nat fuel) ([points], path)) as [s'|r];
        cbn [cont] in Eit; [discriminate Eit|congruence]. }
  destruct HPL as (taus' & new' & En & Lt & Ffin & Hfol).
  assert (EK : Dt E n' d = K) by (unfold K; apply Dt_split). rewrite EK in Hfol.
  set (new := new0 ++ [last points pos0]).
  exists new. split; [rewrite Hp1, Ep1, <- app_assoc; reflexivity|].
  assert (Hcomb : (0, posR (hd pos0 points)) :: combine taus' (map posR new') ++ [(1, posR (last points pos0))]
                  = combine (0 :: taus' ++ [1]) (map posR new)).
  { unfold new. rewrite En. cbn [app map combine]. f_equal. rewrite map_app. cbn [map].
    rewrite combine_app by (rewrite map_length; exact Lt). reflexivity. }
  rewrite Hcomb in Hfol.
  assert (Hlast_fin : pos_fin (last points pos0)).
  { assert (Hin : In (last points pos0) points).
    { destruct points as [|p0 pts]; [discriminate Hlen|].
      destruct (@exists_last _ (p0 :: pts) ltac:(discriminate)) as (l0 & x & Ex). rewrite Ex, last_last.
      apply in_or_app. right. left. reflexivity. }
    rewrite Forall_forall in Hok. destruct (Hok _ Hin) as [[F1 _] [F2 _]]. split; assumption. }
  destruct (follows_hausdorff B K (0 :: taus' ++ [1]) (map posR new)) as (H2 & Hv & He & Hc).
  - unfold new. rewrite En. cbn [length app map]. rewrite !app_length, map_length, app_length. cbn [length]. lia.
  - reflexivity.
  - change (0 :: taus' ++ [1]) with ((0 :: taus') ++ [1]). apply last_last.
  - exact Hfol.
  - rewrite map_length in H2, Hv, He, Hc.
    assert (Enth : forall k, nth k (map posR new) zeroRR = posR (nth k new pos0)).
    { intros k. change zeroRR with (posR pos0). apply map_nth. }
    split; [exact H2|]. split; [unfold new; apply Forall_app; split; [exact Ffin|constructor; [exact Hlast_fin|constructor]]|].
    split; [|split].
    + intros k Hk. destruct (Hv k Hk) as (t & Ht & D). rewrite Enth in D. eauto.
    + intros k s Hk Hs. destruct (He k s Hk Hs) as (t & Ht & D). rewrite !Enth in D. eauto.
    + intros t Ht. destruct (Hc t Ht) as (k & s & Hk & Hs & D). rewrite !Enth in D. eauto.
Qed.

Theorem bezier_hausdorff_ieee_tight E points n' path fuel path' :
  (0 <= E)%Z -> (Z.of_nat (length points) * 2 ^ E <= 2 ^ 22)%Z ->
  length points = S (S n') -> Forall (point_ok E) points ->
  approximate_bezier_L1 fuel path points tt = Done (path', tt) ->
  let K := Kbez (S n') + E_bez_t E (S n') 19 in
  let B := Bez (map posR points) in
  exists new, path' = path ++ new /\ (2 <= length new)%nat /\ Forall pos_fin new /\
    (forall k, (k < length new)%nat ->
       exists t, 0 <= t <= 1 /\ dist2 (B t) (posR (nth k new pos0)) <= K) /\
    (forall k s, (S k < length new)%nat -> 0 <= s <= 1 ->
       exists t, 0 <= t <= 1 /\ dist2 (B t) (lerp2 (posR (nth k new pos0)) (posR (nth (S k) new pos0)) s) <= K) /\
    (forall t, 0 <= t <= 1 ->
       exists k s, (S k < length new)%nat /\ 0 <= s <= 1 /\
         dist2 (B t) (lerp2 (posR (nth k new pos0)) (posR (nth (S k) new pos0)) s) <= K).
Proof.
  intros HE HK Hlen Hok Hrun.
  assert (Hne : points <> []) by (intros ->; discriminate Hlen).
  assert (H40 : (E <= 40)%Z).
  { destruct (Z_le_gt_dec E 40) as [H|H]; [exact H|]. exfalso.
    assert (2 ^ 41 <= 2 ^ E)%Z by (apply Z.pow_le_mono_r; lia).
    rewrite Hlen in HK. change (2 ^ 22)%Z with 4194304%Z in HK. change (2 ^ 41)%Z with 2199023255552%Z in H0. nia. }
  apply (bezier_hausdorff_ieee_tight_depth E points n' 19 path fuel path'); try assumption; [lia|].
  apply (within32_bounded_tight E); assumption.
Qed.

(* the allowance, as a multiple of the coordinate magnitude: cubic segments,
   depth 19: E_bez_t <= 2 * 2^-20 + 161 * 2^(E-25) (< 4.8e-6 * 2^E + 2e-6) *)
Lemma E_bez_t_cubic E : (0 <= E)%Z -> E_bez_t E 3 19 <= 2 * bp (-20) + 161 * bp (E - 25).
Proof.
  intros HE. unfold E_bez_t, uE.
  replace (INR 3) with 3 by (cbn; lra). replace (INR 19) with 19 by (cbn; lra).
  replace (E - 22)%Z with (E - 25 + 3)%Z by ring. replace (E - 24)%Z with (E - 25 + 1)%Z by ring.
  rewrite !bpow_plus. replace (bp 3) with 8 by (cbn; lra). replace (bp 1) with 2 by (cbn; lra).
  assert (H150 : bp (-150) <= bp (-40)) by (apply bpow_le; lia).
  pose proof (bpow_gt_0 radix2 (-150)) as P150.
  replace (bp (-40)) with (/ 1099511627776) in H150 by (cbn; lra).
  replace (bp (-20)) with (/ 1048576) by (cbn; lra).
  pose proof (bpow_gt_0 radix2 (E - 25)) as Pw.
  set (w := bp (E - 25)) in *. set (z := bp (-150)) in *. lra.
Qed.

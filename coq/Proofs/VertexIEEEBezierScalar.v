(* VertexIEEEBezierScalar: scalar facts about the emitted vertices of a flat
   Bezier piece in binary32, and the plane estimate they feed.

   A. tri1 p c n = (p + c * 2.0 + n) * 0.25 (one coordinate of the emitted
      point): for finite operands of magnitude <= 2^E the result is finite,
      of magnitude <= 2^E, within 2^(E-24) + 2^-150 of (p + 2c + n)/4
                                                                  [tri1_spec]
   B. the converse of the flatness test: dd1 p c n is within 2^(E-22) of the
      real second difference [dd1_err]; `x*x + y*y > 0.25` false means
      x^2 + y^2 <= 1/4 + 2^-20 over the reals [far1_false_inv]; one triple
      [far32_false_inv]; the whole list [flat_enough_inv]
   C. [piece_close_2D_gen]: HausdorffBezier.piece_close_2D for second
      differences bounded by an arbitrary M in norm. *)
From RM Require Import Model.ControlPoints Model.Curve Proofs.BezierTermination Proofs.DeCasteljau
     Proofs.BezierEqualPoints Proofs.BezierIEEEScalar Proofs.BezierIEEE Proofs.HausdorffPlane
     Proofs.HausdorffBezierCore Proofs.HausdorffBezier.
From Flocq Require Import Core BinarySingleNaN Mult_error.
From Coq Require Import Reals Lra Lia Psatz.
Open Scope R_scope.

Local Notation fin x := (is_finite x = true).
Local Notation fexp32 := (SpecFloat.fexp 24 128).
Local Notation RN := (round radix2 fexp32 (round_mode mode_NE)).
Local Notation bp := (bpow radix2).
Local Instance Hp32i : Prec_gt_0 24 := Hp32.
Local Instance He32i : Prec_lt_emax 24 128 := He32.

(* ------------------------------------------------------------------ *)
(* A. one coordinate of the emitted point                              *)

Lemma sq_sf : B2SF s_quarter = SpecFloat.S754_finite false 8388608 (-25).
Proof. vm_compute. reflexivity. Qed.
Lemma sq_R : B2R s_quarter = 1 / 4.
Proof. rewrite <- SF2R_B2SF, sq_sf. unfold SF2R, F2R. cbn. lra. Qed.
Lemma sq_fin : fin s_quarter.
Proof. rewrite <- is_finite_SF_B2SF, sq_sf. reflexivity. Qed.

Lemma format_3bp e : (-149 <= e)%Z -> generic_format radix2 fexp32 (3 * bp e).
Proof.
  intros He. pose proof (bpow_gt_0 radix2 e) as Hb.
  replace (3 * bp e) with (F2R (Float radix2 3 e)) by (unfold F2R; cbn [Fnum Fexp]; lra).
  apply generic_format_F2R. intros _. unfold cexp. rewrite fexp32_eq.
  assert (H : (mag radix2 (F2R (Float radix2 3 e)) <= e + 2)%Z).
  { apply mag_le_bpow; [unfold F2R; cbn [Fnum Fexp]; lra|].
    unfold F2R. cbn [Fnum Fexp]. rewrite Rabs_pos_eq by lra.
    replace (e + 2)%Z with (e + 1 + 1)%Z by ring. rewrite <- !bp_double. lra. }
  cbn [Fexp]. lia.
Qed.

(* multiplying a binary32 number by 1/4: exact, or (below 2^-124) off by at most 2^-150 *)
Lemma quarter_err (a : F32) : Rabs (RN (B2R a * (1 / 4)) - B2R a * (1 / 4)) <= bp (-150).
Proof.
  destruct (Rlt_or_le (Rabs (B2R a)) (bp (-124))) as [Hs|Hl].
  - pose proof (RN_err (B2R a * (1 / 4)) (-126)) as H.
    replace (/ 2 * bp (fexp32 (-126))) with (bp (-150)) in H
      by (change (fexp32 (-126)) with (-149)%Z; change (-150)%Z with (-1 + -149)%Z; rewrite bpow_plus; reflexivity).
    apply H; [lia|]. rewrite Rabs_mult, (Rabs_pos_eq (1 / 4)) by lra.
    replace (-124)%Z with (-126 + 1 + 1)%Z in Hs by ring. rewrite <- !bp_double in Hs.
    pose proof (Rabs_pos (B2R a)). lra.
  - rewrite round_generic; [replace (B2R a * (1 / 4) - B2R a * (1 / 4)) with 0 by ring; rewrite Rabs_R0; apply bpow_ge_0|apply valid_rnd_N|].
    replace (1 / 4) with (bp (-2)) by (cbn; lra).
    apply (mult_bpow_exact_FLT radix2 (3 - 128 - 24) 24); [apply generic_format_B2R|].
    pose proof (mag_ge_bpow radix2 (B2R a) (-123)) as Hm.
    change (-123 - 1)%Z with (-124)%Z in Hm. specialize (Hm Hl). lia.
Qed.

Definition tri1 (p c n : F32) : F32 := S.mul (S.add (S.add p (S.mul c s2)) n) s_quarter.

Lemma tri_coords p c n : tri p c n = mkPos (tri1 (px p) (px c) (px n)) (tri1 (py p) (py c) (py n)).
Proof. reflexivity. Qed.

Lemma tri1_spec E p c n : (0 <= E <= 100)%Z -> coord_ok E p -> coord_ok E c -> coord_ok E n ->
  coord_ok E (tri1 p c n) /\
  Rabs (B2R (tri1 p c n) - (B2R p + 2 * B2R c + B2R n) / 4) <= bp (E - 24) + bp (-150).
Proof.
  intros HE [Fp Hp] [Fc Hc] [Fn Hn]. unfold tri1.
  pose proof (bpow_gt_0 radix2 E) as HbE.
  (* c * 2: exact *)
  assert (Hm : Rabs (B2R c * B2R s2) <= bp (E + 1)).
  { rewrite s2_R, Rabs_mult, (Rabs_pos_eq 2) by lra. rewrite <- bp_double. lra. }
  destruct (mul_ok c s2 (E + 1) Fc s2_fin ltac:(lia) Hm) as [Fm Rm].
  rewrite s2_R in Rm.
  rewrite round_generic in Rm by (try apply valid_rnd_N; apply format_double).
  (* p + c*2: off by at most 2^(E-23), magnitude <= 3 * 2^E *)
  assert (Ht3 : Rabs (B2R p + B2R (S.mul c s2)) <= 3 * bp E).
  { rewrite Rm. eapply Rle_trans; [apply Rabs_triang|]. rewrite Rabs_mult, (Rabs_pos_eq 2) by lra. lra. }
  assert (Ht : Rabs (B2R p + B2R (S.mul c s2)) <= bp (E + 2)).
  { replace (E + 2)%Z with (E + 1 + 1)%Z by ring. rewrite <- !bp_double. lra. }
  destruct (add_ok p (S.mul c s2) (E + 2) Fp Fm ltac:(lia) Ht) as [Ft Rt].
  pose proof (RN_err _ (E + 2) ltac:(lia) Ht) as Et. rewrite <- Rt in Et.
  rewrite fexp32_eq, Z.max_l in Et by lia.
  replace (E + 2 - 24)%Z with (E - 24 + 1 + 1)%Z in Et by ring. rewrite <- !bp_double in Et.
  assert (Bt : Rabs (B2R (S.add p (S.mul c s2))) <= 3 * bp E).
  { rewrite Rt. apply RN_le_format; [apply format_3bp; lia|exact Ht3]. }
  set (t := B2R (S.add p (S.mul c s2))) in *.
  (* + n: off by at most 2^(E-23), magnitude <= 2^(E+2) *)
  assert (Hs : Rabs (t + B2R n) <= bp (E + 2)).
  { replace (E + 2)%Z with (E + 1 + 1)%Z by ring. rewrite <- !bp_double.
    eapply Rle_trans; [apply Rabs_triang|]. lra. }
  destruct (add_ok (S.add p (S.mul c s2)) n (E + 2) Ft Fn ltac:(lia) Hs) as [Fs Rs].
  fold t in Rs.
  pose proof (RN_err _ (E + 2) ltac:(lia) Hs) as Es.
  rewrite fexp32_eq, Z.max_l in Es by lia.
  replace (E + 2 - 24)%Z with (E - 24 + 1 + 1)%Z in Es by ring. rewrite <- !bp_double in Es.
  pose proof (RN_bound _ (E + 2) ltac:(lia) Hs) as Bs.
  rewrite <- Rs in Es, Bs.
  set (s := B2R (S.add (S.add p (S.mul c s2)) n)) in *.
  (* * 0.25: exact up to underflow *)
  assert (Hq : Rabs (s * (1 / 4)) <= bp E).
  { rewrite Rabs_mult, (Rabs_pos_eq (1 / 4)) by lra.
    replace (E + 2)%Z with (E + 1 + 1)%Z in Bs by ring. rewrite <- !bp_double in Bs. lra. }
  assert (Hq' : Rabs (B2R (S.add (S.add p (S.mul c s2)) n) * B2R s_quarter) <= bp E)
    by (rewrite sq_R; exact Hq).
  destruct (mul_ok _ s_quarter E Fs sq_fin ltac:(lia) Hq') as [Fr Rr].
  rewrite sq_R in Rr. fold s in Rr.
  split; [split; [exact Fr|]|].
  - rewrite Rr. apply RN_bound; [lia|exact Hq].
  - rewrite Rr.
    pose proof (quarter_err (S.add (S.add p (S.mul c s2)) n)) as Eq. fold s in Eq.
    replace (RN (s * (1 / 4)) - (B2R p + 2 * B2R c + B2R n) / 4) with
      ((RN (s * (1 / 4)) - s * (1 / 4)) + ((s - (t + B2R n)) + (t - (B2R p + B2R (S.mul c s2)))) * / 4)
      by (rewrite Rm; field).
    eapply Rle_trans; [apply Rabs_triang|].
    rewrite Rplus_comm. apply Rplus_le_compat; [|exact Eq].
    rewrite Rabs_mult, (Rabs_pos_eq (/ 4)) by lra.
    pose proof (Rabs_triang (s - (t + B2R n)) (t - (B2R p + B2R (S.mul c s2)))).
    lra.
Qed.

(* ------------------------------------------------------------------ *)
(* B. what a negative flatness test says about the real second differences *)

Lemma dd1_err_bound E p c n : (0 <= E <= 100)%Z -> coord_ok E p -> coord_ok E c -> coord_ok E n ->
  fin (dd1 p c n) /\ Rabs (B2R (dd1 p c n)) <= bp (E + 2) /\
  Rabs (B2R (dd1 p c n) - (B2R p - 2 * B2R c + B2R n)) <= bp (E - 22).
Proof.
  intros HE [Fp Hp] [Fc Hc] [Fn Hn]. unfold dd1.
  pose proof (bpow_gt_0 radix2 E) as HbE.
  assert (Hm : Rabs (B2R c * B2R s2) <= bp (E + 1)).
  { rewrite s2_R, Rabs_mult, (Rabs_pos_eq 2) by lra. rewrite <- bp_double. lra. }
  destruct (mul_ok c s2 (E + 1) Fc s2_fin ltac:(lia) Hm) as [Fm Rm].
  rewrite s2_R in Rm.
  rewrite round_generic in Rm by (try apply valid_rnd_N; apply format_double).
  assert (Ht3 : Rabs (B2R p - B2R (S.mul c s2)) <= 3 * bp E).
  { rewrite Rm. eapply Rle_trans; [apply Rabs_triang|].
    rewrite Rabs_Ropp, Rabs_mult, (Rabs_pos_eq 2) by lra. lra. }
  assert (Ht : Rabs (B2R p - B2R (S.mul c s2)) <= bp (E + 2)).
  { replace (E + 2)%Z with (E + 1 + 1)%Z by ring. rewrite <- !bp_double. lra. }
  destruct (sub_ok p (S.mul c s2) (E + 2) Fp Fm ltac:(lia) Ht) as [Ft Rt].
  pose proof (RN_err _ (E + 2) ltac:(lia) Ht) as Et. rewrite <- Rt in Et.
  rewrite fexp32_eq, Z.max_l in Et by lia.
  replace (E + 2 - 24)%Z with (E - 22)%Z in Et by ring.
  assert (Bt : Rabs (B2R (S.sub p (S.mul c s2))) <= 3 * bp E).
  { rewrite Rt. apply RN_le_format; [apply format_3bp; lia|exact Ht3]. }
  set (t := B2R (S.sub p (S.mul c s2))) in *.
  assert (Hs : Rabs (t + B2R n) <= bp (E + 2)).
  { replace (E + 2)%Z with (E + 1 + 1)%Z by ring. rewrite <- !bp_double.
    eapply Rle_trans; [apply Rabs_triang|]. lra. }
  destruct (add_ok (S.sub p (S.mul c s2)) n (E + 2) Ft Fn ltac:(lia) Hs) as [Fs Rs].
  fold t in Rs.
  pose proof (RN_err _ (E + 2) ltac:(lia) Hs) as Es.
  rewrite fexp32_eq, Z.max_l in Es by lia.
  replace (E + 2 - 24)%Z with (E - 22)%Z in Es by ring.
  pose proof (RN_bound _ (E + 2) ltac:(lia) Hs) as Bs.
  rewrite <- Rs in Es, Bs.
  set (s := B2R (S.add (S.sub p (S.mul c s2)) n)) in *.
  split; [exact Fs|]. split; [exact Bs|].
  replace (s - (B2R p - 2 * B2R c + B2R n))
    with ((s - (t + B2R n)) + (t - (B2R p - B2R (S.mul c s2)))) by (rewrite Rm; ring).
  eapply Rle_trans; [apply Rabs_triang|]. lra.
Qed.

Lemma dd1_err E p c n : (0 <= E <= 100)%Z -> coord_ok E p -> coord_ok E c -> coord_ok E n ->
  fin (dd1 p c n) /\ Rabs (B2R (dd1 p c n) - (B2R p - 2 * B2R c + B2R n)) <= bp (E - 22).
Proof.
  intros HE Hp Hc Hn. destruct (dd1_err_bound E p c n HE Hp Hc Hn) as (F & _ & H). split; assumption.
Qed.

Lemma format_half : generic_format radix2 fexp32 (1 / 2).
Proof. replace (1 / 2) with (bp (-1)) by (cbn; lra). apply format_bpow32. lia. Qed.
Lemma format_one : generic_format radix2 fexp32 1.
Proof. change 1 with (bp 0). apply format_bpow32. lia. Qed.

Lemma RN_mono x y : x <= y -> RN x <= RN y.
Proof. intros H. apply round_le; [apply FLT_exp_valid; reflexivity|apply valid_rnd_N|exact H]. Qed.

(* the square of a binary32 number of magnitude <= 2^60, when its rounding is <= 1/2 *)
Lemma sq_inv (x : F32) : fin x -> Rabs (B2R x) <= bp 60 ->
  fin (S.mul x x) /\ 0 <= B2R (S.mul x x) <= bp 120 /\
  (B2R (S.mul x x) <= 1 / 2 -> B2R x * B2R x <= B2R (S.mul x x) + bp (-25)).
Proof.
  intros Fx Hx.
  assert (H0 : 0 <= B2R x * B2R x) by apply Rle_0_sqr.
  assert (Hb : Rabs (B2R x * B2R x) <= bp 120).
  { rewrite Rabs_mult. change 120%Z with (60 + 60)%Z. rewrite bpow_plus.
    pose proof (Rabs_pos (B2R x)). apply Rmult_le_compat; assumption. }
  destruct (mul_ok x x 120 Fx Fx ltac:(lia) Hb) as [Fm Rm].
  split; [exact Fm|]. rewrite Rm. split; [split|].
  - rewrite <- (round_0 radix2 fexp32 (round_mode mode_NE)). apply RN_mono. exact H0.
  - eapply Rle_trans; [apply Rle_abs|]. apply RN_bound; [lia|exact Hb].
  - intros Hh.
    assert (H1 : B2R x * B2R x <= 1).
    { destruct (Rle_or_lt (B2R x * B2R x) 1) as [H|H]; [exact H|]. exfalso.
      pose proof (RN_mono 1 (B2R x * B2R x) (Rlt_le _ _ H)) as Hr.
      rewrite (round_generic radix2 fexp32 _ 1) in Hr by exact format_one. lra. }
    pose proof (RN_err (B2R x * B2R x) 0 ltac:(lia)) as He.
    rewrite Rabs_pos_eq in He by exact H0. specialize (He H1).
    replace (/ 2 * bp (fexp32 0)) with (bp (-25)) in He
      by (change (fexp32 0) with (-24)%Z; change (-24)%Z with (-25 + 1)%Z; rewrite <- bp_double; field).
    apply Rabs_le_inv in He. lra.
Qed.

Lemma far1_false_inv (x y : F32) : fin x -> fin y -> Rabs (B2R x) <= bp 60 -> Rabs (B2R y) <= bp 60 ->
  S.gt (S.add (S.mul x x) (S.mul y y)) bezier_limit = false ->
  B2R x * B2R x + B2R y * B2R y <= 1 / 4 + bp (-20).
Proof.
  intros Fx Fy Hx Hy Hgt.
  destruct (sq_inv x Fx Hx) as (F1 & [A0 A1] & IA). destruct (sq_inv y Fy Hy) as (F2 & [B0 B1] & IB).
  set (a := B2R (S.mul x x)) in *. set (b := B2R (S.mul y y)) in *.
  assert (Hb : Rabs (a + b) <= bp 121).
  { rewrite Rabs_pos_eq by lra. change 121%Z with (120 + 1)%Z. rewrite <- bp_double. lra. }
  destruct (add_ok _ _ 121 F1 F2 ltac:(lia) Hb) as [Fs Rs]. fold a b in Rs.
  unfold S.gt, fgt in Hgt. rewrite Bltb_correct in Hgt; [|exact limit_fin|exact Fs].
  rewrite limit_R, Rs in Hgt.
  assert (Hle : RN (a + b) <= 1 / 4).
  { destruct (Rlt_bool_spec (1 / 4) (RN (a + b))) as [H|H]; [discriminate|exact H]. }
  assert (Hh : a + b <= 1 / 2).
  { destruct (Rle_or_lt (a + b) (1 / 2)) as [H|H]; [exact H|]. exfalso.
    pose proof (RN_mono (1 / 2) (a + b) (Rlt_le _ _ H)) as Hr.
    rewrite (round_generic radix2 fexp32 _ (1 / 2)) in Hr by exact format_half. lra. }
  pose proof (RN_err (a + b) (-1) ltac:(lia)) as He.
  rewrite Rabs_pos_eq in He by lra.
  replace (bp (-1)) with (1 / 2) in He by (cbn; lra). specialize (He Hh).
  replace (/ 2 * bp (fexp32 (-1))) with (bp (-26)) in He
    by (change (fexp32 (-1)) with (-25)%Z; change (-25)%Z with (-26 + 1)%Z; rewrite <- bp_double; field).
  apply Rabs_le_inv in He.
  specialize (IA ltac:(lra)). specialize (IB ltac:(lra)).
  assert (H26 : bp (-26) <= bp (-22)) by (apply bpow_le; lia).
  assert (H25 : bp (-25) <= bp (-22)) by (apply bpow_le; lia).
  assert (H20 : bp (-20) = 2 * (2 * bp (-22))).
  { rewrite !bp_double. reflexivity. }
  pose proof (bpow_gt_0 radix2 (-22)). lra.
Qed.

Lemma far32_false_inv E p c n : (0 <= E <= 40)%Z -> point_ok E p -> point_ok E c -> point_ok E n ->
  far32 p c n = false ->
  exists X Y : R,
    Rabs (X - (B2R (px p) - 2 * B2R (px c) + B2R (px n))) <= bp (E - 22) /\
    Rabs (Y - (B2R (py p) - 2 * B2R (py c) + B2R (py n))) <= bp (E - 22) /\
    X * X + Y * Y <= 1 / 4 + bp (-20).
Proof.
  intros HE [Px Py] [Cx Cy] [Nx Ny] Hf. rewrite far32_coords in Hf.
  destruct (dd1_err_bound E _ _ _ ltac:(lia) Px Cx Nx) as (Fx & Bx & Ex).
  destruct (dd1_err_bound E _ _ _ ltac:(lia) Py Cy Ny) as (Fy & By & Ey).
  assert (H60 : bp (E + 2) <= bp 60) by (apply bpow_le; lia).
  exists (B2R (dd1 (px p) (px c) (px n))), (B2R (dd1 (py p) (py c) (py n))).
  split; [exact Ex|]. split; [exact Ey|].
  apply far1_false_inv; try assumption; lra.
Qed.

Lemma flat_enough_inv E pts : (0 <= E <= 40)%Z -> Forall (point_ok E) pts -> flat_enough pts = true ->
  forall i, (i + 2 < length pts)%nat ->
  exists X Y : R,
    Rabs (X - (B2R (px (nth i pts pos0)) - 2 * B2R (px (nth (S i) pts pos0)) + B2R (px (nth (S (S i)) pts pos0)))) <= bp (E - 22) /\
    Rabs (Y - (B2R (py (nth i pts pos0)) - 2 * B2R (py (nth (S i) pts pos0)) + B2R (py (nth (S (S i)) pts pos0)))) <= bp (E - 22) /\
    X * X + Y * Y <= 1 / 4 + bp (-20).
Proof.
  intros HE. rewrite model_flat.
  induction pts as [|p P IH]; intros Hok Hf i Hi; [cbn [length] in Hi; lia|].
  destruct P as [|q [|s r]]; try (cbn [length] in Hi; lia).
  change (flat_g far32 (p :: q :: s :: r)) with (if far32 p q s then false else flat_g far32 (q :: s :: r)) in Hf.
  destruct (far32 p q s) eqn:Ef; [discriminate|].
  inversion Hok as [|? ? Hp Hok1]; subst.
  destruct i as [|i].
  - cbn [nth].
    inversion Hok1 as [|? ? Hq Hok2]; subst. inversion Hok2 as [|? ? Hs _]; subst.
    apply (far32_false_inv E); assumption.
  - change (nth (S i) (p :: q :: s :: r) pos0) with (nth i (q :: s :: r) pos0).
    change (nth (S (S i)) (p :: q :: s :: r) pos0) with (nth (S i) (q :: s :: r) pos0).
    change (nth (S (S (S i))) (p :: q :: s :: r) pos0) with (nth (S (S i)) (q :: s :: r) pos0).
    apply IH; [exact Hok1|exact Hf|]. cbn [length] in *. lia.
Qed.

(* ------------------------------------------------------------------ *)
(* C. one piece in the plane, second differences bounded by M in norm  *)

Theorem piece_close_2D_gen (P : list RP) n' (M : R) j s :
  length P = S (S n') -> 0 <= M ->
  (forall i, (i + 2 < length P)%nat ->
     (fst (nth i P zeroRR) - 2 * fst (nth (S i) P zeroRR) + fst (nth (S (S i)) P zeroRR)) *
     (fst (nth i P zeroRR) - 2 * fst (nth (S i) P zeroRR) + fst (nth (S (S i)) P zeroRR)) +
     (snd (nth i P zeroRR) - 2 * snd (nth (S i) P zeroRR) + snd (nth (S (S i)) P zeroRR)) *
     (snd (nth i P zeroRR) - 2 * snd (nth (S i) P zeroRR) + snd (nth (S (S i)) P zeroRR)) <= M * M) ->
  (j < S n')%nat -> 0 <= s <= 1 ->
  dist2 (Bez P ((INR j + s) / INR (S n'))) (lerp2 (nth j (Epts P) zeroRR) (nth (S j) (Epts P) zeroRR) s)
  <= INR (S n') * (2 * INR (S n') - 1) / 8 * M.
Proof.
  intros Hlen HM Hflat Hj Hs.
  assert (HK : 0 <= INR (S n') * (2 * INR (S n') - 1) / 8 * M).
  { assert (1 <= INR (S n')) by (change 1 with (INR 1); apply le_INR; lia).
    assert (0 <= INR (S n') * (2 * INR (S n') - 1)) by nra.
    apply Rmult_le_pos; [lra|exact HM]. }
  unfold dist2, sqd2, ArcExact.sqd. apply norm_by_proj; [exact HK|].
  intros ux uy Hu.
  set (b := map (proj ux uy) P).
  assert (Hb : length b = S (S n')) by (unfold b; rewrite map_length; exact Hlen).
  assert (Hdd : forall i, (i + 2 <= S n')%nat ->
            Rabs (nth i b 0 - 2 * nth (S i) b 0 + nth (S (S i)) b 0) <= M).
  { intros i Hi. unfold b.
    rewrite !(map_nth' zeroRR 0 (proj ux uy) (proj_zero ux uy)).
    pose proof (Hflat i ltac:(lia)) as Hf.
    set (p0 := nth i P zeroRR) in *. set (p1 := nth (S i) P zeroRR) in *. set (p2 := nth (S (S i)) P zeroRR) in *.
    replace (proj ux uy p0 - 2 * proj ux uy p1 + proj ux uy p2)
      with (ux * (fst p0 - 2 * fst p1 + fst p2) + uy * (snd p0 - 2 * snd p1 + snd p2)) by (unfold proj; ring).
    apply proj_le_norm; [exact Hu|exact HM|exact Hf]. }
  pose proof (piece_close b n' Hb M HM Hdd j s Hj Hs) as Hc.
  assert (Ht : 0 <= (INR j + s) / INR (S n') <= 1).
  { pose proof (pos_INR j). assert (INR j + 1 <= INR (S n')) by (rewrite <- S_INR; apply le_INR; lia).
    split.
    - apply Rmult_le_pos; [lra|]. apply Rlt_le, Rinv_0_lt_compat. lra.
    - apply Rmult_le_reg_r with (INR (S n')); [lra|]. unfold Rdiv. rewrite Rmult_assoc, Rinv_l by lra. lra. }
  assert (EE : Ebar b = map (proj ux uy) (Epts P)).
  { unfold Ebar, Epts, b. rewrite map_app. cbn [map].
    rewrite (map_approx_pts avgRR avgR triRR triR zeroRR 0 (proj ux uy) (proj_avg ux uy) (proj_tri ux uy) (proj_zero ux uy)).
    rewrite (map_last' zeroRR 0 (proj ux uy) (proj_zero ux uy)). reflexivity. }
  rewrite EE in Hc. rewrite !(map_nth' zeroRR 0 (proj ux uy) (proj_zero ux uy)) in Hc.
  unfold b in Hc. rewrite (dc_proj ux uy _ _ P Ht) in Hc.
  unfold Bez, lerp2. rewrite Hlen. cbn [Nat.pred fst snd].
  eapply Rle_trans; [|exact Hc]. eapply Rle_trans; [|apply Rle_abs].
  unfold proj. right.
  set (e0 := nth j (Epts P) zeroRR). set (e1 := nth (S j) (Epts P) zeroRR). ring.
Qed.

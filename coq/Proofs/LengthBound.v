(* LengthBound: a coordinate bound that rules out intermediate overflow in the
   cumulative lengths (the side condition of T16d): with every path coordinate
   finite and |coordinate| <= 2^60, every f32 segment length is finite
   (difference <= 2^61, squares <= 2^122, sum <= 2^123, root <= 2^62); hence
   for at most 2^53 vertices every cumulative length is finite. *)
From RM Require Import Model.ControlPoints Model.Curve Proofs.BezierRefine Proofs.LengthFacts Proofs.LengthMono.
From Flocq Require Import Core BinarySingleNaN.
From Coq Require Import Reals Lra.
Require Import ZifyBool.
Open Scope R_scope.

Local Notation RN32 := (round radix2 (SpecFloat.fexp 24 128) (round_mode mode_NE)).
Local Notation RN64 := (round radix2 (SpecFloat.fexp 53 1024) (round_mode mode_NE)).

(* finite and of magnitude at most 2^k *)
Definition bnd32 (x : F32) (k : Z) : Prop := is_finite x = true /\ Rabs (B2R x) <= bpow radix2 k.

Lemma RN32_abs_le x k : (-149 <= k)%Z -> Rabs x <= bpow radix2 k -> Rabs (RN32 x) <= bpow radix2 k.
Proof.
  intros Hk H. apply abs_round_le_generic; [apply (fexp_correct 24 128); exact Hp32|apply valid_rnd_N| |exact H].
  apply generic_format_bpow. unfold SpecFloat.fexp, SpecFloat.emin. lia.
Qed.

Lemma small_no_overflow32 x k : (k < 128)%Z -> Rabs x <= bpow radix2 k -> Rlt_bool (Rabs x) (bpow radix2 128) = true.
Proof. intros Hk H. apply Rlt_bool_true. apply Rle_lt_trans with (1 := H). apply bpow_lt. exact Hk. Qed.

Lemma sub32_bnd a b k : (-149 <= k)%Z -> (k + 1 < 128)%Z -> bnd32 a k -> bnd32 b k -> bnd32 (S.sub a b) (k + 1).
Proof.
  intros Hk0 Hk [Fa Ba] [Fb Bb].
  pose proof (Bminus_correct 24 128 Hp32 He32 mode_NE a b Fa Fb) as H.
  assert (Hs : Rabs (B2R a - B2R b) <= bpow radix2 (k + 1)).
  { rewrite bpow_plus_1. cbn [radix_val radix2]. pose proof (Rabs_triang (B2R a) (- B2R b)) as T.
    rewrite Rabs_Ropp in T. unfold Rminus. lra. }
  pose proof (RN32_abs_le _ (k + 1) ltac:(lia) Hs) as Hr.
  rewrite (small_no_overflow32 _ (k + 1) Hk Hr) in H. destruct H as (HR & HF & _).
  split; [exact HF|]. unfold S.sub, fsub. rewrite HR. exact Hr.
Qed.

Lemma add32_bnd a b k : (-149 <= k)%Z -> (k + 1 < 128)%Z -> bnd32 a k -> bnd32 b k -> bnd32 (S.add a b) (k + 1).
Proof.
  intros Hk0 Hk [Fa Ba] [Fb Bb].
  pose proof (Bplus_correct 24 128 Hp32 He32 mode_NE a b Fa Fb) as H.
  assert (Hs : Rabs (B2R a + B2R b) <= bpow radix2 (k + 1)).
  { rewrite bpow_plus_1. cbn [radix_val radix2]. pose proof (Rabs_triang (B2R a) (B2R b)) as T. lra. }
  pose proof (RN32_abs_le _ (k + 1) ltac:(lia) Hs) as Hr.
  rewrite (small_no_overflow32 _ (k + 1) Hk Hr) in H. destruct H as (HR & HF & _).
  split; [exact HF|]. unfold S.add, fadd. rewrite HR. exact Hr.
Qed.

Lemma mul32_bnd a b k1 k2 : (-149 <= k1 + k2)%Z -> (k1 + k2 < 128)%Z -> bnd32 a k1 -> bnd32 b k2 -> bnd32 (S.mul a b) (k1 + k2).
Proof.
  intros Hk0 Hk [Fa Ba] [Fb Bb].
  pose proof (Bmult_correct 24 128 Hp32 He32 mode_NE a b) as H.
  assert (Hs : Rabs (B2R a * B2R b) <= bpow radix2 (k1 + k2)).
  { rewrite Rabs_mult, bpow_plus. apply Rmult_le_compat; try apply Rabs_pos; assumption. }
  pose proof (RN32_abs_le _ (k1 + k2) Hk0 Hs) as Hr.
  rewrite (small_no_overflow32 _ (k1 + k2) Hk Hr) in H. destruct H as (HR & HF & _).
  unfold S.mul, fmul. split; [rewrite HF, Fa, Fb; reflexivity|]. rewrite HR. exact Hr.
Qed.

(* widening keeps the bound *)
Lemma f64_of_f32_bnd (x : F32) k : (-1074 <= k)%Z -> (k < 1024)%Z -> pos32 x -> bnd32 x k ->
  is_finite (f64_of_f32 x) = true /\ pos64 (f64_of_f32 x) /\ B2R (f64_of_f32 x) <= bpow radix2 k.
Proof.
  intros Hk0 Hk Px [Fx Bx]. pose proof (f64_of_f32_pos x Px) as P64. pose proof (bpow_gt_0 radix2 k) as Hb.
  destruct Px as [_ Hs].
  destruct x as [s|s| |s m e Hm] eqn:Ex; cbn in Fx, Hs; try discriminate; subst s.
  - cbn. split; [reflexivity|]. split; [exact P64|lra].
  - cbn [B2R cond_Zopp] in Bx.
    assert (Hpos : 0 < F2R (Float radix2 (Zpos m) e)) by (apply F2R_gt_0; cbn; lia).
    rewrite Rabs_pos_eq in Bx by lra.
    pose proof (binary_normalize_correct 53 1024 Hp64 He64 mode_NE (Zpos m) e false) as H. cbv zeta in H.
    assert (H0 : 0 <= RN64 (F2R (Float radix2 (Zpos m) e))).
    { apply round_ge_generic; [apply (fexp_correct 53 1024); exact Hp64|apply valid_rnd_N|apply generic_format_0|lra]. }
    assert (H1 : RN64 (F2R (Float radix2 (Zpos m) e)) <= bpow radix2 k).
    { apply round_le_generic; [apply (fexp_correct 53 1024); exact Hp64|apply valid_rnd_N| |exact Bx].
      apply generic_format_bpow. unfold SpecFloat.fexp, SpecFloat.emin. lia. }
    rewrite Rlt_bool_true in H.
    + destruct H as (HR & HF & _). split; [exact HF|]. split; [exact P64|].
      cbn [f64_of_f32]. unfold D.of_ZE, of_ZE. rewrite HR. exact H1.
    + rewrite Rabs_pos_eq by exact H0. apply Rle_lt_trans with (1 := H1). apply bpow_lt. exact Hk.
Qed.

Lemma sqrt64_bnd (y : F64) j : (-1074 <= j)%Z -> is_finite y = true -> pos64 y -> B2R y <= bpow radix2 (2 * j) ->
  is_finite (D.sqrt y) = true /\ pos64 (D.sqrt y) /\ B2R (D.sqrt y) <= bpow radix2 j.
Proof.
  intros Hj Fy Py By. pose proof (sqrt_posf 53 1024 Hp64 He64 y Py) as Ps.
  destruct (Bsqrt_correct 53 1024 Hp64 He64 mode_NE y) as (HR & HF & _).
  destruct Py as [_ Sy].
  assert (Ff : is_finite (D.sqrt y) = true).
  { unfold D.sqrt, fsqrt. rewrite HF. destruct y as [s|s| |s m e Hm]; cbn in *; try discriminate; subst; reflexivity. }
  split; [exact Ff|]. split; [exact Ps|].
  unfold D.sqrt, fsqrt. rewrite HR.
  apply round_le_generic; [apply (fexp_correct 53 1024); exact Hp64|apply valid_rnd_N| |].
  - apply generic_format_bpow. unfold SpecFloat.fexp, SpecFloat.emin. lia.
  - rewrite <- (sqrt_bpow radix2 j). apply sqrt_le_1_alt. exact By.
Qed.

Lemma f32_of_f64_fin (z : F64) j : (j < 128)%Z -> (-149 <= j)%Z -> is_finite z = true -> pos64 z -> B2R z <= bpow radix2 j ->
  is_finite (f32_of_f64 z) = true.
Proof.
  intros Hj Hj0 Fz [_ Sz] Bz.
  destruct z as [s|s| |s m e Hm] eqn:Ez; cbn in Fz, Sz; try discriminate; subst s; [reflexivity|].
  cbn [B2R cond_Zopp] in Bz.
  assert (Hpos : 0 < F2R (Float radix2 (Zpos m) e)) by (apply F2R_gt_0; cbn; lia).
  pose proof (binary_normalize_correct 24 128 Hp32 He32 mode_NE (Zpos m) e false) as H. cbv zeta in H.
  assert (Hr : Rabs (RN32 (F2R (Float radix2 (Zpos m) e))) <= bpow radix2 j).
  { apply RN32_abs_le; [exact Hj0|]. rewrite Rabs_pos_eq by lra. exact Bz. }
  rewrite (small_no_overflow32 _ j Hj Hr) in H. destruct H as (_ & HF & _). exact HF.
Qed.

(* the coordinate bound *)
Definition coord_le (p : Pos) (k : Z) : Prop := bnd32 (px p) k /\ bnd32 (py p) k.

Lemma plen_finite_of_bound a b : coord_le a 60 -> coord_le b 60 ->
  is_finite (plen (psub b a)) = true.
Proof.
  intros [Ax Ay] [Bx By].
  pose proof (sub32_bnd (px b) (px a) 60 ltac:(lia) ltac:(lia) Bx Ax) as Dx.
  pose proof (sub32_bnd (py b) (py a) 60 ltac:(lia) ltac:(lia) By Ay) as Dy.
  change (60 + 1)%Z with 61%Z in *.
  pose proof (mul32_bnd _ _ 61 61 ltac:(lia) ltac:(lia) Dx Dx) as Mx.
  pose proof (mul32_bnd _ _ 61 61 ltac:(lia) ltac:(lia) Dy Dy) as My.
  change (61 + 61)%Z with 122%Z in *.
  pose proof (add32_bnd _ _ 122 ltac:(lia) ltac:(lia) Mx My) as Sm. change (122 + 1)%Z with 123%Z in Sm.
  assert (Nx : is_nan (S.sub (px b) (px a)) = false) by (destruct Dx as [F _]; destruct (S.sub (px b) (px a)); cbn in *; congruence).
  assert (Ny : is_nan (S.sub (py b) (py a)) = false) by (destruct Dy as [F _]; destruct (S.sub (py b) (py a)); cbn in *; congruence).
  assert (Psum : pos32 (S.add (S.mul (S.sub (px b) (px a)) (S.sub (px b) (px a)))
                              (S.mul (S.sub (py b) (py a)) (S.sub (py b) (py a))))).
  { apply (plus_posf 24 128 Hp32 He32); apply (mult_self_posf 24 128 Hp32 He32); assumption. }
  assert (Sm' : bnd32 (S.add (S.mul (S.sub (px b) (px a)) (S.sub (px b) (px a)))
                             (S.mul (S.sub (py b) (py a)) (S.sub (py b) (py a)))) 124).
  { destruct Sm as [F B]. split; [exact F|]. apply Rle_trans with (1 := B). apply bpow_le. lia. }
  destruct (f64_of_f32_bnd _ 124 ltac:(lia) ltac:(lia) Psum Sm') as (Fw & Pw & Bw).
  destruct (sqrt64_bnd _ 62 ltac:(lia) Fw Pw Bw) as (Fs & Ps & Bs).
  unfold plen. cbn [psub px py]. exact (f32_of_f64_fin _ 62 ltac:(lia) ltac:(lia) Fs Ps Bs).
Qed.

Lemma coord_le_fin_pos p k : coord_le p k -> fin_pos p.
Proof. intros [[Fx _] [Fy _]]. split; assumption. Qed.

Lemma segs_finite_of_bound path : Forall (fun p => coord_le p 60) path -> segs_finite path.
Proof.
  induction path as [|a [|b t] IH]; intros H; cbn [segs_finite]; try exact I.
  inversion H as [|? ? Ha Ht]; subst. inversion Ht as [|? ? Hb _]; subst.
  split; [apply plen_finite_of_bound; assumption|apply IH; exact Ht].
Qed.

(* T16d, finiteness with a concrete side condition: every coordinate finite
   with magnitude at most 2^60, at most 2^53 vertices *)
Theorem lengths_finite_of_bound path e path' lens :
  Forall (fun p => coord_le p 60) path -> (Z.of_nat (length path) <= 2 ^ 53)%Z ->
  (forall L, e = Some L -> is_finite L = true) ->
  calculate_length path e D.zero = Done (path', lens) ->
  lengths_ok lens /\ Forall (fun v => is_finite v = true) lens.
Proof.
  intros Hb Hn HL H.
  assert (Hf : Forall fin_pos path).
  { rewrite Forall_forall in *. intros p Hp. eapply coord_le_fin_pos. apply Hb. exact Hp. }
  destruct (calculate_length_nondecreasing path e path' lens Hf H) as [Hok Hfin].
  split; [exact Hok|]. apply Hfin; [|exact HL].
  apply natural_len_finite; [exact Hf|apply segs_finite_of_bound; exact Hb|exact Hn].
Qed.

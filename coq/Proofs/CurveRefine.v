(* CurveRefine: T18a.  Curve::new / BorrowedCurve::new with arbitrary prior
   scratch-buffer contents (L0) compute the pure curve (L1), for every
   control-point list including the empty one (the path buffer is cleared
   before the early return on an empty list). *)
From RM Require Import Model.ControlPoints Model.Curve Proofs.BezierRefine.
Open Scope nat_scope.

(* ---------- generic: calculate_path over two related Bezier routines ---------- *)

Section Sim.
  Context {B0 : Type}.
  Variable bez0 : list Pos -> list Pos -> B0 -> outcome (list Pos * B0).
  Variable bez1 : list Pos -> list Pos -> unit -> outcome (list Pos * unit).
  Variable Inv : B0 -> Prop.
  Variable lm : Libm.

  Definition sim2 (o0 : outcome (list Pos * B0)) (o1 : outcome (list Pos * unit)) : Prop :=
    match o1 with
    | Done (p, _) => exists b', o0 = Done (p, b') /\ Inv b'
    | Panic w => o0 = Panic w
    | OutOfFuel => o0 = OutOfFuel
    end.

  Definition sim3 (o0 : outcome (list Pos * F64 * B0)) (o1 : outcome (list Pos * F64 * unit)) : Prop :=
    match o1 with
    | Done (p, o, _) => exists b', o0 = Done (p, o, b') /\ Inv b'
    | Panic w => o0 = Panic w
    | OutOfFuel => o0 = OutOfFuel
    end.

  Hypothesis Hbez : forall path pts b, Inv b -> sim2 (bez0 path pts b) (bez1 path pts tt).

  Lemma sim3_done p o b : Inv b -> sim3 (Done (p, o, b)) (Done (p, o, tt)).
  Proof. intros H. exists b. split; [reflexivity|exact H]. Qed.

  Lemma sim3_obind o0 o1 f0 f1 :
    sim3 o0 o1 ->
    (forall p o b', Inv b' -> sim3 (f0 (p, o, b')) (f1 (p, o, tt))) ->
    sim3 (obind o0 f0) (obind o1 f1).
  Proof.
    intros H Hf. destruct o1 as [[[p o] []]| |]; cbn [sim3] in H.
    - destruct H as (b' & -> & Hi). cbn [obind]. apply Hf. exact Hi.
    - rewrite H. reflexivity.
    - rewrite H. reflexivity.
  Qed.

  Lemma bez3_sim path sub opt b : Inv b ->
    sim3 (bez3 bez0 path sub opt b) (bez3 bez1 path sub opt tt).
  Proof.
    intros Hi. unfold bez3. specialize (Hbez path sub b Hi).
    destruct (bez1 path sub tt) as [[p []]| |]; cbn [sim2] in Hbez.
    - destruct Hbez as (b' & -> & Hi'). cbn [obind]. apply sim3_done. exact Hi'.
    - rewrite Hbez. reflexivity.
    - rewrite Hbez. reflexivity.
  Qed.

  Lemma sim3_refl_nobuf {A} (o : outcome A) (f0 : A -> outcome (list Pos * F64 * B0))
      (f1 : A -> outcome (list Pos * F64 * unit)) :
    (forall a, sim3 (f0 a) (f1 a)) -> sim3 (obind o f0) (obind o f1).
  Proof. intros H. destruct o; cbn [obind]; [apply H|reflexivity|reflexivity]. Qed.

  Lemma calculate_subpath_sim osu path sub kind opt b : Inv b ->
    sim3 (calculate_subpath bez0 lm osu path sub kind opt b)
         (calculate_subpath bez1 lm osu path sub kind opt tt).
  Proof.
    intros Hi. unfold calculate_subpath. destruct kind.
    - (* Catmull *)
      apply sim3_refl_nobuf. intros cat. destruct (negb osu).
      + apply sim3_done. exact Hi.
      + destruct (catmull_simplify cat opt). apply sim3_done. exact Hi.
    - apply bez3_sim. exact Hi.
    - apply sim3_done. exact Hi.
    - (* PerfectCurve *)
      destruct sub as [|a [|m [|c [|x t]]]]; try (apply bez3_sim; exact Hi).
      apply sim3_refl_nobuf. intros [arc|]; [apply sim3_done|apply bez3_sim]; exact Hi.
  Qed.

  Lemma cpath_loop_sim k : forall i start n osu pts verts path opt b, Inv b ->
    sim3 (cpath_loop bez0 lm k i start n osu pts verts path opt b)
         (cpath_loop bez1 lm k i start n osu pts verts path opt tt).
  Proof.
    induction k as [|k IH]; intros i start n osu pts verts path opt b Hi; cbn [cpath_loop].
    - apply sim3_done. exact Hi.
    - apply sim3_refl_nobuf. intros cp.
      destruct ((match pc_type cp with None => true | Some _ => false end) && Nat.ltb i (n - 1))%bool.
      + apply IH. exact Hi.
      + destruct (Nat.ltb i start || Nat.leb (length verts) i)%bool; [reflexivity|].
        destruct (firstn (S i - start) (skipn start verts)) as [|v [|v2 seg]].
        * reflexivity.
        * apply IH. exact Hi.
        * apply sim3_refl_nobuf. intros cps.
          apply sim3_obind; [apply calculate_subpath_sim; exact Hi|].
          intros p o b' Hi'. cbn beta iota. apply IH. exact Hi'.
  Qed.
End Sim.

(* ---------- Curve::new / BorrowedCurve::new ---------- *)

(* reachable buffer states (the fields are private): the four Bezier scratch
   vectors have equal length; path, lengths, vertices are arbitrary *)
Definition cb_wf (bufs : CurveBuffers) : Prop := bb_wf (cb_bezier bufs).

Lemma cb_wf_default : cb_wf bufs_default.
Proof. exact bb_wf_default. Qed.

Definition ores {A B} (o : outcome (A * B)) : outcome A :=
  match o with Done (a, _) => Done a | Panic w => Panic w | OutOfFuel => OutOfFuel end.

Section WithLibm.
  Variable lm : Libm.
  Variable fuel : positive.

  Lemma bezier_sim path pts b : bb_wf b ->
    sim2 (B0 := BezierBuffers) bb_wf (approximate_bezier_L0 fuel path pts b) (approximate_bezier_L1 fuel path pts tt).
  Proof.
    intros H. pose proof (approximate_bezier_refines fuel path pts b H) as R.
    unfold sim2. destruct (approximate_bezier_L1 fuel path pts tt) as [[p []]| |]; exact R.
  Qed.

  (* the path computation *)
  Lemma calculate_path_refines mode pts bufs opt0 :
    cb_wf bufs ->
    match calculate_path_L1 lm fuel mode pts with
    | Done (path, opt) =>
        exists verts bz, calculate_path_L0 lm fuel mode pts bufs opt0
                   = Done (mkCB path (cb_lengths bufs) verts bz, opt) /\ bb_wf bz
    | Panic w => calculate_path_L0 lm fuel mode pts bufs opt0 = Panic w
    | OutOfFuel => calculate_path_L0 lm fuel mode pts bufs opt0 = OutOfFuel
    end.
  Proof.
    intros Hwf. unfold calculate_path_L1, calculate_path_L0.
    destruct pts as [|p0 pt].
    { do 2 eexists. split; [reflexivity|exact Hwf]. }
    set (pts := p0 :: pt).
    pose proof (cpath_loop_sim (approximate_bezier_L0 fuel) (approximate_bezier_L1 fuel) bb_wf lm bezier_sim
                  (length pts) 0 0 (length pts) (is_osu mode) pts (map pc_pos pts) [] D.zero
                  (cb_bezier bufs) Hwf) as HS.
    destruct (cpath_loop (approximate_bezier_L1 fuel) lm (length pts) 0 0 (length pts) (is_osu mode) pts
                (map pc_pos pts) [] D.zero tt) as [[[path opt] []]| |]; cbn [sim3] in HS.
    - destruct HS as (bz & -> & Hbz). cbn [obind]. do 2 eexists. split; [reflexivity|exact Hbz].
    - rewrite HS. reflexivity.
    - rewrite HS. reflexivity.
  Qed.

  Lemma compute_refines mode pts e bufs :
    cb_wf bufs ->
    match curve_L1 lm fuel mode pts e with
    | Done c => exists verts bz, compute_L0 lm fuel mode pts e bufs
                           = Done (mkCB (c_path c) (c_lengths c) verts bz) /\ bb_wf bz
    | Panic w => compute_L0 lm fuel mode pts e bufs = Panic w
    | OutOfFuel => compute_L0 lm fuel mode pts e bufs = OutOfFuel
    end.
  Proof.
    intros Hwf. unfold curve_L1, compute_L0.
    pose proof (calculate_path_refines mode pts bufs D.zero Hwf) as HP.
    destruct (calculate_path_L1 lm fuel mode pts) as [[path opt]| |].
    - destruct HP as (verts & bz & -> & Hbz). cbn [obind]. unfold calculate_length_L0. cbn [cb_path cb_vertices cb_bezier].
      destruct (calculate_length path e opt) as [[path' lens]| |]; cbn [obind].
      + do 2 eexists. split; [reflexivity|exact Hbz].
      + reflexivity.
      + reflexivity.
    - rewrite HP. reflexivity.
    - rewrite HP. reflexivity.
  Qed.

  (* T18a, owned constructor: every list, every prior buffer content *)
  Theorem curve_new_refines mode pts e bufs :
    cb_wf bufs ->
    match curve_L1 lm fuel mode pts e with
    | Done c => exists bufs', curve_new_L0 lm fuel mode pts e bufs = Done (c, bufs') /\ cb_wf bufs'
                              /\ cb_path bufs' = [] /\ cb_lengths bufs' = []
    | Panic w => curve_new_L0 lm fuel mode pts e bufs = Panic w
    | OutOfFuel => curve_new_L0 lm fuel mode pts e bufs = OutOfFuel
    end.
  Proof.
    intros Hwf. pose proof (compute_refines mode pts e bufs Hwf) as HC. unfold curve_new_L0.
    destruct (curve_L1 lm fuel mode pts e) as [c| |].
    - destruct HC as (verts & bz & -> & Hbz). cbn [obind cb_path cb_lengths cb_vertices cb_bezier].
      eexists. split; [destruct c; reflexivity|]. repeat split. exact Hbz.
    - rewrite HC. reflexivity.
    - rewrite HC. reflexivity.
  Qed.

  (* T18a, borrowed constructor: the view of the buffers is the same curve *)
  Theorem borrowed_new_refines mode pts e bufs :
    cb_wf bufs ->
    match curve_L1 lm fuel mode pts e with
    | Done c => exists bufs', borrowed_new_L0 lm fuel mode pts e bufs = Done (c, bufs') /\ cb_wf bufs'
                              /\ cb_path bufs' = c_path c /\ cb_lengths bufs' = c_lengths c
    | Panic w => borrowed_new_L0 lm fuel mode pts e bufs = Panic w
    | OutOfFuel => borrowed_new_L0 lm fuel mode pts e bufs = OutOfFuel
    end.
  Proof.
    intros Hwf. pose proof (compute_refines mode pts e bufs Hwf) as HC. unfold borrowed_new_L0.
    destruct (curve_L1 lm fuel mode pts e) as [c| |].
    - destruct HC as (verts & bz & -> & Hbz). cbn [obind cb_path cb_lengths cb_vertices cb_bezier].
      eexists. split; [destruct c; reflexivity|]. repeat split. exact Hbz.
    - rewrite HC. reflexivity.
    - rewrite HC. reflexivity.
  Qed.

  (* ... in the form of DESIGN C18: result (curve_L0 bufs ...) = curve_L1 ... *)
  Corollary curve_new_result mode pts e bufs :
    cb_wf bufs -> ores (curve_new_L0 lm fuel mode pts e bufs) = curve_L1 lm fuel mode pts e.
  Proof.
    intros Hwf. pose proof (curve_new_refines mode pts e bufs Hwf) as H.
    destruct (curve_L1 lm fuel mode pts e).
    - destruct H as (b' & -> & _). reflexivity.
    - rewrite H. reflexivity.
    - rewrite H. reflexivity.
  Qed.

  Corollary borrowed_new_result mode pts e bufs :
    cb_wf bufs -> ores (borrowed_new_L0 lm fuel mode pts e bufs) = curve_L1 lm fuel mode pts e.
  Proof.
    intros Hwf. pose proof (borrowed_new_refines mode pts e bufs Hwf) as H.
    destruct (curve_L1 lm fuel mode pts e).
    - destruct H as (b' & -> & _). reflexivity.
    - rewrite H. reflexivity.
    - rewrite H. reflexivity.
  Qed.

  Corollary owned_borrowed_agree mode pts e bufs1 bufs2 :
    cb_wf bufs1 -> cb_wf bufs2 ->
    ores (curve_new_L0 lm fuel mode pts e bufs1) = ores (borrowed_new_L0 lm fuel mode pts e bufs2).
  Proof. intros. rewrite curve_new_result, borrowed_new_result by assumption. reflexivity. Qed.

  Lemma calculate_length_nil e opt :
    calculate_length [] e opt = Done ([], [D.zero]).
  Proof.
    unfold calculate_length. cbn [cum_lengths]. destruct e as [x|]; [|reflexivity].
    destruct (negb (D.gt (D.abs (D.sub opt x)) D.zero)); [reflexivity|].
    cbn [last_two_equal rev app andb length Nat.eqb]. reflexivity.
  Qed.

  (* the empty list: no vertex, the single cumulative length 0.0 -- whatever the buffers held *)
  Theorem empty_list_curve mode e bufs :
    cb_wf bufs ->
    curve_L1 lm fuel mode [] e = Done (mkCurve [] [D.zero]) /\
    ores (curve_new_L0 lm fuel mode [] e bufs) = Done (mkCurve [] [D.zero]) /\
    ores (borrowed_new_L0 lm fuel mode [] e bufs) = Done (mkCurve [] [D.zero]).
  Proof.
    intros Hwf.
    assert (H : curve_L1 lm fuel mode [] e = Done (mkCurve [] [D.zero])).
    { unfold curve_L1, calculate_path_L1. cbn [obind]. rewrite calculate_length_nil. reflexivity. }
    split; [exact H|]. rewrite curve_new_result, borrowed_new_result by exact Hwf. split; exact H.
  Qed.
End WithLibm.


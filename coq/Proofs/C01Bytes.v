(* C01Bytes: the byte -> line layer (Reader/Encoding) composed with the
   line -> value layer (Decoders): from_bytes::<Beatmap> as one function. *)
From RM Require Import Model.Decoders Model.Reader Model.Encoding.
From RM Require Import Proofs.ReaderFacts Proofs.EncodingFacts Proofs.TransparencyFacts Proofs.DecodersTotal.

Definition decode_bytes_beatmap (dist_of : Z -> list PCP -> option F64 -> outcome F64) (b : bytes)
  : io BeatmapV :=
  io_bind (read_all_lines (mk_reader b [])) (fun lines => io_of_outcome (decode_beatmap dist_of lines)).

Definition decode_bytes_hit_objects (dist_of : Z -> list PCP -> option F64 -> outcome F64) (b : bytes)
  : io HitObjectsV :=
  io_bind (read_all_lines (mk_reader b [])) (fun lines => io_of_outcome (decode_hit_objects dist_of lines)).

Definition decode_bytes_timing_points (b : bytes) : io TimingPointsV :=
  io_bind (read_all_lines (mk_reader b [])) (fun lines => io_of_outcome (decode_timing_points lines)).

Lemma faultless_nil : faultless [].
Proof. intros k H. exact H. Qed.

Section Bytes.
  Variable dist_of : Z -> list PCP -> option F64 -> outcome F64.
  Hypothesis dist_total : forall m cps e, exists d, dist_of m cps e = Done d.

  (* an in-memory buffer: a value, or -- only for a UTF-16LE stream -- the
     UnexpectedEof of the recorded class D6; never a panic, never out of fuel *)
  Lemma from_bytes_beatmap b :
    (exists v, decode_bytes_beatmap dist_of b = IoDone v) \/
    (decode_bytes_beatmap dist_of b = IoErr UnexpectedEof /\ fst (from_bom b) = Utf16LE).
  Proof.
    unfold decode_bytes_beatmap.
    pose proof (read_all_lines_ok decode_utf8_lossy_spec (mk_reader b [])) as Hok.
    destruct (read_all_lines (mk_reader b [])) as [lines|k|w|] eqn:E; cbn in Hok; try contradiction.
    - left. cbn [io_bind]. destruct (decode_beatmap_total dist_of dist_total lines) as (bv & ->).
      exists bv. reflexivity.
    - right. cbn [io_bind]. destruct (clean_stream_error_only_le b [] k faultless_nil eq_refl E) as (H1 & ->).
      split; [reflexivity | exact H1].
  Qed.

  Lemma from_bytes_hit_objects b :
    (exists v, decode_bytes_hit_objects dist_of b = IoDone v) \/
    (decode_bytes_hit_objects dist_of b = IoErr UnexpectedEof /\ fst (from_bom b) = Utf16LE).
  Proof.
    unfold decode_bytes_hit_objects.
    pose proof (read_all_lines_ok decode_utf8_lossy_spec (mk_reader b [])) as Hok.
    destruct (read_all_lines (mk_reader b [])) as [lines|k|w|] eqn:E; cbn in Hok; try contradiction.
    - left. cbn [io_bind]. destruct (decode_hit_objects_total dist_of dist_total lines) as (hv & ->).
      exists hv. reflexivity.
    - right. cbn [io_bind]. destruct (clean_stream_error_only_le b [] k faultless_nil eq_refl E) as (H1 & ->).
      split; [reflexivity | exact H1].
  Qed.
End Bytes.

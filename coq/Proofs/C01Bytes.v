(* C01Bytes: the byte -> line layer (Reader/Encoding) composed with the
   line -> value layer (Decoders): from_bytes::<Beatmap> as one function. *)
From RM Require Import Model.Decoders Model.Reader Model.Encoding.
From RM Require Import Proofs.ReaderFacts Proofs.EncodingFacts Proofs.TransparencyFacts Proofs.DecodersTotal.

Definition decode_bytes_beatmap (dist_of : Z -> list PCP -> option F64 -> outcome F64) (b : bytes)
  : io BeatmapV :=
  io_bind (read_all_lines (mk_reader b [])) (fun lines => io_of_outcome (decode_beatmap dist_of lines)).

Definition decode_bytes_hit_objects (dist_of : Z -> list PCP -> option F64 -> outcome F64) (b : bytes)
  : io HitObjectsV :=
  io_bind (read_all_lines (mk_reader b [])) (fun lines => io_of_outcome (decode_hit_objects dist_of lines)).

Definition decode_bytes_timing_points (b : bytes) : io TimingPointsV :=
  io_bind (read_all_lines (mk_reader b [])) (fun lines => io_of_outcome (decode_timing_points lines)).

Lemma faultless_nil : faultless [].
Proof. intros k H. exact H. Qed.

Section Bytes.
  Variable dist_of : Z -> list PCP -> option F64 -> outcome F64.
  Hypothesis dist_total : forall m cps e, exists d, dist_of m cps e = Done d.

  (* an in-memory buffer: always a value -- never an Err (the reader of an
     in-memory buffer reports no failure; the UnexpectedEof of the former class
     D6 is repaired), never a panic, never out of fuel *)
  Lemma from_bytes_beatmap b : exists v, decode_bytes_beatmap dist_of b = IoDone v.
  Proof.
    unfold decode_bytes_beatmap.
    destruct (clean_stream_never_fails b [] faultless_nil) as (lines & ->). cbn [io_bind].
    destruct (decode_beatmap_total dist_of dist_total lines) as (bv & ->).
    exists bv. reflexivity.
  Qed.

  Lemma from_bytes_hit_objects b : exists v, decode_bytes_hit_objects dist_of b = IoDone v.
  Proof.
    unfold decode_bytes_hit_objects.
    destruct (clean_stream_never_fails b [] faultless_nil) as (lines & ->). cbn [io_bind].
    destruct (decode_hit_objects_total dist_of dist_total lines) as (hv & ->).
    exists hv. reflexivity.
  Qed.
End Bytes.

(* TimingPoints (no curve, no hypothesis) *)
Lemma from_bytes_timing_points_lines b :
  exists lines, read_all_lines (mk_reader b []) = IoDone lines /\
    decode_bytes_timing_points b = io_of_outcome (decode_timing_points lines).
Proof.
  destruct (clean_stream_never_fails b [] faultless_nil) as (lines & H). exists lines.
  split; [exact H|]. unfold decode_bytes_timing_points. rewrite H. reflexivity.
Qed.

(* EncodeText: C01, layer 4 -- the OUTPUT of `Beatmap::encode`.

   - The encoder writes `str` slices and `Display` renderings only, so what it
     hands to the writer is the UTF-8 encoding of a text: the token stream of
     Model/Encode.v with numbers rendered by the formatting oracle.  Every
     string token of a decoded map is a sequence of Unicode scalar values
     (DecodeScalar / EncodeScalar / ReaderScalar), so the rendered text is one
     ([encode_text_scalar]) and `String::from_utf8` on the written bytes, as in
     `encode_to_string`, cannot fail and gives the text back
     ([encode_to_string_utf8]).  Hypothesis on the oracle: `Display` produces
     Rust `String`s, i.e. scalar values ([fmt_scalar]); that is its type.
   - `Err` can only come from the writer ([beatmap_encode_err_origin]): the
     encoder's own computation has three outcomes in the model (token stream,
     panic, out of fuel), none of which is an `io::Error`; the bytes reach the
     writer as some chunk list whose concatenation is the UTF-8 of the text
     (the exact chunking -- one write_all per `write!` argument piece -- is
     abstracted: the theorems hold for EVERY chunk list), and C09's writer
     model returns Err(k) only for a first failing write event with fault k
     (error, or Ok(0) = WriteZero) or a failing flush. *)
From RM Require Import Model.Encode Model.Render Model.Reader Model.Encoding Model.CurveDist.
From RM Require Model.DrvEnc.
From RM Require Import Proofs.EncodingFacts Proofs.ReaderFacts Proofs.C01Bytes Proofs.DecodeScalar
     Proofs.EncodeScalar Proofs.ReaderScalar Proofs.WriterOrigin.
Open Scope Z_scope.

Section Text.
  Variables (fmt_f64 : F64 -> str) (fmt_f32 : F32 -> str) (fmt_int : Z -> str).
  (* `Display` writes a Rust String *)
  Hypothesis fmt_scalar : (forall x, scalar_str (fmt_f64 x)) /\ (forall x, scalar_str (fmt_f32 x)) /\
                          (forall n, scalar_str (fmt_int n)).

  (* the text `Beatmap::encode` produces *)
  Definition rendered (toks : list tok) : str := flat_map (render_tok fmt_f64 fmt_f32 fmt_int) toks.
  (* ... and the bytes it hands to the writer *)
  Definition encoded_bytes (toks : list tok) : bytes := utf8_enc (rendered toks).

  Variable dist : Z -> list PCP -> option F64 -> outcome F64.          (* decoder's curve distance *)
  Variable dist_of : Z -> list PCP -> option F64 -> outcome F64.       (* encoder's *)
  Variable events_of : F64 -> F64 -> F64 -> F64 -> F64 -> Z -> outcome (list EncEvent).

  (* lines -> map -> text *)
  Theorem encode_text_scalar lines m toks :
    Forall scalar_str lines -> decode_beatmap dist lines = Done m ->
    encode_tokens dist_of events_of m = Done toks -> scalar_str (rendered toks).
  Proof.
    intros Hl Hd He.
    exact (decode_encode_scalar dist dist_of events_of fmt_f64 fmt_f32 fmt_int lines m toks fmt_scalar Hl Hd He).
  Qed.

  (* `String::from_utf8(bytes)` of encode_to_string: no error, and the String is the text *)
  Theorem encode_to_string_utf8 lines m toks :
    Forall scalar_str lines -> decode_beatmap dist lines = Done m ->
    encode_tokens dist_of events_of m = Done toks ->
    from_utf8 (encoded_bytes toks) = None /\
    utf8_chars (encoded_bytes toks) = rendered toks /\
    decode Utf8 (encoded_bytes toks) = Done (rendered toks).
  Proof.
    intros Hl Hd He. pose proof (encode_text_scalar lines m toks Hl Hd He) as Hs. unfold encoded_bytes.
    split; [exact (from_utf8_utf8_enc _ Hs)|].
    split; [exact (utf8_chars_utf8_enc _ Hs)|exact (utf8_roundtrip _ Hs)].
  Qed.

  (* bytes -> map -> text: the same from an in-memory buffer of u8 *)
  Theorem encode_bytes_utf8 (b : bytes) m toks :
    bytes_ok b -> decode_bytes_beatmap dist b = IoDone m ->
    encode_tokens dist_of events_of m = Done toks ->
    scalar_str (rendered toks) /\ from_utf8 (encoded_bytes toks) = None /\
    decode Utf8 (encoded_bytes toks) = Done (rendered toks).
  Proof.
    intros Hb Hd He. unfold decode_bytes_beatmap in Hd.
    destruct (read_all_lines (mk_reader b [])) as [lines|k|w|] eqn:Er; cbn [io_bind] in Hd; try discriminate.
    pose proof (read_all_lines_scalar b [] lines Hb Er) as Hl.
    destruct (decode_beatmap dist lines) as [m'|w|] eqn:Em; cbn [io_of_outcome] in Hd; try discriminate.
    inversion Hd; subst m'.
    destruct (encode_to_string_utf8 lines m toks Hl Em He) as (H1 & _ & H3).
    split; [exact (encode_text_scalar lines m toks Hl Em He)|]. split; assumption.
  Qed.

  (* ---------- Beatmap::encode into a writer ---------- *)

  (* the encoder's computation, then the writes; [ws] is how the bytes are cut
     into write_all calls *)
  Definition beatmap_encode (ws : list bytes) (o : outcome (list tok)) (w : writer) : io unit * writer :=
    match o with
    | Done _ => encode_writes ws w
    | Panic c => (IoPanic c, w)
    | OutOfFuel => (IoFuel, w)
    end.

  Definition chunking_of (toks : list tok) (ws : list bytes) : Prop := concat ws = encoded_bytes toks.

  (* an Err is the writer's *)
  Theorem beatmap_encode_err_origin ws o w k w' :
    beatmap_encode ws o w = (IoErr k, w') ->
    (exists s1 e s2, wsched w = s1 ++ e :: s2 /\ nofail s1 /\ wev_fails e = true /\ k = wfault e) \/
    flush_result w = Some k.
  Proof.
    unfold beatmap_encode. destruct o as [toks|c|]; try discriminate.
    intros H. destruct (encode_writes_err_origin ws w k w' H) as [H1|(H2 & _)]; [left; exact H1|right; exact H2].
  Qed.

  (* with a token stream: Ok or the writer's Err, nothing else; a writer that
     never fails gets exactly the UTF-8 of the text *)
  Theorem beatmap_encode_outcome ws toks w :
    chunking_of toks ws ->
    io_ok (fst (beatmap_encode ws (Done toks) w)) /\
    (nofail (wsched w) -> flush_result w = None ->
     exists w', beatmap_encode ws (Done toks) w = (IoDone tt, w')) /\
    (forall s fl, w = mkWriter s fl [] 0 -> nofail s ->
     exists w', beatmap_encode ws (Done toks) w =
                (match fl with None => IoDone tt | Some k => IoErr k end, w') /\
                accepted w' = encoded_bytes toks).
  Proof.
    intros Hc. unfold beatmap_encode. split; [apply encode_writes_ok_or_err|]. split.
    - intros F Hf. exact (encode_writes_ok_unless_writer_fails ws w F Hf).
    - intros s fl -> F. destruct (encode_writes_nofail ws s fl F) as (w' & E & A).
      exists w'. split; [exact E|]. rewrite A. exact Hc.
  Qed.
End Text.

(* SliderEventsRoundEx: the hypotheses of the binary64 rounding theorems of
   C20 hold on a concrete slider -- the crate's unit test non_even_ticks:
   start 0, span duration 1000, velocity 1, tick distance 300, length 1000,
   2 spans (3 ticks per span).  Every computation is on dumps / booleans /
   SpecFloat values, never on a term of type F64. *)
From RM Require Import Model.SliderEvents Proofs.SliderEventsFacts Proofs.SliderEventsIEEE
     Proofs.SliderEventsMono Proofs.TickBound Proofs.EncFloat
     Proofs.SliderEventsRound Proofs.SliderEventsRoundTime Proofs.SliderEventsRoundSpans
     Proofs.SliderEventsRoundStream.
From Flocq Require Import Core BinarySingleNaN.
From Coq Require Import Reals Lra Lia ZArith List.
Import ListNotations.
Open Scope R_scope.

Local Notation fin x := (is_finite x = true).

Definition exP : params F64 :=
  mkP (D.of_Z 0) (D.of_Z 1000) (D.of_Z 1) (D.of_Z 300) (D.of_Z 1000) 2.
Definition exLen : F64 := sp_len ops64 exP.
Definition exMdfe : F64 := sp_mdfe ops64 exP.

Lemma ex_len_sf : B2SF exLen = SpecFloat.S754_finite false 8796093022208000 (-43).
Proof. vm_compute. reflexivity. Qed.

Lemma ex_len_R : B2R exLen = 1000 /\ fin exLen.
Proof.
  pose proof ex_len_sf as H. destruct exLen as [s|s| |s m e Hb]; try discriminate.
  cbn in H. inversion H; subst. split; [|reflexivity]. unfold B2R, F2R. cbn. lra.
Qed.

Lemma ex_dur_R : B2R (p_dur exP) = 1000 /\ fin (p_dur exP).
Proof. apply (ofZ_R 1000). reflexivity. Qed.

Lemma ex_len_normal : pow2 (-1022) <= B2R exLen.
Proof.
  rewrite (proj1 ex_len_R). apply Rle_trans with (pow2 0); [apply bpow_le; lia | cbn; lra].
Qed.

Lemma ex_mdfe_sf : B2SF exMdfe = SpecFloat.S754_finite false 5629499534213120 (-49).
Proof. vm_compute. reflexivity. Qed.

Lemma ex_mdfe_R : B2R exMdfe = 10 /\ fin exMdfe.
Proof.
  pose proof ex_mdfe_sf as H. destruct exMdfe as [s|s| |s m e Hb]; try discriminate.
  cbn in H. inversion H; subst. split; [|reflexivity]. unfold B2R, F2R. cbn. lra.
Qed.

Lemma ex_total_not_negative : D.lt (p_total exP) D.zero = false.
Proof. vm_compute. reflexivity. Qed.

(* hypotheses of the two finiteness theorems (length, length - mdfe) *)
Lemma ex_len_hyps :
  D.lt (p_total exP) D.zero = false /\
  fin exLen /\ fin exMdfe /\ 0 <= B2R exLen /\ 0 <= B2R exMdfe.
Proof.
  destruct ex_len_R as (RL & FL). destruct ex_mdfe_R as (RM & FM).
  split; [exact ex_total_not_negative|]. split; [exact FL|]. split; [exact FM|].
  rewrite RL, RM. lra.
Qed.

(* the stream completes; its tick distances are three, and satisfy [dists_ok] *)
Lemma ex_ticks_count :
  dump_out (fun l => [Z.of_nat (length (ticks_of 0 l)); Z.of_nat (length (ticks_of 1 l))])
           (events_spec ops64 50 exP) = [0; 3; 3]%Z.
Proof. vm_compute. reflexivity. Qed.

Lemma ex_stream : exists td ds evs,
  events_spec ops64 50 exP = Done evs /\
  dists_ok ops64 exLen exMdfe td ds /\ length ds = 3%nat.
Proof.
  pose proof ex_ticks_count as H.
  destruct (events_spec ops64 50 exP) as [evs|w|] eqn:E; [|discriminate H|discriminate H].
  destruct (stream_ticks 50 exP evs E) as (td & ds & _ & _ & _ & Hok & Htk).
  exists td, ds, evs. split; [reflexivity|]. split; [apply Hok; reflexivity|].
  specialize (Htk 0%Z ltac:(cbn; lia)). change (Z.odd 0) with false in Htk. cbv iota in Htk.
  cbn [dump_out] in H. injection H as H0 _. rewrite Htk, map_length in H0. lia.
Qed.

(* no overflow anywhere: span ends, len - mdfe, both branches of the last tick *)
Lemma ex_span_end_0 : fin (D.add (sp_sst ops64 (p_start exP) (p_dur exP) 0) (p_dur exP)).
Proof. vm_compute. reflexivity. Qed.
Lemma ex_span_end_1 : fin (D.add (sp_sst ops64 (p_start exP) (p_dur exP) 1) (p_dur exP)).
Proof. vm_compute. reflexivity. Qed.
Lemma ex_sub_fin : fin (D.sub exLen exMdfe).
Proof. vm_compute. reflexivity. Qed.
Lemma ex_tail_fin : fin (ev_time (sp_tail ops64 (p_start exP) (p_dur exP) 2)).
Proof. vm_compute. reflexivity. Qed.
Lemma ex_last_tick_fin :
  fin (D.add (p_start exP) (D.div (D.mul (D.of_Z 2) (p_dur exP)) (D.of_Z 2))) /\
  fin (D.add (D.add (sp_sst ops64 (p_start exP) (p_dur exP) (2 - 1)) (p_dur exP)) (c_tail_leniency ops64)).
Proof. split; vm_compute; reflexivity. Qed.

(* all the hypotheses of the per-tick theorems at once *)
Lemma ex_hyps : exists td ds,
  fin exLen /\ pow2 (-1022) <= B2R exLen /\
  dists_ok ops64 exLen exMdfe td ds /\ (2 < length ds)%nat /\
  fin (p_dur exP) /\ 0 <= B2R (p_dur exP) /\
  fin (D.add (sp_sst ops64 (p_start exP) (p_dur exP) 0) (p_dur exP)) /\
  fin (D.add (sp_sst ops64 (p_start exP) (p_dur exP) 1) (p_dur exP)) /\
  fin (D.sub exLen exMdfe) /\ fin td /\ 0 < B2R td.
Proof.
  destruct ex_stream as (td & ds & evs & _ & Hok & Hl). exists td, ds.
  destruct ex_len_R as (RL & FL). destruct ex_dur_R as (RD & FD).
  assert (Hj : (0 < length ds)%nat) by lia.
  destruct (tick_distance_error exLen exMdfe td ds FL Hok 0%nat Hj) as (Ft & Ht & _).
  split; [exact FL|]. split; [exact ex_len_normal|]. split; [exact Hok|]. split; [lia|].
  split; [exact FD|]. split; [rewrite RD; lra|].
  split; [exact ex_span_end_0|]. split; [exact ex_span_end_1|]. split; [exact ex_sub_fin|].
  split; [exact Ft | exact Ht].
Qed.

(* the size of an ulp in a binade:  2^(e-1) <= |x| < 2^e  ==>  ulp(x) = 2^(e-53) *)
Lemma ulp64_binade (x : R) (e : Z) : (-1021 <= e)%Z -> pow2 (e - 1) <= Rabs x < pow2 e ->
  ulp64 x = pow2 (e - 53).
Proof.
  intros He Hx. unfold ulp64, pow2 in *.
  assert (Zx : x <> 0).
  { intros ->. rewrite Rabs_R0 in Hx. pose proof (bpow_gt_0 radix2 (e - 1)). lra. }
  rewrite ulp_neq_0 by exact Zx. unfold cexp. rewrite (mag_unique radix2 x e Hx).
  unfold SpecFloat.fexp, SpecFloat.emin. f_equal. lia.
Qed.

Lemma ulp64_1000 : ulp64 1000 = pow2 (-43).
Proof.
  apply (ulp64_binade 1000 10); [lia|]. rewrite Rabs_pos_eq by lra.
  unfold pow2. cbn. lra.
Qed.

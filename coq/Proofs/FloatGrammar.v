(* FloatGrammar: the decimal branch of the float parser of Model/Num.v
   ([parse_fnum]) is exactly the Rust float grammar
       sign? ( digits '.'? | digits '.' digits | '.' digits )  ( (e|E) sign? digits )?
   with mantissa = all digits read as one integer and exponent = written
   exponent (saturating as core::num::dec2flt does) minus the number of
   fraction digits. *)
From RM Require Import Model.Num Proofs.NumFacts.
From Coq Require Import ZifyBool.
Open Scope Z_scope.

Definition all_digits (ds : str) : Prop := forallb is_digit ds = true.
Definition zlen (ds : str) : Z := Z.of_nat (length ds).

(* rest of the input after a maximal run of digits *)
Definition stops (rest : str) : Prop :=
  rest = [] \/ exists c r, rest = c :: r /\ is_digit c = false.

Lemma digits_value_app a b acc : digits_value (a ++ b) acc = digits_value b (digits_value a acc).
Proof. unfold digits_value. apply fold_left_app. Qed.

Lemma take_digits_app ds : forall rest acc n,
  all_digits ds -> stops rest ->
  take_digits (ds ++ rest) acc n = (digits_value ds acc, n + zlen ds, rest).
Proof.
  unfold all_digits, zlen. induction ds as [|c r IH]; intros rest acc n Hd Hs.
  - cbn [app length digits_value fold_left Z.of_nat]. rewrite Z.add_0_r.
    destruct Hs as [->|(c & r & -> & Hc)]; cbn [take_digits]; [reflexivity|now rewrite Hc].
  - cbn [forallb] in Hd. apply andb_true_iff in Hd. destruct Hd as [Hc Hr].
    cbn [app take_digits]. rewrite Hc. rewrite (IH rest _ _ Hr Hs).
    cbn [digits_value fold_left length]. f_equal. f_equal. lia.
Qed.

Lemma take_digits_inv s : forall acc n,
  exists ds rest, s = ds ++ rest /\ all_digits ds /\ stops rest /\
                  take_digits s acc n = (digits_value ds acc, n + zlen ds, rest).
Proof.
  induction s as [|c r IH]; intros acc n.
  - exists [], []. repeat split; [now left|]. cbn. now rewrite Z.add_0_r.
  - cbn [take_digits]. destruct (is_digit c) eqn:Hc.
    + destruct (IH (10 * acc + (c - 48)) (n + 1)) as (ds & rest & -> & Hd & Hs & E).
      exists (c :: ds), rest. repeat split; auto.
      * unfold all_digits. cbn [forallb]. now rewrite Hc.
      * rewrite E. unfold zlen. cbn [digits_value fold_left length]. f_equal. f_equal. lia.
    + exists [], (c :: r). repeat split; [right; now exists c, r|]. cbn. now rewrite Z.add_0_r.
Qed.

(* exponent digits, saturating like parse_scientific *)
Definition sat_value (ds : str) (acc : Z) : Z :=
  fold_left (fun a c => if a <? 65536 then 10 * a + (c - 48) else a) ds acc.

Lemma take_exp_digits_all ds : forall acc n,
  all_digits ds -> take_exp_digits ds acc n = (sat_value ds acc, n + zlen ds, []).
Proof.
  unfold all_digits, zlen. induction ds as [|c r IH]; intros acc n Hd.
  - cbn. now rewrite Z.add_0_r.
  - cbn [forallb] in Hd. apply andb_true_iff in Hd. destruct Hd as [Hc Hr].
    cbn [take_exp_digits]. rewrite Hc, (IH _ _ Hr). cbn [sat_value fold_left length]. f_equal. f_equal. lia.
Qed.

Lemma take_exp_digits_inv s : forall acc n,
  exists ds rest, s = ds ++ rest /\ all_digits ds /\
                  take_exp_digits s acc n = (sat_value ds acc, n + zlen ds, rest).
Proof.
  induction s as [|c r IH]; intros acc n.
  - exists [], []. repeat split. cbn. now rewrite Z.add_0_r.
  - cbn [take_exp_digits]. destruct (is_digit c) eqn:Hc.
    + destruct (IH (if acc <? 65536 then 10 * acc + (c - 48) else acc) (n + 1)) as (ds & rest & -> & Hd & E).
      exists (c :: ds), rest. repeat split; auto.
      * unfold all_digits. cbn [forallb]. now rewrite Hc.
      * rewrite E. unfold zlen. cbn [sat_value fold_left length]. f_equal. f_equal. lia.
    + exists [], (c :: r). repeat split. cbn. now rewrite Z.add_0_r.
Qed.

(* the written exponent *)
Inductive exp_part : str -> Z -> Prop :=
| EP_none : exp_part [] 0
| EP_plain mark ds : mark = 101 \/ mark = 69 -> ds <> [] -> all_digits ds ->
                     exp_part (mark :: ds) (sat_value ds 0)
| EP_plus mark ds : mark = 101 \/ mark = 69 -> ds <> [] -> all_digits ds ->
                    exp_part (mark :: 43 :: ds) (sat_value ds 0)
| EP_minus mark ds : mark = 101 \/ mark = 69 -> ds <> [] -> all_digits ds ->
                     exp_part (mark :: 45 :: ds) (- sat_value ds 0).

(* sign, integer digits, optional '.' and fraction digits, optional exponent *)
Inductive decimal_literal : str -> bool -> Z -> Z -> Prop :=
| DL sign neg ip (dot : bool) fp ex eexp :
    (sign = [] /\ neg = false) \/ (sign = [43] /\ neg = false) \/ (sign = [45] /\ neg = true) ->
    all_digits ip -> all_digits fp -> (dot = false -> fp = []) ->
    0 < zlen ip + zlen fp ->
    exp_part ex eexp ->
    decimal_literal (sign ++ ip ++ (if dot then [46] else []) ++ fp ++ ex) neg
                    (digits_value (ip ++ fp) 0) (eexp - zlen fp).

Lemma exp_part_stops ex e : exp_part ex e -> stops ex /\ (forall r, ex <> 46 :: r).
Proof.
  intros H. destruct H as [|mark ds Hm _ _|mark ds Hm _ _|mark ds Hm _ _].
  - split; [now left|intros r; discriminate].
  - split; [right; eexists; eexists; split; [reflexivity|destruct Hm as [->| ->]; reflexivity]
           |intros r E; inversion E; subst; destruct Hm; discriminate].
  - split; [right; eexists; eexists; split; [reflexivity|destruct Hm as [->| ->]; reflexivity]
           |intros r E; inversion E; subst; destruct Hm; discriminate].
  - split; [right; eexists; eexists; split; [reflexivity|destruct Hm as [->| ->]; reflexivity]
           |intros r E; inversion E; subst; destruct Hm; discriminate].
Qed.

Lemma digit_facts c : is_digit c = true ->
  (c =? 45) = false /\ (c =? 43) = false /\ (c =? 46) = false /\ (c =? 101) = false /\ (c =? 69) = false.
Proof. unfold is_digit. lia. Qed.

Definition frac_step (m1 : Z) (s1 : str) : Z * Z * str :=
  match s1 with
  | 46 :: s1' => take_digits s1' m1 0
  | _ => (m1, 0, s1)
  end.
Definition exp_sign (s3 : str) : bool * str :=
  match s3 with
  | 45 :: t => (true, t)
  | 43 :: t => (false, t)
  | _ => (false, s3)
  end.

(* the part of parse_fnum after the sign *)
Definition parse_body (neg : bool) (body : str) : option (bool * fnum) :=
  let '(m1, n1, s1) := take_digits body 0 0 in
  let '(m2, n2, s2) := frac_step m1 s1 in
  if (n1 + n2 =? 0) then
    let u := map upper body in
    if str_eqb u (lit "INF") || str_eqb u (lit "INFINITY") then Some (neg, FInf)
    else if str_eqb u (lit "NAN") then Some (neg, FNan)
    else None
  else
    match s2 with
    | [] => Some (neg, FDec m2 (- n2))
    | c2 :: s3 =>
        if (c2 =? 101) || (c2 =? 69) then
          let '(eneg, s4) := exp_sign s3 in
          let '(ev, en, s5) := take_exp_digits s4 0 0 in
          if en =? 0 then None
          else match s5 with
               | [] => Some (neg, FDec m2 ((if eneg then - ev else ev) - n2))
               | _ => None
               end
        else None
    end.

Lemma parse_fnum_body s :
  parse_fnum s = match s with
                 | [] => None
                 | c :: r =>
                     let neg := c =? 45 in
                     let body := if neg || (c =? 43) then r else s in
                     match body with [] => None | _ => parse_body neg body end
                 end.
Proof. destruct s as [|c r]; reflexivity. Qed.

Lemma zlen_nonneg ds : 0 <= zlen ds. Proof. unfold zlen. lia. Qed.
Lemma zlen_zero ds : zlen ds = 0 -> ds = [].
Proof. unfold zlen. destruct ds; cbn; [reflexivity|lia]. Qed.

(* body of a decimal literal -> parse_body computes it *)
Lemma parse_body_complete neg ip (dot : bool) fp ex eexp :
  all_digits ip -> all_digits fp -> (dot = false -> fp = []) -> 0 < zlen ip + zlen fp ->
  exp_part ex eexp ->
  parse_body neg (ip ++ (if dot then [46] else []) ++ fp ++ ex)
  = Some (neg, FDec (digits_value (ip ++ fp) 0) (eexp - zlen fp)).
Proof.
  intros Hi Hf Hdot Hlen Hex. destruct (exp_part_stops _ _ Hex) as [Hst Hnd].
  unfold parse_body.
  assert (S1 : stops ((if dot then [46] else []) ++ fp ++ ex)).
  { destruct dot; [right; exists 46, (fp ++ ex); split; reflexivity|]. rewrite (Hdot eq_refl). exact Hst. }
  rewrite (take_digits_app ip _ 0 0 Hi S1).
  assert (E2 : frac_step (digits_value ip 0) ((if dot then [46] else []) ++ fp ++ ex)
               = (digits_value (ip ++ fp) 0, zlen fp, ex)).
  { unfold frac_step. destruct dot.
    - cbn [app]. rewrite (take_digits_app fp ex _ 0 Hf Hst), digits_value_app. reflexivity.
    - rewrite (Hdot eq_refl). cbn [app]. rewrite app_nil_r. unfold zlen. cbn [length Z.of_nat].
      destruct ex as [|c r]; [reflexivity|].
      destruct (Z.eq_dec c 46) as [->|Hne]; [exfalso; exact (Hnd r eq_refl)|].
      destruct c as [|p|p]; try reflexivity.
      repeat (destruct p as [p|p|]; try reflexivity). exfalso; now apply Hne. }
  cbv beta iota zeta. rewrite E2. cbv beta iota zeta. rewrite Z.add_0_l.
  replace (zlen ip + zlen fp =? 0) with false by lia.
  destruct Hex as [|mark ds Hm Hne Hd|mark ds Hm Hne Hd|mark ds Hm Hne Hd].
  - repeat f_equal; lia.
  - replace ((mark =? 101) || (mark =? 69)) with true by lia.
    destruct ds as [|d ds']; [congruence|].
    assert (Hdd : is_digit d = true) by (unfold all_digits in Hd; cbn in Hd; lia).
    destruct (digit_facts d Hdd) as (N45 & N43 & _).
    assert (Em : exp_sign (d :: ds') = (false, d :: ds')).
    { unfold exp_sign. destruct d as [|p|p]; try reflexivity. repeat (destruct p as [p|p|]; try reflexivity); cbn in N45, N43; discriminate. }
    rewrite Em. cbv beta iota zeta. rewrite (take_exp_digits_all _ 0 0 Hd). rewrite Z.add_0_l.
    replace (zlen (d :: ds') =? 0) with false by (unfold zlen; cbn [length]; lia). reflexivity.
  - replace ((mark =? 101) || (mark =? 69)) with true by lia.
    change (exp_sign (43 :: ds)) with (false, ds). cbv beta iota zeta.
    rewrite (take_exp_digits_all _ 0 0 Hd). rewrite Z.add_0_l.
    replace (zlen ds =? 0) with false by (destruct ds; [congruence|unfold zlen; cbn [length]; lia]). reflexivity.
  - replace ((mark =? 101) || (mark =? 69)) with true by lia.
    change (exp_sign (45 :: ds)) with (true, ds). cbv beta iota zeta.
    rewrite (take_exp_digits_all _ 0 0 Hd). rewrite Z.add_0_l.
    replace (zlen ds =? 0) with false by (destruct ds; [congruence|unfold zlen; cbn [length]; lia]). reflexivity.
Qed.

(* parse_body returning a decimal -> the body has the shape *)
Lemma parse_body_sound neg body neg' m e :
  parse_body neg body = Some (neg', FDec m e) ->
  neg' = neg /\
  exists ip (dot : bool) fp ex eexp,
    body = ip ++ (if dot then [46] else []) ++ fp ++ ex /\
    all_digits ip /\ all_digits fp /\ (dot = false -> fp = []) /\ 0 < zlen ip + zlen fp /\
    exp_part ex eexp /\ m = digits_value (ip ++ fp) 0 /\ e = eexp - zlen fp.
Proof.
  unfold parse_body.
  destruct (take_digits_inv body 0 0) as (ip & s1 & -> & Hi & Hs1 & ->).
  rewrite Z.add_0_l.
  assert (Hcase : exists (dot : bool) fp s2,
             s1 = (if dot then [46] else []) ++ fp ++ s2 /\ all_digits fp /\ (dot = false -> fp = []) /\
             (dot = false -> forall r, s2 <> 46 :: r) /\
             frac_step (digits_value ip 0) s1 = (digits_value (ip ++ fp) 0, zlen fp, s2)).
  { unfold frac_step. destruct s1 as [|c r].
    - exists false, [], []. repeat split; auto; try discriminate. now rewrite app_nil_r.
    - destruct (Z.eq_dec c 46) as [->|Hne].
      + destruct (take_digits_inv r (digits_value ip 0) 0) as (fp & s2 & -> & Hf & _ & E).
        exists true, fp, s2. repeat split; auto; try discriminate.
        rewrite E, digits_value_app. now rewrite Z.add_0_l.
      + exists false, [], (c :: r). repeat split; auto.
        * intros _ r' H. inversion H. contradiction.
        * rewrite app_nil_r. unfold zlen. cbn [length Z.of_nat].
          destruct c as [|p|p]; try reflexivity.
          repeat (destruct p as [p|p|]; try reflexivity). exfalso; now apply Hne. }
  destruct Hcase as (dot & fp & s2 & -> & Hf & Hdot & Hnd & ->).
  destruct (zlen ip + zlen fp =? 0) eqn:En.
  { destruct (_ || _); [discriminate|]. destruct (str_eqb _ _); discriminate. }
  assert (Hlen : 0 < zlen ip + zlen fp) by (pose proof (zlen_nonneg ip); pose proof (zlen_nonneg fp); lia).
  destruct s2 as [|c2 s3].
  - intros [= <- <- <-]. split; [reflexivity|].
    exists ip, dot, fp, [], 0. repeat split; auto; try constructor; try lia.
  - destruct ((c2 =? 101) || (c2 =? 69)) eqn:Em; [|discriminate].
    assert (Hm : c2 = 101 \/ c2 = 69) by lia.
    assert (Hsplit : exists esign eneg s4,
               s3 = esign ++ s4 /\
               ((esign = [] /\ eneg = false /\ (forall t, s4 <> 45 :: t) /\ (forall t, s4 <> 43 :: t))
                \/ (esign = [43] /\ eneg = false) \/ (esign = [45] /\ eneg = true)) /\
               exp_sign s3 = (eneg, s4)).
    { unfold exp_sign. destruct s3 as [|d t].
      - exists [], false, []. repeat split; auto. left. repeat split; intros; discriminate.
      - destruct (Z.eq_dec d 45) as [->|N45]; [exists [45], true, t; repeat split; auto|].
        destruct (Z.eq_dec d 43) as [->|N43]; [exists [43], false, t; repeat split; auto|].
        exists [], false, (d :: t). repeat split; auto.
        + left. repeat split; intros t' H; inversion H; contradiction.
        + destruct d as [|p|p]; try reflexivity.
          repeat (destruct p as [p|p|]; try reflexivity); exfalso; (now apply N45) || (now apply N43). }
    destruct Hsplit as (esign & eneg & s4 & -> & Hes & ->).
    destruct (take_exp_digits_inv s4 0 0) as (ds & s5 & -> & Hd & ->).
    rewrite Z.add_0_l. destruct (zlen ds =? 0) eqn:Ed; [discriminate|].
    assert (Hne : ds <> []) by (intros ->; unfold zlen in Ed; cbn in Ed; discriminate).
    destruct s5 as [|x s5']; [|discriminate].
    rewrite app_nil_r in *.
    intros [= <- <- <-]. split; [reflexivity|].
    destruct Hes as [(-> & -> & _)|[(-> & ->)|(-> & ->)]].
    + exists ip, dot, fp, (c2 :: ds), (sat_value ds 0). repeat split; auto. now apply EP_plain.
    + exists ip, dot, fp, (c2 :: 43 :: ds), (sat_value ds 0). repeat split; auto. now apply EP_plus.
    + exists ip, dot, fp, (c2 :: 45 :: ds), (- sat_value ds 0). repeat split; auto. now apply EP_minus.
Qed.

(* T11c, grammar part: the decimal branch of the float parser IS the grammar *)
Theorem parse_fnum_decimal_iff s neg m e :
  parse_fnum s = Some (neg, FDec m e) <-> decimal_literal s neg m e.
Proof.
  rewrite parse_fnum_body. split.
  - destruct s as [|c r]; [discriminate|]. cbv zeta.
    destruct (c =? 45) eqn:E45; cbn [orb].
    + assert (c = 45) by lia; subst c. destruct r as [|d r']; [discriminate|].
      intros H. apply parse_body_sound in H.
      destruct H as (-> & ip & dot & fp & ex & eexp & Hb & Hi & Hf & Hdot & Hlen & Hex & -> & ->).
      change (45 :: d :: r') with ([45] ++ d :: r'). rewrite Hb.
      apply DL; auto.
    + destruct (c =? 43) eqn:E43.
      * assert (c = 43) by lia; subst c. destruct r as [|d r']; [discriminate|].
        intros H. apply parse_body_sound in H.
        destruct H as (-> & ip & dot & fp & ex & eexp & Hb & Hi & Hf & Hdot & Hlen & Hex & -> & ->).
        change (43 :: d :: r') with ([43] ++ d :: r'). rewrite Hb.
        apply DL; auto.
      * intros H. apply parse_body_sound in H.
        destruct H as (-> & ip & dot & fp & ex & eexp & Hb & Hi & Hf & Hdot & Hlen & Hex & -> & ->).
        rewrite Hb. change (ip ++ (if dot then [46] else []) ++ fp ++ ex)
          with ([] ++ ip ++ (if dot then [46] else []) ++ fp ++ ex).
        apply DL; auto.
  - intros H. destruct H as [sign neg ip dot fp ex eexp Hs Hi Hf Hdot Hlen Hex].
    pose proof (parse_body_complete neg ip dot fp ex eexp Hi Hf Hdot Hlen Hex) as Hc.
    assert (Hne : ip ++ (if dot then [46] else []) ++ fp ++ ex <> []).
    { destruct ip as [|a ip']; [|discriminate]. destruct dot; [discriminate|].
      rewrite (Hdot eq_refl) in Hlen. unfold zlen in Hlen. cbn in Hlen. lia. }
    destruct Hs as [(-> & ->)|[(-> & ->)|(-> & ->)]].
    + cbn [app]. destruct (ip ++ (if dot then [46] else []) ++ fp ++ ex) as [|c r] eqn:Eb; [congruence|].
      assert (Hc1 : (c =? 45) = false /\ (c =? 43) = false).
      { destruct ip as [|a ip'].
        - destruct dot.
          + cbn in Eb. inversion Eb; subst. split; reflexivity.
          + rewrite (Hdot eq_refl) in Hlen. unfold zlen in Hlen. cbn in Hlen. lia.
        - cbn in Eb. inversion Eb; subst.
          assert (Ha : is_digit c = true) by (unfold all_digits in Hi; cbn in Hi; lia).
          destruct (digit_facts c Ha) as (A & B & _). split; assumption. }
      destruct Hc1 as [-> ->]. cbn [orb]. exact Hc.
    + cbn [app Z.eqb Pos.eqb orb].
      destruct (ip ++ (if dot then [46] else []) ++ fp ++ ex) as [|c r] eqn:Eb; [congruence|]. exact Hc.
    + cbn [app Z.eqb Pos.eqb orb].
      destruct (ip ++ (if dot then [46] else []) ++ fp ++ ex) as [|c r] eqn:Eb; [congruence|]. exact Hc.
Qed.

(* ---------- T11c for the float types, grammar and limit together ---------- *)

Theorem pn_f64_accepts_iff s x :
  pn_f64 s = Some x <->
  exists neg m e,
    decimal_literal (trim s) neg m e /\
    x = fnum_to_float 53 1024 Hp64 He64 neg (FDec m e) (length (trim s)) /\
    D.is_nan x = false /\ D.le (D.neg f64_limit) x = true /\ D.le x f64_limit = true.
Proof.
  split.
  - intros H. destruct (pn_f64_decimal _ _ H) as (neg & m & e & Hp).
    apply pn_f64_spec in H. destruct H as (Hr & Hn & H1 & H2).
    exists neg, m, e. repeat split; auto.
    + now apply parse_fnum_decimal_iff.
    + unfold parse_f64_raw in Hr. rewrite Hp in Hr. now inversion Hr.
  - intros (neg & m & e & Hl & -> & Hn & H1 & H2).
    apply pn_f64_spec. repeat split; auto.
    unfold parse_f64_raw. apply parse_fnum_decimal_iff in Hl. now rewrite Hl.
Qed.

Theorem pn_f32_accepts_iff s x :
  pn_f32 s = Some x <->
  exists neg m e,
    decimal_literal (trim s) neg m e /\
    x = fnum_to_float 24 128 Hp32 He32 neg (FDec m e) (length (trim s)) /\
    S.is_nan x = false /\ S.le (S.neg f32_limit) x = true /\ S.le x f32_limit = true.
Proof.
  split.
  - intros H. destruct (pn_f32_decimal _ _ H) as (neg & m & e & Hp).
    apply pn_f32_spec in H. destruct H as (Hr & Hn & H1 & H2).
    exists neg, m, e. repeat split; auto.
    + now apply parse_fnum_decimal_iff.
    + unfold parse_f32_raw in Hr. rewrite Hp in Hr. now inversion Hr.
  - intros (neg & m & e & Hl & -> & Hn & H1 & H2).
    apply pn_f32_spec. repeat split; auto.
    unfold parse_f32_raw. apply parse_fnum_decimal_iff in Hl. now rewrite Hl.
Qed.

(* EncCollect: T02d (a) -- what `collect_samples` (encode.rs) does to the control points.
     - for EVERY map: only sample points are added; the timing, difficulty and effect
       lists are those of the map ([collect_samples_frame]);
     - on sorted control points (C13: every decoded map) it cannot panic and the result
       is sorted; every sample point of the result is one of the map or a collected one;
     - for the class [objects_plain] (every sample of every object and slider node has
       volume 100 and custom index 0) every collected point is SamplePoint::default()
       up to its time, all but the earliest are skipped as redundant, hence AT MOST ONE
       sample point is added: the earliest collected one ([collect_samples_plain]),
       and none when the sample point active there is already (Normal, 100, 0). *)
From RM Require Import Model.EncTimingSpec Proofs.BSearch Proofs.ControlPointsFacts Proofs.MapLevelFacts.
From RM Require Import Gen.Generated.
From Coq Require Import Sorting.Sorted Sorting.Permutation.
From Coq Require Import ZifyBool.
Open Scope Z_scope.

(* ---------- add_sample only touches the sample list ---------- *)

Definition same_tde (c c' : ControlPoints) : Prop :=
  cp_timing c' = cp_timing c /\ cp_difficulty c' = cp_difficulty c /\ cp_effect c' = cp_effect c.

Lemma same_tde_refl c : same_tde c c.
Proof. repeat split. Qed.
Lemma same_tde_trans a b c : same_tde a b -> same_tde b c -> same_tde a c.
Proof. intros (A1 & A2 & A3) (B1 & B2 & B3). repeat split; congruence. Qed.

Lemma add_sample_frame c s c' : add_sample c s = Done c' -> same_tde c c'.
Proof.
  unfold add_sample. destruct (at_opt sp_time (cp_sample c) (sp_time s)) as [ex| |]; cbn [obind]; try discriminate.
  destruct (match ex with Some e => sp_redundant s e | None => false end).
  - intros H; inversion H; subst. apply same_tde_refl.
  - destruct (put sp_time (cp_sample c) s) as [l| |]; cbn [obind]; try discriminate.
    intros H; inversion H; subst. repeat split.
Qed.

Section Enc.
  Variable dist_of : Z -> list PCP -> option F64 -> outcome F64.
  Variable events_of : F64 -> F64 -> F64 -> F64 -> F64 -> Z -> outcome (list EncEvent).
  Notation collect_samples := (collect_samples dist_of events_of).
  Notation all_object_samples := (all_object_samples dist_of events_of).
  Notation object_samples := (object_samples dist_of events_of).

  Lemma add_collected_frame l : forall c last c',
    add_collected c last l = Done c' -> same_tde c c'.
  Proof.
    induction l as [|s r IH]; intros c last c' H; cbn [add_collected] in H.
    - inversion H; subst. apply same_tde_refl.
    - destruct (sp_redundant s last); [exact (IH _ _ _ H)|].
      destruct (add_sample c s) as [c1| |] eqn:E; cbn [obind] in H; try discriminate.
      exact (same_tde_trans _ _ _ (add_sample_frame _ _ _ E) (IH _ _ _ H)).
  Qed.

  (* the shape of collect_samples: the collected list, sorted, then the adds *)
  Definition collected_adds (c0 : ControlPoints) (sorted : list SamplePoint) : outcome ControlPoints :=
    match sorted with
    | [] => Done c0
    | s :: r => obind (add_sample c0 s) (fun c1 => add_collected c1 s r)
    end.

  Lemma collect_samples_eq mode version tick mult c0 objs :
    collect_samples mode version tick mult c0 objs =
    obind (all_object_samples mode version tick mult c0 objs) (fun collected =>
    collected_adds c0 (ssort sp_key collected)).
  Proof. reflexivity. Qed.

  (* T02d (a), first lemma: for EVERY map, collect_samples leaves the timing, difficulty and
     effect lists alone *)
  Theorem collect_samples_frame mode version tick mult c0 objs c :
    collect_samples mode version tick mult c0 objs = Done c ->
    cp_timing c = cp_timing c0 /\ cp_difficulty c = cp_difficulty c0 /\ cp_effect c = cp_effect c0.
  Proof.
    rewrite collect_samples_eq.
    destruct (all_object_samples mode version tick mult c0 objs) as [col| |]; cbn [obind]; try discriminate.
    unfold collected_adds. destruct (ssort sp_key col) as [|s r].
    - intros H; inversion H; subst. repeat split.
    - destruct (add_sample c0 s) as [c1| |] eqn:E; cbn [obind]; try discriminate.
      intros H. exact (same_tde_trans _ _ _ (add_sample_frame _ _ _ E) (add_collected_frame _ _ _ _ H)).
  Qed.

  (* ---------- on sorted control points: no panic, sorted, where the points come from ---------- *)

  Definition sample_from (c0 : ControlPoints) (extra : list SamplePoint) (c : ControlPoints) : Prop :=
    forall p, In p (cp_sample c) -> In p (cp_sample c0) \/ In p extra.

  Lemma In_mid_cases {A} (l l1 l2 : list A) (p x : A) (R : A -> Prop) :
    (l = l1 ++ l2 \/ exists q, l = l1 ++ q :: l2 /\ R q) ->
    In x (l1 ++ p :: l2) -> x = p \/ In x l.
  Proof.
    intros Hl Hx. apply in_app_or in Hx. destruct Hx as [Hx|[Hx|Hx]]; [|left; auto|].
    - right. destruct Hl as [->|(q & -> & _)]; apply in_or_app; auto.
    - right. destruct Hl as [->|(q & -> & _)]; apply in_or_app; right; [exact Hx | right; exact Hx].
  Qed.

  Lemma add_sample_sorted c s : cp_sorted c ->
    exists c', add_sample c s = Done c' /\ cp_sorted c' /\
               (forall p, In p (cp_sample c') -> p = s \/ In p (cp_sample c)).
  Proof.
    intros Hc. pose proof (add_sample_spec c s Hc) as H.
    destruct (match last_not_after sp_time (cp_sample c) (sp_time s) with
              | Some e => sp_redundant s e | None => false end).
    - exists c. split; [exact H|]. split; [exact Hc|]. auto.
    - destruct H as (l1 & l2 & E & H1 & H2 & Hl).
      destruct (cp_step_sorted c (OpAddS s) Hc) as (c' & E' & Hs'). cbn [cp_step] in E'.
      rewrite E in E'. inversion E'; subst c'. eexists. split; [exact E|]. split; [exact Hs'|].
      cbn [cp_sample]. intros p Hp. exact (In_mid_cases _ _ _ _ _ _ Hl Hp).
  Qed.

  Lemma add_collected_sorted l : forall c last, cp_sorted c ->
    exists c', add_collected c last l = Done c' /\ cp_sorted c' /\
               (forall p, In p (cp_sample c') -> In p (cp_sample c) \/ In p l).
  Proof.
    induction l as [|s r IH]; intros c last Hc; cbn [add_collected].
    - exists c. split; [reflexivity|]. split; [exact Hc|]. intros p Hp. left. exact Hp.
    - destruct (sp_redundant s last).
      + destruct (IH c last Hc) as (c' & E & Hs & Hin). exists c'. split; [exact E|]. split; [exact Hs|].
        intros p Hp. destruct (Hin p Hp); [left|right; right]; assumption.
      + destruct (add_sample_sorted c s Hc) as (c1 & E1 & Hs1 & Hin1). rewrite E1. cbn [obind].
        destruct (IH c1 s Hs1) as (c' & E & Hs & Hin). exists c'. split; [exact E|]. split; [exact Hs|].
        intros p Hp. destruct (Hin p Hp) as [H|H]; [|right; right; exact H].
        destruct (Hin1 p H) as [->|H']; [right; left; reflexivity | left; exact H'].
  Qed.

  Lemma collected_adds_sorted c0 sorted : cp_sorted c0 ->
    exists c, collected_adds c0 sorted = Done c /\ cp_sorted c /\ sample_from c0 sorted c.
  Proof.
    intros Hc. destruct sorted as [|s r]; cbn [collected_adds].
    - exists c0. split; [reflexivity|]. split; [exact Hc|]. intros p Hp. left. exact Hp.
    - destruct (add_sample_sorted c0 s Hc) as (c1 & E1 & Hs1 & Hin1). rewrite E1. cbn [obind].
      destruct (add_collected_sorted r c1 s Hs1) as (c & E & Hs & Hin). exists c. split; [exact E|]. split; [exact Hs|].
      intros p Hp. destruct (Hin p Hp) as [H|H]; [|right; right; exact H].
      destruct (Hin1 p H) as [->|H']; [right; left; reflexivity | left; exact H'].
  Qed.

  (* the only way collect_samples can fail on a sorted collection is inside the slider
     computations of all_object_samples (curve distance / event iterator) *)
  Theorem collect_samples_sorted mode version tick mult c0 objs collected :
    cp_sorted c0 -> all_object_samples mode version tick mult c0 objs = Done collected ->
    exists c, collect_samples mode version tick mult c0 objs = Done c /\ cp_sorted c /\
              sample_from c0 collected c.
  Proof.
    intros Hc Hcol. rewrite collect_samples_eq, Hcol. cbn [obind].
    destruct (collected_adds_sorted c0 (ssort sp_key collected) Hc) as (c & E & Hs & Hin).
    exists c. split; [exact E|]. split; [exact Hs|]. intros p Hp. destruct (Hin p Hp) as [H|H]; [left; exact H|right].
    exact (Permutation_in p (ssort_perm sp_key collected) H).
  Qed.

  (* ---------- the plain class ---------- *)

  Lemma zmax_list_const (f : HitSampleInfo -> Z) v first rest :
    f first = v -> Forall (fun s => f s = v) rest -> zmax_list f first rest = v.
  Proof.
    unfold zmax_list. intros H1 H2. rewrite H1. clear H1. induction H2 as [|s r Hs _ IH]; cbn [fold_left]; [reflexivity|].
    rewrite Hs, Z.max_id. exact IH.
  Qed.

  Lemma collect_sample_plain samples t :
    forallb sample_plain samples = true -> forallb sp_plain (collect_sample samples t) = true.
  Proof.
    destruct samples as [|s r]; [reflexivity|]. cbn [collect_sample forallb]. intros H.
    apply andb_true_iff in H. destruct H as (Hs & Hr). rewrite forallb_forall in Hr.
    unfold sample_plain in Hs. apply andb_true_iff in Hs. destruct Hs as (Hv & Hc).
    unfold sp_plain. cbn [sp_bank sp_vol sp_custom].
    rewrite (zmax_list_const hs_volume (sp_vol dflt_sp)), (zmax_list_const hs_custom (sp_custom dflt_sp)).
    - rewrite !Z.eqb_refl. reflexivity.
    - lia.
    - apply Forall_forall. intros x Hx. specialize (Hr x Hx). unfold sample_plain in Hr. lia.
    - lia.
    - apply Forall_forall. intros x Hx. specialize (Hr x Hx). unfold sample_plain in Hr. lia.
  Qed.

  Lemma forallb_app_true {A} (p : A -> bool) a b :
    forallb p a = true -> forallb p b = true -> forallb p (a ++ b) = true.
  Proof. intros. rewrite forallb_app. apply andb_true_iff. auto. Qed.

  Lemma node_or_plain nodes i dflt :
    forallb (forallb sample_plain) nodes = true -> forallb sample_plain dflt = true ->
    forallb sample_plain (node_or nodes i dflt) = true.
  Proof.
    intros Hn Hd. unfold node_or. destruct (i <? 0); [exact Hd|].
    destruct (nth_error nodes (Z.to_nat i)) as [l|] eqn:E; [|exact Hd].
    rewrite forallb_forall in Hn. apply Hn. exact (nth_error_In _ _ E).
  Qed.

  Lemma osu_event_samples_plain s hs e :
    forallb (forallb sample_plain) (sl_node_samples s) = true -> forallb sample_plain hs = true ->
    forallb sp_plain (osu_event_samples s hs e) = true.
  Proof.
    intros Hn Hd. unfold osu_event_samples.
    destruct (ee_kind e =? evk_head); [apply collect_sample_plain, node_or_plain; assumption|].
    destruct (ee_kind e =? evk_repeat); [apply collect_sample_plain, node_or_plain; assumption|].
    destruct (ee_kind e =? evk_tail); [apply collect_sample_plain, node_or_plain; assumption|].
    reflexivity.
  Qed.

  Lemma catch_event_samples_plain s hs evs :
    forallb (forallb sample_plain) (sl_node_samples s) = true -> forallb sample_plain hs = true ->
    forall i, forallb sp_plain (catch_event_samples s hs i evs) = true.
  Proof.
    intros Hn Hd. induction evs as [|e r IH]; intros i; cbn [catch_event_samples]; [reflexivity|].
    destruct ((ee_kind e =? evk_head) || (ee_kind e =? evk_repeat) || (ee_kind e =? evk_tail)); [|apply IH].
    apply forallb_app_true; [apply collect_sample_plain, node_or_plain; assumption | apply IH].
  Qed.

  Lemma flat_map_plain {A} (f : A -> list SamplePoint) l :
    (forall x, forallb sp_plain (f x) = true) -> forallb sp_plain (flat_map f l) = true.
  Proof.
    intros H. induction l as [|x r IH]; [reflexivity|]. cbn [flat_map]. apply forallb_app_true; auto.
  Qed.

  Lemma object_samples_plain mode version tick mult c h l :
    object_plain h = true -> object_samples mode version tick mult c h = Done l ->
    forallb sp_plain l = true.
  Proof.
    unfold object_plain, object_samples. intros Hp.
    apply andb_true_iff in Hp. destruct Hp as (Hs & Hn).
    destruct (end_time dist_of h) as [et| |]; cbn [obind]; try discriminate.
    pose proof (collect_sample_plain (h_samples h) et Hs) as Hown.
    pose proof (collect_sample_plain (h_samples h) (h_start h) Hs) as Hst.
    destruct (h_kind h) as [ci|s|sp|hd].
    - intros H; inversion H; subst. exact Hown.
    - destruct (mode =? 0).
      { destruct (slider_events _ _ _ _ _ _ _) as [evs| |]; cbn [obind]; try discriminate.
        intros H; inversion H; subst. apply forallb_app_true; [exact Hown|].
        apply flat_map_plain. intros e. apply osu_event_samples_plain; assumption. }
      destruct (mode =? 1); [intros H; inversion H; subst; exact Hown|].
      destruct (mode =? 2).
      { destruct (juicestream_events _ _ _ _ _ _ _ _) as [evs| |]; cbn [obind]; try discriminate.
        intros H; inversion H; subst. apply forallb_app_true; [exact Hown|].
        apply catch_event_samples_plain; assumption. }
      intros H; inversion H; subst. apply forallb_app_true; assumption.
    - intros H; inversion H; subst. exact Hown.
    - intros H; inversion H; subst. apply forallb_app_true; assumption.
  Qed.

  (* every collected point of a plain object list is SamplePoint::default() up to its time *)
  Lemma all_object_samples_plain mode version tick mult c objs : forall l,
    objects_plain objs = true -> all_object_samples mode version tick mult c objs = Done l ->
    forallb sp_plain l = true.
  Proof.
    induction objs as [|h r IH]; intros l Hp H; cbn [all_object_samples] in H.
    - inversion H; subst. reflexivity.
    - cbn [objects_plain forallb] in Hp. apply andb_true_iff in Hp. destruct Hp as (Hh & Hr).
      destruct (object_samples mode version tick mult c h) as [x| |] eqn:Ex; cbn [obind] in H; try discriminate.
      destruct (all_object_samples mode version tick mult c r) as [xs| |] eqn:Exs; cbn [obind] in H; try discriminate.
      inversion H; subst. apply forallb_app_true; [exact (object_samples_plain _ _ _ _ _ _ _ Hh Ex) | exact (IH _ Hr eq_refl)].
  Qed.

  Lemma sp_plain_redundant a b : sp_plain a = true -> sp_plain b = true -> sp_redundant a b = true.
  Proof. unfold sp_plain, sp_redundant. lia. Qed.

  (* plain points after a plain one are all skipped *)
  Lemma add_collected_plain l : forall c last,
    sp_plain last = true -> forallb sp_plain l = true -> add_collected c last l = Done c.
  Proof.
    induction l as [|s r IH]; intros c last Hl H; cbn [add_collected]; [reflexivity|].
    cbn [forallb] in H. apply andb_true_iff in H. destruct H as (Hs & Hr).
    rewrite (sp_plain_redundant _ _ Hs Hl). apply IH; assumption.
  Qed.

  Lemma forallb_perm {A} (p : A -> bool) l l' : Permutation l l' -> forallb p l = true -> forallb p l' = true.
  Proof.
    intros HP H. rewrite forallb_forall in *. intros x Hx. apply H. exact (Permutation_in x (Permutation_sym HP) Hx).
  Qed.

  (* T02d (a), the plain class: at most ONE sample point is added -- the earliest collected
     one, plain, through a single `add`; nothing at all when no object has samples *)
  Theorem collect_samples_plain mode version tick mult c0 objs collected :
    objects_plain objs = true -> all_object_samples mode version tick mult c0 objs = Done collected ->
    forallb sp_plain collected = true /\
    collect_samples mode version tick mult c0 objs =
      match ssort sp_key collected with
      | [] => Done c0
      | s :: _ => add_sample c0 s          (* s: plain, with the least time key *)
      end.
  Proof.
    intros Hp Hcol. pose proof (all_object_samples_plain _ _ _ _ _ _ _ Hp Hcol) as Hpl. split; [exact Hpl|].
    rewrite collect_samples_eq, Hcol. cbn [obind]. unfold collected_adds.
    pose proof (forallb_perm sp_plain _ _ (Permutation_sym (ssort_perm sp_key collected)) Hpl) as Hs.
    destruct (ssort sp_key collected) as [|s r]; [reflexivity|].
    cbn [forallb] in Hs. apply andb_true_iff in Hs. destruct Hs as (Hs & Hr).
    destruct (add_sample c0 s) as [c1| |]; cbn [obind]; try reflexivity.
    apply add_collected_plain; assumption.
  Qed.

  (* ... and that one add changes nothing when the sample point active at its time is
     already (Normal, 100, 0): then the encoder works on the map's own control points *)
  Theorem collect_samples_plain_unchanged mode version tick mult c0 objs collected :
    cp_sorted c0 -> objects_plain objs = true ->
    all_object_samples mode version tick mult c0 objs = Done collected ->
    (forall s, hd_error (ssort sp_key collected) = Some s ->
               exists e, last_not_after sp_time (cp_sample c0) (sp_time s) = Some e /\ sp_plain e = true) ->
    collect_samples mode version tick mult c0 objs = Done c0.
  Proof.
    intros Hc Hp Hcol Hact.
    destruct (collect_samples_plain _ _ _ _ _ _ _ Hp Hcol) as (Hpl & ->).
    pose proof (forallb_perm sp_plain _ _ (Permutation_sym (ssort_perm sp_key collected)) Hpl) as Hs.
    destruct (ssort sp_key collected) as [|s r]; [reflexivity|].
    cbn [forallb] in Hs. apply andb_true_iff in Hs. destruct Hs as (Hs & _).
    destruct (Hact s eq_refl) as (e & He & Hpe).
    destruct Hc as (_ & _ & _ & Hss). unfold add_sample.
    rewrite (at_opt_spec sp_time _ _ Hss), He. cbn [obind].
    rewrite (sp_plain_redundant _ _ Hs Hpe). reflexivity.
  Qed.
End Enc.

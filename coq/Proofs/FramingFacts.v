(* FramingFacts: the driver of Model/Framing.v refines the one-pass
   specification [frame_spec]; consequences (blank / comment insertion,
   unrecognised bracketed lines, repeated sections, results of parsers);
   the line-splitting facts; and the two generic lemmas on which C06 / C07
   stack (deleting a rejected line, simulation between two decoders). *)
From RM Require Import Model.Framing Gen.Generated.
From Coq Require Import ZifyBool.
Open Scope Z_scope.

(* ------------------------------------------------------------------ *)
(* text                                                                *)

Lemma trim_start_ws_app : forall w x,
  Forall (fun c => is_ws c = true) w -> trim_start (w ++ x) = trim_start x.
Proof.
  induction w as [|c w IH]; intros x Hw; [reflexivity|].
  inversion Hw as [|? ? Hc Hw']; subst. cbn [app trim_start]. rewrite Hc. auto.
Qed.

Lemma trim_start_idem : forall s, trim_start (trim_start s) = trim_start s.
Proof.
  induction s as [|c r IH]; [reflexivity|].
  cbn [trim_start]. destruct (is_ws c) eqn:Hc; [exact IH|].
  cbn [trim_start]. rewrite Hc. reflexivity.
Qed.

Lemma trim_end_ws_app : forall l w,
  Forall (fun c => is_ws c = true) w -> trim_end (l ++ w) = trim_end l.
Proof.
  intros l w Hw. unfold trim_end. rewrite rev_app_distr.
  rewrite trim_start_ws_app; [reflexivity|].
  apply Forall_rev. exact Hw.
Qed.

Lemma trim_end_idem : forall s, trim_end (trim_end s) = trim_end s.
Proof.
  intros s. unfold trim_end. rewrite rev_involutive, trim_start_idem. reflexivity.
Qed.

Lemma trim_end_ws_only : forall w,
  Forall (fun c => is_ws c = true) w -> trim_end w = [].
Proof. intros w Hw. exact (trim_end_ws_app [] w Hw). Qed.

Lemma strip_prefix_one : forall c s a, strip_prefix [c] s = Some a -> s = c :: a.
Proof.
  intros c s a H. destruct s as [|y s']; cbn in H; [discriminate|].
  destruct (c =? y) eqn:E; [|discriminate].
  apply Z.eqb_eq in E. subst y. inversion H. reflexivity.
Qed.

(* ------------------------------------------------------------------ *)
(* headers, version lines, skipping                                    *)

Lemma section_of_line_bracket : forall l s,
  section_of_line l = Some s -> exists a, l = lbracket :: a.
Proof.
  intros l s H. unfold section_of_line in H.
  destruct (strip_prefix [lbracket] l) as [a|] eqn:E; [|discriminate].
  exists a. exact (strip_prefix_one _ _ _ E).
Qed.

Lemma section_of_line_nil : section_of_line [] = None.
Proof. reflexivity. Qed.

(* the default [should_skip_line] never hides a recognised header *)
Lemma default_skip_keeps_headers : forall l s,
  section_of_line l = Some s -> should_skip_line l = false.
Proof.
  intros l s H. destruct (section_of_line_bracket l s H) as [a ->]. reflexivity.
Qed.

(* a comment line is skipped and is not a header *)
Lemma comment_is_skipped : forall c, is_comment c = true -> should_skip_line c = true.
Proof. intros c H. unfold should_skip_line. destruct c; [reflexivity|exact H]. Qed.

Lemma comment_not_header : forall c, is_comment c = true -> section_of_line c = None.
Proof.
  intros c H. destruct (section_of_line c) as [s|] eqn:E; [|reflexivity].
  destruct (section_of_line_bracket c s E) as [a ->]. discriminate H.
Qed.

Lemma blank_is_nil : forall l, is_blank l = true -> l = [].
Proof. intros [|c r] H; [reflexivity|discriminate]. Qed.

Lemma try_version_nil : try_version_from_line [] = VContinue.
Proof. reflexivity. Qed.

Lemma try_version_nonblank : forall l,
  is_blank l = false -> try_version_from_line l = VBreak (version_of_line l).
Proof.
  intros l Hl. unfold try_version_from_line, version_of_line.
  destruct (starts_with (lit version_prefix) l); cbn [negb]; [reflexivity|].
  destruct l; [discriminate|reflexivity].
Qed.

(* ------------------------------------------------------------------ *)
(* the two nested loops of the source = the fused loop of the model    *)

Lemma parse_section_spec : forall S (ps : parsers S) sec lines st,
  match parse_section ps (parser_of ps sec) st lines with
  | (st', None) => section_loop ps sec st lines = st'
  | (st', Some (next, rest)) =>
      section_loop ps sec st lines = section_loop ps next st' rest
      /\ (length rest < length lines)%nat
  end.
Proof.
  intros S ps sec. induction lines as [|l r IH]; intros st; [reflexivity|].
  cbn [parse_section section_loop length].
  destruct (skip ps l).
  - specialize (IH st). destruct (parse_section ps (parser_of ps sec) st r) as [st' [[next rest]|]].
    + destruct IH as [IH1 IH2]. split; [exact IH1|lia].
    + exact IH.
  - destruct (section_of_line l) as [next|].
    + split; [reflexivity|lia].
    + specialize (IH (fst (parser_of ps sec st l))).
      destruct (parse_section ps (parser_of ps sec) (fst (parser_of ps sec st l)) r) as [st' [[next rest]|]].
      * destruct IH as [IH1 IH2]. split; [exact IH1|lia].
      * exact IH.
Qed.

Theorem decode_loop_fused : forall S (ps : parsers S) fuel sec st lines,
  (length lines < fuel)%nat ->
  decode_loop fuel ps sec st lines = Done (section_loop ps sec st lines).
Proof.
  intros S ps. induction fuel as [|k IH]; intros sec st lines Hf; [lia|].
  cbn [decode_loop]. pose proof (parse_section_spec S ps sec lines st) as H.
  destruct (parse_section ps (parser_of ps sec) st lines) as [st' [[next rest]|]].
  - destruct H as [H1 H2]. rewrite IH by lia. rewrite H1. reflexivity.
  - rewrite H. reflexivity.
Qed.

(* ------------------------------------------------------------------ *)
(* T05a: the driver refines the specification                          *)

Section Refinement.
  Context {S : Type} (ps : parsers S).

  Lemma feed_cons : forall st sec l r,
    feed ps st ((sec, l) :: r) = feed ps (fst (parser_of ps sec st l)) r.
  Proof. reflexivity. Qed.

  Lemma feed_app : forall a b st, feed ps st (a ++ b) = feed ps (feed ps st a) b.
  Proof. intros a b st. unfold feed. apply fold_left_app. Qed.

  Lemma section_loop_route : forall lines sec st,
    section_loop ps sec st lines = feed ps st (route (skip ps) (Some sec) lines).
  Proof.
    induction lines as [|l r IH]; intros sec st; [reflexivity|].
    cbn [section_loop route].
    destruct (skip ps l) eqn:Hs; [apply IH|].
    destruct (section_of_line l) as [next|] eqn:Hh; [apply IH|].
    rewrite feed_cons. apply IH.
  Qed.

  Definition after_first_section (st : S) (o : option (section * list str)) : S :=
    match o with
    | None => st
    | Some (sec, rest) => section_loop ps sec st rest
    end.

  Lemma scan_route : forall lines st,
    after_first_section st (scan_first_section lines)
    = feed ps st (route (skip ps) None lines).
  Proof.
    induction lines as [|l r IH]; intros st; [reflexivity|].
    cbn [scan_first_section route].
    destruct (section_of_line l) as [sec|] eqn:Hh.
    - cbn [after_first_section]. apply section_loop_route.
    - apply IH.
  Qed.

  Lemma parse_version_spec : forall lines,
    odflt latest_format_version (vr_version (parse_version lines)) = version_of lines
    /\ forall st,
       after_first_section st
         (parse_first_section (vr_use_curr_line (parse_version lines))
                              (vr_curr_line (parse_version lines))
                              (vr_rest (parse_version lines)))
       = feed ps st (route (skip ps) None (body_of lines)).
  Proof.
    induction lines as [|l r IH].
    - split; reflexivity.
    - destruct (is_blank l) eqn:Hb.
      + apply blank_is_nil in Hb. subst l.
        cbn [parse_version]. rewrite try_version_nil. exact IH.
      + cbn [parse_version]. rewrite (try_version_nonblank l Hb).
        unfold version_of, body_of. cbn [drop_blank]. rewrite Hb.
        destruct (version_of_line l) as [v|] eqn:Hv.
        * cbn. split; [reflexivity|]. intros st. apply scan_route.
        * cbn [vr_version vr_use_curr_line vr_curr_line vr_rest odflt].
          split; [reflexivity|]. intros st.
          unfold parse_first_section. cbn [route].
          destruct (section_of_line l) as [sec|] eqn:Hh.
          -- cbn [after_first_section]. apply section_loop_route.
          -- apply scan_route.
  Qed.

  Lemma driver_refines : forall V (create : Z -> S) (finish : S -> V) lines,
    driver create ps finish lines
    = finish (feed ps (create (version_of lines))
                   (route (skip ps) None (body_of lines))).
  Proof.
    intros V create finish lines. unfold driver.
    destruct (parse_version_spec lines) as [Hv Hr].
    rewrite Hv. rewrite <- Hr.
    destruct (parse_first_section _ _ _) as [[sec rest]|]; reflexivity.
  Qed.
End Refinement.

Theorem driver_is_frame_spec :
  forall S V (create : Z -> S) (ps : parsers S) (finish : S -> V) (lines : list str),
  driver create ps finish lines =
  let '(v, routed) := frame_spec (skip ps) lines in
  finish (fold_left (fun st '(sec, l) => fst (parser_of ps sec st l)) routed (create v)).
Proof. intros. cbn. apply driver_refines. Qed.

(* ------------------------------------------------------------------ *)
(* composition of the specification over a split of the file           *)

Lemma route_app : forall skip a b cur,
  route skip cur (a ++ b)
  = route skip cur a ++ route skip (section_after_from skip cur a) b.
Proof.
  intros skip a b. induction a as [|l r IH]; intros cur; [reflexivity|].
  cbn [app route section_after_from].
  destruct cur as [sec|]; [|apply IH].
  destruct (skip l); [apply IH|].
  destruct (section_of_line l); [apply IH|].
  cbn [app]. f_equal. apply IH.
Qed.

Lemma section_after_from_app : forall skip a b cur,
  section_after_from skip cur (a ++ b)
  = section_after_from skip (section_after_from skip cur a) b.
Proof.
  intros skip a b. induction a as [|l r IH]; intros cur; [reflexivity|].
  cbn [app section_after_from].
  destruct cur as [sec|]; [|apply IH].
  destruct (skip l); [apply IH|].
  destruct (section_of_line l); apply IH.
Qed.

(* either every line of [pre] is blank, or [pre] fixes the first non-blank
   line of any file it is a prefix of *)
Lemma drop_blank_cases : forall pre,
  (drop_blank pre = [] /\ forall post, drop_blank (pre ++ post) = drop_blank post)
  \/ (exists f m, is_blank f = false /\ drop_blank pre = f :: m
                  /\ forall post, drop_blank (pre ++ post) = f :: m ++ post).
Proof.
  induction pre as [|l r IH].
  - left. split; reflexivity.
  - cbn [drop_blank app]. destruct (is_blank l) eqn:Hb.
    + exact IH.
    + right. exists l, r. repeat split; auto.
Qed.

Lemma drop_blank_nil : forall pre,
  drop_blank pre = [] -> forall l, In l pre -> is_blank l = true.
Proof.
  induction pre as [|x r IH]; intros H l Hin; [destruct Hin|].
  cbn [drop_blank] in H. destruct (is_blank x) eqn:Hb; [|discriminate].
  destruct Hin as [<-|Hin]; auto.
Qed.

Lemma has_nonblank_first : forall pre,
  has_nonblank pre ->
  exists f m, is_blank f = false /\ drop_blank pre = f :: m
              /\ forall post, drop_blank (pre ++ post) = f :: m ++ post.
Proof.
  intros pre (l & Hin & Hl).
  destruct (drop_blank_cases pre) as [[Hnil _]|H]; [|exact H].
  rewrite (drop_blank_nil pre Hnil l Hin) in Hl. discriminate.
Qed.

Lemma body_version_app : forall pre post,
  has_nonblank pre ->
  body_of (pre ++ post) = body_of pre ++ post
  /\ version_of (pre ++ post) = version_of pre.
Proof.
  intros pre post H.
  destruct (has_nonblank_first pre H) as (f & m & _ & Hd & Happ).
  unfold body_of, version_of. rewrite Happ, Hd.
  destruct (version_of_line f); split; reflexivity.
Qed.

Theorem frame_spec_app : forall skip pre post,
  has_nonblank pre ->
  frame_spec skip (pre ++ post)
  = (fst (frame_spec skip pre),
     snd (frame_spec skip pre) ++ route skip (section_after skip pre) post).
Proof.
  intros skip pre post H. unfold frame_spec, section_after. cbn [fst snd].
  destruct (body_version_app pre post H) as [-> ->].
  rewrite route_app. reflexivity.
Qed.

Lemma section_after_nonblank : forall skip pre sec,
  section_after skip pre = Some sec -> has_nonblank pre.
Proof.
  intros skip pre sec H.
  destruct (drop_blank_cases pre) as [[Hnil _]|(f & m & Hf & Hd & _)].
  - unfold section_after, body_of in H. rewrite Hnil in H. discriminate.
  - exists f. split; [|exact Hf].
    assert (Hin : In f (drop_blank pre)) by (rewrite Hd; left; reflexivity).
    clear -Hin. induction pre as [|x r IH]; [destruct Hin|].
    cbn [drop_blank] in Hin. destruct (is_blank x); [right; auto|].
    exact Hin.
Qed.

(* ------------------------------------------------------------------ *)
(* T05b                                                                *)

(* a line that is not a header and that the decoder skips contributes
   nothing and leaves the current section alone, wherever it stands after
   the first non-blank line *)
Lemma route_skipped_line : forall skip cur c post,
  section_of_line c = None -> skip c = true ->
  route skip cur (c :: post) = route skip cur post.
Proof.
  intros skip cur c post Hh Hs. cbn [route]. rewrite Hh, Hs.
  destruct cur; reflexivity.
Qed.

Theorem frame_spec_insert_skipped : forall skip l1 c l2,
  has_nonblank l1 -> section_of_line c = None -> skip c = true ->
  frame_spec skip (l1 ++ c :: l2) = frame_spec skip (l1 ++ l2).
Proof.
  intros skip l1 c l2 H Hh Hs.
  rewrite !frame_spec_app by exact H.
  rewrite route_skipped_line by assumption. reflexivity.
Qed.

Theorem frame_spec_insert_blank : forall skip l1 l2,
  skip [] = true ->
  frame_spec skip (l1 ++ [] :: l2) = frame_spec skip (l1 ++ l2).
Proof.
  intros skip l1 l2 Hs.
  destruct (drop_blank_cases l1) as [[_ Hall]|(f & m & Hf & Hd & _)].
  - unfold frame_spec, body_of, version_of. rewrite !Hall. reflexivity.
  - apply frame_spec_insert_skipped; [|reflexivity|exact Hs].
    exists f. split; [|exact Hf].
    assert (Hin : In f (drop_blank l1)) by (rewrite Hd; left; reflexivity).
    clear -Hin. induction l1 as [|x r IH]; [destruct Hin|].
    cbn [drop_blank] in Hin. destruct (is_blank x); [right; auto|exact Hin].
Qed.

Section Corollaries.
  Context {S V : Type} (create : Z -> S) (ps : parsers S) (finish : S -> V).

  Lemma driver_of_frame_spec : forall a b,
    frame_spec (skip ps) a = frame_spec (skip ps) b ->
    driver create ps finish a = driver create ps finish b.
  Proof.
    intros a b H. rewrite !driver_refines.
    unfold frame_spec in H. inversion H as [[Hv Hr]]. reflexivity.
  Qed.

  (* blank lines never change the outcome *)
  Theorem blank_irrelevant : forall l1 l2 b,
    is_blank b = true -> skip ps [] = true ->
    driver create ps finish (l1 ++ b :: l2) = driver create ps finish (l1 ++ l2).
  Proof.
    intros l1 l2 b Hb Hs. apply blank_is_nil in Hb. subst b.
    apply driver_of_frame_spec. apply frame_spec_insert_blank. exact Hs.
  Qed.

  (* comment lines (indented or not) never change the outcome, after the
     first non-blank line *)
  Theorem comment_irrelevant : forall l1 l2 c,
    is_comment c = true -> skip ps c = true -> has_nonblank l1 ->
    driver create ps finish (l1 ++ c :: l2) = driver create ps finish (l1 ++ l2).
  Proof.
    intros l1 l2 c Hc Hs Hn. apply driver_of_frame_spec.
    apply frame_spec_insert_skipped; auto using comment_not_header.
  Qed.

  (* an unrecognised line (bracketed or not) that is not skipped is data for
     the current section and the lines after it go where they went without
     it: it neither opens nor closes a section *)
  Theorem unrecognised_is_data : forall pre u post,
    has_nonblank pre -> section_of_line u = None -> skip ps u = false ->
    let st0 := create (version_of pre) in
    let before := route (skip ps) None (body_of pre) in
    let cur := section_after (skip ps) pre in
    let after := route (skip ps) cur post in
    section_after (skip ps) (pre ++ [u]) = cur
    /\ driver create ps finish (pre ++ post)
       = finish (feed ps st0 (before ++ after))
    /\ driver create ps finish (pre ++ u :: post)
       = finish (feed ps st0
                   (before ++ match cur with Some sec => [(sec, u)] | None => [] end
                           ++ after)).
  Proof.
    intros pre u post Hn Hh Hs st0 before cur after.
    split; [|split].
    - unfold section_after. destruct (body_version_app pre [u] Hn) as [-> _].
      rewrite section_after_from_app. fold (section_after (skip ps) pre). fold cur.
      cbn [section_after_from]. rewrite Hh, Hs. destruct cur; reflexivity.
    - rewrite driver_refines.
      destruct (body_version_app pre post Hn) as [-> ->].
      rewrite route_app. reflexivity.
    - rewrite driver_refines.
      destruct (body_version_app pre (u :: post) Hn) as [-> ->].
      rewrite route_app. fold (section_after (skip ps) pre). fold cur.
      cbn [route]. rewrite Hh, Hs. destruct cur; reflexivity.
  Qed.
End Corollaries.

(* sections may repeat or appear in any order: after a recognised header the
   current section is that header's, whatever came before *)
Theorem header_resets : forall skip h s,
  section_of_line h = Some s -> skip h = false ->
  forall cur pre, section_after_from skip cur (pre ++ [h]) = Some s.
Proof.
  intros skip h s Hh Hs cur pre. rewrite section_after_from_app.
  cbn [section_after_from]. rewrite Hh, Hs.
  destruct (section_after_from skip cur pre); reflexivity.
Qed.

Theorem route_after_header : forall skip h s,
  section_of_line h = Some s -> skip h = false ->
  forall cur post, route skip cur (h :: post) = route skip (Some s) post.
Proof.
  intros skip h s Hh Hs cur post. cbn [route]. rewrite Hh, Hs.
  destruct cur; reflexivity.
Qed.

(* "most recent recognised header", declaratively: the last header line of
   the prefix — for every [skip] that does not hide headers (the default
   does not: [default_skip_keeps_headers]) *)
Definition keeps_headers (skip : str -> bool) : Prop :=
  forall l s, section_of_line l = Some s -> skip l = false.

Lemma section_after_from_last_header : forall skip, keeps_headers skip ->
  forall lines cur,
  section_after_from skip cur lines
  = match last_header lines with Some s => Some s | None => cur end.
Proof.
  intros skip Hk. induction lines as [|l r IH]; intros cur; [reflexivity|].
  cbn [section_after_from last_header].
  destruct cur as [c|].
  - destruct (skip l) eqn:Hs.
    + destruct (section_of_line l) as [s|] eqn:Hh.
      * rewrite (Hk l s Hh) in Hs. discriminate.
      * rewrite IH. destruct (last_header r); reflexivity.
    + destruct (section_of_line l) as [s|] eqn:Hh; rewrite IH;
        destruct (last_header r); reflexivity.
  - rewrite IH. destruct (last_header r); [reflexivity|].
    destruct (section_of_line l); reflexivity.
Qed.

Theorem section_after_is_last_header : forall skip, keeps_headers skip ->
  forall lines, section_after skip lines = last_header (body_of lines).
Proof.
  intros skip Hk lines. unfold section_after.
  rewrite (section_after_from_last_header skip Hk).
  destruct (last_header (body_of lines)); reflexivity.
Qed.

(* what one line contributes: nothing before the first header; nothing if
   skipped or itself a header; otherwise itself, addressed to the last header
   before it *)
Theorem route_contribution : forall skip, keeps_headers skip ->
  forall pre l post,
  route skip None (pre ++ l :: post)
  = route skip None pre
    ++ match last_header pre with
       | None => []
       | Some sec => if skip l then []
                     else match section_of_line l with
                          | Some _ => []
                          | None => [(sec, l)]
                          end
       end
    ++ route skip (last_header (pre ++ [l])) post.
Proof.
  intros skip Hk pre l post.
  rewrite route_app. f_equal.
  rewrite (section_after_from_last_header skip Hk pre None).
  replace (last_header (pre ++ [l]))
    with (section_after_from skip None (pre ++ [l]))
    by (rewrite (section_after_from_last_header skip Hk); destruct (last_header (pre ++ [l])); reflexivity).
  rewrite section_after_from_app.
  rewrite (section_after_from_last_header skip Hk pre None).
  destruct (last_header pre) as [sec|]; cbn [route section_after_from].
  - destruct (skip l); [reflexivity|].
    destruct (section_of_line l); reflexivity.
  - reflexivity.
Qed.

(* the results of the parsers never influence routing: two decoders whose
   parsers mutate alike but answer differently decode alike *)
Lemma route_ext : forall skip skip', (forall l, skip l = skip' l) ->
  forall lines cur, route skip cur lines = route skip' cur lines.
Proof.
  intros skip skip' He. induction lines as [|l r IH]; intros cur; [reflexivity|].
  cbn [route]. rewrite <- He. destruct cur; [|apply IH].
  destruct (skip l); [apply IH|]. destruct (section_of_line l); [apply IH|].
  f_equal. apply IH.
Qed.

Theorem results_irrelevant :
  forall S V (create : Z -> S) (ps ps' : parsers S) (finish : S -> V),
  (forall l, skip ps l = skip ps' l) ->
  (forall sec st l, fst (parser_of ps sec st l) = fst (parser_of ps' sec st l)) ->
  forall lines, driver create ps finish lines = driver create ps' finish lines.
Proof.
  intros S V create ps ps' finish Hs Hp lines. rewrite !driver_refines.
  rewrite (route_ext _ _ Hs). f_equal.
  generalize (create (version_of lines)).
  induction (route (skip ps') None (body_of lines)) as [|[sec l] r IH]; intros st;
    [reflexivity|].
  rewrite !feed_cons. rewrite Hp. apply IH.
Qed.

(* ------------------------------------------------------------------ *)
(* T05c: the line splitting                                            *)

Lemma split_on_nonempty : forall d s, split_on d s <> [].
Proof.
  intros d s. destruct s as [|c r]; cbn [split_on]; [discriminate|].
  destruct (c =? d); [discriminate|]. destruct (split_on d r); discriminate.
Qed.

Lemma split_on_no_sep : forall d l, ~ In d l -> split_on d l = [l].
Proof.
  intros d. induction l as [|c r IH]; intros H; [reflexivity|].
  cbn [split_on]. destruct (Z.eqb_spec c d) as [->|Hne].
  - exfalso. apply H. left. reflexivity.
  - rewrite IH; [reflexivity|]. intros Hin. apply H. right. exact Hin.
Qed.

Lemma split_on_app_sep : forall d a b,
  split_on d (a ++ d :: b) = split_on d a ++ split_on d b.
Proof.
  intros d a b. induction a as [|c r IH].
  - cbn [app split_on]. rewrite Z.eqb_refl. reflexivity.
  - cbn [app split_on]. destruct (c =? d); [rewrite IH; reflexivity|].
    rewrite IH. destruct (split_on d r) as [|p q] eqn:E.
    + exfalso. exact (split_on_nonempty d r E).
    + reflexivity.
Qed.

Lemma drop_final_empty_cons : forall p r,
  r <> [] -> drop_final_empty (p :: r) = p :: drop_final_empty r.
Proof.
  intros p r Hr. cbn [drop_final_empty]. destruct p; destruct r; try reflexivity.
  exfalso. apply Hr. reflexivity.
Qed.

Lemma raw_lines_cons : forall x rest,
  no_lf x -> raw_lines (x ++ ch_lf :: rest) = x :: raw_lines rest.
Proof.
  intros x rest Hx. unfold raw_lines.
  rewrite split_on_app_sep, (split_on_no_sep ch_lf x Hx).
  cbn [app]. apply drop_final_empty_cons. apply split_on_nonempty.
Qed.

Lemma raw_lines_nil : raw_lines [] = [].
Proof. reflexivity. Qed.

Lemma raw_lines_last : forall x, no_lf x -> x <> [] -> raw_lines x = [x].
Proof.
  intros x Hx Hne. unfold raw_lines. rewrite (split_on_no_sep ch_lf x Hx).
  destruct x; [exfalso; apply Hne; reflexivity|reflexivity].
Qed.

Lemma no_lf_app : forall a b, no_lf a -> no_lf b -> no_lf (a ++ b).
Proof.
  unfold no_lf. intros a b Ha Hb Hin. apply in_app_or in Hin. tauto.
Qed.

(* a file written line by line, every line terminated by [w ++ LF] *)
Lemma raw_lines_join : forall w ls, no_lf w -> Forall no_lf ls ->
  raw_lines (join_eol (w ++ [ch_lf]) ls) = map (fun l => l ++ w) ls.
Proof.
  intros w ls Hw Hls. induction Hls as [|l r Hl Hr IH]; [reflexivity|].
  unfold join_eol. cbn [map concat]. fold (join_eol (w ++ [ch_lf]) r).
  replace ((l ++ w ++ [ch_lf]) ++ join_eol (w ++ [ch_lf]) r)
    with ((l ++ w) ++ ch_lf :: join_eol (w ++ [ch_lf]) r)
    by (rewrite <- !app_assoc; reflexivity).
  rewrite raw_lines_cons by (apply no_lf_app; assumption).
  rewrite IH. reflexivity.
Qed.

(* ... the last one without terminator *)
Lemma raw_lines_join_last : forall w ls last, no_lf w -> Forall no_lf ls ->
  no_lf last -> last <> [] ->
  raw_lines (join_eol (w ++ [ch_lf]) ls ++ last) = map (fun l => l ++ w) ls ++ [last].
Proof.
  intros w ls last Hw Hls Hlast Hne. induction Hls as [|l r Hl Hr IH].
  - cbn. apply raw_lines_last; assumption.
  - unfold join_eol. cbn [map concat]. fold (join_eol (w ++ [ch_lf]) r).
    replace (((l ++ w ++ [ch_lf]) ++ join_eol (w ++ [ch_lf]) r) ++ last)
      with ((l ++ w) ++ ch_lf :: (join_eol (w ++ [ch_lf]) r ++ last))
      by (rewrite <- !app_assoc; reflexivity).
    rewrite raw_lines_cons by (apply no_lf_app; assumption).
    rewrite IH. reflexivity.
Qed.

Lemma map_trim_end_suffix : forall w ls,
  Forall (fun c => is_ws c = true) w ->
  map trim_end (map (fun l => l ++ w) ls) = map trim_end ls.
Proof.
  intros w ls Hw. rewrite map_map. apply map_ext. intros l.
  apply trim_end_ws_app. exact Hw.
Qed.

(* LF or CRLF or any White_Space before the LF: the reader yields the
   trimmed lines *)
Theorem lines_of_join : forall w ls,
  Forall (fun c => is_ws c = true) w -> no_lf w -> Forall no_lf ls ->
  lines_of_text (join_eol (w ++ [ch_lf]) ls) = map trim_end ls.
Proof.
  intros w ls Hws Hw Hls. unfold lines_of_text.
  rewrite raw_lines_join by assumption. apply map_trim_end_suffix. exact Hws.
Qed.

(* final newline optional *)
Theorem lines_of_join_unterminated : forall w ls last,
  Forall (fun c => is_ws c = true) w -> no_lf w -> Forall no_lf ls ->
  no_lf last -> last <> [] ->
  lines_of_text (join_eol (w ++ [ch_lf]) ls ++ last) = map trim_end (ls ++ [last]).
Proof.
  intros w ls last Hws Hw Hls Hlast Hne. unfold lines_of_text.
  rewrite raw_lines_join_last by assumption.
  rewrite !map_app. rewrite map_trim_end_suffix by exact Hws. reflexivity.
Qed.

Lemma ws_cr : Forall (fun c => is_ws c = true) [ch_cr].
Proof. repeat constructor. Qed.
Lemma no_lf_cr : no_lf [ch_cr].
Proof. intros [H|[]]. discriminate H. Qed.
Lemma no_lf_nil : no_lf [].
Proof. intros []. Qed.

Lemma lines_of_join_lf : forall ls, Forall no_lf ls ->
  lines_of_text (join_eol [ch_lf] ls) = map trim_end ls.
Proof. intros ls Hls. exact (lines_of_join [] ls (Forall_nil _) no_lf_nil Hls). Qed.

Lemma lines_of_join_crlf : forall ls, Forall no_lf ls ->
  lines_of_text (join_eol [ch_cr; ch_lf] ls) = map trim_end ls.
Proof. intros ls Hls. exact (lines_of_join [ch_cr] ls ws_cr no_lf_cr Hls). Qed.

Corollary lines_lf_crlf : forall ls, Forall no_lf ls ->
  lines_of_text (join_eol [ch_cr; ch_lf] ls) = lines_of_text (join_eol [ch_lf] ls).
Proof.
  intros ls Hls. rewrite lines_of_join_lf, lines_of_join_crlf by exact Hls. reflexivity.
Qed.

Corollary lines_final_newline_optional : forall ls last, Forall no_lf ls ->
  no_lf last -> last <> [] ->
  lines_of_text (join_eol [ch_lf] ls ++ last)
  = lines_of_text (join_eol [ch_lf] (ls ++ [last])).
Proof.
  intros ls last Hls Hl Hne.
  rewrite lines_of_join_lf
    by (apply Forall_app; split; [exact Hls|constructor; [exact Hl|constructor]]).
  exact (lines_of_join_unterminated [] ls last (Forall_nil _) no_lf_nil Hls Hl Hne).
Qed.

(* trailing White_Space on a line is irrelevant, and what the driver receives
   is already trimmed *)
Corollary lines_trailing_ws : forall ls ws, Forall no_lf ls ->
  length ws = length ls ->
  Forall (fun w => Forall (fun c => is_ws c = true) w /\ no_lf w) ws ->
  lines_of_text (join_eol [ch_lf] (map (fun p => fst p ++ snd p) (combine ls ws)))
  = lines_of_text (join_eol [ch_lf] ls).
Proof.
  intros ls ws Hls Hlen Hws.
  assert (Hno : Forall no_lf (map (fun p => fst p ++ snd p) (combine ls ws))).
  { revert ws Hlen Hws. induction Hls as [|l r Hl Hr IH]; intros ws Hlen Hws; [constructor|].
    destruct ws as [|w ws']; [discriminate|]. inversion Hws as [|? ? [_ Hw] Hws']; subst.
    cbn. constructor; [apply no_lf_app; assumption|]. apply IH; [|exact Hws'].
    cbn in Hlen. lia. }
  rewrite (lines_of_join_lf _ Hno), (lines_of_join_lf ls Hls).
  revert ws Hlen Hws Hno. induction ls as [|l r IH]; intros ws Hlen Hws Hno; [reflexivity|].
  destruct ws as [|w ws']; [discriminate|]. inversion Hws as [|? ? [Hw _] Hws']; subst.
  inversion Hls; subst. inversion Hno; subst.
  cbn. f_equal; [apply trim_end_ws_app; exact Hw|].
  apply IH; auto. all: cbn in Hlen; lia.
Qed.

Theorem lines_of_text_trimmed : forall text,
  Forall (fun l => trim_end l = l) (lines_of_text text).
Proof.
  intros text. unfold lines_of_text. apply Forall_forall. intros l Hin.
  apply in_map_iff in Hin. destruct Hin as (x & <- & _). apply trim_end_idem.
Qed.

(* every text is a sequence of LF-terminated lines plus an unterminated rest *)
Lemma text_decompose : forall s,
  exists ls last, s = join_eol [ch_lf] ls ++ last /\ Forall no_lf ls /\ no_lf last.
Proof.
  induction s as [|c r (ls & last & -> & Hls & Hlast)].
  - exists [], []. repeat split; [constructor|intros []].
  - destruct (Z.eqb_spec c ch_lf) as [->|Hne].
    + exists ([] :: ls), last. repeat split; auto. constructor; [intros []|exact Hls].
    + destruct ls as [|l ls'].
      * exists [], (c :: last). repeat split; [constructor|].
        intros [H|H]; [exact (Hne H)|exact (Hlast H)].
      * inversion Hls as [|? ? Hl Hls']; subst.
        exists ((c :: l) :: ls'), last. repeat split; auto.
        constructor; [|exact Hls'].
        intros [H|H]; [exact (Hne H)|exact (Hl H)].
Qed.

Lemma to_crlf_app : forall a b, to_crlf (a ++ b) = to_crlf a ++ to_crlf b.
Proof. intros a b. unfold to_crlf. apply flat_map_app. Qed.

Lemma to_crlf_no_lf : forall x, no_lf x -> to_crlf x = x.
Proof.
  induction x as [|c r IH]; intros H; [reflexivity|].
  unfold to_crlf in *. cbn [flat_map].
  destruct (Z.eqb_spec c ch_lf) as [->|Hne].
  - exfalso. apply H. left. reflexivity.
  - cbn [app]. f_equal. apply IH. intros Hin. apply H. right. exact Hin.
Qed.

Lemma to_crlf_join : forall ls, Forall no_lf ls ->
  to_crlf (join_eol [ch_lf] ls) = join_eol [ch_cr; ch_lf] ls.
Proof.
  intros ls Hls. induction Hls as [|l r Hl Hr IH]; [reflexivity|].
  unfold join_eol. cbn [map concat]. fold (join_eol [ch_lf] r). fold (join_eol [ch_cr; ch_lf] r).
  rewrite !to_crlf_app, IH, (to_crlf_no_lf l Hl). reflexivity.
Qed.

(* LF and CRLF files give the same lines — for every text *)
Theorem lines_of_text_crlf : forall text,
  lines_of_text (to_crlf text) = lines_of_text text.
Proof.
  intros text. destruct (text_decompose text) as (ls & last & -> & Hls & Hlast).
  rewrite to_crlf_app, (to_crlf_join ls Hls), (to_crlf_no_lf last Hlast).
  destruct last as [|c r].
  - rewrite !app_nil_r. apply lines_lf_crlf. exact Hls.
  - assert (Hne : c :: r <> []) by discriminate.
    transitivity (map trim_end (ls ++ [c :: r])).
    + exact (lines_of_join_unterminated [ch_cr] ls (c :: r) ws_cr no_lf_cr Hls Hlast Hne).
    + symmetry.
      exact (lines_of_join_unterminated [] ls (c :: r) (Forall_nil _) no_lf_nil Hls Hlast Hne).
Qed.

(* ------------------------------------------------------------------ *)
(* Generic lemmas for C06 / C07                                        *)

(* the state in which the decoder is after the lines [pre] *)
Definition state_after {S} (create : Z -> S) (ps : parsers S) (pre : list str) : S :=
  feed ps (create (version_of pre)) (route (skip ps) None (body_of pre)).

(* Simulation: two decoders (possibly over different states) whose states
   stay related under every parse_* and whose [finish] maps related states to
   related values decode every file to related values. *)
Theorem driver_simulation :
  forall S1 S2 V1 V2 (R : S1 -> S2 -> Prop) (Q : V1 -> V2 -> Prop)
         (create1 : Z -> S1) (create2 : Z -> S2)
         (ps1 : parsers S1) (ps2 : parsers S2)
         (finish1 : S1 -> V1) (finish2 : S2 -> V2),
  (forall v, R (create1 v) (create2 v)) ->
  (forall l, skip ps1 l = skip ps2 l) ->
  (forall sec st1 st2 l, R st1 st2 ->
     R (fst (parser_of ps1 sec st1 l)) (fst (parser_of ps2 sec st2 l))) ->
  (forall st1 st2, R st1 st2 -> Q (finish1 st1) (finish2 st2)) ->
  forall lines,
  Q (driver create1 ps1 finish1 lines) (driver create2 ps2 finish2 lines).
Proof.
  intros S1 S2 V1 V2 R Q create1 create2 ps1 ps2 finish1 finish2 Hc Hs Hp Hf lines.
  rewrite !driver_refines. apply Hf.
  rewrite (route_ext _ _ Hs).
  generalize (Hc (version_of lines)).
  generalize (create1 (version_of lines)) (create2 (version_of lines)).
  induction (route (skip ps2) None (body_of lines)) as [|[sec l] r IH];
    intros st1 st2 HR; [exact HR|].
  rewrite !feed_cons. apply IH. apply Hp. exact HR.
Qed.

(* the same with equality of the results (C07: projections of the full
   decoder vs a specialised decoder) *)
Corollary driver_simulation_eq :
  forall S1 S2 V1 V2 W (R : S1 -> S2 -> Prop) (proj1 : V1 -> W) (proj2 : V2 -> W)
         create1 create2 (ps1 : parsers S1) (ps2 : parsers S2)
         (finish1 : S1 -> V1) (finish2 : S2 -> V2),
  (forall v, R (create1 v) (create2 v)) ->
  (forall l, skip ps1 l = skip ps2 l) ->
  (forall sec st1 st2 l, R st1 st2 ->
     R (fst (parser_of ps1 sec st1 l)) (fst (parser_of ps2 sec st2 l))) ->
  (forall st1 st2, R st1 st2 -> proj1 (finish1 st1) = proj2 (finish2 st2)) ->
  forall lines,
  proj1 (driver create1 ps1 finish1 lines) = proj2 (driver create2 ps2 finish2 lines).
Proof.
  intros S1 S2 V1 V2 W R proj1 proj2 create1 create2 ps1 ps2 finish1 finish2 Hc Hs Hp Hf lines.
  exact (driver_simulation S1 S2 V1 V2 R (fun a b => proj1 a = proj2 b)
           create1 create2 ps1 ps2 finish1 finish2 Hc Hs Hp Hf lines).
Qed.

(* Deleting a rejected line.  [E] is the equivalence "equal up to scratch
   fields" of C06 (take [eq] when there is none): every parse_* respects it,
   [finish] does not see it, and the parser of section [sec], when it rejects
   [l], leaves a state equivalent to the one it started from.  Then a line
   that is routed to [sec] and rejected there can be deleted from the file. *)
Section Rejected.
  Context {S V : Type} (create : Z -> S) (ps : parsers S) (finish : S -> V).
  Context (E : S -> S -> Prop)
          (E_parse : forall sec st st' l, E st st' ->
             E (fst (parser_of ps sec st l)) (fst (parser_of ps sec st' l)))
          (E_finish : forall st st', E st st' -> finish st = finish st').

  Lemma feed_respects : forall routed st st', E st st' ->
    E (feed ps st routed) (feed ps st' routed).
  Proof.
    induction routed as [|[sec l] r IH]; intros st st' H; [exact H|].
    rewrite !feed_cons. apply IH. apply E_parse. exact H.
  Qed.

  Theorem rejected_line_absent_upto : forall pre l post sec,
    section_after (skip ps) pre = Some sec ->          (* l is routed ...        *)
    skip ps l = false -> section_of_line l = None ->   (* ... to the parser of sec *)
    (forall st, snd (parser_of ps sec st l) = Rejected ->
                E (fst (parser_of ps sec st l)) st) -> (* T06a for that parser    *)
    snd (parser_of ps sec (state_after create ps pre) l) = Rejected ->
    driver create ps finish (pre ++ l :: post) = driver create ps finish (pre ++ post).
  Proof.
    intros pre l post sec Hsec Hs Hh Hnoop Hrej.
    pose proof (section_after_nonblank _ _ _ Hsec) as Hn.
    rewrite !driver_refines.
    destruct (body_version_app pre (l :: post) Hn) as [-> ->].
    destruct (body_version_app pre post Hn) as [-> ->].
    rewrite !route_app. fold (section_after (skip ps) pre). rewrite Hsec.
    cbn [route]. rewrite Hs, Hh.
    rewrite !feed_app. fold (state_after create ps pre). rewrite feed_cons.
    apply E_finish. apply feed_respects. apply Hnoop. exact Hrej.
  Qed.
End Rejected.

Corollary rejected_line_absent :
  forall S V (create : Z -> S) (ps : parsers S) (finish : S -> V) pre l post sec,
  section_after (skip ps) pre = Some sec ->
  skip ps l = false -> section_of_line l = None ->
  (forall st, snd (parser_of ps sec st l) = Rejected -> fst (parser_of ps sec st l) = st) ->
  snd (parser_of ps sec (state_after create ps pre) l) = Rejected ->
  driver create ps finish (pre ++ l :: post) = driver create ps finish (pre ++ post).
Proof.
  intros S V create ps finish pre l post sec.
  apply (rejected_line_absent_upto create ps finish eq).
  - intros sec' st st' l' ->. reflexivity.
  - intros st st' ->. reflexivity.
Qed.

(* which parser receives a line, for the callers of the lemma above: a line
   is "routed to sec" exactly when these three hold (route_contribution) *)
Lemma routed_to_iff : forall skip, keeps_headers skip ->
  forall pre l sec,
  (section_after skip pre = Some sec /\ skip l = false /\ section_of_line l = None)
  <-> (last_header (body_of pre) = Some sec /\ skip l = false /\ section_of_line l = None).
Proof.
  intros skip Hk pre l sec. rewrite (section_after_is_last_header skip Hk). tauto.
Qed.

(* ------------------------------------------------------------------ *)
(* the corollaries for decoders that keep the default should_skip_line
   (every decoder of the crate does) *)

Lemma default_keeps_headers : keeps_headers should_skip_line.
Proof. exact default_skip_keeps_headers. Qed.

Section DefaultSkip.
  Context {S V : Type} (create : Z -> S) (ps : parsers S) (finish : S -> V)
          (Hdef : forall l, skip ps l = should_skip_line l).

  Theorem blank_irrelevant_default : forall l1 l2,
    driver create ps finish (l1 ++ [] :: l2) = driver create ps finish (l1 ++ l2).
  Proof.
    intros l1 l2. apply blank_irrelevant; [reflexivity|]. rewrite Hdef. reflexivity.
  Qed.

  Theorem comment_irrelevant_default : forall l1 l2 c,
    is_comment c = true -> has_nonblank l1 ->
    driver create ps finish (l1 ++ c :: l2) = driver create ps finish (l1 ++ l2).
  Proof.
    intros l1 l2 c Hc Hn. apply comment_irrelevant; auto.
    rewrite Hdef. apply comment_is_skipped. exact Hc.
  Qed.

  Lemma keeps_headers_ps : keeps_headers (skip ps).
  Proof. intros l s H. rewrite Hdef. exact (default_skip_keeps_headers l s H). Qed.
End DefaultSkip.

(* whole-file form: text -> lines -> driver *)
Definition decode_text {S V} (create : Z -> S) (ps : parsers S) (finish : S -> V)
           (text : str) : V :=
  driver create ps finish (lines_of_text text).

Theorem decode_text_crlf : forall S V (create : Z -> S) ps (finish : S -> V) text,
  decode_text create ps finish (to_crlf text) = decode_text create ps finish text.
Proof. intros. unfold decode_text. rewrite lines_of_text_crlf. reflexivity. Qed.

(* a raw line of White_Space only reaches the driver as a blank line *)
Lemma ws_line_is_blank : forall w,
  Forall (fun c => is_ws c = true) w -> is_blank (trim_end w) = true.
Proof. intros w Hw. rewrite (trim_end_ws_only w Hw). reflexivity. Qed.

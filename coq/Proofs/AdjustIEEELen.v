(* AdjustIEEELen: the non-degeneracy hypothesis of the IEEE bounds of C16,
   stated on the COMPUTED binary32 length of the segment instead of its exact
   length: for coordinates |c| <= 2^20, if the f32 length
   (path[k] - path[k-1]).length() is at least 2^-9 then the exact Euclidean
   length is at least 2^-10 (so [adjust_hyps] holds).  Contrapositive of an
   upper bound: an exact length below 2^-10 gives a computed length below
   2^-10 * 1.01, underflow to zero included. *)
From RM Require Import Model.ControlPoints Model.Curve Proofs.FloatFacts Proofs.LengthFacts Proofs.LengthBound
  Proofs.AdjustExact Proofs.AdjustIEEEBase Proofs.AdjustIEEE Proofs.AdjustIEEESum.
From Flocq Require Import Core BinarySingleNaN.
From Coq Require Import Reals Lra Psatz Lia.
Open Scope R_scope.

Local Notation fin x := (is_finite x = true).
Local Notation pw k := (bpow radix2 k).

Lemma rela_abs_le c v e a : rela c v e a -> Rabs c <= Rabs v * (1 + e) + a.
Proof.
  intros (d & h & E & B & A). rewrite E. eapply Rle_trans; [apply Rabs_triang|]. apply Rplus_le_compat; [|exact A].
  rewrite Rabs_mult. apply Rmult_le_compat_l; [apply Rabs_pos|].
  eapply Rle_trans; [apply Rabs_triang|]. rewrite Rabs_R1. lra.
Qed.

Lemma RN32_le x y : x <= y -> RN32 x <= RN32 y.
Proof. apply round_le; [apply (fexp_correct 24 128 Hp32)|apply valid_rnd_N]. Qed.
Lemma RN32_0 : RN32 0 = 0.
Proof. apply round_0. apply valid_rnd_N. Qed.

Lemma S_mul_nonneg (a : F32) k : fin a -> (-149 <= k < 128)%Z -> Rabs (B2R a * B2R a) <= pw k -> 0 <= B2R (S.mul a a).
Proof.
  intros Fa Hk H. pose proof (Bmult_correct 24 128 Hp32 He32 mode_NE a a) as C.
  rewrite (no_overflow 24 128 Hp32 _ k ltac:(lia) H) in C. destruct C as (CR & _).
  unfold S.mul, fmul. rewrite CR, <- RN32_0. apply RN32_le. nra.
Qed.

Lemma S_add_nonneg (a b : F32) k : fin a -> fin b -> (-149 <= k < 128)%Z -> Rabs (B2R a + B2R b) <= pw k ->
  0 <= B2R a -> 0 <= B2R b -> 0 <= B2R (S.add a b).
Proof.
  intros Fa Fb Hk H Ha Hb. pose proof (Bplus_correct 24 128 Hp32 He32 mode_NE a b Fa Fb) as C.
  rewrite (no_overflow 24 128 Hp32 _ k ltac:(lia) H) in C. destruct C as (CR & _).
  unfold S.add, fadd. rewrite CR, <- RN32_0. apply RN32_le. lra.
Qed.

(* a short vector has a short computed length *)
Lemma plen_upper (dx dy : F32) (Dx Dy : R) :
  fin dx -> fin dy -> Rabs (B2R dx) <= pw 21 -> Rabs (B2R dy) <= pw 21 ->
  rel (B2R dx) Dx u32 -> rel (B2R dy) Dy u32 ->
  Dx * Dx + Dy * Dy < pw (-20) ->
  B2R (plen (mkPos dx dy)) < pw (-9).
Proof.
  intros Fdx Fdy Mdx Mdy Rdx Rdy HS.
  pose proof u32_pos as Up. pose proof u64_pos as Vp. pose proof u64_le as Vl.
  pose proof eta32_pos as E32. pose proof eta64_pos as E64.
  assert (P20 : pw (-20) = pw (-10) * pw (-10)) by (rewrite <- bpow_plus; reflexivity).
  assert (P9 : pw (-9) = 2 * pw (-10)) by (change (-9)%Z with (1 + -10)%Z; rewrite bpow_plus; reflexivity).
  assert (P10 : pw (-10) = / 1024) by (cbn; lra).
  assert (Pe32 : eta32 <= / 1000000000000 * pw (-20)).
  { unfold eta32. apply Rle_trans with (pw (-60) * pw (-20)); [rewrite <- bpow_plus; apply bpow_le; zl|].
    apply Rmult_le_compat_r; [left; apply bpow_gt_0|]. cbn. lra. }
  assert (Pe64 : eta64 <= eta32) by (unfold eta64, eta32; apply bpow_le; zl).
  set (SS := Dx * Dx + Dy * Dy) in *.
  assert (HS0 : 0 <= SS) by (unfold SS; pose proof (sqr_nonneg Dx); pose proof (sqr_nonneg Dy); lra).
  unfold plen. cbn [px py].
  destruct (S_mul_spec dx dx 42 Fdx Fdx ltac:(zl) (abs_mul_bpow _ _ 21 21 Mdx Mdx)) as (Fsx & Msx & Rsx).
  destruct (S_mul_spec dy dy 42 Fdy Fdy ltac:(zl) (abs_mul_bpow _ _ 21 21 Mdy Mdy)) as (Fsy & Msy & Rsy).
  pose proof (S_mul_nonneg dx 42 Fdx ltac:(zl) (abs_mul_bpow _ _ 21 21 Mdx Mdx)) as Nsx.
  pose proof (S_mul_nonneg dy 42 Fdy ltac:(zl) (abs_mul_bpow _ _ 21 21 Mdy Mdy)) as Nsy.
  assert (Asx : rela (B2R (S.mul dx dx)) (Dx * Dx) (3.001 * u32) eta32).
  { eapply rela_weaken; [exact (rela_round _ _ _ _ _ _ _ (rel_rela _ _ _ (rel_mul _ _ _ _ _ _ Rdx Rdx)) Rsx)|wk|wk]. }
  assert (Asy : rela (B2R (S.mul dy dy)) (Dy * Dy) (3.001 * u32) eta32).
  { eapply rela_weaken; [exact (rela_round _ _ _ _ _ _ _ (rel_rela _ _ _ (rel_mul _ _ _ _ _ _ Rdy Rdy)) Rsy)|wk|wk]. }
  pose proof (rela_add_nonneg _ _ _ _ _ _ _ Asx Asy (sqr_nonneg Dx) (sqr_nonneg Dy)) as Asum. fold SS in Asum.
  destruct (S_add_spec _ _ 43 Fsx Fsy ltac:(zl) (abs_add_bpow _ _ 42 Msx Msy)) as (Fs & Ms & Rs).
  pose proof (S_add_nonneg _ _ 43 Fsx Fsy ltac:(zl) (abs_add_bpow _ _ 42 Msx Msy) Nsx Nsy) as Ns.
  set (s := S.add (S.mul dx dx) (S.mul dy dy)) in *.
  (* s <= 2^-20 * 1.0001 *)
  assert (Us : B2R s <= pw (-20) * 1.0001).
  { pose proof (rela_abs_le _ _ _ _ Asum) as A1. pose proof (rel_abs_le _ _ _ Rs) as A2.
    rewrite (Rabs_pos_eq SS) in A1 by exact HS0. rewrite (Rabs_pos_eq (B2R s)) in A2 by exact Ns.
    pose proof (Rabs_pos (B2R (S.mul dx dx) + B2R (S.mul dy dy))) as A0.
    pose proof (bpow_gt_0 radix2 (-20)) as Q. unfold u32 in *. nra. }
  destruct (f64_of_f32_exact s Fs) as (Fw & Ew).
  destruct (Rle_lt_or_eq_dec _ _ Ns) as [Hpos|Hz].
  - assert (Hsq : sqrt (B2R (f64_of_f32 s)) <= pw 22).
    { rewrite Ew, <- (sqrt_bpow radix2 22). apply sqrt_le_1_alt.
      apply Rle_trans with (pw 43); [rewrite <- (Rabs_pos_eq (B2R s)) by lra; exact Ms|apply bpow_le; zl]. }
    destruct (D_sqrt_spec (f64_of_f32 s) 22 Fw ltac:(rewrite Ew; exact Hpos) ltac:(zl) Hsq) as (Fr & Mr & Rr).
    rewrite Ew in Rr.
    destruct (f32_of_f64_spec _ 22 Fr ltac:(zl) Mr) as (Fl & Ml & Rl).
    assert (Usq : sqrt (B2R s) <= pw (-10) * 1.0001).
    { rewrite <- (sqrt_pow2 (pw (-10) * 1.0001)) by (rewrite P10; lra). apply sqrt_le_1_alt. rewrite P20 in Us. rewrite P10 in *. nra. }
    pose proof (rela_abs_le _ _ _ _ Rr) as A3. rewrite (Rabs_pos_eq (sqrt (B2R s))) in A3 by apply sqrt_pos.
    pose proof (rela_abs_le _ _ _ _ Rl) as A4.
    pose proof (Rle_abs (B2R (f32_of_f64 (D.sqrt (f64_of_f32 s))))) as A5.
    pose proof (Rabs_pos (B2R (D.sqrt (f64_of_f32 s)))) as A6.
    pose proof (sqrt_pos (B2R s)) as A7.
    rewrite P9. rewrite P20, P10 in *. unfold u32, u64 in *. nra.
  - (* the sum of squares underflowed to zero: the length is exactly zero *)
    destruct (fin_zero_is_zero s Fs (eq_sym Hz)) as (sg & Es). rewrite Es.
    assert (H : B2SF (f32_of_f64 (D.sqrt (f64_of_f32 (B754_zero sg)))) = SpecFloat.S754_zero sg) by (destruct sg; vm_compute; reflexivity).
    destruct (f32_of_f64 (D.sqrt (f64_of_f32 (B754_zero sg)))) as [s0|s0| |s0 m e Hm]; try discriminate.
    cbn [B2R]. apply bpow_gt_0.
Qed.

(* the hypotheses of the end-point bound from the computed length of the segment *)
Theorem adjust_hyps_of_f32_length (pp pe : Pos) (e lp : F64) :
  coord_le pp 20 -> coord_le pe 20 -> fin e -> fin lp -> 0 <= B2R e - B2R lp <= pw 20 ->
  pw (-9) <= B2R (plen (psub pe pp)) ->
  adjust_hyps pp pe e lp.
Proof.
  intros ((Fx0 & Mx0) & (Fy0 & My0)) ((Fx1 & Mx1) & (Fy1 & My1)) Fe Flp HT Hlen.
  unfold adjust_hyps. repeat (split; [first [assumption|split; assumption]|]).
  destruct (Rle_or_lt (pw (-10)) (edist (R2 pp) (R2 pe))) as [H|H]; [exact H|]. exfalso.
  destruct (S_sub_spec (px pe) (px pp) 21 Fx1 Fx0 ltac:(zl) (abs_sub_bpow _ _ 20 Mx1 Mx0)) as (Fdx & Mdx & Rdx).
  destruct (S_sub_spec (py pe) (py pp) 21 Fy1 Fy0 ltac:(zl) (abs_sub_bpow _ _ 20 My1 My0)) as (Fdy & Mdy & Rdy).
  set (Dx := B2R (px pe) - B2R (px pp)) in *. set (Dy := B2R (py pe) - B2R (py pp)) in *.
  assert (HS : Dx * Dx + Dy * Dy < pw (-20)).
  { pose proof (edist_sq (R2 pp) (R2 pe)) as Q. cbn [R2 fst snd] in Q. fold Dx Dy in Q.
    replace (Dx * Dx + Dy * Dy) with (edist (R2 pp) (R2 pe) ^ 2) by (rewrite Q; ring).
    change (-20)%Z with (-10 + -10)%Z. rewrite bpow_plus. pose proof (edist_ge0 (R2 pp) (R2 pe)). nra. }
  pose proof (plen_upper _ _ Dx Dy Fdx Fdy Mdx Mdy Rdx Rdy HS) as U.
  unfold psub in Hlen. lra.
Qed.

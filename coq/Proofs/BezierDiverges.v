(* BezierDiverges: T01g cannot hold for the IEEE instance without a bound on
   the coordinates.  Witness: the Bezier segment (inf, 0) (0, 0) (0, 0).

     - its second difference is (inf, 0): not flat;
     - midpoint subdivision gives the children  L = (inf,0) (inf,0) (inf,0)
       (second difference inf - inf = NaN: every comparison is false, "flat")
       and  R = (inf,0) (0,0) (0,0)  -- the parent itself, bit for bit.
   So the loop of approximate_bspline pops the parent, pushes R and L, emits
   L, and is back where it started with a longer path: it never returns, for
   any amount of fuel, and in the code `path` grows until allocation fails.

   Not reachable from decoding (the parser clamps every coordinate to
   +-131072); reachable through the public constructors Curve::new /
   BorrowedCurve::new.  Confirmed on the crate (finding D25). *)
From RM Require Import Model.ControlPoints Model.Curve Proofs.BezierRefine Proofs.BezierTermination.
From Flocq Require Import BinarySingleNaN.
Open Scope nat_scope.

Definition p_inf : Pos := mkPos (S.inf false) S.zero.
Definition seg_inf : list Pos := [p_inf; pos0; pos0].
Definition seg_inf_left : list Pos := [p_inf; p_inf; p_inf].

Lemma avg2_inf_zero : avg2 p_inf pos0 = p_inf.
Proof.
  unfold avg2, pdiv, padd, p_inf, pos0. cbn [px py].
  f_equal; apply B2SF_inj; vm_compute; reflexivity.
Qed.

Lemma avg2_zero_zero : avg2 pos0 pos0 = pos0.
Proof.
  unfold avg2, pdiv, padd, pos0. cbn [px py].
  f_equal; apply B2SF_inj; vm_compute; reflexivity.
Qed.

Lemma seg_inf_not_flat : flat_enough seg_inf = false.
Proof. vm_compute. reflexivity. Qed.

Lemma seg_inf_left_flat : flat_enough seg_inf_left = true.
Proof. vm_compute. reflexivity. Qed.

(* the right child of the segment is the segment *)
Lemma seg_inf_subdiv : subdiv 3 seg_inf = (seg_inf_left, seg_inf).
Proof.
  unfold seg_inf, seg_inf_left. cbn [subdiv avg_step hd last app].
  rewrite !avg2_inf_zero, !avg2_zero_zero, !avg2_inf_zero. reflexivity.
Qed.

Lemma step_seg_inf rest path :
  bspline_step1 (seg_inf :: rest, path) = inl (seg_inf_left :: seg_inf :: rest, path).
Proof.
  unfold bspline_step1. cbn [fst snd]. rewrite seg_inf_not_flat.
  change (length seg_inf) with 3. rewrite seg_inf_subdiv. reflexivity.
Qed.

Lemma step_seg_inf_left rest path :
  bspline_step1 (seg_inf_left :: rest, path) = inl (rest, path ++ bezier_approx_pts seg_inf_left).
Proof. unfold bspline_step1. cbn [fst snd]. rewrite seg_inf_left_flat. reflexivity. Qed.

(* two iterations later the stack is the same and the path is longer *)
Lemma run_seg_inf n : forall rest path,
  exists path', run bspline_step1 (2 * n) (seg_inf :: rest, path) = inl (seg_inf :: rest, path').
Proof.
  induction n as [|n IH]; intros rest path; [exists path; reflexivity|].
  replace (2 * S n) with (S (S (2 * n))) by lia.
  cbn [run]. rewrite step_seg_inf, step_seg_inf_left. apply IH.
Qed.

(* T01g for the IEEE instance, refuted without a coordinate bound: no fuel is enough *)
Theorem bezier_inf_never_returns fuel path :
  approximate_bezier_L1 fuel path seg_inf tt = OutOfFuel.
Proof.
  unfold approximate_bezier_L1, iter_fuel. rewrite iterP_run.
  destruct (Nat.Even_or_Odd (Pos.to_nat fuel)) as [[n Hn]|[n Hn]]; rewrite Hn.
  - destruct (run_seg_inf n [] path) as (p' & ->). reflexivity.
  - rewrite run_add. destruct (run_seg_inf n [] path) as (p' & ->).
    cbn [run]. rewrite step_seg_inf. reflexivity.
Qed.

(* ... and the path really grows: every second iteration appends the two
   vertices that bezier_approximate emits for L (the code allocates until it aborts) *)
Lemma run_seg_inf_path n : forall rest path,
  exists path', run bspline_step1 (2 * n) (seg_inf :: rest, path) = inl (seg_inf :: rest, path')
                /\ length path' = length path + n * length (bezier_approx_pts seg_inf_left).
Proof.
  induction n as [|n IH]; intros rest path; [exists path; split; [reflexivity|lia]|].
  replace (2 * S n) with (S (S (2 * n))) by lia.
  cbn [run]. rewrite step_seg_inf, step_seg_inf_left.
  destruct (IH rest (path ++ bezier_approx_pts seg_inf_left)) as (p' & -> & Hl).
  exists p'. split; [reflexivity|]. rewrite Hl, app_length. lia.
Qed.

Lemma bezier_approx_pts_seg_inf_left_length : length (bezier_approx_pts seg_inf_left) = 2.
Proof.
  unfold bezier_approx_pts. pose proof (subdiv_length (length seg_inf_left) seg_inf_left) as [Hl Hr].
  destruct (subdiv (length seg_inf_left) seg_inf_left) as [l r]. cbn [fst snd] in *.
  change (length seg_inf_left) with 3 in *.
  destruct l as [|l0 [|l1 [|l2 [|? ?]]]]; try discriminate Hl.
  destruct r as [|r0 [|r1 [|r2 [|? ?]]]]; try discriminate Hr.
  reflexivity.
Qed.

(* the whole constructor, every libm, every fuel, every mode, every requested length *)
Definition slider_inf : list PathControlPoint :=
  [mkPCP p_inf (Some BSpline); mkPCP pos0 None; mkPCP pos0 None].

Theorem curve_inf_never_returns lm fuel mode e :
  curve_L1 lm fuel mode slider_inf e = OutOfFuel.
Proof.
  unfold curve_L1, calculate_path_L1, slider_inf.
  cbn [length map pc_pos cpath_loop aget nth_error obind pc_type andb Nat.ltb Nat.leb Nat.sub orb
       firstn skipn app calculate_subpath bez3].
  unfold bez3. fold seg_inf. rewrite bezier_inf_never_returns. reflexivity.
Qed.

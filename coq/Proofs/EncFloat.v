(* EncFloat: integers as floats.  [of_Z n] is exact for |n| < 2^prec and is
   read back by the saturating cast [to_int_sat] (Rust `as i32`). *)
From RM Require Import Model.Floats.
From Flocq Require Import Core BinarySingleNaN.
From Coq Require Import Reals Lia Lra ZArith.
Open Scope Z_scope.

Section OfZ.
  Variables prec emax : Z.
  Context (Hp : Prec_gt_0 prec) (He : Prec_lt_emax prec emax).

  Lemma of_Z_exact n : Z.abs n < 2 ^ prec ->
    B2R (of_Z prec emax Hp He n) = IZR n /\ is_finite (of_Z prec emax Hp He n) = true.
  Proof.
    intros Hn. unfold of_Z.
    pose proof (binary_normalize_correct prec emax Hp He mode_NE n 0 false) as H.
    cbv zeta in H.
    assert (Hx : F2R (Float radix2 n 0) = IZR n).
    { unfold F2R. cbn [Fnum Fexp bpow]. lra. }
    rewrite Hx in H.
    assert (Hprec : 0 < prec) by exact Hp.
    assert (Hemax : prec < emax) by exact He.
    assert (Hg : generic_format radix2 (SpecFloat.fexp prec emax) (IZR n)).
    { rewrite <- Hx. apply (generic_format_FLT radix2 (SpecFloat.emin prec emax) prec).
      apply (FLT_spec radix2 _ _ _ (Float radix2 n 0)); cbn [Fnum Fexp].
      - reflexivity.
      - change (Zpower radix2 prec) with (2 ^ prec). exact Hn.
      - unfold SpecFloat.emin. lia. }
    rewrite round_generic in H; [|apply valid_rnd_round_mode|exact Hg].
    assert (Hlt : (Rabs (IZR n) < bpow radix2 emax)%R).
    { rewrite <- abs_IZR. apply Rlt_le_trans with (IZR (2 ^ prec)).
      - apply IZR_lt. exact Hn.
      - change 2 with (radix_val radix2). rewrite IZR_Zpower by lia. apply bpow_le. lia. }
    rewrite (Rlt_bool_true _ _ Hlt) in H. destruct H as (H1 & H2 & _). split; assumption.
  Qed.

  Lemma to_int_sat_of_Z lo hi n : Z.abs n < 2 ^ prec -> lo <= n <= hi ->
    to_int_sat prec emax lo hi (of_Z prec emax Hp He n) = n.
  Proof.
    intros Hn Hr. destruct (of_Z_exact n Hn) as [HR HF].
    assert (Ht : Btrunc (of_Z prec emax Hp He n) = n).
    { apply eq_IZR. rewrite Btrunc_correct; [|exact He]. rewrite HR, round_FIX_IZR, Ztrunc_IZR. reflexivity. }
    unfold to_int_sat. destruct (of_Z prec emax Hp He n) as [s|s| |s m e Hv]; try discriminate;
      rewrite Ht; replace (n <? lo) with false by lia; replace (hi <? n) with false by lia; reflexivity.
  Qed.
End OfZ.

Lemma f64_as_i32_of_Z n : - 2 ^ 31 <= n <= 2 ^ 31 - 1 -> f64_as_i32 (D.of_Z n) = n.
Proof.
  intros H. unfold f64_as_i32, D.to_int_sat, D.of_Z.
  apply to_int_sat_of_Z; unfold i32_min, i32_max; lia.
Qed.

Lemma f32_as_i32_of_Z n : Z.abs n < 2 ^ 24 -> f32_as_i32 (S.of_Z n) = n.
Proof.
  intros H. unfold f32_as_i32, S.to_int_sat, S.of_Z.
  apply to_int_sat_of_Z; unfold i32_min, i32_max; lia.
Qed.

Lemma D_of_Z_finite n : Z.abs n < 2 ^ 53 -> is_finite (D.of_Z n) = true.
Proof. intros H. exact (proj2 (of_Z_exact 53 1024 Hp64 He64 n H)). Qed.

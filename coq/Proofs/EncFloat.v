(* EncFloat: integers as floats.  [of_Z n] is exact for |n| < 2^prec and is
   read back by the saturating cast [to_int_sat] (Rust `as i32`). *)
From RM Require Import Model.Floats.
From Flocq Require Import Core BinarySingleNaN.
From Coq Require Import Reals Lia Lra ZArith.
Open Scope Z_scope.

Section OfZ.
  Variables prec emax : Z.
  Context (Hp : Prec_gt_0 prec) (He : Prec_lt_emax prec emax).

  Lemma of_Z_exact n : Z.abs n < 2 ^ prec ->
    B2R (of_Z prec emax Hp He n) = IZR n /\ is_finite (of_Z prec emax Hp He n) = true.
  Proof.
    intros Hn. unfold of_Z.
    pose proof (binary_normalize_correct prec emax Hp He mode_NE n 0 false) as H.
    cbv zeta in H.
    assert (Hx : F2R (Float radix2 n 0) = IZR n).
    { unfold F2R. cbn [Fnum Fexp bpow]. lra. }
    rewrite Hx in H.
    assert (Hprec : 0 < prec) by exact Hp.
    assert (Hemax : prec < emax) by exact He.
    assert (Hg : generic_format radix2 (SpecFloat.fexp prec emax) (IZR n)).
    { rewrite <- Hx. apply (generic_format_FLT radix2 (SpecFloat.emin prec emax) prec).
      apply (FLT_spec radix2 _ _ _ (Float radix2 n 0)); cbn [Fnum Fexp].
      - reflexivity.
      - change (Zpower radix2 prec) with (2 ^ prec). exact Hn.
      - unfold SpecFloat.emin. lia. }
    rewrite round_generic in H; [|apply valid_rnd_round_mode|exact Hg].
    assert (Hlt : (Rabs (IZR n) < bpow radix2 emax)%R).
    { rewrite <- abs_IZR. apply Rlt_le_trans with (IZR (2 ^ prec)).
      - apply IZR_lt. exact Hn.
      - change 2 with (radix_val radix2). rewrite IZR_Zpower by lia. apply bpow_le. lia. }
    rewrite (Rlt_bool_true _ _ Hlt) in H. destruct H as (H1 & H2 & _). split; assumption.
  Qed.

  Lemma to_int_sat_of_Z lo hi n : Z.abs n < 2 ^ prec -> lo <= n <= hi ->
    to_int_sat prec emax lo hi (of_Z prec emax Hp He n) = n.
  Proof.
    intros Hn Hr. destruct (of_Z_exact n Hn) as [HR HF].
    assert (Ht : Btrunc (of_Z prec emax Hp He n) = n).
    { apply eq_IZR. rewrite Btrunc_correct; [|exact He]. rewrite HR, round_FIX_IZR, Ztrunc_IZR. reflexivity. }
    unfold to_int_sat. destruct (of_Z prec emax Hp He n) as [s|s| |s m e Hv]; try discriminate;
      rewrite Ht; replace (n <? lo) with false by lia; replace (hi <? n) with false by lia; reflexivity.
  Qed.
End OfZ.

Lemma f64_as_i32_of_Z n : - 2 ^ 31 <= n <= 2 ^ 31 - 1 -> f64_as_i32 (D.of_Z n) = n.
Proof.
  intros H. unfold f64_as_i32, D.to_int_sat, D.of_Z.
  apply to_int_sat_of_Z; unfold i32_min, i32_max; lia.
Qed.

Lemma f32_as_i32_of_Z n : Z.abs n < 2 ^ 24 -> f32_as_i32 (S.of_Z n) = n.
Proof.
  intros H. unfold f32_as_i32, S.to_int_sat, S.of_Z.
  apply to_int_sat_of_Z; unfold i32_min, i32_max; lia.
Qed.

Lemma D_of_Z_finite n : Z.abs n < 2 ^ 53 -> is_finite (D.of_Z n) = true.
Proof. intros H. exact (proj2 (of_Z_exact 53 1024 Hp64 He64 n H)). Qed.

(* comparisons between integers stored as floats *)
Section CmpZ.
  Variables prec emax : Z.
  Context (Hp : Prec_gt_0 prec) (He : Prec_lt_emax prec emax).

  Lemma flt_of_Z a b : Z.abs a < 2 ^ prec -> Z.abs b < 2 ^ prec ->
    flt prec emax (of_Z prec emax Hp He a) (of_Z prec emax Hp He b) = (a <? b).
  Proof.
    intros Ha Hb. destruct (of_Z_exact prec emax Hp He a Ha) as [Ra Fa].
    destruct (of_Z_exact prec emax Hp He b Hb) as [Rb Fb].
    unfold flt. rewrite Bltb_correct by assumption. rewrite Ra, Rb.
    destruct (Rlt_bool_spec (IZR a) (IZR b)) as [H|H].
    - apply lt_IZR in H. symmetry. apply Z.ltb_lt. exact H.
    - apply le_IZR in H. symmetry. apply Z.ltb_ge. exact H.
  Qed.

  Lemma fneg_of_Z a : Z.abs a < 2 ^ prec -> a <> 0 ->
    B2R (fneg prec emax (of_Z prec emax Hp He a)) = IZR (- a) /\
    is_finite (fneg prec emax (of_Z prec emax Hp He a)) = true.
  Proof.
    intros Ha _. destruct (of_Z_exact prec emax Hp He a Ha) as [Ra Fa].
    unfold fneg. rewrite B2R_Bopp, is_finite_Bopp, Ra, opp_IZR. split; [reflexivity|exact Fa].
  Qed.
End CmpZ.

(* a coordinate within +-MAX_COORDINATE_VALUE passes the decoder's limit test *)
Lemma coord_in_limit n : Z.abs n <= 131072 ->
  S.lt (S.of_Z n) (S.neg (S.of_Z 131072)) = false /\ S.gt (S.of_Z n) (S.of_Z 131072) = false /\
  S.is_nan (S.of_Z n) = false /\ is_finite (S.of_Z n) = true.
Proof.
  intros H. assert (Hn : Z.abs n < 2 ^ 24) by lia. assert (Hl : Z.abs 131072 < 2 ^ 24) by (cbn; lia).
  destruct (of_Z_exact 24 128 Hp32 He32 n Hn) as [Rn Fn].
  destruct (fneg_of_Z 24 128 Hp32 He32 131072 Hl ltac:(lia)) as [Rm Fm].
  repeat split.
  - unfold S.lt, S.neg, S.of_Z, flt. rewrite Bltb_correct by assumption. rewrite Rn, Rm.
    apply Rlt_bool_false. apply IZR_le. lia.
  - unfold S.gt, fgt. change (Bltb (S.of_Z 131072) (S.of_Z n)) with (flt 24 128 (S.of_Z 131072) (S.of_Z n)).
    unfold S.of_Z. rewrite (flt_of_Z 24 128 Hp32 He32 131072 n Hl Hn). apply Z.ltb_ge. lia.
  - unfold S.is_nan, fis_nan, S.of_Z. destruct (of_Z 24 128 Hp32 He32 n); try reflexivity; discriminate Fn.
  - exact Fn.
Qed.

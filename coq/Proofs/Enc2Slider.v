(* Enc2Slider: C02 / T02e -- sliders end to end.

   1. [slider_line_reread]: the line the encoder writes for a slider (outside the recorded
      classes: [slider_ok]) is accepted in every parser state and adds a slider with the same
      start time, position, control points, repeat count, node count, the mode of the parser
      state, and the expected length [reread_len d] where [d] is the written length (the explicit
      length, or the distance of the computed curve);
   2. [reread_len]: an explicit length of the decoder's image is read back as itself
      ([elen_img], an invariant of every decoded map); the distance of a computed curve is read
      back as an explicit length equal to the natural length, or as "no length" when below
      f64::EPSILON;
   3. [curve_reread]: in both cases the curve computed for the re-read slider IS the curve of
      the original one -- same path, same cumulative lengths (the crate compares
      (calculated - requested).abs() > 0.0, so requesting the natural length keeps the natural
      curve: Proofs/LengthExact.v);
   4. [velocity_closed_form_eq]: the velocity of a decoded slider is a function of SliderMultiplier,
      the mode, the slider velocity in force at its start time and the timing point found there;
      two decoded maps that agree on these (T02a, T02d) give the slider the same velocity. *)
From RM Require Import Model.EncPathSpec Model.HitObjectSpec Model.EncTimingSpec Proofs.EncText Proofs.EncFmt Proofs.EncFloat
     Proofs.EncSimple Proofs.EncObjects Proofs.FramingFacts Proofs.NumFacts Proofs.PathStringFacts
     Proofs.EncPathEnc Proofs.EncPathDec Proofs.EncPathRT Proofs.FloatCmp Proofs.FloatFacts14 Proofs.EncSlider
     Proofs.EncLineImage Proofs.EncMapImage Proofs.HitObjectLineFacts Proofs.DecodersFacts Proofs.DecodersTotal
     Proofs.MapLevelFacts Proofs.ControlPointsFacts Proofs.EncGroups Proofs.DecodedValues Proofs.EncTimingImage.
From RM Require Model.Curve.
From RM Require Import Proofs.LengthFacts Proofs.LengthExact Model.DrvEnc.
From RM Require Import Gen.Generated.
From Flocq Require Import BinarySingleNaN.
From Coq Require Import ZifyBool Permutation.
Open Scope Z_scope.

(* ---------- the length field, read back ---------- *)

(* what parse_slider_pre makes of the length field [d]: .max(0.0), then "no length" below EPSILON *)
Definition reread_len (d : F64) : option F64 :=
  let new_len := f64_max_lit d D.zero in
  if D.ge (D.abs new_len) D.eps then Some new_len else None.

Lemma reread_len_rule d : reread_len d = if D.ge d D.eps then Some d else None.
Proof. exact (length_rule d). Qed.

(* the explicit lengths of the decoder's image: at least EPSILON *)
Definition elen_img (h : HitObject) : Prop :=
  match h_kind h with
  | KSlider s => match sl_expected_dist s with Some d => D.ge d D.eps = true | None => True end
  | _ => True
  end.

Lemma elen_img_reread h s d : h_kind h = KSlider s -> elen_img h -> sl_expected_dist s = Some d -> reread_len d = Some d.
Proof. intros Hk H E. unfold elen_img in H. rewrite Hk, E in H. rewrite reread_len_rule, H. reflexivity. Qed.

(* ---------- [elen_img] holds of every decoded slider ---------- *)

Lemma parse_elen_img st line st' r :
  Forall elen_img (ho_objects st) -> parse_hit_objects st line = Done (st', r) -> Forall elen_img (ho_objects st').
Proof.
  intros Hst H. destruct r; [|rewrite (parse_rejected_objects st line st' H); exact Hst].
  destruct (parse_hit_objects_spec st line) as [scratch Hs]. rewrite Hs in H. clear Hs.
  injection H as H. unfold line_spec_with in H.
  destruct (common_spec line) as [f|]; [|discriminate].
  assert (Acc : forall st0 k bank, ho_objects st0 = ho_objects st ->
            match k with KSlider s => match sl_expected_dist s with Some d => D.ge d D.eps = true | None => True end | _ => True end ->
            accept st0 f k bank = (st', Ok) -> Forall elen_img (ho_objects st')).
  { intros st0 k bank Ho Hk Ha. unfold accept in Ha. injection Ha as <-. cbn [ho_objects]. rewrite Ho.
    apply Forall_app. split; [exact Hst|]. constructor; [|constructor]. unfold elen_img. cbn [h_kind]. exact Hk. }
  unfold kind_of_type in H.
  destruct (flag_bit hot_circle (f_type f)).
  { destruct (extras_spec _) as [bank|]; [|discriminate]. refine (Acc _ _ _ eq_refl _ H). exact I. }
  destruct (flag_bit hot_slider (f_type f)).
  { destruct (slider_fields_spec (f_sound f) (f_rest f)) as [pre|] eqn:Ep; [|discriminate].
    destruct (path_spec (spre_point_str pre) (f_pos f)) as [cps ok]. destruct ok; [|discriminate].
    refine (Acc (mkHO (ho_last st) [] scratch (ho_objects st) (ho_mode st)) _ _ eq_refl _ H).
    cbn [sl_expected_dist].
    (* the length of the fields specification *)
    unfold slider_fields_spec in Ep.
    destruct (nth_error (f_rest f) 0); [|discriminate].
    destruct (obnd (nth_error (f_rest f) 1) pn_i32); [|discriminate].
    destruct (repeat_cap <? z); [discriminate|].
    destruct (length_spec (nth_error (f_rest f) 2)) as [len|] eqn:El; [|discriminate].
    destruct (match nth_error (f_rest f) 5 with Some s0 => _ | None => _ end); [|discriminate].
    destruct (node_samples_spec _ _ _ _ _); [|discriminate]. cbn [omap] in Ep. injection Ep as <-. cbn [spre_len].
    unfold length_spec in El. destruct (nth_error (f_rest f) 2) as [s2|]; [|injection El as <-; exact I].
    destruct (pn_f64_lim coord_lim64 s2) as [v|]; [|discriminate]. cbn [omap] in El. injection El as <-.
    destruct (D.ge v D.eps) eqn:Ev; [exact Ev|exact I]. }
  destruct (flag_bit hot_spinner (f_type f)).
  { destruct (obnd _ pn_f64) as [e|]; [|discriminate]. destruct (extras_spec _) as [bank|]; [|discriminate].
    refine (Acc _ _ _ eq_refl _ H). exact I. }
  destruct (flag_bit hot_hold (f_type f)); [|discriminate].
  destruct (nth_error (f_rest f) 0) as [[|c s]|].
  - refine (Acc _ _ _ eq_refl _ H). exact I.
  - destruct (obnd _ pn_f64) as [e|]; [|discriminate]. destruct (banks_spec _ _ _) as [bank|]; [|discriminate].
    refine (Acc _ _ _ eq_refl _ H). exact I.
  - refine (Acc _ _ _ eq_refl _ H). exact I.
Qed.

Lemma force_new_combo_elen h f : elen_img h -> elen_img (force_new_combo h f).
Proof.
  unfold force_new_combo, elen_img. destruct (h_kind h) as [c|s|s|hd] eqn:E; cbn [h_kind sl_expected_dist]; try rewrite E; auto.
Qed.

Lemma post_process_elen bs : forall objs, Forall elen_img objs ->
  Forall elen_img (post_process_breaks h_start force_new_combo bs objs).
Proof.
  intros objs. revert bs. induction objs as [|h r IH]; intros bs H; cbn [post_process_breaks]; [constructor|].
  inversion H as [|? ? Hh Hr]; subst. destruct (skip_breaks bs (h_start h) false) as [bs' f].
  constructor; [apply force_new_combo_elen; exact Hh|apply IH; exact Hr].
Qed.

Section WithDist.
  Variable dist_of : Z -> list PCP -> option F64 -> outcome F64.

  Lemma process_object_elen c sm mode h h' :
    elen_img h -> process_object dist_of c sm mode h = Done h' -> elen_img h'.
  Proof.
    intros Hh H. unfold process_object in H. unfold elen_img in Hh.
    destruct (h_kind h) as [ci|s|sp|hd] eqn:E; cbn [obind] in H.
    - injection H as <-. unfold elen_img. cbn [h_kind]. exact I.
    - destruct (difficulty_point_at c (h_start h)) as [dp|w|]; cbn [obind] in H; try discriminate.
      destruct (slider_duration dist_of _) as [d|w|]; cbn [obind] in H; try discriminate.
      injection H as <-. unfold elen_img. cbn [h_kind sl_expected_dist]. exact Hh.
    - injection H as <-. unfold elen_img. cbn [h_kind]. exact I.
    - injection H as <-. unfold elen_img. cbn [h_kind]. exact I.
  Qed.

  Lemma process_objects_elen c sm mode : forall l l',
    Forall elen_img l -> process_objects dist_of c sm mode l = Done l' -> Forall elen_img l'.
  Proof.
    induction l as [|h r IH]; intros l' Hl H; cbn [process_objects] in H.
    - injection H as <-. constructor.
    - inversion Hl as [|? ? Hh Hr]; subst.
      destruct (process_object dist_of c sm mode h) as [h'|w|] eqn:Eh; cbn [obind] in H; try discriminate.
      destruct (process_objects dist_of c sm mode r) as [r'|w|] eqn:Er; cbn [obind] in H; try discriminate.
      injection H as <-. constructor; [exact (process_object_elen c sm mode h h' Hh Eh)|exact (IH r' Hr eq_refl)].
  Qed.

  Definition elen_inv (os : outcome BMD) : Prop :=
    match os with Done b => Forall elen_img (hod_objects (bmd_ho b)) | _ => True end.

  Lemma elen_step sec os l : elen_inv os -> elen_inv (fst (parser_of bm_parsers sec os l)).
  Proof.
    intros Hos. destruct os as [b|w|]; [|destruct sec; exact I|destruct sec; exact I].
    cbn [elen_inv] in Hos. destruct b as [ver ed md co ho]. destruct ho as [tp df ev last curve verts objs].
    cbn [bmd_ho hod_objects] in Hos.
    destruct sec; cbn [parser_of bm_parsers p_general p_editor p_metadata p_difficulty p_events p_timing_points
                       p_colors p_hit_objects p_variables p_catch_the_beat p_mania];
      unfold liftp, liftt, on_ho, noop; cbn [obind bmd_ho bmd_version bmd_editor bmd_metadata bmd_colors fst].
    - unfold hod_parse_general. destruct (tpd_parse_general _ l) as [g r]. cbn [obind fst elen_inv bmd_ho hod_with_tp hod_objects]. exact Hos.
    - unfold bmd_parse_editor. destruct (parse_editor _ l) as [e r]. cbn [fst elen_inv bmd_ho hod_objects]. exact Hos.
    - unfold bmd_parse_metadata. destruct (parse_metadata _ l) as [m r]. cbn [fst elen_inv bmd_ho hod_objects]. exact Hos.
    - unfold hod_parse_difficulty. destruct (parse_difficulty _ l) as [d r]. cbn [obind fst elen_inv bmd_ho hod_objects]. exact Hos.
    - unfold hod_parse_events. destruct (parse_events _ l) as [e r]. cbn [obind fst elen_inv bmd_ho hod_objects]. exact Hos.
    - unfold hod_parse_timing_points. destruct (tpd_parse_timing_points _ l) as [[t r]|w|]; cbn [obind fst elen_inv]; try exact I.
      cbn [bmd_ho hod_with_tp hod_objects]. exact Hos.
    - unfold bmd_parse_colors. destruct (parse_colors _ l) as [c r]. cbn [fst elen_inv bmd_ho hod_objects]. exact Hos.
    - unfold hod_parse_hit_objects. destruct (parse_hit_objects _ l) as [[c r]|w|] eqn:E; cbn [obind fst elen_inv]; try exact I.
      cbn [bmd_ho hod_with_core hod_objects]. eapply parse_elen_img; [|exact E]. exact Hos.
    - exact Hos.
    - exact Hos.
    - exact Hos.
  Qed.

  (* every explicit slider length of every decoded map is read back as itself *)
  Theorem decoded_elen_img lines m :
    decode_beatmap dist_of lines = Done m -> Forall elen_img (hov_hit_objects (bmv_ho m)).
  Proof.
    revert m. unfold decode_beatmap.
    assert (Hc : forall v, elen_inv (Done (bmd_create v))) by (intros v; cbn; constructor).
    apply (driver_invariant _ _ _ elen_inv Hc elen_step
             (fun ov => forall m, ov = Done m -> Forall elen_img (hov_hit_objects (bmv_ho m)))).
    intros st Hst m. destruct st as [s|w|]; cbn [obind]; try discriminate.
    cbn [elen_inv] in Hst. unfold bmd_finish, hod_finish.
    destruct (tpd_finish (hod_tp (bmd_ho s))) as [tv|w|]; cbn [obind]; try discriminate.
    destruct (finish_hit_objects _ _ _ _ _ _) as [objs|w|] eqn:E; cbn [obind]; try discriminate.
    intros H; inversion H; subst. cbn [bmv_ho hov_hit_objects].
    unfold finish_hit_objects in E. eapply process_objects_elen; [|exact E].
    apply post_process_elen. eapply Permutation_Forall; [|exact Hst]. symmetry. apply ssort_perm.
  Qed.
End WithDist.

(* ---------- the slider line, read back ---------- *)

Section Slider2.
  Variables (fmt_f64 : F64 -> str) (fmt_f32 : F32 -> str) (fmt_int : Z -> str).
  Hypothesis Hfmt : fmt_ok fmt_f64 fmt_f32 fmt_int.
  Hypothesis H32 : fmt_f32_int fmt_f32 fmt_int.
  Notation rline := (render fmt_f64 fmt_f32 fmt_int).
  Notation ehead := (extras_head fmt_int).
  Local Notation rl_app := (EncSlider.rl_app fmt_f64 fmt_f32 fmt_int).
  Local Notation render_node_sounds := (EncSlider.render_node_sounds fmt_f64 fmt_f32 fmt_int).
  Local Notation render_node_banks := (EncSlider.render_node_banks fmt_f64 fmt_f32 fmt_int).
  Local Notation sound_strs := (EncSlider.sound_strs fmt_int).
  Local Notation bank_strs := (EncSlider.bank_strs fmt_int).
  Local Notation sound_strs_chars := (EncSlider.sound_strs_chars fmt_f64 fmt_f32 fmt_int Hfmt).
  Local Notation bank_strs_chars := (EncSlider.bank_strs_chars fmt_f64 fmt_f32 fmt_int Hfmt).
  Local Notation len_field := (EncSlider.len_field fmt_f64 fmt_f32 fmt_int Hfmt).
  Local Notation bank_strs_read := (EncSlider.bank_strs_read fmt_f64 fmt_f32 fmt_int Hfmt).
  Local Notation bank_piece_nonempty := (EncSlider.bank_piece_nonempty fmt_f64 fmt_f32 fmt_int Hfmt).

  (* slider_line_accepted with the remaining fields of the re-read slider: the mode of the parser
     state, the expected length, the velocity placeholder, the combo offset *)
  Theorem slider_line_reread dist mode h s d l :
    h_kind h = KSlider s -> written_len dist s = Done d -> slider_ok h s d = true ->
    object_line dist mode h = Done l ->
    forall st, exists st' o s',
      parse_hit_objects st (rline l) = Done (st', Ok) /\
      ho_objects st' = ho_objects st ++ [o] /\
      h_start o = h_start h /\ h_kind o = KSlider s' /\
      sl_pos s' = sl_pos s /\
      sl_control_points s' = sl_control_points s /\
      sl_repeat_count s' = sl_repeat_count s /\
      length (sl_node_samples s') = Z.to_nat (sl_repeat_count s + 2) /\
      sl_mode s' = ho_mode st /\
      sl_expected_dist s' = reread_len d /\
      sl_velocity s' = D.one /\
      sl_combo_offset s' = (if sl_new_combo s then sl_combo_offset s else 0).
  Proof.
    intros Hk Hd Hok Hl st. unfold slider_ok in Hok.
    repeat match type of Hok with _ && _ = true =>
      let X := fresh "X" in apply andb_true_iff in Hok; destruct Hok as [Hok X] end.
    rename Hok into Ht. rename X11 into Hs. rename X10 into Cx. rename X9 into Cy. rename X8 into O1.
    rename X7 into O2. rename X6 into R1. rename X5 into R2. rename X4 into Hnodes. rename X3 into Him.
    rename X2 into N13. rename X1 into N17. rename X0 into Ncc. rename X into Hlen.
    apply negb_true_iff in N13. apply negb_true_iff in N17. apply negb_true_iff in Ncc.
    set (rc := sl_repeat_count s) in *.
    assert (Hrc : 0 <= rc < 9000) by (clear - R1 R2; unfold repeat_cap in R2; lia).
    assert (Hoff : 0 <= sl_combo_offset s <= 7) by (clear - O1 O2; lia).
    (* the tokens *)
    unfold object_line in Hl. rewrite Hk in Hl. unfold object_pos in Hl. rewrite Hk in Hl.
    unfold slider_toks in Hl. unfold written_len in Hd. rewrite Hd in Hl. cbn [obind] in Hl.
    unfold span_iters in Hl. fold rc in Hl. replace (rc + 1 <? 0) with false in Hl by (clear - Hrc; lia).
    remember (S (Z.to_nat (rc + 1))) as n eqn:En.
    cbn [obind] in Hl. injection Hl as <-.
    set (nodes := sl_node_samples s) in *.
    (* the pieces as text *)
    destruct (path_round_trip fmt_f64 fmt_f32 fmt_int Hfmt H32 (sl_pos s) (sl_control_points s) Him N13 N17 Ncc)
      as (ps & Eps & Pcomma & Psafe & _ & Pconv).
    destruct (sound_strs_chars nodes n 0) as [SA SB]. destruct (bank_strs_chars nodes n 0) as [BA BB].
    destruct (sepcat_split (sound_strs n 0 nodes) ltac:(rewrite En; discriminate) SB) as (ss & Ess & Scomma & Ssplit).
    destruct (sepcat_split (bank_strs n 0 nodes) ltac:(rewrite En; discriminate) BB) as (bs & Ebs & Bcomma & Bsplit).
    assert (Ssafe : forallb safec ss = true).
    { pose proof (sepcat_safe' _ SA) as X. rewrite Ess, forallb_app in X. exact (andb_prop_l _ _ X). }
    assert (Bsafe : forallb safec bs = true).
    { pose proof (sepcat_safe' _ BA) as X. rewrite Ebs, forallb_app in X. exact (andb_prop_l _ _ X). }
    pose proof (extras_vals_ok (h_samples h) mode Hs) as EV.
    pose proof (render_extras fmt_f64 fmt_f32 fmt_int (h_samples h) mode) as RE.
    destruct (extras_vals (h_samples h) mode) as [[[[nb ab] cu] vo] f].
    destruct EV as (E1 & E2 & E3 & E4 & E5 & E6 & E7 & E8).
    set (K := object_type h). set (S0 := sound_type_of (h_samples h)).
    set (Rs := ps ++ comma :: fmt_int (rc + 1) ++ comma :: fmt_f64 d ++ comma :: ss ++ comma :: bs ++
               comma :: ehead nb ab cu vo).
    assert (EL : rline ([TF32 (px (sl_pos s)); t_comma; TF32 (py (sl_pos s)); t_comma; TF64 (h_start h); t_comma;
                         TInt K; t_comma; TInt S0; t_comma] ++
                        (path_toks (sl_pos s) (sl_control_points s) ++
                         [TInt (rc + 1); t_comma; TF64 d; t_comma] ++
                         node_sound_toks n 0 nodes ++ node_bank_toks n 0 nodes mode) ++
                        sample_bank_toks (h_samples h) false mode)
                 = head_text fmt_f64 fmt_f32 fmt_int (px (sl_pos s)) (py (sl_pos s)) (h_start h) K S0 ++ Rs ++ f).
    { rewrite !rl_app, RE, Eps, render_node_sounds, Ess, (render_node_banks mode), Ebs.
      unfold Rs, head_text, render. cbn [flat_map render_tok t_comma]. rewrite !app_nil_r. unfold comma.
      repeat (progress (rewrite <- ?app_assoc; cbn [app])). reflexivity. }
    cbn [app] in EL |- *. rewrite EL. clear EL RE.
    (* the type byte *)
    assert (HK : i32_min <= K <= i32_max /\
                 let t2 := Z.land (Z.land K (Z.lnot hot_combo_offset)) (Z.lnot hot_new_combo) in
                 has_flag t2 hot_circle = false /\ has_flag t2 hot_slider = true /\
                 has_flag (Z.land K (Z.lnot hot_combo_offset)) hot_new_combo = sl_new_combo s /\
                 Z.shiftr (Z.land K hot_combo_offset) 4 = sl_combo_offset s).
    { unfold K, object_type. rewrite Hk.
      destruct (offset_cases (sl_combo_offset s) Hoff) as [E|[E|[E|[E|[E|[E|[E|E]]]]]]];
        rewrite E; destruct (sl_new_combo s); vm_compute; (split; [split; discriminate|repeat split; reflexivity]). }
    destruct HK as [HK [F1 [F2 [F3 F4]]]].
    assert (Rsafe : forallb safec Rs = true).
    { unfold Rs. repeat (rewrite forallb_app || cbn [forallb]).
      rewrite Psafe, Ssafe, Bsafe, (int_safe _ _ _ Hfmt), (f64_safe _ _ _ Hfmt), (extras_head_safe _ _ _ Hfmt).
      reflexivity. }
    unfold parse_hit_objects.
    rewrite (parse_header_line fmt_f64 fmt_f32 fmt_int Hfmt _ _ _ K S0 _ f Cx Cy Ht HK (sound_type_range _) Rsafe E7 E8).
    unfold parse_kind. cbn [hd_type hd_rest hd_pos hd_new_combo hd_combo_offset hd_sound hd_start].
    rewrite F1, F2, F3, F4.
    (* the fields *)
    unfold Rs. repeat (progress (rewrite <- ?app_assoc; cbn [app])).
    rewrite (split_on_field comma ps) by exact Pcomma.
    rewrite (split_on_field comma (fmt_int (rc + 1))) by (apply (int_no _ _ _ Hfmt); reflexivity).
    rewrite (split_on_field comma (fmt_f64 d)) by (apply (f64_no _ _ _ Hfmt); reflexivity).
    rewrite (split_on_field comma ss) by exact Scomma.
    rewrite (split_on_field comma bs) by exact Bcomma.
    rewrite split_no_comma by (rewrite memb_app, (extras_head_no_comma _ _ _ Hfmt), E6; reflexivity).
    (* parse_slider_pre *)
    unfold parse_slider_pre.
    rewrite (pn_i32_fmt _ _ _ Hfmt (rc + 1)) by (clear - Hrc; unfold i32_ok, max_parse_value; lia).
    replace (repeat_cap <? rc + 1) with false by (clear - Hrc; unfold repeat_cap; lia).
    replace (rc + 1 - 1 <? i32_min) with false by (clear - Hrc; unfold i32_min; lia).
    replace (Z.max 0 (rc + 1 - 1)) with rc by (clear - Hrc; lia).
    cbn [next]. rewrite (len_field d Hlen).
    assert (Hbank : exists b, read_custom_sample_banks sbi_default
                                (split_on 58 (ehead nb ab cu vo ++ f)) true = Some b).
    { change 58 with colon. rewrite (split_extras _ _ _ Hfmt nb ab cu vo f E5).
      cbn [read_custom_sample_banks].
      destruct (fmt_int nb) as [|x0 r0] eqn:E0; [exfalso; exact (int_nonempty' _ _ _ Hfmt nb E0)|]. rewrite <- E0.
      rewrite (pn_i32_fmt _ _ _ Hfmt nb (enum4_i32 _ E1)), (pn_i32_fmt _ _ _ Hfmt ab (enum4_i32 _ E2)).
      eexists. reflexivity. }
    destruct Hbank as [bank Ebank]. rewrite Ebank.
    replace (rc <? 0) with false by (clear - Hrc; lia).
    set (cnt := Z.to_nat (rc + 2)).
    assert (NE : forall x : str, x <> [] -> nonempty (Some x) = Some x) by (intros [|? ?] ?; [congruence|reflexivity]).
    assert (NEs : ss <> []).
    { intros E. rewrite E in Ssplit.
      cbn [split_on] in Ssplit. rewrite En in Ssplit. cbn [EncSlider.sound_strs] in Ssplit. injection Ssplit as X _.
      exact (int_nonempty' _ _ _ Hfmt _ (eq_sym X)). }
    assert (NEb : bs <> []).
    { intros E. rewrite E in Bsplit.
      cbn [split_on] in Bsplit. rewrite En in Bsplit. cbn [EncSlider.bank_strs] in Bsplit. injection Bsplit as X _.
      exact (bank_piece_nonempty _ (eq_sym X)). }
    rewrite (NE ss NEs), (NE bs NEb), Bsplit.
    destruct (zip_banks_ok (replicate cnt bank) (bank_strs n 0 nodes) (bank_strs_read nodes Hnodes n 0))
      as (infos & Einfos & Linfos).
    rewrite Einfos.
    (* the path *)
    destruct (Pconv (ho_vertices st)) as [vs' Econv].
    cbn [spre_point_str]. replace (mkPos (px (sl_pos s)) (py (sl_pos s))) with (sl_pos s) by (destruct (sl_pos s); reflexivity).
    rewrite Econv.
    eexists. eexists. eexists. split; [reflexivity|]. cbn [ho_objects set_bufs].
    split; [reflexivity|]. cbn [h_start h_kind sl_pos sl_control_points sl_repeat_count sl_node_samples
                                 sl_mode sl_expected_dist sl_velocity sl_combo_offset
                                 spre_repeat spre_nodes spre_len pb_curve ho_mode].
    repeat split; try reflexivity.
    cbn [sl_node_samples spre_nodes].
    rewrite zip_convert_length; rewrite ?zip_sounds_length, ?replicate_length, ?Linfos, ?replicate_length; reflexivity.
  Qed.
End Slider2.

(* ---------- the curve of the re-read slider ---------- *)

Section Curves.
  Variable lm : Curve.Libm.
  Variable fuel : positive.

  (* the length the encoder writes for a slider whose curve is [c] *)
  Definition written_of (e : option F64) (c : Curve.Curve) : F64 :=
    match e with Some L => L | None => Curve.dist (Curve.c_lengths c) end.

  (* Requesting what was written gives the very same curve: an explicit length of the decoder's
     image is requested again; the distance of the natural curve is requested as an explicit
     length equal to the natural length (kept: the comparison is exact), or not at all. *)
  Theorem curve_reread mode pts e c :
    Curve.curve_L1 lm fuel mode pts e = Done c ->
    match e with Some L => D.ge L D.eps = true | None => D.is_nan (Curve.dist (Curve.c_lengths c)) = false end ->
    Curve.curve_L1 lm fuel mode pts (reread_len (written_of e c)) = Done c.
  Proof.
    intros H He. destruct e as [L|]; cbn [written_of].
    - rewrite reread_len_rule, He. exact H.
    - rewrite reread_len_rule. destruct (D.ge (Curve.dist (Curve.c_lengths c)) D.eps) eqn:Eg; [|exact H].
      destruct (curve_L1_unfold lm fuel mode pts None c H) as (path & opt & Hp & Hl).
      destruct (no_requested_length path opt) as [Hn Hdist]. rewrite Hn in Hl.
      injection Hl as Hpath Hlens.
      unfold Curve.curve_L1. rewrite Hp. cbn [obind].
      assert (H2 : (2 <= length path)%nat).
      { (* fewer than two vertices: the distance is 0, below EPSILON *)
        destruct (Nat.le_gt_cases 2 (length path)) as [G|G]; [exact G|exfalso].
        assert (Ez : Curve.dist (Curve.c_lengths c) = D.zero).
        { rewrite <- Hlens. unfold natural.
          destruct path as [|a [|b t]]; [reflexivity|reflexivity|cbn [length] in G; lia]. }
        rewrite Ez in Eg. revert Eg. vm_compute. discriminate. }
      rewrite <- Hlens, (Hdist H2).
      rewrite request_natural_length.
      + cbn [obind]. destruct c as [cp cl]. cbn [Curve.c_path Curve.c_lengths] in Hpath, Hlens. rewrite Hlens, Hpath. reflexivity.
      + rewrite <- (Hdist H2), Hlens. exact He.
  Qed.
End Curves.

(* the slider's curve in the map model: control points converted as in Model/DrvEnc.v *)
Definition slider_curve (lm : Curve.Libm) (s : Slider) : outcome Curve.Curve :=
  Curve.curve_L1 lm Curve.bezier_fuel (sl_mode s) (map conv_pcp (sl_control_points s)) (sl_expected_dist s).

Lemma dist_real_curve lm s :
  dist_real lm (sl_mode s) (sl_control_points s) (sl_expected_dist s) =
  obind (slider_curve lm s) (fun c => Done (Curve.dist (Curve.c_lengths c))).
Proof. reflexivity. Qed.

(* the length written for a slider is [written_of] its curve *)
Lemma written_len_curve lm s c : slider_curve lm s = Done c ->
  written_len (dist_real lm) s = Done (written_of (sl_expected_dist s) c).
Proof.
  intros H. unfold written_len, written_of, slider_curve_dist. destruct (sl_expected_dist s) as [L|] eqn:E; [reflexivity|].
  rewrite <- E, dist_real_curve, H. reflexivity.
Qed.

(* a slider with the same mode and control points whose expected length is what the decoder
   reads from the written length has the same curve *)
Theorem slider_curve_reread lm h s s' c :
  h_kind h = KSlider s -> elen_img h ->
  slider_curve lm s = Done c ->
  d21_class (written_of (sl_expected_dist s) c) = false ->
  sl_mode s' = sl_mode s -> sl_control_points s' = sl_control_points s ->
  sl_expected_dist s' = reread_len (written_of (sl_expected_dist s) c) ->
  slider_curve lm s' = Done c.
Proof.
  intros Hk Hi Hc H21 Hm Hp He. unfold slider_curve. rewrite Hm, Hp, He.
  apply curve_reread; [exact Hc|].
  destruct (sl_expected_dist s) as [L|] eqn:E.
  - unfold elen_img in Hi. rewrite Hk, E in Hi. exact Hi.
  - cbn [written_of] in H21. unfold d21_class, len_ok in H21. apply negb_false_iff in H21.
    apply andb_prop_l in H21. apply andb_prop_l in H21. apply negb_true_iff in H21. exact H21.
Qed.

(* ---------- the velocity ---------- *)

(* the closed form of DecodedValues.decoded_values depends on the control points only through
   the slider-velocity timeline and the timing points *)
Lemma velocity_closed_form_eq c1 c2 sm1 sm2 mode1 mode2 t :
  cp_sorted c1 -> cp_sorted c2 ->
  sm1 = sm2 -> mode1 = mode2 -> cp_timing c1 = cp_timing c2 -> sv_at c1 t = sv_at c2 t ->
  slider_velocity_of sm1
    (match last_not_after dp_time (cp_difficulty c1) t with Some p => dp_sv p | None => D.one end)
    (match timing_point_at c1 t with Some p => tp_beat_len p | None => default_beat_len end) mode1 =
  slider_velocity_of sm2
    (match last_not_after dp_time (cp_difficulty c2) t with Some p => dp_sv p | None => D.one end)
    (match timing_point_at c2 t with Some p => tp_beat_len p | None => default_beat_len end) mode2.
Proof.
  intros H1 H2 -> -> Ht Hsv.
  rewrite (sv_at_sorted c1 t H1), (sv_at_sorted c2 t H2) in Hsv. injection Hsv as Hsv.
  unfold dp_sv_or in Hsv. change (dp_sv dflt_dp) with D.one in Hsv.
  unfold timing_point_at. rewrite Ht. f_equal. exact Hsv.
Qed.

Section Velocity.
  Variable dist_of : Z -> list PCP -> option F64 -> outcome F64.

  (* two decoded maps that agree on SliderMultiplier, mode, timing points and the slider-velocity
     timeline give sliders with the same start time the same velocity *)
  Theorem decoded_velocity_eq lines1 lines2 m1 m2 h1 h2 s1 s2 :
    decode_beatmap dist_of lines1 = Done m1 -> decode_beatmap dist_of lines2 = Done m2 ->
    let ho1 := bmv_ho m1 in let ho2 := bmv_ho m2 in
    d_slider_multiplier (hov_difficulty ho1) = d_slider_multiplier (hov_difficulty ho2) ->
    g_mode (hov_general ho1) = g_mode (hov_general ho2) ->
    cp_timing (hov_control_points ho1) = cp_timing (hov_control_points ho2) ->
    (forall t, sv_at (hov_control_points ho1) t = sv_at (hov_control_points ho2) t) ->
    In h1 (hov_hit_objects ho1) -> In h2 (hov_hit_objects ho2) ->
    h_kind h1 = KSlider s1 -> h_kind h2 = KSlider s2 -> h_start h1 = h_start h2 ->
    sl_velocity s1 = sl_velocity s2.
  Proof.
    intros Hd1 Hd2 ho1 ho2 Hsm Hmode Htp Hsv Hin1 Hin2 Hk1 Hk2 Hst.
    destruct (decoded_values dist_of lines1 m1 Hd1) as (_ & _ & _ & _ & V1).
    destruct (decoded_values dist_of lines2 m2 Hd2) as (_ & _ & _ & _ & V2).
    rewrite Forall_forall in V1, V2. specialize (V1 h1 Hin1). specialize (V2 h2 Hin2).
    rewrite Hk1 in V1. rewrite Hk2 in V2. rewrite V1, V2, Hst.
    apply velocity_closed_form_eq.
    - exact (decoded_map_cp_sorted dist_of lines1 m1 Hd1).
    - exact (decoded_map_cp_sorted dist_of lines2 m2 Hd2).
    - exact Hsm.
    - exact Hmode.
    - exact Htp.
    - apply Hsv.
  Qed.
End Velocity.

(* ---------- T02e, per line: the re-read slider has the same curve ---------- *)

Section EndToEnd.
  Variable lm : Curve.Libm.
  Variables (fmt_f64 : F64 -> str) (fmt_f32 : F32 -> str) (fmt_int : Z -> str).
  Hypothesis Hfmt : fmt_ok fmt_f64 fmt_f32 fmt_int.
  Hypothesis H32 : fmt_f32_int fmt_f32 fmt_int.

  (* [h] a slider of the decoder's image ([elen_img]: decoded_elen_img) with curve [c], outside the
     recorded classes ([slider_ok] for the length the encoder writes); [st] any parser state whose
     mode is the mode the slider was read under (on re-reading an encoding the [General] section
     precedes [HitObjects]; the other order on the ORIGINAL input is class D22).  Then the line is
     accepted and adds a slider with the same start time, position, control points, repeat count,
     node count -- and the same computed curve: same path, same cumulative lengths. *)
  Theorem slider_round_trip mode h s c l :
    h_kind h = KSlider s -> elen_img h ->
    slider_curve lm s = Done c ->
    slider_ok h s (written_of (sl_expected_dist s) c) = true ->
    object_line (dist_real lm) mode h = Done l ->
    forall st, ho_mode st = sl_mode s ->
    exists st' o s',
      parse_hit_objects st (render fmt_f64 fmt_f32 fmt_int l) = Done (st', Ok) /\
      ho_objects st' = ho_objects st ++ [o] /\
      h_start o = h_start h /\ h_kind o = KSlider s' /\
      sl_pos s' = sl_pos s /\
      sl_control_points s' = sl_control_points s /\
      sl_repeat_count s' = sl_repeat_count s /\
      length (sl_node_samples s') = Z.to_nat (sl_repeat_count s + 2) /\
      sl_expected_dist s' = reread_len (written_of (sl_expected_dist s) c) /\
      slider_curve lm s' = Done c.
  Proof.
    intros Hk Hi Hc Hok Hl st Hmode.
    pose proof (written_len_curve lm s c Hc) as Hw.
    destruct (slider_line_reread fmt_f64 fmt_f32 fmt_int Hfmt H32 (dist_real lm) mode h s _ l Hk Hw Hok Hl st)
      as (st' & o & s' & Hp & Ho & Hs & Hk' & P1 & P2 & P3 & P4 & P5 & P6 & _).
    exists st', o, s'.
    refine (conj Hp (conj Ho (conj Hs (conj Hk' (conj P1 (conj P2 (conj P3 (conj P4 (conj P6 _))))))))).
    apply (slider_curve_reread lm h s s' c Hk Hi Hc); try assumption.
    - unfold slider_ok in Hok. apply andb_prop_r in Hok. unfold d21_class. rewrite Hok. reflexivity.
    - rewrite P5. exact Hmode.
  Qed.
End EndToEnd.

Print Assumptions slider_round_trip.
Print Assumptions slider_line_reread.
Print Assumptions slider_curve_reread.
Print Assumptions decoded_velocity_eq.
Print Assumptions decoded_elen_img.

(* Enc3Nodes: C02 / T02e, node samples -- WHAT the decoder reads from the slider line the encoder
   writes, exactly: besides the fields of Enc2Slider.slider_line_reread, the slider's own sample
   list, its new-combo flag, and its node samples.

   The edge-set field carries `normal:addition` per node and the edge-sound field the sound bits;
   node i of the re-read slider is  convert_sound_type (node_info (nth i nodes)) (sound bits of
   node i)  -- i.e. [reread_samples] of the node's list as for an object line in a non-mania mode,
   but WITHOUT a file name (the format has no slot for it: class D31).  Hence names and banks of a
   node survive ([node_reread_carry]) whenever the node is in the decoder's image
   ([samples_image]) and has no file name. *)
From RM Require Import Model.EncPathSpec Model.HitObjectSpec Model.EncTimingSpec Model.EncObjCarry Proofs.EncText Proofs.EncFmt Proofs.EncFloat
     Proofs.EncSimple Proofs.EncObjects Proofs.FramingFacts Proofs.NumFacts Proofs.PathStringFacts
     Proofs.EncPathEnc Proofs.EncPathDec Proofs.EncPathRT Proofs.FloatCmp Proofs.FloatFacts14 Proofs.EncSlider
     Proofs.EncLineImage Proofs.EncMapImage Proofs.HitObjectLineFacts Proofs.EncObjectsRT Proofs.Enc2Slider.
From RM Require Model.Curve.
From RM Require Import Model.DrvEnc.
From RM Require Import Gen.Generated.
From Flocq Require Import BinarySingleNaN.
From Coq Require Import ZifyBool Permutation.
Open Scope Z_scope.

(* ---------- what one `normal:addition` piece and one sound field read to ---------- *)

(* the SampleBankInfo of node [o] ([None]: the slider has fewer nodes than spans + 1; the encoder
   writes 0:0) when the slider's own info has volume [v] and custom index [c] *)
Definition node_info (v c : Z) (o : option (list HitSampleInfo)) : SampleBankInfo :=
  let nb := match o with Some l => bank_of_first is_hit_normal l | None => 0 end in
  let ab := match o with Some l => bank_of_first is_addition l | None => 0 end in
  mkSBI None (opt_bank nb) (match opt_bank ab with Some a => Some a | None => opt_bank nb end) v c.
Definition node_sound (o : option (list HitSampleInfo)) : Z :=
  match o with Some l => sound_type_of l | None => 0 end.

Fixpoint node_infos (v c : Z) (n i : nat) (nodes : list (list HitSampleInfo)) : list SampleBankInfo :=
  match n with O => [] | S k => node_info v c (nth_error nodes i) :: node_infos v c k (S i) nodes end.
Fixpoint node_sounds (n i : nat) (nodes : list (list HitSampleInfo)) : list Z :=
  match n with O => [] | S k => node_sound (nth_error nodes i) :: node_sounds k (S i) nodes end.
(* the re-read node list *)
Fixpoint reread_nodes (v c : Z) (n i : nat) (nodes : list (list HitSampleInfo)) : list (list HitSampleInfo) :=
  match n with
  | O => []
  | S k => convert_sound_type (node_info v c (nth_error nodes i)) (node_sound (nth_error nodes i))
           :: reread_nodes v c k (S i) nodes
  end.

Lemma zip_convert_nodes v c nodes : forall n i,
  zip_convert (node_infos v c n i nodes) (node_sounds n i nodes) = reread_nodes v c n i nodes.
Proof. induction n as [|k IH]; intros i; [reflexivity|]. cbn [node_infos node_sounds zip_convert reread_nodes]. rewrite IH. reflexivity. Qed.

Lemma reread_nodes_length v c nodes : forall n i, length (reread_nodes v c n i nodes) = n.
Proof. induction n as [|k IH]; intros i; [reflexivity|]. cbn [reread_nodes length]. rewrite IH. reflexivity. Qed.

Lemma reread_nodes_nth v c nodes : forall n i j, (j < n)%nat ->
  nth_error (reread_nodes v c n i nodes) j =
  Some (convert_sound_type (node_info v c (nth_error nodes (i + j))) (node_sound (nth_error nodes (i + j)))).
Proof.
  induction n as [|k IH]; intros i j Hj; [lia|]. cbn [reread_nodes]. destruct j as [|j'].
  - cbn [nth_error]. rewrite Nat.add_0_r. reflexivity.
  - cbn [nth_error]. rewrite IH by lia. replace (S i + j')%nat with (i + S j')%nat by lia. reflexivity.
Qed.

Lemma cnt_succ rc : 0 <= rc -> Z.to_nat (rc + 2) = S (Z.to_nat (rc + 1)).
Proof. intros H. replace (rc + 2) with (Z.succ (rc + 1)) by lia. apply Z2Nat.inj_succ. lia. Qed.

(* banks-only reading keeps file name, volume and custom index *)
Lemma read_banks_only_fields b split b' : read_custom_sample_banks b split true = Some b' ->
  sbi_filename b' = sbi_filename b /\ sbi_volume b' = sbi_volume b /\ sbi_custom b' = sbi_custom b.
Proof.
  unfold read_custom_sample_banks. destruct split as [|[|x0 r0] r1]; try (intros [= <-]; repeat split).
  destruct (pn_i32 (x0 :: r0)); [|discriminate]. destruct r1 as [|s2 r2]; [discriminate|].
  destruct (pn_i32 s2); [|discriminate]. intros [= <-]. repeat split.
Qed.


Section Nodes.
  Variables (fmt_f64 : F64 -> str) (fmt_f32 : F32 -> str) (fmt_int : Z -> str).
  Hypothesis Hfmt : fmt_ok fmt_f64 fmt_f32 fmt_int.
  Local Notation bank_piece := (EncSlider.bank_piece fmt_int).
  Local Notation bank_strs := (EncSlider.bank_strs fmt_int).
  Local Notation sound_strs := (EncSlider.sound_strs fmt_int).

  Lemma read_piece nb ab : i32_ok nb = true -> i32_ok ab = true ->
    forall b, read_custom_sample_banks b (split_on 58 (fmt_int nb ++ colon :: fmt_int ab)) false =
              Some (mkSBI None (opt_bank nb) (match opt_bank ab with Some a => Some a | None => opt_bank nb end)
                          (sbi_volume b) (sbi_custom b)).
  Proof.
    intros Hn Ha b. change 58 with colon.
    rewrite (split_on_field colon) by (apply (int_no _ _ _ Hfmt); reflexivity).
    rewrite (split_on_no_sep colon) by (apply memb_false_In, (int_no _ _ _ Hfmt); reflexivity).
    cbn [read_custom_sample_banks].
    destruct (fmt_int nb) as [|x0 r0] eqn:E0; [exfalso; exact (int_nonempty' _ _ _ Hfmt nb E0)|]. rewrite <- E0.
    rewrite (pn_i32_fmt _ _ _ Hfmt nb Hn), (pn_i32_fmt _ _ _ Hfmt ab Ha).
    cbn [next]. unfold opt_bank. reflexivity.
  Qed.

  Lemma bank_piece_read_exact nodes i : forallb (forallb sample_ok) nodes = true ->
    forall b, read_custom_sample_banks b (split_on 58 (bank_piece (nth_error nodes i))) false =
              Some (node_info (sbi_volume b) (sbi_custom b) (nth_error nodes i)).
  Proof.
    intros H b. destruct (nth_error nodes i) as [l|] eqn:E; cbn [EncSlider.bank_piece node_info].
    - apply nth_error_In in E. rewrite forallb_forall in H. specialize (H l E).
      apply read_piece; apply (EncSlider.enum4_i32), (EncSlider.bank_of_first_ok); exact H.
    - pose proof (read_piece 0 0 eq_refl eq_refl b) as X.
      rewrite (int_digit _ _ _ Hfmt 0) in X by lia. exact X.
  Qed.

  Lemma zip_banks_exact nodes : forallb (forallb sample_ok) nodes = true -> forall n i b,
    zip_banks (replicate n b) (bank_strs n i nodes) = Some (node_infos (sbi_volume b) (sbi_custom b) n i nodes).
  Proof.
    intros H. induction n as [|k IH]; intros i b; [reflexivity|].
    cbn [replicate EncSlider.bank_strs zip_banks node_infos]. rewrite (bank_piece_read_exact nodes i H b), IH. reflexivity.
  Qed.

  Lemma node_sound_range o : 0 <= node_sound o <= 255.
  Proof. destruct o as [l|]; cbn [node_sound]; [apply sound_type_range|lia]. Qed.

  Lemma zip_sounds_exact nodes : forall n i s0,
    zip_sounds (replicate n s0) (sound_strs n i nodes) = node_sounds n i nodes.
  Proof.
    induction n as [|k IH]; intros i s0; [reflexivity|].
    cbn [replicate EncSlider.sound_strs zip_sounds node_sounds]. rewrite IH. f_equal.
    fold (node_sound (nth_error nodes i)). pose proof (node_sound_range (nth_error nodes i)) as R.
    unfold parse_sound_type. rewrite (int_parse _ _ _ Hfmt) by (unfold i32_min, i32_max; lia).
    cbn [omap odflt]. change 255 with (Z.ones 8). rewrite Z.land_ones by lia. apply Z.mod_small. lia.
  Qed.
End Nodes.

Section Slider3.
  Variables (fmt_f64 : F64 -> str) (fmt_f32 : F32 -> str) (fmt_int : Z -> str).
  Hypothesis Hfmt : fmt_ok fmt_f64 fmt_f32 fmt_int.
  Hypothesis H32 : fmt_f32_int fmt_f32 fmt_int.
  Notation rline := (render fmt_f64 fmt_f32 fmt_int).
  Notation ehead := (extras_head fmt_int).
  Local Notation rl_app := (EncSlider.rl_app fmt_f64 fmt_f32 fmt_int).
  Local Notation render_node_sounds := (EncSlider.render_node_sounds fmt_f64 fmt_f32 fmt_int).
  Local Notation render_node_banks := (EncSlider.render_node_banks fmt_f64 fmt_f32 fmt_int).
  Local Notation sound_strs := (EncSlider.sound_strs fmt_int).
  Local Notation bank_strs := (EncSlider.bank_strs fmt_int).
  Local Notation sound_strs_chars := (EncSlider.sound_strs_chars fmt_f64 fmt_f32 fmt_int Hfmt).
  Local Notation bank_strs_chars := (EncSlider.bank_strs_chars fmt_f64 fmt_f32 fmt_int Hfmt).
  Local Notation len_field := (EncSlider.len_field fmt_f64 fmt_f32 fmt_int Hfmt).
  Local Notation bank_strs_read := (EncSlider.bank_strs_read fmt_f64 fmt_f32 fmt_int Hfmt).
  Local Notation bank_piece_nonempty := (EncSlider.bank_piece_nonempty fmt_f64 fmt_f32 fmt_int Hfmt).

  (* Enc2Slider.slider_line_reread with EVERY field of the re-read object: the slider's own samples
     (the extras field is read banks-only: convert_sound_type of an info without file name, volume
     or custom index), the new-combo flag as forced by the parser state, the node samples *)
  Theorem slider_line_reread_full dist mode h s d l :
    h_kind h = KSlider s -> written_len dist s = Done d -> slider_ok h s d = true ->
    object_line dist mode h = Done l ->
    forall st, exists st' o s',
      parse_hit_objects st (rline l) = Done (st', Ok) /\
      ho_objects st' = ho_objects st ++ [o] /\
      h_start o = h_start h /\ h_kind o = KSlider s' /\
      sl_pos s' = sl_pos s /\
      sl_control_points s' = sl_control_points s /\
      sl_repeat_count s' = sl_repeat_count s /\
      length (sl_node_samples s') = Z.to_nat (sl_repeat_count s + 2) /\
      sl_mode s' = ho_mode st /\
      sl_expected_dist s' = reread_len d /\
      sl_velocity s' = D.one /\
      sl_combo_offset s' = (if sl_new_combo s then sl_combo_offset s else 0) /\
      sl_new_combo s' = forced_new_combo st (sl_new_combo s) /\
      sl_node_samples s' = reread_nodes 0 0 (Z.to_nat (sl_repeat_count s + 2)) 0 (sl_node_samples s) /\
      h_samples o = convert_sound_type (node_info 0 0 (Some (h_samples h))) (node_sound (Some (h_samples h))).
  Proof.
    intros Hk Hd Hok Hl st. unfold slider_ok in Hok.
    repeat match type of Hok with _ && _ = true =>
      let X := fresh "X" in apply andb_true_iff in Hok; destruct Hok as [Hok X] end.
    rename Hok into Ht. rename X11 into Hs. rename X10 into Cx. rename X9 into Cy. rename X8 into O1.
    rename X7 into O2. rename X6 into R1. rename X5 into R2. rename X4 into Hnodes. rename X3 into Him.
    rename X2 into N13. rename X1 into N17. rename X0 into Ncc. rename X into Hlen.
    apply negb_true_iff in N13. apply negb_true_iff in N17. apply negb_true_iff in Ncc.
    set (rc := sl_repeat_count s) in *.
    assert (Hrc : 0 <= rc < 9000) by (clear - R1 R2; unfold repeat_cap in R2; lia).
    assert (Hoff : 0 <= sl_combo_offset s <= 7) by (clear - O1 O2; lia).
    (* the tokens *)
    unfold object_line in Hl. rewrite Hk in Hl. unfold object_pos in Hl. rewrite Hk in Hl.
    unfold slider_toks in Hl. unfold written_len in Hd. rewrite Hd in Hl. cbn [obind] in Hl.
    unfold span_iters in Hl. fold rc in Hl. replace (rc + 1 <? 0) with false in Hl by (clear - Hrc; lia).
    remember (S (Z.to_nat (rc + 1))) as n eqn:En.
    cbn [obind] in Hl. injection Hl as <-.
    set (nodes := sl_node_samples s) in *.
    (* the pieces as text *)
    destruct (path_round_trip fmt_f64 fmt_f32 fmt_int Hfmt H32 (sl_pos s) (sl_control_points s) Him N13 N17 Ncc)
      as (ps & Eps & Pcomma & Psafe & _ & Pconv).
    destruct (sound_strs_chars nodes n 0) as [SA SB]. destruct (bank_strs_chars nodes n 0) as [BA BB].
    destruct (sepcat_split (sound_strs n 0 nodes) ltac:(rewrite En; discriminate) SB) as (ss & Ess & Scomma & Ssplit).
    destruct (sepcat_split (bank_strs n 0 nodes) ltac:(rewrite En; discriminate) BB) as (bs & Ebs & Bcomma & Bsplit).
    assert (Ssafe : forallb safec ss = true).
    { pose proof (sepcat_safe' _ SA) as X. rewrite Ess, forallb_app in X. exact (andb_prop_l _ _ X). }
    assert (Bsafe : forallb safec bs = true).
    { pose proof (sepcat_safe' _ BA) as X. rewrite Ebs, forallb_app in X. exact (andb_prop_l _ _ X). }
    pose proof (extras_vals_ok (h_samples h) mode Hs) as EV.
    pose proof (render_extras fmt_f64 fmt_f32 fmt_int (h_samples h) mode) as RE.
    destruct (extras_vals (h_samples h) mode) as [[[[nb ab] cu] vo] f] eqn:Eev.
    destruct EV as (E1 & E2 & E3 & E4 & E5 & E6 & E7 & E8).
    set (K := object_type h). set (S0 := sound_type_of (h_samples h)).
    set (Rs := ps ++ comma :: fmt_int (rc + 1) ++ comma :: fmt_f64 d ++ comma :: ss ++ comma :: bs ++
               comma :: ehead nb ab cu vo).
    assert (EL : rline ([TF32 (px (sl_pos s)); t_comma; TF32 (py (sl_pos s)); t_comma; TF64 (h_start h); t_comma;
                         TInt K; t_comma; TInt S0; t_comma] ++
                        (path_toks (sl_pos s) (sl_control_points s) ++
                         [TInt (rc + 1); t_comma; TF64 d; t_comma] ++
                         node_sound_toks n 0 nodes ++ node_bank_toks n 0 nodes mode) ++
                        sample_bank_toks (h_samples h) false mode)
                 = head_text fmt_f64 fmt_f32 fmt_int (px (sl_pos s)) (py (sl_pos s)) (h_start h) K S0 ++ Rs ++ f).
    { rewrite !rl_app, RE, Eps, render_node_sounds, Ess, (render_node_banks mode), Ebs.
      unfold Rs, head_text, render. cbn [flat_map render_tok t_comma]. rewrite !app_nil_r. unfold comma.
      repeat (progress (rewrite <- ?app_assoc; cbn [app])). reflexivity. }
    cbn [app] in EL |- *. rewrite EL. clear EL RE.
    (* the type byte *)
    assert (HK : i32_min <= K <= i32_max /\
                 let t2 := Z.land (Z.land K (Z.lnot hot_combo_offset)) (Z.lnot hot_new_combo) in
                 has_flag t2 hot_circle = false /\ has_flag t2 hot_slider = true /\
                 has_flag (Z.land K (Z.lnot hot_combo_offset)) hot_new_combo = sl_new_combo s /\
                 Z.shiftr (Z.land K hot_combo_offset) 4 = sl_combo_offset s).
    { unfold K, object_type. rewrite Hk.
      destruct (offset_cases (sl_combo_offset s) Hoff) as [E|[E|[E|[E|[E|[E|[E|E]]]]]]];
        rewrite E; destruct (sl_new_combo s); vm_compute; (split; [split; discriminate|repeat split; reflexivity]). }
    destruct HK as [HK [F1 [F2 [F3 F4]]]].
    assert (Rsafe : forallb safec Rs = true).
    { unfold Rs. repeat (rewrite forallb_app || cbn [forallb]).
      rewrite Psafe, Ssafe, Bsafe, (int_safe _ _ _ Hfmt), (f64_safe _ _ _ Hfmt), (extras_head_safe _ _ _ Hfmt).
      reflexivity. }
    unfold parse_hit_objects.
    rewrite (parse_header_line fmt_f64 fmt_f32 fmt_int Hfmt _ _ _ K S0 _ f Cx Cy Ht HK (sound_type_range _) Rsafe E7 E8).
    unfold parse_kind. cbn [hd_type hd_rest hd_pos hd_new_combo hd_combo_offset hd_sound hd_start].
    rewrite F1, F2, F3, F4.
    (* the fields *)
    unfold Rs. repeat (progress (rewrite <- ?app_assoc; cbn [app])).
    rewrite (split_on_field comma ps) by exact Pcomma.
    rewrite (split_on_field comma (fmt_int (rc + 1))) by (apply (int_no _ _ _ Hfmt); reflexivity).
    rewrite (split_on_field comma (fmt_f64 d)) by (apply (f64_no _ _ _ Hfmt); reflexivity).
    rewrite (split_on_field comma ss) by exact Scomma.
    rewrite (split_on_field comma bs) by exact Bcomma.
    rewrite split_no_comma by (rewrite memb_app, (extras_head_no_comma _ _ _ Hfmt), E6; reflexivity).
    (* parse_slider_pre *)
    unfold parse_slider_pre.
    rewrite (pn_i32_fmt _ _ _ Hfmt (rc + 1)) by (clear - Hrc; unfold i32_ok, max_parse_value; lia).
    replace (repeat_cap <? rc + 1) with false by (clear - Hrc; unfold repeat_cap; lia).
    replace (rc + 1 - 1 <? i32_min) with false by (clear - Hrc; unfold i32_min; lia).
    replace (Z.max 0 (rc + 1 - 1)) with rc by (clear - Hrc; lia).
    cbn [next]. rewrite (len_field d Hlen).
    set (bank := mkSBI None (opt_bank nb) (match opt_bank ab with Some a => Some a | None => opt_bank nb end) 0 0).
    assert (Ebank : read_custom_sample_banks sbi_default
                                (split_on 58 (ehead nb ab cu vo ++ f)) true = Some bank).
    { change 58 with colon. rewrite (split_extras _ _ _ Hfmt nb ab cu vo f E5).
      cbn [read_custom_sample_banks].
      destruct (fmt_int nb) as [|x0 r0] eqn:E0; [exfalso; exact (int_nonempty' _ _ _ Hfmt nb E0)|]. rewrite <- E0.
      rewrite (pn_i32_fmt _ _ _ Hfmt nb (enum4_i32 _ E1)), (pn_i32_fmt _ _ _ Hfmt ab (enum4_i32 _ E2)).
      reflexivity. }
    rewrite Ebank.
    replace (rc <? 0) with false by (clear - Hrc; lia).
    set (cnt := Z.to_nat (rc + 2)).
    assert (NE : forall x : str, x <> [] -> nonempty (Some x) = Some x) by (intros [|? ?] ?; [congruence|reflexivity]).
    assert (NEs : ss <> []).
    { intros E. rewrite E in Ssplit.
      cbn [split_on] in Ssplit. rewrite En in Ssplit. cbn [EncSlider.sound_strs] in Ssplit. injection Ssplit as X _.
      exact (int_nonempty' _ _ _ Hfmt _ (eq_sym X)). }
    assert (NEb : bs <> []).
    { intros E. rewrite E in Bsplit.
      cbn [split_on] in Bsplit. rewrite En in Bsplit. cbn [EncSlider.bank_strs] in Bsplit. injection Bsplit as X _.
      exact (bank_piece_nonempty _ (eq_sym X)). }
    rewrite (NE ss NEs), (NE bs NEb), Bsplit.
    assert (Hcn : cnt = n) by (unfold cnt; rewrite En; apply cnt_succ; clear - Hrc; lia).
    pose proof (zip_banks_exact fmt_f64 fmt_f32 fmt_int Hfmt nodes Hnodes n 0 bank) as Einfos.
    cbn [bank sbi_volume sbi_custom] in Einfos. rewrite Hcn, Einfos.
    (* the path *)
    destruct (Pconv (ho_vertices st)) as [vs' Econv].
    cbn [spre_point_str]. replace (mkPos (px (sl_pos s)) (py (sl_pos s))) with (sl_pos s) by (destruct (sl_pos s); reflexivity).
    rewrite Econv.
    eexists. eexists. eexists. split; [reflexivity|]. cbn [ho_objects set_bufs].
    split; [reflexivity|]. cbn [h_start h_kind h_samples sl_pos sl_control_points sl_repeat_count sl_node_samples
                                 sl_mode sl_expected_dist sl_velocity sl_combo_offset sl_new_combo
                                 spre_repeat spre_nodes spre_len spre_bank pb_curve ho_mode].
    rewrite Ssplit, (zip_sounds_exact fmt_f64 fmt_f32 fmt_int Hfmt nodes n 0 S0), zip_convert_nodes.
    split; [reflexivity|]. split; [reflexivity|].
    cbn [sl_pos sl_control_points sl_repeat_count sl_node_samples sl_mode sl_expected_dist sl_velocity
         sl_combo_offset sl_new_combo].
    rewrite reread_nodes_length.
    repeat (split; [reflexivity|]).
    unfold extras_vals in Eev. injection Eev as <- <- _ _ _. reflexivity.
  Qed.
End Slider3.

(* ---------- with the curve: the per-line slider theorem, every field ---------- *)

Section Full.
  Variable lm : Curve.Libm.
  Variables (fmt_f64 : F64 -> str) (fmt_f32 : F32 -> str) (fmt_int : Z -> str).
  Hypothesis Hfmt : fmt_ok fmt_f64 fmt_f32 fmt_int.
  Hypothesis H32 : fmt_f32_int fmt_f32 fmt_int.

  Theorem slider_round_trip_full mode h s c l :
    h_kind h = KSlider s -> elen_img h ->
    slider_curve lm s = Done c ->
    slider_ok h s (written_of (sl_expected_dist s) c) = true ->
    object_line (dist_real lm) mode h = Done l ->
    forall st, ho_mode st = sl_mode s ->
    exists st' o s',
      parse_hit_objects st (render fmt_f64 fmt_f32 fmt_int l) = Done (st', Ok) /\
      ho_objects st' = ho_objects st ++ [o] /\
      h_start o = h_start h /\ h_kind o = KSlider s' /\
      sl_pos s' = sl_pos s /\
      sl_control_points s' = sl_control_points s /\
      sl_repeat_count s' = sl_repeat_count s /\
      length (sl_node_samples s') = Z.to_nat (sl_repeat_count s + 2) /\
      sl_expected_dist s' = reread_len (written_of (sl_expected_dist s) c) /\
      slider_curve lm s' = Done c /\
      sl_mode s' = sl_mode s /\
      sl_new_combo s' = forced_new_combo st (sl_new_combo s) /\
      sl_combo_offset s' = (if sl_new_combo s then sl_combo_offset s else 0) /\
      sl_node_samples s' = reread_nodes 0 0 (Z.to_nat (sl_repeat_count s + 2)) 0 (sl_node_samples s) /\
      h_samples o = convert_sound_type (node_info 0 0 (Some (h_samples h))) (node_sound (Some (h_samples h))).
  Proof.
    intros Hk Hi Hc Hok Hl st Hmode.
    pose proof (written_len_curve lm s c Hc) as Hw.
    destruct (slider_line_reread_full fmt_f64 fmt_f32 fmt_int Hfmt H32 (dist_real lm) mode h s _ l Hk Hw Hok Hl st)
      as (st' & o & s' & Hp & Ho & Hs & Hk' & P1 & P2 & P3 & P4 & P5 & P6 & _ & P8 & P9 & P10 & P11).
    exists st', o, s'.
    refine (conj Hp (conj Ho (conj Hs (conj Hk' (conj P1 (conj P2 (conj P3 (conj P4 (conj P6 (conj _ (conj _
             (conj P9 (conj P8 (conj P10 P11)))))))))))))).
    - apply (slider_curve_reread lm h s s' c Hk Hi Hc); try assumption.
      + unfold slider_ok in Hok. apply andb_prop_r in Hok. unfold d21_class. rewrite Hok. reflexivity.
      + rewrite P5. exact Hmode.
    - rewrite P5. exact Hmode.
  Qed.
End Full.

(* ---------- names and banks of a node survive (outside D31) ---------- *)

(* a node list without a file name, re-read from `normal:addition` + sound bits, is what an object
   line of a non-mania map would give *)
Lemma node_reread_is_reread_samples l : first_file l = None ->
  convert_sound_type (node_info 0 0 (Some l)) (node_sound (Some l)) = reread_samples 0 l.
Proof.
  intros Hf. unfold reread_samples, reread_info, node_info, node_sound. rewrite Hf.
  change (0 =? mode_mania) with false. cbn [Z.max]. unfold convert_sound_type. cbn [sbi_filename sbi_normal sbi_addition sbi_volume sbi_custom].
  reflexivity.
Qed.

Theorem node_reread_carry l : samples_image l = true -> first_file l = None ->
  carry_samples (convert_sound_type (node_info 0 0 (Some l)) (node_sound (Some l))) = carry_samples l /\
  forall p, carry_samples (map (sp_apply p) (convert_sound_type (node_info 0 0 (Some l)) (node_sound (Some l)))) = carry_samples l.
Proof.
  intros Hi Hf. rewrite (node_reread_is_reread_samples l Hf). split.
  - exact (reread_carry 0 l Hi).
  - intros p. exact (reread_apply_carry 0 p l Hi).
Qed.

(* D31: a node WITH a file name comes back with the default normal sample in its place -- the
   re-read list never contains a file name *)
Lemma node_reread_no_file v c o s : first_file (convert_sound_type (node_info v c o) s) = None.
Proof.
  unfold convert_sound_type, node_info. cbn [sbi_filename].
  unfold first_file. cbn [find app].
  repeat match goal with |- context [if ?b then _ else _] => destruct b end; reflexivity.
Qed.

(* BreakOrder: "a break never ends before it starts", for the decoders.

   Proofs/SectionsFacts.v proves the order condition for every run of
   [parse_events] over a list of lines.  Here it is lifted through the framing
   driver: every break of every decoded Events value, of every decoded
   HitObjects value and of every decoded Beatmap satisfies

       D.le (bp_start b) (bp_end b) = true        ([break_ok])
       D.lt (bp_end b) (bp_start b) = false       ([break_ordered], the test of the code)

   for every file (no hypothesis on the lines) and every curve-distance
   function. *)
From RM Require Import Model.Decoders Proofs.FloatCmp Proofs.SectionsFacts Proofs.FramingFacts
     Proofs.DecodersFacts Proofs.DecodersTotal.
Open Scope Z_scope.

Lemma simple_events_step sec st l :
  Forall break_ok (ev_breaks st) ->
  Forall break_ok (ev_breaks (fst (parser_of (simple_parsers SecEvents parse_events) sec st l))).
Proof.
  intros H. destruct sec; open_parsers; unfold noop; cbn [fst]; try exact H.
  now apply parse_events_breaks.
Qed.

Theorem decoded_events_breaks lines : Forall break_ok (ev_breaks (decode_events lines)).
Proof.
  unfold decode_events.
  apply (driver_invariant (fun _ => events_default) (simple_parsers SecEvents parse_events) (fun s => s)
           (fun st => Forall break_ok (ev_breaks st)) (fun _ => Forall_nil _) simple_events_step
           (fun v => Forall break_ok (ev_breaks v))).
  intros st H. exact H.
Qed.

Theorem decoded_events_breaks_ordered lines : Forall break_ordered (ev_breaks (decode_events lines)).
Proof. eapply Forall_impl; [exact break_ok_ordered|]. apply decoded_events_breaks. Qed.

Section WithDist.
  Variable dist_of : Z -> list PCP -> option F64 -> outcome F64.

  Theorem decoded_beatmap_breaks lines bv :
    decode_beatmap dist_of lines = Done bv ->
    Forall break_ok (ev_breaks (hov_events (bmv_ho bv))).
  Proof. intros H. rewrite (beatmap_events dist_of lines bv H). apply decoded_events_breaks. Qed.

  Theorem decoded_beatmap_breaks_ordered lines bv :
    decode_beatmap dist_of lines = Done bv ->
    Forall break_ordered (ev_breaks (hov_events (bmv_ho bv))).
  Proof. intros H. eapply Forall_impl; [exact break_ok_ordered|]. exact (decoded_beatmap_breaks lines bv H). Qed.

  (* the HitObjects decoder carries its own copy of the Events state *)
  Definition ho_breaks_ok (os : outcome HOD) : Prop :=
    match os with Done s => Forall break_ok (ev_breaks (hod_events s)) | _ => True end.

  Lemma ho_breaks_step sec os l : ho_breaks_ok os -> ho_breaks_ok (fst (parser_of ho_parsers sec os l)).
  Proof.
    destruct os as [s|w|]; intros H; [|destruct sec; exact I ..].
    cbn [ho_breaks_ok] in H.
    destruct sec; open_parsers; unwrap;
      try (match goal with
           | |- context [parse_events ?a ?b] =>
               let He := fresh "He" in
               pose proof (parse_events_breaks a b H) as He;
               destruct (parse_events a b) as [e r]; cbn [fst] in He
           end);
      repeat case_inner; cbn [ho_breaks_ok]; proj_simpl; try exact I; try exact H.
    exact He.
  Qed.

  Theorem decoded_hit_objects_breaks lines hv :
    decode_hit_objects dist_of lines = Done hv ->
    Forall break_ok (ev_breaks (hov_events hv)).
  Proof.
    unfold decode_hit_objects. revert hv.
    apply (driver_invariant (fun _ => Done hod_create) ho_parsers (fun os => obind os (hod_finish dist_of))
             ho_breaks_ok (fun _ => Forall_nil _) ho_breaks_step
             (fun ov => forall hv, ov = Done hv -> Forall break_ok (ev_breaks (hov_events hv)))).
    intros [s|w|] Hs hv Hf; cbn [obind] in Hf; try discriminate.
    destruct (hod_finish_inv dist_of s hv Hf) as (_ & _ & He & _). rewrite He. exact Hs.
  Qed.

  Theorem decoded_hit_objects_breaks_ordered lines hv :
    decode_hit_objects dist_of lines = Done hv ->
    Forall break_ordered (ev_breaks (hov_events hv)).
  Proof. intros H. eapply Forall_impl; [exact break_ok_ordered|]. exact (decoded_hit_objects_breaks lines hv H). Qed.
End WithDist.

(* AdjustIEEESum: the accumulated rounding error of the cumulative lengths
   calculate_length computes (the running binary64 sums of the binary32
   segment lengths, zero seed) against the exact cumulative polyline lengths
   of the same f32 vertices.

   Hypotheses: every coordinate finite with |c| <= 2^20; every segment either
   has two numerically equal end points (its computed length is exactly 0) or
   an exact length of at least 2^-10; at most 2^50 vertices.
   Result: every computed cumulative length l_i is finite and
       l_i = c_i (1 + d),   |d| <= alpha n = 3.01 * 2^-24 + 2 n * 2^-53
   where c_i is the exact cumulative polyline length and n the number of
   vertices.  With it the hypothesis "A" of the length corollary of C16
   (AdjustIEEE.adjusted_length_ieee_bound) is discharged. *)
From RM Require Import Model.ControlPoints Model.Curve Proofs.FloatFacts Proofs.LengthFacts Proofs.LengthBound
  Proofs.AdjustExact Proofs.AdjustIEEEBase Proofs.AdjustIEEE.
From Flocq Require Import Core BinarySingleNaN.
From Coq Require Import Reals Lra Psatz Lia List.
Import ListNotations.
Open Scope R_scope.

Local Notation fin x := (is_finite x = true).
Local Notation pw k := (bpow radix2 k).

(* ---------- one segment ---------- *)

(* a finite number whose real value is 0 is one of the two zeros *)
Lemma fin_zero_is_zero (x : F32) : fin x -> B2R x = 0 -> exists s, x = B754_zero s.
Proof.
  intros F R. destruct x as [s|s| |s m e Hm]; try discriminate; [exists s; reflexivity|]. exfalso.
  cbn [B2R] in R. destruct s.
  - change (SpecFloat.cond_Zopp true (Z.pos m)) with (Z.neg m) in R.
    assert (F2R (Float radix2 (Z.neg m) e) < 0) by (apply F2R_lt_0; reflexivity). lra.
  - change (SpecFloat.cond_Zopp false (Z.pos m)) with (Z.pos m) in R.
    assert (0 < F2R (Float radix2 (Z.pos m) e)) by (apply F2R_gt_0; reflexivity). lra.
Qed.

(* the length of a zero vector is exactly zero *)
Lemma plen_zero (dx dy : F32) : fin dx -> fin dy -> B2R dx = 0 -> B2R dy = 0 ->
  fin (f64_of_f32 (plen (mkPos dx dy))) /\ B2R (f64_of_f32 (plen (mkPos dx dy))) = 0.
Proof.
  intros Fx Fy Rx Ry. destruct (fin_zero_is_zero dx Fx Rx) as (s1 & ->). destruct (fin_zero_is_zero dy Fy Ry) as (s2 & ->).
  assert (H : B2SF (f64_of_f32 (plen (mkPos (B754_zero s1) (B754_zero s2)))) = SpecFloat.S754_zero false).
  { destruct s1, s2; vm_compute; reflexivity. }
  destruct (f64_of_f32 (plen (mkPos (B754_zero s1) (B754_zero s2)))) as [s|s| |s m e Hm]; try discriminate.
  split; reflexivity.
Qed.

Definition seg_ok (a b : Pos) : Prop := R2 a = R2 b \/ pw (-10) <= edist (R2 a) (R2 b).

(* the widened binary32 length of a segment: finite, exact length up to 3.01 * 2^-24 *)
Lemma seg_rel (a b : Pos) : coord_le a 20 -> coord_le b 20 -> seg_ok a b ->
  fin (f64_of_f32 (plen (psub b a))) /\ rel (B2R (f64_of_f32 (plen (psub b a)))) (edist (R2 a) (R2 b)) (3.01 * u32).
Proof.
  intros ((Fx0 & Mx0) & (Fy0 & My0)) ((Fx1 & Mx1) & (Fy1 & My1)) Hok.
  destruct (S_sub_spec (px b) (px a) 21 Fx1 Fx0 ltac:(zl) (abs_sub_bpow _ _ 20 Mx1 Mx0)) as (Fdx & Mdx & Rdx).
  destruct (S_sub_spec (py b) (py a) 21 Fy1 Fy0 ltac:(zl) (abs_sub_bpow _ _ 20 My1 My0)) as (Fdy & Mdy & Rdy).
  unfold psub.
  set (Dx := B2R (px b) - B2R (px a)) in *. set (Dy := B2R (py b) - B2R (py a)) in *.
  destruct Hok as [Heq|Hlen].
  - (* equal end points: everything is exactly zero *)
    assert (Zx : Dx = 0) by (unfold Dx; unfold R2 in Heq; inversion Heq; lra).
    assert (Zy : Dy = 0) by (unfold Dy; unfold R2 in Heq; inversion Heq; lra).
    assert (Rx0 : B2R (S.sub (px b) (px a)) = 0) by (destruct Rdx as (d & E & _); rewrite E, Zx; ring).
    assert (Ry0 : B2R (S.sub (py b) (py a)) = 0) by (destruct Rdy as (d & E & _); rewrite E, Zy; ring).
    destruct (plen_zero _ _ Fdx Fdy Rx0 Ry0) as (F & R). split; [exact F|]. rewrite R, Heq, edist_refl.
    exists 0. split; [ring|rewrite Rabs_R0; unfold u32; lra].
  - assert (HSS : pw (-20) <= Dx * Dx + Dy * Dy <= pw 44).
    { split.
      - pose proof (edist_sq (R2 a) (R2 b)) as Q. cbn [R2 fst snd] in Q. fold Dx Dy in Q.
        replace (Dx * Dx + Dy * Dy) with (edist (R2 a) (R2 b) ^ 2) by (rewrite Q; ring).
        change (-20)%Z with (-10 + -10)%Z. rewrite bpow_plus. pose proof (bpow_gt_0 radix2 (-10)). nra.
      - assert (Ax : Rabs Dx <= pw 21) by (apply (abs_sub_bpow _ _ 20); assumption).
        assert (Ay : Rabs Dy <= pw 21) by (apply (abs_sub_bpow _ _ 20); assumption).
        pose proof (abs_mul_bpow _ _ 21 21 Ax Ax) as Bx. pose proof (abs_mul_bpow _ _ 21 21 Ay Ay) as By.
        rewrite Rabs_pos_eq in Bx by apply sqr_nonneg. rewrite Rabs_pos_eq in By by apply sqr_nonneg.
        change (21 + 21)%Z with 42%Z in *. change 44%Z with (42 + 2)%Z. rewrite bpow_plus.
        change (pw 2) with 4. pose proof (bpow_gt_0 radix2 42). lra. }
    destruct (plen_rel _ _ Dx Dy Fdx Fdy Mdx Mdy Rdx Rdy HSS) as (Fl & _ & Rl).
    destruct (f64_of_f32_exact _ Fl) as (Fw & Ew). split; [exact Fw|]. rewrite Ew.
    replace (edist (R2 a) (R2 b)) with (sqrt (Dx * Dx + Dy * Dy)); [exact Rl|].
    unfold edist. cbn [R2 fst snd]. fold Dx Dy. f_equal. ring.
Qed.

(* ---------- the running sums ---------- *)

Fixpoint segs_ok (path : list Pos) : Prop :=
  match path with
  | a :: ((b :: _) as t) => seg_ok a b /\ segs_ok t
  | _ => True
  end.

Definition alpha (n : nat) : R := 3.01 * u32 + 2 * INR n * u64.

Lemma alpha_S n : alpha (S n) = alpha n + 2 * u64.
Proof. unfold alpha. rewrite S_INR. ring. Qed.

Lemma alpha_mono n m : (n <= m)%nat -> alpha n <= alpha m.
Proof. intros H. unfold alpha. apply le_INR in H. pose proof u64_pos. nra. Qed.

Lemma alpha_small n : (n <= 2 ^ 50)%nat -> 3.01 * u32 <= alpha n <= / 2.
Proof.
  intros H. unfold alpha. pose proof (pos_INR n) as P. apply le_INR in H. rewrite pow_INR in H.
  change (INR 2) with 2 in H. assert (E : 2 ^ 50 = 1125899906842624) by (cbn; lra). rewrite E in H.
  unfold u32, u64. split; nra.
Qed.

Lemma D_add_spec (a b : F64) k : fin a -> fin b -> (-1074 <= k < 1024)%Z ->
  Rabs (B2R a + B2R b) <= pw k -> fin (D.add a b) /\ Rabs (B2R (D.add a b)) <= pw k /\ rel (B2R (D.add a b)) (B2R a + B2R b) u64.
Proof. intros. rewrite <- uro64. apply (plus_spec 53 1024 Hp64 He64 a b k); assumption || lia. Qed.

Definition lens_ok (n : nat) (xs : list F64) (cs : list R) : Prop :=
  Forall2 (fun x c => fin x /\ rel (B2R x) c (alpha n)) xs cs.

Lemma cum_lengths_error (path : list Pos) : forall (acc : F64) (C : R) (k : nat),
  Forall (fun p => coord_le p 20) path -> segs_ok path ->
  (k + length path <= 2 ^ 50)%nat ->
  fin acc -> 0 <= C -> rel (B2R acc) C (alpha k) ->
  snd (cum_g Rplus edist C (map R2 path)) <= pw 1000 ->
  lens_ok (k + length path) (fst (cum_lengths acc path)) (fst (cum_g Rplus edist C (map R2 path))) /\
  fin (snd (cum_lengths acc path)) /\
  rel (B2R (snd (cum_lengths acc path))) (snd (cum_g Rplus edist C (map R2 path))) (alpha (k + length path)).
Proof.
  induction path as [|a [|b t] IH]; intros acc C k Hc Hs Hn Fa HC Ra Htot.
  - cbn. split; [constructor|]. split; [exact Fa|]. rewrite Nat.add_0_r. exact Ra.
  - cbn. split; [constructor|]. split; [exact Fa|]. eapply rel_weaken; [exact Ra|apply alpha_mono; lia].
  - rewrite cum_lengths_cons2. change (map R2 (a :: b :: t)) with (R2 a :: R2 b :: map R2 t).
    rewrite cum_g_cons2. cbn [fst snd].
    change (R2 b :: map R2 t) with (map R2 (b :: t)) in *.
    inversion Hc as [|? ? Ha Hc']; subst. inversion Hc' as [|? ? Hb _]; subst. destruct Hs as (Hab & Hs').
    destruct (seg_rel a b Ha Hb Hab) as (Fseg & Rseg).
    set (seg := f64_of_f32 (plen (psub b a))) in *. set (E := edist (R2 a) (R2 b)) in *.
    assert (HE : 0 <= E) by apply edist_ge0.
    cbn [length] in Hn.
    destruct (alpha_small k ltac:(lia)) as (Al & Au).
    (* the exact partial sum is below the total *)
    assert (Hmono : forall (l : list P2) (c : R), c <= snd (cum_g Rplus edist c l)).
    { induction l as [|x [|y r] IHl]; intros c; try (cbn; lra).
      rewrite cum_g_cons2. cbn [snd]. pose proof (IHl (c + edist x y)). pose proof (edist_ge0 x y). lra. }
    change (map R2 (a :: b :: t)) with (R2 a :: R2 b :: map R2 t) in Htot.
    rewrite cum_g_cons2 in Htot. cbn [snd] in Htot. fold E in Htot.
    change (R2 b :: map R2 t) with (map R2 (b :: t)) in Htot.
    pose proof (Hmono (map R2 (b :: t)) (C + E)) as HCE.
    (* acc + seg *)
    assert (Rsum : rel (B2R acc + B2R seg) (C + E) (alpha k)).
    { apply rel_add_nonneg; [exact Ra|eapply rel_weaken; [exact Rseg|exact Al]|exact HC|exact HE]. }
    assert (Msum : Rabs (B2R acc + B2R seg) <= pw 1001).
    { eapply Rle_trans; [apply (rel_abs_le _ _ _ Rsum)|]. rewrite Rabs_pos_eq by lra.
      change 1001%Z with (1000 + 1)%Z. rewrite bpow_plus. change (pw 1) with 2.
      pose proof (bpow_gt_0 radix2 1000). nra. }
    destruct (D_add_spec acc seg 1001 Fa Fseg ltac:(zl) Msum) as (Fa' & _ & Ra').
    assert (Rk : rel (B2R (D.add acc seg)) (C + E) (alpha (S k))).
    { eapply rel_weaken; [exact (rel_compose _ _ _ _ _ Rsum Ra')|]. rewrite alpha_S. pose proof u64_pos. nra. }
    destruct (IH (D.add acc seg) (C + E) (S k) Hc' Hs' ltac:(cbn [length] in *; lia) Fa' ltac:(lra) Rk Htot) as (I1 & I2 & I3).
    replace (k + length (a :: b :: t))%nat with (S k + length (b :: t))%nat by (cbn [length]; lia).
    split; [|split; assumption].
    constructor; [|exact I1]. split; [exact Fa'|]. eapply rel_weaken; [exact Rk|apply alpha_mono; lia].
Qed.

(* every cumulative length of calculate_length (zero seed) against the exact one *)
Theorem natural_lengths_error (path : list Pos) :
  Forall (fun p => coord_le p 20) path -> segs_ok path -> (length path <= 2 ^ 50)%nat ->
  poly_len (map R2 path) <= pw 1000 ->
  lens_ok (length path) (natural path D.zero) (cumlen (map R2 path)).
Proof.
  intros Hc Hs Hn Ht. unfold natural, cumlen, lens_ok.
  assert (R0 : rel (B2R D.zero) 0 (alpha 0)).
  { exists 0. split; [cbn; ring|]. rewrite Rabs_R0. unfold alpha. cbn [INR]. unfold u32. lra. }
  destruct (cum_lengths_error path D.zero 0 0%nat Hc Hs Hn eq_refl ltac:(lra) R0 Ht) as (H & _).
  constructor; [|exact H]. split; [reflexivity|]. eapply rel_weaken; [exact R0|apply alpha_mono; lia].
Qed.

Lemma lens_ok_nth n xs cs i x c : lens_ok n xs cs -> nth_error xs i = Some x -> nth_error cs i = Some c ->
  fin x /\ rel (B2R x) c (alpha n).
Proof.
  intros H. revert i. induction H as [|x0 c0 xs cs H0 _ IH]; intros [|i] Hx Hc; try discriminate.
  - cbn in Hx, Hc. inversion Hx; inversion Hc; subst. exact H0.
  - cbn in Hx, Hc. exact (IH i Hx Hc).
Qed.

(* ---------- the length of the adjusted curve, without a hypothesis on the kept length ---------- *)

Theorem adjusted_length_ieee_bound_full (path : list Pos) k L pp pe lp c :
  Forall (fun p => coord_le p 20) path -> segs_ok path -> (length path <= 2 ^ 50)%nat ->
  poly_len (map R2 path) <= pw 1000 ->
  (1 <= k < length path)%nat ->
  nth_error path (Nat.pred k) = Some pp -> nth_error path k = Some pe ->
  nth_error (natural path D.zero) (Nat.pred k) = Some lp ->
  nth_error (cumlen (map R2 path)) (Nat.pred k) = Some c ->
  fin L -> 0 <= B2R L - B2R lp <= pw 20 -> pw (-10) <= edist (R2 pp) (R2 pe) ->
  let Ex := E16 (Rabs (B2R (px pp))) (B2R L - B2R lp) in
  let Ey := E16 (Rabs (B2R (py pp))) (B2R L - B2R lp) in
  exists q, adjust_end path (natural path D.zero) k L = Some q /\
    Rabs (c - B2R lp) <= alpha (length path) * c /\
    Rabs (poly_len (map R2 (firstn k path ++ [q])) - B2R L) <= alpha (length path) * c + Ex + Ey.
Proof.
  intros Hc Hs Hn Ht Hk Hpp Hpe Hlp Hcc FL HT HD Ex Ey.
  pose proof (natural_lengths_error path Hc Hs Hn Ht) as Hok.
  destruct (lens_ok_nth _ _ _ _ _ _ Hok Hlp Hcc) as (Flp & Rlp).
  assert (Hc0 : 0 <= c).
  { assert (G : forall (l : list P2) (a : R), 0 <= a -> Forall (fun v => 0 <= v) (fst (cum_g Rplus edist a l))).
    { induction l as [|x [|y r] IHl]; intros a0 Ha; try (cbn; constructor).
      rewrite cum_g_cons2. cbn [fst]. pose proof (edist_ge0 x y). constructor; [lra|apply IHl; lra]. }
    assert (G' : Forall (fun v => 0 <= v) (cumlen (map R2 path))) by (unfold cumlen; constructor; [lra|apply G; lra]).
    rewrite Forall_forall in G'. apply G'. eapply nth_error_In; eauto. }
  assert (HA : Rabs (c - B2R lp) <= alpha (length path) * c).
  { destruct Rlp as (d & E & B). rewrite E. replace (c - c * (1 + d)) with (- (c * d)) by ring.
    rewrite Rabs_Ropp, Rabs_mult, (Rabs_pos_eq c) by exact Hc0. rewrite Rmult_comm.
    apply Rmult_le_compat_r; assumption. }
  assert (Hh : adjust_hyps pp pe L lp).
  { rewrite Forall_forall in Hc.
    destruct (Hc pp ltac:(eapply nth_error_In; eauto)) as (Bx0 & By0).
    destruct (Hc pe ltac:(eapply nth_error_In; eauto)) as (Bx1 & By1).
    repeat (split; [assumption|]). exact HD. }
  destruct (adjusted_length_ieee_bound path (natural path D.zero) k L pp pe lp c (alpha (length path) * c)
              Hk Hpp Hpe Hlp Hh Hcc HA) as (q & Hq & _ & B).
  exists q. split; [exact Hq|]. split; [exact HA|exact B].
Qed.

(* ---------- on calculate_length itself ---------- *)

(* the adjusting branch of calculate_length (zero seed): the new path is a
   prefix of the old one plus the end point q; when the segment the cut falls
   in is at least 2^-10 long and L - lengths[k-1] <= 2^20, q is within E16 of
   the exact point and the exact polyline length of the new path within
   alpha n * c + Ex + Ey of L *)
Theorem calculate_length_ieee_bound (path : list Pos) (L : F64) path' lens :
  D.lt D.zero L = true ->
  keeps_natural (natural_len path D.zero) L = false ->
  (last_two_equal path && D.gt L (natural_len path D.zero))%bool = false ->
  (2 <= length path)%nat ->
  calculate_length path (Some L) D.zero = Done (path', lens) ->
  Forall (fun p => coord_le p 20) path -> segs_ok path -> (length path <= 2 ^ 50)%nat ->
  poly_len (map R2 path) <= pw 1000 -> fin L ->
  exists k pp pe lp c q,
    (1 <= k < length path)%nat /\
    nth_error path (Nat.pred k) = Some pp /\ nth_error path k = Some pe /\
    nth_error (natural path D.zero) (Nat.pred k) = Some lp /\
    nth_error (cumlen (map R2 path)) (Nat.pred k) = Some c /\
    path' = firstn k path ++ [q] /\ lens = firstn k (natural path D.zero) ++ [L] /\
    fin lp /\ B2R lp < B2R L /\ Rabs (c - B2R lp) <= alpha (length path) * c /\
    (pw (-10) <= edist (R2 pp) (R2 pe) -> B2R L - B2R lp <= pw 20 ->
     let Ex := E16 (Rabs (B2R (px pp))) (B2R L - B2R lp) in
     let Ey := E16 (Rabs (B2R (py pp))) (B2R L - B2R lp) in
     fin (px q) /\ fin (py q) /\
     Rabs (B2R (px q) - fst (adjust_R (R2 pp) (R2 pe) (B2R L) (B2R lp))) <= Ex /\
     Rabs (B2R (py q) - snd (adjust_R (R2 pp) (R2 pe) (B2R L) (B2R lp))) <= Ey /\
     Rabs (poly_len (map R2 path') - B2R L) <= alpha (length path) * c + Ex + Ey).
Proof.
  intros HL Hkn Hd H2 H Hc Hs Hn Ht FL.
  destruct (calculate_length_adjusts path L D.zero path' lens HL Hkn Hd H2 H)
    as (_ & _ & k & q & Hk & Hp' & Hl & Hadj & (v & Hv & Hlt) & _).
  change (Init.Nat.pred k) with (Nat.pred k) in *.
  destruct (nth_error path (Nat.pred k)) as [pp|] eqn:Epp; [|apply nth_error_None in Epp; exfalso; clear - Epp Hk; lia].
  destruct (nth_error path k) as [pe|] eqn:Epe; [|apply nth_error_None in Epe; exfalso; clear - Epe Hk; lia].
  assert (Hlen : length (cumlen (map R2 path)) = length path).
  { rewrite cumlen_length, map_length; [reflexivity|]. destruct path; [cbn in H2; exfalso; clear - H2; lia|discriminate]. }
  destruct (nth_error (cumlen (map R2 path)) (Nat.pred k)) as [c|] eqn:Ec;
    [|apply nth_error_None in Ec; exfalso; clear - Ec Hk Hlen; lia].
  pose proof (natural_lengths_error path Hc Hs Hn Ht) as Hok.
  destruct (lens_ok_nth _ _ _ _ _ _ Hok Hv Ec) as (Fv & Rv).
  assert (Hlt' : B2R v < B2R L).
  { unfold D.lt, flt in Hlt. rewrite (Bltb_correct 53 1024 v L Fv FL) in Hlt.
    destruct (Rlt_bool_spec (B2R v) (B2R L)); [assumption|discriminate]. }
  exists k, pp, pe, v, c, q.
  assert (Hc0 : 0 <= c).
  { assert (G : forall (l : list P2) (a : R), 0 <= a -> Forall (fun v => 0 <= v) (fst (cum_g Rplus edist a l))).
    { induction l as [|x [|y r] IHl]; intros a0 Ha; try (cbn; constructor).
      rewrite cum_g_cons2. cbn [fst]. pose proof (edist_ge0 x y). constructor; [lra|apply IHl; lra]. }
    assert (G' : Forall (fun v => 0 <= v) (cumlen (map R2 path))) by (unfold cumlen; constructor; [lra|apply G; lra]).
    rewrite Forall_forall in G'. apply G'. eapply nth_error_In; eauto. }
  assert (HA : Rabs (c - B2R v) <= alpha (length path) * c).
  { destruct Rv as (d & E & B). rewrite E. replace (c - c * (1 + d)) with (- (c * d)) by ring.
    rewrite Rabs_Ropp, Rabs_mult, (Rabs_pos_eq c) by exact Hc0. rewrite Rmult_comm.
    apply Rmult_le_compat_r; assumption. }
  repeat (split; [first [assumption|reflexivity]|]).
  intros HD HT Ex Ey.
  assert (HT' : 0 <= B2R L - B2R v <= pw 20) by lra.
  destruct (adjusted_length_ieee_bound_full path k L pp pe v c Hc Hs Hn Ht Hk Epp Epe Hv Ec FL HT' HD) as (q1 & Hq1 & _ & B1).
  rewrite Hadj in Hq1. injection Hq1 as <-.
  assert (Hh : adjust_hyps pp pe L v).
  { rewrite Forall_forall in Hc.
    destruct (Hc pp ltac:(eapply nth_error_In; eauto)) as (Bx0 & By0).
    destruct (Hc pe ltac:(eapply nth_error_In; eauto)) as (Bx1 & By1).
    repeat (split; [assumption|]). exact HD. }
  destruct (adjust_end_ieee_bound path (natural path D.zero) k L pp pe v Epp Epe Hv Hh) as (q2 & Hq2 & Fx & Fy & Bx & By).
  rewrite Hadj in Hq2. injection Hq2 as <-.
  rewrite Hp'. repeat (split; [assumption|]). exact B1.
Qed.

(* DecodeTerminatesEncode: decode followed by re-encode never runs out of fuel
   on files whose sliders fit (C01, "never hangs", layers 2 + 3 + 4 composed).

   DecodeTerminates: the decode returns a map [bv].  EncodeCompletes: on a
   decoded map the encoder never returns OutOfFuel once its fuels exceed the
   explicit bounds; its outcomes are the token stream or the D18 panic of a
   slider with a negative curve distance (the class [neg_dist_class], open in
   C01 layer 4b). *)
From RM Require Import Model.Decoders Model.Encode Model.CurveDist.
From RM Require Model.DrvEnc Model.Curve.
From RM Require Import Proofs.DecodedObjects Proofs.EncodeTotal Proofs.EncodeCompletes Proofs.DecodeTerminates
     Proofs.DecodeTerminatesSegments Proofs.DecodeTerminatesSegLines.
From RM Require Proofs.ThetaLoop.
Open Scope Z_scope.

Section DecodeEncode.
  Variable lm : Curve.Libm.
  Hypothesis Hlm : ThetaLoop.atan2_in_range lm.

  Theorem decode_encode_fits chk fuel tf lines :
    Forall (fun h => obj_fits_some h = true) (bm_parsed lines) ->
    100000 * 2 ^ 25 + 1 < Z.of_nat tf -> 3 + 9000 * (100000 * 2 ^ 25 + 1) < Z.of_nat fuel ->
    exists bv, decode_beatmap (dist_of_curve lm) lines = Done bv /\
      ((exists toks, encode_tokens (DrvEnc.dist_real lm) (events_with chk fuel tf) bv = Done toks) \/
       (neg_dist_class lm bv = true /\
        exists w, encode_tokens (DrvEnc.dist_real lm) (events_with chk fuel tf) bv = Panic w)).
  Proof.
    intros Hf Htf Hfuel. destruct (decode_beatmap_fits lm Hlm lines Hf) as (bv & Hb).
    exists bv. split; [exact Hb|]. exact (encode_outcomes lm chk fuel tf lines bv Hb Htf Hfuel).
  Qed.

  Theorem decode_encode_16 chk fuel tf lines :
    Forall (fun h => obj_cps_le 16 h = true) (bm_parsed lines) ->
    100000 * 2 ^ 25 + 1 < Z.of_nat tf -> 3 + 9000 * (100000 * 2 ^ 25 + 1) < Z.of_nat fuel ->
    exists bv, decode_beatmap (dist_of_curve lm) lines = Done bv /\
      encode_tokens (DrvEnc.dist_real lm) (events_with chk fuel tf) bv <> OutOfFuel /\
      ((exists toks, encode_tokens (DrvEnc.dist_real lm) (events_with chk fuel tf) bv = Done toks) \/
       (neg_dist_class lm bv = true /\
        exists w, encode_tokens (DrvEnc.dist_real lm) (events_with chk fuel tf) bv = Panic w)).
  Proof.
    intros Hf Htf Hfuel. destruct (decode_beatmap_16 lm Hlm lines Hf) as (bv & Hb).
    exists bv. split; [exact Hb|]. split.
    - exact (encode_never_out_of_fuel lm chk fuel tf lines bv Hb Htf Hfuel).
    - exact (encode_outcomes lm chk fuel tf lines bv Hb Htf Hfuel).
  Qed.

  (* per segment, on the state and on the input lines *)
  Theorem decode_encode_seg_fits chk fuel tf lines :
    Forall (fun h => obj_seg_fits_some h = true) (bm_parsed lines) ->
    100000 * 2 ^ 25 + 1 < Z.of_nat tf -> 3 + 9000 * (100000 * 2 ^ 25 + 1) < Z.of_nat fuel ->
    exists bv, decode_beatmap (dist_of_curve lm) lines = Done bv /\
      encode_tokens (DrvEnc.dist_real lm) (events_with chk fuel tf) bv <> OutOfFuel /\
      ((exists toks, encode_tokens (DrvEnc.dist_real lm) (events_with chk fuel tf) bv = Done toks) \/
       (neg_dist_class lm bv = true /\
        exists w, encode_tokens (DrvEnc.dist_real lm) (events_with chk fuel tf) bv = Panic w)).
  Proof.
    intros Hf Htf Hfuel. destruct (decode_beatmap_seg_fits lm Hlm lines Hf) as (bv & Hb).
    exists bv. split; [exact Hb|]. split.
    - exact (encode_never_out_of_fuel lm chk fuel tf lines bv Hb Htf Hfuel).
    - exact (encode_outcomes lm chk fuel tf lines bv Hb Htf Hfuel).
  Qed.

  Theorem decode_encode_seg_lines chk fuel tf lines :
    lines_seg_fit lines = true ->
    100000 * 2 ^ 25 + 1 < Z.of_nat tf -> 3 + 9000 * (100000 * 2 ^ 25 + 1) < Z.of_nat fuel ->
    exists bv, decode_beatmap (dist_of_curve lm) lines = Done bv /\
      encode_tokens (DrvEnc.dist_real lm) (events_with chk fuel tf) bv <> OutOfFuel /\
      ((exists toks, encode_tokens (DrvEnc.dist_real lm) (events_with chk fuel tf) bv = Done toks) \/
       (neg_dist_class lm bv = true /\
        exists w, encode_tokens (DrvEnc.dist_real lm) (events_with chk fuel tf) bv = Panic w)).
  Proof.
    intros Hf Htf Hfuel. destruct (decode_terminates_seg_lines lm Hlm lines Hf) as [_ (bv & Hb)].
    exists bv. split; [exact Hb|]. split.
    - exact (encode_never_out_of_fuel lm chk fuel tf lines bv Hb Htf Hfuel).
    - exact (encode_outcomes lm chk fuel tf lines bv Hb Htf Hfuel).
  Qed.
End DecodeEncode.

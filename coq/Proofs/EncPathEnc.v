(* EncPathEnc: what add_path_data writes, piece by piece.  For a control-point
   list of integer points (Model/EncPathSpec.v) the rendered path tokens are
   the pieces [enc_strs] joined by '|' and closed by ','; the position
   arithmetic ([pos.x + point.x] in f32, the [as i32] casts) is exact. *)
From RM Require Import Model.EncPathSpec Proofs.EncText Proofs.EncFmt Proofs.EncFloat Proofs.EncPathFloat
     Proofs.EncSimple Proofs.EncObjects Proofs.FramingFacts Proofs.PathStringFacts.
From RM Require Import Gen.Generated.
From Flocq Require Import BinarySingleNaN.
From Coq Require Import ZifyBool.
Open Scope Z_scope.

(* ---------- integer points as positions ---------- *)

Definition Pok (P : ZPt) : Prop := Z.abs (fst P) <= 131072 /\ Z.abs (snd P) <= 131072.

Lemma abs_ok_bounds P q : Pok P -> abs_ok P q = true ->
  Z.abs (fst q) < 2 ^ 24 /\ Z.abs (snd q) < 2 ^ 24 /\
  Z.abs (fst P + fst q) <= 131072 /\ Z.abs (snd P + snd q) <= 131072.
Proof.
  unfold Pok, abs_ok, max_coordinate_value. intros [H1 H2] H.
  apply andb_true_iff in H. destruct H as [A B].
  change (2 ^ 24) with 16777216. lia.
Qed.

Lemma pos_add_int P q : Pok P -> abs_ok P q = true -> pos_add (ipos P) (ipos q) = ipos (zadd P q).
Proof.
  intros HP H. destruct (abs_ok_bounds P q HP H) as (B1 & B2 & B3 & B4). destruct HP as [P1 P2].
  change (2 ^ 24) with 16777216 in *.
  unfold pos_add, ipos, zadd. cbn [px py fst snd].
  rewrite !S_add_of_Z by (change (2 ^ 24) with 16777216; lia). reflexivity.
Qed.

Lemma zpt_ipos q : Z.abs (fst q) < 2 ^ 24 -> Z.abs (snd q) < 2 ^ 24 -> zpt (ipos q) = q.
Proof.
  intros H1 H2. unfold zpt, ipos. cbn [px py]. rewrite !f32_as_i32_of_Z by assumption.
  destruct q; reflexivity.
Qed.

Lemma same_int_pos_int P a b : Pok P -> abs_ok P a = true -> abs_ok P b = true ->
  same_int_pos (pos_add (ipos P) (ipos a)) (pos_add (ipos P) (ipos b)) = zeq a b.
Proof.
  intros HP Ha Hb. rewrite !pos_add_int by assumption.
  destruct (abs_ok_bounds P a HP Ha) as (A1 & A2 & A3 & A4).
  destruct (abs_ok_bounds P b HP Hb) as (B1 & B2 & B3 & B4).
  change (2 ^ 24) with 16777216 in *.
  unfold same_int_pos, ipos, zadd, zeq. cbn [px py fst snd].
  rewrite !f32_as_i32_of_Z by (change (2 ^ 24) with 16777216; lia). lia.
Qed.

Lemma pos_eqb_int a b :
  Z.abs (fst a) < 2 ^ 24 -> Z.abs (snd a) < 2 ^ 24 -> Z.abs (fst b) < 2 ^ 24 -> Z.abs (snd b) < 2 ^ 24 ->
  pos_eqb (ipos a) (ipos b) = zeq a b.
Proof.
  intros. unfold pos_eqb, ipos, zeq. cbn [px py]. rewrite !S_eq_of_Z by assumption. reflexivity.
Qed.

(* ---------- the encoder's decision at a typed control point ---------- *)

(* [i]: index of the point, [p], [pp]: the two points before it, [last]: type of the latest
   explicit segment, [t]: type of the point *)
Definition explicit (i : nat) (pp p : ZPt) (last t : PathType) : bool :=
  if (1 <? i)%nat && zeq p pp then true else negb (pt_eqb t last) || pt_eqb t pt_perfect.

Section Enc.
  Variables (fmt_f64 : F64 -> str) (fmt_f32 : F32 -> str) (fmt_int : Z -> str).
  Notation rline := (render fmt_f64 fmt_f32 fmt_int).
  Variable P : ZPt.

  Definition letter_str (t : PathType) : str := rline (path_type_toks t).
  Definition pt_str (q : ZPt) : str :=
    fmt_f32 (S.of_Z (fst P + fst q)) ++ colon :: fmt_f32 (S.of_Z (snd P + snd q)).

  (* the pieces written for the points [l] = cps[i..], i >= 1 *)
  Fixpoint enc_strs (i : nat) (pp p : ZPt) (last : PathType) (l : list ZCP) : list str :=
    match l with
    | [] => []
    | z :: r =>
        match snd z with
        | None => pt_str (fst z) :: enc_strs (S i) p (fst z) last r
        | Some t =>
            if explicit i pp p last t
            then letter_str t :: pt_str (fst z) :: enc_strs (S i) p (fst z) t r
            else pt_str (fst z) :: pt_str (fst z) :: enc_strs (S i) p (fst z) last r
        end
    end.

  (* pieces joined by '|', closed by ',' *)
  Fixpoint sepcat (l : list str) : str :=
    match l with
    | [] => []
    | s :: r => match r with [] => s ++ [comma] | _ => s ++ 124 :: sepcat r end
    end.

  Lemma sepcat_cons s r : r <> [] -> sepcat (s :: r) = s ++ 124 :: sepcat r.
  Proof. destruct r; [congruence|reflexivity]. Qed.

  Lemma enc_strs_nonnil i pp p last z r : enc_strs i pp p last (z :: r) <> [].
  Proof. cbn [enc_strs]. destruct (snd z); [destruct (explicit i pp p last p0)|]; discriminate. Qed.

  Lemma render_point_toks q : Pok P -> abs_ok P q = true ->
    forall ty sep, rline (point_toks (ipos P) (mkPCP (ipos q) ty) ++ [TStr [sep]]) = pt_str q ++ [sep].
  Proof.
    intros HP Hq ty sep. unfold point_toks. cbn [cp_pos]. rewrite (pos_add_int P q HP Hq).
    unfold render, pt_str, ipos, zadd. cbn [px py fst snd app flat_map render_tok t_colon].
    unfold colon. repeat (progress (rewrite <- ?app_assoc; cbn [app])). reflexivity.
  Qed.

  Lemma rline_app a b : rline (a ++ b) = rline a ++ rline b.
  Proof. unfold render. apply flat_map_app. Qed.

  (* the loop of add_path_data from index i >= 1 on *)
  Lemma loop_render : Pok P -> forall rest pre i pp p last x1,
    length pre = i -> (1 <= i)%nat ->
    nth_error pre (i - 1) = Some x1 -> cp_pos x1 = ipos p -> abs_ok P p = true ->
    ((1 < i)%nat -> exists x2, nth_error pre (i - 2) = Some x2 /\ cp_pos x2 = ipos pp /\ abs_ok P pp = true) ->
    Forall (fun z => abs_ok P (fst z) = true) rest ->
    rline (path_loop_toks (ipos P) (pre ++ map icp rest) i (map icp rest) (Some last))
    = sepcat (enc_strs i pp p last rest).
  Proof.
    intros HP. induction rest as [|z r IH]; intros pre i pp p last x1 Hlen Hi H1 Hx1 Hp H2 Hall.
    - reflexivity.
    - inversion Hall as [|? ? Hz Hr]; subst.
      cbn [map path_loop_toks enc_strs]. destruct z as [q ty]. cbn [fst snd icp cp_type] in *.
      set (all := pre ++ icp (q, ty) :: map icp r).
      assert (Hall_len : length all = (length pre + S (length r))%nat).
      { unfold all. rewrite app_length. cbn [length]. rewrite map_length. reflexivity. }
      (* the recursive call *)
      assert (Hrec : forall last',
                 rline (path_loop_toks (ipos P) all (S (length pre)) (map icp r) (Some last'))
                 = sepcat (enc_strs (S (length pre)) p q last' r)).
      { intros last'.
        replace all with ((pre ++ [icp (q, ty)]) ++ map icp r) by (unfold all; rewrite <- app_assoc; reflexivity).
        apply (IH (pre ++ [icp (q, ty)]) (S (length pre)) p q last' (icp (q, ty))).
        - rewrite app_length. cbn. lia.
        - lia.
        - replace (S (length pre) - 1)%nat with (length pre) by lia. apply nth_error_mid.
        - reflexivity.
        - exact Hz.
        - intros _. exists x1. replace (S (length pre) - 2)%nat with (length pre - 1)%nat by lia.
          split; [|split; assumption].
          rewrite nth_error_app1 by lia. exact H1.
        - exact Hr. }
      (* the separator after the point *)
      assert (Hsep : (if (length pre =? length all - 1)%nat then t_comma else t_pipe)
                     = TStr [if nil_b r then comma else 124]).
      { rewrite Hall_len. destruct r as [|z' r']; cbn [length nil_b].
        - replace (length pre =? length pre + 1 - 1)%nat with true by lia. reflexivity.
        - replace (length pre =? length pre + S (S (length r')) - 1)%nat with false by lia. reflexivity. }
      assert (Hi0 : (length pre =? 0)%nat = false) by lia.
      assert (Hl1 : (length all =? 1)%nat = false) by lia.
      (* tail: point ++ sep ++ recursion = sepcat (pt :: rec) *)
      assert (Htail : forall last',
                 rline ((point_toks (ipos P) (icp (q, ty)) ++
                         [if (length pre =? length all - 1)%nat then t_comma else t_pipe]) ++
                        path_loop_toks (ipos P) all (S (length pre)) (map icp r) (Some last'))
                 = sepcat (pt_str q :: enc_strs (S (length pre)) p q last' r)).
      { intros last'. rewrite rline_app, Hsep, Hrec. unfold icp. cbn [fst snd].
        rewrite (render_point_toks q HP Hz). destruct r as [|z' r'].
        - cbn [nil_b enc_strs sepcat]. rewrite app_nil_r. reflexivity.
        - cbn [nil_b]. rewrite sepcat_cons by apply enc_strs_nonnil.
          rewrite <- app_assoc. reflexivity. }
      rewrite Hi0.
      destruct ty as [t|].
      + (* typed *)
        assert (Hnes :
          (if (1 <? length pre)%nat
           then match nth_error all (length pre - 1), nth_error all (length pre - 2) with
                | Some a, Some b =>
                    if same_int_pos (pos_add (ipos P) (cp_pos a)) (pos_add (ipos P) (cp_pos b)) then true
                    else negb (opt_pt_eqb (Some t) (Some last)) || opt_pt_eqb (Some t) (Some pt_perfect)
                | _, _ => negb (opt_pt_eqb (Some t) (Some last)) || opt_pt_eqb (Some t) (Some pt_perfect)
                end
           else negb (opt_pt_eqb (Some t) (Some last)) || opt_pt_eqb (Some t) (Some pt_perfect))
          = explicit (length pre) pp p last t).
        { unfold explicit. cbn [opt_pt_eqb]. destruct (1 <? length pre)%nat eqn:E1; [|reflexivity].
          cbn [andb]. destruct (H2 ltac:(lia)) as (x2 & Hx2 & Hx2p & Hpp).
          unfold all. rewrite !nth_error_app1 by lia. rewrite H1, Hx2, Hx1, Hx2p.
          rewrite (same_int_pos_int P p pp HP Hp Hpp). reflexivity. }
        cbn [cp_type icp snd]. rewrite Hnes, Hl1.
        destruct (explicit (length pre) pp p last t) eqn:Ex; cbv beta iota.
        * (* explicit: letter '|' point sep ... *)
          rewrite rline_app, Htail, rline_app.
          rewrite (sepcat_cons (letter_str t) (pt_str q :: _)) by discriminate.
          unfold letter_str. rewrite <- app_assoc. reflexivity.
        * (* implicit: point '|' point sep ... *)
          rewrite rline_app, Htail.
          rewrite (sepcat_cons (pt_str q) (pt_str q :: _)) by discriminate.
          unfold icp. cbn [fst snd].
          unfold t_pipe. pose proof (render_point_toks q HP Hz (Some t) 124) as XX. unfold char in XX. rewrite XX.
          rewrite <- app_assoc. reflexivity.
      + (* untyped *)
        cbn [cp_type icp snd app]. apply Htail.
  Qed.

  (* the whole path: first point typed (always explicit, no coordinates written) *)
  Theorem path_toks_render : Pok P -> forall q0 t0 r,
    abs_ok P q0 = true -> Forall (fun z => abs_ok P (fst z) = true) r ->
    rline (path_toks (ipos P) (map icp ((q0, Some t0) :: r)))
    = sepcat (letter_str t0 :: enc_strs 1 (0, 0) q0 t0 r).
  Proof.
    intros HP q0 t0 r H0 Hr. unfold path_toks. cbn [map path_loop_toks icp cp_type fst snd opt_pt_eqb negb orb].
    change (1 <? 0)%nat with false. change (0 =? 0)%nat with true. cbv iota beta. cbn [app].
    rewrite rline_app.
    destruct r as [|z r'].
    - cbn [map length path_loop_toks enc_strs sepcat]. change (1 =? 1)%nat with true. cbv iota.
      rewrite rline_app. unfold letter_str. cbn. rewrite !app_nil_r. reflexivity.
    - change (mkPCP (ipos q0) (Some t0) :: map icp (z :: r')) with ([icp (q0, Some t0)] ++ map icp (z :: r')).
      match goal with |- context [if ?c then t_comma else t_pipe] => replace c with false end.
      2:{ cbn [app length map Nat.eqb]. reflexivity. }
      change (icp (q0, Some t0) :: map icp (z :: r')) with ([icp (q0, Some t0)] ++ map icp (z :: r')).
      rewrite (loop_render HP (z :: r') [icp (q0, Some t0)] 1 (0, 0) q0 t0 (icp (q0, Some t0)));
        try reflexivity; try assumption; try lia.
      rewrite sepcat_cons by apply enc_strs_nonnil.
      rewrite rline_app. unfold letter_str. rewrite <- app_assoc. reflexivity.
  Qed.
End Enc.

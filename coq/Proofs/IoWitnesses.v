(* IoWitnesses: concrete refutation witnesses (known findings D4, D5, D6) for
   the full statements of C08 / C10, proved by vm_compute on canonical dumps. *)
From RM Require Import Model.Text Model.Encoding Model.Reader.
From RM Require Import Proofs.EncodingFacts Proofs.ReaderFacts Proofs.TransparencyFacts.
Require Import ZArith List.
Import ListNotations.
Open Scope Z_scope.

Definition show (x : io (list str)) : list Z := dump_io dump_lines x.

Ltac scalar_by_compute :=
  unfold scalar_str; rewrite Forall_forall; intros c Hin; vm_compute in Hin;
  repeat (destruct Hin as [Hin|Hin]; [subst c; reflexivity|]); contradiction.

Ltac faultless_by_compute :=
  intros k Hin; cbn [In] in Hin;
  repeat (destruct Hin as [Hin|Hin]; [discriminate|]); contradiction.

(* ---------- D5 ---------- *)

(* U+4E0A has the bytes 4E 0A: both UTF-16 forms cut the line after it *)
Definition d5_text : str := lit "Title:" ++ [19978; 120; 10].

Lemma transparency_refuted :
  exists s, scalar_str s /\
    one_chunk (bom_utf8 ++ utf8_enc s) <> one_chunk (bom_le ++ utf16le_enc s) /\
    one_chunk (bom_utf8 ++ utf8_enc s) <> one_chunk (bom_be ++ utf16be_enc s).
Proof.
  exists d5_text. split; [scalar_by_compute|split].
  - intros H. apply (f_equal show) in H. vm_compute in H. discriminate.
  - intros H. apply (f_equal show) in H. vm_compute in H. discriminate.
Qed.

(* ---------- D6 ---------- *)

Lemma odd_tail_refuted :
  exists s x, scalar_str s /\
    one_chunk (bom_le ++ utf16le_enc s ++ [x]) = IoErr UnexpectedEof /\
    one_chunk (bom_le ++ utf16le_enc s) = IoDone (lines_of_text s).
Proof.
  exists (lit "ab" ++ [10]), 10. split; [scalar_by_compute|split]; vm_compute; reflexivity.
Qed.

(* an error that no event of the schedule carries (T01e refuted) *)
Lemma manufactured_error :
  exists b s, faultless s /\ read_all_lines (mk_reader b s) = IoErr UnexpectedEof.
Proof.
  exists [255; 254; 97; 0; 10], []. split; [exact faultless_nil|]. vm_compute. reflexivity.
Qed.

(* ---------- D4 ---------- *)

Definition d4_bytes : bytes := lit "[Metadata]" ++ [10] ++ lit "Title:abc" ++ [10].

(* a first chunk of two bytes: those bytes are lost *)
Lemma schedule_independent_refuted :
  exists b s1 s2, faultless s1 /\ faultless s2 /\
    read_all_lines (mk_reader b s1) <> read_all_lines (mk_reader b s2).
Proof.
  exists d4_bytes, [], [Chunk 2]. split; [exact faultless_nil|split; [faultless_by_compute|]].
  intros H. apply (f_equal show) in H. vm_compute in H. discriminate.
Qed.

(* BufReader::with_capacity(2, _): every chunk has two bytes, nothing is left *)
Lemma capacity_two_loses_everything :
  show (read_all_lines (mk_reader d4_bytes (repeat (Chunk 2) 12))) = show (IoDone []) /\
  show (read_all_lines (mk_reader d4_bytes [])) = show (IoDone [lit "[Metadata]"; lit "Title:abc"]) /\
  show (read_all_lines (mk_reader d4_bytes (repeat (Chunk 3) 8))) = show (IoDone [lit "[Metadata]"; lit "Title:abc"]) /\
  show (read_all_lines (mk_reader d4_bytes [Chunk 2; Chunk 100])) = show (IoDone [lit "etadata]"; lit "Title:abc"]).
Proof. vm_compute. repeat split. Qed.

(* a stream of one or two bytes is dropped even in one chunk *)
Lemma short_stream_dropped :
  show (read_all_lines (mk_reader (lit "ab") [])) = show (IoDone []) /\
  show (read_all_lines (mk_reader (lit "abc") [])) = show (IoDone [lit "abc"]).
Proof. vm_compute. repeat split. Qed.

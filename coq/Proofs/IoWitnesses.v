(* IoWitnesses: the readings of the inputs of the repaired findings D4, D5 and
   D6 (each was a refutation witness of a full statement of C08 / C10 / C01
   before its repair), proved by vm_compute on canonical dumps. *)
From RM Require Import Model.Text Model.Encoding Model.Reader.
From RM Require Import Proofs.EncodingFacts Proofs.ReaderFacts Proofs.TransparencyFacts.
Require Import ZArith List.
Import ListNotations.
Open Scope Z_scope.

Definition show (x : io (list str)) : list Z := dump_io dump_lines x.

Ltac scalar_by_compute :=
  unfold scalar_str; rewrite Forall_forall; intros c Hin; vm_compute in Hin;
  repeat (destruct Hin as [Hin|Hin]; [subst c; reflexivity|]); contradiction.

Ltac faultless_by_compute :=
  intros k Hin; cbn [In] in Hin;
  repeat (destruct Hin as [Hin|Hin]; [discriminate|]); contradiction.

(* ---------- D5 (repaired): code units that contain a byte 0x0A ---------- *)

(* U+4E0A has the bytes 4E 0A: before the repair both UTF-16 forms cut the
   line after it ("Title:<U+4E0A>" | "x") *)
Definition d5_text : str := lit "Title:" ++ [19978; 120; 10].
(* U+0A41 U+010A U+1040A (surrogates D801 DC0A) U+0A00 U+0AFF U+FF0A, a line
   feed, "z", a line feed, U+200A x *)
Definition d5_text2 : str := [2625; 266; 66570; 2560; 2815; 65290; 10] ++ lit "z" ++ [10; 8202; 120].

Lemma former_d5_texts_decode :
  scalar_str d5_text /\ scalar_str d5_text2 /\
  show (one_chunk (bom_utf8 ++ utf8_enc d5_text)) = show (IoDone [lit "Title:" ++ [19978; 120]]) /\
  show (one_chunk (bom_le ++ utf16le_enc d5_text)) = show (IoDone [lit "Title:" ++ [19978; 120]]) /\
  show (one_chunk (bom_be ++ utf16be_enc d5_text)) = show (IoDone [lit "Title:" ++ [19978; 120]]) /\
  show (one_chunk (bom_utf8 ++ utf8_enc d5_text2)) = show (IoDone (lines_of_text d5_text2)) /\
  show (one_chunk (bom_le ++ utf16le_enc d5_text2)) = show (IoDone (lines_of_text d5_text2)) /\
  show (one_chunk (bom_be ++ utf16be_enc d5_text2)) = show (IoDone (lines_of_text d5_text2)) /\
  show (IoDone (lines_of_text d5_text2)) = show (IoDone [[2625; 266; 66570; 2560; 2815; 65290]; lit "z"; [8202; 120]]) /\
  show (read_all_lines (mk_reader (bom_le ++ utf16le_enc d5_text2) (repeat (Chunk 1) 40))) = show (IoDone (lines_of_text d5_text2)) /\
  show (read_all_lines (mk_reader (bom_be ++ utf16be_enc d5_text2) [Chunk 3; Interrupted; Chunk 2; Chunk 1; Chunk 5])) = show (IoDone (lines_of_text d5_text2)).
Proof. split; [scalar_by_compute|split; [scalar_by_compute|]]. vm_compute. repeat split. Qed.

(* malformed UTF-16 streams: a byte 0x0A at an odd offset or with a non-zero
   partner is content; a stream of odd length keeps its lone last byte on the
   last raw line, where Encoding::decode drops it *)
Lemma malformed_utf16_lines :
  (* BE 00 61 | 0A 00 | 62 00 | 0A 63: no unit 000A, one line a U+0A00 U+6200 U+0A63 *)
  show (one_chunk (bom_be ++ [0; 97; 10; 0; 98; 0; 10; 99])) = show (IoDone [[97; 2560; 25088; 2659]]) /\
  (* LE 61 00 | 00 0A | 0A 00 | 62: U+0A00 is content, then a line feed, then a lone byte *)
  show (one_chunk (bom_le ++ [97; 0; 0; 10; 10; 0; 98])) = show (IoDone [[97; 2560]; []]) /\
  (* LE 61 00 | 0A 01 | 0A: U+010A, then a lone low byte of a line feed at the end *)
  show (one_chunk (bom_le ++ [97; 0; 10; 1; 10])) = show (IoDone [[97; 266]]) /\
  (* BE 00 0A | 0A: a line feed, then a lone byte: one blank line and one more *)
  show (one_chunk (bom_be ++ [0; 10; 10])) = show (IoDone [[]; []]) /\
  (* BE 0A 0A 00 0A: U+0A0A, then a line feed *)
  show (one_chunk (bom_be ++ [10; 10; 0; 10; 0; 98])) = show (IoDone [[2570]; [98]]).
Proof. vm_compute. repeat split. Qed.

(* ---------- D6 (repaired): the former failing inputs now decode ---------- *)

(* a UTF-16LE stream that ends right after the low byte of a line feed: the
   odd trailing byte is a last raw line that decodes to the empty string; no
   error (before the repair: IoErr UnexpectedEof) *)
Lemma odd_tail_decodes :
  exists s x, scalar_str s /\
    one_chunk (bom_le ++ utf16le_enc s ++ [x]) = IoDone (lines_of_text s ++ [[]]) /\
    one_chunk (bom_le ++ utf16le_enc s) = IoDone (lines_of_text s).
Proof.
  exists (lit "ab" ++ [10]), 10. split; [scalar_by_compute|split]; vm_compute; reflexivity.
Qed.

(* the input of the former refutation of T01e, at every chunking of its five
   bytes that is outside the D4 class, with an Interrupted at the extra-byte
   read: always the one line "a" *)
Lemma former_d6_input_decodes :
  show (read_all_lines (mk_reader [255; 254; 97; 0; 10] [])) = show (IoDone [lit "a"]) /\
  show (read_all_lines (mk_reader [255; 254; 97; 0; 10] [Chunk 3; Chunk 1; Chunk 1])) = show (IoDone [lit "a"]) /\
  show (read_all_lines (mk_reader [255; 254; 97; 0; 10] [Chunk 4; Chunk 1; Interrupted; Interrupted])) = show (IoDone [lit "a"]) /\
  show (read_all_lines (mk_reader [255; 254; 97; 0; 10] [Chunk 5; Interrupted])) = show (IoDone [lit "a"]).
Proof. vm_compute. repeat split. Qed.

(* the extra-byte read of read_line, event by event: after `a\n` in UTF-16LE
   (FF FE 61 00 0A | 00 ...) the reader is asked once more.  A hard failure
   there is returned; Interrupted there is retried; EOF there ends the line *)
Lemma extra_byte_read_events :
  show (read_all_lines (mk_reader [255; 254; 97; 0; 10; 0; 98; 0] [Chunk 5; Fail TimedOut; Chunk 9])) = [1; 4] /\
  show (read_all_lines (mk_reader [255; 254; 97; 0; 10; 0; 98; 0] [Chunk 5; Interrupted; Chunk 9])) = show (IoDone [lit "a"; lit "b"]) /\
  show (read_all_lines (mk_reader [255; 254; 97; 0; 10; 0; 98; 0] [Chunk 5; Interrupted; Interrupted; Chunk 1; Chunk 9])) = show (IoDone [lit "a"; lit "b"]) /\
  show (read_all_lines (mk_reader [255; 254; 97; 0; 10] [Chunk 5; Interrupted; Fail Other])) = [1; 1] /\
  show (read_all_lines (mk_reader [255; 254; 97; 0; 10] [Chunk 5])) = show (IoDone [lit "a"]).
Proof. vm_compute. repeat split. Qed.

(* ---------- D4 (repaired): the formerly failing deliveries ---------- *)

Definition small_file : bytes := lit "[Metadata]" ++ [10] ++ lit "Title:abc" ++ [10].
Definition small_lines : io (list str) := IoDone [lit "[Metadata]"; lit "Title:abc"].

(* a first chunk of one or two bytes (before the repair those bytes were lost:
   [Chunk 2; Chunk 100] gave "etadata]"), BufReader::with_capacity(2, _) and
   (1, _) (before: an empty map), single-byte delivery with Interrupted *)
Lemma short_first_chunks_decode :
  show (read_all_lines (mk_reader small_file [])) = show small_lines /\
  show (read_all_lines (mk_reader small_file [Chunk 2])) = show small_lines /\
  show (read_all_lines (mk_reader small_file [Chunk 2; Chunk 100])) = show small_lines /\
  show (read_all_lines (mk_reader small_file [Chunk 1; Chunk 100])) = show small_lines /\
  show (read_all_lines (mk_reader small_file (repeat (Chunk 2) 12))) = show small_lines /\
  show (read_all_lines (mk_reader small_file (repeat (Chunk 1) 30))) = show small_lines /\
  show (read_all_lines (mk_reader small_file (repeat (Chunk 3) 8))) = show small_lines /\
  show (read_all_lines (mk_reader small_file [Chunk 1; Interrupted; Chunk 1; Interrupted; Interrupted; Chunk 1; Chunk 1])) = show small_lines.
Proof. vm_compute. repeat split. Qed.

(* a byte order mark split over several chunks, at every position, in the
   three encodings that have one *)
Lemma split_bom_decodes :
  let text := lit "a" ++ [10] ++ lit "b" in
  let L := show (IoDone [lit "a"; lit "b"]) in
  show (read_all_lines (mk_reader (bom_utf8 ++ utf8_enc text) [Chunk 1; Chunk 1; Chunk 1; Chunk 100])) = L /\
  show (read_all_lines (mk_reader (bom_utf8 ++ utf8_enc text) [Chunk 1; Chunk 2; Chunk 100])) = L /\
  show (read_all_lines (mk_reader (bom_utf8 ++ utf8_enc text) [Chunk 2; Interrupted; Chunk 1; Chunk 100])) = L /\
  show (read_all_lines (mk_reader (bom_utf8 ++ utf8_enc text) [Chunk 2; Chunk 2; Chunk 2; Chunk 2])) = L /\
  show (read_all_lines (mk_reader (bom_le ++ utf16le_enc text) [Chunk 1; Interrupted; Chunk 1; Chunk 100])) = L /\
  show (read_all_lines (mk_reader (bom_le ++ utf16le_enc text) (repeat (Chunk 1) 12))) = L /\
  show (read_all_lines (mk_reader (bom_le ++ utf16le_enc text) (repeat (Chunk 2) 6))) = L /\
  show (read_all_lines (mk_reader (bom_be ++ utf16be_enc text) [Chunk 1; Chunk 1; Chunk 100])) = L /\
  show (read_all_lines (mk_reader (bom_be ++ utf16be_enc text) (repeat (Chunk 1) 12))) = L.
Proof. vm_compute. repeat split. Qed.

(* streams of zero to three bytes (before the repair one or two bytes were
   dropped even by from_bytes): the text, nothing behind a bare BOM, U+FFFD
   for a truncated BOM *)
Lemma short_streams_decode :
  show (read_all_lines (mk_reader [] [])) = show (IoDone []) /\
  show (read_all_lines (mk_reader (lit "a") [])) = show (IoDone [lit "a"]) /\
  show (read_all_lines (mk_reader (lit "ab") [])) = show (IoDone [lit "ab"]) /\
  show (read_all_lines (mk_reader (lit "ab") [Chunk 1; Chunk 1])) = show (IoDone [lit "ab"]) /\
  show (read_all_lines (mk_reader (lit "abc") [])) = show (IoDone [lit "abc"]) /\
  show (read_all_lines (mk_reader (lit "abc") [Chunk 1; Chunk 1; Chunk 1])) = show (IoDone [lit "abc"]) /\
  show (read_all_lines (mk_reader [255; 254] [])) = show (IoDone []) /\
  show (read_all_lines (mk_reader [255; 254] [Chunk 1])) = show (IoDone []) /\
  show (read_all_lines (mk_reader [239; 187; 191] [Chunk 1; Chunk 1])) = show (IoDone []) /\
  show (read_all_lines (mk_reader [239; 187] [])) = show (IoDone [[65533]]) /\
  show (read_all_lines (mk_reader [10] [])) = show (IoDone [[]]).
Proof. vm_compute. repeat split. Qed.

(* a failure / Interrupted while read_bom is still collecting its bytes *)
Lemma bom_sniffing_events :
  show (read_all_lines (mk_reader small_file [Chunk 1; Fail TimedOut; Chunk 100])) = [1; 4] /\
  show (read_all_lines (mk_reader small_file [Chunk 2; Interrupted; Fail Other])) = [1; 1] /\
  show (read_all_lines (mk_reader small_file [Interrupted; Chunk 1; Interrupted; Chunk 1; Interrupted; Chunk 100])) = show small_lines /\
  show (read_all_lines (mk_reader (lit "ab") [Chunk 2; Fail WouldBlock])) = [1; 5].
Proof. vm_compute. repeat split. Qed.

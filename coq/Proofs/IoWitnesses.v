(* IoWitnesses: concrete refutation witnesses (known findings D4, D5) for the
   full statements of C08 / C10, and the readings of the inputs of the repaired
   finding D6, proved by vm_compute on canonical dumps. *)
From RM Require Import Model.Text Model.Encoding Model.Reader.
From RM Require Import Proofs.EncodingFacts Proofs.ReaderFacts Proofs.TransparencyFacts.
Require Import ZArith List.
Import ListNotations.
Open Scope Z_scope.

Definition show (x : io (list str)) : list Z := dump_io dump_lines x.

Ltac scalar_by_compute :=
  unfold scalar_str; rewrite Forall_forall; intros c Hin; vm_compute in Hin;
  repeat (destruct Hin as [Hin|Hin]; [subst c; reflexivity|]); contradiction.

Ltac faultless_by_compute :=
  intros k Hin; cbn [In] in Hin;
  repeat (destruct Hin as [Hin|Hin]; [discriminate|]); contradiction.

(* ---------- D5 ---------- *)

(* U+4E0A has the bytes 4E 0A: both UTF-16 forms cut the line after it *)
Definition d5_text : str := lit "Title:" ++ [19978; 120; 10].

Lemma transparency_refuted :
  exists s, scalar_str s /\
    one_chunk (bom_utf8 ++ utf8_enc s) <> one_chunk (bom_le ++ utf16le_enc s) /\
    one_chunk (bom_utf8 ++ utf8_enc s) <> one_chunk (bom_be ++ utf16be_enc s).
Proof.
  exists d5_text. split; [scalar_by_compute|split].
  - intros H. apply (f_equal show) in H. vm_compute in H. discriminate.
  - intros H. apply (f_equal show) in H. vm_compute in H. discriminate.
Qed.

(* ---------- D6 (repaired): the former failing inputs now decode ---------- *)

(* a UTF-16LE stream that ends right after the low byte of a line feed: the
   odd trailing byte is a last raw line that decodes to the empty string; no
   error (before the repair: IoErr UnexpectedEof) *)
Lemma odd_tail_decodes :
  exists s x, scalar_str s /\
    one_chunk (bom_le ++ utf16le_enc s ++ [x]) = IoDone (lines_of_text s ++ [[]]) /\
    one_chunk (bom_le ++ utf16le_enc s) = IoDone (lines_of_text s).
Proof.
  exists (lit "ab" ++ [10]), 10. split; [scalar_by_compute|split]; vm_compute; reflexivity.
Qed.

(* the input of the former refutation of T01e, at every chunking of its five
   bytes that is outside the D4 class, with an Interrupted at the extra-byte
   read: always the one line "a" *)
Lemma former_d6_input_decodes :
  show (read_all_lines (mk_reader [255; 254; 97; 0; 10] [])) = show (IoDone [lit "a"]) /\
  show (read_all_lines (mk_reader [255; 254; 97; 0; 10] [Chunk 3; Chunk 1; Chunk 1])) = show (IoDone [lit "a"]) /\
  show (read_all_lines (mk_reader [255; 254; 97; 0; 10] [Chunk 4; Chunk 1; Interrupted; Interrupted])) = show (IoDone [lit "a"]) /\
  show (read_all_lines (mk_reader [255; 254; 97; 0; 10] [Chunk 5; Interrupted])) = show (IoDone [lit "a"]).
Proof. vm_compute. repeat split. Qed.

(* the extra-byte read of read_line, event by event: after `a\n` in UTF-16LE
   (FF FE 61 00 0A | 00 ...) the reader is asked once more.  A hard failure
   there is returned; Interrupted there is retried; EOF there ends the line *)
Lemma extra_byte_read_events :
  show (read_all_lines (mk_reader [255; 254; 97; 0; 10; 0; 98; 0] [Chunk 5; Fail TimedOut; Chunk 9])) = [1; 4] /\
  show (read_all_lines (mk_reader [255; 254; 97; 0; 10; 0; 98; 0] [Chunk 5; Interrupted; Chunk 9])) = show (IoDone [lit "a"; lit "b"]) /\
  show (read_all_lines (mk_reader [255; 254; 97; 0; 10; 0; 98; 0] [Chunk 5; Interrupted; Interrupted; Chunk 1; Chunk 9])) = show (IoDone [lit "a"; lit "b"]) /\
  show (read_all_lines (mk_reader [255; 254; 97; 0; 10] [Chunk 5; Interrupted; Fail Other])) = [1; 1] /\
  show (read_all_lines (mk_reader [255; 254; 97; 0; 10] [Chunk 5])) = show (IoDone [lit "a"]).
Proof. vm_compute. repeat split. Qed.

(* ---------- D4 ---------- *)

Definition d4_bytes : bytes := lit "[Metadata]" ++ [10] ++ lit "Title:abc" ++ [10].

(* a first chunk of two bytes: those bytes are lost *)
Lemma schedule_independent_refuted :
  exists b s1 s2, faultless s1 /\ faultless s2 /\
    read_all_lines (mk_reader b s1) <> read_all_lines (mk_reader b s2).
Proof.
  exists d4_bytes, [], [Chunk 2]. split; [exact faultless_nil|split; [faultless_by_compute|]].
  intros H. apply (f_equal show) in H. vm_compute in H. discriminate.
Qed.

(* BufReader::with_capacity(2, _): every chunk has two bytes, nothing is left *)
Lemma capacity_two_loses_everything :
  show (read_all_lines (mk_reader d4_bytes (repeat (Chunk 2) 12))) = show (IoDone []) /\
  show (read_all_lines (mk_reader d4_bytes [])) = show (IoDone [lit "[Metadata]"; lit "Title:abc"]) /\
  show (read_all_lines (mk_reader d4_bytes (repeat (Chunk 3) 8))) = show (IoDone [lit "[Metadata]"; lit "Title:abc"]) /\
  show (read_all_lines (mk_reader d4_bytes [Chunk 2; Chunk 100])) = show (IoDone [lit "etadata]"; lit "Title:abc"]).
Proof. vm_compute. repeat split. Qed.

(* a stream of one or two bytes is dropped even in one chunk *)
Lemma short_stream_dropped :
  show (read_all_lines (mk_reader (lit "ab") [])) = show (IoDone []) /\
  show (read_all_lines (mk_reader (lit "abc") [])) = show (IoDone [lit "abc"]).
Proof. vm_compute. repeat split. Qed.

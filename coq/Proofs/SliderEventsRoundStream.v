(* SliderEventsRoundStream: the binary64 bounds of SliderEventsRound*, read
   off a completed event stream (events_spec = Done evs, equivalently the
   collected iterator by C20_lazy_equals_eager).

   For every span s of the stream, its tick events taken in TRAVEL order
   (stream order on even spans, reversed on odd spans) are the events
   sp_tick s d_0, sp_tick s d_1, ... of one list of distances that satisfies
   [dists_ok]; the effective length is finite; hence tick j of every span has
   progress within  prog_err len j  of (j+1)*td/len, and, when the span's end
   time does not overflow, a time within  time_err  of the closed form. *)
From RM Require Import Model.SliderEvents Proofs.SliderEventsFacts Proofs.SliderEventsIEEE
     Proofs.SliderEventsMono Proofs.FloatNonneg Proofs.TickBound
     Proofs.SliderEventsRound Proofs.SliderEventsRoundTime Proofs.SliderEventsRoundSpans.
From Flocq Require Import Core BinarySingleNaN.
From Coq Require Import Reals Lra Lia ZArith List.
Import ListNotations.
Open Scope R_scope.

Local Notation fin x := (is_finite x = true).

(* the effective length min(MAX_LEN, total_dist) is finite and in [0, 100000]
   whenever new() does not panic *)
Lemma sp_len_finite (p : params F64) : D.lt (p_total p) D.zero = false ->
  fin (sp_len ops64 p) /\ 0 <= B2R (sp_len ops64 p) <= 100000.
Proof.
  intros H. apply sp_len_le. rewrite nn64_lt_zero in H. destruct (nn64 (p_total p)); [reflexivity | discriminate].
Qed.

Lemma clamp_done_len_finite (p : params F64) td :
  D.clamp_chk (p_td p) (c_zero ops64) (sp_len ops64 p) = Done td ->
  fin (sp_len ops64 p) /\ 0 <= B2R (sp_len ops64 p) <= 100000.
Proof.
  intros Hc. apply sp_len_finite.
  pose proof (sp_len_cases (p_total p)) as Hl. cbn zeta in Hl.
  unfold D.clamp_chk, fclamp in Hc. fold D.le in Hc. rewrite c_zero64 in Hc.
  unfold sp_len in Hc. cbn [ops64 f_min] in Hc. rewrite Hl in Hc.
  destruct (D.lt (p_total p) D.zero); [discriminate | reflexivity].
Qed.

Lemma nth_error_map_inv {A B} (g : A -> B) (l : list A) (dflt : A) j e :
  nth_error (map g l) j = Some e -> (j < length l)%nat /\ e = g (nth j l dflt).
Proof.
  intros H. assert (Hj : (j < length l)%nat).
  { rewrite <- (map_length g l). apply nth_error_Some. congruence. }
  split; [exact Hj|]. rewrite (nth_error_nth' (map g l) (g dflt)) in H by (rewrite map_length; exact Hj).
  rewrite map_nth in H. congruence.
Qed.

(* the shape of a completed stream, with the ticks of each span picked out *)
Theorem stream_ticks (tf : nat) (p : params F64) (evs : list (event F64)) :
  events_spec ops64 tf p = Done evs ->
  exists td ds,
    D.clamp_chk (p_td p) (c_zero ops64) (sp_len ops64 p) = Done td /\
    fin (sp_len ops64 p) /\ 0 <= B2R (sp_len ops64 p) <= 100000 /\
    (0 < p_n p -> dists_ok ops64 (sp_len ops64 p) (sp_mdfe ops64 p) td ds)%Z /\
    forall s, (0 <= s < p_n p)%Z ->
      (if Z.odd s then rev (ticks_of s evs) else ticks_of s evs)
      = map (sp_tick ops64 (p_start p) (p_dur p) (sp_len ops64 p) s) ds.
Proof.
  intros He. destruct (events_spec_shape ops64 tf p evs He) as (td & ds & Hc & -> & Hok & _).
  exists td, ds. split; [exact Hc|].
  destruct (clamp_done_len_finite p td Hc) as (Fl & Bl).
  split; [exact Fl|]. split; [exact Bl|]. split; [exact Hok|].
  intros s Hs. rewrite (ticks_of_sp_events ops64 _ _ _ _ ds s Hs). unfold span_ticks.
  destruct (Z.odd s); [apply rev_involutive | reflexivity].
Qed.

(* progress of tick j (travel order) of every span of a completed stream *)
Theorem stream_tick_progress (tf : nat) (p : params F64) (evs : list (event F64)) :
  events_spec ops64 tf p = Done evs ->
  exists td,
    D.clamp_chk (p_td p) (c_zero ops64) (sp_len ops64 p) = Done td /\
    forall s, (0 <= s < p_n p)%Z -> forall j e,
      nth_error (if Z.odd s then rev (ticks_of s evs) else ticks_of s evs) j = Some e ->
      fin (ev_prog e) /\ 0 <= B2R (ev_prog e) <= 1 /\
      Rabs (B2R (ev_prog e) - INR (S j) * B2R td / B2R (sp_len ops64 p))
        <= prog_err (B2R (sp_len ops64 p)) j.
Proof.
  intros He. destruct (stream_ticks tf p evs He) as (td & ds & Hc & Fl & _ & Hok & Htk).
  exists td. split; [exact Hc|]. intros s Hs j e Hn.
  rewrite (Htk s Hs) in Hn. apply (nth_error_map_inv _ _ D.zero) in Hn. destruct Hn as (Hj & ->).
  cbn [sp_tick ev_prog ops64 f_div].
  apply (tick_progress_error _ _ td ds Fl (Hok ltac:(lia)) j Hj).
Qed.

(* time of tick j (travel order) of span s of a completed stream, provided
   the span duration is finite and >= 0 and the span's end time is finite *)
Theorem stream_tick_time (tf : nat) (p : params F64) (evs : list (event F64)) :
  events_spec ops64 tf p = Done evs ->
  fin (p_dur p) -> 0 <= B2R (p_dur p) ->
  exists td,
    D.clamp_chk (p_td p) (c_zero ops64) (sp_len ops64 p) = Done td /\
    forall s, (0 <= s < p_n p)%Z ->
      let sst := sp_sst ops64 (p_start p) (p_dur p) s in
      let send := D.add sst (p_dur p) in
      fin send ->
      forall j e,
      nth_error (if Z.odd s then rev (ticks_of s evs) else ticks_of s evs) j = Some e ->
      let P := INR (S j) * B2R td / B2R (sp_len ops64 p) in
      fin (ev_time e) /\ B2R sst <= B2R (ev_time e) <= B2R send /\
      Rabs (B2R (ev_time e) - (B2R sst + (if Z.odd s then 1 - P else P) * B2R (p_dur p)))
        <= time_err (B2R (sp_len ops64 p)) (B2R (p_dur p)) (span_mag (B2R sst) (B2R send)) (Z.odd s) j.
Proof.
  intros He Fd Hd. destruct (stream_ticks tf p evs He) as (td & ds & Hc & Fl & _ & Hok & Htk).
  exists td. split; [exact Hc|]. intros s Hs sst send Fe j e Hn P.
  rewrite (Htk s Hs) in Hn. apply (nth_error_map_inv _ _ D.zero) in Hn. destruct Hn as (Hj & ->).
  apply (tick_time_error (p_start p) (p_dur p) _ _ td ds s Fl (Hok ltac:(lia)) Fd Hd Fe j Hj).
Qed.

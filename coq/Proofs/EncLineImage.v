(* EncLineImage: (1) the [HitObjects] section -- every line the encoder writes for
   a list of encodable objects is accepted in every parser state and adds exactly
   one object; (2) the line-level image of the decoder -- what holds of every
   object that an accepted hit-object line adds ([object_image]). *)
From RM Require Import Model.EncPathSpec Model.HitObjectSpec Proofs.EncText Proofs.EncFmt Proofs.EncFloat
     Proofs.EncSimple Proofs.EncObjects Proofs.FramingFacts Proofs.NumFacts Proofs.PathStringFacts
     Proofs.EncPathEnc Proofs.EncPathDec Proofs.EncPathRT Proofs.EncPathImage Proofs.EncSlider
     Proofs.HitObjectLineFacts Proofs.FloatFacts14 Proofs.FloatCmp.
From RM Require Import Gen.Generated.
From Flocq Require Import BinarySingleNaN.
From Coq Require Import ZifyBool.
Open Scope Z_scope.

Section Section_.
  Variables (fmt_f64 : F64 -> str) (fmt_f32 : F32 -> str) (fmt_int : Z -> str).
  Hypothesis Hfmt : fmt_ok fmt_f64 fmt_f32 fmt_int.
  Hypothesis H32 : fmt_f32_int fmt_f32 fmt_int.
  Notation rline := (render fmt_f64 fmt_f32 fmt_int).

  (* accepted in every parser state, adding exactly one object with the start time [t] *)
  Definition ho_accepted (t : F64) (l : line) : Prop :=
    forall st, exists st' o, parse_hit_objects st (rline l) = Done (st', Ok) /\
                             ho_objects st' = ho_objects st ++ [o] /\ h_start o = t.

  Theorem object_line_accepted dist mode h l :
    encodable dist h -> object_line dist mode h = Done l -> ho_accepted (h_start h) l.
  Proof.
    intros He Hl st. unfold encodable in He. destruct (h_kind h) as [c|s|s|hd] eqn:Hk.
    - destruct (circle_line_accepted fmt_f64 fmt_f32 fmt_int Hfmt dist mode h c l Hk He Hl st)
        as (st' & Hp & o & Ho & Hs & _).
      exists st', o. repeat split; assumption.
    - destruct He as (d & Hd & Hok).
      destruct (slider_line_accepted fmt_f64 fmt_f32 fmt_int Hfmt H32 dist mode h s d l Hk Hd Hok Hl st)
        as (st' & o & s' & Hp & Ho & Hs & _).
      exists st', o. repeat split; assumption.
    - destruct (spinner_line_accepted fmt_f64 fmt_f32 fmt_int Hfmt dist mode h s l Hk He Hl st)
        as (st' & Hp & o & Ho & Hs & _).
      exists st', o. repeat split; assumption.
    - destruct (hold_line_accepted fmt_f64 fmt_f32 fmt_int Hfmt dist mode h hd l Hk He Hl st)
        as (st' & Hp & o & Ho & Hs & _).
      exists st', o. repeat split; assumption.
  Qed.

  (* every body line of the [HitObjects] section *)
  Theorem hit_object_lines_accepted dist mode : forall objs ls,
    Forall (encodable dist) objs -> object_lines dist mode objs = Done ls ->
    Forall2 (fun h l => ho_accepted (h_start h) l) objs ls.
  Proof.
    induction objs as [|h r IH]; intros ls He Hl; cbn [object_lines] in Hl.
    - injection Hl as <-. constructor.
    - inversion He as [|? ? Hh Hr]; subst.
      destruct (object_line dist mode h) as [x|w|] eqn:Ex; cbn [obind] in Hl; try discriminate.
      destruct (object_lines dist mode r) as [xs|w|] eqn:Exs; cbn [obind] in Hl; try discriminate.
      injection Hl as <-. constructor; [exact (object_line_accepted dist mode h x Hh Ex)|exact (IH xs Hr eq_refl)].
  Qed.

  (* reading the whole section back: as many objects as lines, with the same start times, in order *)
  Fixpoint run_ho (st : HOState) (ls : list str) : outcome HOState :=
    match ls with
    | [] => Done st
    | l :: r => match parse_hit_objects st l with
                | Done (st', _) => run_ho st' r
                | Panic w => Panic w
                | OutOfFuel => OutOfFuel
                end
    end.

  Theorem hit_objects_section_read_back dist mode : forall objs ls st,
    Forall (encodable dist) objs -> object_lines dist mode objs = Done ls ->
    exists st', run_ho st (map rline ls) = Done st' /\
                map h_start (ho_objects st') = map h_start (ho_objects st) ++ map h_start objs.
  Proof.
    intros objs ls st He Hl. pose proof (hit_object_lines_accepted dist mode objs ls He Hl) as HA.
    clear He Hl. revert st. induction HA as [|h l objs ls Hh _ IH]; intros st.
    - exists st. split; [reflexivity|]. rewrite app_nil_r. reflexivity.
    - destruct (Hh st) as (st1 & o & Hp & Ho & Hs).
      destruct (IH st1) as (st' & Hrun & Hst).
      exists st'. cbn [map run_ho]. rewrite Hp. split; [exact Hrun|].
      rewrite Hst, Ho, map_app. cbn [map]. rewrite Hs, <- app_assoc. reflexivity.
  Qed.
End Section_.

(* ---------- the line-level image of the decoder ---------- *)

Lemma coord_ok_trunc s v : pn_f32_lim coord_lim32 s = Some v -> coord_ok (trunc32 v) = true.
Proof.
  intros H. destruct (coord_trunc_bound s v H) as [E B].
  rewrite <- E in B. unfold trunc32. set (n := f32_as_i32 v) in *. clearbody n.
  unfold coord_ok. rewrite f32_as_i32_of_Z by (unfold max_coordinate_value in B; change (2 ^ 24) with 16777216; lia).
  rewrite f32_eqb_refl. unfold max_coordinate_value in *. lia.
Qed.

Lemma in_lim64_pn s v : pn_f64 s = Some v -> in_lim64 v = true.
Proof.
  intros H. apply pn_f64_spec in H. destruct H as (_ & Hn & H1 & H2).
  unfold in_lim64. change lim64 with f64_limit. rewrite Hn, H1, H2. reflexivity.
Qed.

Lemma len_ok_pn s v : pn_f64_lim coord_lim64 s = Some v -> len_ok v = true.
Proof.
  intros H. rewrite pn_f64_lim_eq in H. apply pn_lim_spec in H.
  - destruct H as (_ & Hn & H1 & H2). unfold len_ok, D.is_nan, fis_nan, D.le, D.neg. rewrite Hn, H1, H2. reflexivity.
  - pose proof coord_lim64_finite as F. destruct coord_lim64; try discriminate; reflexivity.
Qed.

Lemma common_spec_image line f : common_spec line = Some f ->
  coord_ok (px (f_pos f)) = true /\ coord_ok (py (f_pos f)) = true /\ in_lim64 (f_start f) = true.
Proof.
  unfold common_spec.
  destruct (nth_error _ 0) as [x|]; [|discriminate]. destruct (nth_error _ 1) as [y|]; [|discriminate].
  destruct (nth_error _ 2) as [t|]; [|discriminate]. destruct (nth_error _ 3) as [ty|]; [|discriminate].
  destruct (nth_error _ 4) as [sd|]; [|discriminate].
  destruct (pn_f32_lim coord_lim32 x) as [xv|] eqn:Ex; [|discriminate].
  destruct (pn_f32_lim coord_lim32 y) as [yv|] eqn:Ey; [|discriminate].
  destruct (pn_f64 t) as [tv|] eqn:Et; [|discriminate].
  destruct (parse_i32_raw ty); [|discriminate]. destruct (parse_i32_raw sd); [|discriminate].
  intros [= <-]. cbn [f_pos f_start px py].
  repeat split; [exact (coord_ok_trunc _ _ Ex)|exact (coord_ok_trunc _ _ Ey)|exact (in_lim64_pn _ _ Et)].
Qed.

Lemma combo_offset_range t : 0 <= combo_offset_spec t <= 7.
Proof.
  unfold combo_offset_spec. destruct (flag_bit hot_new_combo t); [apply combo_bits_range|lia].
Qed.

Lemma spinner_pos_ok : coord_ok (px spinner_pos) && coord_ok (py spinner_pos) = true.
Proof. vm_compute. reflexivity. Qed.

Lemma node_samples_length n bank sound es ed nodes :
  node_samples_spec n bank sound es ed = Some nodes -> length nodes = n.
Proof.
  unfold node_samples_spec.
  destruct (all_some (map (node_bank_at bank (pieces es)) (seq 0 n))) as [banks|] eqn:E; [|discriminate].
  cbn [omap]. intros [= <-]. apply all_some_length in E. rewrite map_length, seq_length in E.
  rewrite map_length, combine_length, seq_length, E. apply Nat.min_id.
Qed.

Lemma slider_fields_image sound r pre : slider_fields_spec sound r = Some pre ->
  0 <= spre_repeat pre < repeat_cap /\
  match spre_len pre with Some d => len_ok d = true | None => True end /\
  length (spre_nodes pre) = Z.to_nat (spre_repeat pre + 2).
Proof.
  unfold slider_fields_spec.
  destruct (nth_error r 0) as [path|]; [|discriminate].
  destruct (obnd (nth_error r 1) pn_i32) as [raw|] eqn:Eraw; [|discriminate].
  destruct (repeat_cap <? raw) eqn:Ecap; [discriminate|].
  destruct (length_spec (nth_error r 2)) as [len|] eqn:Elen; [|discriminate].
  destruct (match nth_error r 5 with Some s => _ | None => _ end) as [bank|]; [|discriminate].
  destruct (node_samples_spec _ bank sound (nth_error r 4) (nth_error r 3)) as [nodes|] eqn:En; [|discriminate].
  cbn [omap]. intros [= <-]. cbn [spre_repeat spre_len spre_nodes].
  split; [unfold repeat_cap in *; lia|]. split.
  - unfold length_spec in Elen. destruct (nth_error r 2) as [s|]; [|injection Elen as <-; exact I].
    destruct (pn_f64_lim coord_lim64 s) as [v|] eqn:Ev; [|discriminate]. cbn [omap] in Elen. injection Elen as <-.
    destruct (D.ge v D.eps); [exact (len_ok_pn _ _ Ev)|exact I].
  - exact (node_samples_length _ _ _ _ _ _ En).
Qed.

(* every accepted line adds one object, and that object satisfies [object_image] *)
Theorem parse_object_image st line st' :
  parse_hit_objects st line = Done (st', Ok) ->
  exists o, ho_objects st' = ho_objects st ++ [o] /\ object_image o = true.
Proof.
  intros H. destruct (parse_hit_objects_spec st line) as [scratch Hs]. rewrite Hs in H. clear Hs.
  injection H as H. unfold line_spec_with in H.
  destruct (common_spec line) as [f|] eqn:Ec; [|discriminate].
  destruct (common_spec_image line f Ec) as (Cx & Cy & Ct).
  pose proof (combo_offset_range (f_type f)) as Hoff.
  unfold kind_of_type in H.
  destruct (flag_bit hot_circle (f_type f)).
  { (* circle *)
    destruct (extras_spec _) as [bank|]; [|discriminate]. unfold accept in H. injection H as <-.
    eexists. split; [reflexivity|]. unfold object_image. cbn [h_start h_kind ci_pos ci_combo_offset].
    rewrite Ct, Cx, Cy. cbn [andb]. lia. }
  destruct (flag_bit hot_slider (f_type f)).
  { (* slider *)
    destruct (slider_fields_spec (f_sound f) (f_rest f)) as [pre|] eqn:Ep; [|discriminate].
    destruct (slider_fields_image _ _ _ Ep) as (Hrc & Hlen & Hn).
    destruct (path_spec (spre_point_str pre) (f_pos f)) as [cps ok] eqn:Eps.
    destruct ok; [|discriminate]. unfold accept in H. injection H as <-.
    eexists. split; [reflexivity|]. unfold object_image.
    cbn [h_start h_kind sl_pos sl_combo_offset sl_control_points sl_repeat_count sl_expected_dist sl_node_samples].
    rewrite Ct, Cx, Cy, (path_spec_image (f_pos f) _ cps Cx Cy Eps), Hn. cbn [andb].
    destruct (spre_len pre) as [d|]; [rewrite Hlen|]; unfold repeat_cap in *; lia. }
  destruct (flag_bit hot_spinner (f_type f)).
  { (* spinner *)
    destruct (obnd _ pn_f64) as [e|]; [|discriminate]. destruct (extras_spec _) as [bank|]; [|discriminate].
    unfold accept in H. injection H as <-.
    eexists. split; [reflexivity|]. unfold object_image. cbn [h_start h_kind sp_pos].
    rewrite Ct, spinner_pos_ok. reflexivity. }
  destruct (flag_bit hot_hold (f_type f)); [|discriminate].
  (* hold *)
  destruct (nth_error (f_rest f) 0) as [[|c s]|].
  - unfold accept in H. injection H as <-. eexists. split; [reflexivity|].
    unfold object_image. cbn [h_start h_kind hd_pos_x]. rewrite Ct, Cx. reflexivity.
  - destruct (obnd _ pn_f64) as [e|]; [|discriminate]. destruct (banks_spec _ _ _) as [bank|]; [|discriminate].
    unfold accept in H. injection H as <-. eexists. split; [reflexivity|].
    unfold object_image. cbn [h_start h_kind hd_pos_x]. rewrite Ct, Cx. reflexivity.
  - unfold accept in H. injection H as <-. eexists. split; [reflexivity|].
    unfold object_image. cbn [h_start h_kind hd_pos_x]. rewrite Ct, Cx. reflexivity.
Qed.

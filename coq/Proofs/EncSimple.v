(* EncSimple: the six simple sections -- every body line the encoder writes is
   accepted by the section's parser and sets exactly the field it was written
   from (T04b / T04c), and parsing the whole encoded section from the default
   state yields the carried record (T02a).  All under [fmt_ok]. *)
From RM Require Import Model.EncSpec Proofs.EncText Proofs.EncFmt Proofs.FramingFacts Proofs.NumFacts.
From RM Require Import Gen.Generated.
From Flocq Require Import BinarySingleNaN.
From Coq Require Import ZifyBool.
Open Scope Z_scope.

(* ---------- small facts ---------- *)

Lemma sf_eqb_eq a b : sf_eqb a b = true -> a = b.
Proof.
  destruct a as [s|s| |s m e], b as [t|t| |t n f]; cbn; try discriminate; intros H.
  - apply eqb_prop in H. subst. reflexivity.
  - apply eqb_prop in H. subst. reflexivity.
  - reflexivity.
  - apply andb_true_iff in H. destruct H as [H H3]. apply andb_true_iff in H. destruct H as [H1 H2].
    apply eqb_prop in H1. apply Pos.eqb_eq in H2. apply Z.eqb_eq in H3. subst. reflexivity.
Qed.

Lemma f64_eqb_eq (x y : F64) : f64_eqb x y = true -> x = y.
Proof. intros H. apply B2SF_inj. apply sf_eqb_eq. exact H. Qed.

Lemma andb_true_l a b : a && b = true -> a = true. Proof. intros H. apply andb_true_iff in H. tauto. Qed.
Lemma andb_true_r' a b : a && b = true -> b = true. Proof. intros H. apply andb_true_iff in H. tauto. Qed.

(* str::replace of a single character that does not occur *)
Lemma replace_sub_aux_absent c t : forall s fuel, (length s < fuel)%nat -> memb c s = false ->
  replace_sub_aux fuel [c] t s = s.
Proof.
  induction s as [|x r IH]; intros fuel Hf Hm.
  - destruct fuel; [inversion Hf|]. reflexivity.
  - destruct fuel as [|k]; [inversion Hf|]. cbn [memb existsb] in Hm.
    apply orb_false_iff in Hm. destruct Hm as [H1 H2].
    cbn [replace_sub_aux strip_prefix]. rewrite H1. f_equal. apply IH; [cbn in Hf; lia|exact H2].
Qed.

Lemma to_standardized_path_id s : memb backslash s = false -> to_standardized_path s = s.
Proof.
  intros H. unfold to_standardized_path, replace_sub. apply replace_sub_aux_absent; [lia|exact H].
Qed.

(* ---------- "Key: value" lines ---------- *)

Definition key_ok (k : str) : Prop :=
  memb colon k = false /\ tidyb k = true /\ has_ss k = false.

Lemma colon_space_no_slash : memb slash colon_space = false. Proof. reflexivity. Qed.

Lemma line_no_ss k v : key_ok k -> has_ss v = false -> has_ss (k ++ colon_space ++ v) = false.
Proof.
  intros (_ & _ & Hk) Hv. apply has_ss_join; [exact Hk|exact Hv|discriminate|reflexivity].
Qed.

Lemma tidy_last s : tidyb s = true -> last_ws s = false.
Proof. unfold tidyb. intros H. apply andb_true_r' in H. apply negb_true_iff in H. exact H. Qed.

(* what the decoder's reader / trim_comment leaves of such a line, cut at the first colon *)
Lemma kv_pieces_te k v : key_ok k -> tidyb v = true ->
  kv_pieces (trim_end (k ++ colon_space ++ v)) = (k, v).
Proof.
  intros (Hc & Hk & _) Hv. destruct v as [|c r].
  - unfold colon_space. change (k ++ [58; 32] ++ []) with (k ++ [58] ++ [32]).
    rewrite app_assoc. rewrite trim_end_ws_app by (repeat constructor).
    rewrite trim_end_last.
    + unfold kv_pieces. change (k ++ [58]) with (k ++ colon :: []).
      rewrite (split_once_app colon k [] Hc). cbn [odflt]. rewrite (trim_tidy k Hk). reflexivity.
    + rewrite last_ws_app by discriminate. reflexivity.
  - rewrite trim_end_last.
    + apply kv_pieces_line; assumption.
    + rewrite app_assoc. rewrite last_ws_app by discriminate. apply tidy_last. exact Hv.
Qed.

Lemma kv_parse_stripped {K} (from_str : str -> option K) key k v :
  from_str k = Some key -> key_ok k -> tidyb v = true -> has_ss v = false ->
  kv_parse from_str (trim_comment (k ++ colon_space ++ v)) = Some (key, v).
Proof.
  intros Hf Hk Hv Hs. unfold kv_parse, trim_comment.
  rewrite (has_ss_before _ (line_no_ss k v Hk Hs)). cbn [odflt].
  rewrite (kv_pieces_te k v Hk Hv). rewrite Hf. reflexivity.
Qed.

Lemma kv_parse_plain {K} (from_str : str -> option K) key k v :
  from_str k = Some key -> key_ok k -> tidyb v = true ->
  kv_parse from_str (k ++ colon_space ++ v) = Some (key, v).
Proof.
  intros Hf (Hc & Hk & _) Hv. unfold kv_parse.
  rewrite (kv_pieces_line k v Hc Hk Hv). rewrite Hf. reflexivity.
Qed.

Section Simple.
  Variables (fmt_f64 : F64 -> str) (fmt_f32 : F32 -> str) (fmt_int : Z -> str).
  Hypothesis Hfmt : fmt_ok fmt_f64 fmt_f32 fmt_int.
  Notation rtok := (render_tok fmt_f64 fmt_f32 fmt_int).
  Notation rline := (render fmt_f64 fmt_f32 fmt_int).

  Lemma render_kv_line k v : rline (kv_line k v) = k ++ colon_space ++ rtok v.
  Proof.
    unfold kv_line, render. cbn [flat_map render_tok]. rewrite app_nil_r, <- app_assoc. reflexivity.
  Qed.

  (* the text of a numeric token: tidy, no "//" *)
  Lemma num_tidy t : tok_plain t -> tidyb (rtok t) = true /\ has_ss (rtok t) = false.
  Proof.
    intros H. pose proof (num_tok_plain _ _ _ Hfmt t H) as P.
    split; [apply plain_tidy|apply plain_no_ss]; exact P.
  Qed.

  (* ================= [General] ================= *)

  Lemma gkey_facts K : general_key_from_str (gkey K) = Some K /\ key_ok (gkey K).
  Proof. destruct K; vm_compute; repeat split; congruence. Qed.

  Lemma general_kv K v : tidyb v = true -> has_ss v = false ->
    kv_parse general_key_from_str (trim_comment (gkey K ++ colon_space ++ v)) = Some (K, v).
  Proof.
    intros Hv Hs. destruct (gkey_facts K) as [Hf Hk]. exact (kv_parse_stripped _ K _ v Hf Hk Hv Hs).
  Qed.

  Lemma str_ok_tidy s : str_ok s = true -> tidyb s = true.
  Proof. unfold str_ok. apply andb_true_l. Qed.

  Lemma general_audio st s : file_ok s = true ->
    parse_general st (rline (kv_line (gkey GAudioFilename) (TStr s))) = (set_g_audio_file st s, Ok).
  Proof.
    unfold file_ok. intros H. apply andb_true_iff in H. destruct H as [H H3].
    apply andb_true_iff in H. destruct H as [H1 H2].
    apply negb_true_iff in H2. apply negb_true_iff in H3.
    rewrite render_kv_line. cbn [render_tok]. unfold parse_general.
    rewrite (general_kv GAudioFilename s (str_ok_tidy s H1) H2).
    rewrite (to_standardized_path_id s H3). reflexivity.
  Qed.

  Lemma general_int_value n : i32_ok n = true ->
    tidyb (fmt_int n) = true /\ has_ss (fmt_int n) = false /\ pn_i32 (fmt_int n) = Some n.
  Proof.
    intros H. destruct (num_tidy (TInt n) I) as [A B]. cbn [render_tok] in A, B.
    repeat split; [exact A|exact B|exact (pn_i32_fmt _ _ _ Hfmt n H)].
  Qed.

  Lemma general_lead_in st x : lead_in_ok x = true ->
    parse_general st (rline (kv_line (gkey GAudioLeadIn) (TF64 x))) = (set_g_audio_lead_in st x, Ok).
  Proof.
    unfold lead_in_ok. intros H. apply andb_true_iff in H. destruct H as [H1 H2].
    apply f64_eqb_eq in H2. set (n := f64_as_i32 x) in *.
    rewrite render_kv_line. cbn [render_tok]. rewrite H2 at 1.
    assert (Hr : - 2 ^ 31 <= n <= 2 ^ 31) by (unfold i32_ok, max_parse_value in H1; lia).
    rewrite (f64_int _ _ _ Hfmt n Hr).
    destruct (general_int_value n H1) as (A & B & C).
    unfold parse_general. rewrite (general_kv GAudioLeadIn _ A B). rewrite C. rewrite <- H2. reflexivity.
  Qed.

  Lemma general_preview st n : i32_ok n = true ->
    parse_general st (rline (kv_line (gkey GPreviewTime) (TInt n))) = (set_g_preview_time st n, Ok).
  Proof.
    intros H. destruct (general_int_value n H) as (A & B & C).
    rewrite render_kv_line. cbn [render_tok]. unfold parse_general.
    rewrite (general_kv GPreviewTime _ A B). rewrite C. reflexivity.
  Qed.

  Lemma general_countdown_offset st n : i32_ok n = true ->
    parse_general st (rline (kv_line (gkey GCountdownOffset) (TInt n))) = (set_g_countdown_offset st n, Ok).
  Proof.
    intros H. destruct (general_int_value n H) as (A & B & C).
    rewrite render_kv_line. cbn [render_tok]. unfold parse_general.
    rewrite (general_kv GCountdownOffset _ A B). rewrite C. reflexivity.
  Qed.

  Lemma enum4_cases n : enum4_ok n = true -> n = 0 \/ n = 1 \/ n = 2 \/ n = 3.
  Proof. unfold enum4_ok. lia. Qed.

  Lemma enum4_digit n : enum4_ok n = true -> fmt_int n = [48 + n].
  Proof. intros H. apply (int_digit _ _ _ Hfmt). unfold enum4_ok in H. lia. Qed.

  Lemma digit_tidy d : 0 <= d <= 9 -> tidyb [48 + d] = true /\ has_ss [48 + d] = false.
  Proof.
    intros H. assert (d = 0 \/ d = 1 \/ d = 2 \/ d = 3 \/ d = 4 \/ d = 5 \/ d = 6 \/ d = 7 \/ d = 8 \/ d = 9) by lia.
    repeat (destruct H0 as [-> | H0]; [split; reflexivity|]). subst. split; reflexivity.
  Qed.

  Lemma general_countdown st n : enum4_ok n = true ->
    parse_general st (rline (kv_line (gkey GCountdown) (TInt n))) = (set_g_countdown st n, Ok).
  Proof.
    intros H. rewrite render_kv_line. cbn [render_tok]. rewrite (enum4_digit n H).
    destruct (digit_tidy n) as [A B]; [unfold enum4_ok in H; lia|].
    unfold parse_general. rewrite (general_kv GCountdown _ A B).
    destruct (enum4_cases n H) as [-> | [-> | [-> | ->]]]; reflexivity.
  Qed.

  Lemma general_sample_set st n : enum4_ok n = true ->
    parse_general st (rline (kv_line (gkey GSampleSet) (TInt n))) = (set_g_default_sample_bank st n, Ok).
  Proof.
    intros H. rewrite render_kv_line. cbn [render_tok]. rewrite (enum4_digit n H).
    destruct (digit_tidy n) as [A B]; [unfold enum4_ok in H; lia|].
    unfold parse_general. rewrite (general_kv GSampleSet _ A B).
    destruct (enum4_cases n H) as [-> | [-> | [-> | ->]]]; reflexivity.
  Qed.

  Lemma general_mode st n : enum4_ok n = true ->
    parse_general st (rline (kv_line (gkey GMode) (TInt n))) = (set_g_mode st n, Ok).
  Proof.
    intros H. rewrite render_kv_line. cbn [render_tok]. rewrite (enum4_digit n H).
    destruct (digit_tidy n) as [A B]; [unfold enum4_ok in H; lia|].
    unfold parse_general. rewrite (general_kv GMode _ A B).
    destruct (enum4_cases n H) as [-> | [-> | [-> | ->]]]; reflexivity.
  Qed.

  Lemma general_stack st x : in_lim32 x = true ->
    parse_general st (rline (kv_line (gkey GStackLeniency) (TF32 x))) = (set_g_stack_leniency st x, Ok).
  Proof.
    intros H. destruct (num_tidy (TF32 x) I) as [A B].
    rewrite render_kv_line. unfold parse_general. rewrite (general_kv GStackLeniency _ A B).
    cbn [render_tok]. rewrite (pn_f32_fmt _ _ _ Hfmt x H). reflexivity.
  Qed.

  (* a flag: i32::from(bool) is read back with `== 1` *)
  Lemma flag_value b : tidyb (rtok (tb b)) = true /\ has_ss (rtok (tb b)) = false /\
                       omap is_flag_value (pn_i32 (rtok (tb b))) = Some b.
  Proof.
    unfold tb. cbn [render_tok].
    destruct (general_int_value (if b then 1 else 0)) as (A & B & C); [destruct b; reflexivity|].
    repeat split; [exact A|exact B|]. rewrite C. destruct b; reflexivity.
  Qed.

  Ltac flag_line K :=
    let A := fresh in let B := fresh in let C := fresh in
    intros; rewrite render_kv_line; unfold parse_general;
    match goal with |- context [rtok (tb ?b)] => destruct (flag_value b) as (A & B & C) end;
    rewrite (general_kv K _ A B);
    match goal with |- context [pn_i32 ?v] => destruct (pn_i32 v) as [n|]; [|discriminate C] end;
    cbn [omap] in C; inversion C; reflexivity.

  Lemma general_letterbox st b :
    parse_general st (rline (kv_line (gkey GLetterboxInBreaks) (tb b))) = (set_g_letterbox_in_breaks st b, Ok).
  Proof. flag_line GLetterboxInBreaks. Qed.
  Lemma general_special st b :
    parse_general st (rline (kv_line (gkey GSpecialStyle) (tb b))) = (set_g_special_style st b, Ok).
  Proof. flag_line GSpecialStyle. Qed.
  Lemma general_widescreen st b :
    parse_general st (rline (kv_line (gkey GWidescreenStoryboard) (tb b))) = (set_g_widescreen_storyboard st b, Ok).
  Proof. flag_line GWidescreenStoryboard. Qed.
  Lemma general_epilepsy st :
    parse_general st (rline (kv_line (gkey GEpilepsyWarning) (TInt 1))) = (set_g_epilepsy_warning st true, Ok).
  Proof. change (TInt 1) with (tb true). flag_line GEpilepsyWarning. Qed.
  Lemma general_samples_match st :
    parse_general st (rline (kv_line (gkey GSamplesMatchPlaybackRate) (TInt 1))) = (set_g_samples_match_playback_rate st true, Ok).
  Proof. change (TInt 1) with (tb true). flag_line GSamplesMatchPlaybackRate. Qed.

  Lemma run_cons {S} (parse : S -> str -> S * res) st l rest :
    run_lines parse st (l :: rest) = run_lines parse (fst (parse st l)) rest.
  Proof. reflexivity. Qed.
  Lemma run_nil {S} (parse : S -> str -> S * res) st : run_lines parse st [] = st.
  Proof. reflexivity. Qed.
  Lemma run_lines_app {S} (parse : S -> str -> S * res) st a b :
    run_lines parse st (a ++ b) = run_lines parse (run_lines parse st a) b.
  Proof. unfold run_lines. apply fold_left_app. Qed.

  (* T02a / T04c for [General]: parsing the encoded section from the default state *)
  Theorem general_section g c : general_ok g = true -> enum4_ok (first_sample_bank c) = true ->
    run_lines parse_general general_default (map rline (body (enc_general g c))) = carry_general g c.
  Proof.
    intros Hok Hbank. unfold general_ok in Hok.
    repeat match type of Hok with _ && _ = true => let H := fresh "H" in
             apply andb_true_iff in Hok; destruct Hok as [Hok H] end.
    destruct g as [audio lead preview dbank dvol stack mode letterbox special wide epi smp cd off].
    cbn [g_audio_file g_audio_lead_in g_preview_time g_stack_leniency g_mode g_countdown g_countdown_offset] in *.
    unfold carry_general, enc_general, body.
    cbn [g_audio_file g_audio_lead_in g_preview_time g_default_sample_bank g_default_sample_volume
         g_stack_leniency g_mode g_letterbox_in_breaks g_special_style g_widescreen_storyboard
         g_epilepsy_warning g_samples_match_playback_rate g_countdown g_countdown_offset].
    destruct epi, (0 <? off) eqn:Eoff, (mode =? mode_mania) eqn:Emode, smp;
      cbn [app tl map];
      repeat (rewrite run_cons;
              first [ rewrite general_audio by assumption
                    | rewrite general_lead_in by assumption
                    | rewrite general_preview by assumption
                    | rewrite general_countdown by assumption
                    | rewrite general_sample_set by assumption
                    | rewrite general_stack by assumption
                    | rewrite general_mode by assumption
                    | rewrite general_letterbox
                    | rewrite general_epilepsy
                    | rewrite general_countdown_offset by assumption
                    | rewrite general_special
                    | rewrite general_widescreen
                    | rewrite general_samples_match ];
              cbn [fst]);
      rewrite run_nil; reflexivity.
  Qed.

  (* ================= [Editor] ================= *)

  (* a value made of characters that are neither White_Space nor '/' *)
  Definition safec (c : char) : bool := negb (is_ws c) && negb (c =? slash).
  Lemma plainc_safe c : plainc c = true -> safec c = true.
  Proof. unfold plainc, safec, slash. lia. Qed.
  Lemma safe_value s : forallb safec s = true -> tidyb s = true /\ has_ss s = false.
  Proof.
    intros H. split.
    - unfold tidyb, last_ws.
      assert (F : forall t, forallb safec t = true -> first_ws t = false).
      { intros [|c r]; [reflexivity|]. cbn [forallb first_ws]. intros X. apply andb_true_l in X.
        unfold safec in X. lia. }
      rewrite (F s H), (F (rev s) (forallb_rev _ _ H)). reflexivity.
    - apply has_ss_no_slash. apply (forallb_memb safec slash s H). reflexivity.
  Qed.

  Lemma ekey_facts K : editor_key_from_str (ekey K) = Some K /\ key_ok (ekey K).
  Proof. destruct K; vm_compute; repeat split; congruence. Qed.
  Lemma editor_kv K v : tidyb v = true -> has_ss v = false ->
    kv_parse editor_key_from_str (trim_comment (ekey K ++ colon_space ++ v)) = Some (K, v).
  Proof.
    intros Hv Hs. destruct (ekey_facts K) as [Hf Hk]. exact (kv_parse_stripped _ K _ v Hf Hk Hv Hs).
  Qed.

  (* "b0,b1,...": the text of the Bookmarks value *)
  Definition csv (l : list Z) : str :=
    match l with
    | [] => []
    | b :: r => fmt_int b ++ flat_map (fun x => comma :: fmt_int x) r
    end.

  Lemma int_no_comma n : memb comma (fmt_int n) = false.
  Proof. apply (plain_no comma _ (int_plain _ _ _ Hfmt n)). reflexivity. Qed.

  Lemma csv_cons b x r : csv (b :: x :: r) = fmt_int b ++ comma :: csv (x :: r).
  Proof. reflexivity. Qed.

  Lemma split_csv b r : split_on comma (csv (b :: r)) = map fmt_int (b :: r).
  Proof.
    revert b. induction r as [|x r IH]; intros b.
    - cbn [csv flat_map map]. rewrite app_nil_r. apply split_on_no_sep.
      apply memb_false_In. apply int_no_comma.
    - rewrite csv_cons. rewrite split_on_app_sep. rewrite (split_on_no_sep comma (fmt_int b)).
      + rewrite IH. reflexivity.
      + apply memb_false_In. apply int_no_comma.
  Qed.

  Lemma filter_map_raw l : forallb i32_ok l = true -> KeyValue.filter_map pn_i32 (map fmt_int l) = l.
  Proof.
    induction l as [|x r IH]; [reflexivity|]. cbn [forallb map KeyValue.filter_map]. intros H.
    apply andb_true_iff in H. destruct H as [H1 H2].
    rewrite (pn_i32_fmt _ _ _ Hfmt x H1). rewrite (IH H2). reflexivity.
  Qed.

  Lemma csv_safe b r : forallb safec (csv (b :: r)) = true.
  Proof.
    revert b. induction r as [|x r IH]; intros b.
    - cbn [csv flat_map]. rewrite app_nil_r.
      apply (forallb_imp _ _ _ plainc_safe (int_plain _ _ _ Hfmt b)).
    - rewrite csv_cons, forallb_app. cbn [forallb]. rewrite IH.
      rewrite (forallb_imp _ _ _ plainc_safe (int_plain _ _ _ Hfmt b)). reflexivity.
  Qed.

  Lemma render_csv_tail r :
    rline (flat_map (fun x => [t_comma; TInt x]) r) = flat_map (fun x => comma :: fmt_int x) r.
  Proof.
    induction r as [|x r IH]; [reflexivity|]. cbn [flat_map app]. unfold render in *.
    cbn [flat_map render_tok t_comma app]. rewrite IH. reflexivity.
  Qed.

  Lemma render_bookmarks b r :
    rline (TStr (ekey EBookmarks ++ colon_space) :: TInt b :: flat_map (fun x => [t_comma; TInt x]) r)
    = ekey EBookmarks ++ colon_space ++ csv (b :: r).
  Proof.
    change (rline (TStr (ekey EBookmarks ++ colon_space) :: TInt b :: flat_map (fun x => [t_comma; TInt x]) r))
      with ((ekey EBookmarks ++ colon_space) ++ fmt_int b ++ rline (flat_map (fun x => [t_comma; TInt x]) r)).
    rewrite render_csv_tail, <- app_assoc. reflexivity.
  Qed.

  Lemma editor_bookmarks st b r : forallb i32_ok (b :: r) = true ->
    parse_editor st (rline (TStr (ekey EBookmarks ++ colon_space) :: TInt b :: flat_map (fun x => [t_comma; TInt x]) r))
    = (set_ed_bookmarks st (b :: r), Ok).
  Proof.
    intros H. rewrite render_bookmarks. destruct (safe_value _ (csv_safe b r)) as [A B].
    unfold parse_editor. rewrite (editor_kv EBookmarks _ A B).
    unfold parse_bookmarks. rewrite split_csv, (filter_map_raw _ H). reflexivity.
  Qed.

  Lemma editor_distance st x : in_lim64 x = true ->
    parse_editor st (rline (kv_line (ekey EDistanceSpacing) (TF64 x))) = (set_ed_distance_spacing st x, Ok).
  Proof.
    intros H. destruct (num_tidy (TF64 x) I) as [A B].
    rewrite render_kv_line. unfold parse_editor. rewrite (editor_kv EDistanceSpacing _ A B).
    cbn [render_tok]. rewrite (pn_f64_fmt _ _ _ Hfmt x H). reflexivity.
  Qed.
  Lemma editor_zoom st x : in_lim64 x = true ->
    parse_editor st (rline (kv_line (ekey ETimelineZoom) (TF64 x))) = (set_ed_timeline_zoom st x, Ok).
  Proof.
    intros H. destruct (num_tidy (TF64 x) I) as [A B].
    rewrite render_kv_line. unfold parse_editor. rewrite (editor_kv ETimelineZoom _ A B).
    cbn [render_tok]. rewrite (pn_f64_fmt _ _ _ Hfmt x H). reflexivity.
  Qed.
  Lemma editor_divisor st n : i32_ok n = true ->
    parse_editor st (rline (kv_line (ekey EBeatDivisor) (TInt n))) = (set_ed_beat_divisor st n, Ok).
  Proof.
    intros H. destruct (general_int_value n H) as (A & B & C).
    rewrite render_kv_line. cbn [render_tok]. unfold parse_editor.
    rewrite (editor_kv EBeatDivisor _ A B). rewrite C. reflexivity.
  Qed.
  Lemma editor_grid st n : i32_ok n = true ->
    parse_editor st (rline (kv_line (ekey EGridSize) (TInt n))) = (set_ed_grid_size st n, Ok).
  Proof.
    intros H. destruct (general_int_value n H) as (A & B & C).
    rewrite render_kv_line. cbn [render_tok]. unfold parse_editor.
    rewrite (editor_kv EGridSize _ A B). rewrite C. reflexivity.
  Qed.

  Theorem editor_section e : editor_ok e = true ->
    run_lines parse_editor editor_default (map rline (body (enc_editor e))) = e.
  Proof.
    intros Hok. unfold editor_ok in Hok.
    repeat match type of Hok with _ && _ = true => let H := fresh "H" in
             apply andb_true_iff in Hok; destruct Hok as [Hok H] end.
    destruct e as [bm ds bd gs tz].
    cbn [ed_bookmarks ed_distance_spacing ed_beat_divisor ed_grid_size ed_timeline_zoom] in *.
    unfold enc_editor, body, bookmarks_line.
    cbn [ed_bookmarks ed_distance_spacing ed_beat_divisor ed_grid_size ed_timeline_zoom].
    destruct bm as [|b r]; cbn [app tl map];
      repeat (rewrite run_cons;
              first [ rewrite editor_bookmarks by assumption
                    | rewrite editor_distance by assumption
                    | rewrite editor_divisor by assumption
                    | rewrite editor_grid by assumption
                    | rewrite editor_zoom by assumption ];
              cbn [fst]);
      rewrite run_nil; reflexivity.
  Qed.

  (* ================= [Metadata] ================= *)

  Lemma mkey_facts K : metadata_key_from_str (mkey K) = Some K /\ key_ok (mkey K).
  Proof. destruct K; vm_compute; repeat split; congruence. Qed.
  Lemma metadata_kv K v : tidyb v = true ->
    kv_parse metadata_key_from_str (mkey K ++ colon_space ++ v) = Some (K, v).
  Proof. intros Hv. destruct (mkey_facts K) as [Hf Hk]. exact (kv_parse_plain _ K _ v Hf Hk Hv). Qed.

  Ltac meta_text K :=
    intros; rewrite render_kv_line; cbn [render_tok]; unfold parse_metadata;
    rewrite (metadata_kv K _ (str_ok_tidy _ ltac:(eassumption))); reflexivity.

  Lemma metadata_title st s : str_ok s = true ->
    parse_metadata st (rline (kv_line (mkey MTitle) (TStr s))) = (set_m_title st s, Ok).
  Proof. meta_text MTitle. Qed.
  Lemma metadata_title_unicode st s : str_ok s = true ->
    parse_metadata st (rline (kv_line (mkey MTitleUnicode) (TStr s))) = (set_m_title_unicode st s, Ok).
  Proof. meta_text MTitleUnicode. Qed.
  Lemma metadata_artist st s : str_ok s = true ->
    parse_metadata st (rline (kv_line (mkey MArtist) (TStr s))) = (set_m_artist st s, Ok).
  Proof. meta_text MArtist. Qed.
  Lemma metadata_artist_unicode st s : str_ok s = true ->
    parse_metadata st (rline (kv_line (mkey MArtistUnicode) (TStr s))) = (set_m_artist_unicode st s, Ok).
  Proof. meta_text MArtistUnicode. Qed.
  Lemma metadata_creator st s : str_ok s = true ->
    parse_metadata st (rline (kv_line (mkey MCreator) (TStr s))) = (set_m_creator st s, Ok).
  Proof. meta_text MCreator. Qed.
  Lemma metadata_version st s : str_ok s = true ->
    parse_metadata st (rline (kv_line (mkey MVersion) (TStr s))) = (set_m_version st s, Ok).
  Proof. meta_text MVersion. Qed.
  Lemma metadata_source st s : str_ok s = true ->
    parse_metadata st (rline (kv_line (mkey MSource) (TStr s))) = (set_m_source st s, Ok).
  Proof. meta_text MSource. Qed.
  Lemma metadata_tags st s : str_ok s = true ->
    parse_metadata st (rline (kv_line (mkey MTags) (TStr s))) = (set_m_tags st s, Ok).
  Proof. meta_text MTags. Qed.
  Lemma metadata_id st n : i32_ok n = true ->
    parse_metadata st (rline (kv_line (mkey MBeatmapID) (TInt n))) = (set_m_beatmap_id st n, Ok).
  Proof.
    intros H. destruct (general_int_value n H) as (A & B & C).
    rewrite render_kv_line. cbn [render_tok]. unfold parse_metadata.
    rewrite (metadata_kv MBeatmapID _ A). rewrite C. reflexivity.
  Qed.
  Lemma metadata_set_id st n : i32_ok n = true ->
    parse_metadata st (rline (kv_line (mkey MBeatmapSetID) (TInt n))) = (set_m_beatmap_set_id st n, Ok).
  Proof.
    intros H. destruct (general_int_value n H) as (A & B & C).
    rewrite render_kv_line. cbn [render_tok]. unfold parse_metadata.
    rewrite (metadata_kv MBeatmapSetID _ A). rewrite C. reflexivity.
  Qed.

  Theorem metadata_section m : metadata_ok m = true ->
    run_lines parse_metadata metadata_default (map rline (body (enc_metadata m))) = carry_metadata m.
  Proof.
    intros Hok. unfold metadata_ok in Hok.
    repeat match type of Hok with _ && _ = true => let H := fresh "H" in
             apply andb_true_iff in Hok; destruct Hok as [Hok H] end.
    destruct m as [t tu a au cr ve so ta id sid].
    cbn [m_title m_title_unicode m_artist m_artist_unicode m_creator m_version m_source m_tags
         m_beatmap_id m_beatmap_set_id] in *.
    unfold enc_metadata, body, carry_metadata, opt_text_line.
    cbn [m_title m_title_unicode m_artist m_artist_unicode m_creator m_version m_source m_tags
         m_beatmap_id m_beatmap_set_id].
    destruct tu as [|tu0 tu1], au as [|au0 au1], so as [|so0 so1], ta as [|ta0 ta1],
             (0 <? id) eqn:Eid, (0 <? sid) eqn:Esid;
      cbn [is_empty app tl map];
      repeat (rewrite run_cons;
              first [ rewrite metadata_title by assumption
                    | rewrite metadata_title_unicode by assumption
                    | rewrite metadata_artist by assumption
                    | rewrite metadata_artist_unicode by assumption
                    | rewrite metadata_creator by assumption
                    | rewrite metadata_version by assumption
                    | rewrite metadata_source by assumption
                    | rewrite metadata_tags by assumption
                    | rewrite metadata_id by assumption
                    | rewrite metadata_set_id by assumption ];
              cbn [fst]);
      rewrite run_nil; reflexivity.
  Qed.

  (* ================= [Difficulty] ================= *)

  Lemma dkey_facts K : difficulty_key_from_str (dkey K) = Some K /\ key_ok (dkey K).
  Proof. destruct K; vm_compute; repeat split; congruence. Qed.
  Lemma difficulty_kv K v : tidyb v = true -> has_ss v = false ->
    kv_parse difficulty_key_from_str (trim_comment (dkey K ++ colon_space ++ v)) = Some (K, v).
  Proof.
    intros Hv Hs. destruct (dkey_facts K) as [Hf Hk]. exact (kv_parse_stripped _ K _ v Hf Hk Hv Hs).
  Qed.

  Lemma difficulty_f32_value K x : in_lim32 x = true ->
    kv_parse difficulty_key_from_str (trim_comment (rline (kv_line (dkey K) (TF32 x)))) = Some (K, fmt_f32 x) /\
    pn_f32 (fmt_f32 x) = Some x.
  Proof.
    intros H. destruct (num_tidy (TF32 x) I) as [A B]. rewrite render_kv_line.
    split; [exact (difficulty_kv K _ A B)|exact (pn_f32_fmt _ _ _ Hfmt x H)].
  Qed.

  Lemma difficulty_hp st x : in_lim32 x = true ->
    parse_difficulty st (rline (kv_line (dkey DHPDrainRate) (TF32 x))) = (set_d_hp_drain_rate st x, Ok).
  Proof.
    intros H. destruct (difficulty_f32_value DHPDrainRate x H) as [A B].
    unfold parse_difficulty. rewrite A, B. reflexivity.
  Qed.
  Lemma difficulty_cs st x : in_lim32 x = true ->
    parse_difficulty st (rline (kv_line (dkey DCircleSize) (TF32 x))) = (set_d_circle_size st x, Ok).
  Proof.
    intros H. destruct (difficulty_f32_value DCircleSize x H) as [A B].
    unfold parse_difficulty. rewrite A, B. reflexivity.
  Qed.
  Lemma difficulty_od st x : in_lim32 x = true ->
    parse_difficulty st (rline (kv_line (dkey DOverallDifficulty) (TF32 x))) =
    (let st1 := set_d_overall_difficulty st x in
     if negb (d_has_approach_rate st1) then set_d_approach_rate st1 (d_overall_difficulty st1) else st1, Ok).
  Proof.
    intros H. destruct (difficulty_f32_value DOverallDifficulty x H) as [A B].
    unfold parse_difficulty. rewrite A, B. reflexivity.
  Qed.
  Lemma difficulty_ar st x : in_lim32 x = true ->
    parse_difficulty st (rline (kv_line (dkey DApproachRate) (TF32 x))) =
    (set_d_has_approach_rate (set_d_approach_rate st x) true, Ok).
  Proof.
    intros H. destruct (difficulty_f32_value DApproachRate x H) as [A B].
    unfold parse_difficulty. rewrite A, B. reflexivity.
  Qed.

  Lemma within_clamp lo hi x : within64 lo hi x = true -> D.clamp x lo hi = x.
  Proof.
    unfold within64. intros H. apply andb_true_iff in H. destruct H as [H1 H2].
    exact (Proofs.FloatCmp.fclamp_t_id 53 1024 x lo hi H1 H2).
  Qed.

  Lemma difficulty_sm st x : in_lim64 x = true -> within64 slider_mult_lo slider_mult_hi x = true ->
    parse_difficulty st (rline (kv_line (dkey DSliderMultiplier) (TF64 x))) = (set_d_slider_multiplier st x, Ok).
  Proof.
    intros H W. destruct (num_tidy (TF64 x) I) as [A B]. rewrite render_kv_line.
    unfold parse_difficulty. rewrite (difficulty_kv DSliderMultiplier _ A B). cbn [render_tok].
    rewrite (pn_f64_fmt _ _ _ Hfmt x H), (within_clamp _ _ _ W). reflexivity.
  Qed.
  Lemma difficulty_tr st x : in_lim64 x = true -> within64 tick_rate_lo tick_rate_hi x = true ->
    parse_difficulty st (rline (kv_line (dkey DSliderTickRate) (TF64 x))) = (set_d_slider_tick_rate st x, Ok).
  Proof.
    intros H W. destruct (num_tidy (TF64 x) I) as [A B]. rewrite render_kv_line.
    unfold parse_difficulty. rewrite (difficulty_kv DSliderTickRate _ A B). cbn [render_tok].
    rewrite (pn_f64_fmt _ _ _ Hfmt x H), (within_clamp _ _ _ W). reflexivity.
  Qed.

  Theorem difficulty_section d : difficulty_ok d = true ->
    run_lines parse_difficulty difficulty_default (map rline (body (enc_difficulty d))) = carry_difficulty d.
  Proof.
    intros Hok. unfold difficulty_ok in Hok.
    repeat match type of Hok with _ && _ = true => let H := fresh "H" in
             apply andb_true_iff in Hok; destruct Hok as [Hok H] end.
    destruct d as [har hp cs od ar sm tr].
    cbn [d_hp_drain_rate d_circle_size d_overall_difficulty d_approach_rate d_slider_multiplier
         d_slider_tick_rate] in *.
    unfold enc_difficulty, body, carry_difficulty.
    cbn [d_hp_drain_rate d_circle_size d_overall_difficulty d_approach_rate d_slider_multiplier
         d_slider_tick_rate tl map].
    rewrite run_cons, difficulty_hp by assumption. cbn [fst].
    rewrite run_cons, difficulty_cs by assumption. cbn [fst].
    rewrite run_cons, difficulty_od by assumption. cbn [fst].
    rewrite run_cons, difficulty_ar by assumption. cbn [fst].
    rewrite run_cons, difficulty_sm by assumption. cbn [fst].
    rewrite run_cons, difficulty_tr by assumption. cbn [fst].
    rewrite run_nil. reflexivity.
  Qed.

  (* ================= [Events] ================= *)

  Lemma replace_sub_aux_absent2 c t : forall s fuel, (length s < fuel)%nat -> memb c s = false ->
    replace_sub_aux fuel [c; c] t s = s.
  Proof.
    induction s as [|x r IH]; intros fuel Hf Hm.
    - destruct fuel; [inversion Hf|]. reflexivity.
    - destruct fuel as [|k]; [inversion Hf|]. cbn [memb existsb] in Hm.
      apply orb_false_iff in Hm. destruct Hm as [H1 H2].
      cbn [replace_sub_aux strip_prefix]. rewrite H1. f_equal. apply IH; [cbn in Hf; lia|exact H2].
  Qed.

  Lemma trim_start_matches_first d s : first_is d s = false -> trim_start_matches d s = s.
  Proof. destruct s as [|c r]; [reflexivity|]. cbn [first_is trim_start_matches]. intros ->. reflexivity. Qed.

  Lemma first_is_app_ne d a b : a <> [] -> first_is d (a ++ b) = first_is d a.
  Proof. destruct a; [congruence|reflexivity]. Qed.

  (* the quoted name is read back *)
  Lemma clean_quoted f : memb backslash f = false -> first_is 34 f = false -> first_is 34 (rev f) = false ->
    clean_filename (34 :: f ++ [34]) = f.
  Proof.
    intros Hb Hq Hr. unfold clean_filename.
    assert (T : trim_matches 34 (34 :: f ++ [34]) = f).
    { unfold trim_matches. cbn [trim_start_matches]. rewrite Z.eqb_refl.
      destruct f as [|c r] eqn:Ef.
      - reflexivity.
      - rewrite <- Ef in *. assert (Hne : f <> []) by (rewrite Ef; discriminate). clear Ef.
        rewrite (trim_start_matches_first 34 (f ++ [34])).
        + rewrite rev_app_distr. change (rev [34]) with [34]. cbn [app trim_start_matches].
          rewrite Z.eqb_refl.
          rewrite (trim_start_matches_first 34 _ Hr). apply rev_involutive.
        + rewrite first_is_app_ne by exact Hne. exact Hq. }
    rewrite T.
    assert (R : replace_sub [backslash; backslash] [backslash] f = f).
    { unfold replace_sub. apply replace_sub_aux_absent2; [lia|exact Hb]. }
    rewrite R. apply to_standardized_path_id. exact Hb.
  Qed.

  Lemma render_background f :
    rline (background_line f) = [48; 44; 48; 44; 34] ++ f ++ [34; 44; 48; 44; 48].
  Proof.
    unfold background_line, render. cbn [flat_map render_tok event_type_idx].
    rewrite (int_digit _ _ _ Hfmt 0) by lia. rewrite app_nil_r. reflexivity.
  Qed.

  Lemma bg_ok_parts f : bg_ok f = true ->
    memb ch_lf f = false /\ has_ss f = false /\ memb backslash f = false /\ memb comma f = false /\
    first_is 34 f = false /\ first_is 34 (rev f) = false.
  Proof.
    unfold bg_ok. intros H.
    repeat match type of H with _ && _ = true => let X := fresh "X" in
             apply andb_true_iff in H; destruct H as [H X]; apply negb_true_iff in X end.
    apply negb_true_iff in H. repeat split; assumption.
  Qed.

  Lemma events_background st f : bg_ok f = true ->
    parse_events st (rline (background_line f)) = (set_ev_background_file st f, Ok).
  Proof.
    intros H. destruct (bg_ok_parts f H) as (_ & Hss & Hb & Hc & Hq & Hr).
    rewrite render_background.
    assert (Hline : trim_comment ([48; 44; 48; 44; 34] ++ f ++ [34; 44; 48; 44; 48])
                    = [48; 44; 48; 44; 34] ++ f ++ [34; 44; 48; 44; 48]).
    { apply trim_comment_clean.
      - apply has_ss_app; [reflexivity| |reflexivity].
        apply has_ss_app; [exact Hss|reflexivity|]. cbn [first_is]. apply andb_false_r.
      - rewrite app_assoc. rewrite last_ws_app by discriminate. reflexivity. }
    unfold parse_events. rewrite Hline.
    assert (Hsplit : split_on comma ([48; 44; 48; 44; 34] ++ f ++ [34; 44; 48; 44; 48])
                     = [[48]; [48]; 34 :: f ++ [34]; [48]; [48]]).
    { assert (E1 : [48; 44; 48; 44; 34] ++ f ++ [34; 44; 48; 44; 48]
                   = [48] ++ comma :: ([48] ++ comma :: ((34 :: f ++ [34]) ++ comma :: ([48] ++ comma :: [48])))).
      { cbn [app]. rewrite <- app_assoc. reflexivity. }
      rewrite E1. rewrite split_on_app_sep, split_on_app_sep, split_on_app_sep, split_on_app_sep.
      rewrite (split_on_no_sep comma (34 :: f ++ [34])).
      - reflexivity.
      - apply memb_false_In. change (34 :: f ++ [34]) with ([34] ++ f ++ [34]).
        rewrite !memb_app, Hc. reflexivity. }
    rewrite Hsplit. cbn [next]. change (event_type_from_str [48]) with (Some EvBackground).
    cbv iota beta. rewrite (clean_quoted f Hb Hq Hr). reflexivity.
  Qed.

  Lemma render_break b :
    rline (break_line b) = [50] ++ comma :: fmt_f64 (bp_start b) ++ comma :: fmt_f64 (bp_end b).
  Proof.
    unfold break_line, render. cbn [flat_map render_tok event_type_idx t_comma].
    rewrite (int_digit _ _ _ Hfmt 2) by lia. rewrite app_nil_r. reflexivity.
  Qed.

  Lemma f64_no_comma x : memb comma (fmt_f64 x) = false.
  Proof. apply (plain_no comma _ (f64_chars _ _ _ Hfmt x)). reflexivity. Qed.

  Lemma events_break st b : break_ok b = true ->
    parse_events st (rline (break_line b)) = (set_ev_breaks st (ev_breaks st ++ [b]), Ok).
  Proof.
    unfold break_ok. intros H. apply andb_true_iff in H. destruct H as [H H3].
    apply andb_true_iff in H. destruct H as [H1 H2]. apply negb_true_iff in H3.
    rewrite render_break.
    set (line := [50] ++ comma :: fmt_f64 (bp_start b) ++ comma :: fmt_f64 (bp_end b)).
    assert (Hsafe : forallb safec line = true).
    { unfold line. cbn [app forallb]. rewrite forallb_app. cbn [forallb].
      rewrite (forallb_imp _ _ _ plainc_safe (f64_chars _ _ _ Hfmt (bp_start b))).
      rewrite (forallb_imp _ _ _ plainc_safe (f64_chars _ _ _ Hfmt (bp_end b))). reflexivity. }
    destruct (safe_value _ Hsafe) as [A B].
    unfold parse_events. rewrite (trim_comment_clean _ B (tidy_last _ A)).
    assert (Hsplit : split_on comma line = [[50]; fmt_f64 (bp_start b); fmt_f64 (bp_end b)]).
    { unfold line. rewrite split_on_app_sep, split_on_app_sep.
      rewrite (split_on_no_sep comma (fmt_f64 (bp_end b))) by (apply memb_false_In, f64_no_comma).
      rewrite (split_on_no_sep comma (fmt_f64 (bp_start b))) by (apply memb_false_In, f64_no_comma).
      reflexivity. }
    rewrite Hsplit. cbn [next]. change (event_type_from_str [50]) with (Some EvBreak). cbv iota beta.
    rewrite (pn_f64_fmt _ _ _ Hfmt _ H1), (pn_f64_fmt _ _ _ Hfmt _ H2). rewrite H3.
    destruct b; reflexivity.
  Qed.

  Lemma events_breaks bs : forall st, forallb break_ok bs = true ->
    run_lines parse_events st (map rline (map break_line bs)) = set_ev_breaks st (ev_breaks st ++ bs).
  Proof.
    induction bs as [|b r IH]; intros st H.
    - cbn [map]. rewrite run_nil, app_nil_r. destruct st; reflexivity.
    - cbn [forallb] in H. apply andb_true_iff in H. destruct H as [H1 H2].
      cbn [map]. rewrite run_cons, (events_break st b H1). cbn [fst]. rewrite (IH _ H2).
      destruct st as [bg br]. cbn [set_ev_breaks ev_breaks ev_background_file]. rewrite <- app_assoc. reflexivity.
  Qed.

  Theorem events_section e : events_ok e = true ->
    run_lines parse_events events_default (map rline (body (enc_events e))) = e.
  Proof.
    unfold events_ok. intros H. apply andb_true_iff in H. destruct H as [H1 H2].
    destruct e as [bg br]. cbn [ev_background_file ev_breaks] in *.
    unfold enc_events, body. cbn [ev_background_file ev_breaks app tl].
    destruct bg as [|c f]; cbn [is_empty app].
    - rewrite (events_breaks br events_default H2). reflexivity.
    - cbn [map]. rewrite run_cons, (events_background _ _ H1). cbn [fst].
      rewrite (events_breaks br _ H2). reflexivity.
  Qed.

  (* ================= [Colours] ================= *)

  Lemma strip_prefix_app p x : strip_prefix p (p ++ x) = Some x.
  Proof. induction p as [|c p IH]; [reflexivity|]. cbn [app strip_prefix]. rewrite Z.eqb_refl. exact IH. Qed.

  Lemma render_color c : rline (color_toks c) = csv [c_r c; c_g c; c_b c; c_a c].
  Proof.
    unfold color_toks, render, csv. cbn [flat_map render_tok t_comma app]. rewrite !app_nil_r. reflexivity.
  Qed.

  Lemma color_value c : color_ok c = true ->
    color_from_str (csv [c_r c; c_g c; c_b c; c_a c]) = Some c.
  Proof.
    unfold color_ok. intros H.
    repeat match type of H with _ && _ = true => let X := fresh "X" in
             apply andb_true_iff in H; destruct H as [H X] end.
    unfold color_from_str. rewrite split_csv. cbn [map next nth_error].
    rewrite !(plain_trim _ (int_plain _ _ _ Hfmt _)).
    rewrite (int_parse_u8 _ _ _ Hfmt (c_r c)) by (unfold u8_ok in H; lia).
    rewrite (int_parse_u8 _ _ _ Hfmt (c_g c)) by (unfold u8_ok in X1; lia).
    rewrite (int_parse_u8 _ _ _ Hfmt (c_b c)) by (unfold u8_ok in X0; lia).
    apply Z.eqb_eq in X. destruct c as [r g b a]. cbn [c_r c_g c_b c_a] in *. subst a. reflexivity.
  Qed.

  Lemma color_text_value c : tidyb (csv [c_r c; c_g c; c_b c; c_a c]) = true /\
                             has_ss (csv [c_r c; c_g c; c_b c; c_a c]) = false.
  Proof. apply safe_value. apply csv_safe. Qed.

  Definition combo_key (i : Z) : str := lit colors_combo_prefix ++ fmt_int i.

  Lemma combo_key_ok i : key_ok (combo_key i) /\ colors_key_from_str (combo_key i) = Some CKCombo.
  Proof.
    assert (P : forallb plainc (combo_key i) = true).
    { unfold combo_key. rewrite forallb_app, (int_plain _ _ _ Hfmt i). reflexivity. }
    split.
    - repeat split; [apply (plain_no colon _ P); reflexivity|apply plain_tidy, P|apply plain_no_ss, P].
    - unfold colors_key_from_str, combo_key, starts_with. rewrite strip_prefix_app. reflexivity.
  Qed.

  Lemma render_combo_line i c r :
    map rline (combo_lines i (c :: r)) =
    (combo_key i ++ colon_space ++ csv [c_r c; c_g c; c_b c; c_a c]) :: map rline (combo_lines (i + 1) r).
  Proof.
    cbn [combo_lines map]. f_equal.
    all: try (change (rline ([TStr (lit colors_combo_prefix); TInt i; TStr colon_space] ++ color_toks c))
      with (lit colors_combo_prefix ++ fmt_int i ++ colon_space ++ rline (color_toks c));
      rewrite render_color; unfold combo_key; rewrite <- app_assoc; reflexivity).
  Qed.

  Lemma colors_combo st i c : color_ok c = true ->
    parse_colors st (combo_key i ++ colon_space ++ csv [c_r c; c_g c; c_b c; c_a c]) =
    (set_co_custom_combo_colors st (co_custom_combo_colors st ++ [c]), Ok).
  Proof.
    intros H. destruct (combo_key_ok i) as [Hk Hf]. destruct (color_text_value c) as [A B].
    unfold parse_colors. rewrite (kv_parse_stripped _ CKCombo _ _ Hf Hk A B).
    rewrite (color_value c H). reflexivity.
  Qed.

  Lemma colors_combos l : forall i st, forallb color_ok l = true ->
    run_lines parse_colors st (map rline (combo_lines i l)) =
    set_co_custom_combo_colors st (co_custom_combo_colors st ++ l).
  Proof.
    induction l as [|c r IH]; intros i st H.
    - cbn [combo_lines map]. rewrite run_nil, app_nil_r. destruct st; reflexivity.
    - cbn [forallb] in H. apply andb_true_iff in H. destruct H as [H1 H2].
      rewrite render_combo_line, run_cons, (colors_combo st i c H1). cbn [fst]. rewrite (IH _ _ H2).
      destruct st as [cc cu]. cbn [set_co_custom_combo_colors co_custom_combo_colors co_custom_colors].
      rewrite <- app_assoc. reflexivity.
  Qed.

  Lemma str_eqb_sym a : forall b, str_eqb a b = str_eqb b a.
  Proof.
    induction a as [|x a IH]; intros [|y b]; try reflexivity.
    cbn [str_eqb]. rewrite Z.eqb_sym, IH. reflexivity.
  Qed.

  Definition name_in (name : str) (l : list CustomColor) : bool :=
    existsb (fun y => str_eqb (cc_name y) name) l.

  Lemma set_custom_color_fresh l name c : name_in name l = false -> set_custom_color l name c = None.
  Proof.
    induction l as [|x r IH]; [reflexivity|]. unfold name_in. cbn [existsb set_custom_color]. intros H.
    apply orb_false_iff in H. destruct H as [H1 H2]. rewrite H1. rewrite (IH H2). reflexivity.
  Qed.

  Lemma render_custom_line x :
    rline (custom_color_line x) =
    cc_name x ++ colon_space ++ csv [c_r (cc_color x); c_g (cc_color x); c_b (cc_color x); c_a (cc_color x)].
  Proof.
    unfold custom_color_line.
    change (rline ([TStr (cc_name x); TStr colon_space] ++ color_toks (cc_color x)))
      with (cc_name x ++ colon_space ++ rline (color_toks (cc_color x))).
    rewrite render_color. reflexivity.
  Qed.

  Lemma colors_custom st x : color_name_ok (cc_name x) = true -> color_ok (cc_color x) = true ->
    name_in (cc_name x) (co_custom_colors st) = false ->
    parse_colors st (rline (custom_color_line x)) =
    (set_co_custom_colors st (co_custom_colors st ++ [x]), Ok).
  Proof.
    unfold color_name_ok. intros Hn Hc Hfresh.
    repeat match type of Hn with _ && _ = true => let X := fresh "X" in
             apply andb_true_iff in Hn; destruct Hn as [Hn X]; apply negb_true_iff in X end.
    rewrite render_custom_line. destruct (color_text_value (cc_color x)) as [A B].
    assert (Hk : key_ok (cc_name x)) by (repeat split; [exact X0|exact (str_ok_tidy _ Hn)|exact X1]).
    assert (Hf : colors_key_from_str (cc_name x) = Some (CKName (cc_name x))).
    { unfold colors_key_from_str. rewrite X. reflexivity. }
    unfold parse_colors. rewrite (kv_parse_stripped _ _ _ _ Hf Hk A B).
    rewrite (color_value _ Hc). rewrite (set_custom_color_fresh _ _ _ Hfresh).
    destruct x; reflexivity.
  Qed.

  Lemma colors_customs l : forall st,
    forallb (fun x => color_name_ok (cc_name x) && color_ok (cc_color x)) l = true ->
    distinct_names l = true ->
    forallb (fun x => negb (name_in (cc_name x) (co_custom_colors st))) l = true ->
    run_lines parse_colors st (map rline (map custom_color_line l)) =
    set_co_custom_colors st (co_custom_colors st ++ l).
  Proof.
    induction l as [|x r IH]; intros st Hok Hd Hf.
    - cbn [map]. rewrite run_nil, app_nil_r. destruct st; reflexivity.
    - cbn [forallb] in Hok, Hf. cbn [distinct_names] in Hd.
      apply andb_true_iff in Hok. destruct Hok as [Hx Hr]. apply andb_true_iff in Hx. destruct Hx as [Hn Hc].
      apply andb_true_iff in Hd. destruct Hd as [Hdx Hdr]. apply negb_true_iff in Hdx.
      apply andb_true_iff in Hf. destruct Hf as [Hfx Hfr]. apply negb_true_iff in Hfx.
      cbn [map]. rewrite run_cons, (colors_custom st x Hn Hc Hfx). cbn [fst].
      rewrite IH; [|exact Hr|exact Hdr|].
      + destruct st as [cc cu]. cbn [set_co_custom_colors co_custom_combo_colors co_custom_colors].
        rewrite <- app_assoc. reflexivity.
      + destruct st as [cc cu]. cbn [set_co_custom_colors co_custom_colors] in *.
        rewrite forallb_forall in *. intros y Hy. specialize (Hfr y Hy). apply negb_true_iff in Hfr.
        apply negb_true_iff. unfold name_in in *. rewrite existsb_app, Hfr. cbn [existsb orb].
        rewrite orb_false_r.
        destruct (str_eqb (cc_name x) (cc_name y)) eqn:E; [|reflexivity].
        assert (existsb (fun z => str_eqb (cc_name z) (cc_name x)) r = true).
        { apply existsb_exists. exists y. split; [exact Hy|]. rewrite str_eqb_sym. exact E. }
        congruence.
  Qed.

  Theorem colors_section c : colors_ok c = true ->
    run_lines parse_colors colors_default (map rline (body (enc_colors c))) = c.
  Proof.
    unfold colors_ok. intros H. apply andb_true_iff in H. destruct H as [H H3].
    apply andb_true_iff in H. destruct H as [H1 H2].
    destruct c as [cc cu]. cbn [co_custom_combo_colors co_custom_colors] in *.
    unfold enc_colors, body. cbn [co_custom_combo_colors co_custom_colors app tl].
    rewrite map_app, run_lines_app. rewrite (colors_combos cc 1 colors_default H1).
    rewrite colors_customs; [reflexivity|exact H2|exact H3|].
    cbn [colors_default set_co_custom_combo_colors co_custom_colors].
    apply forallb_forall. intros; reflexivity.
  Qed.

  (* ================= T04b: every body line is accepted, whatever the state ================= *)

  Definition accepted {S} (parse : S -> str -> S * res) (l : line) : Prop :=
    forall st, snd (parse st (rline l)) = Ok.

  Ltac acc_lines tac :=
    repeat match goal with
           | |- Forall _ (_ ++ _) => apply Forall_app; split
           | |- Forall _ (_ :: _) => constructor
           | |- Forall _ [] => constructor
           | |- accepted _ _ => let st := fresh "st" in intros st; tac st
           end.

  Theorem general_accepted g c : general_ok g = true -> enum4_ok (first_sample_bank c) = true ->
    Forall (accepted parse_general) (body (enc_general g c)).
  Proof.
    intros Hok Hbank. unfold general_ok in Hok.
    repeat match type of Hok with _ && _ = true => let H := fresh "H" in
             apply andb_true_iff in Hok; destruct Hok as [Hok H] end.
    unfold enc_general, body. cbn [app tl].
    destruct (g_epilepsy_warning g), (0 <? g_countdown_offset g), (g_mode g =? mode_mania),
             (g_samples_match_playback_rate g); cbn [app];
    acc_lines ltac:(fun st =>
      first [ rewrite general_audio by assumption
            | rewrite general_lead_in by assumption
            | rewrite general_preview by assumption
            | rewrite general_countdown by assumption
            | rewrite general_sample_set by assumption
            | rewrite general_stack by assumption
            | rewrite general_mode by assumption
            | rewrite general_letterbox
            | rewrite general_epilepsy
            | rewrite general_countdown_offset by assumption
            | rewrite general_special
            | rewrite general_widescreen
            | rewrite general_samples_match ]; reflexivity).
  Qed.

  Theorem editor_accepted e : editor_ok e = true ->
    Forall (accepted parse_editor) (body (enc_editor e)).
  Proof.
    intros Hok. unfold editor_ok in Hok.
    repeat match type of Hok with _ && _ = true => let H := fresh "H" in
             apply andb_true_iff in Hok; destruct Hok as [Hok H] end.
    unfold enc_editor, body, bookmarks_line. cbn [app tl].
    destruct (ed_bookmarks e) as [|b r]; cbn [app];
    acc_lines ltac:(fun st =>
      first [ rewrite editor_bookmarks by assumption
            | rewrite editor_distance by assumption
            | rewrite editor_divisor by assumption
            | rewrite editor_grid by assumption
            | rewrite editor_zoom by assumption ]; reflexivity).
  Qed.

  Theorem metadata_accepted m : metadata_ok m = true ->
    Forall (accepted parse_metadata) (body (enc_metadata m)).
  Proof.
    intros Hok. unfold metadata_ok in Hok.
    repeat match type of Hok with _ && _ = true => let H := fresh "H" in
             apply andb_true_iff in Hok; destruct Hok as [Hok H] end.
    unfold enc_metadata, body, opt_text_line. cbn [app tl].
    destruct (is_empty (m_title_unicode m)), (is_empty (m_artist_unicode m)), (is_empty (m_source m)),
             (is_empty (m_tags m)), (0 <? m_beatmap_id m), (0 <? m_beatmap_set_id m); cbn [app];
    acc_lines ltac:(fun st =>
      first [ rewrite metadata_title by assumption
            | rewrite metadata_title_unicode by assumption
            | rewrite metadata_artist by assumption
            | rewrite metadata_artist_unicode by assumption
            | rewrite metadata_creator by assumption
            | rewrite metadata_version by assumption
            | rewrite metadata_source by assumption
            | rewrite metadata_tags by assumption
            | rewrite metadata_id by assumption
            | rewrite metadata_set_id by assumption ]; reflexivity).
  Qed.

  Theorem difficulty_accepted d : difficulty_ok d = true ->
    Forall (accepted parse_difficulty) (body (enc_difficulty d)).
  Proof.
    intros Hok. unfold difficulty_ok in Hok.
    repeat match type of Hok with _ && _ = true => let H := fresh "H" in
             apply andb_true_iff in Hok; destruct Hok as [Hok H] end.
    unfold enc_difficulty, body. cbn [tl].
    acc_lines ltac:(fun st =>
      first [ rewrite difficulty_hp by assumption
            | rewrite difficulty_cs by assumption
            | rewrite difficulty_od by assumption
            | rewrite difficulty_ar by assumption
            | rewrite difficulty_sm by assumption
            | rewrite difficulty_tr by assumption ]; reflexivity).
  Qed.

  Theorem events_accepted e : events_ok e = true ->
    Forall (accepted parse_events) (body (enc_events e)).
  Proof.
    unfold events_ok. intros H. apply andb_true_iff in H. destruct H as [H1 H2].
    unfold enc_events, body. cbn [app tl]. apply Forall_app. split.
    - destruct (is_empty (ev_background_file e)); constructor; [|constructor].
      intros st. rewrite (events_background st _ H1). reflexivity.
    - apply Forall_forall. intros l Hl. apply in_map_iff in Hl. destruct Hl as (b & <- & Hb).
      rewrite forallb_forall in H2. intros st. rewrite (events_break st b (H2 b Hb)). reflexivity.
  Qed.

  Lemma colors_custom_accepted x : color_name_ok (cc_name x) = true -> color_ok (cc_color x) = true ->
    accepted parse_colors (custom_color_line x).
  Proof.
    unfold color_name_ok. intros Hn Hc st.
    repeat match type of Hn with _ && _ = true => let X := fresh "X" in
             apply andb_true_iff in Hn; destruct Hn as [Hn X]; apply negb_true_iff in X end.
    rewrite render_custom_line. destruct (color_text_value (cc_color x)) as [A B].
    assert (Hk : key_ok (cc_name x)) by (repeat split; [exact X0|exact (str_ok_tidy _ Hn)|exact X1]).
    assert (Hf : colors_key_from_str (cc_name x) = Some (CKName (cc_name x))).
    { unfold colors_key_from_str. rewrite X. reflexivity. }
    unfold parse_colors. rewrite (kv_parse_stripped _ _ _ _ Hf Hk A B).
    rewrite (color_value _ Hc). destruct (set_custom_color _ _ _); reflexivity.
  Qed.

  Lemma combo_lines_accepted l : forall i, forallb color_ok l = true ->
    Forall (accepted parse_colors) (combo_lines i l).
  Proof.
    induction l as [|c r IH]; intros i H; [constructor|].
    cbn [forallb] in H. apply andb_true_iff in H. destruct H as [H1 H2].
    cbn [combo_lines]. constructor; [|apply IH; exact H2].
    intros st.
    change (rline ([TStr (lit colors_combo_prefix); TInt i; TStr colon_space] ++ color_toks c))
      with (combo_key i ++ colon_space ++ rline (color_toks c)).
    rewrite render_color, (colors_combo st i c H1). reflexivity.
  Qed.

  Theorem colors_accepted c : colors_ok c = true ->
    Forall (accepted parse_colors) (body (enc_colors c)).
  Proof.
    unfold colors_ok. intros H. apply andb_true_iff in H. destruct H as [H _].
    apply andb_true_iff in H. destruct H as [H1 H2].
    unfold enc_colors, body. cbn [app tl]. apply Forall_app. split.
    - apply combo_lines_accepted. exact H1.
    - apply Forall_forall. intros l Hl. apply in_map_iff in Hl. destruct Hl as (x & <- & Hx).
      rewrite forallb_forall in H2. specialize (H2 x Hx). apply andb_true_iff in H2. destruct H2 as [A B].
      apply colors_custom_accepted; assumption.
  Qed.
End Simple.

(* SliderEventsExact: the slider event model read in exact (real) arithmetic.
   Same Gallina text as the IEEE model (Model/SliderEvents.v), instantiated
   with R: this is where "tick j lies at j * tick_dist", "strictly before
   len - 10 * velocity" and "chronological within a span" are theorems.  The
   distance to the IEEE reading is the rounding of the running sum
   d += tick_dist and of start + t * dur; it is not closed here. *)
From RM Require Import Model.SliderEvents Proofs.SliderEventsFacts.
From RM Require Import Gen.Generated.
From Coq Require Import Reals Lra Sorting.Sorted.
Open Scope R_scope.

Definition Rleb (a b : R) : bool := if Rle_dec a b then true else false.
Definition Rltb (a b : R) : bool := if Rlt_dec a b then true else false.
Definition R_clamp_chk (x lo hi : R) : outcome R :=
  if Rleb lo hi then
    Done (let x1 := if Rltb x lo then lo else x in if Rltb hi x1 then hi else x1)
  else Panic 1.
Definition R_of_dec (d : bool * Z * Z) : R :=
  let '(s, m, e) := d in (if s then -1 else 1) * IZR m * powerRZ 10 e.

Definition opsR : fops R :=
  mkOps R Rplus Rminus Rmult Rdiv Rleb Rltb Rmax Rmin R_clamp_chk IZR R_of_dec.

Lemma Rleb_true a b : Rleb a b = true <-> a <= b.
Proof. unfold Rleb. destruct (Rle_dec a b); split; intros H'; try discriminate; try reflexivity; try lra; exfalso; lra. Qed.
Lemma Rleb_false a b : Rleb a b = false <-> b < a.
Proof. unfold Rleb. destruct (Rle_dec a b); split; intros H'; try discriminate; try reflexivity; try lra; exfalso; lra. Qed.
Lemma Rltb_true a b : Rltb a b = true <-> a < b.
Proof. unfold Rltb. destruct (Rlt_dec a b); split; intros H'; try discriminate; try reflexivity; try lra; exfalso; lra. Qed.
Lemma Rltb_false a b : Rltb a b = false <-> b <= a.
Proof. unfold Rltb. destruct (Rlt_dec a b); split; intros H'; try discriminate; try reflexivity; try lra; exfalso; lra. Qed.

(* the constants, as real numbers *)
Lemma mdfe_factor_R : c_mdfe_factor opsR = 10.
Proof. unfold c_mdfe_factor. cbn. replace (10 ^ Pos.to_nat 1) with 10 by (simpl; lra). lra. Qed.
Lemma tail_leniency_R : c_tail_leniency opsR = -36.
Proof. unfold c_tail_leniency. cbn. replace (10 ^ Pos.to_nat 1) with 10 by (simpl; lra). lra. Qed.
Lemma max_len_R : c_max_len opsR = 100000.
Proof. unfold c_max_len. cbn. replace (10 ^ Pos.to_nat 1) with 10 by (simpl; lra). lra. Qed.

(* ---------- ticks at multiples of the tick distance ---------- *)

Lemma rsum_R td d j : rsum opsR td d j = d + INR j * td.
Proof.
  revert d. induction j as [|j IH]; intros d.
  - cbn. lra.
  - cbn [rsum]. rewrite IH. rewrite S_INR. cbn [f_add opsR]. lra.
Qed.

(* T20b: in exact arithmetic the k ticks of a span lie at 1*td, 2*td, ...,
   k*td; each is <= len and strictly before len - mdfe; and k is maximal *)
Theorem dists_exact len mdfe td ds :
  0 < td -> dists_ok opsR len mdfe td ds ->
  ds = map (fun j => INR (S j) * td) (seq 0 (length ds)) /\
  Forall (fun d => d <= len /\ d < len - mdfe) ds /\
  ~ (INR (S (length ds)) * td <= len /\ INR (S (length ds)) * td < len - mdfe).
Proof.
  intros Htd (H1 & H2 & H3). repeat split.
  - rewrite H1 at 1. apply map_ext. intros j. rewrite rsum_R, S_INR. lra.
  - eapply Forall_impl; [|exact H2]. cbn beta. intros d [Ha Hb].
    cbn [f_le f_sub opsR] in Ha, Hb. apply Rleb_true in Ha. apply Rleb_false in Hb. lra.
  - cbn [f_lt opsR] in H3. unfold c_zero in H3. cbn [f_of_Z opsR] in H3.
    assert (E : Rltb 0 td = true) by (apply Rltb_true; exact Htd). rewrite E in H3.
    unfold guard in H3. cbn [f_le f_sub opsR] in H3. rewrite rsum_R in H3.
    intros [Ha Hb]. rewrite S_INR in Ha, Hb.
    apply andb_false_iff in H3. destruct H3 as [H3|H3].
    + apply Rleb_false in H3. lra.
    + apply negb_false_iff in H3. apply Rleb_true in H3. lra.
Qed.

(* the tick fuel needed: any tf with tf * td > len suffices (len/td + 1 steps) *)
Lemma tick_dists_fuel len mdfe td : 0 < td -> forall tf d,
  (1 <= tf)%nat -> d + INR (tf - 1) * td > len ->
  tick_dists opsR tf len mdfe td d <> OutOfFuel.
Proof.
  intros Htd. induction tf as [|k IH]; intros d Hk Hd; [inversion Hk|].
  cbn [tick_dists].
  destruct (f_le opsR d len && negb (f_le opsR (f_sub opsR len mdfe) d)) eqn:G; [|discriminate].
  apply andb_true_iff in G. destruct G as [G _]. cbn [f_le opsR] in G. apply Rleb_true in G.
  replace (S k - 1)%nat with k in Hd by (destruct k; reflexivity).
  assert (Hk1 : (1 <= k)%nat).
  { destruct k; [cbn in Hd; lra | apply le_n_S, Nat.le_0_l]. }
  specialize (IH (f_add opsR d td) Hk1). cbn [f_add opsR] in IH.
  assert (Hd' : d + td + INR (k - 1) * td > len).
  { rewrite minus_INR by exact Hk1. cbn [INR]. lra. }
  specialize (IH Hd').
  cbn [f_add opsR].
  destruct (tick_dists opsR k len mdfe td (d + td)); cbn; congruence.
Qed.

Theorem span_dists_fuel len mdfe td tf :
  0 < td -> (1 <= tf)%nat -> INR tf * td > len -> span_dists opsR tf len mdfe td <> OutOfFuel.
Proof.
  intros Htd H1 Hf. unfold span_dists. destruct (f_lt opsR (c_zero opsR) td); [|discriminate].
  apply tick_dists_fuel; auto. rewrite minus_INR by exact H1. cbn [INR]. lra.
Qed.

(* ---------- chronological order within a span ---------- *)

Lemma SS_app {A} (R : A -> A -> Prop) l1 l2 :
  StronglySorted R l1 -> StronglySorted R l2 ->
  (forall a b, In a l1 -> In b l2 -> R a b) -> StronglySorted R (l1 ++ l2).
Proof.
  induction l1 as [|x l1 IH]; intros H1 H2 H; [exact H2|].
  inversion H1 as [|? ? Hs Hf]; subst. cbn [app]. constructor.
  - apply IH; auto. intros a b Ha Hb. apply H; [right; exact Ha | exact Hb].
  - apply Forall_app. split; [exact Hf|]. apply Forall_forall. intros b Hb. apply H; [left; reflexivity | exact Hb].
Qed.

Lemma SS_rev {A} (R : A -> A -> Prop) l :
  StronglySorted R l -> StronglySorted (fun a b => R b a) (rev l).
Proof.
  induction 1 as [|x l Hs IH Hf]; [constructor|]. cbn [rev]. apply SS_app; auto.
  - repeat constructor.
  - intros a b Ha Hb. destruct Hb as [<-|[]]. apply in_rev in Ha.
    rewrite Forall_forall in Hf. apply Hf. exact Ha.
Qed.

Lemma SS_map {A B} (R : A -> A -> Prop) (S : B -> B -> Prop) (f : A -> B) l :
  (forall a b, In a l -> In b l -> R a b -> S (f a) (f b)) ->
  StronglySorted R l -> StronglySorted S (map f l).
Proof.
  intros Hm H. induction H as [|x l Hs IH Hf]; [constructor|]. cbn [map]. constructor.
  - apply IH. intros a b Ha Hb. apply Hm; right; assumption.
  - apply Forall_forall. intros y Hy. apply in_map_iff in Hy. destruct Hy as (b & <- & Hb).
    apply Hm; [left; reflexivity | right; exact Hb|]. rewrite Forall_forall in Hf. apply Hf. exact Hb.
Qed.

Lemma SS_seq a k : StronglySorted lt (seq a k).
Proof.
  revert a. induction k as [|k IH]; intros a; [constructor|]. cbn [seq]. constructor; [apply IH|].
  apply Forall_forall. intros x Hx. apply in_seq in Hx. apply Hx.
Qed.

(* T20b: within a span the ticks are strictly increasing in time and the
   repeat comes strictly after them (exact arithmetic, positive duration,
   length and tick distance, non-negative minimum distance from the end) *)
Theorem span_chronological start dur len n mdfe td ds s :
  0 < td -> 0 < dur -> 0 < len -> 0 <= mdfe -> dists_ok opsR len mdfe td ds ->
  StronglySorted Rlt (map ev_time (sp_span opsR start dur len n ds s)).
Proof.
  intros Htd Hdur Hlen Hmd Hok.
  destruct (dists_exact len mdfe td ds Htd Hok) as (Hds & Hall & _).
  assert (Hsorted : StronglySorted Rlt ds).
  { rewrite Hds. eapply SS_map; [|apply SS_seq]. intros a b _ _ Hab. cbn beta.
    apply Rmult_lt_compat_r; [exact Htd|]. apply lt_INR. apply -> Nat.succ_lt_mono. exact Hab. }
  assert (Hpos : Forall (fun d => 0 < d) ds).
  { rewrite Hds. apply Forall_forall. intros d Hd. apply in_map_iff in Hd. destruct Hd as (j & <- & _).
    apply Rmult_lt_0_compat; [|exact Htd]. apply lt_0_INR. apply Nat.lt_0_succ. }
  rewrite Forall_forall in Hall, Hpos.
  set (sst := sp_sst opsR start dur s).
  assert (Hdiv : forall a b, a < b -> a / len < b / len).
  { intros a b Hab. unfold Rdiv. apply Rmult_lt_compat_r; [apply Rinv_0_lt_compat; exact Hlen | exact Hab]. }
  assert (Hlt1 : forall d, In d ds -> d / len < 1).
  { intros d Hd. destruct (Hall d Hd) as [_ H]. apply (Rmult_lt_reg_r len); [exact Hlen|].
    unfold Rdiv. rewrite Rmult_assoc, Rinv_l by lra. lra. }
  assert (Hgt0 : forall d, In d ds -> 0 < d / len).
  { intros d Hd. apply Rdiv_lt_0_compat; [apply Hpos; exact Hd | exact Hlen]. }
  unfold sp_span. rewrite map_app.
  apply SS_app.
  - destruct (Z.odd s) eqn:Hodd.
    + rewrite map_rev, map_map.
      eapply (SS_rev (fun a b => b < a)). eapply SS_map; [|exact Hsorted].
      intros a b _ _ Hab. unfold sp_tick. cbn [ev_time]. rewrite Hodd. cbn [f_add f_mul f_sub f_div opsR].
      fold sst. specialize (Hdiv a b Hab). unfold c_one. cbn [f_of_Z opsR].
      apply Rplus_lt_compat_l. apply Rmult_lt_compat_r; [exact Hdur|]. lra.
    + rewrite map_map. eapply SS_map; [|exact Hsorted].
      intros a b _ _ Hab. unfold sp_tick. cbn [ev_time]. rewrite Hodd. cbn [f_add f_mul f_sub f_div opsR].
      fold sst. specialize (Hdiv a b Hab).
      apply Rplus_lt_compat_l. apply Rmult_lt_compat_r; [exact Hdur|]. exact Hdiv.
  - destruct (s <? n - 1)%Z; repeat constructor.
  - intros a b Ha Hb. destruct (s <? n - 1)%Z; [|destruct Hb]. destruct Hb as [<-|[]].
    unfold sp_repeat. cbn [ev_time f_add opsR]. fold sst.
    assert (Hin : exists d, In d ds /\ a = ev_time (sp_tick opsR start dur len s d)).
    { destruct (Z.odd s); [rewrite map_rev in Ha; apply in_rev in Ha|];
        apply in_map_iff in Ha; destruct Ha as (e & <- & He); apply in_map_iff in He;
        destruct He as (d & <- & Hd); exists d; split; auto. }
    destruct Hin as (d & Hd & ->). unfold sp_tick. cbn [ev_time f_add f_mul f_sub f_div opsR]. fold sst.
    specialize (Hlt1 d Hd). specialize (Hgt0 d Hd). unfold c_one. cbn [f_of_Z opsR].
    apply Rplus_lt_compat_l.
    destruct (Z.odd s).
    + assert ((1 - d / len) * dur < 1 * dur) by (apply Rmult_lt_compat_r; lra). lra.
    + assert (d / len * dur < 1 * dur) by (apply Rmult_lt_compat_r; lra). lra.
Qed.

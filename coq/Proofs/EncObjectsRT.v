(* EncObjectsRT: C02 / T02b -- the lines the encoder writes for circles, spinners and
   holds are read back as the same object up to [carry] (Model/EncObjCarry.v).

   Three layers:
     1. text: [circle|spinner|hold]_line_reread -- for EVERY parser state and every object
        with [object_ok], the rendered line is accepted and the state becomes
        [push st (reread_object st mode h)]: the object the decoder builds is given EXACTLY
        (no erasure), for all formatting functions satisfying [fmt_ok];
     2. samples: [reread_carry_shape] -- on the decoder's sample shape ([samples_shape]) the
        re-read list has the same names, banks (and bank-given flags) as the written one;
        decoder-image lemmas [convert_samples_shape], [processed_samples_image],
        [read_banks_ok], [parse_line_image];
     3. floats: [int_times_ok] -- start + duration - start reproduces the duration for
        integer-valued times (Proofs/EncObjTimes.v; the general IEEE statement is not proved).
   The round-trip theorems [circle|spinner|hold]_line_round_trip combine them. *)
From RM Require Import Model.EncObjCarry Model.HitObjectSpec Proofs.EncText Proofs.EncFmt Proofs.EncFloat Proofs.EncSimple Proofs.EncObjects Proofs.FramingFacts Proofs.NumFacts Proofs.HitObjectLineFacts Proofs.EncObjTimes Proofs.EncRound.
From RM Require Import Gen.Generated.
From Flocq Require Import BinarySingleNaN.
From Coq Require Import ZifyBool.
Open Scope Z_scope.

(* ---------- sample banks: what read_custom_sample_banks / convert_sound_type produce ---------- *)

Lemma bank13_cases b : bank13 b = true -> b = 1 \/ b = 2 \/ b = 3.
Proof. unfold bank13. lia. Qed.

Lemma opt_bank_13 b : bank13 b = true -> opt_bank b = Some b.
Proof. intros H. destruct (bank13_cases b H) as [->|[->| ->]]; reflexivity. Qed.

Lemma opt_bank_none : opt_bank sb_none = None.
Proof. reflexivity. Qed.

Lemma opt_bank_ok n : opt_bank13 (opt_bank n) = true.
Proof.
  unfold opt_bank, bank_of_i32, sample_bank_of_int. cbn [zassoc].
  destruct (0 =? n); [reflexivity|]. destruct (1 =? n); [reflexivity|].
  destruct (2 =? n); [reflexivity|]. destruct (3 =? n); reflexivity.
Qed.

Lemma sbi_default_ok : bank_info_ok sbi_default = true.
Proof. reflexivity. Qed.

Lemma read_banks_ok b sp bo b' :
  bank_info_ok b = true -> read_custom_sample_banks b sp bo = Some b' -> bank_info_ok b' = true.
Proof.
  intros Hb H. unfold read_custom_sample_banks in H.
  destruct sp as [|first r1]; [inversion H; subst; exact Hb|].
  destruct first as [|c0 f0]; [inversion H; subst; exact Hb|].
  destruct (pn_i32 (c0 :: f0)) as [n|]; [|discriminate].
  destruct r1 as [|s2 r2]; [discriminate|].
  destruct (pn_i32 s2) as [a|]; [|discriminate].
  fold (opt_bank n) in H. fold (opt_bank a) in H.
  assert (G : bank_info_ok (mkSBI (sbi_filename b) (opt_bank n)
                (match opt_bank a with Some x => Some x | None => opt_bank n end) 0 0) = true).
  { unfold bank_info_ok. cbn [sbi_normal sbi_addition]. rewrite opt_bank_ok.
    pose proof (opt_bank_ok a) as Ha. destruct (opt_bank a); [exact Ha|apply opt_bank_ok]. }
  unfold bank_info_ok in G |- *. cbn [sbi_normal sbi_addition] in G.
  destruct bo; [inversion H; subst; exact G|].
  destruct (next r2) as [o3 r3]. destruct (match o3 with Some s => pn_i32 s | None => Some (sbi_custom b) end); [|discriminate].
  destruct (next r3) as [o4 r4].
  destruct (match o4 with Some s => omap (Z.max 0) (pn_i32 s) | None => Some (sbi_volume b) end); [|discriminate].
  inversion H; subst. exact G.
Qed.

Lemma odflt_bank13 o : opt_bank13 o = true -> bank13 (odflt sb_normal o) = true.
Proof. destruct o; [exact (fun H => H)|reflexivity]. Qed.

Lemma convert_samples_shape b st : bank_info_ok b = true -> samples_shape (convert_sound_type b st) = true.
Proof.
  intros H. unfold bank_info_ok in H. apply andb_true_iff in H. destruct H as [Hn Ha].
  apply odflt_bank13 in Hn. apply odflt_bank13 in Ha.
  unfold convert_sound_type, hs_new, hs_set_layered. cbn [hs_name hs_bank hs_suffix hs_volume hs_custom hs_bank_specified].
  set (ab := odflt sb_normal (sbi_addition b)) in *.
  set (nb := odflt sb_normal (sbi_normal b)) in *.
  unfold nm_finish, nm_whistle, nm_clap, nm_normal.
  destruct (snd_has_flag st hitsound_finish), (snd_has_flag st hitsound_whistle), (snd_has_flag st hitsound_clap);
    destruct (sbi_filename b) as [[|c f]|];
    cbn [app samples_shape head_shape adds_shape addition_names is_named hs_name hs_bank odflt];
    unfold nm_finish, nm_whistle, nm_clap, nm_normal; cbn [Z.eqb Pos.eqb andb];
    rewrite ?Z.eqb_refl, ?Hn, ?Ha; reflexivity.
Qed.

(* the same list after SamplePoint::apply: the real image *)
Lemma processed_samples_image b st p :
  bank_info_ok b = true -> bank13 (sp_bank p) = true ->
  samples_image (map (sp_apply p) (convert_sound_type b st)) = true.
Proof.
  intros H Hp. unfold bank_info_ok in H. apply andb_true_iff in H. destruct H as [Hn Ha].
  unfold convert_sound_type, hs_new, hs_set_layered. cbn [hs_name hs_bank hs_suffix hs_volume hs_custom hs_bank_specified].
  unfold samples_image.
  destruct (sbi_normal b) as [nb|], (sbi_addition b) as [ab|]; cbn [opt_bank13] in Hn, Ha;
  destruct (snd_has_flag st hitsound_finish), (snd_has_flag st hitsound_whistle), (snd_has_flag st hitsound_clap);
    destruct (sbi_filename b) as [[|c f]|];
    cbn [map app sp_apply samples_shape specified_ok forallb head_shape adds_shape addition_names is_named is_default_name
         hs_name hs_bank hs_bank_specified odflt];
    unfold nm_finish, nm_whistle, nm_clap, nm_normal; cbn [Z.eqb Pos.eqb andb Bool.eqb];
    rewrite ?Z.eqb_refl, ?Hn, ?Ha, ?Hp; reflexivity.
Qed.

Ltac bool_hyp H :=
  repeat match type of H with
  | context[?x =? ?y] =>
      let E := fresh "E" in
      destruct (x =? y) eqn:E;
      [apply Z.eqb_eq in E; subst | ];
      cbn [andb adds_shape is_named hs_name hs_bank Z.eqb Pos.eqb] in H; try discriminate H
  end.

Ltac split_sample s := destruct s as [[?n|?f] ?b ?suf ?v ?c ?bs ?la].

Lemma reread_carry_shape mode l : samples_shape l = true ->
  carry_samples (reread_samples mode l) = carry_samples (map specify l).
Proof.
  destruct l as [|h r]; [discriminate|]. cbn [samples_shape]. intros H.
  apply andb_true_iff in H. destruct H as [Hh Hr].
  assert (Hhead : (exists b, bank13 b = true /\ hs_name h = NDefault nm_normal /\ hs_bank h = b) \/
                  (exists c f, hs_name h = NFile (c :: f) /\ hs_bank h = sb_normal)).
  { unfold head_shape in Hh. destruct (hs_name h) as [n|[|c f]]; try discriminate.
    - apply andb_true_iff in Hh. destruct Hh as [Hn Hb]. apply Z.eqb_eq in Hn. subst n. left. eauto.
    - apply Z.eqb_eq in Hh. right. eauto. }
  clear Hh. destruct h as [hn hb hsuf hv hc hbs hl]. cbn [hs_name hs_bank] in Hhead.
  destruct r as [|a r].
  - destruct Hhead as [(b & Hb & -> & ->)|(c & f & -> & ->)].
    + destruct (bank13_cases b Hb) as [->|[->| ->]]; vm_compute; reflexivity.
    + vm_compute. reflexivity.
  - apply andb_true_iff in Hr. destruct Hr as [Hab Hr].
    remember (hs_bank a) as ab eqn:Eab.
    destruct r as [|b0 [|c0 [|d0 r]]];
      split_sample a; try split_sample b0; try split_sample c0; try split_sample d0;
      cbn [hs_bank] in Eab; subst ab;
      cbn [adds_shape addition_names is_named hs_name hs_bank] in Hr; try discriminate Hr;
      unfold nm_finish, nm_whistle, nm_clap in Hr; bool_hyp Hr.
    all: destruct Hhead as [(b' & Hb & -> & ->)|(c' & f' & -> & ->)].
    all: try (destruct (bank13_cases b' Hb) as [->|[->| ->]]).
    all: match goal with H : bank13 ?x = true |- _ => destruct (bank13_cases x H) as [->|[->| ->]] end.
    all: vm_compute; reflexivity.
Qed.

(* ---------- the text layer: the exact re-read ---------- *)

Lemma reread_info_vals mode l nb ab cu vo f : extras_vals l mode = (nb, ab, cu, vo, f) ->
  reread_info mode l =
  mkSBI (Some f) (opt_bank nb) (match opt_bank ab with Some a => Some a | None => opt_bank nb end) (Z.max 0 vo) cu.
Proof. unfold extras_vals, reread_info. intros H. inversion H; subst. reflexivity. Qed.

Lemma circle_type_bits (nc : bool) off : 0 <= off <= 7 ->
  let K := Z.lor (Z.lor (wrap_i32 (Z.shiftl off 4)) (if nc then hot_new_combo else 0)) hot_circle in
  i32_min <= K <= i32_max /\
  Z.land (Z.land K (Z.lnot hot_combo_offset)) (Z.lnot hot_new_combo) = hot_circle /\
  has_flag (Z.land K (Z.lnot hot_combo_offset)) hot_new_combo = nc /\
  Z.shiftr (Z.land K hot_combo_offset) 4 = off.
Proof.
  intros Hoff.
  destruct (offset_cases off Hoff) as [E|[E|[E|[E|[E|[E|[E|E]]]]]]]; rewrite E; destruct nc; vm_compute;
    (split; [split; discriminate|repeat split; reflexivity]).
Qed.

Lemma spinner_type_bits (nc : bool) :
  let K := Z.lor (if nc then hot_new_combo else 0) hot_spinner in
  i32_min <= K <= i32_max /\
  Z.land (Z.land K (Z.lnot hot_combo_offset)) (Z.lnot hot_new_combo) = hot_spinner /\
  has_flag (Z.land K (Z.lnot hot_combo_offset)) hot_new_combo = nc.
Proof. destruct nc; vm_compute; (split; [split; discriminate|split; reflexivity]). Qed.

Lemma hold_type_bits :
  i32_min <= hot_hold <= i32_max /\
  Z.land (Z.land hot_hold (Z.lnot hot_combo_offset)) (Z.lnot hot_new_combo) = hot_hold.
Proof. vm_compute. (split; [split; discriminate|reflexivity]). Qed.

Section RT.
  Variables (fmt_f64 : F64 -> str) (fmt_f32 : F32 -> str) (fmt_int : Z -> str).
  Hypothesis Hfmt : fmt_ok fmt_f64 fmt_f32 fmt_int.
  Notation rline := (render fmt_f64 fmt_f32 fmt_int).
  Notation xhead := (extras_head fmt_int).
  Notation htext := (head_text fmt_f64 fmt_f32 fmt_int).

  Lemma read_extras_exact nb ab c v f : enum4_ok nb = true -> enum4_ok ab = true -> i32_ok c = true ->
    i32_ok v = true -> memb colon f = false ->
    read_custom_sample_banks sbi_default (split_on colon (xhead nb ab c v ++ f)) false =
    Some (mkSBI (Some f) (opt_bank nb) (match opt_bank ab with Some a => Some a | None => opt_bank nb end) (Z.max 0 v) c).
  Proof.
    intros Hnb Hab Hc Hv Hf. rewrite (split_extras _ _ _ Hfmt nb ab c v f Hf).
    assert (Inb : i32_ok nb = true) by (unfold enum4_ok in Hnb; unfold i32_ok, max_parse_value; lia).
    assert (Iab : i32_ok ab = true) by (unfold enum4_ok in Hab; unfold i32_ok, max_parse_value; lia).
    cbn [read_custom_sample_banks].
    destruct (fmt_int nb) as [|x0 r0] eqn:E0; [exfalso; exact (int_nonempty' _ _ _ Hfmt nb E0)|]. rewrite <- E0.
    rewrite (pn_i32_fmt _ _ _ Hfmt nb Inb), (pn_i32_fmt _ _ _ Hfmt ab Iab). cbn [next].
    rewrite (pn_i32_fmt _ _ _ Hfmt c Hc), (pn_i32_fmt _ _ _ Hfmt v Hv). cbn [omap fst]. reflexivity.
  Qed.

  Theorem circle_line_reread dist mode h c l :
    h_kind h = KCircle c -> object_ok h = true -> object_line dist mode h = Done l ->
    forall st, parse_hit_objects st (rline l) = Done (push st (reread_object st mode h), Ok).
  Proof.
    intros Hk Hok Hl st. unfold object_ok in Hok. rewrite Hk in Hok.
    apply andb_true_iff in Hok. destruct Hok as [Hok Hc]. apply andb_true_iff in Hok. destruct Hok as [Ht Hs].
    apply andb_true_iff in Hc. destruct Hc as [Hc O2]. apply andb_true_iff in Hc. destruct Hc as [Hc O1].
    apply andb_true_iff in Hc. destruct Hc as [Cx Cy].
    unfold object_line in Hl. rewrite Hk in Hl. cbn [obind object_pos app] in Hl. unfold object_pos in Hl.
    rewrite Hk in Hl. inversion Hl; subst l; clear Hl.
    pose proof (extras_vals_ok (h_samples h) mode Hs) as EV. pose proof (render_extras fmt_f64 fmt_f32 fmt_int (h_samples h) mode) as RE.
    destruct (extras_vals (h_samples h) mode) as [[[[nb ab] cu] vo] f] eqn:EVs.
    destruct EV as (E1 & E2 & E3 & E4 & E5 & E6 & E7 & E8).
    set (K := object_type h). set (S := sound_type_of (h_samples h)).
    assert (EL : rline ([TF32 (px (ci_pos c)); t_comma; TF32 (py (ci_pos c)); t_comma; TF64 (h_start h); t_comma;
                         TInt K; t_comma; TInt S; t_comma] ++ sample_bank_toks (h_samples h) false mode)
                 = htext (px (ci_pos c)) (py (ci_pos c)) (h_start h) K S ++ xhead nb ab cu vo ++ f).
    { rewrite render_app, RE. f_equal.
      all: try (unfold render, head_text; cbn [flat_map render_tok t_comma];
                rewrite app_nil_r; unfold comma; repeat (progress (rewrite <- ?app_assoc; cbn [app])); reflexivity). }
    cbn [app] in EL. cbn [app]. rewrite EL. clear EL RE.
    assert (Hoff : 0 <= ci_combo_offset c <= 7) by (split; [apply Z.leb_le; exact O1|apply Z.leb_le; exact O2]).
    pose proof (circle_type_bits (ci_new_combo c) (ci_combo_offset c) Hoff) as HK.
    cbv zeta in HK. replace (Z.lor _ hot_circle) with K in HK by (unfold K, object_type; rewrite Hk; reflexivity).
    destruct HK as (HK & T1 & T2 & T3).
    unfold parse_hit_objects.
    rewrite (parse_header_line _ _ _ Hfmt _ _ _ K S _ f Cx Cy Ht HK (sound_type_range _) (extras_head_safe _ _ _ Hfmt nb ab cu vo) E7 E8).
    unfold parse_kind. cbn [hd_type hd_rest hd_pos hd_new_combo hd_combo_offset hd_sound hd_start].
    rewrite T1, T2, T3. change (has_flag hot_circle hot_circle) with true. cbv iota.
    rewrite split_no_comma by (rewrite memb_app, (extras_head_no_comma _ _ _ Hfmt), E6; reflexivity).
    cbn [next fst read_extras]. change 58 with colon.
    rewrite (read_extras_exact nb ab cu vo f E1 E2 E3 E4 E5).
    rewrite <- (reread_info_vals mode (h_samples h) nb ab cu vo f EVs).
    unfold push, reread_object, reread_kind. rewrite Hk. cbn [h_kind kept_type_of ho_curve ho_vertices ho_objects ho_mode].
    destruct (ci_pos c) as [cx cy]. reflexivity.
  Qed.

  Theorem spinner_line_reread dist mode h s l :
    h_kind h = KSpinner s -> object_ok h = true -> object_line dist mode h = Done l ->
    forall st, parse_hit_objects st (rline l) = Done (push st (reread_object st mode h), Ok).
  Proof.
    intros Hk Hok Hl st. unfold object_ok in Hok. rewrite Hk in Hok.
    apply andb_true_iff in Hok. destruct Hok as [Hok Hc]. apply andb_true_iff in Hok. destruct Hok as [Ht Hs].
    apply andb_true_iff in Hc. destruct Hc as [Hc He]. apply andb_true_iff in Hc. destruct Hc as [Cx Cy].
    unfold object_line in Hl. rewrite Hk in Hl. cbn [obind] in Hl. unfold object_pos in Hl.
    rewrite Hk in Hl. inversion Hl; subst l; clear Hl.
    pose proof (extras_vals_ok (h_samples h) mode Hs) as EV. pose proof (render_extras fmt_f64 fmt_f32 fmt_int (h_samples h) mode) as RE.
    destruct (extras_vals (h_samples h) mode) as [[[[nb ab] cu] vo] f] eqn:EVs.
    destruct EV as (E1 & E2 & E3 & E4 & E5 & E6 & E7 & E8).
    set (K := object_type h). set (S := sound_type_of (h_samples h)). set (E := D.add (h_start h) (sp_duration s)) in *.
    assert (EL : rline ([TF32 (px (sp_pos s)); t_comma; TF32 (py (sp_pos s)); t_comma; TF64 (h_start h); t_comma;
                         TInt K; t_comma; TInt S; t_comma] ++ [TF64 E; t_comma] ++
                        sample_bank_toks (h_samples h) false mode)
                 = htext (px (sp_pos s)) (py (sp_pos s)) (h_start h) K S ++
                   (fmt_f64 E ++ comma :: xhead nb ab cu vo) ++ f).
    { rewrite !render_app, RE. unfold render, head_text. cbn [flat_map render_tok t_comma].
      rewrite !app_nil_r. unfold comma. repeat (progress (rewrite <- ?app_assoc; cbn [app])). reflexivity. }
    cbn [app] in EL |- *. rewrite EL. clear EL RE.
    pose proof (spinner_type_bits (sp_new_combo s)) as HK.
    cbv zeta in HK. replace (Z.lor _ hot_spinner) with K in HK by (unfold K, object_type; rewrite Hk; reflexivity).
    destruct HK as (HK & T1 & T2).
    assert (Rsafe : forallb safec (fmt_f64 E ++ comma :: xhead nb ab cu vo) = true).
    { rewrite forallb_app. cbn [forallb]. rewrite (f64_safe _ _ _ Hfmt), (extras_head_safe _ _ _ Hfmt). reflexivity. }
    unfold parse_hit_objects.
    rewrite (parse_header_line _ _ _ Hfmt _ _ _ K S _ f Cx Cy Ht HK (sound_type_range _) Rsafe E7 E8).
    unfold parse_kind. cbn [hd_type hd_rest hd_pos hd_new_combo hd_combo_offset hd_sound hd_start].
    rewrite T1, T2.
    change (has_flag hot_spinner hot_circle) with false. change (has_flag hot_spinner hot_slider) with false.
    change (has_flag hot_spinner hot_spinner) with true. cbv iota.
    rewrite <- app_assoc. cbn [app].
    rewrite (split_on_field comma (fmt_f64 E)) by (apply (f64_no _ _ _ Hfmt); reflexivity).
    rewrite split_no_comma by (rewrite memb_app, (extras_head_no_comma _ _ _ Hfmt), E6; reflexivity).
    rewrite (pn_f64_fmt _ _ _ Hfmt E He).
    cbn [next fst read_extras]. change 58 with colon.
    rewrite (read_extras_exact nb ab cu vo f E1 E2 E3 E4 E5).
    rewrite <- (reread_info_vals mode (h_samples h) nb ab cu vo f EVs).
    unfold push, reread_object, reread_kind. rewrite Hk. cbn [h_kind kept_type_of ho_curve ho_vertices ho_objects ho_mode].
    reflexivity.
  Qed.

  Theorem hold_line_reread dist mode h hd l :
    h_kind h = KHold hd -> object_ok h = true -> object_line dist mode h = Done l ->
    forall st, parse_hit_objects st (rline l) = Done (push st (reread_object st mode h), Ok).
  Proof.
    intros Hk Hok Hl st. unfold object_ok in Hok. rewrite Hk in Hok.
    apply andb_true_iff in Hok. destruct Hok as [Hok Hc]. apply andb_true_iff in Hok. destruct Hok as [Ht Hs].
    apply andb_true_iff in Hc. destruct Hc as [Cx He].
    unfold object_line in Hl. rewrite Hk in Hl. cbn [obind] in Hl. unfold object_pos in Hl.
    rewrite Hk in Hl. cbn [px py] in Hl. inversion Hl; subst l; clear Hl.
    pose proof (extras_vals_ok (h_samples h) mode Hs) as EV. pose proof (render_extras fmt_f64 fmt_f32 fmt_int (h_samples h) mode) as RE.
    destruct (extras_vals (h_samples h) mode) as [[[[nb ab] cu] vo] f] eqn:EVs.
    destruct EV as (E1 & E2 & E3 & E4 & E5 & E6 & E7 & E8).
    set (K := object_type h). set (S := sound_type_of (h_samples h)). set (E := D.add (h_start h) (hd_duration hd)) in *.
    assert (EL : rline ([TF32 (hd_pos_x hd); t_comma; TF32 f32_192; t_comma; TF64 (h_start h); t_comma;
                         TInt K; t_comma; TInt S; t_comma] ++ [TF64 E; t_colon] ++
                        sample_bank_toks (h_samples h) false mode)
                 = htext (hd_pos_x hd) f32_192 (h_start h) K S ++
                   (fmt_f64 E ++ colon :: xhead nb ab cu vo) ++ f).
    { rewrite !render_app, RE. unfold render, head_text. cbn [flat_map render_tok t_comma t_colon].
      rewrite !app_nil_r. unfold comma, colon. repeat (progress (rewrite <- ?app_assoc; cbn [app])). reflexivity. }
    cbn [app] in EL |- *. rewrite EL. clear EL RE.
    pose proof hold_type_bits as HK.
    replace hot_hold with K in HK at 1 2 3 by (unfold K, object_type; rewrite Hk; reflexivity).
    destruct HK as (HK & T1).
    assert (Rsafe : forallb safec (fmt_f64 E ++ colon :: xhead nb ab cu vo) = true).
    { rewrite forallb_app. cbn [forallb]. rewrite (f64_safe _ _ _ Hfmt), (extras_head_safe _ _ _ Hfmt). reflexivity. }
    unfold parse_hit_objects.
    rewrite (parse_header_line _ _ _ Hfmt _ _ _ K S _ f Cx coord_192 Ht HK (sound_type_range _) Rsafe E7 E8).
    unfold parse_kind. cbn [hd_type hd_rest hd_pos hd_new_combo hd_combo_offset hd_sound hd_start].
    rewrite T1.
    change (has_flag hot_hold hot_circle) with false. change (has_flag hot_hold hot_slider) with false.
    change (has_flag hot_hold hot_spinner) with false. change (has_flag hot_hold hot_hold) with true. cbv iota.
    rewrite <- app_assoc. cbn [app].
    rewrite split_no_comma.
    2:{ rewrite memb_app, memb_cons, memb_app, (extras_head_no_comma _ _ _ Hfmt), E6, (f64_no _ _ _ Hfmt comma) by reflexivity. reflexivity. }
    cbn [next fst].
    assert (NE : forall x : str, x <> [] -> nonempty (Some x) = Some x) by (intros [|? ?] ?; [congruence|reflexivity]).
    rewrite NE by (destruct (fmt_f64 E) eqn:EE; [exact (fun _ => f64_nonempty _ _ _ Hfmt E EE)|discriminate]).
    change 58 with colon.
    rewrite (split_on_field colon (fmt_f64 E)) by (apply (f64_no _ _ _ Hfmt); reflexivity).
    rewrite (pn_f64_fmt _ _ _ Hfmt E He).
    rewrite (read_extras_exact nb ab cu vo f E1 E2 E3 E4 E5).
    rewrite <- (reread_info_vals mode (h_samples h) nb ab cu vo f EVs).
    unfold push, reread_object, reread_kind. rewrite Hk. cbn [h_kind kept_type_of ho_curve ho_vertices ho_objects ho_mode px].
    reflexivity.
  Qed.
End RT.

(* ---------- names, banks and flags survive ---------- *)

Lemma specify_id l : specified_ok l = true -> map specify l = l.
Proof.
  induction l as [|s r IH]; [reflexivity|]. cbn [specified_ok forallb map]. intros H.
  apply andb_true_iff in H. destruct H as [Hs Hr]. fold (specified_ok r) in Hr. rewrite (IH Hr). f_equal.
  destruct s as [n b su v c bs la]. unfold specify. cbn [hs_name hs_bank hs_suffix hs_volume hs_custom hs_bank_specified hs_layered] in *.
  apply Bool.eqb_prop in Hs. rewrite <- Hs. reflexivity.
Qed.

(* names, banks and bank-given flags of a decoded sample list survive the line *)
Theorem reread_carry mode l : samples_image l = true ->
  carry_samples (reread_samples mode l) = carry_samples l.
Proof.
  unfold samples_image. intros H. apply andb_true_iff in H. destruct H as [H1 H2].
  rewrite (reread_carry_shape mode l H1), (specify_id l H2). reflexivity.
Qed.


(* ---------- SamplePoint::apply after the re-read changes nothing that is carried ---------- *)

(* a sample on which SamplePoint::apply leaves name, bank and bank-given flag alone *)
Definition settled (s : HitSampleInfo) : bool :=
  match hs_name s with
  | NDefault _ => hs_bank_specified s
  | NFile _ => (hs_bank s =? sb_normal) && negb (hs_bank_specified s)
  end.

Lemma settled_apply p s : settled s = true -> carry_sample (sp_apply p s) = carry_sample s.
Proof.
  destruct s as [[n|f] b su v c bs la]; unfold settled, sp_apply, carry_sample;
    cbn [hs_name hs_bank hs_suffix hs_volume hs_custom hs_bank_specified hs_layered]; intros H.
  - subst bs. reflexivity.
  - apply andb_true_iff in H. destruct H as [H1 H2]. apply Z.eqb_eq in H1. apply negb_true_iff in H2. subst. reflexivity.
Qed.

Lemma settled_carry s : settled (carry_sample s) = settled s.
Proof. destruct s as [[n|f] b su v c bs la]; reflexivity. Qed.

Lemma adds_shape_default T ab r : adds_shape T ab r = true -> forallb is_default_name r = true.
Proof.
  revert r. induction T as [|n T IH]; intros r H.
  - destruct r; [reflexivity|discriminate].
  - destruct r as [|s r]; [reflexivity|]. cbn [adds_shape] in H.
    destruct (is_named n s) eqn:E.
    + apply andb_true_iff in H. destruct H as [_ H]. cbn [forallb]. rewrite (IH r H), andb_true_r.
      unfold is_named in E. unfold is_default_name. destruct (hs_name s); [reflexivity|discriminate].
    + exact (IH _ H).
Qed.

Lemma shape_settled l : samples_shape l = true -> forallb settled (map specify l) = true.
Proof.
  destruct l as [|h r]; [discriminate|]. cbn [samples_shape]. intros H.
  apply andb_true_iff in H. destruct H as [Hh Hr]. cbn [map forallb]. apply andb_true_intro. split.
  - destruct h as [[n|[|c f]] b su v c0 bs la]; unfold head_shape in Hh; cbn [hs_name hs_bank] in Hh; try discriminate.
    + reflexivity.
    + unfold settled, specify. cbn [hs_name hs_bank hs_bank_specified is_default_name]. rewrite Hh. reflexivity.
  - assert (Hd : forallb is_default_name r = true).
    { destruct r as [|a r']; [reflexivity|]. apply andb_true_iff in Hr. destruct Hr as [_ Hr]. exact (adds_shape_default _ _ _ Hr). }
    clear Hr Hh. induction r as [|s r IH]; [reflexivity|]. cbn [forallb map] in *.
    apply andb_true_iff in Hd. destruct Hd as [H1 H2]. rewrite (IH H2), andb_true_r.
    unfold settled, specify. cbn [hs_name hs_bank_specified]. unfold is_default_name in *. destruct (hs_name s); [reflexivity|discriminate].
Qed.

Lemma forallb_settled_carry l : forallb settled (carry_samples l) = forallb settled l.
Proof. induction l as [|s r IH]; [reflexivity|]. cbn [carry_samples map forallb]. fold (carry_samples r). rewrite IH, settled_carry. reflexivity. Qed.

Lemma settled_apply_all p l : forallb settled l = true -> carry_samples (map (sp_apply p) l) = carry_samples l.
Proof.
  induction l as [|s r IH]; [reflexivity|]. cbn [forallb map carry_samples]. intros H.
  apply andb_true_iff in H. destruct H as [H1 H2]. fold (carry_samples r). fold (carry_samples (map (sp_apply p) r)).
  rewrite (IH H2), (settled_apply p s H1). reflexivity.
Qed.

(* map level: the second decode applies some sample point [p] to the re-read list; names, banks
   and bank-given flags are still those of the written list *)
Theorem reread_apply_carry mode p l : samples_image l = true ->
  carry_samples (map (sp_apply p) (reread_samples mode l)) = carry_samples l.
Proof.
  intros H. pose proof H as H'. unfold samples_image in H'. apply andb_true_iff in H'. destruct H' as [H1 H2].
  assert (S : forallb settled (reread_samples mode l) = true).
  { rewrite <- forallb_settled_carry, (reread_carry_shape mode l H1), forallb_settled_carry. exact (shape_settled l H1). }
  rewrite (settled_apply_all p _ S). exact (reread_carry mode l H).
Qed.

(* ---------- SamplePoint::apply on the decoder's own lists: the map-level image ---------- *)

(* the sample list of an object as parse_hit_objects leaves it *)
Definition raw_samples (l : list HitSampleInfo) : Prop :=
  exists b st, bank_info_ok b = true /\ l = convert_sound_type b st.

Lemma sample_point_in c t p : sample_point_at c t = Some p -> In p (cp_sample c).
Proof.
  unfold sample_point_at, at_first. destruct (search sp_time (cp_sample c) t); intros H; exact (nth_error_In _ _ H).
Qed.

(* the per-object step of the map-level processing (MapLevel.process_object): if every sample
   point has a real bank (the decoder replaces None by Normal), the processed object's sample
   list is in [samples_image] *)
Theorem processed_object_image dist c sm mode h h' :
  raw_samples (h_samples h) ->
  (forall p, In p (cp_sample c) -> bank13 (sp_bank p) = true) ->
  process_object dist c sm mode h = Done h' ->
  samples_image (h_samples h') = true.
Proof.
  intros (b & st & Hb & E) Hc H. unfold process_object in H.
  destruct (match h_kind h with KSlider _ => _ | _ => _ end) as [[kind et]| |]; try discriminate.
  cbn [obind] in H. inversion H; subst. cbn [h_samples]. rewrite E.
  apply processed_samples_image; [exact Hb|].
  unfold sample_point_or_default. destruct (sample_point_at c _) as [p|] eqn:Ep; [|reflexivity].
  exact (Hc p (sample_point_in _ _ _ Ep)).
Qed.


(* ---------- the decoder image, line level ---------- *)

Lemma banks_spec_ok b fields bo b' :
  bank_info_ok b = true -> banks_spec b fields bo = Some b' -> bank_info_ok b' = true.
Proof.
  intros Hb H. unfold banks_spec in H.
  destruct (nth_error fields 0) as [[|c0 f0]|]; try (inversion H; subst; exact Hb).
  destruct (pn_i32 (c0 :: f0)) as [n|]; [|discriminate].
  destruct (obnd (nth_error fields 1) pn_i32) as [a|]; [|discriminate].
  change (bank_opt n) with (opt_bank n) in H. change (bank_opt a) with (opt_bank a) in H.
  assert (G : opt_bank13 (opt_bank n) && opt_bank13 (match opt_bank a with Some x => Some x | None => opt_bank n end) = true).
  { rewrite opt_bank_ok. pose proof (opt_bank_ok a) as Ha. destruct (opt_bank a); [exact Ha|apply opt_bank_ok]. }
  destruct bo; [inversion H; subst; exact G|].
  destruct (match nth_error fields 2 with Some s => pn_i32 s | None => Some (sbi_custom b) end); [|discriminate].
  destruct (match nth_error fields 3 with Some s => omap (Z.max 0) (pn_i32 s) | None => Some (sbi_volume b) end); [|discriminate].
  inversion H; subst. exact G.
Qed.

Lemma slider_pre_bank_ok sound rest pre :
  parse_slider_pre sound rest = Done (Some pre) -> bank_info_ok (spre_bank pre) = true.
Proof.
  rewrite parse_slider_pre_spec. intros H. inversion H as [H1]. clear H. unfold slider_fields_spec in H1.
  destruct (nth_error rest 0); [|discriminate].
  destruct (obnd (nth_error rest 1) pn_i32); [|discriminate].
  destruct (repeat_cap <? z); [discriminate|].
  destruct (length_spec (nth_error rest 2)); [|discriminate].
  destruct (match nth_error rest 5 with Some s0 => banks_spec sbi_default (split_on 58 s0) true | None => Some sbi_default end) as [bank|] eqn:E; [|discriminate].
  destruct (node_samples_spec _ _ _ _ _); [|discriminate]. cbn [omap] in H1. inversion H1; subst. cbn [spre_bank].
  destruct (nth_error rest 5); [exact (banks_spec_ok _ _ _ _ sbi_default_ok E)|inversion E; subst; reflexivity].
Qed.

Lemma read_extras_bank_ok o b : read_extras o sbi_default = Some b -> bank_info_ok b = true.
Proof.
  destruct o as [s|]; cbn [read_extras]; intros H; [exact (read_banks_ok _ _ _ _ sbi_default_ok H)|inversion H; reflexivity].
Qed.

Lemma f32_eqb_refl x : f32_eqb x x = true.
Proof.
  unfold f32_eqb, sf_eqb. destruct (B2SF x) as [s|s| |s m e]; try reflexivity; try (destruct s; reflexivity).
  rewrite Bool.eqb_reflx, Pos.eqb_refl, Z.eqb_refl. reflexivity.
Qed.

(* what parse_kind can produce *)
Lemma parse_kind_image st hd st1 kind bank :
  parse_kind st hd = Done (st1, Some (kind, bank)) ->
  ho_objects st1 = ho_objects st /\ kind_image kind = true /\ bank_info_ok bank = true.
Proof.
  unfold parse_kind. intros H.
  destruct (has_flag (hd_type hd) hot_circle).
  { destruct (read_extras _ _) as [b|] eqn:E; inversion H; subst. repeat split; [|exact (read_extras_bank_ok _ _ E)].
    unfold kind_image, circle_image, forced_new_combo. cbn [ci_new_combo ci_combo_offset].
    destruct (hd_new_combo hd); [rewrite orb_true_r; reflexivity|]. cbn [Z.eqb]. apply orb_true_r. }
  destruct (has_flag (hd_type hd) hot_slider).
  { destruct (parse_slider_pre (hd_sound hd) (hd_rest hd)) as [[pre|]| |] eqn:E; try discriminate.
    destruct (convert_path_str _ _ _) as [[pb [|]]| |]; inversion H; subst.
    repeat split. exact (slider_pre_bank_ok _ _ _ E). }
  destruct (has_flag (hd_type hd) hot_spinner).
  { destruct (hd_rest hd) as [|d r1]; [discriminate|]. destruct (pn_f64 d); [|discriminate].
    destruct (read_extras _ _) as [b|] eqn:E; inversion H; subst. refine (conj eq_refl (conj _ (read_extras_bank_ok _ _ E))).
    unfold kind_image. cbn [sp_pos]. rewrite !f32_eqb_refl. reflexivity. }
  destruct (has_flag (hd_type hd) hot_hold); [|discriminate].
  destruct (nonempty _) as [s|]; [|inversion H; subst; repeat split].
  destruct (split_on 58 s) as [|e ss]; [discriminate|]. destruct (pn_f64 e); [|discriminate].
  destruct (read_custom_sample_banks sbi_default ss false) as [b|] eqn:E; inversion H; subst.
  repeat split. exact (read_banks_ok _ _ _ _ sbi_default_ok E).
Qed.

Lemma parse_kind_rejected_objects st hd st1 :
  parse_kind st hd = Done (st1, None) -> ho_objects st1 = ho_objects st.
Proof.
  unfold parse_kind. intros H.
  destruct (has_flag (hd_type hd) hot_circle).
  { destruct (read_extras _ _); inversion H; subst; reflexivity. }
  destruct (has_flag (hd_type hd) hot_slider).
  { destruct (parse_slider_pre (hd_sound hd) (hd_rest hd)) as [[pre|]| |]; try discriminate; [|inversion H; subst; reflexivity].
    destruct (convert_path_str _ _ _) as [[pb [|]]| |]; inversion H; subst. reflexivity. }
  destruct (has_flag (hd_type hd) hot_spinner).
  { destruct (hd_rest hd) as [|d r1]; [inversion H; subst; reflexivity|]. destruct (pn_f64 d); [|inversion H; subst; reflexivity].
    destruct (read_extras _ _); inversion H; subst; reflexivity. }
  destruct (has_flag (hd_type hd) hot_hold); [|inversion H; subst; reflexivity].
  destruct (nonempty _) as [s|]; [|discriminate].
  destruct (split_on 58 s) as [|e ss]; [inversion H; subst; reflexivity|]. destruct (pn_f64 e); [|inversion H; subst; reflexivity].
  destruct (read_custom_sample_banks sbi_default ss false); inversion H; subst; reflexivity.
Qed.

(* the decoder image, line level: an invariant of parse_hit_objects for EVERY line (slider lines
   included): every object in the state has a sample list built by convert_sound_type from a
   SampleBankInfo without a None bank, circles carry a combo offset only next to the new-combo
   flag, spinners sit at the fixed centre *)
Definition line_inv (h : HitObject) : Prop := kind_image (h_kind h) = true /\ raw_samples (h_samples h).

Lemma line_inv_image h : line_inv h -> line_image h = true.
Proof.
  intros (Hk & b & st & Hb & E). unfold line_image. rewrite Hk, E, (convert_samples_shape _ _ Hb). reflexivity.
Qed.

Theorem parse_line_inv st line st' r :
  Forall line_inv (ho_objects st) ->
  parse_hit_objects st line = Done (st', r) ->
  Forall line_inv (ho_objects st').
Proof.
  intros Hst H. unfold parse_hit_objects in H.
  destruct (parse_header line) as [hd|]; [|inversion H; subst; exact Hst].
  destruct (parse_kind st hd) as [[st1 [[kind bank]|]]| |] eqn:E; try discriminate.
  - destruct (parse_kind_image _ _ _ _ _ E) as (Ho & Hk & Hb). inversion H; subst. cbn [ho_objects].
    rewrite Ho. apply Forall_app. split; [exact Hst|]. constructor; [|constructor].
    split; [exact Hk|]. exists bank, (hd_sound hd). split; [exact Hb|reflexivity].
  - inversion H; subst. rewrite (parse_kind_rejected_objects _ _ _ E). exact Hst.
Qed.

Theorem parse_line_image st line st' r :
  Forall line_inv (ho_objects st) ->
  parse_hit_objects st line = Done (st', r) ->
  Forall (fun h => line_image h = true) (ho_objects st').
Proof.
  intros Hst H. pose proof (parse_line_inv st line st' r Hst H) as G.
  apply Forall_forall. intros h Hh. rewrite Forall_forall in G. exact (line_inv_image h (G h Hh)).
Qed.

(* the break post-processing only sets new-combo flags: the invariant survives *)
Lemma force_new_combo_inv h f : line_inv h -> line_inv (force_new_combo h f).
Proof.
  intros (Hk & Hs). unfold force_new_combo. destruct (h_kind h) as [c|s|s|hd] eqn:E.
  - split; [|exact Hs]. cbn [h_kind]. unfold kind_image, circle_image in *. cbn [ci_new_combo ci_combo_offset].
    destruct (ci_new_combo c); [reflexivity|]. cbn [orb] in Hk. rewrite Hk. apply orb_true_r.
  - split; [reflexivity|exact Hs].
  - split; [exact Hk|exact Hs].
  - split; [rewrite E; exact Hk|exact Hs].
Qed.

(* the per-object step of the map-level processing: kind clause kept, samples in [samples_image] *)
Theorem processed_object_inv dist c sm mode h h' :
  line_inv h ->
  (forall p, In p (cp_sample c) -> bank13 (sp_bank p) = true) ->
  process_object dist c sm mode h = Done h' ->
  kind_image (h_kind h') = true /\ samples_image (h_samples h') = true.
Proof.
  intros (Hk & Hs) Hc H. split; [|exact (processed_object_image dist c sm mode h h' Hs Hc H)].
  unfold process_object in H.
  destruct (h_kind h) as [ci|s|s|hd] eqn:E; cbn [obind] in H.
  - inversion H; subst. exact Hk.
  - destruct (difficulty_point_at c (h_start h)) as [dp| |]; try discriminate. cbn [obind] in H.
    destruct (slider_duration _ _) as [d| |]; try discriminate. cbn [obind] in H. inversion H; subst. reflexivity.
  - inversion H; subst. exact Hk.
  - inversion H; subst. exact Hk.
Qed.

(* ---------- the round trip ---------- *)

Section RT2.
  Variables (fmt_f64 : F64 -> str) (fmt_f32 : F32 -> str) (fmt_int : Z -> str).
  Hypothesis Hfmt : fmt_ok fmt_f64 fmt_f32 fmt_int.
  Notation rline := (render fmt_f64 fmt_f32 fmt_int).

  (* the three kinds at once: the exact re-read *)
  Theorem object_line_reread dist mode h l :
    object_ok h = true -> object_line dist mode h = Done l ->
    forall st, parse_hit_objects st (rline l) = Done (push st (reread_object st mode h), Ok).
  Proof.
    intros Hok Hl. destruct (h_kind h) as [c|s|s|hd] eqn:Hk.
    - exact (circle_line_reread _ _ _ Hfmt dist mode h c l Hk Hok Hl).
    - unfold object_ok in Hok. rewrite Hk, andb_false_r in Hok. discriminate.
    - exact (spinner_line_reread _ _ _ Hfmt dist mode h s l Hk Hok Hl).
    - exact (hold_line_reread _ _ _ Hfmt dist mode h hd l Hk Hok Hl).
  Qed.

  Theorem circle_line_round_trip dist mode h c l :
    h_kind h = KCircle c -> object_ok h = true -> samples_image (h_samples h) = true ->
    object_line dist mode h = Done l ->
    forall st, exists st' o,
      parse_hit_objects st (rline l) = Done (st', Ok) /\ st' = push st o /\
      ho_objects st' = ho_objects st ++ [o] /\
      carry_object o =
        carry_object (mkHObj (h_start h)
                             (KCircle (mkCircle (ci_pos c) (forced_new_combo st (ci_new_combo c))
                                                (if ci_new_combo c then ci_combo_offset c else 0)))
                             (h_samples h)) /\
      (combo_kept st c = true -> carry_object o = carry_object h).
  Proof.
    intros Hk Hok Hs Hl st. exists (push st (reread_object st mode h)), (reread_object st mode h).
    split; [exact (circle_line_reread _ _ _ Hfmt dist mode h c l Hk Hok Hl st)|].
    split; [reflexivity|]. split; [reflexivity|].
    assert (E : carry_object (reread_object st mode h) =
                carry_object (mkHObj (h_start h)
                             (KCircle (mkCircle (ci_pos c) (forced_new_combo st (ci_new_combo c))
                                                (if ci_new_combo c then ci_combo_offset c else 0)))
                             (h_samples h))).
    { unfold carry_object, reread_object, reread_kind. rewrite Hk. cbn [h_start h_kind h_samples carry_kind].
      rewrite (reread_carry mode _ Hs). reflexivity. }
    split; [exact E|]. intros Hc. rewrite E. unfold carry_object. cbn [h_start h_kind h_samples]. rewrite Hk.
    unfold combo_kept, circle_image in Hc. apply andb_true_iff in Hc. destruct Hc as [H1 H2].
    destruct c as [p nc off]. cbn [ci_new_combo ci_combo_offset ci_pos] in *. unfold forced_new_combo.
    destruct nc.
    - rewrite orb_true_r. reflexivity.
    - cbn [orb] in H1, H2. apply negb_true_iff in H1. rewrite H1. apply Z.eqb_eq in H2. subst off. reflexivity.
  Qed.

  Theorem spinner_line_round_trip dist mode h s l :
    h_kind h = KSpinner s -> object_ok h = true -> samples_image (h_samples h) = true ->
    spinner_time_ok (h_start h) (sp_duration s) ->
    object_line dist mode h = Done l ->
    forall st, exists st' o,
      parse_hit_objects st (rline l) = Done (st', Ok) /\ st' = push st o /\
      ho_objects st' = ho_objects st ++ [o] /\
      carry_object o = carry_object h.
  Proof.
    intros Hk Hok Hs Ht Hl st. exists (push st (reread_object st mode h)), (reread_object st mode h).
    split; [exact (spinner_line_reread _ _ _ Hfmt dist mode h s l Hk Hok Hl st)|].
    split; [reflexivity|]. split; [reflexivity|].
    unfold carry_object, reread_object, reread_kind. rewrite Hk. cbn [h_start h_kind h_samples carry_kind sp_duration sp_new_combo].
    unfold spinner_time_ok in Ht. rewrite Ht, (reread_carry mode _ Hs). reflexivity.
  Qed.

  Theorem hold_line_round_trip dist mode h hd l :
    h_kind h = KHold hd -> object_ok h = true -> samples_image (h_samples h) = true ->
    hold_time_ok (h_start h) (hd_duration hd) ->
    object_line dist mode h = Done l ->
    forall st, exists st' o,
      parse_hit_objects st (rline l) = Done (st', Ok) /\ st' = push st o /\
      ho_objects st' = ho_objects st ++ [o] /\
      carry_object o = carry_object h.
  Proof.
    intros Hk Hok Hs Ht Hl st. exists (push st (reread_object st mode h)), (reread_object st mode h).
    split; [exact (hold_line_reread _ _ _ Hfmt dist mode h hd l Hk Hok Hl st)|].
    split; [reflexivity|]. split; [reflexivity|].
    unfold carry_object, reread_object, reread_kind. rewrite Hk. cbn [h_start h_kind h_samples carry_kind].
    unfold hold_time_ok in Ht. rewrite Ht, (reread_carry mode _ Hs). destruct hd. reflexivity.
  Qed.
End RT2.

Lemma line_inv_create mode : Forall line_inv (ho_objects (ho_create mode)).
Proof. constructor. Qed.

(* ---------- non-vacuity: decoded objects (map level: sorted, post-processed, sample points
   applied) satisfy every hypothesis of the three theorems, and the conclusion is checked on
   dumps with the reference printer ---------- *)

(* [spinner_time_ok] / [hold_time_ok] on bit patterns *)
Definition time_check (h : HitObject) : bool :=
  match h_kind h with
  | KSpinner s => D.bits (f64_max_lit (D.sub (D.add (h_start h) (sp_duration s)) (h_start h)) D.zero) =? D.bits (sp_duration s)
  | KHold hd => D.bits (D.sub (D.max (h_start h) (D.add (h_start h) (hd_duration hd))) (h_start h)) =? D.bits (hd_duration hd)
  | _ => true
  end.

(* one object: encode, render with the reference printer, parse from the state [st]; dump of the carried objects of the new state *)
Definition reparse (st : HOState) (mode : Z) (h : HitObject) : list Z :=
  match object_line stub_dist mode h with
  | Done l =>
      match parse_hit_objects st (render wit_f64 wit_f32 dec_int l) with
      | Done (st', Ok) => flat_map (fun o => dump_object (carry_object o)) (ho_objects st')
      | _ => [-1]
      end
  | _ => [-2]
  end.

(* a state in which an object has been read that was not a spinner *)
Definition st_mid (mode : Z) : HOState := mkHO (Some hot_circle) [] [] [] mode.

Definition rt_text : str :=
  join_lines ["osu file format v14"; "[General]"; "Mode: 0"; "[TimingPoints]"; "0,500,4,2,1,60,1,0";
              "[HitObjects]";
              "64,192,1000,1,14,0:0:0:0:";            (* all additions, banks from the sample point *)
              "64,192,1100,1,10,2:0:5:70:a.wav";      (* file + whistle + clap, addition bank falls back to Soft *)
              "64,192,1200,37,6,0:3:0:0:";            (* new combo, offset 2, finish + whistle in Drum *)
              "64,192,1300,1,3,1:2:7:30:";            (* normal bit set *)
              "256,192,1400,12,4,2400,3:1:0:0:";      (* spinner *)
              "100,192,2500,128,8,3000:0:2:0:0:b.wav" (* hold *)]%string.

Example decoded_objects_round_trip :
  match decode_beatmap stub_dist (lines_of_text rt_text) with
  | Done m =>
      let objs := hov_hit_objects (bmv_ho m) in
      let mode := g_mode (hov_general (bmv_ho m)) in
      map (fun h => kind_tag (h_kind h)) objs = [0; 0; 0; 0; 2; 3] /\
      forallb object_ok objs = true /\
      forallb (fun h => samples_image (h_samples h)) objs = true /\
      forallb (fun h => kind_image (h_kind h)) objs = true /\
      forallb time_check objs = true /\
      map (fun h => Z.of_nat (length (h_samples h))) objs = [4; 3; 3; 2; 2; 2] /\
      (* the hypotheses hold, and so does the conclusion: *)
      map (reparse (st_mid mode) mode) (tl objs) = map (fun h => dump_object (carry_object h)) (tl objs) /\
      map (reparse (ho_create mode) mode) (firstn 1 objs) = map (fun h => dump_object (carry_object h)) (firstn 1 objs)
  | _ => False
  end.
Proof. vm_compute. repeat split; reflexivity. Qed.

(* inside a sequence of lines: after an accepted circle / spinner / hold line the state forces a
   new combo exactly when that object was a spinner *)
Lemma combo_kept_push st o c :
  combo_kept (push st o) c =
  (ci_new_combo c || negb (match h_kind o with KSpinner _ => true | _ => false end)) && circle_image c.
Proof. unfold combo_kept, push, first_object, last_object_was_spinner. cbn [ho_last]. destruct (h_kind o); reflexivity. Qed.

(* ---------- the end time can leave the parse limit by rounding: the line is then REJECTED ---------- *)

(* an object that satisfies everything of [object_ok] except that start + duration, though
   finite, is outside the parse limits *)
Definition end_beyond_limit (h : HitObject) : bool :=
  in_lim64 (h_start h) && forallb sample_ok (h_samples h) &&
  match h_kind h with
  | KSpinner s => coord_ok (px (sp_pos s)) && coord_ok (py (sp_pos s)) &&
                  is_finite (D.add (h_start h) (sp_duration s)) && negb (in_lim64 (D.add (h_start h) (sp_duration s)))
  | KHold hd => coord_ok (hd_pos_x hd) &&
                is_finite (D.add (h_start h) (hd_duration hd)) && negb (in_lim64 (D.add (h_start h) (hd_duration hd)))
  | _ => false
  end.

Section Beyond.
  Variables (fmt_f64 : F64 -> str) (fmt_f32 : F32 -> str) (fmt_int : Z -> str).
  Hypothesis Hfmt : fmt_ok fmt_f64 fmt_f32 fmt_int.
  Notation rline := (render fmt_f64 fmt_f32 fmt_int).
  Notation xhead := (extras_head fmt_int).
  Notation htext := (head_text fmt_f64 fmt_f32 fmt_int).

  Lemma pn_f64_fmt_beyond x : is_finite x = true -> in_lim64 x = false -> pn_f64 (fmt_f64 x) = None.
  Proof.
    intros Hf Hl. destruct (pn_f64 (fmt_f64 x)) as [y|] eqn:E; [|reflexivity]. exfalso.
    apply pn_f64_spec in E. destruct E as (E1 & E2 & E3 & E4).
    rewrite (plain_trim _ (f64_chars _ _ _ Hfmt x)), (f64_parse _ _ _ Hfmt x Hf) in E1. inversion E1; subst y.
    unfold in_lim64 in Hl. change lim64 with f64_limit in Hl. rewrite E2, E3, E4 in Hl. discriminate.
  Qed.

  Theorem end_beyond_limit_rejected dist mode h l :
    end_beyond_limit h = true -> object_line dist mode h = Done l ->
    forall st, parse_hit_objects st (rline l) = Done (st, Rejected).
  Proof.
    intros Hb Hl st. unfold end_beyond_limit in Hb.
    apply andb_true_iff in Hb. destruct Hb as [Hb Hc]. apply andb_true_iff in Hb. destruct Hb as [Ht Hs].
    pose proof (extras_vals_ok (h_samples h) mode Hs) as EV.
    pose proof (render_extras fmt_f64 fmt_f32 fmt_int (h_samples h) mode) as RE.
    destruct (extras_vals (h_samples h) mode) as [[[[nb ab] cu] vo] f] eqn:EVs.
    destruct EV as (E1 & E2 & E3 & E4 & E5 & E6 & E7 & E8).
    destruct (h_kind h) as [c|sl|s|hd] eqn:Hk; try discriminate.
    - (* spinner *)
      apply andb_true_iff in Hc. destruct Hc as [Hc He]. apply andb_true_iff in Hc. destruct Hc as [Hc Hfin].
      apply andb_true_iff in Hc. destruct Hc as [Cx Cy]. apply negb_true_iff in He.
      unfold object_line in Hl. rewrite Hk in Hl. cbn [obind] in Hl. unfold object_pos in Hl.
      rewrite Hk in Hl. inversion Hl; subst l; clear Hl.
      set (K := object_type h). set (S := sound_type_of (h_samples h)). set (E := D.add (h_start h) (sp_duration s)) in *.
      assert (EL : rline ([TF32 (px (sp_pos s)); t_comma; TF32 (py (sp_pos s)); t_comma; TF64 (h_start h); t_comma;
                           TInt K; t_comma; TInt S; t_comma] ++ [TF64 E; t_comma] ++
                          sample_bank_toks (h_samples h) false mode)
                   = htext (px (sp_pos s)) (py (sp_pos s)) (h_start h) K S ++
                     (fmt_f64 E ++ comma :: xhead nb ab cu vo) ++ f).
      { rewrite !render_app, RE. unfold render, head_text. cbn [flat_map render_tok t_comma].
        rewrite !app_nil_r. unfold comma. repeat (progress (rewrite <- ?app_assoc; cbn [app])). reflexivity. }
      cbn [app] in EL |- *. rewrite EL. clear EL RE.
      pose proof (spinner_type_bits (sp_new_combo s)) as HK.
      cbv zeta in HK. replace (Z.lor _ hot_spinner) with K in HK by (unfold K, object_type; rewrite Hk; reflexivity).
      destruct HK as (HK & T1 & T2).
      assert (Rsafe : forallb safec (fmt_f64 E ++ comma :: xhead nb ab cu vo) = true).
      { rewrite forallb_app. cbn [forallb]. rewrite (f64_safe _ _ _ Hfmt), (extras_head_safe _ _ _ Hfmt). reflexivity. }
      unfold parse_hit_objects.
      rewrite (parse_header_line _ _ _ Hfmt _ _ _ K S _ f Cx Cy Ht HK (sound_type_range _) Rsafe E7 E8).
      unfold parse_kind. cbn [hd_type hd_rest hd_pos hd_new_combo hd_combo_offset hd_sound hd_start].
      rewrite T1.
      change (has_flag hot_spinner hot_circle) with false. change (has_flag hot_spinner hot_slider) with false.
      change (has_flag hot_spinner hot_spinner) with true. cbv iota.
      rewrite <- app_assoc. cbn [app].
      rewrite (split_on_field comma (fmt_f64 E)) by (apply (f64_no _ _ _ Hfmt); reflexivity).
      rewrite (pn_f64_fmt_beyond E Hfin He). reflexivity.
    - (* hold *)
      apply andb_true_iff in Hc. destruct Hc as [Hc He]. apply andb_true_iff in Hc. destruct Hc as [Cx Hfin].
      apply negb_true_iff in He.
      unfold object_line in Hl. rewrite Hk in Hl. cbn [obind] in Hl. unfold object_pos in Hl.
      rewrite Hk in Hl. cbn [px py] in Hl. inversion Hl; subst l; clear Hl.
      set (K := object_type h). set (S := sound_type_of (h_samples h)). set (E := D.add (h_start h) (hd_duration hd)) in *.
      assert (EL : rline ([TF32 (hd_pos_x hd); t_comma; TF32 f32_192; t_comma; TF64 (h_start h); t_comma;
                           TInt K; t_comma; TInt S; t_comma] ++ [TF64 E; t_colon] ++
                          sample_bank_toks (h_samples h) false mode)
                   = htext (hd_pos_x hd) f32_192 (h_start h) K S ++
                     (fmt_f64 E ++ colon :: xhead nb ab cu vo) ++ f).
      { rewrite !render_app, RE. unfold render, head_text. cbn [flat_map render_tok t_comma t_colon].
        rewrite !app_nil_r. unfold comma, colon. repeat (progress (rewrite <- ?app_assoc; cbn [app])). reflexivity. }
      cbn [app] in EL |- *. rewrite EL. clear EL RE.
      pose proof hold_type_bits as HK.
      replace hot_hold with K in HK at 1 2 3 by (unfold K, object_type; rewrite Hk; reflexivity).
      destruct HK as (HK & T1).
      assert (Rsafe : forallb safec (fmt_f64 E ++ colon :: xhead nb ab cu vo) = true).
      { rewrite forallb_app. cbn [forallb]. rewrite (f64_safe _ _ _ Hfmt), (extras_head_safe _ _ _ Hfmt). reflexivity. }
      unfold parse_hit_objects.
      rewrite (parse_header_line _ _ _ Hfmt _ _ _ K S _ f Cx coord_192 Ht HK (sound_type_range _) Rsafe E7 E8).
      unfold parse_kind. cbn [hd_type hd_rest hd_pos hd_new_combo hd_combo_offset hd_sound hd_start].
      rewrite T1.
      change (has_flag hot_hold hot_circle) with false. change (has_flag hot_hold hot_slider) with false.
      change (has_flag hot_hold hot_spinner) with false. change (has_flag hot_hold hot_hold) with true. cbv iota.
      rewrite <- app_assoc. cbn [app].
      rewrite split_no_comma.
      2:{ rewrite memb_app, memb_cons, memb_app, (extras_head_no_comma _ _ _ Hfmt), E6, (f64_no _ _ _ Hfmt comma) by reflexivity. reflexivity. }
      cbn [next fst].
      assert (NE : forall x : str, x <> [] -> nonempty (Some x) = Some x) by (intros [|? ?] ?; [congruence|reflexivity]).
      rewrite NE by (destruct (fmt_f64 E) eqn:EE; [exact (fun _ => f64_nonempty _ _ _ Hfmt E EE)|discriminate]).
      change 58 with colon.
      rewrite (split_on_field colon (fmt_f64 E)) by (apply (f64_no _ _ _ Hfmt); reflexivity).
      rewrite (pn_f64_fmt_beyond E Hfin He). reflexivity.
  Qed.
End Beyond.

(* the decoder's image contains such objects: a spinner / a hold that ends at the parse limit
   and starts at a negative non-integer time: fl(start + fl(end - start)) = 2147483647.0000002 *)
Definition beyond_text : str :=
  join_lines ["osu file format v14"; "[HitObjects]";
              "256,192,-3112.53,12,0,2147483647,0:0:0:0:";
              "100,192,-3112.53,128,0,2147483647:0:0:0:0:"]%string.

Lemma beyond_witness :
  match decode_beatmap stub_dist (lines_of_text beyond_text) with
  | Done m => map end_beyond_limit (hov_hit_objects (bmv_ho m)) = [true; true] /\
              map (fun h => kind_tag (h_kind h)) (hov_hit_objects (bmv_ho m)) = [2; 3]
  | _ => False
  end.
Proof. vm_compute. split; reflexivity. Qed.

(* T02b / T04b on the decoder's image, REFUTED: the two decoded objects of [beyond_text] are
   written as lines that parse_hit_objects rejects, in every parser state and for every
   formatting function satisfying [fmt_ok]: the objects are lost by decode -> encode -> decode *)
Theorem decoded_end_beyond_limit_refuted :
  exists text m, decode_beatmap stub_dist (lines_of_text text) = Done m /\
  hov_hit_objects (bmv_ho m) <> [] /\
  forall fmt_f64 fmt_f32 fmt_int, fmt_ok fmt_f64 fmt_f32 fmt_int ->
  forall h, In h (hov_hit_objects (bmv_ho m)) ->
  forall dist mode l, object_line dist mode h = Done l ->
  forall st, parse_hit_objects st (render fmt_f64 fmt_f32 fmt_int l) = Done (st, Rejected).
Proof.
  exists beyond_text. pose proof beyond_witness as W.
  destruct (decode_beatmap stub_dist (lines_of_text beyond_text)) as [m| |]; try contradiction.
  exists m. destruct W as [W _]. split; [reflexivity|]. split.
  - destruct (hov_hit_objects (bmv_ho m)); discriminate.
  - intros f64 f32 fi Hfmt h Hin dist mode l Hl st.
    apply (end_beyond_limit_rejected f64 f32 fi Hfmt dist mode h l); [|exact Hl].
    assert (G : forall l0 : list HitObject, forallb end_beyond_limit l0 = true -> In h l0 -> end_beyond_limit h = true).
    { intros l0 H0 Hi. rewrite forallb_forall in H0. exact (H0 h Hi). }
    apply (G (hov_hit_objects (bmv_ho m))); [|exact Hin].
    clear - W. destruct (hov_hit_objects (bmv_ho m)) as [|x [|y [|z r]]]; try discriminate W.
    cbn [map] in W. injection W as H1 H2. cbn [forallb]. rewrite H1, H2. reflexivity.
Qed.

(* ---------- status of T02b ----------
   FULL intended statement:
     for every decoded map m (chronological input), every circle / spinner / hold h among its
     hit objects, every line l with object_line dist (mode m) h = Done l, and the parser state st
     reached on the preceding encoded lines:
       parse_hit_objects st (render l) = Done (push st o, Ok)  with  carry_object o = carry_object h.
   PROVED here, for every parser state and every formatting function with [fmt_ok]:
     - the statement under the explicit hypotheses  object_ok h,  samples_image (h_samples h),
       spinner_time_ok / hold_time_ok,  combo_kept st c   ([*_line_round_trip]); without the last
       three the object that is read is still given exactly ([object_line_reread]);
     - on the decoder's image: samples_image (processed_object_inv, for sample points with a real
       bank), circle_image and the spinner centre (parse_line_inv, force_new_combo_inv,
       processed_object_inv), combo_kept inside a sequence (combo_kept_push);
     - spinner_time_ok / hold_time_ok for integer-valued times (decoded_times_ok_partial).
   NOT proved: object_ok on the decoder's image -- and it is FALSE there: start + duration can
   leave the parse limit by rounding (decoded_end_beyond_limit_refuted: the object is lost);
   the two time conditions for non-integer times; "every sample point has a real bank" (the
   decoder replaces None by Normal; EncImage only proves the four-variant range). *)

(* EncShape: T04a -- the shape of the encoder's output: version line first,
   the eight section headers once each in the canonical order, recognised by
   the decoder's own [section_of_line]; no body line is a header, none is
   skipped by [should_skip_line]. *)
From RM Require Import Model.EncSpec Proofs.EncText Proofs.EncFmt Proofs.FramingFacts Proofs.NumFacts.
From RM Require Import Gen.Generated.
From Coq Require Import ZifyBool.
Open Scope Z_scope.

(* the sections in the order of Beatmap::encode *)
Definition canonical_order : list section :=
  [SecGeneral; SecEditor; SecMetadata; SecDifficulty; SecEvents; SecTimingPoints; SecColors; SecHitObjects].

(* the headers a list of text lines contains, in order *)
Definition headers_of (ls : list str) : list section :=
  flat_map (fun l => match section_of_line l with Some s => [s] | None => [] end) ls.

Lemma headers_of_app a b : headers_of (a ++ b) = headers_of a ++ headers_of b.
Proof. unfold headers_of. apply flat_map_app. Qed.

(* not of the form "[...]" *)
Definition not_bracketed (s : str) : bool := negb (first_is lbracket s && first_is rbracket (rev s)).

Lemma strip_prefix_first c s : first_is c s = false -> strip_prefix [c] s = None.
Proof.
  destruct s as [|x r]; [reflexivity|]. cbn [first_is strip_prefix]. intros H.
  rewrite Z.eqb_sym, H. reflexivity.
Qed.

Lemma not_bracketed_no_header s : not_bracketed s = true -> section_of_line s = None.
Proof.
  unfold not_bracketed. intros H. apply negb_true_iff in H. apply andb_false_iff in H.
  unfold section_of_line. destruct H as [H|H].
  - rewrite (strip_prefix_first _ _ H). reflexivity.
  - destruct (strip_prefix [lbracket] s) as [a|] eqn:E; [|reflexivity]. cbn [obnd].
    apply strip_prefix_one in E. subst s. cbn [rev] in H.
    assert (Hf : first_is rbracket (rev a) = false).
    { destruct (rev a) as [|y t]; [reflexivity|exact H]. }
    unfold strip_suffix. change (rev [rbracket]) with [rbracket].
    rewrite (strip_prefix_first _ _ Hf). reflexivity.
Qed.

(* a body line the decoder routes to a parser: not blank, not a comment *)
Definition routed_ok (s : str) : bool :=
  match s with
  | c :: r => negb (is_ws c) && negb ((c =? slash) && first_is slash r)
  | [] => false
  end.

Lemma routed_not_skipped s : routed_ok s = true -> should_skip_line s = false.
Proof.
  destruct s as [|c r]; [discriminate|]. cbn [routed_ok should_skip_line]. intros H.
  apply andb_true_iff in H. destruct H as [H1 H2]. apply negb_true_iff in H1. apply negb_true_iff in H2.
  cbn [trim_start]. rewrite H1. rewrite starts_with_slashes, H2. reflexivity.
Qed.

Definition body_line_ok (s : str) : bool := not_bracketed s && routed_ok s.

Lemma body_line_facts s : body_line_ok s = true -> section_of_line s = None /\ should_skip_line s = false.
Proof.
  unfold body_line_ok. intros H. apply andb_true_iff in H. destruct H as [H1 H2].
  split; [apply not_bracketed_no_header|apply routed_not_skipped]; assumption.
Qed.

(* lines that start with a plain, non-bracket character *)
Lemma starts_plain_ok c r : is_ws c = false -> (c =? slash) = false -> (c =? lbracket) = false ->
  body_line_ok (c :: r) = true.
Proof.
  intros H1 H2 H3. unfold body_line_ok, not_bracketed, routed_ok. cbn [first_is].
  rewrite H1, H2, H3. reflexivity.
Qed.

Section Shape.
  Variables (fmt_f64 : F64 -> str) (fmt_f32 : F32 -> str) (fmt_int : Z -> str).
  Hypothesis Hfmt : fmt_ok fmt_f64 fmt_f32 fmt_int.
  Notation rtok := (render_tok fmt_f64 fmt_f32 fmt_int).
  Notation rline := (render fmt_f64 fmt_f32 fmt_int).

  (* ---------- header lines and the version line ---------- *)

  Lemma header_recognised s : In s canonical_order ->
    section_of_line (rline (header_tok s)) = Some s.
  Proof.
    intros H. cbn in H.
    repeat (destruct H as [<- | H]; [vm_compute; reflexivity|]). contradiction.
  Qed.

  Lemma after_last_aux_no d : forall s acc, memb d s = false -> after_last_aux d s acc = acc.
  Proof.
    induction s as [|c r IH]; intros acc H; [reflexivity|]. cbn [memb existsb] in H.
    apply orb_false_iff in H. destruct H as [H1 H2]. cbn [after_last_aux].
    rewrite Z.eqb_sym, H1. apply IH. exact H2.
  Qed.

  Lemma after_last_app d p s : memb d s = false -> after_last d (p ++ d :: s) = s.
  Proof.
    intros H. unfold after_last. generalize (p ++ d :: s) at 2. induction p as [|c p IH]; intros acc.
    - cbn [app after_last_aux]. rewrite Z.eqb_refl. apply after_last_aux_no. exact H.
    - cbn [app after_last_aux]. destruct (c =? d); apply IH.
  Qed.

  Lemma version_line_parses v : i32_ok v = true ->
    try_version_from_line (rline (enc_version v)) = VBreak (Some v).
  Proof.
    intros H. unfold enc_version, render. cbn [flat_map render_tok]. rewrite app_nil_r.
    unfold try_version_from_line.
    assert (Hs : starts_with (lit version_prefix) (lit version_prefix ++ fmt_int v) = true).
    { unfold starts_with. rewrite strip_prefix_app_gen. reflexivity. }
    rewrite Hs. cbn [negb]. f_equal.
    assert (E : lit version_prefix ++ fmt_int v = lit "osu file format " ++ letter_v :: fmt_int v) by reflexivity.
    rewrite E, after_last_app.
    - exact (pn_i32_fmt _ _ _ Hfmt v H).
    - apply (plain_no letter_v _ (int_plain _ _ _ Hfmt v)). reflexivity.
  Qed.

  (* ---------- body lines ---------- *)

  Lemma plain_head_ok s r : forallb plainc s = true -> s <> [] -> body_line_ok (s ++ r) = true.
  Proof.
    destruct s as [|c t]; [congruence|]. cbn [forallb app]. intros H _.
    apply andb_prop_l in H. apply starts_plain_ok; unfold plainc, is_ws, slash, lbracket in *; lia.
  Qed.

  (* a line whose first token is a number *)
  Lemma num_first_ok t rest : tok_plain t -> body_line_ok (rline (t :: rest)) = true.
  Proof.
    intros H. change (rline (t :: rest)) with (rtok t ++ rline rest).
    apply plain_head_ok; [exact (num_tok_plain _ _ _ Hfmt t H)|].
    destruct t; cbn [render_tok]; [contradiction| | |].
    - apply (f64_nonempty _ _ _ Hfmt).
    - apply (f32_nonempty _ _ _ Hfmt).
    - apply (int_nonempty' _ _ _ Hfmt).
  Qed.

  (* a line whose first token is a literal that starts with a letter *)
  Definition letter_first (s : str) : bool :=
    match s with c :: _ => is_ascii_alpha c | [] => false end.
  Lemma letter_first_ok s rest : letter_first s = true -> body_line_ok (rline (TStr s :: rest)) = true.
  Proof.
    destruct s as [|c r]; [discriminate|]. cbn [letter_first]. intros H.
    change (rline (TStr (c :: r) :: rest)) with (c :: r ++ rline rest).
    apply starts_plain_ok; unfold is_ascii_alpha, is_ws, slash, lbracket in *; lia.
  Qed.

  Lemma key_letter_g K : letter_first (gkey K ++ colon_space) = true. Proof. destruct K; reflexivity. Qed.
  Lemma key_letter_e K : letter_first (ekey K ++ colon_space) = true. Proof. destruct K; reflexivity. Qed.
  Lemma key_letter_m K : letter_first (mkey K ++ colon_space) = true. Proof. destruct K; reflexivity. Qed.
  Lemma key_letter_d K : letter_first (dkey K ++ colon_space) = true. Proof. destruct K; reflexivity. Qed.

  Ltac kv_lines :=
    repeat match goal with
           | |- Forall _ (_ ++ _) => apply Forall_app; split
           | |- Forall _ (_ :: _) => constructor
           | |- Forall _ [] => constructor
           | |- Forall _ (if ?b then _ else _) => destruct b
           | |- Forall _ (opt_text_line _ ?s) => unfold opt_text_line; destruct (is_empty s)
           | |- body_line_ok (rline (kv_line (gkey ?K) _)) = true => apply letter_first_ok, key_letter_g
           | |- body_line_ok (rline (kv_line (ekey ?K) _)) = true => apply letter_first_ok, key_letter_e
           | |- body_line_ok (rline (kv_line (mkey ?K) _)) = true => apply letter_first_ok, key_letter_m
           | |- body_line_ok (rline (kv_line (dkey ?K) _)) = true => apply letter_first_ok, key_letter_d
           end.

  Lemma general_body_lines g c : Forall (fun l => body_line_ok (rline l) = true) (body (enc_general g c)).
  Proof. unfold enc_general, body. cbn [app tl]. kv_lines. Qed.

  Lemma editor_body_lines e : Forall (fun l => body_line_ok (rline l) = true) (body (enc_editor e)).
  Proof.
    unfold enc_editor, body, bookmarks_line. cbn [app tl]. destruct (ed_bookmarks e) as [|b r]; cbn [app].
    - kv_lines.
    - constructor; [apply letter_first_ok, key_letter_e|]. kv_lines.
  Qed.

  Lemma metadata_body_lines m : Forall (fun l => body_line_ok (rline l) = true) (body (enc_metadata m)).
  Proof. unfold enc_metadata, body. cbn [app tl]. kv_lines. Qed.

  Lemma difficulty_body_lines d : Forall (fun l => body_line_ok (rline l) = true) (body (enc_difficulty d)).
  Proof. unfold enc_difficulty, body. cbn [app tl]. kv_lines. Qed.

  Lemma events_body_lines e : Forall (fun l => body_line_ok (rline l) = true) (body (enc_events e)).
  Proof.
    unfold enc_events, body. cbn [app tl]. apply Forall_app. split.
    - destruct (is_empty (ev_background_file e)); constructor; [|constructor].
      unfold background_line. apply num_first_ok. exact I.
    - apply Forall_forall. intros l Hl. apply in_map_iff in Hl. destruct Hl as (b & <- & _).
      unfold break_line. apply num_first_ok. exact I.
  Qed.

  Lemma combo_body_lines l : forall i, Forall (fun x => body_line_ok (rline x) = true) (combo_lines i l).
  Proof.
    induction l as [|c r IH]; intros i; cbn [combo_lines]; constructor; [|apply IH].
    cbn [app]. apply letter_first_ok. reflexivity.
  Qed.

  (* a custom colour line "name: r,g,b,a": the name is tidy and has no "//"; the line ends
     with a digit of the alpha value *)
  Lemma custom_body_line x : color_name_ok (cc_name x) = true ->
    body_line_ok (rline (custom_color_line x)) = true.
  Proof.
    unfold color_name_ok. intros Hn.
    repeat match type of Hn with _ && _ = true => let X := fresh "X" in
             apply andb_true_iff in Hn; destruct Hn as [Hn X]; apply negb_true_iff in X end.
    unfold str_ok in Hn. apply andb_prop_l in Hn.
    unfold custom_color_line, color_toks.
    set (c := cc_color x).
    assert (E : rline ([TStr (cc_name x); TStr colon_space] ++
                       [TInt (c_r c); t_comma; TInt (c_g c); t_comma; TInt (c_b c); t_comma; TInt (c_a c)])
                = (cc_name x ++ rline [TStr colon_space; TInt (c_r c); t_comma; TInt (c_g c); t_comma;
                                       TInt (c_b c); t_comma]) ++ fmt_int (c_a c)).
    { change ([TStr (cc_name x); TStr colon_space] ++
              [TInt (c_r c); t_comma; TInt (c_g c); t_comma; TInt (c_b c); t_comma; TInt (c_a c)])
        with ((TStr (cc_name x) :: [TStr colon_space; TInt (c_r c); t_comma; TInt (c_g c); t_comma;
                                    TInt (c_b c); t_comma]) ++ [TInt (c_a c)]).
      unfold render. rewrite flat_map_app. cbn [flat_map render_tok]. rewrite !app_nil_r. reflexivity. }
    rewrite E. clear E. set (pre := cc_name x ++ _).
    unfold body_line_ok. apply andb_true_iff. split.
    - (* last character: a digit or '-' of the alpha value *)
      unfold not_bracketed. apply negb_true_iff. apply andb_false_iff. right.
      rewrite rev_app_distr.
      pose proof (int_nonempty' _ _ _ Hfmt (c_a c)) as Hne.
      pose proof (forallb_rev _ _ (int_chars _ _ _ Hfmt (c_a c))) as Hc.
      destruct (rev (fmt_int (c_a c))) as [|y t] eqn:Er.
      + exfalso. apply Hne. rewrite <- (rev_involutive (fmt_int (c_a c))), Er. reflexivity.
      + cbn [app first_is]. cbn [forallb] in Hc. apply andb_prop_l in Hc.
        unfold int_char, is_digit, rbracket in *. lia.
    - (* first character *)
      unfold pre. destruct (cc_name x) as [|ch r] eqn:En.
      + reflexivity.
      + unfold render. cbn [flat_map render_tok app routed_ok].
        unfold tidyb in Hn. apply andb_prop_l in Hn. cbn [first_ws] in Hn.
        apply negb_true_iff in Hn. rewrite Hn. cbn [negb andb].
        cbn [has_ss] in X1. apply orb_false_iff in X1. destruct X1 as [X1 _].
        destruct r as [|d r'].
        * cbn [app first_is]. rewrite andb_false_r. reflexivity.
        * cbn [app first_is] in *. rewrite X1. reflexivity.
  Qed.

  Lemma colors_body_lines c : colors_ok c = true ->
    Forall (fun l => body_line_ok (rline l) = true) (body (enc_colors c)).
  Proof.
    unfold colors_ok. intros H. apply andb_true_iff in H. destruct H as [H _].
    apply andb_true_iff in H. destruct H as [_ H2].
    unfold enc_colors, body. cbn [app tl]. apply Forall_app. split; [apply combo_body_lines|].
    apply Forall_forall. intros l Hl. apply in_map_iff in Hl. destruct Hl as (x & <- & Hx).
    rewrite forallb_forall in H2. specialize (H2 x Hx). apply andb_prop_l in H2.
    apply custom_body_line. exact H2.
  Qed.

  (* timing-point and hit-object lines start with a number *)
  Definition num_first (l : line) : Prop := match l with t :: _ => tok_plain t | [] => False end.
  Lemma num_first_line l : num_first l -> body_line_ok (rline l) = true.
  Proof. destruct l as [|t r]; [contradiction|]. apply num_first_ok. Qed.

  Lemma headers_of_body ls : Forall (fun l => body_line_ok (rline l) = true) ls ->
    headers_of (map rline ls) = [].
  Proof.
    induction 1 as [|l r Hl _ IH]; [reflexivity|]. cbn [map headers_of flat_map].
    destruct (body_line_facts _ Hl) as [E _]. rewrite E. exact IH.
  Qed.

  (* ---------- timing-point and hit-object lines ---------- *)

  Lemma group_lines_num c : forall gs last ls,
    group_lines c last gs = Done ls -> Forall num_first ls.
  Proof.
    induction gs as [|g r IH]; intros last ls H; cbn [group_lines] in H.
    - inversion H. constructor.
    - destruct (props_new (gr_time g) c last _) as [props|w|]; cbn [obind] in H; try discriminate.
      destruct (gr_timing g) as [t|]; cbv zeta beta iota in H.
      + match type of H with (if ?b then _ else _) = _ => destruct b end.
        * destruct (group_lines c _ r) as [ls'|w|] eqn:E; cbn [obind] in H; try discriminate.
          inversion H; subst. constructor; [exact I|]. exact (IH _ _ E).
        * destruct (group_lines c _ r) as [ls'|w|] eqn:E; cbn [obind] in H; try discriminate.
          inversion H; subst. constructor; [exact I|]. constructor; [exact I|]. exact (IH _ _ E).
      + match type of H with (if ?b then _ else _) = _ => destruct b end.
        * destruct (group_lines c _ r) as [ls'|w|] eqn:E; cbn [obind] in H; try discriminate.
          inversion H; subst. exact (IH _ _ E).
        * destruct (group_lines c _ r) as [ls'|w|] eqn:E; cbn [obind] in H; try discriminate.
          inversion H; subst. constructor; [exact I|]. exact (IH _ _ E).
  Qed.

  Lemma object_lines_num dist mode : forall objs ls,
    object_lines dist mode objs = Done ls -> Forall num_first ls.
  Proof.
    induction objs as [|h r IH]; intros ls H; cbn [object_lines] in H.
    - inversion H. constructor.
    - destruct (object_line dist mode h) as [x|w|] eqn:E; cbn [obind] in H; try discriminate.
      destruct (object_lines dist mode r) as [xs|w|] eqn:Er; cbn [obind] in H; try discriminate.
      inversion H; subst. constructor; [|exact (IH _ eq_refl)].
      unfold object_line in E.
      match type of E with obind ?a _ = _ => destruct a as [mid|w|]; cbn [obind] in E; try discriminate end.
      inversion E; subst. exact I.
  Qed.

  Lemma Forall_num_body ls : Forall num_first ls -> Forall (fun l => body_line_ok (rline l) = true) ls.
  Proof. intros H. eapply Forall_impl; [|exact H]. intros l. apply num_first_line. Qed.

  (* ---------- the whole output ---------- *)

  Lemma headers_blank_section s b : In s canonical_order ->
    Forall (fun l => body_line_ok (rline l) = true) b ->
    headers_of (map rline ([] :: header_tok s :: b)) = [s].
  Proof.
    intros Hs Hb. cbn [map headers_of flat_map].
    change (rline []) with (@nil char). rewrite section_of_line_nil.
    rewrite (header_recognised s Hs). cbn [app]. f_equal. exact (headers_of_body b Hb).
  Qed.

  Lemma version_not_header v : section_of_line (rline (enc_version v)) = None.
  Proof.
    apply (proj1 (body_line_facts _ (letter_first_ok (lit version_prefix) [TInt v] eq_refl))).
  Qed.

  Theorem encode_shape dist events m ls :
    encode_lines dist events m = Done ls ->
    exists tp ho,
      let h := bmv_ho m in
      Forall num_first tp /\ Forall num_first ho /\
      ls = [enc_version (bmv_version m)] ++
           [] :: enc_general (hov_general h) (hov_control_points h) ++
           [] :: enc_editor (bmv_editor m) ++
           [] :: enc_metadata (bmv_metadata m) ++
           [] :: enc_difficulty (hov_difficulty h) ++
           [] :: enc_events (hov_events h) ++
           [] :: (header_tok SecTimingPoints :: tp) ++
           [] :: enc_colors (bmv_colors m) ++
           [] :: (header_tok SecHitObjects :: ho).
  Proof.
    unfold encode_lines. intros H.
    destruct (enc_timing_points dist events m) as [tp|w|] eqn:Et; cbn [obind] in H; try discriminate.
    destruct (enc_hit_objects dist _ _) as [objs|w|] eqn:Eo; cbn [obind] in H; try discriminate.
    unfold enc_timing_points in Et.
    destruct (collect_samples _ _ _ _ _ _ _ _) as [c|w|]; cbn [obind] in Et; try discriminate.
    destruct (group_lines c props_default (groups_of c)) as [tl|w|] eqn:Eg; cbn [obind] in Et; try discriminate.
    unfold enc_hit_objects in Eo.
    destruct (object_lines dist _ _) as [ol|w|] eqn:El; cbn [obind] in Eo; try discriminate.
    inversion Et; subst tp. inversion Eo; subst objs. inversion H; subst ls.
    exists tl, ol. cbv zeta. repeat split.
    - exact (group_lines_num _ _ _ _ Eg).
    - exact (object_lines_num _ _ _ _ El).
  Qed.

  (* T04a: the eight headers, once each, in the canonical order *)
  Theorem encode_headers dist events m ls :
    encode_lines dist events m = Done ls -> colors_ok (bmv_colors m) = true ->
    headers_of (map rline ls) = canonical_order.
  Proof.
    intros H Hc. destruct (encode_shape dist events m ls H) as (tp & ho & Htp & Hho & ->).
    cbv zeta.
    assert (S1 : forall s b rest, In s canonical_order ->
                 Forall (fun l => body_line_ok (rline l) = true) b ->
                 headers_of (map rline ([] :: header_tok s :: b ++ rest)) = s :: headers_of (map rline rest)).
    { intros s b rest Hs Hb.
      cbn [map]. unfold headers_of at 1. cbn [flat_map].
      change (rline []) with (@nil char). rewrite section_of_line_nil, (header_recognised s Hs).
      cbn [app]. f_equal. rewrite map_app, flat_map_app.
      change (flat_map (fun l => match section_of_line l with Some s0 => [s0] | None => [] end))
        with headers_of.
      rewrite (headers_of_body b Hb). reflexivity. }
    assert (Eg : forall g c, enc_general g c = header_tok SecGeneral :: body (enc_general g c)) by reflexivity.
    assert (Ee : forall e, enc_editor e = header_tok SecEditor :: body (enc_editor e)) by reflexivity.
    assert (Em : forall x, enc_metadata x = header_tok SecMetadata :: body (enc_metadata x)) by reflexivity.
    assert (Ed : forall x, enc_difficulty x = header_tok SecDifficulty :: body (enc_difficulty x)) by reflexivity.
    assert (Ev : forall x, enc_events x = header_tok SecEvents :: body (enc_events x)) by reflexivity.
    assert (Ec : forall x, enc_colors x = header_tok SecColors :: body (enc_colors x)) by reflexivity.
    rewrite Eg, Ee, Em, Ed, Ev, Ec. rewrite <- (app_nil_r ho). cbn [app].
    assert (V : forall v rest, headers_of (map rline (enc_version v :: rest)) = headers_of (map rline rest)).
    { intros v rest. cbn [map]. unfold headers_of at 1. cbn [flat_map]. rewrite version_not_header. reflexivity. }
    rewrite V.
    rewrite (S1 SecGeneral); [|cbn; tauto|apply general_body_lines].
    rewrite (S1 SecEditor); [|cbn; tauto|apply editor_body_lines].
    rewrite (S1 SecMetadata); [|cbn; tauto|apply metadata_body_lines].
    rewrite (S1 SecDifficulty); [|cbn; tauto|apply difficulty_body_lines].
    rewrite (S1 SecEvents); [|cbn; tauto|apply events_body_lines].
    rewrite (S1 SecTimingPoints); [|cbn; tauto|apply Forall_num_body, Htp].
    rewrite (S1 SecColors); [|cbn; tauto|apply colors_body_lines, Hc].
    rewrite (S1 SecHitObjects); [|cbn; tauto|apply Forall_num_body, Hho].
    reflexivity.
  Qed.

  (* every body line is routed to its parser: not a header, not skipped *)
  Theorem body_lines_routed m tp ho :
    colors_ok (bmv_colors m) = true -> Forall num_first tp -> Forall num_first ho ->
    let h := bmv_ho m in
    let bodies := body (enc_general (hov_general h) (hov_control_points h)) ++ body (enc_editor (bmv_editor m)) ++
                  body (enc_metadata (bmv_metadata m)) ++ body (enc_difficulty (hov_difficulty h)) ++
                  body (enc_events (hov_events h)) ++ tp ++ body (enc_colors (bmv_colors m)) ++ ho in
    Forall (fun l => section_of_line (rline l) = None /\ should_skip_line (rline l) = false) bodies.
  Proof.
    intros Hc Htp Hho h bodies.
    assert (F : Forall (fun l => body_line_ok (rline l) = true) bodies).
    { unfold bodies.
      apply Forall_app; split; [apply general_body_lines|].
      apply Forall_app; split; [apply editor_body_lines|].
      apply Forall_app; split; [apply metadata_body_lines|].
      apply Forall_app; split; [apply difficulty_body_lines|].
      apply Forall_app; split; [apply events_body_lines|].
      apply Forall_app; split; [apply Forall_num_body, Htp|].
      apply Forall_app; split; [apply colors_body_lines, Hc|apply Forall_num_body, Hho]. }
    eapply Forall_impl; [|exact F]. intros l Hl. exact (body_line_facts _ Hl).
  Qed.
End Shape.

(* EncodingFacts: lemmas about Model/Encoding.v.
   T10b: the lossy loop of encoding.rs equals the one-pass automaton lossy_spec.
   T10a: codec round trips for UTF-8 / UTF-16LE / UTF-16BE. *)
From RM Require Import Model.Text Model.Encoding.
Require Import Lia ZArith List ZifyBool.
Import ListNotations.
Open Scope Z_scope.

Ltac zdm := Z.div_mod_to_equations; lia.

Ltac case_ifs :=
  repeat match goal with
  | |- context [if ?c then _ else _] => destruct c eqn:?
  | H : context [if ?c then _ else _] |- _ => destruct c eqn:?
  end.

Definition scalar_str (s : str) : Prop := Forall (fun c => is_scalar c = true) s.

(* ------------------------------------------------------------------ *)
(* utf8_char_width                                                    *)
(* ------------------------------------------------------------------ *)

Lemma width_cases : forall b,
  (b < 128 /\ utf8_char_width b = 1) \/
  (194 <= b < 224 /\ utf8_char_width b = 2) \/
  (224 <= b < 240 /\ utf8_char_width b = 3) \/
  (240 <= b < 245 /\ utf8_char_width b = 4) \/
  ((128 <= b < 194 \/ 245 <= b) /\ utf8_char_width b = 0).
Proof.
  intros b. unfold utf8_char_width.
  destruct (b <? 128) eqn:H1; [left; split; [lia|reflexivity]|right].
  destruct (b <? 194) eqn:H2; [right; right; right; split; [lia|reflexivity]|].
  destruct (b <? 224) eqn:H3; [left; split; [lia|reflexivity]|right].
  destruct (b <? 240) eqn:H4; [left; split; [lia|reflexivity]|right].
  destruct (b <? 245) eqn:H5; [left; split; [lia|reflexivity]|right].
  split; [lia|reflexivity].
Qed.

Lemma width_2 : forall b, utf8_char_width b = 2 -> 194 <= b < 224.
Proof.
  intros b W.
  destruct (width_cases b) as [[R E]|[[R E]|[[R E]|[[R E]|[R E]]]]];
    rewrite E in W; lia.
Qed.
Lemma width_3 : forall b, utf8_char_width b = 3 -> 224 <= b < 240.
Proof.
  intros b W.
  destruct (width_cases b) as [[R E]|[[R E]|[[R E]|[[R E]|[R E]]]]];
    rewrite E in W; lia.
Qed.
Lemma width_4 : forall b, utf8_char_width b = 4 -> 240 <= b < 245.
Proof.
  intros b W.
  destruct (width_cases b) as [[R E]|[[R E]|[[R E]|[[R E]|[R E]]]]];
    rewrite E in W; lia.
Qed.

(* ------------------------------------------------------------------ *)
(* run_utf8_validation on a well-formed leading sequence              *)
(* ------------------------------------------------------------------ *)

Lemma run_ascii : forall b r i, b < 128 ->
  run_utf8_validation (b :: r) i = run_utf8_validation r (S i).
Proof.
  intros b r i H. cbn [run_utf8_validation].
  destruct (b <? 128) eqn:E; [reflexivity|lia].
Qed.

Lemma run_w2 : forall b b1 r i, utf8_char_width b = 2 -> is_cont b1 = true ->
  run_utf8_validation (b :: b1 :: r) i = run_utf8_validation r (2 + i)%nat.
Proof.
  intros b b1 r i W C. pose proof (width_2 _ W) as R.
  cbn [run_utf8_validation]. rewrite W, C.
  destruct (b <? 128) eqn:E; [lia|reflexivity].
Qed.

Lemma run_w3 : forall b b1 b2 r i, utf8_char_width b = 3 -> ok3 b b1 = true ->
  is_cont b2 = true ->
  run_utf8_validation (b :: b1 :: b2 :: r) i = run_utf8_validation r (3 + i)%nat.
Proof.
  intros b b1 b2 r i W O C. pose proof (width_3 _ W) as R.
  cbn [run_utf8_validation]. rewrite W, O, C.
  destruct (b <? 128) eqn:E; [lia|reflexivity].
Qed.

Lemma run_w4 : forall b b1 b2 b3 r i, utf8_char_width b = 4 -> ok4 b b1 = true ->
  is_cont b2 = true -> is_cont b3 = true ->
  run_utf8_validation (b :: b1 :: b2 :: b3 :: r) i = run_utf8_validation r (4 + i)%nat.
Proof.
  intros b b1 b2 b3 r i W O C2 C3. pose proof (width_4 _ W) as R.
  cbn [run_utf8_validation]. rewrite W, O, C2, C3.
  destruct (b <? 128) eqn:E; [lia|reflexivity].
Qed.

(* ------------------------------------------------------------------ *)
(* utf8_chars on a leading sequence                                   *)
(* ------------------------------------------------------------------ *)

Lemma chars_ascii : forall b r, b < 128 -> utf8_chars (b :: r) = b :: utf8_chars r.
Proof.
  intros b r H. cbn [utf8_chars]. destruct (b <? 128) eqn:E; [reflexivity|lia].
Qed.

Lemma chars_w2 : forall b b1 r, utf8_char_width b = 2 ->
  utf8_chars (b :: b1 :: r) = ((b mod 32) * 64 + b1 mod 64) :: utf8_chars r.
Proof.
  intros b b1 r W. pose proof (width_2 _ W) as R. cbn [utf8_chars].
  destruct (b <? 128) eqn:E1; [lia|].
  destruct (b <? 224) eqn:E2; [reflexivity|lia].
Qed.

Lemma chars_w3 : forall b b1 b2 r, utf8_char_width b = 3 ->
  utf8_chars (b :: b1 :: b2 :: r) =
  (((b mod 16) * 64 + b1 mod 64) * 64 + b2 mod 64) :: utf8_chars r.
Proof.
  intros b b1 b2 r W. pose proof (width_3 _ W) as R. cbn [utf8_chars].
  destruct (b <? 128) eqn:E1; [lia|].
  destruct (b <? 224) eqn:E2; [lia|].
  destruct (b <? 240) eqn:E3; [reflexivity|lia].
Qed.

Lemma chars_w4 : forall b b1 b2 b3 r, utf8_char_width b = 4 ->
  utf8_chars (b :: b1 :: b2 :: b3 :: r) =
  ((((b mod 8) * 64 + b1 mod 64) * 64 + b2 mod 64) * 64 + b3 mod 64) :: utf8_chars r.
Proof.
  intros b b1 b2 b3 r W. pose proof (width_4 _ W) as R. cbn [utf8_chars].
  destruct (b <? 128) eqn:E1; [lia|].
  destruct (b <? 224) eqn:E2; [lia|].
  destruct (b <? 240) eqn:E3; [lia|reflexivity].
Qed.

(* ------------------------------------------------------------------ *)
(* the automaton                                                      *)
(* ------------------------------------------------------------------ *)

Lemma lr_need_cons : forall n lo hi acc b r,
  lossy_run (SNeed n lo hi acc) (b :: r) =
  if in_rng lo hi b then
    match n with
    | O => (acc * 64 + b mod 64) :: lossy_run SStart r
    | S m => lossy_run (SNeed m 128 191 (acc * 64 + b mod 64)) r
    end
  else REPL :: lossy_run SStart (b :: r).
Proof.
  intros. cbn [lossy_run lossy_step].
  destruct (in_rng lo hi b).
  - destruct n; reflexivity.
  - destruct (lossy_start b) as [o st']. reflexivity.
Qed.

Lemma lr_start_ascii : forall b r, b < 128 ->
  lossy_run SStart (b :: r) = b :: lossy_run SStart r.
Proof.
  intros b r H. cbn [lossy_run lossy_step]. unfold lossy_start.
  destruct (b <? 128) eqn:E; [reflexivity|lia].
Qed.

Lemma lossy_start_w2 : forall b, utf8_char_width b = 2 ->
  lossy_start b = ([], SNeed 0 128 191 (b mod 32)).
Proof.
  intros b W. apply width_2 in W. unfold lossy_start, in_rng.
  case_ifs; try lia; reflexivity.
Qed.

Lemma lossy_start_w3 : forall b, utf8_char_width b = 3 ->
  exists lo hi, lossy_start b = ([], SNeed 1 lo hi (b mod 16)) /\
                forall x, in_rng lo hi x = ok3 b x.
Proof.
  intros b W. apply width_3 in W.
  assert (C : b = 224 \/ 225 <= b <= 236 \/ b = 237 \/ 238 <= b <= 239) by lia.
  destruct C as [C|[C|[C|C]]].
  - exists 160, 191. split.
    + unfold lossy_start, in_rng. case_ifs; try lia; reflexivity.
    + intro x. unfold ok3, in_rng. lia.
  - exists 128, 191. split.
    + unfold lossy_start, in_rng. case_ifs; try lia; reflexivity.
    + intro x. unfold ok3, in_rng. lia.
  - exists 128, 159. split.
    + unfold lossy_start, in_rng. case_ifs; try lia; reflexivity.
    + intro x. unfold ok3, in_rng. lia.
  - exists 128, 191. split.
    + unfold lossy_start, in_rng. case_ifs; try lia; reflexivity.
    + intro x. unfold ok3, in_rng. lia.
Qed.

Lemma lossy_start_w4 : forall b, utf8_char_width b = 4 ->
  exists lo hi, lossy_start b = ([], SNeed 2 lo hi (b mod 8)) /\
                forall x, in_rng lo hi x = ok4 b x.
Proof.
  intros b W. apply width_4 in W.
  assert (C : b = 240 \/ 241 <= b <= 243 \/ b = 244) by lia.
  destruct C as [C|[C|C]].
  - exists 144, 191. split.
    + unfold lossy_start, in_rng. case_ifs; try lia; reflexivity.
    + intro x. unfold ok4, in_rng. lia.
  - exists 128, 191. split.
    + unfold lossy_start, in_rng. case_ifs; try lia; reflexivity.
    + intro x. unfold ok4, in_rng. lia.
  - exists 128, 143. split.
    + unfold lossy_start, in_rng. case_ifs; try lia; reflexivity.
    + intro x. unfold ok4, in_rng. lia.
Qed.

Lemma lossy_start_w0 : forall b, 128 <= b -> utf8_char_width b = 0 ->
  lossy_start b = ([REPL], SStart).
Proof.
  intros b H W.
  assert (R : 128 <= b < 194 \/ 245 <= b).
  { destruct (width_cases b) as [[R E]|[[R E]|[[R E]|[[R E]|[R E]]]]];
      rewrite E in W; lia. }
  unfold lossy_start, in_rng. case_ifs; try lia; reflexivity.
Qed.

Lemma lr_start_w2 : forall b r, utf8_char_width b = 2 ->
  lossy_run SStart (b :: r) = lossy_run (SNeed 0 128 191 (b mod 32)) r.
Proof.
  intros b r W. cbn [lossy_run lossy_step]. rewrite (lossy_start_w2 _ W). reflexivity.
Qed.

Lemma lr_start_w3 : forall b, utf8_char_width b = 3 ->
  exists lo hi, (forall x, in_rng lo hi x = ok3 b x) /\
    forall r, lossy_run SStart (b :: r) = lossy_run (SNeed 1 lo hi (b mod 16)) r.
Proof.
  intros b W. destruct (lossy_start_w3 _ W) as (lo & hi & E & Hr).
  exists lo, hi. split; [exact Hr|].
  intro r. cbn [lossy_run lossy_step]. rewrite E. reflexivity.
Qed.

Lemma lr_start_w4 : forall b, utf8_char_width b = 4 ->
  exists lo hi, (forall x, in_rng lo hi x = ok4 b x) /\
    forall r, lossy_run SStart (b :: r) = lossy_run (SNeed 2 lo hi (b mod 8)) r.
Proof.
  intros b W. destruct (lossy_start_w4 _ W) as (lo & hi & E & Hr).
  exists lo, hi. split; [exact Hr|].
  intro r. cbn [lossy_run lossy_step]. rewrite E. reflexivity.
Qed.

Lemma lr_start_w0 : forall b r, 128 <= b -> utf8_char_width b = 0 ->
  lossy_run SStart (b :: r) = REPL :: lossy_run SStart r.
Proof.
  intros b r H W. cbn [lossy_run lossy_step]. rewrite (lossy_start_w0 _ H W). reflexivity.
Qed.

Lemma is_cont_rng : forall b, in_rng 128 191 b = is_cont b.
Proof. reflexivity. Qed.

(* ------------------------------------------------------------------ *)
(* one step of validator / automaton / decoder, classified            *)
(* ------------------------------------------------------------------ *)

Definition good_step (v : bytes) : Prop :=
  exists cp pre rest, v = pre ++ rest /\ (1 <= length pre)%nat /\
    (forall w i, run_utf8_validation (pre ++ w) i
                 = run_utf8_validation w (length pre + i)%nat) /\
    (forall w, lossy_run SStart (pre ++ w) = cp :: lossy_run SStart w) /\
    (forall w, utf8_chars (pre ++ w) = cp :: utf8_chars w).

Definition bad_step (v : bytes) : Prop :=
  exists k, (1 <= k <= length v)%nat /\
    (forall i, run_utf8_validation v i = Some (i, Some k)) /\
    lossy_run SStart v = REPL :: lossy_run SStart (skipn k v).

Definition inc_step (v : bytes) : Prop :=
  (forall i, run_utf8_validation v i = Some (i, None)) /\
  lossy_run SStart v = [REPL].

Lemma good_ascii : forall b r, b < 128 -> good_step (b :: r).
Proof.
  intros b r H. exists b, [b], r. split; [reflexivity|]. split; [cbn [length]; lia|].
  split; [|split].
  - intros w i. cbn [app length]. apply run_ascii; assumption.
  - intros w. cbn [app]. apply lr_start_ascii; assumption.
  - intros w. cbn [app]. apply chars_ascii; assumption.
Qed.

Lemma good_w2 : forall b b1 r, utf8_char_width b = 2 -> is_cont b1 = true ->
  good_step (b :: b1 :: r).
Proof.
  intros b b1 r W C.
  exists ((b mod 32) * 64 + b1 mod 64), [b; b1], r.
  split; [reflexivity|]. split; [cbn [length]; lia|].
  split; [|split].
  - intros w i. cbn [app length]. apply run_w2; assumption.
  - intros w. cbn [app]. rewrite (lr_start_w2 _ _ W), lr_need_cons, is_cont_rng, C.
    reflexivity.
  - intros w. cbn [app]. apply chars_w2; assumption.
Qed.

Lemma good_w3 : forall b b1 b2 r, utf8_char_width b = 3 -> ok3 b b1 = true ->
  is_cont b2 = true -> good_step (b :: b1 :: b2 :: r).
Proof.
  intros b b1 b2 r W O C.
  exists (((b mod 16) * 64 + b1 mod 64) * 64 + b2 mod 64), [b; b1; b2], r.
  split; [reflexivity|]. split; [cbn [length]; lia|].
  split; [|split].
  - intros w i. cbn [app length]. apply run_w3; assumption.
  - intros w. cbn [app]. destruct (lr_start_w3 _ W) as (lo & hi & Hr & Hs).
    rewrite Hs, lr_need_cons, Hr, O, lr_need_cons, is_cont_rng, C. reflexivity.
  - intros w. cbn [app]. apply chars_w3; assumption.
Qed.

Lemma good_w4 : forall b b1 b2 b3 r, utf8_char_width b = 4 -> ok4 b b1 = true ->
  is_cont b2 = true -> is_cont b3 = true -> good_step (b :: b1 :: b2 :: b3 :: r).
Proof.
  intros b b1 b2 b3 r W O C2 C3.
  exists ((((b mod 8) * 64 + b1 mod 64) * 64 + b2 mod 64) * 64 + b3 mod 64),
         [b; b1; b2; b3], r.
  split; [reflexivity|]. split; [cbn [length]; lia|].
  split; [|split].
  - intros w i. cbn [app length]. apply run_w4; assumption.
  - intros w. cbn [app]. destruct (lr_start_w4 _ W) as (lo & hi & Hr & Hs).
    rewrite Hs, lr_need_cons, Hr, O, lr_need_cons, is_cont_rng, C2,
            lr_need_cons, is_cont_rng, C3. reflexivity.
  - intros w. cbn [app]. apply chars_w4; assumption.
Qed.

Lemma step_cases : forall b r,
  good_step (b :: r) \/ bad_step (b :: r) \/ inc_step (b :: r).
Proof.
  intros b r.
  destruct (width_cases b) as [[R W]|[[R W]|[[R W]|[[R W]|[R W]]]]].
  - left. apply good_ascii; assumption.
  - (* width 2 *)
    assert (E : (b <? 128) = false) by lia.
    destruct r as [|b1 r2].
    + right; right. split.
      * intro i. cbn [run_utf8_validation]. rewrite W, E. reflexivity.
      * rewrite (lr_start_w2 _ _ W). reflexivity.
    + destruct (is_cont b1) eqn:C1.
      * left. apply good_w2; assumption.
      * right; left. exists 1%nat. split; [cbn [length]; lia|]. split.
        -- intro i. cbn [run_utf8_validation]. rewrite W, E, C1. reflexivity.
        -- rewrite (lr_start_w2 _ _ W), lr_need_cons, is_cont_rng, C1. reflexivity.
  - (* width 3 *)
    assert (E : (b <? 128) = false) by lia.
    destruct (lr_start_w3 _ W) as (lo & hi & Hr & Hs).
    destruct r as [|b1 r2].
    + right; right. split.
      * intro i. cbn [run_utf8_validation]. rewrite W, E. reflexivity.
      * rewrite Hs. reflexivity.
    + destruct (ok3 b b1) eqn:O3.
      * destruct r2 as [|b2 r3].
        -- right; right. split.
           ++ intro i. cbn [run_utf8_validation]. rewrite W, E, O3. reflexivity.
           ++ rewrite Hs, lr_need_cons, Hr, O3. reflexivity.
        -- destruct (is_cont b2) eqn:C2.
           ++ left. apply good_w3; assumption.
           ++ right; left. exists 2%nat. split; [cbn [length]; lia|]. split.
              ** intro i. cbn [run_utf8_validation]. rewrite W, E, O3, C2. reflexivity.
              ** rewrite Hs, lr_need_cons, Hr, O3, lr_need_cons, is_cont_rng, C2.
                 reflexivity.
      * right; left. exists 1%nat. split; [cbn [length]; lia|]. split.
        -- intro i. cbn [run_utf8_validation]. rewrite W, E, O3. reflexivity.
        -- rewrite Hs, lr_need_cons, Hr, O3. reflexivity.
  - (* width 4 *)
    assert (E : (b <? 128) = false) by lia.
    destruct (lr_start_w4 _ W) as (lo & hi & Hr & Hs).
    destruct r as [|b1 r2].
    + right; right. split.
      * intro i. cbn [run_utf8_validation]. rewrite W, E. reflexivity.
      * rewrite Hs. reflexivity.
    + destruct (ok4 b b1) eqn:O4.
      * destruct r2 as [|b2 r3].
        -- right; right. split.
           ++ intro i. cbn [run_utf8_validation]. rewrite W, E, O4. reflexivity.
           ++ rewrite Hs, lr_need_cons, Hr, O4. reflexivity.
        -- destruct (is_cont b2) eqn:C2.
           ++ destruct r3 as [|b3 r4].
              ** right; right. split.
                 --- intro i. cbn [run_utf8_validation]. rewrite W, E, O4, C2.
                     reflexivity.
                 --- rewrite Hs, lr_need_cons, Hr, O4, lr_need_cons, is_cont_rng, C2.
                     reflexivity.
              ** destruct (is_cont b3) eqn:C3.
                 --- left. apply good_w4; assumption.
                 --- right; left. exists 3%nat. split; [cbn [length]; lia|]. split.
                     +++ intro i. cbn [run_utf8_validation].
                         rewrite W, E, O4, C2, C3. reflexivity.
                     +++ rewrite Hs, lr_need_cons, Hr, O4, lr_need_cons, is_cont_rng, C2,
                                 lr_need_cons, is_cont_rng, C3. reflexivity.
           ++ right; left. exists 2%nat. split; [cbn [length]; lia|]. split.
              ** intro i. cbn [run_utf8_validation]. rewrite W, E, O4, C2. reflexivity.
              ** rewrite Hs, lr_need_cons, Hr, O4, lr_need_cons, is_cont_rng, C2.
                 reflexivity.
      * right; left. exists 1%nat. split; [cbn [length]; lia|]. split.
        -- intro i. cbn [run_utf8_validation]. rewrite W, E, O4. reflexivity.
        -- rewrite Hs, lr_need_cons, Hr, O4. reflexivity.
  - (* width 0 *)
    assert (E : (b <? 128) = false) by lia.
    right; left. exists 1%nat. split; [cbn [length]; lia|]. split.
    + intro i. cbn [run_utf8_validation]. rewrite W, E. reflexivity.
    + rewrite lr_start_w0 by (assumption || lia). reflexivity.
Qed.

(* ------------------------------------------------------------------ *)
(* validator vs automaton vs decoder, whole slice                     *)
(* ------------------------------------------------------------------ *)

Lemma skipn_app_len : forall (A : Type) (pre rest : list A) n,
  skipn (length pre + n) (pre ++ rest) = skipn n rest.
Proof.
  intros A pre rest n. induction pre as [|x pre IH]; [reflexivity|exact IH].
Qed.

Definition val_rel (v : bytes) (i : nat) : Prop :=
  match run_utf8_validation v i with
  | None => lossy_run SStart v = utf8_chars v /\
            forall j, run_utf8_validation v j = None
  | Some (m, el) =>
      exists p, m = (p + i)%nat /\ (p <= length v)%nat /\
        (forall j, run_utf8_validation (firstn p v) j = None) /\
        match el with
        | None => lossy_run SStart v = utf8_chars (firstn p v) ++ [REPL]
        | Some k => (1 <= k)%nat /\ (p + k <= length v)%nat /\
            lossy_run SStart v =
            utf8_chars (firstn p v) ++ REPL :: lossy_run SStart (skipn (p + k) v)
        end
  end.

Lemma val_main : forall n v, (length v <= n)%nat -> forall i, val_rel v i.
Proof.
  induction n as [|n IHn]; intros v L i.
  - destruct v as [|b r]; [|cbn [length] in L; lia].
    unfold val_rel. cbn [run_utf8_validation]. split; [reflexivity|intro j; reflexivity].
  - destruct v as [|b r].
    { unfold val_rel. cbn [run_utf8_validation].
      split; [reflexivity|intro j; reflexivity]. }
    destruct (step_cases b r) as [G|[B|I]].
    + destruct G as (cp & pre & rest & Ev & Lp & Hrun & Hl & Hc).
      rewrite Ev in L. rewrite Ev. rewrite app_length in L.
      assert (Lr : (length rest <= n)%nat) by lia.
      specialize (IHn rest Lr (length pre + i)%nat).
      unfold val_rel in *. rewrite Hrun.
      destruct (run_utf8_validation rest (length pre + i)) as [[m el]|].
      * destruct IHn as (p & Em & Hp & Hpre & Hel).
        exists (length pre + p)%nat.
        split; [lia|]. split; [rewrite app_length; lia|].
        rewrite firstn_app_2.
        split; [intro j; rewrite Hrun; apply Hpre|].
        destruct el as [k|].
        -- destruct Hel as (Hk & Hpk & Hlr).
           split; [lia|]. split; [rewrite app_length; lia|].
           rewrite Hl, Hc, Hlr.
           replace (length pre + p + k)%nat with (length pre + (p + k))%nat by lia.
           rewrite skipn_app_len. reflexivity.
        -- rewrite Hl, Hc, Hel. reflexivity.
      * destruct IHn as [Hlr Hnone]. split.
        -- rewrite Hl, Hc, Hlr. reflexivity.
        -- intro j. rewrite Hrun. apply Hnone.
    + destruct B as (k & Hk & Hrun & Hl).
      unfold val_rel. rewrite Hrun. exists 0%nat.
      split; [lia|]. split; [lia|]. split; [intro j; reflexivity|].
      split; [lia|]. split; [lia|]. exact Hl.
    + destruct I as (Hrun & Hl).
      unfold val_rel. rewrite Hrun. exists 0%nat.
      split; [lia|]. split; [lia|]. split; [intro j; reflexivity|]. exact Hl.
Qed.

Lemma val_rel_all : forall v i, val_rel v i.
Proof. intros v i. apply (val_main (length v)). lia. Qed.

Lemma from_utf8_none : forall v, from_utf8 v = None -> lossy_spec v = utf8_chars v.
Proof.
  intros v H. pose proof (val_rel_all v 0%nat) as R. unfold val_rel in R.
  unfold from_utf8 in H. rewrite H in R. exact (proj1 R).
Qed.

Lemma from_utf8_some : forall v m el, from_utf8 v = Some (m, el) ->
  (m <= length v)%nat /\ from_utf8 (firstn m v) = None /\
  match el with
  | None => lossy_spec v = utf8_chars (firstn m v) ++ [REPL]
  | Some k => (1 <= k)%nat /\ (m + k <= length v)%nat /\
      lossy_spec v = utf8_chars (firstn m v) ++ REPL :: lossy_spec (skipn (m + k) v)
  end.
Proof.
  intros v m el H. pose proof (val_rel_all v 0%nat) as R. unfold val_rel in R.
  unfold from_utf8 in H. rewrite H in R.
  destruct R as (p & Em & Hp & Hpre & Hel).
  assert (m = p) by lia. subst p.
  split; [exact Hp|]. split; [apply Hpre|]. exact Hel.
Qed.

Theorem from_utf8_valid_prefix : forall v n el,
  from_utf8 v = Some (n, el) -> from_utf8 (firstn n v) = None /\ (n <= length v)%nat.
Proof.
  intros v n el H. destruct (from_utf8_some _ _ _ H) as (A & B & _). split; assumption.
Qed.

Lemma lossy_loop_spec : forall fuel src err dst,
  (length src < fuel)%nat -> from_utf8 src = Some err ->
  lossy_loop fuel src err dst = Done (dst ++ lossy_spec src).
Proof.
  induction fuel as [|f IH]; intros src err dst L H; [lia|].
  destruct err as [m el].
  destruct (from_utf8_some _ _ _ H) as (Hm & Hpre & Hel).
  cbn [lossy_loop]. destruct el as [k|].
  - destruct Hel as (Hk & Hmk & Hl).
    assert (L' : (length (skipn (m + k) src) < f)%nat) by (rewrite skipn_length; lia).
    destruct (from_utf8 (skipn (m + k) src)) as [e|] eqn:E.
    + rewrite (IH _ _ _ L' E). rewrite Hl.
      f_equal. rewrite <- !app_assoc. reflexivity.
    + rewrite <- (from_utf8_none _ E). rewrite Hl.
      f_equal. rewrite <- !app_assoc. reflexivity.
  - rewrite Hel. reflexivity.
Qed.

(* ---- T10b ---- *)
Theorem decode_utf8_lossy_spec : forall v : bytes, decode_utf8 v = Done (lossy_spec v).
Proof.
  intro v. unfold decode_utf8. destruct (from_utf8 v) as [e|] eqn:E.
  - rewrite (lossy_loop_spec _ _ _ [] (Nat.lt_succ_diag_r _) E). reflexivity.
  - rewrite (from_utf8_none _ E). reflexivity.
Qed.

(* ------------------------------------------------------------------ *)
(* damage stays on its line                                           *)
(* ------------------------------------------------------------------ *)

Definition okst (st : lstate) : Prop :=
  match st with SStart => True | SNeed _ lo _ _ => 10 < lo end.

Lemma okst_start : forall b, okst (snd (lossy_start b)).
Proof.
  intro b. unfold lossy_start. case_ifs; cbn [snd okst]; lia.
Qed.

Lemma okst_step : forall st b, okst st -> okst (snd (lossy_step st b)).
Proof.
  intros st b H. destruct st as [|n lo hi acc]; cbn [lossy_step].
  - apply okst_start.
  - destruct (in_rng lo hi b).
    + destruct n; cbn [snd okst]; lia.
    + pose proof (okst_start b) as S. destruct (lossy_start b) as [o st']. exact S.
Qed.

Lemma lossy_step_lf : forall st, okst st -> lossy_step st LF =
  (match st with SStart => [LF] | SNeed _ _ _ _ => [REPL; LF] end, SStart).
Proof.
  intros st H. destruct st as [|n lo hi acc]; cbn [lossy_step].
  - reflexivity.
  - cbn [okst] in H. unfold in_rng, LF.
    destruct ((lo <=? 10) && (10 <=? hi)) eqn:E; [lia|]. reflexivity.
Qed.

Lemma lossy_run_lf : forall a st b, okst st ->
  lossy_run st (a ++ LF :: b) = lossy_run st a ++ LF :: lossy_run SStart b.
Proof.
  induction a as [|x a IH]; intros st b H.
  - cbn [app lossy_run]. rewrite (lossy_step_lf _ H).
    destruct st; reflexivity.
  - cbn [app lossy_run]. pose proof (okst_step st x H) as S.
    destruct (lossy_step st x) as [o st']. cbn [snd] in S.
    rewrite (IH _ _ S). rewrite app_assoc. reflexivity.
Qed.

Theorem lossy_spec_lf : forall a b : bytes,
  lossy_spec (a ++ [LF] ++ b) = lossy_spec a ++ [LF] ++ lossy_spec b.
Proof.
  intros a b. unfold lossy_spec. cbn [app]. apply lossy_run_lf. exact I.
Qed.

(* ------------------------------------------------------------------ *)
(* T10a, UTF-8                                                        *)
(* ------------------------------------------------------------------ *)

Lemma width_2_intro : forall b, 194 <= b < 224 -> utf8_char_width b = 2.
Proof. intros b H. unfold utf8_char_width. case_ifs; lia. Qed.
Lemma width_3_intro : forall b, 224 <= b < 240 -> utf8_char_width b = 3.
Proof. intros b H. unfold utf8_char_width. case_ifs; lia. Qed.
Lemma width_4_intro : forall b, 240 <= b < 245 -> utf8_char_width b = 4.
Proof. intros b H. unfold utf8_char_width. case_ifs; lia. Qed.

Lemma enc_char_cases : forall c, is_scalar c = true ->
  (c < 128 /\ utf8_enc_char c = [c]) \/
  (exists b b1, utf8_enc_char c = [b; b1] /\ utf8_char_width b = 2 /\
     is_cont b1 = true /\ (b mod 32) * 64 + b1 mod 64 = c) \/
  (exists b b1 b2, utf8_enc_char c = [b; b1; b2] /\ utf8_char_width b = 3 /\
     ok3 b b1 = true /\ is_cont b2 = true /\
     ((b mod 16) * 64 + b1 mod 64) * 64 + b2 mod 64 = c) \/
  (exists b b1 b2 b3, utf8_enc_char c = [b; b1; b2; b3] /\ utf8_char_width b = 4 /\
     ok4 b b1 = true /\ is_cont b2 = true /\ is_cont b3 = true /\
     (((b mod 8) * 64 + b1 mod 64) * 64 + b2 mod 64) * 64 + b3 mod 64 = c).
Proof.
  intros c S. unfold is_scalar in S. unfold utf8_enc_char.
  destruct (c <? 128) eqn:E1; [left; split; [lia|reflexivity]|right].
  destruct (c <? 2048) eqn:E2; [left|right].
  { exists (192 + c / 64), (128 + c mod 64). split; [reflexivity|].
    split; [apply width_2_intro; zdm|].
    split; [unfold is_cont; zdm|]. zdm. }
  destruct (c <? 65536) eqn:E3; [left|right].
  { exists (224 + c / 4096), (128 + (c / 64) mod 64), (128 + c mod 64).
    split; [reflexivity|].
    split; [apply width_3_intro; zdm|].
    split; [unfold ok3, in_rng; zdm|].
    split; [unfold is_cont; zdm|]. zdm. }
  exists (240 + c / 262144), (128 + (c / 4096) mod 64), (128 + (c / 64) mod 64),
         (128 + c mod 64).
  split; [reflexivity|].
  split; [apply width_4_intro; zdm|].
  split; [unfold ok4, in_rng; zdm|].
  split; [unfold is_cont; zdm|].
  split; [unfold is_cont; zdm|]. zdm.
Qed.

Lemma enc_char_run : forall c r i, is_scalar c = true ->
  run_utf8_validation (utf8_enc_char c ++ r) i =
  run_utf8_validation r (length (utf8_enc_char c) + i)%nat.
Proof.
  intros c r i S.
  destruct (enc_char_cases c S)
    as [(H & E)|[(b & b1 & E & W & C1 & V)|[(b & b1 & b2 & E & W & O & C2 & V)
       |(b & b1 & b2 & b3 & E & W & O & C2 & C3 & V)]]];
    rewrite E; cbn [app length].
  - apply run_ascii; assumption.
  - apply run_w2; assumption.
  - apply run_w3; assumption.
  - apply run_w4; assumption.
Qed.

Lemma enc_char_chars : forall c r, is_scalar c = true ->
  utf8_chars (utf8_enc_char c ++ r) = c :: utf8_chars r.
Proof.
  intros c r S.
  destruct (enc_char_cases c S)
    as [(H & E)|[(b & b1 & E & W & C1 & V)|[(b & b1 & b2 & E & W & O & C2 & V)
       |(b & b1 & b2 & b3 & E & W & O & C2 & C3 & V)]]];
    rewrite E; cbn [app].
  - apply chars_ascii; assumption.
  - rewrite (chars_w2 _ _ _ W), V. reflexivity.
  - rewrite (chars_w3 _ _ _ _ W), V. reflexivity.
  - rewrite (chars_w4 _ _ _ _ _ W), V. reflexivity.
Qed.

Lemma run_utf8_enc : forall s i, scalar_str s -> run_utf8_validation (utf8_enc s) i = None.
Proof.
  intros s i S. revert i. induction S as [|c s Hc Hs IH]; intro i.
  - reflexivity.
  - unfold utf8_enc. cbn [flat_map]. fold (utf8_enc s).
    rewrite (enc_char_run _ _ _ Hc). apply IH.
Qed.

Theorem from_utf8_utf8_enc : forall s, scalar_str s -> from_utf8 (utf8_enc s) = None.
Proof. intros s S. unfold from_utf8. apply run_utf8_enc; assumption. Qed.

Theorem utf8_chars_utf8_enc : forall s, scalar_str s -> utf8_chars (utf8_enc s) = s.
Proof.
  intros s S. induction S as [|c s Hc Hs IH].
  - reflexivity.
  - unfold utf8_enc. cbn [flat_map]. fold (utf8_enc s).
    rewrite (enc_char_chars _ _ Hc), IH. reflexivity.
Qed.

Theorem utf8_roundtrip : forall s, scalar_str s -> decode Utf8 (utf8_enc s) = Done s.
Proof.
  intros s S. cbn [decode]. unfold decode_utf8.
  rewrite (from_utf8_utf8_enc _ S), (utf8_chars_utf8_enc _ S). reflexivity.
Qed.

Theorem utf8_enc_char_lf : utf8_enc_char LF = [LF].
Proof. reflexivity. Qed.

Theorem utf8_enc_char_no_lf : forall c, is_scalar c = true -> c <> LF ->
  ~ In LF (utf8_enc_char c).
Proof.
  intros c S N. unfold LF in *. unfold is_scalar in S. unfold utf8_enc_char.
  destruct (c <? 128) eqn:E1; [cbn [In]; lia|].
  destruct (c <? 2048) eqn:E2; [cbn [In]; zdm|].
  destruct (c <? 65536) eqn:E3; cbn [In]; zdm.
Qed.

(* ------------------------------------------------------------------ *)
(* T10a, UTF-16                                                       *)
(* ------------------------------------------------------------------ *)

Lemma u16_le_flat : forall us, u16_le (flat_map le_bytes us) = us.
Proof.
  induction us as [|u us IH]; [reflexivity|].
  cbn [flat_map le_bytes app u16_le]. rewrite IH. f_equal. zdm.
Qed.

Lemma u16_be_flat : forall us, u16_be (flat_map be_bytes us) = us.
Proof.
  induction us as [|u us IH]; [reflexivity|].
  cbn [flat_map be_bytes app u16_be]. rewrite IH. f_equal. zdm.
Qed.

Lemma u16_le_flat_odd : forall us x, u16_le (flat_map le_bytes us ++ [x]) = us.
Proof.
  intros us x. induction us as [|u us IH]; [reflexivity|].
  cbn [flat_map le_bytes app u16_le]. rewrite IH. f_equal. zdm.
Qed.

Lemma u16_be_flat_odd : forall us x, u16_be (flat_map be_bytes us ++ [x]) = us.
Proof.
  intros us x. induction us as [|u us IH]; [reflexivity|].
  cbn [flat_map be_bytes app u16_be]. rewrite IH. f_equal. zdm.
Qed.

Theorem u16_le_enc : forall s, scalar_str s -> u16_le (utf16le_enc s) = utf16_units s.
Proof. intros s _. apply u16_le_flat. Qed.

Theorem u16_be_enc : forall s, scalar_str s -> u16_be (utf16be_enc s) = utf16_units s.
Proof. intros s _. apply u16_be_flat. Qed.

Lemma decode_utf16_char : forall c r, is_scalar c = true ->
  decode_utf16 (utf16_units_char c ++ r) = c :: decode_utf16 r.
Proof.
  intros c r S. unfold is_scalar in S. unfold utf16_units_char.
  destruct (c <? 65536) eqn:E; cbn [app decode_utf16].
  - assert (Hs : is_surrogate c = false) by (unfold is_surrogate; lia).
    rewrite Hs. reflexivity.
  - set (hi := 55296 + (c - 65536) / 1024). set (lo := 56320 + (c - 65536) mod 1024).
    assert (Hs : is_surrogate hi = true) by (unfold is_surrogate, hi; zdm).
    assert (Hh : (56320 <=? hi) = false) by (unfold hi; zdm).
    assert (Hl : ((lo <? 56320) || (57343 <? lo)) = false) by (unfold lo; zdm).
    assert (V : (hi mod 1024) * 1024 + lo mod 1024 + 65536 = c) by (unfold hi, lo; zdm).
    rewrite Hs, Hh, Hl, V. reflexivity.
Qed.

Lemma decode_utf16_units_app : forall a r, scalar_str a ->
  decode_utf16 (utf16_units a ++ r) = a ++ decode_utf16 r.
Proof.
  intros a r S. induction S as [|c a Hc Ha IH]; [reflexivity|].
  unfold utf16_units. cbn [flat_map]. fold (utf16_units a).
  rewrite <- app_assoc, (decode_utf16_char _ _ Hc), IH. reflexivity.
Qed.

Theorem decode_utf16_units : forall s, scalar_str s -> decode_utf16 (utf16_units s) = s.
Proof.
  intros s S. rewrite <- (app_nil_r (utf16_units s)).
  rewrite (decode_utf16_units_app _ _ S). cbn [decode_utf16]. apply app_nil_r.
Qed.

Theorem utf16le_roundtrip : forall s, scalar_str s ->
  decode Utf16LE (utf16le_enc s) = Done s.
Proof.
  intros s S. cbn [decode]. rewrite (u16_le_enc _ S), (decode_utf16_units _ S).
  reflexivity.
Qed.

Theorem utf16be_roundtrip : forall s, scalar_str s ->
  decode Utf16BE (utf16be_enc s) = Done s.
Proof.
  intros s S. cbn [decode]. rewrite (u16_be_enc _ S), (decode_utf16_units _ S).
  reflexivity.
Qed.

Theorem utf16le_odd_tail : forall s x, scalar_str s ->
  decode Utf16LE (utf16le_enc s ++ [x]) = Done s.
Proof.
  intros s x S. cbn [decode]. unfold utf16le_enc.
  rewrite u16_le_flat_odd, (decode_utf16_units _ S). reflexivity.
Qed.

Theorem utf16be_odd_tail : forall s x, scalar_str s ->
  decode Utf16BE (utf16be_enc s ++ [x]) = Done s.
Proof.
  intros s x S. cbn [decode]. unfold utf16be_enc.
  rewrite u16_be_flat_odd, (decode_utf16_units _ S). reflexivity.
Qed.

(* first unit of a well-formed text is never a low surrogate *)
Lemma units_char_head : forall c, is_scalar c = true ->
  exists u2 rest, utf16_units_char c = u2 :: rest /\
                  ((u2 <? 56320) || (57343 <? u2)) = true.
Proof.
  intros c S. unfold is_scalar in S. unfold utf16_units_char.
  destruct (c <? 65536) eqn:E.
  - exists c, []. split; [reflexivity|lia].
  - exists (55296 + (c - 65536) / 1024), [56320 + (c - 65536) mod 1024].
    split; [reflexivity|zdm].
Qed.

Theorem utf16_unpaired_surrogate : forall a u b,
  scalar_str a -> scalar_str b -> is_surrogate u = true ->
  decode_utf16 (utf16_units a ++ u :: utf16_units b) = a ++ REPL :: b.
Proof.
  intros a u b Sa Sb Hu. rewrite (decode_utf16_units_app _ _ Sa). f_equal.
  cbn [decode_utf16]. rewrite Hu. cbn [negb].
  destruct (56320 <=? u) eqn:E.
  - rewrite (decode_utf16_units _ Sb). reflexivity.
  - destruct Sb as [|c b Hc Hb]; [reflexivity|].
    pose proof (decode_utf16_units (c :: b) (Forall_cons _ Hc Hb)) as D.
    unfold utf16_units in *. cbn [flat_map] in *.
    destruct (units_char_head _ Hc) as (u2 & rest & Eu & Hu2).
    rewrite Eu in *. cbn [app] in *. rewrite Hu2. rewrite D. reflexivity.
Qed.

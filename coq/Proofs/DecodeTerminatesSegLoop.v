(* DecodeTerminatesSegLoop: Curve::new returns a value when every SEGMENT of
   the control points is covered.

   calculate_path walks the control points with two indices: [start], the
   first point of the current segment, and [i]; it hands `vertices[start..=i]`
   to a sub-path routine when point i is typed or the last one, and goes on
   with start = i.  So the slices are those between two indices with no typed
   control point strictly between them.  BezierIEEECurve.cpath_loop_goodQ asks
   the covering predicate to be closed under ALL slices (hence a bound on the
   whole list); here the loop invariant "no typed point strictly between start
   and i" is carried instead, and the predicate is only needed of the slices
   that satisfy it -- each with a bound E of its own. *)
From RM Require Import Model.ControlPoints Model.Curve Gen.Generated
     Proofs.BezierRefine Proofs.PathFacts Proofs.LengthFacts Proofs.CurveRefine
     Proofs.CurveNoPanic Proofs.ThetaLoop Proofs.BezierIEEE Proofs.BezierIEEETight Proofs.BezierIEEECurve.
Require Import ZifyBool Lia.
Open Scope nat_scope.

Section PathSeg.
  Context {B : Type}.
  Variable bezier : list Pos -> list Pos -> B -> outcome (list Pos * B).
  Variable lm : Libm.
  Variable f : bool.
  Variable Inv : B -> Prop.
  Variable Q : list Pos -> Prop.
  Variable pts : list PathControlPoint.
  Variable verts : list Pos.

  (* no typed control point strictly between start and i *)
  Definition untyped_between (start i : nat) : Prop :=
    forall j cp, start < j < i -> nth_error pts j = Some cp -> pc_type cp = None.

  Hypothesis seg_Q : forall start i, start <= i < length pts -> untyped_between start i ->
    Q (firstn (S i - start) (skipn start verts)).
  Hypothesis bezier_good : forall path sub b, Inv b -> sub <> [] -> Q sub ->
    good f (bezier path sub b) /\ forall path' b', bezier path sub b = Done (path', b') -> Inv b'.
  Hypothesis arc_good : forall a b c, good f (circular_arc_properties lm a b c).

  Lemma cpath_loop_goodS k : forall i start n osu path opt b,
    Inv b -> i + k = n -> start <= i -> untyped_between start i -> length pts = n -> length verts = n ->
    good3 f Inv (cpath_loop bezier lm k i start n osu pts verts path opt b).
  Proof.
    induction k as [|k IH]; intros i start n osu path opt b Hb Hik Hsi Hu Hp Hv; cbn [cpath_loop].
    - apply good3_done; exact Hb.
    - unfold aget at 1. destruct (nth_error pts i) as [cp|] eqn:Ei.
      2:{ apply nth_error_None in Ei. lia. }
      cbn [obind].
      destruct ((match pc_type cp with None => true | Some _ => false end) && Nat.ltb i (n - 1))%bool eqn:Econd.
      + apply IH; try assumption; try lia.
        intros j cp' Hj Hn. destruct (Nat.eq_dec j i) as [->|Hne].
        * rewrite Ei in Hn. injection Hn as <-. apply andb_true_iff in Econd. destruct Econd as [Ec _].
          destruct (pc_type cp); [discriminate|reflexivity].
        * apply (Hu j cp'); [lia|exact Hn].
      + assert (Hvac : untyped_between i (S i)) by (intros j cp' Hj; lia).
        replace (Nat.ltb i start || Nat.leb (length verts) i)%bool with false.
        2:{ symmetry. apply Bool.orb_false_iff. split; [apply Nat.ltb_ge; lia|apply Nat.leb_gt; lia]. }
        assert (Hlen : length (firstn (S i - start) (skipn start verts)) = S i - start).
        { rewrite firstn_length, skipn_length. lia. }
        pose proof (seg_Q start i ltac:(lia) Hu) as HQs.
        destruct (firstn (S i - start) (skipn start verts)) as [|v [|v2 t]] eqn:Eseg.
        * cbn [length] in Hlen. lia.
        * apply IH; try assumption; lia.
        * destruct (aget_lt pts start ltac:(lia)) as (cps & ->). cbn [obind].
          pose proof (calculate_subpath_goodQ bezier lm f Inv Q bezier_good arc_good osu path (v :: v2 :: t)
                        (match pc_type cps with None => Linear | Some t0 => t0 end) opt b Hb
                        ltac:(discriminate) HQs) as [Hg Hi].
          destruct (calculate_subpath bezier lm osu path (v :: v2 :: t) _ opt b) as [[[path' opt'] b']| |];
            cbn [obind].
          -- apply IH; try lia; try assumption. exact (Hi _ _ _ eq_refl).
          -- contradiction.
          -- split; [exact Hg|discriminate].
  Qed.
End PathSeg.

(* Curve::new at the pure level: a value, when every slice `vertices[start..=i]`
   between consecutive typed control points is covered for some E of its own *)
Theorem curve_L1_bounded_seg lm mode pts e :
  atan2_in_range lm ->
  (forall start i, start <= i < length pts -> untyped_between pts start i ->
     exists E, (0 <= E)%Z /\ covered E (firstn (S i - start) (skipn start (map pc_pos pts)))) ->
  exists c, curve_L1 lm bezier_fuel mode pts e = Done c.
Proof.
  intros Hlm Hseg. apply good_false_iff.
  unfold curve_L1. apply good_obind.
  2:{ intros [path opt] _. destruct (calculate_length_done path e opt) as ([path' lens] & ->). exact I. }
  unfold calculate_path_L1. destruct pts as [|p0 pt]; [exact I|].
  set (pts := p0 :: pt) in *.
  assert (H : @good3 unit false (fun _ => True)
                (cpath_loop (approximate_bezier_L1 bezier_fuel) lm (length pts) 0 0 (length pts) (is_osu mode)
                   pts (map pc_pos pts) [] D.zero tt)).
  { apply (cpath_loop_goodS _ lm false (fun _ => True) (fun sub => exists E, (0 <= E)%Z /\ covered E sub) pts
             (map pc_pos pts)); try lia; try exact I.
    - exact Hseg.
    - intros path sub [] _ Hne (E & HE & HF & HKs). split; [|auto].
      apply good_false_iff.
      destruct (T01g_ieee_bounded_tight E path sub HE HKs Hne HF) as (p' & ->). eauto.
    - intros a b c. apply good_false_iff. apply circular_arc_properties_done. exact Hlm.
    - intros j cp Hj. lia.
    - apply map_length. }
  destruct H as [H _]. apply good_obind; [exact H|].
  intros [[path opt] u] _. exact I.
Qed.

(* Enc3Map: the whole-map statements of C02 -- T02b / T02e composed with the framing theorem, and
   the top-level theorem combining T02a + T02d + T02b / T02e for a decoded map outside the
   recorded classes. *)
From RM Require Import Model.EncSpec Model.EncObjCarry Model.EncPathSpec Proofs.EncFmt Proofs.EncImage Proofs.EncEdit
     Proofs.EncRound Proofs.EncObjectsRT Proofs.Enc2Samples Proofs.Enc2SampleShape Proofs.MapLevelFacts
     Proofs.MapLevelConcrete Proofs.Enc2Slider Proofs.FramingFacts Proofs.DecodersFacts
     Proofs.Enc2Framing Proofs.Enc3Framing Proofs.Enc3Timing Proofs.Enc3Objects Proofs.Enc3Chrono Proofs.Enc3NodeInv.
From RM Require Import Model.EncTimingSpec Proofs.ControlPointsFacts Proofs.EncTimingParse Proofs.EncTimingRT
     Proofs.Enc2Timing Proofs.Enc2SvRT.
From RM Require Import Model.DrvEnc Proofs.DecodedValues Proofs.EncGroups Proofs.EncTimingImage.
From RM Require Model.Curve.
From RM Require Import Gen.Generated.
From Coq Require Import Sorting.Sorted.
Open Scope Z_scope.

(* the hit objects of a decoded map are in non-decreasing order of start time (C15 T15a) *)
Lemma decoded_objects_sorted dist lines m :
  decode_beatmap dist lines = Done m -> StronglySorted Z.le (map start_key (hov_hit_objects (bmv_ho m))).
Proof.
  unfold decode_beatmap. rewrite driver_refines.
  destruct (feed bm_parsers _ _) as [s|w|]; cbn [obind]; try discriminate.
  intros Hb. destruct (bmd_finish_inv dist s m Hb) as (_ & _ & _ & _ & Hh).
  destruct (hod_finish_inv dist _ _ Hh) as (_ & _ & _ & _ & Hf).
  exact (finish_sorted dist _ _ _ _ _ _ Hf).
Qed.

Lemma ho_run_objects_nil mode ls st' rs raws :
  ho_run (ho_create mode) ls = Done (st', rs) -> ho_objects st' = ho_objects (ho_create mode) ++ raws -> ho_objects st' = raws.
Proof. intros _ H. exact H. Qed.

(* the velocity of a decoded slider is a closed form over SliderMultiplier, the mode, the timing
   points and the slider-velocity timeline: two decoded maps (decoded with ANY two curve functions)
   that agree on these give sliders with the same start time the same velocity *)
Lemma decoded_velocity_eq2 dist1 dist2 lines1 lines2 m1 m2 h1 h2 s1 s2 :
  decode_beatmap dist1 lines1 = Done m1 -> decode_beatmap dist2 lines2 = Done m2 ->
  let ho1 := bmv_ho m1 in let ho2 := bmv_ho m2 in
  d_slider_multiplier (hov_difficulty ho1) = d_slider_multiplier (hov_difficulty ho2) ->
  g_mode (hov_general ho1) = g_mode (hov_general ho2) ->
  cp_timing (hov_control_points ho1) = cp_timing (hov_control_points ho2) ->
  (forall t, sv_at (hov_control_points ho1) t = sv_at (hov_control_points ho2) t) ->
  In h1 (hov_hit_objects ho1) -> In h2 (hov_hit_objects ho2) ->
  h_kind h1 = KSlider s1 -> h_kind h2 = KSlider s2 -> h_start h1 = h_start h2 ->
  sl_velocity s1 = sl_velocity s2.
Proof.
  intros Hd1 Hd2 ho1 ho2 Hsm Hmode Htp Hsv Hin1 Hin2 Hk1 Hk2 Hst.
  destruct (decoded_values dist1 lines1 m1 Hd1) as (_ & _ & _ & _ & V1).
  destruct (decoded_values dist2 lines2 m2 Hd2) as (_ & _ & _ & _ & V2).
  rewrite Forall_forall in V1, V2. specialize (V1 h1 Hin1). specialize (V2 h2 Hin2).
  rewrite Hk1 in V1. rewrite Hk2 in V2. rewrite V1, V2, Hst.
  apply velocity_closed_form_eq.
  - exact (decoded_map_cp_sorted dist1 lines1 m1 Hd1).
  - exact (decoded_map_cp_sorted dist2 lines2 m2 Hd2).
  - exact Hsm.
  - exact Hmode.
  - exact Htp.
  - apply Hsv.
Qed.

Lemma Forall2_impl' {A B} (R S : A -> B -> Prop) : (forall a b, R a b -> S a b) -> forall l1 l2, Forall2 R l1 l2 -> Forall2 S l1 l2.
Proof. intros H l1 l2 F. induction F; constructor; auto. Qed.

Lemma Forall2_with_in {A B} (R : A -> B -> Prop) : forall l1 l2, Forall2 R l1 l2 ->
  Forall2 (fun a b => R a b /\ In a l1 /\ In b l2) l1 l2.
Proof.
  induction 1 as [|a b l1 l2 Hab H IH]; constructor.
  - split; [exact Hab|split; left; reflexivity].
  - eapply Forall2_impl'; [|exact IH]. intros x y (Hr & H1 & H2). split; [exact Hr|split; right; assumption].
Qed.

(* velocities of corresponding sliders *)
Definition same_velocity (h o : HitObject) : Prop :=
  match h_kind h, h_kind o with
  | KSlider s, KSlider s' => sl_velocity s' = sl_velocity s
  | _, _ => True
  end.

(* [final_rel] for the objects of a DECODED map: the two image premises of the slider clause are
   facts (Proofs/Enc3NodeInv.v), what remains is the class D31 -- a node with a file name *)
Definition final_rel_decoded (lm : Curve.Libm) (h o : HitObject) : Prop :=
  match h_kind h with
  | KSlider s =>
      exists c s',
        slider_curve lm s = Done c /\
        h_start o = h_start h /\ h_kind o = KSlider s' /\
        sl_pos s' = sl_pos s /\
        sl_control_points s' = sl_control_points s /\
        sl_repeat_count s' = sl_repeat_count s /\
        length (sl_node_samples s') = Z.to_nat (sl_repeat_count s + 2) /\
        sl_expected_dist s' = reread_len (written_of (sl_expected_dist s) c) /\
        slider_curve lm s' = Done c /\
        sl_mode s' = sl_mode s /\
        sl_new_combo s' = sl_new_combo s /\
        sl_combo_offset s' = (if sl_new_combo s then sl_combo_offset s else 0) /\
        carry_samples (h_samples o) = carry_samples (h_samples h) /\
        (forall i l, (i < Z.to_nat (sl_repeat_count s + 2))%nat -> nth_error (sl_node_samples s) i = Some l ->
           first_file l = None ->
           exists l2, nth_error (sl_node_samples s') i = Some l2 /\ carry_samples l2 = carry_samples l)
  | _ => carry_object o = carry_object h
  end.

Lemma final_rel_strengthen lm h o : nodes_image h -> final_rel lm h o -> final_rel_decoded lm h o.
Proof.
  unfold nodes_image, final_rel, final_rel_decoded. destruct (h_kind h) as [ci|s|s|hd]; try (intros _ H; exact H).
  intros (Hn & Hf) (c & s' & Q1 & Q2 & Q3 & Q4 & Q5 & Q6 & Q7 & Q8 & Q9 & Q10 & Q11 & Q12 & Q13 & Q14).
  exists c, s'. repeat (split; [assumption|]). split; [exact (Q13 Hf)|].
  intros i l Hi Hl Hnf. apply (Q14 i l Hi Hl); [|exact Hnf].
  rewrite Forall_forall in Hn. exact (Hn l (nth_error_In _ _ Hl)).
Qed.

Lemma final_rel_strengthen_all lm : forall objs out,
  Forall nodes_image objs -> Forall2 (final_rel lm) objs out -> Forall2 (final_rel_decoded lm) objs out.
Proof.
  induction objs as [|h r IH]; intros out Hn H; inversion H; subst; constructor.
  - apply final_rel_strengthen; [exact (Forall_inv Hn)|assumption].
  - apply IH; [exact (Forall_inv_tail Hn)|assumption].
Qed.

Section Map.
  Variable lm : Curve.Libm.
  Variables (fmt_f64 : F64 -> str) (fmt_f32 : F32 -> str) (fmt_int : Z -> str).
  Hypothesis Hfmt : fmt_ok fmt_f64 fmt_f32 fmt_int.
  Hypothesis Hlead : no_leading_zero fmt_int.
  Hypothesis H32 : fmt_f32_int fmt_f32 fmt_int.
  Notation rline := (render fmt_f64 fmt_f32 fmt_int).
  Notation dist := (dist_real lm).

  (* the recorded classes of the hit-object part, for a whole map: every object outside its classes
     ([obj_classes]), and the new-combo flags consistent with the object order ([combo_chain]) *)
  Definition objects_classes (m : BeatmapV) : Prop :=
    let h := bmv_ho m in
    Forall (obj_classes lm (g_mode (hov_general h))) (hov_hit_objects h) /\
    combo_chain (ev_breaks (hov_events h)) true (hov_hit_objects h) = true.

  Theorem decoded_encoding_objects events lines m c ls dist2 m2 :
    Forall no_lf_line lines -> decode_beatmap dist lines = Done m -> d23_class m = false ->
    enc_control_points dist events m = Done c ->
    rt_classes (g_mode (hov_general (bmv_ho m))) c = true ->
    objects_classes m ->
    encode_lines dist events m = Done ls ->
    decode_beatmap dist2 (map rline ls) = Done m2 ->
    Forall2 (final_rel lm) (hov_hit_objects (bmv_ho m)) (hov_hit_objects (bmv_ho m2)).
  Proof.
    intros Hl Hd H23 Ec Hcls (Hobj & Hcombo) He Hd2.
    pose proof (decode_image_inv dist lines m Hl Hd H23) as Hok.
    destruct (encoding_computed_sections_decoded fmt_f64 fmt_f32 fmt_int Hfmt dist events m ls dist2 m2 Hok He Hd2)
      as (tp & ho & Etp & Eho & Hrest). cbv zeta in Hrest.
    set (g := tpg_of (hov_general (bmv_ho (read_back m)))) in *.
    assert (Hg : tpg_mode g = g_mode (hov_general (bmv_ho m))) by reflexivity.
    rewrite <- Hg in Hcls.
    destruct (decoded_timing_round_trip_final dist events fmt_f64 fmt_f32 fmt_int Hfmt Hlead lines m c g Hl Hd Ec Hcls)
      as (tp' & c' & Etp' & Hdec & _).
    rewrite Etp in Etp'. injection Etp' as <-.
    unfold tp_decode in Hdec.
    destruct (tp_run (tp_init g) (map rline tp)) as [[ts rs]| |] eqn:Erun; cbn [obind] in Hdec; try discriminate.
    destruct (Hrest ts rs eq_refl) as (_ & hs & hrs & Hrun & Hfin). clear Hrest Hdec.
    change (g_mode (hov_general (bmv_ho (read_back m)))) with (g_mode (hov_general (bmv_ho m))) in Hrun, Hfin.
    change (hov_events (bmv_ho (read_back m))) with (hov_events (bmv_ho m)) in Hfin.
    set (mode := g_mode (hov_general (bmv_ho m))) in *.
    set (objs := hov_hit_objects (bmv_ho m)) in *.
    (* part 1 *)
    pose proof (decoded_elen_img dist lines m Hd) as Helen. fold objs in Helen.
    pose proof (decoded_objects_shape dist lines m Hl Hd) as Hshape. fold objs in Hshape.
    assert (Hin : Forall (fun h => In h objs) objs) by (apply Forall_forall; intros x Hx; exact Hx).
    assert (Hline : Forall (line_hyps lm mode) objs).
    { rewrite Forall_forall in Hobj, Helen |- *. intros h Hh. specialize (Hobj h Hh). specialize (Helen h Hh).
      unfold line_hyps, obj_classes in *.
      destruct (h_kind h) as [ci|s|s|hd] eqn:Hk.
      - apply (decoded_object_ok dist lines m h Hl Hd Hh); [rewrite Hk; exact I|exact Hobj|unfold d26_class; rewrite Hk; reflexivity].
      - split; [exact Helen|exact Hobj].
      - destruct Hobj as (A & B & _). apply (decoded_object_ok dist lines m h Hl Hd Hh); [rewrite Hk; exact I|exact A|exact B].
      - destruct Hobj as (A & B & _). apply (decoded_object_ok dist lines m h Hl Hd Hh); [rewrite Hk; exact I|exact A|exact B]. }
    destruct (object_lines_reread lm fmt_f64 fmt_f32 fmt_int Hfmt H32 mode objs ho Eho Hline (ho_create mode) eq_refl)
      as (st' & rs' & raws & Hrun' & Hraws & Hchain).
    rewrite Hrun in Hrun'. injection Hrun' as <- _. cbn [ho_create ho_objects app] in Hraws.
    change (fs (ho_create mode)) with true in Hchain.
    (* part 2 *)
    assert (Hfh : Forall finish_hyps objs).
    { rewrite Forall_forall in Hobj, Hshape |- *. intros h Hh. destruct (Hshape h Hh) as (K & S). specialize (Hobj h Hh).
      unfold finish_hyps, obj_classes in *. split; [exact K|]. split; [exact S|].
      destruct (h_kind h); try exact I; destruct Hobj as (_ & _ & T); exact T. }
    rewrite Hraws in Hfin.
    exact (finish_reread lm dist2 _ _ _ _ mode objs raws _ Hchain Hfh (decoded_objects_sorted dist lines m Hd) Hcombo Hfin).
  Qed.

  (* ---------- the top-level statement ---------- *)

  (* ONE statement for a decoded map outside the recorded classes: simple sections (T02a), timing
     points and timelines (T02d), hit objects (T02b / T02e) *)
  Theorem round_trip_decoded_map events lines m c ls dist2 m2 :
    Forall no_lf_line lines -> decode_beatmap dist lines = Done m -> d23_class m = false ->
    enc_control_points dist events m = Done c ->
    rt_classes (g_mode (hov_general (bmv_ho m))) c = true ->
    objects_classes m ->
    encode_lines dist events m = Done ls ->
    decode_beatmap dist2 (map rline ls) = Done m2 ->
    let c0 := hov_control_points (bmv_ho m) in
    let c2 := hov_control_points (bmv_ho m2) in
    (bmv_version m2 = bmv_version m /\
     hov_general (bmv_ho m2) = hov_general (bmv_ho (read_back m)) /\
     bmv_editor m2 = bmv_editor (read_back m) /\
     bmv_metadata m2 = bmv_metadata (read_back m) /\
     hov_difficulty (bmv_ho m2) = hov_difficulty (bmv_ho (read_back m)) /\
     hov_events (bmv_ho m2) = hov_events (bmv_ho (read_back m)) /\
     bmv_colors m2 = bmv_colors (read_back m)) /\
    (cp_timing c2 = cp_timing c0 /\
     (forall t, sv_at c2 t = sv_at c0 t) /\
     (forall t, kiai_at c2 t = kiai_at c0 t) /\
     (forall t, scroll_at c2 t = scroll_at c0 t)) /\
    Forall2 (final_rel_decoded lm) (hov_hit_objects (bmv_ho m)) (hov_hit_objects (bmv_ho m2)).
  Proof.
    intros Hl Hd H23 Ec Hcls Hobj He Hd2. cbv zeta. split; [|split].
    - exact (decoded_encoding_simple_sections fmt_f64 fmt_f32 fmt_int Hfmt dist events lines m ls dist2 m2 Hl Hd H23 He Hd2).
    - exact (decoded_encoding_timing fmt_f64 fmt_f32 fmt_int Hfmt Hlead dist events lines m c ls dist2 m2 Hl Hd H23 Ec Hcls He Hd2).
    - apply final_rel_strengthen_all; [exact (decoded_nodes_image dist lines m Hl Hd)|].
      exact (decoded_encoding_objects events lines m c ls dist2 m2 Hl Hd H23 Ec Hcls Hobj He Hd2).
  Qed.

  (* the same with the property's own hypothesis in place of [combo_chain]: the accepted hit-object
     lines of the input are in chronological order *)
  Theorem round_trip_chronological events lines m c ls dist2 m2 :
    Forall no_lf_line lines -> decode_beatmap dist lines = Done m -> d23_class m = false ->
    StronglySorted Z.le (map start_key (raw_objects lines)) ->
    enc_control_points dist events m = Done c ->
    rt_classes (g_mode (hov_general (bmv_ho m))) c = true ->
    Forall (obj_classes lm (g_mode (hov_general (bmv_ho m)))) (hov_hit_objects (bmv_ho m)) ->
    encode_lines dist events m = Done ls ->
    decode_beatmap dist2 (map rline ls) = Done m2 ->
    let c0 := hov_control_points (bmv_ho m) in
    let c2 := hov_control_points (bmv_ho m2) in
    (bmv_version m2 = bmv_version m /\
     hov_general (bmv_ho m2) = hov_general (bmv_ho (read_back m)) /\
     bmv_editor m2 = bmv_editor (read_back m) /\
     bmv_metadata m2 = bmv_metadata (read_back m) /\
     hov_difficulty (bmv_ho m2) = hov_difficulty (bmv_ho (read_back m)) /\
     hov_events (bmv_ho m2) = hov_events (bmv_ho (read_back m)) /\
     bmv_colors m2 = bmv_colors (read_back m)) /\
    (cp_timing c2 = cp_timing c0 /\
     (forall t, sv_at c2 t = sv_at c0 t) /\
     (forall t, kiai_at c2 t = kiai_at c0 t) /\
     (forall t, scroll_at c2 t = scroll_at c0 t)) /\
    Forall2 (final_rel_decoded lm) (hov_hit_objects (bmv_ho m)) (hov_hit_objects (bmv_ho m2)).
  Proof.
    intros Hl Hd H23 Hch Ec Hcls Hobj He Hd2.
    exact (round_trip_decoded_map events lines m c ls dist2 m2 Hl Hd H23 Ec Hcls
             (conj Hobj (decoded_combo_chain dist lines m Hd Hch)) He Hd2).
  Qed.

  (* ... and the velocities of the sliders: same SliderMultiplier (T02a), mode, timing points and
     slider-velocity timeline (T02d), same start time (T02e) *)
  Theorem round_trip_velocities events lines m c ls dist2 m2 :
    Forall no_lf_line lines -> decode_beatmap dist lines = Done m -> d23_class m = false ->
    enc_control_points dist events m = Done c ->
    rt_classes (g_mode (hov_general (bmv_ho m))) c = true ->
    objects_classes m ->
    encode_lines dist events m = Done ls ->
    decode_beatmap dist2 (map rline ls) = Done m2 ->
    Forall2 same_velocity (hov_hit_objects (bmv_ho m)) (hov_hit_objects (bmv_ho m2)).
  Proof.
    intros Hl Hd H23 Ec Hcls Hobj He Hd2.
    destruct (round_trip_decoded_map events lines m c ls dist2 m2 Hl Hd H23 Ec Hcls Hobj He Hd2)
      as ((_ & Hg & _ & _ & Hdf & _) & (Ht & Hsv & _) & Hrel). cbv zeta in Ht, Hsv.
    eapply Forall2_impl'; [|exact (Forall2_with_in _ _ _ Hrel)].
    intros h o (Hr & Hin1 & Hin2). unfold same_velocity, final_rel_decoded in *.
    destruct (h_kind h) as [ci|s|s|hd] eqn:Hk; try exact I.
    destruct Hr as (cv & s' & _ & Hs & Hk' & _). rewrite Hk'.
    symmetry. apply (decoded_velocity_eq2 dist dist2 lines (map rline ls) m m2 h o s s' Hd Hd2); try assumption.
    - rewrite Hdf. reflexivity.
    - rewrite Hg. reflexivity.
    - symmetry. exact Ht.
    - intros t0. symmetry. apply Hsv.
    - symmetry. exact Hs.
  Qed.
End Map.

Print Assumptions round_trip_decoded_map.
Print Assumptions round_trip_chronological.
Print Assumptions round_trip_velocities.

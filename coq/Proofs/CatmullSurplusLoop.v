(* CatmullSurplusLoop: the osu!-mode simplification of a Catmull sub-path
   (catmull_simplify) keeps the surplus small against the path.

   Invariant [SInv c path opt] on the path built so far and the surplus [opt]
   (c: a counter, at least the number of groups closed so far):
       opt finite,   |opt| <= 2^60 * c,
       - opt <= (3/4 + 2 c u) * Lam path            (u = 2^-53)
   where [Lam path] is the real sum of the binary64 segment lengths
   calculate_length will add.  One group  last_start .. curr  of removed
   points adds  r - d  to opt (r: the running binary64 sum of the binary32
   step lengths, d: the binary32 chord length) and the segment
   last_start -> curr, whose length has the SAME value d, to the path.
   With every step either degenerate (numerically equal end points) or at
   least 2^-60 long, and coordinates |c| <= 2^20:
       r >= (1 - calpha) * (exact length of the steps) >= (1 - calpha) * chord
   (triangle inequality) and  d <= 1.01 chord  or, for a chord below 2^-60
   with a non-degenerate step,  d < 2^-59 <= 4 r;  in every case  d <= 4 r,
   so  -(r - d) <= 3/4 d:  a group takes at most 3/4 of what it adds. *)
From RM Require Import Model.ControlPoints Model.Curve Proofs.FloatFacts Proofs.LengthFacts Proofs.LengthBound
  Proofs.FloatNonneg Proofs.CurveDistNonneg
  Proofs.AdjustExact Proofs.AdjustIEEEBase Proofs.AdjustIEEE Proofs.AdjustIEEESum Proofs.AdjustIEEELen
  Proofs.CatmullSurplusFold Proofs.CatmullSurplusLen Proofs.CatmullSurplusSeg.
From Flocq Require Import Core BinarySingleNaN.
From Coq Require Import Reals Lra Psatz Lia List.
Import ListNotations.
Open Scope R_scope.

Local Notation fin x := (is_finite x = true).
Local Notation pw k := (bpow radix2 k).

(* ---------- the real sum of the segment lengths of a path ---------- *)

Definition Lam (path : list Pos) : R := Rsum (seg_lens path).

Lemma seg_lens_app p a q : seg_lens (p ++ a :: q) = seg_lens (p ++ [a]) ++ seg_lens (a :: q).
Proof.
  induction p as [|x p IH]; [reflexivity|].
  destruct p as [|y p].
  - destruct q; reflexivity.
  - change ((x :: y :: p) ++ a :: q) with (x :: y :: (p ++ a :: q)).
    change ((x :: y :: p) ++ [a]) with (x :: y :: (p ++ [a])).
    cbn [seg_lens]. cbn [app] in IH. cbn [seg_lens] in IH. rewrite <- app_comm_cons. f_equal. exact IH.
Qed.

Lemma Lam_nonneg p : 0 <= Lam p.
Proof. apply Rsum_nonneg. apply seg_lens_nn. Qed.

Lemma Lam_split p a q : Lam (p ++ a :: q) = Lam (p ++ [a]) + Lam (a :: q).
Proof. unfold Lam. rewrite seg_lens_app, Rsum_app. reflexivity. Qed.

Lemma Lam_app_ge p q : Lam p <= Lam (p ++ q).
Proof.
  destruct p as [|x p'] eqn:Ep; [cbn [app]; unfold Lam at 1; cbn; apply Lam_nonneg|].
  assert (Hne : x :: p' <> []) by discriminate.
  destruct (exists_last Hne) as (p0 & a & E). rewrite E, <- app_assoc. cbn [app].
  rewrite (Lam_split p0 a q). pose proof (Lam_nonneg (a :: q)). lra.
Qed.

Lemma Lam_snoc p0 q x : Lam ((p0 ++ [q]) ++ [x]) = Lam (p0 ++ [q]) + B2R (f64_of_f32 (plen (psub x q))).
Proof. rewrite <- app_assoc. cbn [app]. rewrite Lam_split. unfold Lam at 2. cbn [seg_lens Rsum]. ring. Qed.

Lemma widened_le (x : F32) : B2R (f64_of_f32 x) <= pw 128.
Proof.
  destruct (is_finite x) eqn:F.
  - destruct (f64_of_f32_exact x F) as (_ & E). rewrite E.
    pose proof (abs_B2R_lt_emax 24 128 x) as A. apply Rabs_def2 in A. lra.
  - pose proof (bpow_gt_0 radix2 128). destruct x as [s|s| |s m e Hm]; try discriminate; cbn; lra.
Qed.

Lemma Lam_le p : Lam p <= pw 128 * INR (length p).
Proof.
  unfold Lam. induction p as [|a [|b t] IH].
  - cbn. lra.
  - cbn. lra.
  - change (seg_lens (a :: b :: t)) with (f64_of_f32 (plen (psub b a)) :: seg_lens (b :: t)).
    cbn [Rsum]. change (length (a :: b :: t)) with (S (length (b :: t))). rewrite S_INR.
    pose proof (widened_le (plen (psub b a))). rewrite Rmult_plus_distr_l, Rmult_1_r. lra.
Qed.

(* ---------- the invariant ---------- *)

Definition cmax : R := 1073741824.     (* 2^30 *)

Definition SInv (c : nat) (path : list Pos) (opt : F64) : Prop :=
  fin opt /\ Rabs (B2R opt) <= pw 60 * INR c /\
  - B2R opt <= (3 / 4 + 2 * INR c * u64) * Lam path.

Lemma SInv_mono c c' p p' opt : SInv c p opt -> (c <= c')%nat -> Lam p <= Lam p' -> SInv c' p' opt.
Proof.
  intros (F & U & N) Hc HL. pose proof (le_INR _ _ Hc) as Hc'. pose proof (pos_INR c) as P.
  pose proof (bpow_gt_0 radix2 60). pose proof u64_pos as Up. pose proof (Lam_nonneg p).
  split; [exact F|]. split; [nra|].
  apply Rle_trans with ((3 / 4 + 2 * INR c * u64) * Lam p); [exact N|].
  apply Rmult_le_compat; nra.
Qed.

Lemma SInv_zero : SInv 0 [] D.zero.
Proof.
  split; [reflexivity|]. split; [cbn; rewrite Rabs_R0; lra|].
  unfold Lam. cbn. lra.
Qed.

Lemma p60 : pw 60 = 1152921504606846976. Proof. cbn. lra. Qed.
Lemma p54 : pw 54 = 18014398509481984. Proof. cbn. lra. Qed.
Lemma p22 : pw 22 = 4194304. Proof. cbn. lra. Qed.
Lemma p23 : pw 23 = 8388608. Proof. cbn. lra. Qed.

(* one group: opt += r - d, the path gains a segment of length d <= 4 r *)
Lemma SInv_group c path path' opt (rem dfs : F64) :
  SInv c path opt -> INR c + 1 <= cmax ->
  fin rem -> fin dfs -> 0 <= B2R dfs -> B2R dfs <= 4 * B2R rem -> B2R rem <= pw 54 ->
  Lam path' = Lam path + B2R dfs ->
  SInv (S c) path' (D.add opt (D.sub rem dfs)).
Proof.
  intros (Fo & Uo & No) Hc Fr Fd Hd0 Hdr Hr HLam.
  pose proof u64_pos as Up. assert (Hu1 : u64 <= / 1000000) by (unfold u64; lra).
  pose proof (pos_INR c) as Pc. pose proof (Lam_nonneg path) as PL.
  apply Rabs_le_inv in Uo.
  set (o := B2R opt) in *. set (r := B2R rem) in *. set (d := B2R dfs) in *. set (L := Lam path) in *.
  set (A := pw 60) in *. set (B := pw 54) in *.
  assert (HB : 0 < B) by apply bpow_gt_0.
  assert (HA : A = 64 * B).
  { unfold A, B. change 60%Z with (6 + 54)%Z. rewrite bpow_plus. change (pw 6) with 64. reflexivity. }
  assert (Hr0 : 0 <= r) by lra.
  assert (Hcm : INR c <= 1073741824) by (unfold cmax in Hc; lra).
  set (kap := 3 / 4 + 2 * INR c * u64) in *.
  assert (Hk0 : 3 / 4 <= kap) by (unfold kap; assert (0 <= INR c * u64) by (apply Rmult_le_pos; lra); lra).
  assert (Hk1 : kap <= 1) by (unfold kap, u64; lra).
  assert (Hrd : Rabs (r - d) <= A) by (apply Rabs_le; lra).
  destruct (D_sub_spec rem dfs 60 Fr Fd ltac:(zl) Hrd) as (Ft & Mt & (dt & Et & Bt)).
  fold r d in Et. set (t := B2R (D.sub rem dfs)) in *.
  apply Rabs_le_inv in Bt.
  (* - t <= 3/4 (1 + u) d  and  t <= B (1 + u) *)
  assert (Ht1 : - t <= 3 / 4 * (1 + u64) * d).
  { assert (Hd1 : 0 <= 3 / 4 * (1 + u64) * d) by (apply Rmult_le_pos; [lra|exact Hd0]).
    rewrite Et. destruct (Rle_or_lt 0 (r - d)) as [Hp|Hn].
    { assert (0 <= (r - d) * (1 + dt)) by (apply Rmult_le_pos; lra). lra. }
    assert (- ((r - d) * (1 + dt)) = (d - r) * (1 + dt)) by ring.
    assert ((d - r) * (1 + dt) <= (d - r) * (1 + u64)) by (apply Rmult_le_compat_l; lra).
    assert ((d - r) * (1 + u64) <= 3 / 4 * d * (1 + u64)) by (apply Rmult_le_compat_r; lra). lra. }
  assert (Ht2 : t <= B * (1 + u64)).
  { rewrite Et. destruct (Rle_or_lt 0 (r - d)) as [Hp|Hn].
    - apply Rle_trans with ((r - d) * (1 + u64)); [apply Rmult_le_compat_l; lra|].
      apply Rmult_le_compat_r; lra.
    - assert ((r - d) * (1 + dt) <= 0).
      { replace ((r - d) * (1 + dt)) with (- ((d - r) * (1 + dt))) by ring.
        assert (0 <= (d - r) * (1 + dt)) by (apply Rmult_le_pos; lra). lra. }
      assert (0 <= B * (1 + u64)) by (apply Rmult_le_pos; lra). lra. }
  (* magnitudes *)
  assert (Q299 : forall j, (j <= 299)%Z -> pw j <= pw 299) by (intros j Hj; apply bpow_le; exact Hj).
  assert (Ho299 : A * INR c <= pw 299).
  { apply Rle_trans with (A * 1073741824); [apply Rmult_le_compat_l; [left; apply bpow_gt_0|exact Hcm]|].
    replace 1073741824 with (pw 30) by (cbn; lra). unfold A. rewrite <- bpow_plus. apply Q299. zl. }
  assert (HB299 : 4 * B <= pw 299).
  { replace 4 with (pw 2) by (cbn; lra). unfold B. rewrite <- bpow_plus. apply Q299. zl. }
  assert (Hd4B : d <= 4 * B) by lra.
  assert (Hnt : - t <= 4 * B).
  { apply Rle_trans with (1 := Ht1). apply Rle_trans with (1 * d); [apply Rmult_le_compat_r; lra|lra]. }
  assert (Htu : t <= 4 * B).
  { apply Rle_trans with (1 := Ht2). apply Rle_trans with (B * 4); [apply Rmult_le_compat_l; lra|lra]. }
  assert (Hot : Rabs (o + t) <= pw 300).
  { change 300%Z with (299 + 1)%Z. rewrite bpow_plus. change (pw 1) with 2. apply Rabs_le. lra. }
  destruct (D_add_spec opt (D.sub rem dfs) 300 Fo Ft ltac:(zl) Hot) as (Fo' & _ & (da & Ea & Ba)).
  fold o t in Ea. apply Rabs_le_inv in Ba.
  split; [exact Fo'|]. rewrite Ea. rewrite S_INR. rewrite HLam. fold L d. fold A.
  split.
  - (* magnitude *)
    rewrite Rabs_mult. rewrite (Rabs_pos_eq (1 + da)) by lra.
    assert (Hab : Rabs (o + t) <= A * INR c + 4 * B) by (apply Rabs_le; lra).
    apply Rle_trans with (Rabs (o + t) * (1 + u64)); [apply Rmult_le_compat_l; [apply Rabs_pos|lra]|].
    apply Rle_trans with ((A * INR c + 4 * B) * (1 + u64)); [apply Rmult_le_compat_r; lra|].
    rewrite HA.
    replace ((64 * B * INR c + 4 * B) * (1 + u64)) with (B * ((64 * INR c + 4) * (1 + u64))) by ring.
    replace (64 * B * (INR c + 1)) with (B * (64 * INR c + 64)) by ring.
    apply Rmult_le_compat_l; [lra|]. unfold u64. lra.
  - (* lower bound *)
    fold kap.
    assert (Hm : - o - t <= kap * L + 3 / 4 * (1 + u64) * d) by lra.
    replace (3 / 4 + 2 * (INR c + 1) * u64) with (kap + 2 * u64) by (unfold kap; ring).
    destruct (Rle_or_lt (- o - t) 0) as [Hn|Hp].
    + assert (- ((o + t) * (1 + da)) <= 0).
      { replace (- ((o + t) * (1 + da))) with (- ((- (- o - t)) * (1 + da))) by ring.
        assert (0 <= (- (- o - t)) * (1 + da)) by (apply Rmult_le_pos; lra). lra. }
      assert (0 <= (kap + 2 * u64) * (L + d)) by (apply Rmult_le_pos; lra). lra.
    + assert (H1 : - ((o + t) * (1 + da)) <= (- o - t) * (1 + u64)).
      { replace (- ((o + t) * (1 + da))) with ((- o - t) * (1 + da)) by ring. apply Rmult_le_compat_l; lra. }
      assert (H2 : (- o - t) * (1 + u64) <= (kap * L + 3 / 4 * (1 + u64) * d) * (1 + u64))
        by (apply Rmult_le_compat_r; lra).
      assert (H3 : kap * (1 + u64) <= kap + 2 * u64).
      { assert (kap * u64 <= 1 * u64) by (apply Rmult_le_compat_r; lra). lra. }
      assert (H4 : 3 / 4 * (1 + u64) * (1 + u64) <= kap + 2 * u64).
      { assert (u64 * u64 <= / 1000000 * u64) by (apply Rmult_le_compat_r; lra). lra. }
      assert (H5 : kap * L * (1 + u64) <= (kap + 2 * u64) * L).
      { replace (kap * L * (1 + u64)) with (kap * (1 + u64) * L) by ring. apply Rmult_le_compat_r; lra. }
      assert (H6 : 3 / 4 * (1 + u64) * d * (1 + u64) <= (kap + 2 * u64) * d).
      { replace (3 / 4 * (1 + u64) * d * (1 + u64)) with (3 / 4 * (1 + u64) * (1 + u64) * d) by ring.
        apply Rmult_le_compat_r; lra. }
      lra.
Qed.

(* ---------- one group of removed points ---------- *)

Lemma edist_le_22 a b : coord_le a 20 -> coord_le b 20 -> edist (R2 a) (R2 b) <= pw 22.
Proof.
  intros ((_ & Mxa) & (_ & Mya)) ((_ & Mxb) & (_ & Myb)).
  eapply Rle_trans; [apply edist_le_l1|]. cbn [R2 fst snd].
  pose proof (abs_sub_bpow _ _ 20 Mxa Mxb) as Hx. pose proof (abs_sub_bpow _ _ 20 Mya Myb) as Hy.
  change (20 + 1)%Z with 21%Z in *. change 22%Z with (21 + 1)%Z. rewrite bpow_plus. change (pw 1) with 2. lra.
Qed.

Lemma calpha_half k : INR k <= cmax -> 3.1 * u32 <= calpha k <= / 2.
Proof. intros H. unfold calpha, cmax in *. pose proof (pos_INR k). unfold u32, u64. split; nra. Qed.

(* the chord of a group against the running sum of its steps *)
Lemma chord_le_4r (ls curr : Pos) (rem : F64) (E : R) k :
  coord_le ls 20 -> coord_le curr 20 -> INR k <= cmax ->
  rel (B2R rem) E (calpha k) -> edist (R2 ls) (R2 curr) <= E ->
  ((E = 0 /\ R2 ls = R2 curr) \/ pw (-60) <= E) ->
  fin (f64_of_f32 (pdist ls curr)) /\ 0 <= B2R (f64_of_f32 (pdist ls curr)) /\
  B2R (f64_of_f32 (pdist ls curr)) <= 4 * B2R rem.
Proof.
  intros Hls Hcu Hk Rr Htri Hdeg. unfold pdist.
  destruct (calpha_half k Hk) as (Al & Au).
  pose proof (edist_ge0 (R2 ls) (R2 curr)) as E0.
  destruct (seg_len_fin curr ls Hcu Hls) as (Fd & Ed).
  assert (Hnn : 0 <= B2R (f64_of_f32 (plen (psub ls curr)))).
  { apply nn64_B2R_nonneg. apply seg_len_nn. }
  split; [exact Fd|]. split; [exact Hnn|].
  assert (Hr : E * (1 - calpha k) <= B2R rem).
  { pose proof (rel_abs_ge _ _ _ Rr ltac:(lra)) as G. rewrite (Rabs_pos_eq E) in G by lra.
    pose proof (Rle_abs (B2R rem)). destruct Rr as (dd & Ee & Bb). apply Rabs_le_inv in Bb.
    rewrite Ee. nra. }
  assert (Hok : cseg_ok curr ls \/ (edist (R2 ls) (R2 curr) < pw (-60) /\ pw (-60) <= E)).
  { destruct (Rle_or_lt (pw (-60)) (edist (R2 ls) (R2 curr))) as [H|H].
    - left. right. rewrite edist_sym. exact H.
    - destruct Hdeg as [(_ & Eq)|H10]; [left; left; symmetry; exact Eq|right; split; assumption]. }
  destruct Hok as [Hok|(Hsmall & H10)].
  - destruct (cseg_rel curr ls Hcu Hls Hok) as (_ & Rd).
    pose proof (rel_abs_le _ _ _ Rd) as U. rewrite edist_sym in U.
    rewrite (Rabs_pos_eq (edist _ _)) in U by exact E0.
    rewrite Rabs_pos_eq in U by exact Hnn. unfold u32 in *. nra.
  - (* a short chord, a non-degenerate step: d < 2^-9 <= 4 r *)
    destruct Hls as ((Fx0 & Mx0) & (Fy0 & My0)). destruct Hcu as ((Fx1 & Mx1) & (Fy1 & My1)).
    destruct (S_sub_spec (px ls) (px curr) 21 Fx0 Fx1 ltac:(zl) (abs_sub_bpow _ _ 20 Mx0 Mx1)) as (Fdx & Mdx & Rdx).
    destruct (S_sub_spec (py ls) (py curr) 21 Fy0 Fy1 ltac:(zl) (abs_sub_bpow _ _ 20 My0 My1)) as (Fdy & Mdy & Rdy).
    set (Dx := B2R (px ls) - B2R (px curr)) in *. set (Dy := B2R (py ls) - B2R (py curr)) in *.
    assert (HS : Dx * Dx + Dy * Dy < pw (-120)).
    { pose proof (edist_sq (R2 curr) (R2 ls)) as Q. cbn [R2 fst snd] in Q. fold Dx Dy in Q.
      rewrite edist_sym in Hsmall.
      replace (Dx * Dx + Dy * Dy) with (edist (R2 curr) (R2 ls) ^ 2) by (rewrite Q; ring).
      change (-120)%Z with (-60 + -60)%Z. rewrite bpow_plus. pose proof (edist_ge0 (R2 curr) (R2 ls)). nra. }
    pose proof (plen_upper60 _ _ Dx Dy Fdx Fdy Mdx Mdy Rdx Rdy HS) as U.
    rewrite Ed. unfold psub.
    assert (P9 : pw (-59) = 4 * (pw (-60) * / 2)).
    { change (-59)%Z with (1 + -60)%Z. rewrite bpow_plus. change (pw 1) with 2. lra. }
    assert (pw (-60) * / 2 <= B2R rem).
    { apply Rle_trans with (E * (1 - calpha k)); [|exact Hr]. pose proof (bpow_gt_0 radix2 (-60)). nra. }
    lra.
Qed.

(* ---------- the loop ---------- *)

Lemma simplify_loop_nil i n prev lso rem acc opt :
  simplify_loop [] i n prev lso rem acc opt = (acc, opt).
Proof. reflexivity. Qed.

Lemma simplify_loop_none curr t i n prev rem acc opt :
  simplify_loop (curr :: t) i n prev None rem acc opt =
  simplify_loop t (i + 1) n curr (Some curr) rem (acc ++ [curr]) opt.
Proof. reflexivity. Qed.

Lemma simplify_loop_some curr t i n prev ls rem acc opt :
  simplify_loop (curr :: t) i n prev (Some ls) rem acc opt =
  let dfs := f64_of_f32 (pdist ls curr) in
  let rem' := D.add rem (f64_of_f32 (pdist prev curr)) in
  if (D.gt dfs catmull_simplify_dist || ((i + 1) mod catmull_segment_len =? 0)%Z || (i =? n - 1)%Z)%bool
  then simplify_loop t (i + 1) n curr None D.zero (acc ++ [curr]) (D.add opt (D.sub rem' dfs))
  else simplify_loop t (i + 1) n curr (Some ls) rem' acc opt.
Proof. reflexivity. Qed.

(* the state of the group in progress; [full] is the whole path so far *)
Definition gstate (full : list Pos) (prev : Pos) (lso : option Pos) (rem : F64) (k : nat) : Prop :=
  match lso with
  | None => rem = D.zero
  | Some ls =>
      coord_le ls 20 /\
      (exists P0 q, full = P0 ++ [q] /\ coord_le q 20 /\ R2 q = R2 ls) /\
      exists E, fin rem /\ rel (B2R rem) E (calpha k) /\ edist (R2 ls) (R2 prev) <= E /\
                ((E = 0 /\ R2 ls = R2 prev) \/ pw (-60) <= E) /\ E <= INR k * pw 22
  end.

Lemma rel_zero k : rel (B2R D.zero) 0 (calpha k).
Proof.
  exists 0. split; [cbn; ring|]. rewrite Rabs_R0. unfold calpha. pose proof (pos_INR k). unfold u32, u64. nra.
Qed.

Theorem simplify_loop_inv l : forall i n prev lso rem acc opt P c k acc' opt',
  Forall (fun p => coord_le p 20) (prev :: l) -> csegs_ok (prev :: l) ->
  gstate (P ++ acc) prev lso rem k ->
  SInv c (P ++ acc) opt ->
  INR k + INR (length l) <= cmax -> INR c + INR (length l) <= cmax ->
  simplify_loop l i n prev lso rem acc opt = (acc', opt') ->
  exists c', SInv c' (P ++ acc') opt' /\ INR c' <= INR c + INR (length l).
Proof.
  induction l as [|curr t IH]; intros i n prev lso rem acc opt P c k acc' opt' Hco Hsg Hg HPI Hk Hc H.
  - rewrite simplify_loop_nil in H. inversion H; subst. exists c. split; [exact HPI|cbn; lra].
  - inversion Hco as [|? ? Hprev Hco']; subst. inversion Hco' as [|? ? Hcurr Hco'']; subst.
    destruct Hsg as (Hstep & Hsg').
    change (length (curr :: t)) with (S (length t)) in *. rewrite S_INR in *.
    pose proof (pos_INR (length t)) as Plt. pose proof (pos_INR k) as Pk. pose proof (pos_INR c) as Pc.
    destruct lso as [ls|].
    + (* a group in progress *)
      rewrite simplify_loop_some in H. cbv zeta in H.
      destruct Hg as (Hls & (P0 & q & Efull & Hq & Eq) & (E & Fr & Rr & Htri & Hdeg & HEk)).
      assert (HkS : INR (S k) <= cmax) by (rewrite S_INR; lra).
      destruct (calpha_half k ltac:(lra)) as (Al & Au).
      (* the step prev -> curr *)
      destruct (cseg_rel curr prev Hcurr Hprev (cseg_ok_sym _ _ Hstep)) as (Fs & Rs).
      fold (pdist prev curr) in Fs, Rs.
      set (s := f64_of_f32 (pdist prev curr)) in *.
      set (e := edist (R2 curr) (R2 prev)) in *.
      assert (He0 : 0 <= e) by apply edist_ge0.
      assert (He22 : e <= pw 22) by (apply edist_le_22; assumption).
      assert (HE0 : 0 <= E) by (pose proof (edist_ge0 (R2 ls) (R2 prev)); lra).
      assert (Rsum' : rel (B2R rem + B2R s) (E + e) (calpha k)).
      { apply rel_add_nonneg; [exact Rr|eapply rel_weaken; [exact Rs|exact Al]|exact HE0|exact He0]. }
      assert (Msum : Rabs (B2R rem + B2R s) <= pw 60).
      { eapply Rle_trans; [apply (rel_abs_le _ _ _ Rsum')|]. rewrite Rabs_pos_eq by lra.
        rewrite p60. rewrite p22 in *. unfold cmax in *. nra. }
      destruct (D_add_spec rem s 60 Fr Fs ltac:(zl) Msum) as (Fr' & _ & Rr').
      assert (Rk : rel (B2R (D.add rem s)) (E + e) (calpha (S k))).
      { eapply rel_weaken; [exact (rel_compose _ _ _ _ _ Rsum' Rr')|]. rewrite calpha_S. pose proof u64_pos. nra. }
      set (rem' := D.add rem s) in *.
      assert (Htri' : edist (R2 ls) (R2 curr) <= E + e).
      { pose proof (edist_triangle (R2 ls) (R2 prev) (R2 curr)) as T. unfold e. rewrite (edist_sym (R2 curr)). lra. }
      assert (Hdeg' : (E + e = 0 /\ R2 ls = R2 curr) \/ pw (-60) <= E + e).
      { destruct Hstep as [Eqs|Hlen].
        - assert (e = 0) by (unfold e; rewrite Eqs; apply edist_refl).
          destruct Hdeg as [(EZ & Eqp)|H10]; [left; split; [lra|rewrite Eqp; exact Eqs]|right; lra].
        - right. unfold e. rewrite edist_sym. lra. }
      assert (HEk' : E + e <= INR (S k) * pw 22) by (rewrite S_INR; lra).
      destruct (_ || _ || _)%bool.
      * (* the group ends *)
        destruct (chord_le_4r ls curr rem' (E + e) (S k) Hls Hcurr HkS Rk Htri' Hdeg') as (Fd & Hd0 & Hd4).
        assert (Hr54 : B2R rem' <= pw 54).
        { pose proof (rel_abs_le _ _ _ Rk) as U. rewrite (Rabs_pos_eq (E + e)) in U by lra.
          pose proof (Rle_abs (B2R rem')). destruct (calpha_half (S k) HkS) as (_ & Au').
          rewrite p54. rewrite p22 in *. rewrite S_INR in *. unfold cmax in *. nra. }
        assert (HLam : Lam (P ++ acc ++ [curr]) = Lam (P ++ acc) + B2R (f64_of_f32 (pdist ls curr))).
        { rewrite app_assoc, Efull, Lam_snoc. f_equal.
          destruct (seg_len_fin q curr Hq Hcurr) as (_ & E1). rewrite E1.
          destruct (seg_len_fin curr ls Hcurr Hls) as (_ & E2). unfold pdist. rewrite E2.
          rewrite (plen_psub_ext curr q ls Hcurr Hq Hls Eq). apply plen_psub_sym; assumption. }
        pose proof (SInv_group c (P ++ acc) (P ++ acc ++ [curr]) opt rem' (f64_of_f32 (pdist ls curr))
                      HPI ltac:(lra) Fr' Fd Hd0 Hd4 Hr54 HLam) as HPI'.
        destruct (IH (i + 1)%Z n curr None D.zero (acc ++ [curr]) _ P (S c) 0%nat acc' opt'
                     Hco' Hsg' eq_refl HPI' ltac:(cbn [INR]; lra) ltac:(rewrite S_INR; lra) H) as (c' & HP & Hc').
        exists c'. split; [exact HP|]. rewrite S_INR in Hc'. lra.
      * (* the group goes on *)
        assert (Hg' : gstate (P ++ acc) curr (Some ls) rem' (S k)).
        { split; [exact Hls|]. split; [exists P0, q; split; [exact Efull|split; [exact Hq|exact Eq]]|].
          exists (E + e). split; [exact Fr'|]. split; [exact Rk|]. split; [exact Htri'|]. split; [exact Hdeg'|exact HEk']. }
        destruct (IH (i + 1)%Z n curr (Some ls) rem' acc opt P c (S k) acc' opt'
                     Hco' Hsg' Hg' HPI ltac:(rewrite S_INR; lra) ltac:(lra) H) as (c' & HP & Hc').
        exists c'. split; [exact HP|]. lra.
    + (* a new group starts at curr *)
      rewrite simplify_loop_none in H. cbn [gstate] in Hg. subst rem.
      assert (HPI' : SInv (S c) (P ++ acc ++ [curr]) opt).
      { apply (SInv_mono c (S c) (P ++ acc)); [exact HPI|lia|rewrite app_assoc; apply Lam_app_ge]. }
      assert (Hg' : gstate (P ++ acc ++ [curr]) curr (Some curr) D.zero 0).
      { split; [exact Hcurr|]. split; [exists (P ++ acc), curr; rewrite app_assoc; split; [reflexivity|split; [exact Hcurr|reflexivity]]|].
        exists 0. split; [reflexivity|]. split; [apply rel_zero|].
        rewrite edist_refl. split; [lra|]. split; [left; split; reflexivity|cbn [INR]; lra]. }
      destruct (IH (i + 1)%Z n curr (Some curr) D.zero (acc ++ [curr]) opt P (S c) 0%nat acc' opt'
                   Hco' Hsg' Hg' HPI' ltac:(cbn [INR]; lra) ltac:(rewrite S_INR; lra) H) as (c' & HP & Hc').
      exists c'. split; [exact HP|]. rewrite S_INR in Hc'. lra.
Qed.

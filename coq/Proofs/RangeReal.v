(* RangeReal: the IEEE range statements of SectionsFacts read in the reals. *)
From RM Require Import Model.Sections Model.SectionsSpec Proofs.FloatCmp Proofs.NumFacts Proofs.SectionsFacts.
From Flocq Require Import Core BinarySingleNaN.
From Coq Require Import Reals.

Lemma in_range_real (lo hi x : F64) :
  is_finite lo = true -> is_finite hi = true -> in_range lo hi x ->
  (B2R lo <= B2R x <= B2R hi)%R.
Proof.
  intros Hl Hh [H1 H2].
  assert (Hx : is_finite x = true) by exact (fle_finite_between 53 1024 lo x hi Hl Hh H1 H2).
  unfold D.le, fle in H1, H2.
  rewrite (Bleb_correct _ _ lo x Hl Hx) in H1. rewrite (Bleb_correct _ _ x hi Hx Hh) in H2.
  split; [revert H1|revert H2]; case Rle_bool_spec; auto; discriminate.
Qed.

Lemma clamp_bounds_finite :
  is_finite sm_lo = true /\ is_finite sm_hi = true /\ is_finite tr_lo = true /\ is_finite tr_hi = true.
Proof. vm_compute. repeat split. Qed.

(* whatever [Difficulty] lines are decoded: as real numbers,
   0.4~ <= slider multiplier <= 3.6~ and 0.5 <= tick rate <= 8, where 0.4~ and
   3.6~ are the binary64 numbers nearest to 0.4 and 3.6 (bit patterns pinned) *)
Theorem difficulty_always_in_range_real lines :
  let s := run_lines parse_difficulty difficulty_default lines in
  (B2R sm_lo <= B2R (d_slider_multiplier s) <= B2R sm_hi)%R /\
  (B2R tr_lo <= B2R (d_slider_tick_rate s) <= B2R tr_hi)%R.
Proof.
  intros s. destruct (difficulty_run_inv lines difficulty_default difficulty_default_inv) as [H1 H2].
  destruct clamp_bounds_finite as (F1 & F2 & F3 & F4).
  split; [exact (in_range_real _ _ _ F1 F2 H1)|exact (in_range_real _ _ _ F3 F4 H2)].
Qed.

(* a break, as real numbers: start <= end (both are finite) *)
Theorem break_ok_real (b : BreakPeriod) :
  is_finite (bp_start b) = true -> is_finite (bp_end b) = true -> break_ok b ->
  (B2R (bp_start b) <= B2R (bp_end b))%R.
Proof.
  intros Hs He H. unfold break_ok, D.le, fle in H. rewrite (Bleb_correct _ _ _ _ Hs He) in H.
  revert H. case Rle_bool_spec; auto; discriminate.
Qed.

(* HausdorffPlane: the real plane for the T17e statements -- squared and
   Euclidean distance, points of a segment, the real value of the decimal
   constants of Gen.Generated, and the passage from "every projection onto a
   unit vector is at most c" to "the Euclidean norm is at most c". *)
From RM Require Import Model.ControlPoints Model.Curve Gen.Generated Proofs.ArcExact.
From Coq Require Import Reals Lra Lia Psatz.
Open Scope R_scope.

(* ---------- plane geometry over the reals ---------- *)

Definition sqd2 (p q : R * R) : R := sqd (fst p) (snd p) (fst q) (snd q).
Definition dist2 (p q : R * R) : R := sqrt (sqd2 p q).
Definition lerp2 (p q : R * R) (s : R) : R * R :=
  ((1 - s) * fst p + s * fst q, (1 - s) * snd p + s * snd q).

Lemma sqd2_nonneg p q : 0 <= sqd2 p q.
Proof.
  unfold sqd2, sqd. pose proof (pow2_ge_0 (fst p - fst q)). pose proof (pow2_ge_0 (snd p - snd q)). lra.
Qed.

Lemma sqd2_sym p q : sqd2 p q = sqd2 q p.
Proof. unfold sqd2, sqd. ring. Qed.

Lemma dist2_le p q b : 0 <= b -> sqd2 p q <= b ^ 2 -> dist2 p q <= b.
Proof.
  intros Hb H. unfold dist2. rewrite <- (sqrt_pow2 b Hb). apply sqrt_le_1_alt. exact H.
Qed.

Lemma dist2_ge p q b : 0 <= b -> b ^ 2 <= sqd2 p q -> b <= dist2 p q.
Proof.
  intros Hb H. unfold dist2. rewrite <- (sqrt_pow2 b Hb). apply sqrt_le_1_alt. exact H.
Qed.

Lemma lerp2_swap p q s : lerp2 p q s = lerp2 q p (1 - s).
Proof. unfold lerp2. f_equal; ring. Qed.

Lemma lerp2_0 p q : lerp2 p q 0 = p.
Proof. destruct p. unfold lerp2. cbn [fst snd]. f_equal; ring. Qed.

Lemma lerp2_1 p q : lerp2 p q 1 = q.
Proof. destruct q. unfold lerp2. cbn [fst snd]. f_equal; ring. Qed.


Lemma dist2_nonneg p q : 0 <= dist2 p q.
Proof. apply sqrt_pos. Qed.

Lemma dist2_refl p : dist2 p p = 0.
Proof. unfold dist2, sqd2, sqd. replace ((fst p - fst p) ^ 2 + (snd p - snd p) ^ 2) with 0 by ring. apply sqrt_0. Qed.

(* the Euclidean norm from the projections onto unit vectors *)
Lemma norm_by_proj vx vy c :
  0 <= c -> (forall ux uy, ux * ux + uy * uy = 1 -> ux * vx + uy * vy <= c) ->
  sqrt (vx ^ 2 + vy ^ 2) <= c.
Proof.
  intros Hc H. remember (vx ^ 2 + vy ^ 2) as q eqn:Eq.
  assert (Eq2 : vx * vx + vy * vy = q) by (subst q; ring).
  assert (Hq : 0 <= q) by (subst q; pose proof (pow2_ge_0 vx); pose proof (pow2_ge_0 vy); lra).
  destruct (Req_dec q 0) as [E|E]; [rewrite E, sqrt_0; exact Hc|].
  assert (Hs : 0 < sqrt q) by (apply sqrt_lt_R0; lra).
  pose proof (sqrt_sqrt q Hq) as Hss.
  specialize (H (vx / sqrt q) (vy / sqrt q)).
  assert (Hu : vx / sqrt q * (vx / sqrt q) + vy / sqrt q * (vy / sqrt q) = 1).
  { replace (vx / sqrt q * (vx / sqrt q) + vy / sqrt q * (vy / sqrt q))
      with ((vx * vx + vy * vy) / (sqrt q * sqrt q)) by (field; lra).
    rewrite Hss, Eq2. field. exact E. }
  specialize (H Hu).
  replace (vx / sqrt q * vx + vy / sqrt q * vy) with ((vx * vx + vy * vy) / sqrt q) in H by (field; lra).
  rewrite Eq2 in H.
  replace (q / sqrt q) with (sqrt q) in H; [exact H|].
  rewrite <- Hss at 2. field. lra.
Qed.

(* Cauchy-Schwarz for a unit vector *)
Lemma proj_le_norm ux uy x y M :
  ux * ux + uy * uy = 1 -> 0 <= M -> x * x + y * y <= M * M -> Rabs (ux * x + uy * y) <= M.
Proof.
  intros Hu HM H. pose proof (Rle_0_sqr (ux * y - uy * x)) as Hc. unfold Rsqr in Hc.
  assert (Hsq : (ux * x + uy * y) * (ux * x + uy * y) <= M * M).
  { replace ((ux * x + uy * y) * (ux * x + uy * y))
      with ((ux * ux + uy * uy) * (x * x + y * y) - (ux * y - uy * x) * (ux * y - uy * x)) by ring.
    rewrite Hu. lra. }
  rewrite <- (Rabs_pos_eq M HM). apply Rsqr_le_abs_0. unfold Rsqr. exact Hsq.
Qed.

(* the real number denoted by a decimal constant of Gen.Generated *)
Definition dec_R (d : bool * Z * Z) : R :=
  let '(s, m, e) := d in (if s then -1 else 1) * IZR m * powerRZ 10 e.


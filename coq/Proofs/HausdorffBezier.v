(* HausdorffBezier: T17e for Bezier / B-spline segments in exact (real)
   arithmetic, in the plane, for the whole routine (the subdivision loop
   included).

   The routine is the generic loop [bstep_g] of Proofs/BezierTermination with
   the generic emitted points [approx_pts_g] of Proofs/HausdorffBezierCore; the
   model is the binary32 instance ([model_approximate_bezier], by reflexivity),
   the theorems are about the instance over R x R ([approximate_bezier_R]).

   1. One flat piece, in the plane ([piece_close_2D]): apply the scalar bound of
      HausdorffBezierCore to the projection onto every unit vector.
   2. The loop ([bezier_param_close]): invariant -- the arrays on the stack are
      the control polygons of the SAME curve on consecutive parameter intervals
      covering [a, 1] (de Casteljau, T17b), the path so far is a polyline that
      follows the curve on [0, a].  Result: the vertices of the emitted path
      carry parameters 0 = t_0 <= t_1 <= ... <= t_N = 1 such that on every
      edge, polyline and curve stay within K = n (2n - 1) / 8 * 2 * tolerance
      of each other AT CORRESPONDING POINTS.
   3. Hence the two-sided Hausdorff bound ([bezier_hausdorff]). *)
From RM Require Import Model.ControlPoints Model.Curve Gen.Generated Proofs.PathFacts Proofs.DeCasteljau
  Proofs.BezierTermination Proofs.ArcExact Proofs.HausdorffPlane Proofs.HausdorffBezierCore.
From Coq Require Import Reals Lra Lia Psatz.
Open Scope R_scope.

(* ---------- the routine, written once ---------- *)

Section BezierG.
  Context {P : Type}.
  Variables (flat : list P -> bool) (sub : list P -> list P * list P) (emit : list P -> list P) (dflt : P).
  Definition approximate_bezier_g (fuel : positive) (path points : list P) : outcome (list P) :=
    obind (iter_fuel (bstep_g flat sub emit) fuel ([points], path)) (fun path' =>
    match points with
    | [] => Panic 2
    | _ => Done (path' ++ [last points dflt])
    end).
End BezierG.

Lemma model_approximate_bezier fuel path points :
  approximate_bezier_L1 fuel path points tt =
  obind (approximate_bezier_g flat_enough sub32 bezier_approx_pts pos0 fuel path points) (fun p => Done (p, tt)).
Proof.
  unfold approximate_bezier_L1, approximate_bezier_g.
  change bspline_step1 with (bstep_g flat_enough sub32 bezier_approx_pts).
  destruct (iter_fuel (bstep_g flat_enough sub32 bezier_approx_pts) fuel ([points], path)) as [p| |];
    cbn [obind]; try reflexivity.
  destruct points; reflexivity.
Qed.

(* the instance over the real plane *)
Definition addRR (a b : RP) : RP := (fst a + fst b, snd a + snd b).
Definition scaleRR (a : RP) (k : R) : RP := (fst a * k, snd a * k).
Definition triRR : RP -> RP -> RP -> RP := tri_g addRR scaleRR 2 (1 / 4).
Definition emit_R : list RP -> list RP := approx_pts_g avgRR triRR zeroRR.
Definition approximate_bezier_R : positive -> list RP -> list RP -> outcome (list RP) :=
  approximate_bezier_g flat_R sub_R emit_R zeroRR.

(* the tolerance: the flatness test is |second difference|^2 <= tol^2 * 4 *)
Definition bez_tol_R : R := dec_R bezier_tolerance_dec.
Lemma bez_tol_value : bez_tol_R = 1 / 4.
Proof.
  unfold bez_tol_R, dec_R, bezier_tolerance_dec. cbn.
  change (Pos.to_nat 2) with 2%nat. field.
Qed.
Lemma bez_limit_value : bez_tol_R * bez_tol_R * 4 = 1 / 4.
Proof. rewrite bez_tol_value. field. Qed.

(* ---------- homomorphisms commute with the emitted points ---------- *)

Section Hom2.
  Context {T U : Type} (avgT : T -> T -> T) (avgU : U -> U -> U) (triT : T -> T -> T -> T) (triU : U -> U -> U -> U)
          (dT : T) (dU : U) (h : T -> U).
  Hypothesis h_avg : forall a b, h (avgT a b) = avgU (h a) (h b).
  Hypothesis h_tri : forall a b c, h (triT a b c) = triU (h a) (h b) (h c).
  Hypothesis h_d : h dT = dU.

  Lemma map_triples_aux m :
    map h (triples_g triT m) = triples_g triU (map h m) /\
    forall x, map h (triples_g triT (x :: m)) = triples_g triU (map h (x :: m)).
  Proof.
    induction m as [|a m [IH1 IH2]].
    - split; [reflexivity|]. intros x. reflexivity.
    - split; [apply IH2|]. intros x. destruct m as [|c r]; [reflexivity|].
      change (triples_g triT (x :: a :: c :: r)) with (triT x a c :: triples_g triT (c :: r)).
      change (map h (x :: a :: c :: r)) with (h x :: h a :: h c :: map h r).
      change (triples_g triU (h x :: h a :: h c :: map h r))
        with (triU (h x) (h a) (h c) :: triples_g triU (map h (c :: r))).
      cbn [map]. rewrite h_tri. f_equal. exact IH1.
  Qed.

  Lemma map_triples m : map h (triples_g triT m) = triples_g triU (map h m).
  Proof. exact (proj1 (map_triples_aux m)). Qed.

  Lemma map_tl' (m : list T) : map h (tl m) = tl (map h m).
  Proof. destruct m; reflexivity. Qed.

  Lemma map_hd' m : h (hd dT m) = hd dU (map h m).
  Proof. destruct m; [exact h_d|reflexivity]. Qed.

  Lemma map_last' m : h (last m dT) = last (map h m) dU.
  Proof.
    induction m as [|a m IH]; [exact h_d|]. destruct m as [|b r]; [reflexivity|].
    change (last (a :: b :: r) dT) with (last (b :: r) dT). rewrite IH. reflexivity.
  Qed.

  Lemma map_approx_pts m : map h (approx_pts_g avgT triT dT m) = approx_pts_g avgU triU dU (map h m).
  Proof.
    unfold approx_pts_g. rewrite map_length.
    pose proof (map_subdiv avgT avgU dT dU h h_avg h_d (length m) m) as [H1 H2].
    destruct (subdiv_g avgT dT (length m) m) as [l r].
    destruct (subdiv_g avgU dU (length m) (map h m)) as [l' r'].
    cbn [fst snd] in H1, H2. cbn [map]. rewrite map_hd'. f_equal.
    rewrite map_triples, map_tl', map_app, map_tl', H1, H2. reflexivity.
  Qed.

  Lemma map_nth' m i : nth i (map h m) dU = h (nth i m dT).
  Proof. rewrite <- h_d. apply map_nth. Qed.
End Hom2.

(* ---------- lengths ---------- *)

Lemma triples_length {T} (tri : T -> T -> T -> T) k : forall l,
  length l = S (S (2 * k)) -> length (triples_g tri l) = k.
Proof.
  induction k as [|k IH]; intros l Hl.
  - destruct l as [|a [|b [|c r]]]; try discriminate. reflexivity.
  - destruct l as [|a [|b [|c r]]]; try discriminate.
    change (triples_g tri (a :: b :: c :: r)) with (tri a b c :: triples_g tri (c :: r)).
    cbn [length] in *. rewrite IH; [reflexivity|]. cbn [length]. lia.
Qed.

Lemma subdiv_g_length {T} (avg : T -> T -> T) d n : forall m,
  length (fst (subdiv_g avg d n m)) = n /\ length (snd (subdiv_g avg d n m)) = n.
Proof.
  induction n as [|n IH]; intros m; [split; reflexivity|].
  cbn [subdiv_g]. specialize (IH (avg_step_g avg m)).
  destruct (subdiv_g avg d n (avg_step_g avg m)) as [l r]. cbn [fst snd] in *.
  destruct IH as [IH1 IH2]. split; [cbn [length]; lia|]. rewrite app_length. cbn [length]. lia.
Qed.

Lemma approx_pts_length {T} (avg : T -> T -> T) tri (d : T) m k :
  length m = S (S k) -> length (approx_pts_g avg tri d m) = S k.
Proof.
  intros Hm. unfold approx_pts_g. rewrite Hm.
  destruct (subdiv_g_length avg d (S (S k)) m) as [L1 L2].
  destruct (subdiv_g avg d (S (S k)) m) as [l r]. cbn [fst snd] in *.
  cbn [length]. f_equal. apply triples_length.
  destruct l as [|l0 l]; [discriminate|]. destruct r as [|r0 r]; [discriminate|].
  cbn [tl app length] in *. rewrite app_length. lia.
Qed.

(* ---------- the curve ---------- *)

Definition Bez (P : list RP) (t : R) : RP :=
  (dc (pred (length P)) t (map fst P), dc (pred (length P)) t (map snd P)).

Definition proj (ux uy : R) (p : RP) : R := ux * fst p + uy * snd p.

Lemma proj_avg ux uy a b : proj ux uy (avgRR a b) = avgR (proj ux uy a) (proj ux uy b).
Proof. unfold proj, avgRR, avgR. cbn [fst snd]. field. Qed.

Lemma proj_tri ux uy a b c : proj ux uy (triRR a b c) = triR (proj ux uy a) (proj ux uy b) (proj ux uy c).
Proof. unfold proj, triRR, triR, tri_g, addRR, scaleRR. cbn [fst snd]. field. Qed.

Lemma proj_zero ux uy : proj ux uy zeroRR = 0.
Proof. unfold proj, zeroRR. cbn [fst snd]. ring. Qed.

Lemma dc_proj ux uy n t P : 0 <= t <= 1 ->
  dc n t (map (proj ux uy) P) = ux * dc n t (map fst P) + uy * dc n t (map snd P).
Proof.
  intros Ht.
  apply (F3_dc (fun x y z => x = ux * y + uy * z)); [| |exact Ht|].
  - intros s a b c a' b' c' _ -> ->. unfold comb. ring.
  - ring.
  - induction P as [|p P IH]; [constructor|]. cbn [map]. constructor; [reflexivity|exact IH].
Qed.

(* the flatness test, index by index *)
Lemma flat_R_nth : forall P, flat_R P = true -> forall i, (i + 2 < length P)%nat ->
  (fst (nth i P zeroRR) - 2 * fst (nth (S i) P zeroRR) + fst (nth (S (S i)) P zeroRR)) *
  (fst (nth i P zeroRR) - 2 * fst (nth (S i) P zeroRR) + fst (nth (S (S i)) P zeroRR)) +
  (snd (nth i P zeroRR) - 2 * snd (nth (S i) P zeroRR) + snd (nth (S (S i)) P zeroRR)) *
  (snd (nth i P zeroRR) - 2 * snd (nth (S i) P zeroRR) + snd (nth (S (S i)) P zeroRR)) <= 1 / 4.
Proof.
  induction P as [|p P IH]; intros Hf i Hi; [cbn [length] in Hi; lia|].
  destruct P as [|q [|s r]]; try (cbn [length] in Hi; lia).
  change (flat_R (p :: q :: s :: r)) with (if far_R p q s then false else flat_R (q :: s :: r)) in Hf.
  destruct (far_R p q s) eqn:Ef; [discriminate|].
  destruct i as [|i].
  - cbn [nth]. unfold far_R in Ef. destruct (Rlt_dec _ _) as [|Hn] in Ef; [discriminate|]. lra.
  - change (nth (S i) (p :: q :: s :: r) zeroRR) with (nth i (q :: s :: r) zeroRR).
    change (nth (S (S i)) (p :: q :: s :: r) zeroRR) with (nth (S i) (q :: s :: r) zeroRR).
    change (nth (S (S (S i))) (p :: q :: s :: r) zeroRR) with (nth (S (S i)) (q :: s :: r) zeroRR).
    apply IH; [exact Hf|]. cbn [length] in *. lia.
Qed.

(* ---------- one flat piece, in the plane ---------- *)

Definition Kbez (n : nat) : R := INR n * (2 * INR n - 1) / 8 * (2 * bez_tol_R).

Lemma Kbez_nonneg n : (1 <= n)%nat -> 0 <= Kbez n.
Proof.
  intros Hn. unfold Kbez. rewrite bez_tol_value.
  assert (1 <= INR n) by (change 1 with (INR 1); apply le_INR; exact Hn).
  assert (0 <= INR n * (2 * INR n - 1)) by nra. lra.
Qed.

(* the polyline of a piece: the emitted points, then its last control point *)
Definition Epts (P : list RP) : list RP := emit_R P ++ [last P zeroRR].

Theorem piece_close_2D P n' j s :
  length P = S (S n') -> flat_R P = true -> (j < S n')%nat -> 0 <= s <= 1 ->
  dist2 (Bez P ((INR j + s) / INR (S n'))) (lerp2 (nth j (Epts P) zeroRR) (nth (S j) (Epts P) zeroRR) s)
  <= Kbez (S n').
Proof.
  intros Hlen Hflat Hj Hs.
  unfold dist2, sqd2, sqd. apply norm_by_proj; [apply Kbez_nonneg; lia|].
  intros ux uy Hu.
  set (b := map (proj ux uy) P).
  assert (Hb : length b = S (S n')) by (unfold b; rewrite map_length; exact Hlen).
  assert (Hdd : forall i, (i + 2 <= S n')%nat ->
            Rabs (nth i b 0 - 2 * nth (S i) b 0 + nth (S (S i)) b 0) <= 1 / 2).
  { intros i Hi. unfold b.
    rewrite !(map_nth' zeroRR 0 (proj ux uy) (proj_zero ux uy)).
    pose proof (flat_R_nth P Hflat i ltac:(lia)) as Hf.
    set (p0 := nth i P zeroRR) in *. set (p1 := nth (S i) P zeroRR) in *. set (p2 := nth (S (S i)) P zeroRR) in *.
    replace (proj ux uy p0 - 2 * proj ux uy p1 + proj ux uy p2)
      with (ux * (fst p0 - 2 * fst p1 + fst p2) + uy * (snd p0 - 2 * snd p1 + snd p2)) by (unfold proj; ring).
    apply proj_le_norm; [exact Hu|lra|]. lra. }
  pose proof (piece_close b n' Hb (1 / 2) ltac:(lra) Hdd j s Hj Hs) as Hc.
  assert (Ht : 0 <= (INR j + s) / INR (S n') <= 1).
  { pose proof (pos_INR j). assert (INR j + 1 <= INR (S n')) by (rewrite <- S_INR; apply le_INR; lia).
    split.
    - apply Rmult_le_pos; [lra|]. apply Rlt_le, Rinv_0_lt_compat. lra.
    - apply Rmult_le_reg_r with (INR (S n')); [lra|]. unfold Rdiv. rewrite Rmult_assoc, Rinv_l by lra. lra. }
  assert (EE : Ebar b = map (proj ux uy) (Epts P)).
  { unfold Ebar, Epts, b. rewrite map_app. cbn [map].
    rewrite (map_approx_pts avgRR avgR triRR triR zeroRR 0 (proj ux uy) (proj_avg ux uy) (proj_tri ux uy) (proj_zero ux uy)).
    rewrite (map_last' zeroRR 0 (proj ux uy) (proj_zero ux uy)). reflexivity. }
  rewrite EE in Hc. rewrite !(map_nth' zeroRR 0 (proj ux uy) (proj_zero ux uy)) in Hc.
  unfold b in Hc. rewrite (dc_proj ux uy _ _ P Ht) in Hc.
  unfold Bez, lerp2. rewrite Hlen. cbn [pred fst snd].
  assert (EK : Kbez (S n') = INR (S n') * (2 * INR (S n') - 1) / 8 * (1 / 2))
    by (unfold Kbez; rewrite bez_tol_value; field).
  rewrite EK. eapply Rle_trans; [|exact Hc]. eapply Rle_trans; [|apply Rle_abs].
  unfold proj. right.
  set (e0 := nth j (Epts P) zeroRR). set (e1 := nth (S j) (Epts P) zeroRR). ring.
Qed.

(* ---------- end points of the curve ---------- *)

Lemma lstep_one m : lstep 1 m = tl m.
Proof.
  induction m as [|a|a b r IH] using list_ind2; try reflexivity.
  rewrite lstep_cons2, IH. cbn [tl]. f_equal. ring.
Qed.

Lemma dc_one n : forall m, length m = S n -> dc n 1 m = last m 0.
Proof.
  induction n as [|n IH]; intros m Hm.
  - destruct m as [|a [|b r]]; try discriminate. reflexivity.
  - cbn [dc]. rewrite lstep_one. destruct m as [|a [|b r]]; try discriminate.
    cbn [tl]. rewrite IH by (cbn [length] in *; lia). reflexivity.
Qed.

Lemma Bez_0 P n : length P = S n -> Bez P 0 = hd zeroRR P.
Proof.
  intros H. unfold Bez. rewrite H. cbn [pred].
  rewrite !dc_zero by (rewrite map_length; exact H).
  destruct P as [|[x y] P]; [discriminate|]. reflexivity.
Qed.

Lemma Bez_1 P n : length P = S n -> Bez P 1 = last P zeroRR.
Proof.
  intros H. unfold Bez. rewrite H. cbn [pred].
  rewrite !dc_one by (rewrite map_length; exact H).
  rewrite <- (map_last' zeroRR 0 fst eq_refl), <- (map_last' zeroRR 0 snd eq_refl).
  destruct (last P zeroRR); reflexivity.
Qed.

(* the two halves of a piece (T17b, both coordinates) *)
Lemma sub_R_Bez c n : length c = S n ->
  length (fst (sub_R c)) = S n /\ length (snd (sub_R c)) = S n /\
  forall t, Bez (fst (sub_R c)) t = Bez c (t / 2) /\ Bez (snd (sub_R c)) t = Bez c ((1 + t) / 2).
Proof.
  intros Hc. destruct (sub_R_fst c) as [F1 F2]. destruct (sub_R_snd c) as [S1 S2].
  assert (L1 : length (fst (sub_R c)) = S n).
  { pose proof (f_equal (@length R) F1) as E. rewrite map_length, left_length in E. exact (eq_trans E Hc). }
  assert (L2 : length (snd (sub_R c)) = S n).
  { pose proof (f_equal (@length R) F2) as E. rewrite map_length, right_length in E. exact (eq_trans E Hc). }
  split; [exact L1|]. split; [exact L2|]. intros t. unfold Bez.
  rewrite L1, L2, Hc, F1, F2, S1, S2, Hc. cbn [pred].
  rewrite !left_polygon, !right_polygon by (rewrite map_length; exact Hc). split; reflexivity.
Qed.

(* ---------- polylines that follow a curve ---------- *)

Section Follow.
  Variable B : R -> RP.
  Variable K : R.

  (* one edge: parameters in order, and polyline and curve within K at
     corresponding points *)
  Definition edge_ok (x y : R * RP) : Prop :=
    fst x <= fst y /\
    forall s, 0 <= s <= 1 -> dist2 (B ((1 - s) * fst x + s * fst y)) (lerp2 (snd x) (snd y) s) <= K.

  Fixpoint follows (l : list (R * RP)) : Prop :=
    match l with
    | [] => True
    | x :: r => match r with [] => True | y :: _ => edge_ok x y /\ follows r end
    end.

  Lemma follows_cons2 x y r : follows (x :: y :: r) <-> edge_ok x y /\ follows (y :: r).
  Proof. reflexivity. Qed.

  Lemma follows_app l1 x l2 : follows (l1 ++ [x]) -> follows (x :: l2) -> follows (l1 ++ x :: l2).
  Proof.
    induction l1 as [|a l1 IH]; intros H1 H2; [exact H2|].
    destruct l1 as [|b l1].
    - cbn [app] in *. destruct H1 as [He _]. split; assumption.
    - change (((a :: b :: l1) ++ [x])) with (a :: b :: (l1 ++ [x])) in H1.
      change ((a :: b :: l1) ++ x :: l2) with (a :: b :: (l1 ++ x :: l2)).
      destruct H1 as [He H1]. split; [exact He|]. apply IH; assumption.
  Qed.

  Lemma follows_nth d l :
    (forall j, (S j < length l)%nat -> edge_ok (nth j l d) (nth (S j) l d)) -> follows l.
  Proof.
    induction l as [|x l IH]; intros H; [exact I|].
    destruct l as [|y r]; [exact I|]. split.
    - exact (H 0%nat ltac:(cbn [length]; lia)).
    - apply IH. intros j Hj. exact (H (S j) ltac:(cbn [length] in *; lia)).
  Qed.

  Lemma follows_edge d : forall l j, follows l -> (S j < length l)%nat -> edge_ok (nth j l d) (nth (S j) l d).
  Proof.
    induction l as [|x l IH]; intros j H Hj; [cbn [length] in Hj; lia|].
    destruct l as [|y r]; [cbn [length] in Hj; lia|]. destruct H as [He H].
    destruct j as [|j]; [exact He|]. apply (IH j H). cbn [length] in *. lia.
  Qed.

  (* parameters are monotone along the polyline *)
  Lemma follows_mono d : forall l i j, follows l -> (i <= j)%nat -> (j < length l)%nat ->
    fst (nth i l d) <= fst (nth j l d).
  Proof.
    intros l i j H Hij Hj. induction j as [|j IH].
    - assert (i = 0)%nat by lia. subst. lra.
    - destruct (Nat.eq_dec i (S j)) as [->|Hne]; [lra|].
      apply Rle_trans with (fst (nth j l d)); [apply IH; lia|].
      exact (proj1 (follows_edge d l j H Hj)).
  Qed.

  (* every parameter between the first and the last lies on some edge *)
  Lemma follows_cover d : forall l, follows l -> (1 <= length l)%nat -> forall t,
    fst (nth 0 l d) <= t <= fst (nth (pred (length l)) l d) ->
    (length l = 1%nat /\ t = fst (nth 0 l d)) \/
    exists j s, (S j < length l)%nat /\ 0 <= s <= 1 /\
      t = (1 - s) * fst (nth j l d) + s * fst (nth (S j) l d).
  Proof.
    induction l as [|x l IH]; intros H Hl t Ht; [cbn [length] in Hl; lia|].
    destruct l as [|y r].
    - left. cbn [length pred nth] in *. split; [reflexivity|lra].
    - right. destruct H as [He H]. cbn [nth] in Ht.
      destruct (Rle_dec t (fst y)) as [Hle|Hgt].
      + exists 0%nat. cbn [nth length].
        destruct (Req_dec (fst x) (fst y)) as [E|E].
        * exists 0. split; [lia|]. split; [lra|]. lra.
        * exists ((t - fst x) / (fst y - fst x)).
          assert (Hpos : 0 < fst y - fst x) by (destruct He; lra).
          split; [lia|]. split.
          -- split.
             ++ apply Rmult_le_pos; [lra|]. apply Rlt_le, Rinv_0_lt_compat. exact Hpos.
             ++ apply Rmult_le_reg_r with (fst y - fst x); [exact Hpos|].
                unfold Rdiv. rewrite Rmult_assoc, Rinv_l by lra. lra.
          -- field. lra.
      + specialize (IH H ltac:(cbn [length]; lia) t).
        destruct IH as [[Hl1 Et]|(j & s & Hj & Hs & Et)].
        * cbn [length pred nth] in *. lra.
        * cbn [length] in Hl1. cbn [nth] in Et. lra.
        * exists (S j), s. cbn [length] in *. split; [lia|]. split; [exact Hs|]. exact Et.
  Qed.
End Follow.

(* ---------- list helpers ---------- *)

Lemma nth_map_seq {X} (f : nat -> X) k j d : (j < k)%nat -> nth j (map f (seq 0 k)) d = f j.
Proof.
  intros Hj. rewrite (nth_indep _ d (f 0%nat)) by (rewrite map_length, seq_length; exact Hj).
  rewrite map_nth, seq_nth by exact Hj. reflexivity.
Qed.

Lemma combine_app {X Y} (a a' : list X) (b b' : list Y) :
  length a = length b -> combine (a ++ a') (b ++ b') = combine a b ++ combine a' b'.
Proof.
  revert b. induction a as [|x a IH]; intros [|y b] H; try discriminate; [reflexivity|].
  cbn [app combine]. f_equal. apply IH. cbn [length] in H. lia.
Qed.

Lemma approx_pts_hd {T} (avg : T -> T -> T) tri (d : T) m :
  exists r, approx_pts_g avg tri d m = hd d m :: r.
Proof. unfold approx_pts_g. destruct (subdiv_g avg d (length m) m). eexists. reflexivity. Qed.

Lemma bstep_g_cons {P} (flat : list P -> bool) sub emit (c : list P) rest path :
  c <> [] ->
  bstep_g flat sub emit (c :: rest, path) =
  if flat c then inl (rest, path ++ emit c) else let '(l, r) := sub c in inl (l :: r :: rest, path).
Proof. intros H. unfold bstep_g. cbn [fst snd]. destruct c; [congruence|reflexivity]. Qed.

(* ---------- the loop ---------- *)

Section Loop.
  Variable points : list RP.
  Variable n' : nat.
  Hypothesis Hpts : length points = S (S n').
  Let n := S n'.
  Let K := Kbez n.
  Let B := Bez points.
  Variable path0 : list RP.

  (* c is the control polygon of the curve on [a, b] *)
  Definition repr (c : list RP) (a b : R) : Prop :=
    length c = S n /\ a <= b /\ forall t, Bez c t = B (a + t * (b - a)).

  (* the stack covers [a, 1] *)
  Fixpoint covers (stack : list (list RP)) (a : R) : Prop :=
    match stack with
    | [] => a = 1
    | c :: rest => exists b, repr c a b /\ covers rest b
    end.

  (* the path so far (after path0), with the parameters of its vertices and the
     pending vertex B a that the next piece or the final push will emit *)
  Definition inv (st : list (list RP) * list RP) : Prop :=
    exists new taus a,
      snd st = path0 ++ new /\ length taus = length new /\ covers (fst st) a /\
      follows B K (combine taus new ++ [(a, B a)]) /\ hd a taus = 0.

  Definition post (o : outcome (list RP)) : Prop :=
    match o with
    | Done p => exists new taus, p = path0 ++ new /\ length taus = length new /\
                  follows B K (combine taus new ++ [(1, B 1)]) /\ hd 1 taus = 0
    | _ => True
    end.

  Definition tau (a b : R) (j : nat) : R := a + INR j / INR n * (b - a).

  Lemma INRn_pos : 1 <= INR n.
  Proof. unfold n. rewrite S_INR. pose proof (pos_INR n'). lra. Qed.

  Lemma Epts_length c : length c = S n -> length (Epts c) = S n.
  Proof.
    intros Hc. unfold Epts, emit_R. rewrite app_length, (approx_pts_length _ _ _ c n' Hc). cbn [length]. unfold n. lia.
  Qed.

  (* a flat piece: its polyline, with equally spaced parameters, follows the curve *)
  Lemma piece_follows c a b : repr c a b -> flat_R c = true ->
    follows B K (combine (map (tau a b) (seq 0 (S n))) (Epts c)).
  Proof.
    intros (Hc & Hab & HB) Hf. pose proof INRn_pos as HN. pose proof (Epts_length c Hc) as LE.
    apply (follows_nth B K (0, zeroRR)). intros j Hj.
    rewrite combine_length, map_length, seq_length, LE, Nat.min_id in Hj.
    rewrite !(combine_nth _ _ _ 0 zeroRR) by (rewrite map_length, seq_length, LE; reflexivity).
    rewrite !nth_map_seq by lia.
    unfold edge_ok. cbn [fst snd]. split.
    - unfold tau. rewrite S_INR.
      assert (0 <= / INR n * (b - a)) by (apply Rmult_le_pos; [apply Rlt_le, Rinv_0_lt_compat; lra|lra]).
      unfold Rdiv. nra.
    - intros s Hs.
      replace ((1 - s) * tau a b j + s * tau a b (S j)) with (a + (INR j + s) / INR n * (b - a))
        by (unfold tau; rewrite S_INR; field; lra).
      rewrite <- HB. unfold K, n. apply piece_close_2D; [exact Hc|exact Hf|lia|exact Hs].
  Qed.

  Lemma step_inv st : inv st ->
    match bstep_g flat_R sub_R emit_R st with inl st' => inv st' | inr r => post r end.
  Proof.
    destruct st as [stack path]. intros (new & taus & a & Hp & Hl & Hcov & Hfol & Hhd).
    cbn [fst snd] in *. pose proof INRn_pos as HN.
    destruct stack as [|c rest].
    - cbn [covers] in Hcov. subst a. unfold bstep_g. cbn [fst snd post].
      exists new, taus. repeat split; assumption.
    - destruct Hcov as (b & Hrep & Hrest). pose proof Hrep as (Hc & Hab & HB).
      assert (Hne : c <> []) by (intros ->; discriminate).
      rewrite (bstep_g_cons _ _ _ c rest path Hne).
      destruct (flat_R c) eqn:Ef.
      + (* a flat piece is emitted *)
        pose proof (piece_follows c a b Hrep Ef) as HPL.
        pose proof (Epts_length c Hc) as LE.
        assert (Lem : length (emit_R c) = n) by (unfold emit_R; rewrite (approx_pts_length _ _ _ c n' Hc); reflexivity).
        exists (new ++ emit_R c), (taus ++ map (tau a b) (seq 0 n)), b. cbn [fst snd].
        assert (Etau_n : tau a b n = b) by (unfold tau; field; lra).
        assert (Etau_0 : tau a b 0 = a) by (unfold tau; cbn [INR]; field; lra).
        assert (EBb : last c zeroRR = B b).
        { rewrite <- (Bez_1 c n Hc), HB. f_equal. ring. }
        assert (EBa : hd zeroRR c = B a).
        { rewrite <- (Bez_0 c n Hc), HB. f_equal. ring. }
        (* the piece's polyline, split at its last vertex and at its first *)
        assert (EPL : combine (map (tau a b) (seq 0 (S n))) (Epts c) =
                      combine (map (tau a b) (seq 0 n)) (emit_R c) ++ [(b, B b)]).
        { rewrite seq_S, map_app. cbn [map Nat.add]. unfold Epts.
          rewrite combine_app by (rewrite map_length, seq_length, Lem; reflexivity).
          cbn [combine]. rewrite Etau_n, EBb. reflexivity. }
        assert (EPL0 : exists tlPL, combine (map (tau a b) (seq 0 (S n))) (Epts c) = (a, B a) :: tlPL).
        { unfold Epts, emit_R. destruct (approx_pts_hd avgRR triRR zeroRR c) as (r & ->).
          cbn [seq map app combine]. rewrite Etau_0, EBa. eexists. reflexivity. }
        split; [rewrite Hp, app_assoc; reflexivity|].
        split; [rewrite !app_length, map_length, seq_length, Lem, Hl; reflexivity|].
        split; [exact Hrest|]. split.
        * rewrite (combine_app taus _ new _ Hl), <- app_assoc, <- EPL.
          destruct EPL0 as (tlPL & EP). rewrite EP in HPL |- *.
          apply follows_app; assumption.
        * destruct taus as [|t0 taus]; [|exact Hhd].
          cbn [hd] in Hhd. subst a. cbn [app]. unfold n at 1. cbn [seq map hd]. exact Etau_0.
      + (* subdivision *)
        destruct (sub_R c) as [l r] eqn:Es.
        destruct (sub_R_Bez c n Hc) as (L1 & L2 & HT). rewrite Es in L1, L2, HT. cbn [fst snd] in L1, L2, HT.
        exists new, taus, a. cbn [fst snd]. split; [exact Hp|]. split; [exact Hl|]. split; [|split; assumption].
        exists ((a + b) / 2). split.
        * split; [exact L1|]. split; [lra|]. intros t. rewrite (proj1 (HT t)), HB. f_equal. field.
        * exists b. split; [|exact Hrest].
          split; [exact L2|]. split; [lra|]. intros t. rewrite (proj2 (HT t)), HB. f_equal. field.
  Qed.

  Lemma inv_init : inv ([points], path0).
  Proof.
    exists [], [], 0. cbn [fst snd]. split; [rewrite app_nil_r; reflexivity|]. split; [reflexivity|].
    split; [|split; [exact I|reflexivity]].
    exists 1. split; [|reflexivity]. split; [exact Hpts|]. split; [lra|].
    intros t. unfold B. f_equal. ring.
  Qed.

  (* the emitted path carries parameters from 0 to 1 along which it follows the curve *)
  Theorem bezier_param_close fuel path' :
    approximate_bezier_R fuel path0 points = Done path' ->
    exists new taus, path' = path0 ++ new /\ length taus = length new /\
      hd 1 taus = 0 /\ last taus 0 = 1 /\ follows B K (combine taus new).
  Proof.
    unfold approximate_bezier_R, approximate_bezier_g. intros H.
    pose proof (iter_fuel_inv (bstep_g flat_R sub_R emit_R) inv post I step_inv fuel _ inv_init) as HP.
    destruct (iter_fuel (bstep_g flat_R sub_R emit_R) fuel ([points], path0)) as [p| |]; cbn [obind] in H; try discriminate.
    destruct HP as (new & taus & Hp & Hl & Hfol & Hhd).
    assert (EB1 : last points zeroRR = B 1) by (symmetry; exact (Bez_1 points n Hpts)).
    assert (H' : Done (p ++ [last points zeroRR]) = Done path').
    { destruct points; [discriminate Hpts|exact H]. }
    clear H. injection H' as <-.
    exists (new ++ [B 1]), (taus ++ [1]). split; [rewrite Hp, EB1, app_assoc; reflexivity|].
    split; [rewrite !app_length, Hl; reflexivity|].
    split; [destruct taus; [cbn [hd] in Hhd; lra|exact Hhd]|].
    split; [apply last_last|].
    rewrite (combine_app taus _ new _ Hl). exact Hfol.
  Qed.
End Loop.

(* ---------- the two-sided Hausdorff bound ---------- *)

Lemma last_as_nth {X} (d : X) : forall l, last l d = nth (pred (length l)) l d.
Proof.
  induction l as [|a l IH]; [reflexivity|]. destruct l as [|b r]; [reflexivity|].
  change (last (a :: b :: r) d) with (last (b :: r) d). rewrite IH. reflexivity.
Qed.

Theorem bezier_hausdorff points n' path0 fuel path' :
  length points = S (S n') ->
  approximate_bezier_R fuel path0 points = Done path' ->
  let K := Kbez (S n') in
  let B := Bez points in
  exists new, path' = path0 ++ new /\ (2 <= length new)%nat /\
    (* every vertex is within K of the curve *)
    (forall k, (k < length new)%nat ->
       exists t, 0 <= t <= 1 /\ dist2 (B t) (nth k new zeroRR) <= K) /\
    (* every point of the polyline is within K of the curve *)
    (forall k s, (S k < length new)%nat -> 0 <= s <= 1 ->
       exists t, 0 <= t <= 1 /\ dist2 (B t) (lerp2 (nth k new zeroRR) (nth (S k) new zeroRR) s) <= K) /\
    (* every point of the curve is within K of the polyline *)
    (forall t, 0 <= t <= 1 ->
       exists k s, (S k < length new)%nat /\ 0 <= s <= 1 /\
         dist2 (B t) (lerp2 (nth k new zeroRR) (nth (S k) new zeroRR) s) <= K).
Proof.
  intros Hpts Hrun K B.
  destruct (bezier_param_close points n' Hpts path0 fuel path' Hrun) as (new & taus & Hp & Hl & Hhd & Hlast & Hfol).
  fold K in Hfol. fold B in Hfol.
  set (l := combine taus new) in *.
  assert (Ll : length l = length new) by (unfold l; rewrite combine_length, Hl, Nat.min_id; reflexivity).
  assert (Hnth : forall k, nth k l (0, zeroRR) = (nth k taus 0, nth k new zeroRR)).
  { intros k. unfold l. apply combine_nth. exact Hl. }
  assert (Hlen2 : (2 <= length new)%nat).
  { rewrite <- Hl. destruct taus as [|t0 [|t1 r]]; cbn [hd last length] in *; try lra. lia. }
  assert (H0 : fst (nth 0 l (0, zeroRR)) = 0).
  { rewrite Hnth. cbn [fst]. destruct taus; [cbn [length] in Hl; lia|exact Hhd]. }
  assert (H1 : fst (nth (pred (length l)) l (0, zeroRR)) = 1).
  { rewrite Hnth. cbn [fst]. rewrite Ll, <- Hl, <- last_as_nth. exact Hlast. }
  assert (Hrange : forall k, (k < length l)%nat -> 0 <= fst (nth k l (0, zeroRR)) <= 1).
  { intros k Hk. split.
    - apply Rle_trans with (fst (nth 0 l (0, zeroRR))); [rewrite H0; lra|].
      apply (follows_mono B K); [exact Hfol|lia|exact Hk].
    - apply Rle_trans with (fst (nth (pred (length l)) l (0, zeroRR))); [|rewrite H1; lra].
      apply (follows_mono B K); [exact Hfol|lia|lia]. }
  assert (Hedge : forall k s, (S k < length new)%nat -> 0 <= s <= 1 ->
            exists t, 0 <= t <= 1 /\ dist2 (B t) (lerp2 (nth k new zeroRR) (nth (S k) new zeroRR) s) <= K).
  { intros k s Hk Hs.
    pose proof (follows_edge B K (0, zeroRR) l k Hfol ltac:(lia)) as [Hle He].
    specialize (He s Hs). rewrite !Hnth in He. cbn [fst snd] in He.
    pose proof (Hrange k ltac:(lia)) as R0. pose proof (Hrange (S k) ltac:(lia)) as R1.
    rewrite !Hnth in R0, R1, Hle. cbn [fst] in R0, R1, Hle.
    eexists. split; [|exact He]. split; nra. }
  exists new. split; [exact Hp|]. split; [exact Hlen2|]. split; [|split; [exact Hedge|]].
  - intros k Hk. destruct (Nat.eq_dec (S k) (length new)) as [E|E].
    + (* the last vertex: the end of the previous edge *)
      destruct k as [|k]; [lia|].
      destruct (Hedge k 1 ltac:(lia) ltac:(lra)) as (t & Ht & Hd). rewrite lerp2_1 in Hd. eauto.
    + destruct (Hedge k 0 ltac:(lia) ltac:(lra)) as (t & Ht & Hd). rewrite lerp2_0 in Hd. eauto.
  - intros t Ht.
    destruct (follows_cover B K (0, zeroRR) l Hfol ltac:(lia) t ltac:(rewrite H0, H1; exact Ht))
      as [[L1 _]|(j & s & Hj & Hs & Et)]; [lia|].
    exists j, s. split; [lia|]. split; [exact Hs|].
    pose proof (follows_edge B K (0, zeroRR) l j Hfol Hj) as [_ He].
    specialize (He s Hs). rewrite <- Et in He. rewrite !Hnth in He. exact He.
Qed.

(* ---------- the hypothesis "the routine returns" is met ----------
   (T01g in exact arithmetic: second differences up to 2^37 with the fuel of
   the model) *)
Lemma approximate_bezier_R_returns (c : list RP) M path :
  c <> [] -> B2 M (dd (map fst c)) (dd (map snd c)) -> 0 <= M -> M <= 4 ^ 19 / 2 ->
  exists path', approximate_bezier_R bezier_fuel path c = Done path'.
Proof.
  intros Hne HB H0 HM. destruct (T01g_exact_fuel c M path emit_R Hne HB H0 HM) as (p & Hp).
  unfold approximate_bezier_R, approximate_bezier_g. rewrite Hp. cbn [obind].
  destruct c; [congruence|]. eexists. reflexivity.
Qed.

Example bezier_hausdorff_nonvacuous :
  exists path', approximate_bezier_R bezier_fuel [] [(0, 0); (1, 0); (0, 0)] = Done path'.
Proof.
  apply (approximate_bezier_R_returns _ 2); [discriminate| |lra|cbn [pow]; lra].
  cbn [map fst snd]. rewrite !dd_cons3. constructor; [|constructor]. lra.
Qed.

(* ---------- the convex-hull property ----------
   every point of the curve is a convex combination of the control points:
   whatever closed half-plane / strip  | u . p - c | <= delta  contains all
   control points contains the curve *)
Theorem bezier_convex_hull (P : list RP) n ux uy c delta t :
  length P = S n -> 0 <= t <= 1 ->
  (forall p, In p P -> Rabs (ux * fst p + uy * snd p - c) <= delta) ->
  Rabs (ux * fst (Bez P t) + uy * snd (Bez P t) - c) <= delta.
Proof.
  intros Hlen Ht Hall.
  set (Q := fun x y (_ : R) => Rabs (x - c * y) <= delta * y).
  assert (HF : F3 Q (map (proj ux uy) P) (ap 1 0 (S n)) (ap 1 0 (S n))).
  { apply (F3_of_nth _ (S n)); [rewrite map_length; exact Hlen|apply ap_length|apply ap_length|].
    intros i Hi. unfold Q. rewrite (map_nth' zeroRR 0 (proj ux uy) (proj_zero ux uy)), ap_nth by exact Hi.
    replace (1 + INR i * 0) with 1 by ring. rewrite !Rmult_1_r.
    apply Hall. apply nth_In. rewrite <- Hlen in Hi. exact Hi. }
  assert (Qc : forall s a b c0 a' b' c0', 0 <= s <= 1 -> Q a b c0 -> Q a' b' c0' ->
               Q (comb s a a') (comb s b b') (comb s c0 c0')).
  { unfold Q, comb. intros s a b _ a' b' _ Hs H1 H2.
    replace ((1 - s) * a + s * a' - c * ((1 - s) * b + s * b'))
      with ((1 - s) * (a - c * b) + s * (a' - c * b')) by ring.
    eapply Rle_trans; [apply Rabs_triang|]. rewrite !Rabs_mult.
    rewrite (Rabs_pos_eq (1 - s)), (Rabs_pos_eq s) by lra.
    replace (delta * ((1 - s) * b + s * b')) with ((1 - s) * (delta * b) + s * (delta * b')) by ring.
    apply Rplus_le_compat; apply Rmult_le_compat_l; lra. }
  assert (Q0 : Q 0 0 0) by (unfold Q; rewrite Rmult_0_r, Rminus_0_r, Rabs_R0; lra).
  pose proof (F3_dc Q Qc Q0 t n Ht _ _ _ HF) as H. unfold Q in H.
  rewrite dc_ap, (dc_proj ux uy n t P Ht) in H.
  unfold Bez. rewrite Hlen. cbn [pred fst snd].
  replace (1 + INR n * (t * 0)) with 1 in H by ring. rewrite !Rmult_1_r in H. exact H.
Qed.

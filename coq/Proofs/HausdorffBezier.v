(* HausdorffBezier: T17e for Bezier / B-spline segments in exact (real)
   arithmetic, in the plane, for the whole routine (the subdivision loop
   included).

   The routine is the generic loop [bstep_g] of Proofs/BezierTermination with
   the generic emitted points [approx_pts_g] of Proofs/HausdorffBezierCore; the
   model is the binary32 instance ([model_approximate_bezier], by reflexivity),
   the theorems are about the instance over R x R ([approximate_bezier_R]).

   1. One flat piece, in the plane ([piece_close_2D]): apply the scalar bound of
      HausdorffBezierCore to the projection onto every unit vector.
   2. The loop ([bezier_param_close]): invariant -- the arrays on the stack are
      the control polygons of the SAME curve on consecutive parameter intervals
      covering [a, 1] (de Casteljau, T17b), the path so far is a polyline that
      follows the curve on [0, a].  Result: the vertices of the emitted path
      carry parameters 0 = t_0 <= t_1 <= ... <= t_N = 1 such that on every
      edge, polyline and curve stay within K = n (2n - 1) / 8 * 2 * tolerance
      of each other AT CORRESPONDING POINTS.
   3. Hence the two-sided Hausdorff bound ([bezier_hausdorff]). *)
From RM Require Import Model.ControlPoints Model.Curve Gen.Generated Proofs.PathFacts Proofs.DeCasteljau
  Proofs.BezierTermination Proofs.ArcExact Proofs.HausdorffPlane Proofs.HausdorffBezierCore.
From Coq Require Import Reals Lra Lia Psatz.
Open Scope R_scope.

(* ---------- the routine, written once ---------- *)

Section BezierG.
  Context {P : Type}.
  Variables (flat : list P -> bool) (sub : list P -> list P * list P) (emit : list P -> list P) (dflt : P).
  Definition approximate_bezier_g (fuel : positive) (path points : list P) : outcome (list P) :=
    obind (iter_fuel (bstep_g flat sub emit) fuel ([points], path)) (fun path' =>
    match points with
    | [] => Panic 2
    | _ => Done (path' ++ [last points dflt])
    end).
End BezierG.

Lemma model_approximate_bezier fuel path points :
  approximate_bezier_L1 fuel path points tt =
  obind (approximate_bezier_g flat_enough sub32 bezier_approx_pts pos0 fuel path points) (fun p => Done (p, tt)).
Proof.
  unfold approximate_bezier_L1, approximate_bezier_g.
  change bspline_step1 with (bstep_g flat_enough sub32 bezier_approx_pts).
  destruct (iter_fuel (bstep_g flat_enough sub32 bezier_approx_pts) fuel ([points], path)) as [p| |];
    cbn [obind]; try reflexivity.
  destruct points; reflexivity.
Qed.

(* the instance over the real plane *)
Definition addRR (a b : RP) : RP := (fst a + fst b, snd a + snd b).
Definition scaleRR (a : RP) (k : R) : RP := (fst a * k, snd a * k).
Definition triRR : RP -> RP -> RP -> RP := tri_g addRR scaleRR 2 (1 / 4).
Definition emit_R : list RP -> list RP := approx_pts_g avgRR triRR zeroRR.
Definition approximate_bezier_R : positive -> list RP -> list RP -> outcome (list RP) :=
  approximate_bezier_g flat_R sub_R emit_R zeroRR.

(* the tolerance: the flatness test is |second difference|^2 <= tol^2 * 4 *)
Definition bez_tol_R : R := dec_R bezier_tolerance_dec.
Lemma bez_tol_value : bez_tol_R = 1 / 4.
Proof.
  unfold bez_tol_R, dec_R, bezier_tolerance_dec. cbn.
  change (Pos.to_nat 2) with 2%nat. field.
Qed.
Lemma bez_limit_value : bez_tol_R * bez_tol_R * 4 = 1 / 4.
Proof. rewrite bez_tol_value. field. Qed.

(* ---------- homomorphisms commute with the emitted points ---------- *)

Section Hom2.
  Context {T U : Type} (avgT : T -> T -> T) (avgU : U -> U -> U) (triT : T -> T -> T -> T) (triU : U -> U -> U -> U)
          (dT : T) (dU : U) (h : T -> U).
  Hypothesis h_avg : forall a b, h (avgT a b) = avgU (h a) (h b).
  Hypothesis h_tri : forall a b c, h (triT a b c) = triU (h a) (h b) (h c).
  Hypothesis h_d : h dT = dU.

  Lemma map_triples_aux m :
    map h (triples_g triT m) = triples_g triU (map h m) /\
    forall x, map h (triples_g triT (x :: m)) = triples_g triU (map h (x :: m)).
  Proof.
    induction m as [|a m [IH1 IH2]].
    - split; [reflexivity|]. intros x. reflexivity.
    - split; [apply IH2|]. intros x. destruct m as [|c r]; [reflexivity|].
      change (triples_g triT (x :: a :: c :: r)) with (triT x a c :: triples_g triT (c :: r)).
      change (map h (x :: a :: c :: r)) with (h x :: h a :: h c :: map h r).
      change (triples_g triU (h x :: h a :: h c :: map h r))
        with (triU (h x) (h a) (h c) :: triples_g triU (map h (c :: r))).
      cbn [map]. rewrite h_tri. f_equal. exact IH1.
  Qed.

  Lemma map_triples m : map h (triples_g triT m) = triples_g triU (map h m).
  Proof. exact (proj1 (map_triples_aux m)). Qed.

  Lemma map_tl' (m : list T) : map h (tl m) = tl (map h m).
  Proof. destruct m; reflexivity. Qed.

  Lemma map_hd' m : h (hd dT m) = hd dU (map h m).
  Proof. destruct m; [exact h_d|reflexivity]. Qed.

  Lemma map_last' m : h (last m dT) = last (map h m) dU.
  Proof.
    induction m as [|a m IH]; [exact h_d|]. destruct m as [|b r]; [reflexivity|].
    change (last (a :: b :: r) dT) with (last (b :: r) dT). rewrite IH. reflexivity.
  Qed.

  Lemma map_approx_pts m : map h (approx_pts_g avgT triT dT m) = approx_pts_g avgU triU dU (map h m).
  Proof.
    unfold approx_pts_g. rewrite map_length.
    pose proof (map_subdiv avgT avgU dT dU h h_avg h_d (length m) m) as [H1 H2].
    destruct (subdiv_g avgT dT (length m) m) as [l r].
    destruct (subdiv_g avgU dU (length m) (map h m)) as [l' r'].
    cbn [fst snd] in H1, H2. cbn [map]. rewrite map_hd'. f_equal.
    rewrite map_triples, map_tl', map_app, map_tl', H1, H2. reflexivity.
  Qed.

  Lemma map_nth' m i : nth i (map h m) dU = h (nth i m dT).
  Proof. rewrite <- h_d. apply map_nth. Qed.
End Hom2.

(* ---------- lengths ---------- *)

Lemma triples_length {T} (tri : T -> T -> T -> T) k : forall l,
  length l = S (S (2 * k)) -> length (triples_g tri l) = k.
Proof.
  induction k as [|k IH]; intros l Hl.
  - destruct l as [|a [|b [|c r]]]; try discriminate. reflexivity.
  - destruct l as [|a [|b [|c r]]]; try discriminate.
    change (triples_g tri (a :: b :: c :: r)) with (tri a b c :: triples_g tri (c :: r)).
    cbn [length] in *. rewrite IH; [reflexivity|]. cbn [length]. lia.
Qed.

Lemma subdiv_g_length {T} (avg : T -> T -> T) d n : forall m,
  length (fst (subdiv_g avg d n m)) = n /\ length (snd (subdiv_g avg d n m)) = n.
Proof.
  induction n as [|n IH]; intros m; [split; reflexivity|].
  cbn [subdiv_g]. specialize (IH (avg_step_g avg m)).
  destruct (subdiv_g avg d n (avg_step_g avg m)) as [l r]. cbn [fst snd] in *.
  destruct IH as [IH1 IH2]. split; [cbn [length]; lia|]. rewrite app_length. cbn [length]. lia.
Qed.

Lemma approx_pts_length {T} (avg : T -> T -> T) tri (d : T) m k :
  length m = S (S k) -> length (approx_pts_g avg tri d m) = S k.
Proof.
  intros Hm. unfold approx_pts_g. rewrite Hm.
  destruct (subdiv_g_length avg d (S (S k)) m) as [L1 L2].
  destruct (subdiv_g avg d (S (S k)) m) as [l r]. cbn [fst snd] in *.
  cbn [length]. f_equal. apply triples_length.
  destruct l as [|l0 l]; [discriminate|]. destruct r as [|r0 r]; [discriminate|].
  cbn [tl app length] in *. rewrite app_length. lia.
Qed.

(* ---------- the curve ---------- *)

Definition Bez (P : list RP) (t : R) : RP :=
  (dc (pred (length P)) t (map fst P), dc (pred (length P)) t (map snd P)).

Definition proj (ux uy : R) (p : RP) : R := ux * fst p + uy * snd p.

Lemma proj_avg ux uy a b : proj ux uy (avgRR a b) = avgR (proj ux uy a) (proj ux uy b).
Proof. unfold proj, avgRR, avgR. cbn [fst snd]. field. Qed.

Lemma proj_tri ux uy a b c : proj ux uy (triRR a b c) = triR (proj ux uy a) (proj ux uy b) (proj ux uy c).
Proof. unfold proj, triRR, triR, tri_g, addRR, scaleRR. cbn [fst snd]. field. Qed.

Lemma proj_zero ux uy : proj ux uy zeroRR = 0.
Proof. unfold proj, zeroRR. cbn [fst snd]. ring. Qed.

Lemma dc_proj ux uy n t P : 0 <= t <= 1 ->
  dc n t (map (proj ux uy) P) = ux * dc n t (map fst P) + uy * dc n t (map snd P).
Proof.
  intros Ht.
  apply (F3_dc (fun x y z => x = ux * y + uy * z)); [| |exact Ht|].
  - intros s a b c a' b' c' _ -> ->. unfold comb. ring.
  - ring.
  - induction P as [|p P IH]; [constructor|]. cbn [map]. constructor; [reflexivity|exact IH].
Qed.

(* the flatness test, index by index *)
Lemma flat_R_nth : forall P, flat_R P = true -> forall i, (i + 2 < length P)%nat ->
  (fst (nth i P zeroRR) - 2 * fst (nth (S i) P zeroRR) + fst (nth (S (S i)) P zeroRR)) *
  (fst (nth i P zeroRR) - 2 * fst (nth (S i) P zeroRR) + fst (nth (S (S i)) P zeroRR)) +
  (snd (nth i P zeroRR) - 2 * snd (nth (S i) P zeroRR) + snd (nth (S (S i)) P zeroRR)) *
  (snd (nth i P zeroRR) - 2 * snd (nth (S i) P zeroRR) + snd (nth (S (S i)) P zeroRR)) <= 1 / 4.
Proof.
  induction P as [|p P IH]; intros Hf i Hi; [cbn [length] in Hi; lia|].
  destruct P as [|q [|s r]]; try (cbn [length] in Hi; lia).
  change (flat_R (p :: q :: s :: r)) with (if far_R p q s then false else flat_R (q :: s :: r)) in Hf.
  destruct (far_R p q s) eqn:Ef; [discriminate|].
  destruct i as [|i].
  - cbn [nth]. unfold far_R in Ef. destruct (Rlt_dec _ _) as [|Hn] in Ef; [discriminate|]. lra.
  - change (nth (S i) (p :: q :: s :: r) zeroRR) with (nth i (q :: s :: r) zeroRR).
    change (nth (S (S i)) (p :: q :: s :: r) zeroRR) with (nth (S i) (q :: s :: r) zeroRR).
    change (nth (S (S (S i))) (p :: q :: s :: r) zeroRR) with (nth (S (S i)) (q :: s :: r) zeroRR).
    apply IH; [exact Hf|]. cbn [length] in *. lia.
Qed.

(* ---------- one flat piece, in the plane ---------- *)

Definition Kbez (n : nat) : R := INR n * (2 * INR n - 1) / 8 * (2 * bez_tol_R).

Lemma Kbez_nonneg n : (1 <= n)%nat -> 0 <= Kbez n.
Proof.
  intros Hn. unfold Kbez. rewrite bez_tol_value.
  assert (1 <= INR n) by (change 1 with (INR 1); apply le_INR; exact Hn).
  assert (0 <= INR n * (2 * INR n - 1)) by nra. lra.
Qed.

(* the polyline of a piece: the emitted points, then its last control point *)
Definition Epts (P : list RP) : list RP := emit_R P ++ [last P zeroRR].

Theorem piece_close_2D P n' j s :
  length P = S (S n') -> flat_R P = true -> (j < S n')%nat -> 0 <= s <= 1 ->
  dist2 (Bez P ((INR j + s) / INR (S n'))) (lerp2 (nth j (Epts P) zeroRR) (nth (S j) (Epts P) zeroRR) s)
  <= Kbez (S n').
Proof.
  intros Hlen Hflat Hj Hs.
  unfold dist2, sqd2, sqd. apply norm_by_proj; [apply Kbez_nonneg; lia|].
  intros ux uy Hu.
  set (b := map (proj ux uy) P).
  assert (Hb : length b = S (S n')) by (unfold b; rewrite map_length; exact Hlen).
  assert (Hdd : forall i, (i + 2 <= S n')%nat ->
            Rabs (nth i b 0 - 2 * nth (S i) b 0 + nth (S (S i)) b 0) <= 1 / 2).
  { intros i Hi. unfold b.
    rewrite !(map_nth' zeroRR 0 (proj ux uy) (proj_zero ux uy)).
    pose proof (flat_R_nth P Hflat i ltac:(lia)) as Hf.
    set (p0 := nth i P zeroRR) in *. set (p1 := nth (S i) P zeroRR) in *. set (p2 := nth (S (S i)) P zeroRR) in *.
    replace (proj ux uy p0 - 2 * proj ux uy p1 + proj ux uy p2)
      with (ux * (fst p0 - 2 * fst p1 + fst p2) + uy * (snd p0 - 2 * snd p1 + snd p2)) by (unfold proj; ring).
    apply proj_le_norm; [exact Hu|lra|]. lra. }
  pose proof (piece_close b n' Hb (1 / 2) ltac:(lra) Hdd j s Hj Hs) as Hc.
  assert (Ht : 0 <= (INR j + s) / INR (S n') <= 1).
  { pose proof (pos_INR j). assert (INR j + 1 <= INR (S n')) by (rewrite <- S_INR; apply le_INR; lia).
    split.
    - apply Rmult_le_pos; [lra|]. apply Rlt_le, Rinv_0_lt_compat. lra.
    - apply Rmult_le_reg_r with (INR (S n')); [lra|]. unfold Rdiv. rewrite Rmult_assoc, Rinv_l by lra. lra. }
  assert (EE : Ebar b = map (proj ux uy) (Epts P)).
  { unfold Ebar, Epts, b. rewrite map_app. cbn [map].
    rewrite (map_approx_pts avgRR avgR triRR triR zeroRR 0 (proj ux uy) (proj_avg ux uy) (proj_tri ux uy) (proj_zero ux uy)).
    rewrite (map_last' zeroRR 0 (proj ux uy) (proj_zero ux uy)). reflexivity. }
  rewrite EE in Hc. rewrite !(map_nth' zeroRR 0 (proj ux uy) (proj_zero ux uy)) in Hc.
  unfold b in Hc. rewrite (dc_proj ux uy _ _ P Ht) in Hc.
  unfold Bez, lerp2. rewrite Hlen. cbn [pred fst snd].
  assert (EK : Kbez (S n') = INR (S n') * (2 * INR (S n') - 1) / 8 * (1 / 2))
    by (unfold Kbez; rewrite bez_tol_value; field).
  rewrite EK. eapply Rle_trans; [|exact Hc]. eapply Rle_trans; [|apply Rle_abs].
  unfold proj. right.
  set (e0 := nth j (Epts P) zeroRR). set (e1 := nth (S j) (Epts P) zeroRR). ring.
Qed.

(* VertexIEEEArcPath: C17, circular arcs -- the two-sided Hausdorff bound between
   the arc as emitted in binary32 / binary64 and the EXACT arc with the centre,
   radius, start angle and range that the computed arc properties denote, for
   the number of points n that the code computed (whatever it is, 2 <= n):

     sag n = radius * (1 - cos (range / (2 (n - 1))))       (the sagitta of one chord)

   1. over the reals, any n >= 2 ([arc_hausdorff_n]; HausdorffArc.arc_hausdorff
      is the case n = arc_sub_points_R, where sag n <= 4 * tolerance): vertices
      on the arc, chords within sag n of the arc and conversely;
   2. the computed vertices are within E_arc E el per coordinate of the exact
      ones (VertexIEEEArc.arc_path_ieee), linear interpolation keeps that, so
      every bound of 1. holds for the computed polyline with 3/2 E_arc E el
      added ([arc_hausdorff_ieee]).
   What this does not say: that sag n <= 4 * tolerance for the COMPUTED n (the
   count goes through acosf and a binary32 division), and how far the computed
   centre / radius / angles are from those of the circle through the three
   control points. *)
From RM Require Import Model.ControlPoints Model.Curve Gen.Generated Proofs.AdjustIEEEBase
  Proofs.BezierIEEE Proofs.ArcExact Proofs.HausdorffPlane Proofs.HausdorffArc Proofs.HausdorffCatmull
  Proofs.VertexIEEECatmull Proofs.VertexIEEECatmullPath Proofs.VertexIEEEBezierPath Proofs.VertexIEEEArc.
From Flocq Require Import Core BinarySingleNaN Raux.
From Coq Require Import Reals Lra Lia Psatz.
Open Scope R_scope.

Local Notation fin x := (is_finite x = true).
Local Notation bp := (bpow radix2).

(* ---------- 1. any number of points, over the reals ---------- *)

Section ArcN.
  Variables X Y r ts dir range : R.
  Variable n : Z.
  Hypothesis Hr : 0 <= r.
  Hypothesis Hrange : 0 <= range <= 2 * PI.
  Hypothesis Hdir : dir = 1 \/ dir = -1.
  Hypothesis Hn2 : (2 <= n)%Z.

  Let path := arc_path_R X Y r ts dir range n.
  Let N := IZR (n - 1).
  Let hs := dir * range / (2 * N).
  Let arc (f : R) : R * R := cpt X Y r (ts + f * (dir * range)).

  Definition sag_n : R := r * (1 - cos (range / (2 * IZR (n - 1)))).

  Lemma N_ge_1' : 1 <= N.
  Proof. unfold N. apply IZR_le. lia. Qed.

  Lemma hs_range' : - PI <= hs <= PI.
  Proof.
    pose proof N_ge_1' as HN. unfold hs.
    assert (Hq : 0 <= range / (2 * N) <= PI).
    { split.
      - apply Rmult_le_pos; [lra|]. apply Rlt_le, Rinv_0_lt_compat. lra.
      - apply Rmult_le_reg_r with (2 * N); [lra|]. unfold Rdiv. rewrite Rmult_assoc, Rinv_l by lra. nra. }
    destruct Hdir as [-> | ->].
    - replace (1 * range / (2 * N)) with (range / (2 * N)) by (field; lra). lra.
    - replace (-1 * range / (2 * N)) with (- (range / (2 * N))) by (field; lra). lra.
  Qed.

  Lemma cos_hs' : cos hs = cos (range / (2 * N)).
  Proof.
    pose proof N_ge_1' as HN. unfold hs. destruct Hdir as [-> | ->].
    - f_equal. field. lra.
    - replace (-1 * range / (2 * N)) with (- (range / (2 * N))) by (field; lra). apply cos_neg.
  Qed.

  Lemma sag_eq : r * (1 - cos hs) = sag_n.
  Proof. rewrite cos_hs'. reflexivity. Qed.

  Lemma sag_nonneg : 0 <= sag_n.
  Proof. unfold sag_n. pose proof (COS_bound (range / (2 * IZR (n - 1)))). apply Rmult_le_pos; lra. Qed.

  Lemma vertex_on_arc' i : (i < Z.to_nat n)%nat ->
    nth i path (0, 0) = arc (INR i / N) /\ 0 <= INR i / N <= 1.
  Proof.
    intros Hi. split; [apply arc_path_R_nth; exact Hi|].
    pose proof N_ge_1' as HN. pose proof (pos_INR i) as Hpos.
    assert (Hle : INR i <= N).
    { unfold N. rewrite <- (Z2Nat.id (n - 1)) by lia. rewrite <- INR_IZR_INZ. apply le_INR. lia. }
    split.
    - apply Rmult_le_pos; [lra|]. apply Rlt_le, Rinv_0_lt_compat. lra.
    - apply Rmult_le_reg_r with N; [lra|]. unfold Rdiv. rewrite Rmult_assoc, Rinv_l by lra. lra.
  Qed.

  Lemma chord_ends' i :
    ts + INR i / N * (dir * range) = ts + (2 * INR i + 1) * hs - hs /\
    ts + INR (S i) / N * (dir * range) = ts + (2 * INR i + 1) * hs + hs.
  Proof. pose proof N_ge_1' as HN. rewrite S_INR. unfold hs. split; field; lra. Qed.

  Lemma sector_point' i k :
    ts + (2 * INR i + 1) * hs + k * hs = ts + ((2 * INR i + 1 + k) / (2 * N)) * (dir * range).
  Proof. pose proof N_ge_1' as HN. unfold hs. field. lra. Qed.

  Theorem arc_hausdorff_n :
    length path = Z.to_nat n /\
    (forall i, (i < Z.to_nat n)%nat -> exists f, 0 <= f <= 1 /\ nth i path (0, 0) = arc f) /\
    (forall i s, (S i < Z.to_nat n)%nat -> 0 <= s <= 1 ->
       exists f, 0 <= f <= 1 /\
         dist2 (lerp2 (nth i path (0, 0)) (nth (S i) path (0, 0)) s) (arc f) <= sag_n) /\
    (forall f, 0 <= f <= 1 ->
       exists i s, (S i < Z.to_nat n)%nat /\ 0 <= s <= 1 /\
         dist2 (arc f) (lerp2 (nth i path (0, 0)) (nth (S i) path (0, 0)) s) <= sag_n).
  Proof.
    pose proof N_ge_1' as HN. pose proof hs_range' as Hhs. pose proof sag_nonneg as Hsag.
    split; [apply arc_path_R_length|]. split; [|split].
    - intros i Hi. destruct (vertex_on_arc' i Hi) as [E Hf]. eexists. split; [exact Hf|exact E].
    - intros i s Hi Hs.
      destruct (vertex_on_arc' i ltac:(lia)) as [E1 _]. destruct (vertex_on_arc' (S i) Hi) as [E2 _].
      rewrite E1, E2. unfold arc at 1 2. destruct (chord_ends' i) as [C1 C2]. rewrite C1, C2.
      destruct (chord_to_arc_signed X Y r (ts + (2 * INR i + 1) * hs) hs s Hr Hhs Hs) as (k & Hk & Hb).
      exists ((2 * INR i + 1 + k) / (2 * N)). split.
      + pose proof (pos_INR i) as Hpos.
        assert (Hle : INR (S i) <= N).
        { unfold N. rewrite <- (Z2Nat.id (n - 1)) by lia. rewrite <- INR_IZR_INZ. apply le_INR. lia. }
        rewrite S_INR in Hle. split.
        * apply Rmult_le_pos; [lra|]. apply Rlt_le, Rinv_0_lt_compat. lra.
        * apply Rmult_le_reg_r with (2 * N); [lra|]. unfold Rdiv. rewrite Rmult_assoc, Rinv_l by lra. lra.
      + unfold arc. rewrite <- sector_point'. apply dist2_le; [exact Hsag|].
        rewrite <- sag_eq. exact Hb.
    - intros f Hf.
      set (j := Z.min (Zfloor (f * N)) (n - 2)).
      assert (Hfl : IZR (Zfloor (f * N)) <= f * N < IZR (Zfloor (f * N)) + 1).
      { split; [apply Zfloor_lb|apply Zfloor_ub]. }
      assert (Hj0 : (0 <= j)%Z).
      { subst j. apply Z.min_glb; [|lia]. apply Zfloor_lub. cbn. nra. }
      assert (HNn : N = IZR (n - 2) + 1) by (unfold N; rewrite !minus_IZR; lra).
      assert (Hjb : IZR j <= f * N <= IZR j + 1).
      { subst j. destruct (Z.min_spec (Zfloor (f * N)) (n - 2)) as [[Hlt ->]|[Hge ->]].
        - lra.
        - split; [apply Rle_trans with (IZR (Zfloor (f * N))); [apply IZR_le; lia|lra]|]. nra. }
      set (i := Z.to_nat j).
      assert (Hi : (S i < Z.to_nat n)%nat) by (subst i j; lia).
      assert (Ei : INR i = IZR j) by (subst i; rewrite INR_IZR_INZ, Z2Nat.id by lia; reflexivity).
      set (k := 2 * (f * N - INR i) - 1).
      assert (Hk : -1 <= k <= 1) by (subst k; rewrite Ei; lra).
      destruct (arc_to_chord_signed X Y r (ts + (2 * INR i + 1) * hs) hs k Hr Hhs Hk) as (s & Hs & Hb).
      exists i, s. split; [exact Hi|]. split; [exact Hs|].
      destruct (vertex_on_arc' i ltac:(lia)) as [E1 _]. destruct (vertex_on_arc' (S i) Hi) as [E2 _].
      rewrite E1, E2. unfold arc. destruct (chord_ends' i) as [C1 C2]. rewrite C1, C2.
      replace (ts + f * (dir * range)) with (ts + (2 * INR i + 1) * hs + k * hs)
        by (rewrite sector_point'; subst k; f_equal; field; lra).
      apply dist2_le; [exact Hsag|]. rewrite <- sag_eq. exact Hb.
  Qed.
End ArcN.

(* ---------- 2. the emitted arc ---------- *)

Lemma dist2_sym p q : dist2 p q = dist2 q p.
Proof. unfold dist2. rewrite sqd2_sym. reflexivity. Qed.

Section ArcIEEE.
  Variable lm : Libm.
  Variable el : R.
  Hypothesis el_nonneg : 0 <= el.
  Hypothesis cos_ok : forall x : F64, fin x ->
    fin (l_cos lm x) /\ Rabs (B2R (l_cos lm x)) <= 1 /\ Rabs (B2R (l_cos lm x) - cos (B2R x)) <= el.
  Hypothesis sin_ok : forall x : F64, fin x ->
    fin (l_sin lm x) /\ Rabs (B2R (l_sin lm x)) <= 1 /\ Rabs (B2R (l_sin lm x) - sin (B2R x)) <= el.

  Theorem arc_hausdorff_ieee E a b c pr arc :
    (0 <= E <= 100)%Z ->
    circular_arc_properties lm a b c = Done (Some pr) -> arc_props_ok E pr ->
    0 <= B2R (a_radius pr) -> B2R (a_theta_range pr) <= 2 * PI ->
    approximate_circular_arc lm a b c = Done (Some arc) ->
    let n := arc_sub_points lm pr in
    let X := B2R (px (a_centre pr)) in let Y := B2R (py (a_centre pr)) in let r := B2R (a_radius pr) in
    let ts := B2R (a_theta_start pr) in let dir := B2R (a_direction pr) in let range := B2R (a_theta_range pr) in
    let exact (f : R) := cpt X Y r (ts + f * (dir * range)) in
    let K := sag_n r range n + 3 / 2 * E_arc E el in
    (2 <= n < arc_subpoint_cap)%Z /\ length arc = Z.to_nat n /\ Forall pos_fin arc /\
    (forall i, (i < Z.to_nat n)%nat ->
       exists f, 0 <= f <= 1 /\ dist2 (exact f) (posR (nth i arc pos0)) <= 3 / 2 * E_arc E el) /\
    (forall i s, (S i < Z.to_nat n)%nat -> 0 <= s <= 1 ->
       exists f, 0 <= f <= 1 /\
         dist2 (exact f) (lerp2 (posR (nth i arc pos0)) (posR (nth (S i) arc pos0)) s) <= K) /\
    (forall f, 0 <= f <= 1 ->
       exists i s, (S i < Z.to_nat n)%nat /\ 0 <= s <= 1 /\
         dist2 (exact f) (lerp2 (posR (nth i arc pos0)) (posR (nth (S i) arc pos0)) s) <= K).
  Proof.
    intros HE Hp Hok Hr0 Hr2pi Hrun n X Y r ts dir range exact K.
    destruct (arc_path_ieee lm el el_nonneg cos_ok sin_ok E a b c pr arc HE Hp Hok Hrun) as (Hn & Larc & LarcR & Hv).
    fold n in Hn, Larc, LarcR, Hv. fold X Y r ts dir range in LarcR, Hv.
    destruct Hok as (_ & _ & _ & _ & _ & Hdir & _ & Hrg). fold dir in Hdir. fold range in Hrg.
    fold range in Hr2pi. fold r in Hr0.
    destruct (arc_hausdorff_n X Y r ts dir range n Hr0 ltac:(lra) Hdir ltac:(lia)) as (_ & HV & HC & HA).
    set (arcR := arc_path_R X Y r ts dir range n) in *.
    assert (He : 0 <= E_arc E el).
    { unfold E_arc. pose proof (bpow_gt_0 radix2 E). pose proof (bpow_gt_0 radix2 (-47)). pose proof (bpow_gt_0 radix2 (E - 23)).
      assert (0 <= bp E * (el + bp (-47))) by (apply Rmult_le_pos; lra). lra. }
    pose proof (sag_nonneg r range n Hr0) as Hs0.
    split; [exact Hn|]. split; [exact Larc|].
    split.
    { rewrite Forall_forall. intros p Hp0. destruct (In_nth _ _ pos0 Hp0) as (i & Hi & Ep).
      rewrite Larc in Hi. destruct (Hv i Hi) as (F & _). rewrite Ep in F. exact F. }
    split; [|split].
    - intros i Hi. destruct (HV i Hi) as (f & Hf & Ef). exists f. split; [exact Hf|].
      destruct (Hv i Hi) as (_ & Dx & Dy). fold (exact f) in Ef. rewrite Ef in Dx, Dy.
      rewrite dist2_sym. apply dist2_close; [exact He| |]; unfold posR; cbn [fst snd]; assumption.
    - intros i s Hi Hs. destruct (HC i s Hi Hs) as (f & Hf & D). exists f. split; [exact Hf|].
      destruct (Hv i ltac:(lia)) as (_ & Ax & Ay). destruct (Hv (S i) Hi) as (_ & Bx & By).
      rewrite dist2_sym in D. fold (exact f) in D.
      destruct (lerp2_perturb (nth i arcR (0, 0)) (nth (S i) arcR (0, 0)) (posR (nth i arc pos0)) (posR (nth (S i) arc pos0))
                              s (E_arc E el) Hs Ax Ay Bx By) as [L1 L2].
      unfold K. apply (dist2_perturb _ (lerp2 (nth i arcR (0, 0)) (nth (S i) arcR (0, 0)) s)); assumption.
    - intros f Hf. destruct (HA f Hf) as (i & s & Hi & Hs & D). exists i, s. split; [exact Hi|]. split; [exact Hs|].
      destruct (Hv i ltac:(lia)) as (_ & Ax & Ay). destruct (Hv (S i) Hi) as (_ & Bx & By).
      fold (exact f) in D.
      destruct (lerp2_perturb (nth i arcR (0, 0)) (nth (S i) arcR (0, 0)) (posR (nth i arc pos0)) (posR (nth (S i) arc pos0))
                              s (E_arc E el) Hs Ax Ay Bx By) as [L1 L2].
      unfold K. apply (dist2_perturb _ (lerp2 (nth i arcR (0, 0)) (nth (S i) arcR (0, 0)) s)); assumption.
  Qed.
End ArcIEEE.

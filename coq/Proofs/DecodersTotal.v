(* DecodersTotal: no decoder of Model/Decoders.v panics or runs out of fuel
   (the line layer of C01), and the consequences for C07 ("exactly").

   The parser states of the TimingPoints / HitObjects / Beatmap decoders are
   [outcome]s; they stay [Done] on every file:
     - parse_hit_objects is total on every state and line (C14);
     - parse_timing_points and the final flush are total as long as the four
       control-point lists are sorted, and they keep them sorted (the only
       panic points are the indexings behind the binary searches);
     - the six key/value and record parsers have no panic points at all.
   The finishing step of HitObjects / Beatmap adds the slider loop:
   [difficulty_point_at] indexes a sorted list at the position the search
   returned, and the curve distance [dist_of] is a parameter; with
   [dist_total] the whole decode is [Done]. *)
From RM Require Import Model.Decoders Proofs.FramingFacts Proofs.ControlPointsFacts
     Proofs.HitObjectLineFacts Proofs.MapLevelFacts Proofs.DecodersFacts.
From Coq Require Import Permutation.
Open Scope Z_scope.

(* ------------------------------------------------------------------ *)
(* an invariant of the parser state holds after every file              *)

Section Invariant.
  Context {S V : Type} (create : Z -> S) (ps : parsers S) (finish : S -> V).
  Context (I : S -> Prop)
          (I_create : forall v, I (create v))
          (I_step : forall sec st l, I st -> I (fst (parser_of ps sec st l))).

  Lemma feed_invariant : forall routed st, I st -> I (feed ps st routed).
  Proof.
    induction routed as [|[sec l] r IH]; intros st H; [exact H|].
    rewrite feed_cons. apply IH. apply I_step. exact H.
  Qed.

  Lemma state_after_invariant : forall pre, I (state_after create ps pre).
  Proof. intros pre. unfold state_after. apply feed_invariant. apply I_create. Qed.

  Lemma driver_invariant : forall (P : V -> Prop),
    (forall st, I st -> P (finish st)) ->
    forall lines, P (driver create ps finish lines).
  Proof.
    intros P HP lines. rewrite driver_refines. apply HP. apply feed_invariant. apply I_create.
  Qed.
End Invariant.

(* ------------------------------------------------------------------ *)
(* timing points: total on sorted collections, and they stay sorted     *)

Lemma add_opt_timing_sorted c o : cp_sorted c ->
  exists c', add_opt add_timing c o = Done c' /\ cp_sorted c'.
Proof.
  intros H. destruct o as [p|]; cbn [add_opt]; [exact (cp_step_sorted c (OpAddT p) H)|eauto].
Qed.
Lemma add_opt_difficulty_sorted c o : cp_sorted c ->
  exists c', add_opt add_difficulty c o = Done c' /\ cp_sorted c'.
Proof.
  intros H. destruct o as [p|]; cbn [add_opt]; [exact (cp_step_sorted c (OpAddD p) H)|eauto].
Qed.
Lemma add_opt_effect_sorted c o : cp_sorted c ->
  exists c', add_opt add_effect c o = Done c' /\ cp_sorted c'.
Proof.
  intros H. destruct o as [p|]; cbn [add_opt]; [exact (cp_step_sorted c (OpAddE p) H)|eauto].
Qed.
Lemma add_opt_sample_sorted c o : cp_sorted c ->
  exists c', add_opt add_sample c o = Done c' /\ cp_sorted c'.
Proof.
  intros H. destruct o as [p|]; cbn [add_opt]; [exact (cp_step_sorted c (OpAddS p) H)|eauto].
Qed.

Lemma flush_cp_sorted st : cp_sorted (ts_cp st) ->
  exists c, flush_cp st = Done c /\ cp_sorted c.
Proof.
  intros H. unfold flush_cp.
  destruct (add_opt_timing_sorted _ (ts_pt st) H) as (c1 & -> & H1). cbn [obind].
  destruct (add_opt_difficulty_sorted _ (ts_pd st) H1) as (c2 & -> & H2). cbn [obind].
  destruct (add_opt_effect_sorted _ (ts_pe st) H2) as (c3 & -> & H3). cbn [obind].
  exact (add_opt_sample_sorted _ (ts_ps st) H3).
Qed.

Lemma push_front_cp st p : ts_cp (push_front st p) = ts_cp st.
Proof. destruct st, p; reflexivity. Qed.
Lemma push_back_cp st p : ts_cp (push_back st p) = ts_cp st.
Proof. destruct st, p; reflexivity. Qed.
Lemma set_time_cp st t : ts_cp (set_time st t) = ts_cp st.
Proof. destruct st; reflexivity. Qed.

Lemma add_control_point_sorted st t p tc : cp_sorted (ts_cp st) ->
  exists st', add_control_point st t p tc = Done st' /\ cp_sorted (ts_cp st').
Proof.
  intros H. unfold add_control_point.
  assert (exists st1, (if time_changed t (ts_time st) then flush_pending_points st else Done st)
                      = Done st1 /\ cp_sorted (ts_cp st1)) as (st1 & -> & H1).
  { destruct (time_changed t (ts_time st)); [|eauto].
    unfold flush_pending_points. destruct (flush_cp_sorted st H) as (c & -> & Hc).
    cbn [obind]. eexists. split; [reflexivity|]. exact Hc. }
  cbn [obind]. eexists. split; [reflexivity|].
  rewrite set_time_cp. destruct tc; [rewrite push_front_cp|rewrite push_back_cp]; exact H1.
Qed.

Lemma apply_line_sorted st r : cp_sorted (ts_cp st) ->
  exists st', apply_line st r = Done st' /\ cp_sorted (ts_cp st').
Proof.
  intros H. unfold apply_line.
  assert (exists st1, (if l_tc r then add_control_point st (l_time r) (PT (line_tp r)) (l_tc r) else Done st)
                      = Done st1 /\ cp_sorted (ts_cp st1)) as (st1 & -> & H1).
  { destruct (l_tc r); [apply add_control_point_sorted; exact H|eauto]. }
  cbn [obind].
  destruct (add_control_point_sorted st1 (l_time r) (PD (line_dp r)) (l_tc r) H1) as (st2 & -> & H2).
  cbn [obind].
  destruct (add_control_point_sorted st2 (l_time r) (PS (line_sp r)) (l_tc r) H2) as (st3 & -> & H3).
  cbn [obind].
  destruct (add_control_point_sorted st3 (l_time r)
              (PE (line_ep (tpg_mode (ts_general st3)) r)) (l_tc r) H3) as (st4 & -> & H4).
  cbn [obind]. eexists. split; [reflexivity|]. rewrite set_time_cp. exact H4.
Qed.

(* TimingPoints::parse_timing_points never panics on a sorted collection *)
Theorem parse_timing_points_sorted st l : cp_sorted (ts_cp st) ->
  exists st' r, parse_timing_points st l = Done (st', r) /\ cp_sorted (ts_cp st').
Proof.
  intros H. unfold parse_timing_points.
  destruct (parse_tp_line (ts_general st) l) as [r|].
  - destruct (apply_line_sorted st r H) as (st' & -> & H'). cbn [obind].
    exists st', Ok. split; [reflexivity|exact H'].
  - exists st, Rejected. split; [reflexivity|exact H].
Qed.

Theorem tp_finish_sorted st : cp_sorted (ts_cp st) ->
  exists c, tp_finish st = Done c /\ cp_sorted c.
Proof. exact (flush_cp_sorted st). Qed.

(* a rejected timing-point line returns the state it was given *)
Lemma parse_timing_points_rejected st l st' :
  parse_timing_points st l = Done (st', Rejected) -> st' = st.
Proof.
  unfold parse_timing_points. destruct (parse_tp_line (ts_general st) l) as [r|].
  - destruct (apply_line st r); cbn [obind]; discriminate.
  - intros [= <-]. reflexivity.
Qed.

(* ------------------------------------------------------------------ *)
(* the parser states never panic                                        *)

Definition tp_ok (ot : outcome TPD) : Prop :=
  exists s, ot = Done s /\ cp_sorted (tpd_cp s).
Definition ho_ok (oh : outcome HOD) : Prop :=
  exists s, oh = Done s /\ cp_sorted (tpd_cp (hod_tp s)).
Definition bm_ok (ob : outcome BMD) : Prop :=
  exists s, ob = Done s /\ cp_sorted (tpd_cp (hod_tp (bmd_ho s))).

Ltac total_inner :=
  match goal with
  | H : cp_sorted ?c |- context [parse_timing_points ?a ?b] =>
      let st' := fresh "st'" in let r := fresh "r" in let E := fresh "E" in let H' := fresh "H'" in
      destruct (parse_timing_points_sorted a b H) as (st' & r & E & H'); rewrite E; cbn [obind fst snd]
  | |- context [parse_hit_objects ?a ?b] =>
      let st' := fresh "st'" in let r := fresh "r" in let E := fresh "E" in
      destruct (parse_hit_objects_total a b) as (st' & r & E); rewrite E; cbn [obind fst snd]
  end.

Ltac ok_step :=
  intros sec os l (s & -> & Hs);
  destruct sec; open_parsers; unwrap;
  try (change (cp_sorted (ts_cp (tpd_core s))) in Hs);
  try (change (cp_sorted (ts_cp (tpd_core (hod_tp s)))) in Hs);
  try (change (cp_sorted (ts_cp (tpd_core (hod_tp (bmd_ho s))))) in Hs);
  try total_inner; repeat case_inner;
  (eexists; split; [reflexivity|]); proj_simpl; assumption.

Lemma tp_ok_step : forall sec os l, tp_ok os -> tp_ok (fst (parser_of tp_parsers sec os l)).
Proof. unfold tp_ok. ok_step. Qed.
Lemma ho_ok_step : forall sec os l, ho_ok os -> ho_ok (fst (parser_of ho_parsers sec os l)).
Proof. unfold ho_ok. ok_step. Qed.
Lemma bm_ok_step : forall sec os l, bm_ok os -> bm_ok (fst (parser_of bm_parsers sec os l)).
Proof. unfold bm_ok. ok_step. Qed.

Lemma tp_ok_create : tp_ok (Done tpd_create).
Proof. exists tpd_create. split; [reflexivity|exact cp_empty_sorted]. Qed.
Lemma ho_ok_create : ho_ok (Done hod_create).
Proof. exists hod_create. split; [reflexivity|exact cp_empty_sorted]. Qed.
Lemma bm_ok_create v : bm_ok (Done (bmd_create v)).
Proof. exists (bmd_create v). split; [reflexivity|exact cp_empty_sorted]. Qed.

(* the state of each decoder after any prefix of a file *)
Theorem tp_state_ok : forall pre, tp_ok (state_after (fun _ => Done tpd_create) tp_parsers pre).
Proof.
  apply (state_after_invariant _ _ tp_ok); [intros; exact tp_ok_create|exact tp_ok_step].
Qed.
Theorem ho_state_ok : forall pre, ho_ok (state_after (fun _ => Done hod_create) ho_parsers pre).
Proof.
  apply (state_after_invariant _ _ ho_ok); [intros; exact ho_ok_create|exact ho_ok_step].
Qed.
Theorem bm_state_ok : forall pre,
  bm_ok (state_after (fun v => Done (bmd_create v)) bm_parsers pre).
Proof.
  apply (state_after_invariant _ _ bm_ok); [exact bm_ok_create|exact bm_ok_step].
Qed.

(* ------------------------------------------------------------------ *)
(* finishing                                                            *)

Lemma tpd_finish_total s : cp_sorted (tpd_cp s) ->
  exists tv, tpd_finish s = Done tv /\ cp_sorted (tpv_control_points tv).
Proof.
  intros H. unfold tpd_finish.
  destruct (tp_finish_sorted (tpd_core s) H) as (c & -> & Hc). cbn [obind].
  eexists. split; [reflexivity|exact Hc].
Qed.

Section WithDist.
  Variable dist_of : Z -> list PCP -> option F64 -> outcome F64.

  (* the curve package's obligation: the distance of a slider path is a value *)
  Definition dist_total : Prop := forall m cps e, exists d, dist_of m cps e = Done d.

  (* the weaker condition that is enough for one list of objects *)
  Definition slider_dist_ok (h : HitObject) : Prop :=
    match h_kind h with
    | KSlider s => exists d, dist_of (sl_mode s) (sl_control_points s) (sl_expected_dist s) = Done d
    | _ => True
    end.

  (* the loop body: the difficulty-point lookup cannot index out of bounds on
     a sorted list; nothing else can fail except [dist_of] *)
  Lemma process_object_total c sm mode h : cp_sorted c -> slider_dist_ok h ->
    exists h', process_object dist_of c sm mode h = Done h'.
  Proof.
    intros (_ & Hd & _ & _) Hs. unfold process_object, slider_dist_ok in *.
    destruct (h_kind h) as [ci|s|sp|hd]; cbn [obind]; try (eexists; reflexivity).
    unfold difficulty_point_at. rewrite (at_opt_spec dp_time _ _ Hd). cbn [obind].
    unfold slider_duration.
    cbn [sl_mode sl_control_points sl_expected_dist sl_repeat_count sl_velocity].
    destruct Hs as (d & ->). cbn [obind]. eexists. reflexivity.
  Qed.

  Lemma process_objects_total c sm mode l : cp_sorted c -> Forall slider_dist_ok l ->
    exists l', process_objects dist_of c sm mode l = Done l'.
  Proof.
    intros Hc. induction l as [|h r IH]; intros Hl; cbn [process_objects]; [eauto|].
    inversion Hl as [|? ? Hh Hr]; subst.
    destruct (process_object_total c sm mode h Hc Hh) as (h' & ->). cbn [obind].
    destruct (IH Hr) as (r' & ->). cbn [obind]. eauto.
  Qed.

  Lemma slider_dist_ok_total : dist_total -> forall h, slider_dist_ok h.
  Proof. intros Ht h. unfold slider_dist_ok. destruct (h_kind h); auto. Qed.

  (* sorting permutes the objects and the break pass only sets new_combo: the
     sliders whose distance is asked for are those of the parsed list *)
  Lemma force_new_combo_dist_ok h f : slider_dist_ok h -> slider_dist_ok (force_new_combo h f).
  Proof.
    destruct h as [st k sa]. unfold slider_dist_ok, force_new_combo. cbn [h_kind h_start h_samples].
    destruct k as [c|s|sp|hd]; cbn [h_kind sl_mode sl_control_points sl_expected_dist]; auto.
  Qed.

  Lemma post_process_breaks_dist_ok objs : forall bs,
    Forall slider_dist_ok objs ->
    Forall slider_dist_ok (post_process_breaks h_start force_new_combo bs objs).
  Proof.
    induction objs as [|h r IH]; intros bs H; cbn [post_process_breaks]; [constructor|].
    inversion H as [|? ? Hh Hr]; subst.
    destruct (skip_breaks bs (h_start h) false) as [bs' f].
    constructor; [apply force_new_combo_dist_ok; exact Hh|apply IH; exact Hr].
  Qed.

  Lemma finish_hit_objects_total_on c breaks sm mode objs :
    cp_sorted c -> Forall slider_dist_ok objs ->
    exists l, finish_hit_objects dist_of c breaks sm mode objs = Done l.
  Proof.
    intros Hc Hall. unfold finish_hit_objects. apply process_objects_total; [exact Hc|].
    apply post_process_breaks_dist_ok.
    apply Forall_forall. intros x Hx. rewrite Forall_forall in Hall. apply Hall.
    apply (Permutation_in x (ssort_perm start_key objs)). exact Hx.
  Qed.

  Lemma finish_hit_objects_total c breaks sm mode objs : dist_total -> cp_sorted c ->
    exists l, finish_hit_objects dist_of c breaks sm mode objs = Done l.
  Proof.
    intros Ht Hc. unfold finish_hit_objects. apply process_objects_total; [exact Hc|].
    apply Forall_forall. intros h _. apply slider_dist_ok_total. exact Ht.
  Qed.

  Lemma hod_finish_total s : dist_total -> cp_sorted (tpd_cp (hod_tp s)) ->
    exists hv, hod_finish dist_of s = Done hv.
  Proof.
    intros Ht H. unfold hod_finish.
    destruct (tpd_finish_total (hod_tp s) H) as (tv & -> & Hc). cbn [obind].
    destruct (finish_hit_objects_total (tpv_control_points tv) (ev_breaks (hod_events s))
                (d_slider_multiplier (hod_difficulty s)) (g_mode (tpv_general tv))
                (hod_objects s) Ht Hc) as (objs & ->).
    cbn [obind]. eauto.
  Qed.

  Lemma bmd_finish_total s : dist_total -> cp_sorted (tpd_cp (hod_tp (bmd_ho s))) ->
    exists bv, bmd_finish dist_of s = Done bv.
  Proof.
    intros Ht H. unfold bmd_finish. destruct (hod_finish_total (bmd_ho s) Ht H) as (hv & ->).
    cbn [obind]. eauto.
  Qed.

  (* ---------------------------------------------------------------- *)
  (* T01a, line layer: every decoder returns a value on every file      *)

  Theorem decode_timing_points_total : forall lines,
    exists tv, decode_timing_points lines = Done tv.
  Proof.
    unfold decode_timing_points.
    apply (driver_invariant _ _ _ tp_ok (fun _ => tp_ok_create) tp_ok_step
             (fun ov => exists tv, ov = Done tv)).
    intros st (s & -> & Hs). cbn [obind].
    destruct (tpd_finish_total s Hs) as (tv & -> & _). eauto.
  Qed.

  Theorem decode_hit_objects_total : dist_total -> forall lines,
    exists hv, decode_hit_objects dist_of lines = Done hv.
  Proof.
    intros Ht. unfold decode_hit_objects.
    apply (driver_invariant _ _ _ ho_ok (fun _ => ho_ok_create) ho_ok_step
             (fun ov => exists hv, ov = Done hv)).
    intros st (s & -> & Hs). cbn [obind]. exact (hod_finish_total s Ht Hs).
  Qed.

  Theorem decode_beatmap_total : dist_total -> forall lines,
    exists bv, decode_beatmap dist_of lines = Done bv.
  Proof.
    intros Ht. unfold decode_beatmap.
    apply (driver_invariant _ _ _ bm_ok bm_ok_create bm_ok_step
             (fun ov => exists bv, ov = Done bv)).
    intros st (s & -> & Hs). cbn [obind]. exact (bmd_finish_total s Ht Hs).
  Qed.

  (* without any assumption on [dist_of]: the parse never fails; the only
     step of the Beatmap / HitObjects decode that can is the finishing loop,
     and there only the curve distance of a slider *)
  Theorem decode_beatmap_fails_only_in_dist : forall lines,
    exists s, cp_sorted (tpd_cp (hod_tp (bmd_ho s))) /\
              decode_beatmap dist_of lines = bmd_finish dist_of s.
  Proof.
    unfold decode_beatmap.
    apply (driver_invariant _ _ _ bm_ok bm_ok_create bm_ok_step
             (fun ov => exists s, cp_sorted (tpd_cp (hod_tp (bmd_ho s))) /\ ov = bmd_finish dist_of s)).
    intros st (s & -> & Hs). exists s. split; [exact Hs|reflexivity].
  Qed.

  (* ... and there only for a slider that is in the file: if [dist_of] is a
     value on the sliders the parse collected, the decode returns *)
  Theorem decode_beatmap_total_on_sliders : forall lines,
    exists s,
      decode_beatmap dist_of lines = bmd_finish dist_of s /\
      (Forall slider_dist_ok (hod_objects (bmd_ho s)) ->
       exists bv, bmd_finish dist_of s = Done bv).
  Proof.
    intros lines. destruct (decode_beatmap_fails_only_in_dist lines) as (s & Hs & E).
    exists s. split; [exact E|]. intros Hall.
    unfold bmd_finish, hod_finish.
    destruct (tpd_finish_total (hod_tp (bmd_ho s)) Hs) as (tv & -> & Hc). cbn [obind].
    destruct (finish_hit_objects_total_on (tpv_control_points tv) (ev_breaks (hod_events (bmd_ho s)))
                (d_slider_multiplier (hod_difficulty (bmd_ho s))) (g_mode (tpv_general tv))
                (hod_objects (bmd_ho s)) Hc Hall) as (objs & ->).
    cbn [obind]. eauto.
  Qed.

  (* ---------------------------------------------------------------- *)
  (* C07, both directions at once                                       *)

  Theorem decoders_agree : dist_total -> forall lines,
    exists bv,
      decode_beatmap dist_of lines = Done bv /\
      decode_general lines = hov_general (bmv_ho bv) /\
      decode_editor lines = bmv_editor bv /\
      decode_metadata lines = bmv_metadata bv /\
      decode_difficulty lines = hov_difficulty (bmv_ho bv) /\
      decode_events lines = hov_events (bmv_ho bv) /\
      decode_colors lines = bmv_colors bv /\
      decode_timing_points lines =
        Done (mkTPV (hov_general (bmv_ho bv)) (hov_control_points (bmv_ho bv))) /\
      decode_hit_objects dist_of lines = Done (bmv_ho bv).
  Proof.
    intros Ht lines. destruct (decode_beatmap_total Ht lines) as (bv & Hb).
    exists bv. split; [exact Hb|].
    repeat split.
    - symmetry. exact (beatmap_general dist_of lines bv Hb).
    - symmetry. exact (beatmap_editor dist_of lines bv Hb).
    - symmetry. exact (beatmap_metadata dist_of lines bv Hb).
    - symmetry. exact (beatmap_difficulty dist_of lines bv Hb).
    - symmetry. exact (beatmap_events dist_of lines bv Hb).
    - symmetry. exact (beatmap_colors dist_of lines bv Hb).
    - exact (beatmap_timing_points dist_of lines bv Hb).
    - exact (beatmap_hit_objects_done dist_of lines bv Hb).
  Qed.
End WithDist.

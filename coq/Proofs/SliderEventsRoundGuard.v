(* SliderEventsRoundGuard: the loop guards of generate_ticks read as real
   inequalities (binary64), and the running sum that ENDS the loop.

   A tick at travelled distance d exists iff  d <= len  and not
   d >= len - min_dist_from_end , both comparisons on binary64 values, the
   subtraction rounded once.  For finite operands these are the real
   inequalities  d <= len  and  d < RN(len - mdfe) .  Together with the
   rounding bound of the running sum this says where the exact multiples
   (j+1)*td lie: every tick has
        (j+1)*td  <  RN(len - mdfe) + j*ulp(len)/2
   and the first multiple WITHOUT a tick, k = number of ticks, has its running
   sum d_k outside the guard with
        | d_k - (k+1)*td |  <=  k * ulp(max(len, d_k)) / 2 . *)
From RM Require Import Model.SliderEvents Proofs.SliderEventsFacts Proofs.SliderEventsMono
     Proofs.FloatNonneg Proofs.TickBound Proofs.SliderEventsRound.
From Flocq Require Import Core BinarySingleNaN.
From Coq Require Import Reals Lra Lia ZArith List.
Import ListNotations.
Open Scope R_scope.

Local Notation fin x := (is_finite x = true).
Local Notation fexp64 := (SpecFloat.fexp 53 1024).
Local Notation RN := (round radix2 fexp64 (round_mode mode_NE)).

(* float comparisons of finite values are the real comparisons *)
Lemma le_R (a b : F64) : fin a -> fin b -> D.le a b = Rle_bool (B2R a) (B2R b).
Proof. intros Fa Fb. unfold D.le, fle. apply Bleb_correct; assumption. Qed.

Lemma lt_R (a b : F64) : fin a -> fin b -> D.lt a b = Rlt_bool (B2R a) (B2R b).
Proof. intros Fa Fb. unfold D.lt, flt. apply Bltb_correct; assumption. Qed.

Lemma le_true_R a b : fin a -> fin b -> (D.le a b = true <-> B2R a <= B2R b).
Proof.
  intros Fa Fb. rewrite (le_R a b Fa Fb). destruct (Rle_bool_spec (B2R a) (B2R b)); split; intros; try lra; try reflexivity; discriminate.
Qed.

Lemma le_false_R a b : fin a -> fin b -> (D.le a b = false <-> B2R b < B2R a).
Proof.
  intros Fa Fb. rewrite (le_R a b Fa Fb). destruct (Rle_bool_spec (B2R a) (B2R b)); split; intros; try lra; try reflexivity; discriminate.
Qed.

(* the guard of the loop, for finite operands *)
Lemma guard_R (len mdfe d : F64) : fin len -> fin d -> fin (D.sub len mdfe) ->
  (guard ops64 len mdfe d = true <-> B2R d <= B2R len /\ B2R d < B2R (D.sub len mdfe)).
Proof.
  intros Fl Fd Fs. unfold guard. cbn [ops64 f_le f_sub].
  rewrite andb_true_iff, negb_true_iff, (le_true_R d len Fd Fl), (le_false_R _ d Fs Fd). tauto.
Qed.

(* len - mdfe does not overflow when both are finite and not negative *)
Lemma sub_nonneg_fin (len mdfe : F64) : fin len -> fin mdfe -> 0 <= B2R len -> 0 <= B2R mdfe ->
  fin (D.sub len mdfe) /\ B2R (D.sub len mdfe) = RN (B2R len - B2R mdfe).
Proof.
  intros Fl Fm Hl Hm.
  pose proof (Bminus_correct 53 1024 Hp64 He64 mode_NE len mdfe Fl Fm) as H.
  rewrite Rlt_bool_true in H.
  - destruct H as (HR & HF & _). split; assumption.
  - assert (B : - B2R mdfe <= RN (B2R len - B2R mdfe) <= B2R len).
    { split.
      - apply Rle_trans with (RN (- B2R mdfe)); [|apply RN_le; lra].
        change (round_mode mode_NE) with ZnearestE. rewrite round_NE_opp. change ZnearestE with (round_mode mode_NE).
        rewrite RN_id. lra.
      - apply Rle_trans with (RN (B2R len)); [apply RN_le; lra | rewrite RN_id; lra]. }
    pose proof (abs_B2R_lt_emax 53 1024 len) as A1. pose proof (abs_B2R_lt_emax 53 1024 mdfe) as A2.
    rewrite Rabs_pos_eq in A1, A2 by assumption.
    apply Rabs_lt. lra.
Qed.

(* ---------- running sums bounded by an arbitrary M ---------- *)

Section RSumMax.
  Variable td : F64.
  Hypothesis Ft : fin td.
  Hypothesis Ht : 0 < B2R td.

  Lemma rsum_fin_pos : forall j, fin (rsum ops64 td td j) ->
    (forall i, (i <= j)%nat -> fin (rsum ops64 td td i)) /\
    (forall i, (i <= j)%nat -> 0 < B2R (rsum ops64 td td i) <= B2R (rsum ops64 td td j)).
  Proof.
    induction j as [|j IH]; intros Fj.
    - split; intros i Hi; replace i with 0%nat by lia; [exact Fj | cbn [rsum]; lra].
    - rewrite rsum_S in Fj. cbn [ops64 f_add] in Fj.
      destruct (fin_add_inv _ _ Fj) as (Fp & _). destruct (IH Fp) as (IF & IB).
      pose proof (rsum_step_le _ _ Fp Ft Ht Fj) as Hstep. unfold Fle in Hstep.
      split; intros i Hi.
      + destruct (Nat.eq_dec i (S j)) as [->|Hne]; [rewrite rsum_S; exact Fj | apply IF; lia].
      + rewrite (rsum_S ops64 td td j). cbn [ops64 f_add].
        destruct (Nat.eq_dec i (S j)) as [->|Hne].
        * rewrite (rsum_S ops64 td td j). cbn [ops64 f_add].
          specialize (IB j (le_n _)). lra.
        * specialize (IB i ltac:(lia)). lra.
  Qed.

  Lemma rsum_error_max (M : R) : forall j, fin (rsum ops64 td td j) -> B2R (rsum ops64 td td j) <= M ->
    Rabs (B2R (rsum ops64 td td j) - INR (S j) * B2R td) <= INR j * (/ 2 * ulp64 M).
  Proof.
    induction j as [|j IH]; intros Fj Bj.
    - cbn [rsum INR]. rewrite Rmult_1_l, Rmult_0_l. unfold Rminus. rewrite Rplus_opp_r, Rabs_R0. lra.
    - destruct (rsum_fin_pos (S j) Fj) as (IF & IB).
      pose proof (IF j (Nat.le_succ_diag_r j)) as Fp. pose proof (IB j (Nat.le_succ_diag_r j)) as Bp.
      pose proof (IB (S j) (le_n _)) as BS.
      specialize (IH Fp ltac:(lra)).
      rewrite rsum_S in *. cbn [ops64 f_add] in *.
      rewrite (add_R _ _ Fp Ft Fj) in *.
      set (x := B2R (rsum ops64 td td j) + B2R td) in *.
      pose proof (RN_err x) as He.
      assert (Hu : / 2 * ulp64 (RN x) <= / 2 * ulp64 M).
      { apply Rmult_le_compat_l; [lra|]. apply ulp64_le_pos; lra. }
      replace (RN x - INR (S (S j)) * B2R td)
        with ((RN x - x) + (B2R (rsum ops64 td td j) - INR (S j) * B2R td))
        by (unfold x; rewrite (S_INR (S j)); ring).
      eapply Rle_trans; [apply Rabs_triang|].
      replace (INR (S j) * (/ 2 * ulp64 M)) with (/ 2 * ulp64 M + INR j * (/ 2 * ulp64 M))
        by (rewrite (S_INR j); ring).
      apply Rplus_le_compat; [lra | exact IH].
  Qed.
End RSumMax.

(* ---------- where the ticks are, and where they stop ---------- *)

(* every tick passes the real guards; hence its exact multiple lies below
   RN(len - mdfe) up to the rounding of the running sum *)
Theorem tick_before_end (len mdfe td : F64) (ds : list F64) :
  fin len -> fin (D.sub len mdfe) -> dists_ok ops64 len mdfe td ds ->
  forall j, (j < length ds)%nat ->
  let d := nth j ds D.zero in
  B2R d <= B2R len /\ B2R d < B2R (D.sub len mdfe) /\
  INR (S j) * B2R td < B2R (D.sub len mdfe) + INR j * (/ 2 * ulp64 (B2R len)) /\
  INR (S j) * B2R td <= B2R len + INR j * (/ 2 * ulp64 (B2R len)).
Proof.
  intros Fl Fs Hok j Hj d.
  destruct (tick_distance_error len mdfe td ds Fl Hok j Hj) as (_ & _ & _ & Fd & Bd & E).
  fold d in Fd, Bd, E.
  destruct Hok as (_ & Hall & _). rewrite Forall_forall in Hall.
  destruct (Hall d (nth_In ds D.zero Hj)) as (_ & G2). cbn [ops64 f_le f_sub] in G2.
  apply (le_false_R _ d Fs Fd) in G2.
  apply Rabs_le_inv in E. repeat split; lra.
Qed.

(* the loop stops at the first running sum that fails the guard; its distance
   from the exact multiple *)
Theorem first_rejected_sum (len mdfe td : F64) (ds : list F64) :
  fin len -> fin td -> 0 < B2R td -> dists_ok ops64 len mdfe td ds ->
  let k := length ds in
  let d := rsum ops64 td td k in
  guard ops64 len mdfe d = false /\
  (fin d ->
   Rabs (B2R d - INR (S k) * B2R td) <= INR k * (/ 2 * ulp64 (Rmax (B2R len) (B2R d))) /\
   (fin (D.sub len mdfe) -> ~ (B2R d <= B2R len /\ B2R d < B2R (D.sub len mdfe)))).
Proof.
  intros Fl Ft Ht (_ & _ & Hlast) k d.
  assert (H0 : f_lt ops64 (c_zero ops64) td = true).
  { cbn [ops64 f_lt]. change (c_zero ops64) with D.zero.
    rewrite (lt_R D.zero td eq_refl Ft). apply Rlt_bool_true. exact Ht. }
  rewrite H0 in Hlast. split; [exact Hlast|]. intros Fd. split.
  - apply (rsum_error_max td Ft Ht _ k Fd). apply Rmax_r.
  - intros Fs HG. apply (guard_R len mdfe d Fl Fd Fs) in HG. unfold d, k in HG. congruence.
Qed.

(* sharper: only the LAST addition can leave (0, len]; the k-1 before it cost
   half an ulp of len each, the last one half an ulp of its own result *)
Theorem first_rejected_sum_step (len mdfe td : F64) (ds : list F64) :
  fin len -> fin td -> 0 < B2R td -> dists_ok ops64 len mdfe td ds ->
  let k := length ds in
  let d := rsum ops64 td td k in
  fin d ->
  Rabs (B2R d - INR (S k) * B2R td)
    <= INR (Nat.pred k) * (/ 2 * ulp64 (B2R len)) + (match k with O => 0 | S _ => / 2 * ulp64 (B2R d) end).
Proof.
  intros Fl Ft Ht Hok k d Fd. unfold d, k in *. clear d k.
  destruct (length ds) as [|j] eqn:El.
  - cbn [rsum Nat.pred INR]. replace (B2R td - 1 * B2R td) with 0 by ring. rewrite Rabs_R0. lra.
  - assert (Hj : (j < length ds)%nat) by lia.
    destruct (tick_distance_error len mdfe td ds Fl Hok j Hj) as (_ & _ & Hd & Fj & _ & Ej).
    cbn zeta in Hd. rewrite Hd in Fj, Ej. rewrite rsum_S in *. cbn [ops64 f_add Nat.pred] in *.
    rewrite (add_R _ _ Fj Ft Fd).
    set (x := B2R (rsum ops64 td td j) + B2R td).
    pose proof (RN_err x) as He.
    replace (round radix2 fexp64 (round_mode mode_NE) x - INR (S (S j)) * B2R td)
      with ((round radix2 fexp64 (round_mode mode_NE) x - x) + (B2R (rsum ops64 td td j) - INR (S j) * B2R td))
      by (unfold x; rewrite (S_INR (S j)); ring).
    eapply Rle_trans; [apply Rabs_triang|]. lra.
Qed.

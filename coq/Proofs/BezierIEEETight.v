(* BezierIEEETight: T01g for the binary32 instance with a four times larger
   range than BezierIEEE.T01g_ieee_bounded: n control points, finite
   coordinates |x| <= 2^E, n * 2^E <= 2^22.

   The argument does not go through the exact child.  Read over the reals,
   a computed row of the de Casteljau triangle is an APPROXIMATE averaging
   step of the row above ([astep u]: every entry within u = uE E of the
   midpoint of its two parents).  Then
     - the second differences ALONG a row grow by at most 4u per level
       (they are averaged, plus r_j - 2 r_j+1 + r_j+2)              [astep_dd];
     - three consecutive control points of the left child are the heads
       a, m1, z of three consecutive rows (a b c ..), (m1 m2 ..), (z ..), and
         a - 2 m1 + z = (a - 2b + c)/4 - 3/2 r1 + 1/2 r2 + r3       [head_dd]
       -- a quarter of the row's second difference, plus at most 3u;
     - the right child is the mirror image (lasts instead of heads; an
       approximate averaging step stays one when both rows are reversed).
   So with D a bound on the parent's second differences, those of either
   child are bounded by (D + 4(n-3)u)/4 + 3u = D/4 + n u              [ltri_dd].
   Fixed point 4nu/3; with n * 2^E <= 2^22: nu <= 2^-3 (+ 2^-128), fixed
   point <= 3/16; the flatness test is false once both second differences are
   <= 7/32 (E <= 20, rounding error of p - 2c at most 1/8); depth 19. *)
From RM Require Import Model.ControlPoints Model.Curve Proofs.BezierTermination Proofs.DeCasteljau
     Proofs.BezierEqualPoints Proofs.BezierIEEEScalar Proofs.BezierIEEE.
From Flocq Require Import Core BinarySingleNaN.
From Coq Require Import Reals Lra Lia.
Open Scope R_scope.

Local Notation fin x := (is_finite x = true).
Local Notation bp := (bpow radix2).

(* ---------- approximate averaging steps on real rows ---------- *)

Inductive astep (u : R) : list R -> list R -> Prop :=
| astep_nil : astep u [] []
| astep_one a : astep u [a] []
| astep_cons a b t m Y :
    Rabs (m - (a + b) / 2) <= u -> astep u (b :: t) Y -> astep u (a :: b :: t) (m :: Y).

Lemma Rabs_bounds x a : Rabs x <= a -> - a <= x <= a.
Proof. intros H. split; [apply Ropp_le_cancel; rewrite Ropp_involutive; eapply Rle_trans; [|exact H]; rewrite <- Rabs_Ropp; apply Rle_abs|eapply Rle_trans; [apply Rle_abs|exact H]]. Qed.

(* second differences along the row: non-expanding up to 4u *)
Lemma astep_dd u D X Y : astep u X Y -> Bd D (dd X) -> Bd (D + 4 * u) (dd Y).
Proof.
  induction 1 as [|a|a b t m Y Hm H1 IH]; intros HB; try constructor.
  inversion H1 as [|b'|b' c t' m2 Y' Hm2 H2]; subst; [constructor|].
  inversion H2 as [|c'|c' d t'' m3 Y'' Hm3 H3]; subst; [constructor|].
  rewrite dd_cons3 in HB. pose proof (Forall_inv HB) as Hd1. pose proof (Forall_inv_tail HB) as HB1.
  cbv beta in Hd1. pose proof HB1 as HB1'. rewrite dd_cons3 in HB1'. inversion HB1' as [|? ? Hd2 _]; subst.
  rewrite dd_cons3. constructor; [|apply IH; exact HB1].
  apply Rabs_bounds in Hm, Hm2, Hm3, Hd1, Hd2. apply Rabs_le. lra.
Qed.

(* heads of three consecutive rows *)
Lemma head_dd u D a b c m1 m2 z :
  Rabs (m1 - (a + b) / 2) <= u -> Rabs (m2 - (b + c) / 2) <= u -> Rabs (z - (m1 + m2) / 2) <= u ->
  Rabs (a - 2 * b + c) <= D -> Rabs (a - 2 * m1 + z) <= D / 4 + 3 * u.
Proof.
  intros H1 H2 H3 HD. apply Rabs_bounds in H1, H2, H3, HD. apply Rabs_le. lra.
Qed.

(* the left polygon of an approximate triangle of m levels below the row X *)
Inductive ltri (u : R) : nat -> list R -> list R -> Prop :=
| ltri_0 X : ltri u 0 X []
| ltri_S m X Y L : astep u X Y -> ltri u m Y L -> ltri u (S m) X (hd 0 X :: L).

Inductive rtri (u : R) : nat -> list R -> list R -> Prop :=
| rtri_0 X : rtri u 0 X []
| rtri_S m X Y Rr : astep u X Y -> rtri u m Y Rr -> rtri u (S m) X (Rr ++ [last X 0]).

Lemma ltri_dd u : 0 <= u -> forall m X L, ltri u m X L ->
  forall D, length X = m -> 0 <= D -> Bd D (dd X) -> Bd (D / 4 + INR m * u) (dd L).
Proof.
  intros Hu. induction 1 as [X|m X Y L HXY HL IH]; intros D Hlen H0 HB; [constructor|].
  assert (HY : length Y = m).
  { clear - HXY Hlen. revert m Hlen. induction HXY as [|a|a b t m' Y' _ H1 IH1]; intros m Hlen; cbn [length] in *; try lia.
    destruct m as [|m]; [lia|]. rewrite (IH1 m); lia. }
  specialize (IH (D + 4 * u) HY ltac:(lra) (astep_dd u D X Y HXY HB)). clear HY.
  rewrite S_INR.
  replace ((D + 4 * u) / 4 + INR m * u) with (D / 4 + (INR m + 1) * u) in IH by field.
  inversion HL as [Y0|m' Y0 Z L' HYZ HL']; subst; [constructor|].
  inversion HL' as [Z0|m'' Z0 W L'' HZW HL'']; subst; [constructor|].
  rewrite dd_cons3. constructor; [|exact IH].
  (* the three heads *)
  inversion HXY as [| |a b t m1 Y' Hm1 H1]; subst; try discriminate Hlen.
  inversion H1 as [|b'|b' c t' m2 Y'' Hm2 H2]; subst; [cbn [length] in Hlen; lia|].
  inversion HYZ as [| |? ? ? z Z' Hz _]; subst.
  cbn [hd]. rewrite dd_cons3 in HB. inversion HB as [|? ? Hd _]; subst.
  eapply Rle_trans; [apply (head_dd u D a b c m1 m2 z); assumption|].
  pose proof (pos_INR m''). rewrite !S_INR. nra.
Qed.

(* ---------- mirror image ---------- *)

Lemma astep_snoc u a b m : Rabs (m - (b + a) / 2) <= u ->
  forall P Q, astep u (P ++ [b]) Q -> astep u ((P ++ [b]) ++ [a]) (Q ++ [m]).
Proof.
  intros Hm. induction P as [|p P IH]; intros Q H.
  - cbn [app] in *. inversion H; subst. cbn [app]. apply astep_cons; [exact Hm|constructor].
  - cbn [app] in H. remember (P ++ [b]) as V eqn:EV. destruct V as [|q W]; [destruct P; discriminate EV|].
    inversion H as [| |? ? ? m' Q' Hm' H1]; subst.
    cbn [app]. rewrite <- EV. cbn [app]. apply astep_cons; [exact Hm'|]. exact (IH Q' H1).
Qed.

Lemma astep_rev u X Y : astep u X Y -> astep u (rev X) (rev Y).
Proof.
  induction 1 as [|a|a b t m Y Hm H1 IH]; try constructor.
  cbn [rev] in *. apply astep_snoc; [|exact IH].
  replace ((b + a) / 2) with ((a + b) / 2) by field. exact Hm.
Qed.

Lemma hd_rev (X : list R) : hd 0 (rev X) = last X 0.
Proof.
  induction X as [|a X IH]; [reflexivity|].
  cbn [rev]. destruct X as [|b X']; [reflexivity|].
  change (last (a :: b :: X') 0) with (last (b :: X') 0). rewrite <- IH.
  cbn [rev]. destruct (rev X' ++ [b]) eqn:Ev; [destruct (rev X'); discriminate Ev|reflexivity].
Qed.

Lemma rtri_ltri u m X Rr : rtri u m X Rr -> ltri u m (rev X) (rev Rr).
Proof.
  induction 1 as [X|m X Y Rr HXY HR IH]; [constructor|].
  rewrite rev_app_distr. cbn [rev app]. rewrite <- hd_rev.
  apply (ltri_S u m (rev X) (rev Y)); [apply astep_rev; exact HXY|exact IH].
Qed.

Lemma dd_snoc3 l p q x : dd (l ++ [p; q; x]) = dd (l ++ [p; q]) ++ [p - 2 * q + x].
Proof.
  induction l as [|a|a b r IH] using list_ind2; try reflexivity.
  change ((a :: b :: r) ++ [p; q; x]) with (a :: (b :: r) ++ [p; q; x]).
  change ((a :: b :: r) ++ [p; q]) with (a :: (b :: r) ++ [p; q]).
  destruct r as [|c r].
  - cbn [app]. rewrite !dd_cons3. reflexivity.
  - change ((b :: c :: r) ++ [p; q; x]) with (b :: c :: (r ++ [p; q; x])) in *.
    change ((b :: c :: r) ++ [p; q]) with (b :: c :: (r ++ [p; q])) in *.
    rewrite (dd_cons3 a b c), (dd_cons3 a b c (r ++ [p; q])). rewrite IH. reflexivity.
Qed.

Lemma dd_rev l : dd (rev l) = rev (dd l).
Proof.
  induction l as [|a|a b r IH] using list_ind2; try reflexivity.
  destruct r as [|c r]; [reflexivity|].
  rewrite dd_cons3. cbn [rev] in *. rewrite <- IH.
  rewrite <- !app_assoc. cbn [app]. rewrite dd_snoc3. f_equal. f_equal. ring.
Qed.

Lemma Bd_rev D l : Bd D (rev l) -> Bd D l.
Proof. unfold Bd. intros H. rewrite <- (rev_involutive l). apply Forall_rev. exact H. Qed.

Lemma rtri_dd u : 0 <= u -> forall m X Rr, rtri u m X Rr ->
  forall D, length X = m -> 0 <= D -> Bd D (dd X) -> Bd (D / 4 + INR m * u) (dd Rr).
Proof.
  intros Hu m X Rr H D Hlen H0 HB. apply Bd_rev. rewrite <- dd_rev.
  apply (ltri_dd u Hu m (rev X) (rev Rr) (rtri_ltri u m X Rr H) D); [rewrite rev_length; exact Hlen|exact H0|].
  rewrite dd_rev. unfold Bd. apply Forall_rev. exact HB.
Qed.

(* ---------- the binary32 triangle is an approximate triangle ---------- *)

Section F32.
  Variable E : Z.
  Hypothesis HE : (0 <= E <= 126)%Z.

  Lemma avg_step_astep xs : Forall (coord_ok E) xs ->
    astep (uE E) (map B2R xs) (map B2R (avg_step_g avg1 xs)) /\ Forall (coord_ok E) (avg_step_g avg1 xs).
  Proof.
    induction 1 as [|x xs' Hx HF IH]; [split; constructor|].
    inversion HF as [|x2 xs2 H2 HF2]; subst; [split; constructor|].
    change (avg_step_g avg1 (x :: x2 :: xs2)) with (avg1 x x2 :: avg_step_g avg1 (x2 :: xs2)).
    destruct IH as [IA IO]. destruct (midpoint_ok E x x2 HE Hx H2) as [Ho He].
    split; [|constructor; assumption].
    cbn [map]. apply astep_cons; [exact He|exact IA].
  Qed.

  Lemma B2R_hd xs : B2R (hd S.zero xs) = hd 0 (map B2R xs).
  Proof. destruct xs; reflexivity. Qed.

  Lemma B2R_last xs : B2R (last xs S.zero) = last (map B2R xs) 0.
  Proof.
    induction xs as [|a xs IH]; [reflexivity|].
    destruct xs as [|b xs']; [reflexivity|].
    change (last (a :: b :: xs') S.zero) with (last (b :: xs') S.zero). rewrite IH. reflexivity.
  Qed.

  Lemma subdiv_tri m : forall xs, Forall (coord_ok E) xs ->
    ltri (uE E) m (map B2R xs) (map B2R (fst (subdiv_g avg1 S.zero m xs))) /\
    rtri (uE E) m (map B2R xs) (map B2R (snd (subdiv_g avg1 S.zero m xs))).
  Proof.
    induction m as [|m IH]; intros xs Hok; [split; constructor|].
    cbn [subdiv_g]. destruct (avg_step_astep xs Hok) as [HA HO].
    specialize (IH (avg_step_g avg1 xs) HO).
    destruct (subdiv_g avg1 S.zero m (avg_step_g avg1 xs)) as [l r]. cbn [fst snd] in *.
    destruct IH as [IL IR]. split.
    - cbn [map]. rewrite B2R_hd. eapply ltri_S; eassumption.
    - rewrite map_app. cbn [map]. rewrite B2R_last. eapply rtri_S; eassumption.
  Qed.

  (* one coordinate of either child *)
  Lemma child_coord_tight D xs :
    Forall (coord_ok E) xs -> Bd D (dd (map B2R xs)) -> 0 <= D ->
    let n := length xs in
    let lr := subdiv_g avg1 S.zero n xs in
    let D' := D / 4 + INR n * uE E in
    (Forall (coord_ok E) (fst lr) /\ Bd D' (dd (map B2R (fst lr)))) /\
    (Forall (coord_ok E) (snd lr) /\ Bd D' (dd (map B2R (snd lr)))).
  Proof.
    intros Hok HD H0 n lr D'.
    destruct (child_coord E HE D xs Hok HD H0) as [[O1 _] [O2 _]]. fold n in O1, O2. fold lr in O1, O2.
    destruct (subdiv_tri n xs Hok) as [TL TR]. fold lr in TL, TR.
    assert (Hlen : length (map B2R xs) = n) by apply map_length.
    pose proof (uE_pos E) as Hu.
    split; (split; [assumption|]).
    - apply (ltri_dd (uE E) ltac:(lra) n _ _ TL D Hlen H0 HD).
    - apply (rtri_dd (uE E) ltac:(lra) n _ _ TR D Hlen H0 HD).
  Qed.

  Lemma Inv_children_tight D pts : 0 <= D -> Inv E D pts ->
    let D' := D / 4 + INR (length pts) * uE E in
    Inv E D' (fst (sub32 pts)) /\ Inv E D' (snd (sub32 pts)).
  Proof.
    intros H0 (Ox & Oy & Dx & Dy) D'.
    destruct (sub32_xs pts) as [X1 X2]. destruct (sub32_ys pts) as [Y1 Y2].
    pose proof (child_coord_tight D (xs_of pts) Ox Dx H0) as CX.
    pose proof (child_coord_tight D (ys_of pts) Oy Dy H0) as CY.
    cbv zeta in CX, CY.
    assert (Lx : length (xs_of pts) = length pts) by apply map_length.
    assert (Ly : length (ys_of pts) = length pts) by apply map_length.
    rewrite <- X1, <- X2, Lx in CX. rewrite <- Y1, <- Y2, Ly in CY. fold D' in CX, CY.
    destruct CX as [[A1 A2] [A3 A4]]. destruct CY as [[B1 B2] [B3 B4]].
    split; (split; [|split; [|split]]); assumption.
  Qed.

  (* the flatness test, general form *)
  Lemma Inv_flat_gen D pts : (E <= 100)%Z -> Inv E D pts -> D + bp (E - 23) <= 11 / 32 ->
    flat_enough pts = true.
  Proof.
    intros H100 HI HD. rewrite model_flat.
    induction pts as [|p|p q r IH] using list_ind2; try reflexivity.
    destruct r as [|s r]; [reflexivity|].
    destruct HI as (Ox & Oy & Dx & Dy). unfold xs_of, ys_of in *.
    cbn [map] in Ox, Oy, Dx, Dy. rewrite !dd_cons3 in Dx, Dy.
    inversion Ox as [|? ? [F1 B1] Ox1]; subst. inversion Oy as [|? ? [F4 B4] Oy1]; subst.
    inversion Ox1 as [|? ? [F2 B2] Ox2]; subst. inversion Oy1 as [|? ? [F5 B5] Oy2]; subst.
    inversion Ox2 as [|? ? [F3 B3] _]; subst. inversion Oy2 as [|? ? [F6 B6] _]; subst.
    inversion Dx as [|? ? Hx Dx1]; subst. inversion Dy as [|? ? Hy Dy1]; subst.
    change (flat_g far32 (p :: q :: s :: r)) with (if far32 p q s then false else flat_g far32 (q :: s :: r)).
    rewrite (far32_false_gen E p q s (conj (proj1 HE) H100) F1 F2 F3 F4 F5 F6 B1 B2 B3 B4 B5 B6
               ltac:(lra) ltac:(lra)).
    apply IH. split; [exact Ox1|]. split; [exact Oy1|]. split; assumption.
  Qed.

  (* depth *)
  Lemma within_tight a : (E <= 20)%Z -> 0 <= a ->
    forall d pts D,
    pts <> [] -> Inv E D pts -> 0 <= D ->
    a + 4 / 3 * (INR (length pts) * uE E) <= 7 / 32 ->
    D <= a * 4 ^ d + 4 / 3 * (INR (length pts) * uE E) ->
    within32 d pts.
  Proof.
    intros H20 Ha. induction d as [|d IH]; intros pts D Hne HI H0 HF HD.
    - split; [exact Hne|]. left. apply (Inv_flat_gen D); [lia|exact HI|].
      assert (bp (E - 23) <= 1 / 8).
      { replace (1 / 8) with (bp (-3)) by (cbn; lra). apply bpow_le. lia. }
      cbn [pow] in HD. lra.
    - split; [exact Hne|]. right.
      destruct (Inv_children_tight D pts H0 HI) as [IL IR]. cbv zeta in IL, IR.
      destruct (sub32_length pts) as [LL LR].
      assert (Hu : 0 <= INR (length pts) * uE E)
        by (apply Rmult_le_pos; [apply pos_INR|pose proof (uE_pos E); lra]).
      assert (Hlen : (length pts <> 0)%nat) by (destruct pts; [congruence|discriminate]).
      set (D' := D / 4 + INR (length pts) * uE E) in *.
      assert (H0' : 0 <= D') by (unfold D'; lra).
      assert (HD' : D' <= a * 4 ^ d + 4 / 3 * (INR (length pts) * uE E))
        by (unfold D'; cbn [pow] in HD; lra).
      split.
      + apply (IH _ D'); try assumption; try (rewrite LL; assumption).
        intros Ee. rewrite Ee in LL. cbn [length] in LL. lia.
      + apply (IH _ D'); try assumption; try (rewrite LR; assumption).
        intros Ee. rewrite Ee in LR. cbn [length] in LR. lia.
  Qed.
End F32.

(* ---------- the constants ---------- *)

(* n * 2^E <= 2^22: n * u <= 2^-3 + 2^-128 *)
Lemma noise_bound_tight E n : (0 <= E)%Z -> (Z.of_nat n * 2 ^ E <= 2 ^ 22)%Z ->
  INR n * uE E <= bp (-3) + bp (-128).
Proof.
  intros HE HK. unfold uE. rewrite Rmult_plus_distr_l. apply Rplus_le_compat.
  - replace (E - 25)%Z with (E + -25)%Z by ring. rewrite bpow_plus, <- Rmult_assoc.
    replace (bp (-3)) with (bp 22 * bp (-25)) by (rewrite <- bpow_plus; reflexivity).
    apply Rmult_le_compat_r; [apply bpow_ge_0|].
    rewrite INR_IZR_INZ, <- (IZR_Zpower radix2 E HE), <- (IZR_Zpower radix2 22) by lia.
    rewrite <- mult_IZR. apply IZR_le. exact HK.
  - replace (bp (-128)) with (bp 22 * bp (-150)) by (rewrite <- bpow_plus; reflexivity).
    apply Rmult_le_compat_r; [apply bpow_ge_0|].
    assert (Hn : (Z.of_nat n <= 4194304)%Z).
    { assert (0 < 2 ^ E)%Z by (apply Z.pow_pos_nonneg; lia).
      change (2 ^ 22)%Z with 4194304%Z in HK. nia. }
    rewrite INR_IZR_INZ, <- (IZR_Zpower radix2 22) by lia. apply IZR_le. exact Hn.
Qed.

Theorem within32_bounded_tight E points :
  (0 <= E)%Z -> (Z.of_nat (length points) * 2 ^ E <= 2 ^ 22)%Z ->
  points <> [] -> Forall (point_ok E) points ->
  within32 19 points.
Proof.
  intros HE HK Hne Hok.
  destruct (Nat.le_gt_cases (length points) 2) as [Hs|Hl].
  { apply (within_mono _ _ 0); [|lia]. split; [exact Hne|]. left. apply flat_short, Hs. }
  assert (H2E : (2 ^ E < 2 ^ 21)%Z).
  { assert (3 <= Z.of_nat (length points))%Z by lia.
    assert (0 < 2 ^ E)%Z by (apply Z.pow_pos_nonneg; lia).
    change (2 ^ 22)%Z with 4194304%Z in HK. change (2 ^ 21)%Z with 2097152%Z. nia. }
  assert (H20 : (E <= 20)%Z).
  { assert (E < 21)%Z by (apply (Z.pow_lt_mono_r_iff 2); lia). lia. }
  assert (HE' : (0 <= E <= 126)%Z) by lia.
  pose proof (noise_bound_tight E _ HE HK) as HN.
  assert (Hsmall : bp (-3) + bp (-128) <= 9 / 64).
  { replace (bp (-3)) with (8 / 64) by (cbn; lra).
    assert (bp (-128) <= bp (-6)) by (apply bpow_le; lia).
    replace (bp (-6)) with (1 / 64) in H by (cbn; lra). lra. }
  assert (Hnn : 0 <= INR (length points) * uE E)
    by (apply Rmult_le_pos; [apply pos_INR|pose proof (uE_pos E); lra]).
  apply (within_tight E HE' (1 / 32) H20 ltac:(lra) 19 points (4 * bp E)); try assumption.
  - apply Inv_initial. exact Hok.
  - pose proof (bpow_ge_0 radix2 E). lra.
  - lra.
  - assert (bp E <= bp 20) by (apply bpow_le; exact H20).
    replace (bp 20) with 1048576 in H by (cbn; lra).
    assert (4 ^ 19 = 274877906944) by (cbn [pow]; lra). lra.
Qed.

Theorem T01g_ieee_bounded_tight E path points :
  (0 <= E)%Z -> (Z.of_nat (length points) * 2 ^ E <= 2 ^ 22)%Z ->
  points <> [] -> Forall (point_ok E) points ->
  exists path', approximate_bezier_L1 bezier_fuel path points tt = Done (path', tt).
Proof.
  intros HE HK Hne Hok. apply approximate_bezier_L1_depth19.
  apply (within32_bounded_tight E); assumption.
Qed.

(* ---------- the pieces, as stated in Properties/C01.v ---------- *)

Lemma contraction_tight_ok E D pts : (0 <= E <= 126)%Z -> 0 <= D -> Inv E D pts ->
  let D' := D / 4 + INR (length pts) * uE E in
  Inv E D' (fst (sub32 pts)) /\ Inv E D' (snd (sub32 pts)).
Proof. intros HE. exact (Inv_children_tight E HE D pts). Qed.

Lemma flat_test_gen_ok E D pts : (0 <= E <= 100)%Z -> Inv E D pts -> D + bp (E - 23) <= 11 / 32 ->
  flat_enough pts = true.
Proof.
  intros HE. assert (H126 : (0 <= E <= 126)%Z) by lia. exact (Inv_flat_gen E H126 D pts (proj2 HE)).
Qed.

Example ex_seg_terminates_tight path :
  exists path', approximate_bezier_L1 bezier_fuel path ex_seg tt = Done (path', tt).
Proof. apply (T01g_ieee_bounded_tight 17); [lia|vm_compute; discriminate|discriminate|exact ex_seg_ok]. Qed.

(* Enc2D32: class D32 -- a slider whose end time lies beyond the parse limit.  The sample point
   that collect_samples puts at its tail is written as a [TimingPoints] line whose time is above
   2147483647; the decoder's field parser rejects that line, whatever the General settings and
   for every formatting function satisfying [fmt_ok].  So [sample_times_ok] (Proofs/Enc2Timing.v)
   is NOT an invariant of decoded maps.  Model witness with the real curve and slider-event
   models (an inherited line with a NaN beat length switches the ticks off, which keeps the
   event list short). *)
From RM Require Import Model.EncSpec Model.EncTimingSpec Proofs.EncText Proofs.EncFmt Proofs.EncSimple Proofs.EncObjects
     Proofs.FramingFacts Proofs.NumFacts Proofs.EncTiming Proofs.EncObjectsRT Proofs.EncRound Proofs.EncTimingExample
     Model.DrvEnc Proofs.Enc2Timing Proofs.Enc2Examples.
From RM Require Import Gen.Generated.
From Flocq Require Import BinarySingleNaN.
From Coq Require Import ZifyBool.
Open Scope Z_scope.

Section Beyond.
  Variables (fmt_f64 : F64 -> str) (fmt_f32 : F32 -> str) (fmt_int : Z -> str).
  Hypothesis Hfmt : fmt_ok fmt_f64 fmt_f32 fmt_int.
  Notation rline := (render fmt_f64 fmt_f32 fmt_int).

  (* a timing-point line whose time is finite but outside the parse limits is rejected *)
  Theorem tp_line_time_beyond_rejected time beat p tc :
    is_finite time = true -> in_lim64 time = false ->
    forall g, parse_tp_line g (rline (tp_line time beat p tc)) = None.
  Proof.
    intros Hf Hl g. rewrite render_tp_line. unfold parse_tp_line.
    destruct (safe_value _ (tp_text_safe fmt_f64 fmt_f32 fmt_int Hfmt time beat p tc)) as [A B].
    rewrite (trim_comment_clean _ B (tidy_last _ A)). unfold tp_text.
    rewrite (split_on_field comma (fmt_f64 time)) by (apply (f64_no _ _ _ Hfmt); reflexivity).
    unfold parse_fields. cbn [next].
    destruct (split_on comma _) as [|x r]; cbn [next obnd]; [reflexivity|].
    rewrite (pn_f64_fmt_beyond fmt_f64 fmt_f32 fmt_int Hfmt time Hf Hl). reflexivity.
  Qed.
End Beyond.

Definition d32_text : str :=
  join_lines ["osu file format v14"; "[Difficulty]"; "SliderMultiplier:0.4"; "[TimingPoints]";
              "0,60000,4,1,0,100,1,0"; "0,NaN,4,1,0,100,0,0"; "[HitObjects]";
              "0,0,0,2,0,L|100000:0,16,100000,0|0,0:0:0:100:|0:0:0:100:|0:0:0:100:|0:0:0:100:|0:0:0:100:|0:0:0:100:|0:0:0:100:|0:0:0:100:|0:0:0:100:|0:0:0:100:|0:0:0:100:|0:0:0:100:|0:0:0:100:|0:0:0:100:|0:0:0:100:|0:0:0:100:|0:0:0:70:"]%string.

Definition time_beyond (r : wrec) : bool := is_finite (wrec_time r) && negb (in_lim64 (wrec_time r)).

Lemma d32_witness :
  match decode_beatmap (dist_real lm0) (lines_of_text d32_text) with
  | Done m =>
      match enc_control_points (dist_real lm0) events_real m with
      | Done c => map time_beyond (enc_records c) = [false; true] /\ sample_times_ok c = false /\
                  map (fun h => kind_tag (h_kind h)) (hov_hit_objects (bmv_ho m)) = [1]
      | _ => False
      end
  | _ => False
  end.
Proof. vm_compute. repeat split; reflexivity. Qed.

(* "every [TimingPoints] line of the encoding of a decoded map is accepted", REFUTED: a decoded map
   (one slider) for which the encoder writes a record whose line is rejected in every General
   state, for every formatting function *)
Theorem slider_end_beyond_limit_refuted :
  exists text m c r,
    decode_beatmap (dist_real lm0) (lines_of_text text) = Done m /\
    enc_control_points (dist_real lm0) events_real m = Done c /\
    In r (enc_records c) /\ sample_times_ok c = false /\
    forall fmt_f64 fmt_f32 fmt_int, fmt_ok fmt_f64 fmt_f32 fmt_int ->
    forall g, parse_tp_line g (render fmt_f64 fmt_f32 fmt_int (wrec_line r)) = None.
Proof.
  exists d32_text. pose proof d32_witness as W.
  destruct (decode_beatmap (dist_real lm0) (lines_of_text d32_text)) as [m| |]; try contradiction.
  destruct (enc_control_points (dist_real lm0) events_real m) as [c| |] eqn:Ec; try contradiction.
  destruct W as (W1 & W2 & _).
  assert (Hex : existsb time_beyond (enc_records c) = true).
  { destruct (enc_records c) as [|a [|b [|x y]]]; try discriminate W1. cbn [map] in W1. injection W1 as _ Hb.
    cbn [existsb]. rewrite Hb. apply orb_true_r. }
  apply existsb_exists in Hex. destruct Hex as (r & Hr & Hb).
  exists m, c, r. split; [reflexivity|]. split; [exact Ec|]. split; [exact Hr|]. split; [exact W2|].
  intros f64 f32 fi Hfmt g. unfold time_beyond in Hb. apply andb_true_iff in Hb. destruct Hb as [Hf Hl].
  apply negb_true_iff in Hl.
  destruct r as [t p|time p]; cbn [wrec_line wrec_time] in *;
    exact (tp_line_time_beyond_rejected f64 f32 fi Hfmt _ _ _ _ Hf Hl g).
Qed.

Print Assumptions slider_end_beyond_limit_refuted.

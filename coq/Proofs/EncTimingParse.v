(* EncTimingParse: T02d (c), per line -- the decoder's field parser reads a written
   [TimingPoints] line back as EXACTLY the record [parsed_line] (every field, not only
   the ones of Proofs/EncTiming.tp_line_accepted): time, beat length, speed multiplier,
   signature, bank, custom index, volume, the uninherited flag and the two effect flags.
   Needs, beyond [fmt_ok], that a positive integer is not printed with a leading '0'
   (true of Rust's Display; the signature field skips its parse on a leading '0'). *)
From RM Require Import Model.EncTimingSpec Proofs.EncText Proofs.EncFmt Proofs.EncSimple Proofs.EncObjects
  Proofs.FramingFacts Proofs.NumFacts Proofs.EncTiming.
From RM Require Import Gen.Generated.
From Flocq Require Import BinarySingleNaN.
From Coq Require Import ZifyBool.
Open Scope Z_scope.

(* the record a written line is read back as *)
Definition parsed_line (g : tp_general) (time beat : F64) (p : Props) (tc : bool) : Model.TimingPoints.tp_line :=
  let bank0 := odflt (tpg_bank g) (bank_of_int (pr_bank p)) in
  mkLine time beat (speed_multiplier beat) (pr_sig p)
         (if bank0 =? bank_none then bank_normal else bank0) (pr_custom p) (pr_vol p) tc
         (has_flag (pr_flags p) effect_kiai) (has_flag (pr_flags p) effect_omit_first_bar_line).

Definition wrec_parsed (g : tp_general) (r : wrec) : Model.TimingPoints.tp_line :=
  match r with
  | WT t p => parsed_line g (tp_time t) (tp_beat_len t) p true
  | WI time p => parsed_line g time (D.div f64_m100 (pr_sv p)) p false
  end.

(* no leading '0' on positive integers *)
Definition no_leading_zero (fmt_int : Z -> str) : Prop :=
  forall n, 0 < n -> first_is tp_sig_skip_char (fmt_int n) = false.

Section Parse.
  Variables (fmt_f64 : F64 -> str) (fmt_f32 : F32 -> str) (fmt_int : Z -> str).
  Hypothesis Hfmt : fmt_ok fmt_f64 fmt_f32 fmt_int.
  Hypothesis Hlead : no_leading_zero fmt_int.
  Notation rline := (render fmt_f64 fmt_f32 fmt_int).

  Lemma tp_line_ok_parts time beat p tc : tp_line_ok time beat p tc = true ->
    in_lim64 time = true /\ in_lim64 beat = true /\ (0 <? pr_sig p) = true /\ i32_ok (pr_sig p) = true /\
    i32_ok (pr_bank p) = true /\ i32_ok (pr_custom p) = true /\ i32_ok (pr_vol p) = true /\
    raw_i32_ok (pr_flags p) = true.
  Proof.
    unfold tp_line_ok. intros H.
    repeat match type of H with _ && _ = true => let X := fresh "X" in
             apply andb_true_iff in H; destruct H as [H X] end.
    repeat split; assumption.
  Qed.

  Theorem tp_line_parsed time beat p tc g : tp_line_ok time beat p tc = true ->
    parse_tp_line g (rline (tp_line time beat p tc)) = Some (parsed_line g time beat p tc).
  Proof.
    intros H. destruct (tp_line_ok_parts _ _ _ _ H) as (Ht & Hb & Hs0 & Hs & Hbk & Hcu & Hvo & Hfl).
    rewrite render_tp_line. unfold parse_tp_line.
    destruct (safe_value _ (tp_text_safe _ _ _ Hfmt time beat p tc)) as [A B].
    rewrite (trim_comment_clean _ B (tidy_last _ A)). unfold tp_text.
    rewrite (split_on_field comma (fmt_f64 time)) by (apply (f64_no _ _ _ Hfmt); reflexivity).
    rewrite (split_on_field comma (fmt_f64 beat)) by (apply (f64_no _ _ _ Hfmt); reflexivity).
    rewrite (split_on_field comma (fmt_int (pr_sig p))) by (apply (int_no _ _ _ Hfmt); reflexivity).
    rewrite (split_on_field comma (fmt_int (pr_bank p))) by (apply (int_no _ _ _ Hfmt); reflexivity).
    rewrite (split_on_field comma (fmt_int (pr_custom p))) by (apply (int_no _ _ _ Hfmt); reflexivity).
    rewrite (split_on_field comma (fmt_int (pr_vol p))) by (apply (int_no _ _ _ Hfmt); reflexivity).
    rewrite (split_on_field comma (if tc then [49] else [48])) by (destruct tc; reflexivity).
    rewrite (split_no_comma (fmt_int (pr_flags p))) by (apply (int_no _ _ _ Hfmt); reflexivity).
    unfold parse_fields. cbn [next obnd].
    rewrite (pn_f64_fmt _ _ _ Hfmt time Ht), (f_beat_fmt _ _ _ Hfmt beat Hb). cbn [obnd].
    assert (Hsig : f_sig (Some (fmt_int (pr_sig p))) = Some (pr_sig p)).
    { unfold f_sig. pose proof (Hlead (pr_sig p) ltac:(lia)) as Hl.
      destruct (fmt_int (pr_sig p)) as [|ch rest] eqn:E.
      - exfalso. exact (int_nonempty' _ _ _ Hfmt _ E).
      - cbn [first_is] in Hl. rewrite Hl. rewrite <- E.
        rewrite (pn_i32_fmt _ _ _ Hfmt _ Hs). cbn [obnd]. unfold time_signature_new. rewrite Hs0. reflexivity. }
    rewrite Hsig. cbn [obnd].
    unfold f_bank, f_custom, f_vol, f_flags.
    rewrite (pn_i32_fmt _ _ _ Hfmt _ Hbk), (pn_i32_fmt _ _ _ Hfmt _ Hcu), (pn_i32_fmt _ _ _ Hfmt _ Hvo). cbn [obnd].
    rewrite (int_parse _ _ _ Hfmt (pr_flags p)) by (unfold raw_i32_ok in Hfl; lia). cbn [obnd].
    assert (Hn : D.is_nan beat = false).
    { unfold in_lim64 in Hb. apply andb_prop_l in Hb. apply andb_prop_l in Hb. apply negb_true_iff in Hb. exact Hb. }
    rewrite Hn, andb_false_r. unfold parsed_line. destruct tc; reflexivity.
  Qed.

  Corollary wrec_line_parsed g r : wrec_ok r = true ->
    parse_tp_line g (rline (wrec_line r)) = Some (wrec_parsed g r).
  Proof. destruct r as [t p|time p]; cbn [wrec_ok wrec_line wrec_parsed]; apply tp_line_parsed. Qed.

  (* all lines of the section are accepted, in order, as their records *)
  Lemma accepted_records g rs : forallb wrec_ok rs = true ->
    Model.TimingPoints.accepted g (map (fun r => rline (wrec_line r)) rs) = map (wrec_parsed g) rs /\
    spec_results g (map (fun r => rline (wrec_line r)) rs) = map (fun _ => Ok) rs.
  Proof.
    induction rs as [|r rs IH]; intros H; [split; reflexivity|].
    cbn [forallb] in H. apply andb_true_iff in H. destruct H as (Hr & Hrs).
    destruct (IH Hrs) as (IH1 & IH2). unfold Model.TimingPoints.accepted, spec_results in *. cbn [map flat_map].
    rewrite (wrec_line_parsed g r Hr). cbn [app]. rewrite IH1, IH2. split; reflexivity.
  Qed.
End Parse.

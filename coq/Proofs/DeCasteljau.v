(* DeCasteljau: T17b -- bezier_subdivide over the reals.  The subdivision of
   the model (avg_step / subdiv: repeated averaging of neighbours, heads to
   the left polygon, lasts to the right one) is an instance of one generic
   definition; over R the two polygons it returns evaluate (de Casteljau) to
   the same curve on [0, 1/2] and [1/2, 1]:
     eval L t = eval m (t / 2),   eval R t = eval m ((1 + t) / 2). *)
From RM Require Import Model.ControlPoints Model.Curve.
From Coq Require Import Reals Lra.
Open Scope R_scope.

(* ---------- the generic subdivision and its two instances ---------- *)

Section Generic.
  Context {T : Type} (avg : T -> T -> T) (dflt : T).
  Fixpoint avg_step_g (m : list T) : list T :=
    match m with
    | a :: ((b :: _) as t) => avg a b :: avg_step_g t
    | _ => []
    end.
  Fixpoint subdiv_g (n : nat) (m : list T) : list T * list T :=
    match n with
    | O => ([], [])
    | S k => let '(l, r) := subdiv_g k (avg_step_g m) in (hd dflt m :: l, r ++ [last m dflt])
    end.
End Generic.

(* the two fixpoints have the same body: convertible *)
Lemma model_avg_step m : avg_step m = avg_step_g avg2 m.
Proof. reflexivity. Qed.

Lemma model_subdiv n m : subdiv n m = subdiv_g avg2 pos0 n m.
Proof. reflexivity. Qed.

(* ---------- over the reals ---------- *)

Definition avgR (a b : R) : R := (a + b) / 2.

(* one de Casteljau step with parameter t *)
Fixpoint lstep (t : R) (m : list R) : list R :=
  match m with
  | a :: ((b :: _) as r) => ((1 - t) * a + t * b) :: lstep t r
  | _ => []
  end.

(* evaluation of the Bezier curve with n + 1 control points *)
Fixpoint dc (n : nat) (t : R) (m : list R) : R :=
  match n with
  | O => hd 0 m
  | S k => dc k t (lstep t m)
  end.

Lemma list_ind2 {X} (Q : list X -> Prop) :
  Q [] -> (forall a, Q [a]) -> (forall a b r, Q (b :: r) -> Q (a :: b :: r)) -> forall l, Q l.
Proof.
  intros H0 H1 H2 l. enough (H : Q l /\ forall a, Q (a :: l)) by exact (proj1 H).
  induction l as [|b r [IHa IHb]]; [split; [exact H0|exact H1]|].
  split; [apply IHb|]. intros a. apply H2. apply IHb.
Qed.

Lemma lstep_cons2 t a b r : lstep t (a :: b :: r) = ((1 - t) * a + t * b) :: lstep t (b :: r).
Proof. reflexivity. Qed.

Lemma avg_is_half m : avg_step_g avgR m = lstep (1 / 2) m.
Proof.
  induction m as [|a|a b t IH] using list_ind2; try reflexivity.
  change (avg_step_g avgR (a :: b :: t)) with (avgR a b :: avg_step_g avgR (b :: t)).
  rewrite lstep_cons2, IH. f_equal. unfold avgR. field.
Qed.

Lemma lstep_length t m : length (lstep t m) = pred (length m).
Proof.
  induction m as [|a|a b r IH] using list_ind2; try reflexivity.
  rewrite lstep_cons2. cbn [length pred] in *. rewrite IH. reflexivity.
Qed.

(* steps with different parameters commute (symmetry of the blossom) *)
Lemma lstep_comm s t m : lstep s (lstep t m) = lstep t (lstep s m).
Proof.
  induction m as [|a|a b r IH] using list_ind2; try reflexivity.
  destruct r as [|c r]; [reflexivity|].
  rewrite !(lstep_cons2 _ a b), !(lstep_cons2 _ b c) in *.
  rewrite (lstep_cons2 s), (lstep_cons2 t ((1 - s) * a + s * b)). rewrite IH. f_equal. ring.
Qed.

(* left and right polygons *)
Definition A := lstep (1 / 2).

Fixpoint left (n : nat) (m : list R) : list R :=
  match n with O => [] | S k => hd 0 m :: left k (A m) end.
Fixpoint right (n : nat) (m : list R) : list R :=
  match n with O => [] | S k => right k (A m) ++ [last m 0] end.

Lemma subdiv_left_right n : forall m, subdiv_g avgR 0 n m = (left n m, right n m).
Proof.
  induction n as [|n IH]; intros m; [reflexivity|].
  cbn [subdiv_g left right]. rewrite avg_is_half. fold A. rewrite IH. reflexivity.
Qed.

(* --- left: a step with t on the left polygon is the left polygon of a step with t/2 --- *)

Lemma left_lstep n : forall m t, length m = S n -> lstep t (left (S n) m) = left n (lstep (t / 2) m).
Proof.
  induction n as [|n IH]; intros m t Hm.
  - reflexivity.
  - destruct m as [|a [|b r]]; try discriminate.
    change (left (S (S n)) (a :: b :: r)) with (a :: left (S n) (A (a :: b :: r))).
    assert (HA : length (A (a :: b :: r)) = S n).
    { unfold A. rewrite lstep_length. cbn [length pred] in *. lia. }
    destruct (A (a :: b :: r)) as [|x xs] eqn:EA; [discriminate|].
    change (left (S n) (x :: xs)) with (x :: left n (A (x :: xs))).
    rewrite lstep_cons2.
    change (x :: left n (A (x :: xs))) with (left (S n) (x :: xs)).
    rewrite (IH (x :: xs) t HA). rewrite <- EA.
    unfold A. rewrite (lstep_comm (t / 2) (1 / 2)). fold A.
    change (left (S n) (lstep (t / 2) (a :: b :: r)))
      with (hd 0 (lstep (t / 2) (a :: b :: r)) :: left n (A (lstep (t / 2) (a :: b :: r)))).
    f_equal.
    rewrite lstep_cons2. cbn [hd].
    assert (Hx : x = (1 - 1 / 2) * a + 1 / 2 * b).
    { unfold A in EA. rewrite lstep_cons2 in EA. inversion EA. reflexivity. }
    rewrite Hx. field.
Qed.

Theorem left_polygon n : forall m t, length m = S n -> dc n t (left (S n) m) = dc n (t / 2) m.
Proof.
  induction n as [|n IH]; intros m t Hm.
  - destruct m as [|a [|b r]]; try discriminate. reflexivity.
  - cbn [dc]. rewrite (left_lstep (S n) m t Hm).
    apply IH. rewrite lstep_length, Hm. reflexivity.
Qed.

(* --- right: symmetric, with the last elements --- *)

Lemma lstep_snoc t : forall m x y, lstep t ((m ++ [x]) ++ [y]) = lstep t (m ++ [x]) ++ [(1 - t) * x + t * y].
Proof.
  intros m x y. induction m as [|a|a b r IH] using list_ind2; try reflexivity.
  change (((a :: b :: r) ++ [x]) ++ [y]) with (a :: ((b :: r) ++ [x]) ++ [y]).
  change ((a :: b :: r) ++ [x]) with (a :: (b :: r) ++ [x]).
  change (((b :: r) ++ [x]) ++ [y]) with (b :: (r ++ [x]) ++ [y]).
  change ((b :: r) ++ [x]) with (b :: r ++ [x]).
  rewrite !lstep_cons2.
  change (b :: (r ++ [x]) ++ [y]) with (((b :: r) ++ [x]) ++ [y]).
  change (b :: r ++ [x]) with ((b :: r) ++ [x]).
  rewrite IH. reflexivity.
Qed.

Lemma last_lstep t : forall m x y, last (lstep t ((m ++ [x]) ++ [y])) 0 = (1 - t) * x + t * y.
Proof. intros. rewrite lstep_snoc. apply last_last. Qed.

Lemma split_last2 (m : list R) n : length m = S (S n) -> exists m' x y, m = (m' ++ [x]) ++ [y].
Proof.
  intros H. destruct (@exists_last R m) as (m1 & y & ->); [destruct m; discriminate|].
  rewrite app_length in H. cbn in H.
  destruct (@exists_last R m1) as (m' & x & ->); [destruct m1; [cbn in H; lia|discriminate]|].
  exists m', x, y. reflexivity.
Qed.

Lemma right_length n : forall m, length (right n m) = n.
Proof. induction n as [|n IH]; intros m; [reflexivity|]. cbn [right]. rewrite app_length, IH. cbn. lia. Qed.

Lemma right_lstep n : forall m t, length m = S n ->
  lstep t (right (S n) m) = right n (lstep ((1 + t) / 2) m).
Proof.
  induction n as [|n IH]; intros m t Hm.
  - cbn [right app]. reflexivity.
  - destruct (split_last2 m n Hm) as (m' & x & y & ->).
    change (right (S (S n)) ((m' ++ [x]) ++ [y]))
      with (right (S n) (A ((m' ++ [x]) ++ [y])) ++ [last ((m' ++ [x]) ++ [y]) 0]).
    rewrite last_last.
    assert (HA : length (A ((m' ++ [x]) ++ [y])) = S n).
    { unfold A. rewrite lstep_length, Hm. reflexivity. }
    (* right (S n) (A m) is a non-empty list ending with last (A m) *)
    change (right (S n) (A ((m' ++ [x]) ++ [y])))
      with (right n (A (A ((m' ++ [x]) ++ [y]))) ++ [last (A ((m' ++ [x]) ++ [y])) 0]).
    rewrite lstep_snoc.
    change (right n (A (A ((m' ++ [x]) ++ [y]))) ++ [last (A ((m' ++ [x]) ++ [y])) 0])
      with (right (S n) (A ((m' ++ [x]) ++ [y]))).
    rewrite (IH _ t HA).
    unfold A at 1. rewrite <- lstep_comm. fold A.
    change (right (S n) (lstep ((1 + t) / 2) ((m' ++ [x]) ++ [y])))
      with (right n (A (lstep ((1 + t) / 2) ((m' ++ [x]) ++ [y])))
            ++ [last (lstep ((1 + t) / 2) ((m' ++ [x]) ++ [y])) 0]).
    f_equal. f_equal.
    unfold A. rewrite !last_lstep. field.
Qed.

Theorem right_polygon n : forall m t, length m = S n -> dc n t (right (S n) m) = dc n ((1 + t) / 2) m.
Proof.
  induction n as [|n IH]; intros m t Hm.
  - destruct m as [|a [|b r]]; try discriminate. reflexivity.
  - cbn [dc]. rewrite (right_lstep (S n) m t Hm).
    apply IH. rewrite lstep_length, Hm. reflexivity.
Qed.

(* T17b *)
Theorem de_casteljau_subdivision n m :
  length m = S n ->
  let '(L, Rr) := subdiv_g avgR 0 (S n) m in
  forall t, dc n t L = dc n (t / 2) m /\ dc n t Rr = dc n ((1 + t) / 2) m.
Proof.
  intros Hm. rewrite subdiv_left_right. intros t.
  split; [apply left_polygon|apply right_polygon]; exact Hm.
Qed.

(* the two polygons join: last of the left = first of the right = the curve at 1/2 *)
Lemma dc_zero n : forall m, length m = S n -> dc n 0 m = hd 0 m.
Proof.
  induction n as [|n IH]; intros m Hm; [reflexivity|].
  cbn [dc]. rewrite IH by (rewrite lstep_length, Hm; reflexivity).
  destruct m as [|a [|b r]]; try discriminate. rewrite lstep_cons2. cbn [hd]. ring.
Qed.

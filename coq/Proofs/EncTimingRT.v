(* EncTimingRT: T02d (c) -- decoding the [TimingPoints] section that encode_timing_points
   wrote gives back the timing points and the three timelines.

   [timing_points_round_trip]: for control points [c] (those the encoder works on, i.e.
   after collect_samples) that are sorted (C13), whose values are inside their clamps
   (C12) and that satisfy the decidable side conditions [rt_side] (separated times: D8
   and relatives; separated values; the float fact sv_round_trips; D12; every written
   line within the parse limits), for every number formatting satisfying [fmt_ok] and
   [no_leading_zero], and for every decoder state [g] with the map's mode:
       tp_decode g (rendered lines) = Done (c', all Ok),
       cp_timing c' = cp_timing c,
       forall t, sv_at c' t = sv_at c t, kiai_at c' t = kiai_at c t, scroll_at c' t = scroll_at c t.
   [enc_timing_round_trip]: the same from a map [m], with the conclusions about the map's
   own control points (collect_samples_frame). *)
From RM Require Import Model.EncTimingSpec Proofs.BSearch Proofs.ControlPointsFacts Proofs.ControlPointsChrono
  Proofs.TPFloatFacts Proofs.TimingPointsFacts Proofs.TimingPointsValues
  Proofs.EncFmt Proofs.EncSimple Proofs.EncTiming Proofs.EncTimingParse Proofs.EncCollect Proofs.EncGroups
  Proofs.EncChrono Proofs.EncTimingDecode Proofs.EncTimingInv Proofs.EncRound.
From RM Require Import Gen.Generated.
From Flocq Require Import BinarySingleNaN.
From Coq Require Import Sorting.Sorted.
From Coq Require Import ZifyBool.
Open Scope Z_scope.

(* ---------- the side conditions ---------- *)

(* the value facts of C12 (T12b) that the proof uses *)
Definition cp_values_good (mode : Z) (c : ControlPoints) : Prop :=
  Forall good_tp (cp_timing c) /\ Forall good_dp (cp_difficulty c) /\ Forall (good_ep mode) (cp_effect c).

(* the decidable exclusions *)
Definition rt_side (mode : Z) (c : ControlPoints) : bool :=
  times_separated c && values_separated c && svs_round_trip c && scroll_follows_sv mode c &&
  forallb wrec_ok (enc_records c).

(* both hold of what the timing-point decoder returns (C12 / C13) *)
Lemma decoded_cp_good g lines c rs :
  tp_decode g lines = Done (c, rs) -> cp_sorted c /\ cp_values_good (tpg_mode g) c.
Proof.
  intros H. destruct (tp_decode_good g lines) as (c' & E & _ & Hs & (G1 & G2 & G3 & _)).
  rewrite E in H. inversion H; subst. split; [exact Hs|]. repeat split; assumption.
Qed.

(* ---------- separated times ---------- *)

Lemma pairwise_apart l x y :
  pairwise apart l = true -> In x l -> In y l -> D.key x <> D.key y -> time_changed y x = true.
Proof.
  induction l as [|a r IH]; intros H Hx Hy Hk; [destruct Hx|].
  cbn [pairwise] in H. apply andb_true_iff in H. destruct H as (Ha & Hr). rewrite forallb_forall in Ha.
  destruct Hx as [<-|Hx], Hy as [<-|Hy].
  - congruence.
  - specialize (Ha y Hy). unfold apart in Ha. apply orb_true_iff in Ha. destruct Ha as [Ha|Ha]; [lia|].
    apply andb_true_iff in Ha. exact (proj2 Ha).
  - specialize (Ha x Hx). unfold apart in Ha. apply orb_true_iff in Ha. destruct Ha as [Ha|Ha]; [lia|].
    apply andb_true_iff in Ha. exact (proj1 Ha).
  - exact (IH Hr Hx Hy Hk).
Qed.

(* ---------- generic: values of emitted points, extensionality ---------- *)

Section Generic.
  Context {A P V : Type} (timeA : A -> F64) (time : P -> F64) (val : P -> V) (emit : A -> option P) (full : A -> V).

  Lemma consistent_vals sl : forall cur, consistent val emit full sl cur ->
    forall p, In p (emitted emit sl) -> exists a, In a sl /\ val p = full a.
  Proof.
    induction sl as [|a r IH]; intros cur Hc p Hp; [destruct Hp|].
    unfold emitted in Hp. cbn [flat_map consistent] in *. fold (emitted emit r) in Hp.
    destruct (emit a) as [q|] eqn:E.
    - destruct Hc as (Hv & Hc). destruct Hp as [<-|Hp]; [exists a; split; [left; reflexivity | exact Hv]|].
      destruct (IH _ Hc p Hp) as (b & Hb & Hvb). exists b. split; [right; exact Hb | exact Hvb].
    - destruct Hc as (_ & Hc). destruct (IH _ Hc p Hp) as (b & Hb & Hvb). exists b. split; [right; exact Hb | exact Hvb].
  Qed.

  Lemma tlr_full_ext (f f' : A -> V) sl : forall d kt, (forall a, In a sl -> f a = f' a) ->
    tlr timeA f sl d kt = tlr timeA f' sl d kt.
  Proof.
    induction sl as [|a r IH]; intros d kt H; [reflexivity|]. cbn [tlr]. rewrite (H a (or_introl eq_refl)).
    destruct (K timeA a <=? kt); [|reflexivity]. apply IH. intros b Hb. apply H. right. exact Hb.
  Qed.

  (* the whole chain for one timeline *)
  Context (red : P -> P -> bool) (dr : P -> bool) (d0 : V) (ok : A -> Prop) (l : list P) (sl : list A).
  Hypothesis emit_time : forall a p, ok a -> emit a = Some p -> K time p = K timeA a.
  Hypothesis Hsl : sorted timeA sl.
  Hypothesis Hok : Forall ok sl.
  Hypothesis Hcons : consistent val emit full sl d0.
  Hypothesis Hred : forall p e, In p (emitted emit sl) -> In e (emitted emit sl) -> red p e = true -> val p = val e.
  Hypothesis Hdr : forall p, In p (emitted emit sl) -> dr p = true -> val p = d0.
  Hypothesis Hl : sorted time l.
  Hypothesis Hcover : forall p, In p l -> exists a, In a sl /\ K timeA a = K time p.
  Hypothesis Hfull : forall a, In a sl -> full a = tlr time val l d0 (K timeA a).

  Lemma timeline_chain t :
    tlr time val (compress red None dr (emitted emit sl)) d0 (D.key t) = tlr time val l d0 (D.key t).
  Proof.
    change d0 with (vprev val d0 None) at 1 2.
    rewrite (tlr_compress time val red dr d0 (emitted emit sl) None).
    - cbn [vprev]. rewrite (tlr_emit timeA time val emit full ok emit_time sl d0 Hsl Hok Hcons).
      rewrite (tlr_full_ext full (fun a => tlr time val l d0 (K timeA a)) sl d0 (D.key t) Hfull).
      exact (tlr_sample timeA time val sl l d0 t Hsl Hl Hcover).
    - exact (emitted_chrono timeA time emit ok emit_time sl Hsl Hok).
    - intros p e Hp [He|He] Hr; [discriminate He | exact (Hred p e Hp He Hr)].
    - exact Hdr.
  Qed.
End Generic.

(* lookups as step functions *)
Lemma dp_sv_or_tlr l t : sorted dp_time l ->
  dp_sv_or (last_not_after dp_time l t) = tlr dp_time dp_sv l D.one (D.key t).
Proof. intros Hs. rewrite (tlr_sorted dp_time dp_sv l D.one t Hs). destruct (last_not_after dp_time l t); reflexivity. Qed.
Lemma ep_kiai_or_tlr l t : sorted ep_time l ->
  ep_kiai_or (last_not_after ep_time l t) = tlr ep_time ep_kiai l false (D.key t).
Proof. intros Hs. rewrite (tlr_sorted ep_time ep_kiai l false t Hs). destruct (last_not_after ep_time l t); reflexivity. Qed.
Lemma ep_scroll_or_tlr l t : sorted ep_time l ->
  ep_scroll_or (last_not_after ep_time l t) = tlr ep_time ep_scroll l D.one (D.key t).
Proof. intros Hs. rewrite (tlr_sorted ep_time ep_scroll l D.one t Hs). destruct (last_not_after ep_time l t); reflexivity. Qed.

Section RT.
  Variables (fmt_f64 : F64 -> str) (fmt_f32 : F32 -> str) (fmt_int : Z -> str).
  Hypothesis Hfmt : fmt_ok fmt_f64 fmt_f32 fmt_int.
  Hypothesis Hlead : no_leading_zero fmt_int.
  Notation rline := (render fmt_f64 fmt_f32 fmt_int).

  Section OnCP.
    Variables (c : ControlPoints) (g : tp_general).
    Notation mode := (tpg_mode g).
    Hypothesis Hc : cp_sorted c.
    Hypothesis Hgood : cp_values_good mode c.
    Hypothesis Hside : rt_side mode c = true.

    Let ds := enc_decisions c.

    Lemma side_parts :
      times_separated c = true /\ values_separated c = true /\ svs_round_trip c = true /\
      scroll_follows_sv mode c = true /\ forallb wrec_ok (enc_records c) = true.
    Proof.
      pose proof Hside as H. unfold rt_side in H.
      repeat match type of H with _ && _ = true => let X := fresh "X" in
               apply andb_true_iff in H; destruct H as [H X] end.
      repeat split; assumption.
    Qed.

    Lemma ds_groups : map gd_group ds = groups_of c.
    Proof. apply decisions_groups. Qed.

    Lemma ds_In_group d : In d ds -> In (gd_group d) (groups_of c).
    Proof. intros H. rewrite <- ds_groups. apply in_map. exact H. Qed.

    Lemma ds_sorted : sorted d_time ds.
    Proof.
      destruct (groups_of_spec c Hc) as ([Hs _ _] & _). unfold sorted in *. rewrite <- ds_groups, map_map in Hs. exact Hs.
    Qed.

    Lemma ds_own : Forall (own_time) ds.
    Proof.
      destruct (groups_of_spec c Hc) as ([_ _ Ho] & _). apply Forall_forall. intros d Hd t Ht.
      symmetry. exact (Ho _ t (ds_In_group d Hd) Ht).
    Qed.

    Lemma ds_props : Forall (props_of c) ds.
    Proof. apply decisions_props. Qed.

    Lemma ds_time_In d : In d ds -> In (d_time d) (cp_times c).
    Proof. intros Hd. destruct (groups_of_spec c Hc) as (_ & _ & H). exact (H _ (ds_In_group d Hd)). Qed.

    Lemma ds_timing_In d t : In d ds -> gr_timing (gd_group d) = Some t -> In t (cp_timing c).
    Proof.
      intros Hd Ht. destruct (groups_of_spec c Hc) as ([_ Htm _] & _). rewrite <- Htm. apply in_flat_map.
      exists (gd_group d). split; [exact (ds_In_group d Hd)|]. unfold group_timing. rewrite Ht. left. reflexivity.
    Qed.

    Lemma groups_ok : Forall (group_ok c) (groups_of c).
    Proof.
      destruct (groups_of_spec c Hc) as ([_ Htm _] & _ & Hfrom). apply Forall_forall. intros g0 Hg0. split; [exact (Hfrom g0 Hg0)|].
      intros t Ht. rewrite <- Htm. apply in_flat_map. exists g0. split; [exact Hg0|]. unfold group_timing. rewrite Ht. left. reflexivity.
    Qed.

    Lemma ds_apart_holds : ds_apart ds.
    Proof.
      destruct side_parts as (Hts & _). intros d d' Hd Hd' Hlt. unfold times_separated in Hts.
      apply (pairwise_apart (cp_times c)); [exact Hts | exact (ds_time_In d Hd) | exact (ds_time_In d' Hd')|].
      unfold K in Hlt. lia.
    Qed.

    Lemma ds_cover {P} (time : P -> F64) (l : list P) :
      (forall p, In p l -> In (time p) (cp_times c)) ->
      forall p, In p l -> exists d, In d ds /\ K d_time d = K time p.
    Proof.
      intros Hsub p Hp. destruct (groups_of_spec c Hc) as (_ & Hcov & _).
      destruct (Hcov (time p) (Hsub p Hp)) as (g0 & Hg0 & Hk). rewrite <- ds_groups in Hg0.
      apply in_map_iff in Hg0. destruct Hg0 as (d & <- & Hd). exists d. split; [exact Hd | exact Hk].
    Qed.

    (* ---------- what the decoder returns ---------- *)

    Definition decoded_cp : ControlPoints :=
      mkCP (emitted (emitT g) ds)
           (compress dp_redundant None (fun p => dp_redundant p dflt_dp) (emitted (emitD g) ds))
           (compress ep_redundant None (fun p => ep_redundant p dflt_ep) (emitted (emitE g) ds))
           (compress sp_redundant None (fun _ => false) (emitted (emitS g) ds)).

    Lemma legacy_spec_records :
      legacy_spec g (map rline (map wrec_line (enc_records c))) = Done decoded_cp /\
      spec_results g (map rline (map wrec_line (enc_records c))) = map (fun _ => Ok) (enc_records c).
    Proof.
      destruct side_parts as (_ & _ & _ & _ & Hok). rewrite map_map.
      destruct (accepted_records _ _ _ Hfmt Hlead g (enc_records c) Hok) as (Ha & Hr). split; [|exact Hr].
      unfold legacy_spec, spec_ops. rewrite Ha. unfold enc_records. fold ds.
      rewrite (spec_ops_decisions g ds ds_sorted ds_own ds_apart_holds).
      exact (cp_run_decisions g ds ds_sorted ds_own ds_apart_holds).
    Qed.

    Lemma decoded_sorted : cp_sorted decoded_cp.
    Proof.
      destruct legacy_spec_records as (E & _). unfold legacy_spec in E.
      destruct (cp_run_sorted (spec_ops g (map rline (map wrec_line (enc_records c)))) cp_empty cp_empty_sorted) as (c' & E' & Hs).
      rewrite E in E'. inversion E'; subst c'. exact Hs.
    Qed.

    (* ---------- the timing points ---------- *)

    Lemma emitted_timing : emitted (emitT g) ds = cp_timing c.
    Proof.
      destruct Hgood as (Gtp & _). destruct (groups_of_spec c Hc) as ([_ Htm _] & _). rewrite <- Htm, <- ds_groups.
      assert (H : forall d, In d ds -> match emitT g d with Some p => [p] | None => [] end = group_timing (gd_group d)).
      { intros d Hd. unfold group_timing. destruct (gr_timing (gd_group d)) as [t|] eqn:Eg.
        - pose proof ds_props as Hp. pose proof ds_own as Ho. rewrite Forall_forall in Hp, Ho.
          rewrite (emitT_own c g Hc Gtp d t (Hp d Hd) Eg (ds_timing_In d t Hd Eg) (Ho d Hd t Eg)). reflexivity.
        - unfold emitT. rewrite Eg. reflexivity. }
      unfold emitted. clear -H. induction ds as [|d r IH]; [reflexivity|]. cbn [flat_map map].
      rewrite (H d (or_introl eq_refl)), IH; [reflexivity|]. intros x Hx. apply H. right. exact Hx.
    Qed.

    (* ---------- the three timelines ---------- *)

    Lemma consistency :
      consistent dp_sv (emitD g) (full_sv) ds D.one /\
      consistent ep_kiai (emitE g) (full_kiai) ds false /\
      consistent ep_scroll (emitE g) (full_scroll g) ds D.one.
    Proof.
      destruct Hgood as (Gtp & Gdp & Gep). destruct side_parts as (_ & Hvs & Hrt & Hd12 & _).
      pose proof (decisions_consistent c g Hc Gtp Gdp Gep Hvs Hrt Hd12 (groups_of c) props_default D.one false groups_ok) as H.
      rewrite (cur_scroll_one g) in H. apply H.
      split; [left; reflexivity|]. split; [left; split; reflexivity | reflexivity].
    Qed.

    Lemma emitted_sv_In p : In p (emitted (emitD g) ds) -> In (dp_sv p) (sv_values c).
    Proof.
      intros Hp. destruct consistency as (H1 & _).
      destruct (consistent_vals dp_sv (emitD g) full_sv ds D.one H1 p Hp) as (d & Hd & ->).
      pose proof ds_props as Hpr. rewrite Forall_forall in Hpr. exact (full_sv_In c Hc d (Hpr d Hd)).
    Qed.

    Lemma emitted_scroll_In p : In p (emitted (emitE g) ds) -> In (ep_scroll p) (scroll_values c).
    Proof.
      intros Hp. destruct consistency as (_ & _ & H3). destruct side_parts as (_ & _ & _ & Hd12 & _).
      destruct (consistent_vals ep_scroll (emitE g) (full_scroll g) ds D.one H3 p Hp) as (d & Hd & ->).
      pose proof ds_props as Hpr. rewrite Forall_forall in Hpr.
      exact (full_scroll_In c g Hc Hd12 d (Hpr d Hd) (ds_time_In d Hd)).
    Qed.

    Lemma dp_times_sub p : In p (cp_difficulty c) -> In (dp_time p) (cp_times c).
    Proof. intros H. unfold cp_times. apply in_or_app. right. apply in_or_app. left. apply in_map. exact H. Qed.
    Lemma ep_times_sub p : In p (cp_effect c) -> In (ep_time p) (cp_times c).
    Proof. intros H. unfold cp_times. apply in_or_app. right. apply in_or_app. right. apply in_or_app. left. apply in_map. exact H. Qed.

    Lemma decoded_sv t : sv_at decoded_cp t = sv_at c t.
    Proof.
      destruct Hgood as (Gtp & Gdp & Gep). destruct side_parts as (_ & Hvs & Hrt & Hd12 & _).
      pose proof Hc as (_ & Sd & _). pose proof decoded_sorted as (_ & Sd' & _).
      rewrite (sv_at_sorted _ t decoded_sorted), (sv_at_sorted _ t Hc). f_equal.
      rewrite (dp_sv_or_tlr _ t Sd'), (dp_sv_or_tlr _ t Sd). cbn [decoded_cp cp_difficulty].
      apply (timeline_chain d_time dp_time dp_sv (emitD g) full_sv dp_redundant (fun p => dp_redundant p dflt_dp) D.one
               (own_time) (cp_difficulty c) ds (emitD_time g) ds_sorted ds_own (proj1 consistency)).
      - intros p e Hp He Hr. unfold dp_redundant in Hr. apply andb_true_iff in Hr.
        exact (sv_near_eq c Hvs _ _ (emitted_sv_In p Hp) (emitted_sv_In e He) (proj2 Hr)).
      - intros p Hp Hr. unfold dp_redundant in Hr. apply andb_true_iff in Hr.
        apply (sv_near_eq c Hvs _ _ (emitted_sv_In p Hp)); [left; reflexivity | exact (proj2 Hr)].
      - exact Sd.
      - exact (ds_cover dp_time (cp_difficulty c) dp_times_sub).
      - intros d Hd. pose proof ds_props as Hpr. rewrite Forall_forall in Hpr. destruct (Hpr d Hd) as (last & Hp).
        unfold full_sv. rewrite Hp, props_at_sv, (dp_lookup_sorted c _ Hc). exact (dp_sv_or_tlr _ _ Sd).
    Qed.

    Lemma decoded_kiai t : kiai_at decoded_cp t = kiai_at c t.
    Proof.
      pose proof Hc as (_ & _ & Se & _). pose proof decoded_sorted as (_ & _ & Se' & _).
      rewrite (kiai_at_sorted _ t decoded_sorted), (kiai_at_sorted _ t Hc). f_equal.
      rewrite (ep_kiai_or_tlr _ t Se'), (ep_kiai_or_tlr _ t Se). cbn [decoded_cp cp_effect].
      apply (timeline_chain d_time ep_time ep_kiai (emitE g) full_kiai ep_redundant (fun p => ep_redundant p dflt_ep) false
               (own_time) (cp_effect c) ds (emitE_time g) ds_sorted ds_own (proj1 (proj2 consistency))).
      - intros p e _ _ Hr. unfold ep_redundant in Hr. apply andb_true_iff in Hr. exact (eqb_prop _ _ (proj1 Hr)).
      - intros p _ Hr. unfold ep_redundant in Hr. apply andb_true_iff in Hr. exact (eqb_prop _ _ (proj1 Hr)).
      - exact Se.
      - exact (ds_cover ep_time (cp_effect c) ep_times_sub).
      - intros d Hd. pose proof ds_props as Hpr. rewrite Forall_forall in Hpr. destruct (Hpr d Hd) as (last & Hp).
        unfold full_kiai. rewrite Hp, props_at_flags, flags_kiai, (ep_lookup_sorted c _ Hc). exact (ep_kiai_or_tlr _ _ Se).
    Qed.

    Lemma decoded_scroll t : scroll_at decoded_cp t = scroll_at c t.
    Proof.
      destruct Hgood as (Gtp & Gdp & Gep). destruct side_parts as (_ & Hvs & Hrt & Hd12 & _).
      pose proof Hc as (_ & _ & Se & _). pose proof decoded_sorted as (_ & _ & Se' & _).
      rewrite (scroll_at_sorted _ t decoded_sorted), (scroll_at_sorted _ t Hc). f_equal.
      rewrite (ep_scroll_or_tlr _ t Se'), (ep_scroll_or_tlr _ t Se). cbn [decoded_cp cp_effect].
      apply (timeline_chain d_time ep_time ep_scroll (emitE g) (full_scroll g) ep_redundant (fun p => ep_redundant p dflt_ep) D.one
               (own_time) (cp_effect c) ds (emitE_time g) ds_sorted ds_own (proj2 (proj2 consistency))).
      - intros p e Hp He Hr. unfold ep_redundant in Hr. apply andb_true_iff in Hr.
        exact (scroll_near_eq c Hvs _ _ (emitted_scroll_In p Hp) (emitted_scroll_In e He) (proj2 Hr)).
      - intros p Hp Hr. unfold ep_redundant in Hr. apply andb_true_iff in Hr.
        apply (scroll_near_eq c Hvs _ _ (emitted_scroll_In p Hp)); [left; reflexivity | exact (proj2 Hr)].
      - exact Se.
      - exact (ds_cover ep_time (cp_effect c) ep_times_sub).
      - intros d Hd. pose proof ds_props as Hpr. rewrite Forall_forall in Hpr.
        rewrite (full_scroll_eq c g Hc Hd12 d (Hpr d Hd) (ds_time_In d Hd)), (ep_lookup_sorted c _ Hc).
        exact (ep_scroll_or_tlr _ _ Se).
    Qed.

    (* T02d (c) on the encoder's control points *)
    Theorem timing_points_round_trip :
      exists c', tp_decode g (map rline (map wrec_line (enc_records c))) =
                   Done (c', map (fun _ => Ok) (enc_records c)) /\
                 cp_sorted c' /\
                 cp_timing c' = cp_timing c /\
                 (forall t, sv_at c' t = sv_at c t) /\
                 (forall t, kiai_at c' t = kiai_at c t) /\
                 (forall t, scroll_at c' t = scroll_at c t).
    Proof.
      exists decoded_cp. destruct legacy_spec_records as (E & R). split.
      - rewrite tp_decode_spec, E, R. reflexivity.
      - split; [exact decoded_sorted|]. split; [exact emitted_timing|].
        split; [exact decoded_sv|]. split; [exact decoded_kiai | exact decoded_scroll].
    Qed.
  End OnCP.

  (* ---------- from a map ---------- *)

  Section OnMap.
    Variable dist_of : Z -> list PCP -> option F64 -> outcome F64.
    Variable events_of : F64 -> F64 -> F64 -> F64 -> F64 -> Z -> outcome (list EncEvent).

    Lemma enc_control_points_sorted m c :
      cp_sorted (hov_control_points (bmv_ho m)) -> enc_control_points dist_of events_of m = Done c -> cp_sorted c.
    Proof.
      unfold enc_control_points. intros Hs E.
      destruct (all_object_samples dist_of events_of (g_mode (hov_general (bmv_ho m))) (bmv_version m)
                  (d_slider_tick_rate (hov_difficulty (bmv_ho m))) (d_slider_multiplier (hov_difficulty (bmv_ho m)))
                  (hov_control_points (bmv_ho m)) (hov_hit_objects (bmv_ho m))) as [col| |] eqn:Ec.
      - destruct (collect_samples_sorted dist_of events_of _ _ _ _ _ _ col Hs Ec) as (c' & E' & Hs' & _).
        rewrite E in E'. inversion E'; subst. exact Hs'.
      - rewrite collect_samples_eq, Ec in E. discriminate E.
      - rewrite collect_samples_eq, Ec in E. discriminate E.
    Qed.

    (* T02d: the [TimingPoints] section of the encoding of [m], decoded again, has the timing
       points of [m] and the slider-velocity / kiai / scroll-speed timelines of [m] *)
    Theorem enc_timing_round_trip m c g :
      let c0 := hov_control_points (bmv_ho m) in
      cp_sorted c0 -> cp_values_good (tpg_mode g) c0 ->
      enc_control_points dist_of events_of m = Done c -> rt_side (tpg_mode g) c = true ->
      exists ls c',
        enc_timing_points dist_of events_of m = Done (header_tok SecTimingPoints :: ls) /\
        tp_decode g (map rline ls) = Done (c', map (fun _ => Ok) ls) /\
        cp_timing c' = cp_timing c0 /\
        (forall t, sv_at c' t = sv_at c0 t) /\
        (forall t, kiai_at c' t = kiai_at c0 t) /\
        (forall t, scroll_at c' t = scroll_at c0 t).
    Proof.
      intros c0 Hs0 (G1 & G2 & G3) E Hside.
      pose proof (enc_control_points_sorted m c Hs0 E) as Hs.
      destruct (collect_samples_frame dist_of events_of _ _ _ _ _ _ _ E) as (Ft & Fd & Fe). fold c0 in Ft, Fd, Fe.
      assert (Hg : cp_values_good (tpg_mode g) c) by (unfold cp_values_good; rewrite Ft, Fd, Fe; repeat split; assumption).
      destruct (timing_points_round_trip c g Hs Hg Hside) as (c' & Hd & _ & Ht & Hsv & Hk & Hsc).
      exists (map wrec_line (enc_records c)), c'.
      split; [exact (enc_timing_points_records dist_of events_of m c E Hs)|].
      split; [rewrite map_map with (f := wrec_line) (g := fun _ => Ok); exact Hd|].
      split; [rewrite Ht; exact Ft|].
      split; [intros t; rewrite Hsv; unfold sv_at, difficulty_point_at; rewrite Fd; reflexivity|].
      split; [intros t; rewrite Hk; unfold kiai_at, effect_point_at; rewrite Fe; reflexivity|].
      intros t. rewrite Hsc. unfold scroll_at, effect_point_at. rewrite Fe. reflexivity.
    Qed.
  End OnMap.
End RT.

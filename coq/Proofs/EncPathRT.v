(* EncPathRT: T02c -- the path string the encoder writes for a control-point
   list of the decoder's image, outside the classes D13 / D17 / consecutive
   Catmull segments, is converted back to exactly that list. *)
From RM Require Import Model.EncPathSpec Model.HitObjectSpec Proofs.EncText Proofs.EncFmt Proofs.EncFloat Proofs.EncPathFloat
     Proofs.EncSimple Proofs.EncObjects Proofs.FramingFacts Proofs.PathStringFacts Proofs.EncPathEnc Proofs.EncPathDec.
From RM Require Import Gen.Generated.
From Flocq Require Import BinarySingleNaN.
From Coq Require Import ZifyBool.
Open Scope Z_scope.

(* ---------- the encoder's pieces, grouped into text segments ---------- *)

(* items of the current segment, and the segments that follow *)
Fixpoint segment (i : nat) (pp p : ZPt) (last : PathType) (l : list ZCP) : list item * list Seg :=
  match l with
  | [] => ([], [])
  | z :: r =>
      match snd z with
      | None => let s := segment (S i) p (fst z) last r in (IU (fst z) :: fst s, snd s)
      | Some t =>
          if explicit i pp p last t
          then let s := segment (S i) p (fst z) t r in ([], (t, fst z, fst s) :: snd s)
          else let s := segment (S i) p (fst z) last r in (II (fst z) :: fst s, snd s)
      end
  end.

Lemma explicit_false i pp p last t : explicit i pp p last t = false ->
  t = last /\ is_perf t = false.
Proof.
  unfold explicit, is_perf. destruct ((1 <? i)%nat && zeq p pp); [discriminate|].
  intros H. apply orb_false_iff in H. destruct H as [H1 H2]. apply negb_false_iff in H1.
  split; [apply pt_eqb_eq; exact H1|exact H2].
Qed.

Lemma zeq_sym a b : zeq a b = zeq b a.
Proof. unfold zeq. rewrite (Z.eqb_sym (fst a)), (Z.eqb_sym (snd a)). reflexivity. Qed.

Lemma pt_eqb_refl t : pt_eqb t t = true.
Proof.
  unfold pt_eqb. rewrite Z.eqb_refl. destruct (pt_degree t); cbn; [apply Z.eqb_refl|reflexivity].
Qed.

(* the control points are the outputs of the segments *)
Lemma unsegment : forall l i pp p last,
  map icp l = map icp (map (item_out last) (fst (segment i pp p last l))) ++
              flat_map seg_out (snd (segment i pp p last l)).
Proof.
  induction l as [|z r IH]; intros i pp p last; [reflexivity|].
  destruct z as [q [t|]]; cbn [segment fst snd map].
  - destruct (explicit i pp p last t) eqn:E; cbn [fst snd map flat_map seg_out app].
    + rewrite (IH (S i) p q t). reflexivity.
    + destruct (explicit_false _ _ _ _ _ E) as [-> _].
      rewrite (IH (S i) p q last). reflexivity.
  - rewrite (IH (S i) p q last). reflexivity.
Qed.

Section RT.
  Variables (fmt_f64 : F64 -> str) (fmt_f32 : F32 -> str) (fmt_int : Z -> str).
  Hypothesis Hfmt : fmt_ok fmt_f64 fmt_f32 fmt_int.
  Hypothesis H32 : fmt_f32_int fmt_f32 fmt_int.
  Notation rline := (render fmt_f64 fmt_f32 fmt_int).
  Variable P : ZPt.
  Hypothesis HP : Pok P.
  Notation lstr := (letter_str fmt_f64 fmt_f32 fmt_int).
  Notation pstr := (pt_str fmt_f32 P).
  Notation istrs := (item_strs fmt_f32 P).
  Notation sstrs := (seg_strs fmt_f64 fmt_f32 fmt_int P).

  Lemma enc_strs_segment : forall l i pp p last,
    enc_strs fmt_f64 fmt_f32 fmt_int P i pp p last l
    = flat_map istrs (fst (segment i pp p last l)) ++ flat_map sstrs (snd (segment i pp p last l)).
  Proof.
    induction l as [|z r IH]; intros i pp p last; [reflexivity|].
    destruct z as [q [t|]]; cbn [enc_strs segment fst snd].
    - destruct (explicit i pp p last t) eqn:E; cbn [fst snd flat_map item_strs seg_strs app].
      + rewrite (IH (S i) p q t). reflexivity.
      + rewrite (IH (S i) p q last). reflexivity.
    - cbn [flat_map item_strs app]. rewrite (IH (S i) p q last). reflexivity.
  Qed.

  (* ---------- the perfect-curve rule ---------- *)

  Lemma seg_type_other t all : is_perf t = false -> seg_type t all = t.
  Proof. unfold seg_type, is_perf. intros ->. reflexivity. Qed.

  Lemma seg_type_segment t q r i pp p : perf_ok t q r = true ->
    let s := segment i pp p t r in
    seg_type t (upt q :: map upt (flat_map item_pts (fst s)) ++ map upt (closing_of (snd s))) = t.
  Proof.
    intros H. cbv zeta. unfold perf_ok in H. destruct (is_perf t) eqn:Ep.
    2:{ apply seg_type_other. exact Ep. }
    cbn [negb orb] in H.
    assert (Et : t = pt_perfect) by (apply pt_eqb_eq; exact Ep). subst t.
    destruct r as [|[a ta] [|[b tb] r']]; try discriminate.
    apply andb_true_iff in H. destruct H as [H Hlin]. apply andb_true_iff in H. destruct H as [Ha Hb].
    apply negb_true_iff in Hlin.
    destruct ta as [ta|]; [discriminate|]. cbn [fst snd] in *.
    cbn [segment fst snd].
    destruct tb as [tb|].
    - assert (Ex : explicit (S i) p a pt_perfect tb = true).
      { unfold explicit. destruct ((1 <? S i)%nat && zeq a p); [reflexivity|].
        destruct (pt_eqb tb pt_perfect); reflexivity. }
      rewrite Ex. cbn [fst snd flat_map item_pts app map closing_of].
      unfold seg_type. rewrite pt_eqb_refl. cbn [upt cp_pos]. rewrite Hlin. reflexivity.
    - cbn [typed snd orb] in Hb. destruct r' as [|z r']; [|discriminate].
      cbn [segment fst snd flat_map item_pts app map closing_of].
      unfold seg_type. rewrite pt_eqb_refl. cbn [upt cp_pos]. rewrite Hlin. reflexivity.
  Qed.

  (* ---------- from the image and the excluded classes to the segment conditions ---------- *)

  Definition segs_good_list (sg : list Seg) : Prop :=
    match sg with [] => True | (t, q, its) :: sg' => segs_good P t q its sg' end.

  Lemma segs_good_list_closing sg : segs_good_list sg -> Forall (fun c => abs_ok P c = true) (closing_of sg).
  Proof.
    destruct sg as [|[[t q] its] sg']; intros H; [constructor|].
    cbn [segs_good_list] in H. pose proof (segs_good_head P _ _ _ _ H) as (_ & Hq & _).
    cbn [closing_of]. constructor; [exact Hq|constructor].
  Qed.

  Lemma segment_good : forall l k i pp p last,
    (1 <= k)%nat -> (1 <= i)%nat ->
    zinv_from P last p l = true -> zd17_from last p l = false -> zcc_from last l = false -> zd13 l = false ->
    (is_cat last = true -> k = 1%nat -> match l with z :: _ => zeq (fst z) p = false | [] => True end) ->
    let s := segment i pp p last l in
    cond last k p (fst s) = true /\ items_ok P (fst s) /\ segs_good_list (snd s).
  Proof.
    induction l as [|z r IH]; intros k i pp p last Hk Hi Hinv H17 Hcc H13 Hcat; cbv zeta.
    - cbn [segment fst snd cond]. repeat split. constructor.
    - destruct z as [q ty]. cbn [zinv_from fst snd] in Hinv.
      apply andb_true_iff in Hinv. destruct Hinv as [Habs Hinv].
      cbn [zd13 fst snd] in H13. apply orb_false_iff in H13. destruct H13 as [H13h H13].
      cbn [fst] in Hcat.
      destruct ty as [t|].
      + (* typed *)
        apply andb_true_iff in Hinv. destruct Hinv as [Hinv Hrec].
        apply andb_true_iff in Hinv. destruct Hinv as [Hpt Hperf].
        cbn [zd17_from fst snd] in H17. apply orb_false_iff in H17. destruct H17 as [H17h H17].
        cbn [zcc_from fst snd] in Hcc. apply orb_false_iff in Hcc. destruct Hcc as [Hcch Hcc].
        cbn [segment fst snd].
        destruct (explicit i pp p last t) eqn:Ex.
        * (* a new text segment *)
          cbn [fst snd cond segs_good_list].
          destruct (IH 1%nat (S i) p q t (le_n 1) (le_S _ _ Hi) Hrec H17 Hcc H13) as (C & I & G).
          { intros Hc _. destruct r as [|z' r']; [exact Logic.I|]. rewrite Hc in H13h. rewrite zeq_sym. exact H13h. }
          split; [reflexivity|]. split; [constructor|].
          assert (Hg : seg_good P t q (fst (segment (S i) p q t r)) (closing_of (snd (segment (S i) p q t r)))).
          { repeat split; try assumption.
            - apply segs_good_list_closing. exact G.
            - apply seg_type_segment. exact Hperf. }
          destruct (snd (segment (S i) p q t r)) as [|[[t' q'] its'] sg']; cbn [segs_good]; (split; [exact Hg|]);
            [exact Logic.I|exact G].
        * (* an implicit segment start *)
          destruct (explicit_false _ _ _ _ _ Ex) as [-> Hnp].
          rewrite pt_eqb_refl, Hnp in H17h. cbn [andb negb] in H17h.
          rewrite andb_false_r in Hcch || idtac.
          assert (Hnc : is_cat last = false) by (destruct (is_cat last); [discriminate Hcch|reflexivity]).
          rewrite Hnc in H17h. cbn [andb negb] in H17h.
          apply orb_false_iff in H17h. destruct H17h as [H17a Hqp].
          apply orb_false_iff in H17a. destruct H17a as [Hnil Hnt].
          destruct (IH (S (S k)) (S i) p q last (le_S _ _ (le_S _ _ Hk)) (le_S _ _ Hi) Hrec H17 Hcc H13) as (C & I & G).
          { intros Hc. rewrite Hnc in Hc. discriminate. }
          cbn [fst snd cond item_pt].
          rewrite Hqp, Hnc, C. cbn [andb negb].
          split; [|split; [constructor; [exact Habs|exact I]|exact G]].
          destruct r as [|[q' [t'|]] r']; try discriminate. reflexivity.
      + (* untyped *)
        apply andb_true_iff in Hinv. destruct Hinv as [Hdup Hrec].
        cbn [zd17_from fst snd] in H17. cbn [zcc_from fst snd] in Hcc.
        cbn [segment fst snd].
        destruct (IH (S k) (S i) p q last (le_S _ _ Hk) (le_S _ _ Hi) Hrec H17 Hcc H13) as (C & I & G).
        { intros _ Hk1. clear - Hk Hk1. lia. }
        cbn [cond item_pt]. rewrite C.
        split; [|split; [constructor; [exact Habs|exact I]|exact G]].
        rewrite andb_true_r. apply negb_true_iff.
        destruct (zeq q p) eqn:Eq; [|reflexivity]. cbn [andb].
        cbn [negb orb] in Hdup.
        destruct (is_cat last) eqn:Ec.
        * (* Catmull: only the first pair is split, and D13 excludes it *)
          destruct (1 <? k)%nat eqn:Ek; [reflexivity|].
          assert (k = 1%nat) by (clear - Hk Ek; lia). specialize (Hcat eq_refl H). congruence.
        * cbn [andb negb]. cbn [orb] in Hdup.
          apply orb_true_iff in Hdup. destruct Hdup as [Hnil|Hnt].
          -- destruct r; [reflexivity|discriminate].
          -- destruct r as [|[q' [t'|]] r']; try discriminate.
             cbn [segment fst snd].
             assert (Ex : explicit (S i) p q last t' = true).
             { unfold explicit. replace (1 <? S i)%nat with true by (clear - Hi; lia). rewrite Eq. reflexivity. }
             rewrite Ex. reflexivity.
  Qed.

  Lemma zinv_abs : forall l last p, zinv_from P last p l = true -> Forall (fun z => abs_ok P (fst z) = true) l.
  Proof.
    induction l as [|z r IH]; intros last p H; [constructor|].
    cbn [zinv_from] in H. apply andb_true_iff in H. destruct H as [Ha H].
    constructor; [exact Ha|].
    destruct (snd z) as [t|].
    - apply andb_true_iff in H. destruct H as [_ H]. exact (IH _ _ H).
    - apply andb_true_iff in H. destruct H as [_ H]. exact (IH _ _ H).
  Qed.

  (* ---------- joining and splitting the pieces ---------- *)

  Notation scat := (sepcat).

  Lemma sepcat_split : forall strs, strs <> [] ->
    Forall (fun s => memb 124 s = false /\ memb comma s = false) strs ->
    exists s, scat strs = s ++ [comma] /\ memb comma s = false /\ split_on 124 s = strs.
  Proof.
    induction strs as [|a r IH]; intros Hne H; [congruence|].
    inversion H as [|? ? [Ha1 Ha2] Hr]; subst.
    destruct r as [|b r'].
    - exists a. cbn [sepcat]. repeat split; [exact Ha2|].
      apply split_on_no_sep, memb_false_In. exact Ha1.
    - destruct (IH ltac:(discriminate) Hr) as (s & E1 & E2 & E3).
      exists (a ++ 124 :: s). rewrite sepcat_cons by discriminate. rewrite E1.
      repeat split.
      + rewrite <- app_assoc. reflexivity.
      + rewrite memb_app, memb_cons, Ha2, E2. reflexivity.
      + etransitivity; [apply split_on_field; exact Ha1|]. rewrite E3. reflexivity.
  Qed.

  Lemma abs_ok_origin : abs_ok P (0, 0) = true.
  Proof. destruct HP as [A B]. unfold abs_ok, max_coordinate_value. cbn [fst snd]. lia. Qed.

  Lemma enc_strs_no_sep : forall l i pp p last,
    Forall (fun s => memb 124 s = false /\ memb comma s = false)
           (enc_strs fmt_f64 fmt_f32 fmt_int P i pp p last l).
  Proof.
    assert (Hp : forall q, memb 124 (pstr q) = false /\ memb comma (pstr q) = false).
    { intros q. split; apply (pstr_no _ _ _ Hfmt); try reflexivity; unfold colon, comma; lia. }
    assert (Hl : forall t, memb 124 (lstr t) = false /\ memb comma (lstr t) = false).
    { intros t. split; apply (lstr_no _ _ _ Hfmt); reflexivity. }
    induction l as [|z r IH]; intros i pp p last; [constructor|].
    cbn [enc_strs]. destruct (snd z) as [t|].
    - destruct (explicit i pp p last t); repeat (constructor; [auto|]); apply IH.
    - constructor; [auto|apply IH].
  Qed.

  (* every character of the path field is harmless for the line reader *)
  Lemma sepcat_safe : forall strs, Forall (fun x => forallb safec x = true) strs ->
    forallb safec (scat strs) = true.
  Proof.
    induction strs as [|a r IH]; intros H; [reflexivity|].
    inversion H as [|? ? Ha Hr]; subst. cbn [sepcat]. destruct r as [|b r'].
    - rewrite forallb_app, Ha. reflexivity.
    - rewrite forallb_app, Ha. cbn [forallb andb]. rewrite (IH Hr). reflexivity.
  Qed.

  Lemma pstr_safe q : forallb safec (pstr q) = true.
  Proof.
    unfold pt_str. rewrite forallb_app. cbn [forallb]. rewrite !(f32_safe _ _ _ Hfmt). reflexivity.
  Qed.

  Lemma lstr_safe t : forallb safec (lstr t) = true.
  Proof.
    rewrite lstr_eq. unfold pt_letter.
    destruct (pt_kind t =? sk_bspline).
    - destruct (pt_degree t); cbn [forallb]; rewrite ?(int_safe _ _ _ Hfmt); reflexivity.
    - destruct (pt_kind t =? sk_catmull); [reflexivity|].
      destruct (pt_kind t =? sk_perfect); reflexivity.
  Qed.

  Lemma enc_strs_safe : forall l i pp p last,
    Forall (fun x => forallb safec x = true) (enc_strs fmt_f64 fmt_f32 fmt_int P i pp p last l).
  Proof.
    induction l as [|z r IH]; intros i pp p last; [constructor|].
    cbn [enc_strs]. destruct (snd z) as [t|].
    - destruct (explicit i pp p last t); repeat (constructor; [first [apply pstr_safe|apply lstr_safe]|]); apply IH.
    - constructor; [apply pstr_safe|apply IH].
  Qed.

  (* ---------- T02c on integer control points ---------- *)

  Theorem zpath_round_trip zs :
    zimage P zs = true -> zd13 zs = false -> zd17 zs = false -> zcc zs = false ->
    exists s, rline (path_toks (ipos P) (map icp zs)) = s ++ [comma] /\ memb comma s = false /\
              forallb safec s = true /\
              path_spec s (ipos P) = (map icp zs, true).
  Proof.
    intros Him H13 H17 Hcc.
    destruct zs as [|[q0 [t0|]] r]; try discriminate.
    cbn [zimage] in Him.
    apply andb_true_iff in Him. destruct Him as [Him Hinv].
    apply andb_true_iff in Him. destruct Him as [Him Hperf].
    apply andb_true_iff in Him. destruct Him as [Hq0 Hpt].
    assert (q0 = (0, 0)) by (destruct q0; unfold zeq in Hq0; cbn [fst snd] in Hq0; f_equal; lia). subst q0.
    cbn [zd17 zcc] in H17, Hcc.
    cbn [zd13 fst snd] in H13. apply orb_false_iff in H13. destruct H13 as [H13h H13].
    pose proof (zinv_abs r t0 (0, 0) Hinv) as Habs.
    pose proof (path_toks_render fmt_f64 fmt_f32 fmt_int P HP (0, 0) t0 r abs_ok_origin Habs) as Hrender.
    destruct (sepcat_split (lstr t0 :: enc_strs fmt_f64 fmt_f32 fmt_int P 1 (0, 0) (0, 0) t0 r))
      as (s & E1 & E2 & E3); [discriminate| |].
    { constructor; [|apply enc_strs_no_sep].
      split; apply (lstr_no _ _ _ Hfmt); reflexivity. }
    exists s. split; [etransitivity; [exact Hrender|exact E1]|]. split; [exact E2|].
    split.
    { pose proof (sepcat_safe (lstr t0 :: enc_strs fmt_f64 fmt_f32 fmt_int P 1 (0, 0) (0, 0) t0 r)
                    (Forall_cons _ (lstr_safe t0) (enc_strs_safe r 1%nat (0, 0) (0, 0) t0))) as Hs.
      rewrite E1, forallb_app in Hs. apply andb_true_iff in Hs. exact (proj1 Hs). }
    unfold path_spec. rewrite E3, enc_strs_segment.
    destruct (segment_good r 1%nat 1%nat (0, 0) (0, 0) t0 (le_n 1) (le_n 1) Hinv H17 Hcc H13) as (C & I & G).
    { intros Hc _. destruct r as [|z' r']; [exact Logic.I|]. rewrite Hc in H13h. rewrite zeq_sym. exact H13h. }
    set (sg := segment 1 (0, 0) (0, 0) t0 r) in *.
    pose proof (absorb_points P true (flat_map istrs (fst sg)) [lstr t0] (flat_map sstrs (snd sg))
                  (item_strs_points _ _ _ Hfmt H32 P HP _ I)) as Habs2.
    cbn [app] in Habs2.
    assert (Hg : seg_good P t0 (0, 0) (fst sg) (closing_of (snd sg))).
    { repeat split; try assumption.
      - exact abs_ok_origin.
      - apply segs_good_list_closing. exact G.
      - apply seg_type_segment. exact Hperf. }
    assert (Hgs : segs_good P t0 (0, 0) (fst sg) (snd sg)).
    { destruct (snd sg) as [|[[t' q'] its'] sg'] eqn:Esg; cbn [segs_good]; (split; [exact Hg|]);
        [exact Logic.I|exact G]. }
    pose proof (segs_decode fmt_f64 fmt_f32 fmt_int Hfmt H32 P HP (snd sg) true t0 (0, 0) (fst sg)
                  (lstr t0 :: flat_map istrs (fst sg)) Hgs
                  (or_introl (conj eq_refl (conj eq_refl eq_refl)))) as Hdec.
    pose proof (unsegment r 1 (0, 0) (0, 0) t0) as Hun. fold sg in Hun.
    unfold str, char in *. rewrite Habs2, Hdec. f_equal.
    cbn [seg_out map]. rewrite Hun. reflexivity.
  Qed.
End RT.

(* ---------- T02c on control points ---------- *)

Lemma coord_ok_int x : coord_ok x = true -> x = S.of_Z (f32_as_i32 x) /\ Z.abs (f32_as_i32 x) <= 131072.
Proof.
  unfold coord_ok, max_coordinate_value. intros H. apply andb_true_iff in H. destruct H as [Hb He].
  split; [apply f32_eqb_eq; exact He|lia].
Qed.

Lemma int_pos_eq p : int_pos p = true -> p = ipos (zpt p).
Proof.
  unfold int_pos. intros H. apply andb_true_iff in H. destruct H as [Hx Hy].
  apply f32_eqb_eq in Hx. apply f32_eqb_eq in Hy. destruct p as [x y]. cbn [px py] in *.
  unfold ipos, zpt. cbn [px py fst snd]. rewrite <- Hx, <- Hy. reflexivity.
Qed.

Lemma path_image_int pos cps : path_image pos cps = true ->
  Pok (zpt pos) /\ pos = ipos (zpt pos) /\ cps = map icp (map zcp cps) /\ zimage (zpt pos) (map zcp cps) = true.
Proof.
  unfold path_image. intros H.
  apply andb_true_iff in H. destruct H as [H Hz].
  apply andb_true_iff in H. destruct H as [H Hall].
  apply andb_true_iff in H. destruct H as [Hx Hy].
  destruct (coord_ok_int _ Hx) as [Ex Bx]. destruct (coord_ok_int _ Hy) as [Ey By].
  repeat split; try assumption.
  - destruct pos as [x y]. cbn [px py] in *. unfold ipos, zpt. cbn [px py fst snd]. rewrite <- Ex, <- Ey. reflexivity.
  - clear - Hall. induction cps as [|p r IH]; [reflexivity|].
    cbn [forallb] in Hall. apply andb_true_iff in Hall. destruct Hall as [Hp Hr].
    cbn [map]. rewrite <- (IH Hr). f_equal.
    destruct p as [pp ty]. unfold icp, zcp. cbn [cp_pos cp_type fst snd]. rewrite <- (int_pos_eq pp Hp). reflexivity.
Qed.

Section RTpcp.
  Variables (fmt_f64 : F64 -> str) (fmt_f32 : F32 -> str) (fmt_int : Z -> str).
  Hypothesis Hfmt : fmt_ok fmt_f64 fmt_f32 fmt_int.
  Hypothesis H32 : fmt_f32_int fmt_f32 fmt_int.
  Notation rline := (render fmt_f64 fmt_f32 fmt_int).

  (* the path tokens are the path field followed by ','; the field is converted back to [cps] *)
  Theorem path_round_trip pos cps :
    path_image pos cps = true ->
    d13_class cps = false -> d17_class cps = false -> consec_catmull cps = false ->
    exists s, rline (path_toks pos cps) = s ++ [comma] /\ memb comma s = false /\
              forallb safec s = true /\
              path_spec s pos = (cps, true) /\
              forall vs, exists vs', convert_path_str (mkPB [] vs) s pos = Done (mkPB cps vs', Ok).
  Proof.
    intros Him H13 H17 Hcc.
    destruct (path_image_int pos cps Him) as (HP & Epos & Ecps & Hz).
    destruct (zpath_round_trip fmt_f64 fmt_f32 fmt_int Hfmt H32 (zpt pos) HP (map zcp cps) Hz H13 H17 Hcc)
      as (s & E1 & E2 & Es & E3).
    rewrite <- Ecps, <- Epos in E1, E3.
    exists s. repeat split; try assumption.
    intros vs. destruct (convert_path_str_spec (mkPB [] vs) s pos) as [V HV].
    rewrite E3 in HV. cbn [fst snd pb_curve app] in HV. exists V. exact HV.
  Qed.
End RTpcp.

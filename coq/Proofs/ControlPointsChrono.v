(* ControlPointsChrono: T13c -- for chronologically increasing adds the stored
   difficulty / effect / sample lists are exactly the "compression" of the
   input (each point is kept iff it differs from the last kept one), hence no
   stored point repeats its predecessor. *)
From RM Require Import Model.ControlPoints Proofs.BSearch Proofs.ControlPointsFacts.
From Coq Require Import Sorting.Sorted.
Require Import ZifyBool.
Open Scope Z_scope.

Section Coll.
  Context {P : Type} (time : P -> F64).
  Notation K := (K time).

  Lemma last_opt_In (l : list P) p : last_opt l = Some p -> In p l.
  Proof.
    induction l as [|a l IH]; [discriminate|].
    destruct l as [|b l]; cbn [last_opt]; intros H.
    - inversion H. left. reflexivity.
    - right. apply IH. exact H.
  Qed.

  (* a point later than everything stored is appended *)
  Lemma put_append l p :
    sorted time l -> Forall (fun q => K q < K p) l -> put time l p = Done (l ++ [p]).
  Proof.
    intros Hs Hlt. destruct (put_spec time l p Hs) as (l1 & l2 & Hput & H1 & H2 & Hl).
    rewrite Hput. rewrite Forall_forall in Hlt, H2.
    destruct Hl as [-> | (q & -> & Hq)].
    - destruct l2 as [|b l2]; [rewrite app_nil_r; reflexivity|].
      specialize (Hlt b ltac:(apply in_or_app; right; left; reflexivity)).
      specialize (H2 b ltac:(left; reflexivity)). lia.
    - specialize (Hlt q ltac:(apply in_or_app; right; left; reflexivity)). lia.
  Qed.

  Lemma last_not_after_all l p :
    Forall (fun q => K q < K p) l -> last_not_after time l (time p) = last_opt l.
  Proof.
    intros H. unfold last_not_after. rewrite filter_all; [reflexivity|].
    eapply Forall_impl; [|exact H]. cbv beta. intros q Hq. apply Z.leb_le. unfold ControlPointsFacts.K in *. lia.
  Qed.

  Lemma sorted_snoc l p :
    sorted time l -> Forall (fun q => K q < K p) l -> sorted time (l ++ [p]).
  Proof.
    intros Hs H. rewrite <- (app_nil_r l) in Hs.
    apply (sorted_mid time l [] p Hs H). constructor.
  Qed.

  Lemma Forall_snoc_lt l p p' :
    Forall (fun q => K q < K p) l -> K p < K p' -> Forall (fun q => K q < K p') (l ++ [p]).
  Proof.
    intros H Hp. apply Forall_app. split.
    - eapply Forall_impl; [|exact H]. cbv beta. intros q Hq. lia.
    - constructor; [exact Hp|constructor].
  Qed.

  Lemma last_opt_snoc (l : list P) p : last_opt (l ++ [p]) = Some p.
  Proof. apply last_opt_app_single. Qed.
End Coll.

(* keep a point iff it is not redundant w.r.t. the last kept one *)
Section Compress.
  Context {P : Type} (red : P -> P -> bool).
  Fixpoint compress (prev : option P) (dflt_red : P -> bool) (ps : list P) : list P :=
    match ps with
    | [] => []
    | p :: r =>
        let redundant := match prev with Some e => red p e | None => dflt_red p end in
        if redundant then compress prev dflt_red r else p :: compress (Some p) dflt_red r
    end.

  (* in a compressed list no element is redundant w.r.t. its predecessor *)
  Fixpoint no_repeat (prev : option P) (dflt_red : P -> bool) (l : list P) : Prop :=
    match l with
    | [] => True
    | p :: r => (match prev with Some e => red p e | None => dflt_red p end) = false /\
                no_repeat (Some p) dflt_red r
    end.

  Lemma compress_no_repeat prev dr ps : no_repeat prev dr (compress prev dr ps).
  Proof.
    revert prev. induction ps as [|p r IH]; intros prev; cbn [compress]; [exact I|].
    destruct (match prev with Some e => red p e | None => dr p end) eqn:E; [apply IH|].
    cbn [no_repeat]. split; [exact E | apply IH].
  Qed.
End Compress.

Definition chrono {P} (time : P -> F64) (ps : list P) : Prop :=
  StronglySorted (fun a b => K time a < K time b) ps.

Fixpoint add_difficulties (c : ControlPoints) (ps : list DifficultyPoint) : outcome ControlPoints :=
  match ps with
  | [] => Done c
  | p :: r => obind (add_difficulty c p) (fun c' => add_difficulties c' r)
  end.
Fixpoint add_effects (c : ControlPoints) (ps : list EffectPoint) : outcome ControlPoints :=
  match ps with
  | [] => Done c
  | p :: r => obind (add_effect c p) (fun c' => add_effects c' r)
  end.
Fixpoint add_samples (c : ControlPoints) (ps : list SamplePoint) : outcome ControlPoints :=
  match ps with
  | [] => Done c
  | p :: r => obind (add_sample c p) (fun c' => add_samples c' r)
  end.

Lemma chrono_cons {P} (time : P -> F64) p r :
  chrono time (p :: r) -> chrono time r /\ Forall (fun q => K time p < K time q) r.
Proof. intros H. inversion H; subst. split; assumption. Qed.

(* ---- difficulty points ---- *)
Lemma add_difficulties_chrono ps : forall c,
  cp_sorted c -> chrono dp_time ps ->
  Forall (fun p => Forall (fun q => K dp_time q < K dp_time p) (cp_difficulty c)) ps ->
  add_difficulties c ps =
  Done (mkCP (cp_timing c)
             (cp_difficulty c ++ compress dp_redundant (last_opt (cp_difficulty c))
                                          (fun p => dp_redundant p dflt_dp) ps)
             (cp_effect c) (cp_sample c)).
Proof.
  induction ps as [|p r IH]; intros c Hc Hch Hlt; cbn [add_difficulties compress].
  - rewrite app_nil_r. destruct c; reflexivity.
  - destruct (chrono_cons _ _ _ Hch) as (Hch' & Hpr).
    inversion Hlt as [|? ? Hp Hr]; subst.
    destruct Hc as (Ht & Hd & He & Hs).
    unfold add_difficulty at 1, difficulty_point_at.
    rewrite (at_opt_spec dp_time _ _ Hd). cbn [obind].
    rewrite (last_not_after_all dp_time _ _ Hp).
    destruct (match last_opt (cp_difficulty c) with Some e => dp_redundant p e | None => dp_redundant p dflt_dp end) eqn:E.
    + cbv beta iota. cbn [obind]. rewrite IH; [reflexivity | repeat split; assumption | exact Hch' | exact Hr].
    + cbv beta iota. rewrite (put_append dp_time _ _ Hd Hp). cbn [obind].
      rewrite IH.
      * cbn [cp_timing cp_difficulty cp_effect cp_sample]. rewrite last_opt_snoc, <- app_assoc. reflexivity.
      * repeat split; try assumption. cbn [cp_difficulty]. apply sorted_snoc; assumption.
      * exact Hch'.
      * cbn [cp_difficulty]. rewrite Forall_forall in Hpr |- *. intros q Hq.
        apply Forall_snoc_lt; [exact Hp | apply Hpr; exact Hq].
Qed.

(* ---- effect points ---- *)
Lemma add_effects_chrono ps : forall c,
  cp_sorted c -> chrono ep_time ps ->
  Forall (fun p => Forall (fun q => K ep_time q < K ep_time p) (cp_effect c)) ps ->
  add_effects c ps =
  Done (mkCP (cp_timing c) (cp_difficulty c)
             (cp_effect c ++ compress ep_redundant (last_opt (cp_effect c))
                                      (fun p => ep_redundant p dflt_ep) ps)
             (cp_sample c)).
Proof.
  induction ps as [|p r IH]; intros c Hc Hch Hlt; cbn [add_effects compress].
  - rewrite app_nil_r. destruct c; reflexivity.
  - destruct (chrono_cons _ _ _ Hch) as (Hch' & Hpr).
    inversion Hlt as [|? ? Hp Hr]; subst.
    destruct Hc as (Ht & Hd & He & Hs).
    unfold add_effect at 1, effect_point_at.
    rewrite (at_opt_spec ep_time _ _ He). cbn [obind].
    rewrite (last_not_after_all ep_time _ _ Hp).
    destruct (match last_opt (cp_effect c) with Some e => ep_redundant p e | None => ep_redundant p dflt_ep end) eqn:E.
    + cbv beta iota. cbn [obind]. rewrite IH; [reflexivity | repeat split; assumption | exact Hch' | exact Hr].
    + cbv beta iota. rewrite (put_append ep_time _ _ He Hp). cbn [obind].
      rewrite IH.
      * cbn [cp_timing cp_difficulty cp_effect cp_sample]. rewrite last_opt_snoc, <- app_assoc. reflexivity.
      * repeat split; try assumption. cbn [cp_effect]. apply sorted_snoc; assumption.
      * exact Hch'.
      * cbn [cp_effect]. rewrite Forall_forall in Hpr |- *. intros q Hq.
        apply Forall_snoc_lt; [exact Hp | apply Hpr; exact Hq].
Qed.

(* ---- sample points: never redundant before the first point ---- *)
Lemma add_samples_chrono ps : forall c,
  cp_sorted c -> chrono sp_time ps ->
  Forall (fun p => Forall (fun q => K sp_time q < K sp_time p) (cp_sample c)) ps ->
  add_samples c ps =
  Done (mkCP (cp_timing c) (cp_difficulty c) (cp_effect c)
             (cp_sample c ++ compress sp_redundant (last_opt (cp_sample c)) (fun _ => false) ps)).
Proof.
  induction ps as [|p r IH]; intros c Hc Hch Hlt; cbn [add_samples compress].
  - rewrite app_nil_r. destruct c; reflexivity.
  - destruct (chrono_cons _ _ _ Hch) as (Hch' & Hpr).
    inversion Hlt as [|? ? Hp Hr]; subst.
    destruct Hc as (Ht & Hd & He & Hs).
    unfold add_sample at 1.
    rewrite (at_opt_spec sp_time _ _ Hs). cbn [obind].
    rewrite (last_not_after_all sp_time _ _ Hp).
    destruct (match last_opt (cp_sample c) with Some e => sp_redundant p e | None => false end) eqn:E.
    + cbv beta iota. cbn [obind]. rewrite IH; [reflexivity | repeat split; assumption | exact Hch' | exact Hr].
    + cbv beta iota. rewrite (put_append sp_time _ _ Hs Hp). cbn [obind].
      rewrite IH.
      * cbn [cp_timing cp_difficulty cp_effect cp_sample]. rewrite last_opt_snoc, <- app_assoc. reflexivity.
      * repeat split; try assumption. cbn [cp_sample]. apply sorted_snoc; assumption.
      * exact Hch'.
      * cbn [cp_sample]. rewrite Forall_forall in Hpr |- *. intros q Hq.
        apply Forall_snoc_lt; [exact Hp | apply Hpr; exact Hq].
Qed.

(* Enc2Values: value invariants of the control points of EVERY decoded map, for all four
   point kinds (Proofs/DecodedValues.v carries timing and difficulty points only):
     - beat length within [6, 60000], slider velocity within [0.1, 10], scroll speed within
       [0.1, 10], sample volume within [0, 100], custom sample index within the i32 parse
       limits, every time finite;
   as a stepwise invariant of the [TPState] inside the Beatmap decoder state, generic in
   the four predicates.  Whatever the input lines (no chronology, no well-formedness). *)
From RM Require Import Model.Decoders Model.EncSpec Proofs.FramingFacts Proofs.ControlPointsFacts
     Proofs.TimingPointsValues Proofs.DecodersFacts Proofs.DecodersTotal Proofs.DecodedValues
     Proofs.NumFacts Proofs.EncImage.
From RM Require Import Gen.Generated.
From Coq Require Import ZifyBool.
Open Scope Z_scope.

(* ================================================================== *)
(* 1. a generic stepwise invariant of TPState                          *)
(* ================================================================== *)

Section TPInv.
  Variables (Gt : TimingPoint -> Prop) (Gd : DifficultyPoint -> Prop)
            (Ge : EffectPoint -> Prop) (Gs : SamplePoint -> Prop).

  Definition cp_all (c : ControlPoints) : Prop :=
    Forall Gt (cp_timing c) /\ Forall Gd (cp_difficulty c) /\ Forall Ge (cp_effect c) /\ Forall Gs (cp_sample c).

  Definition pend_all (pt : option TimingPoint) (pd : option DifficultyPoint)
             (pe : option EffectPoint) (ps : option SamplePoint) : Prop :=
    opt_good Gt pt /\ opt_good Gd pd /\ opt_good Ge pe /\ opt_good Gs ps.

  Definition ts_all (st : TPState) : Prop :=
    cp_all (ts_cp st) /\ pend_all (ts_pt st) (ts_pd st) (ts_pe st) (ts_ps st).

  Lemma add_timing_all c p c' : add_timing c p = Done c' -> cp_all c -> Gt p -> cp_all c'.
  Proof.
    unfold add_timing. destruct (put tp_time (cp_timing c) p) as [l|w|] eqn:E; cbn [obind]; try discriminate.
    intros [= <-] (Ht & Hd & He & Hs) Hp. repeat split; cbn [cp_timing cp_difficulty cp_effect cp_sample]; try assumption.
    exact (put_Forall _ _ _ _ _ E Ht Hp).
  Qed.

  Lemma add_difficulty_all c p c' : add_difficulty c p = Done c' -> cp_all c -> Gd p -> cp_all c'.
  Proof.
    unfold add_difficulty.
    destruct (difficulty_point_at c (dp_time p)) as [ex|w|]; cbn [obind]; try discriminate.
    destruct (match ex with Some e => _ | None => _ end); [intros [= <-] H _; exact H|].
    destruct (put dp_time (cp_difficulty c) p) as [l|w|] eqn:E; cbn [obind]; try discriminate.
    intros [= <-] (Ht & Hd & He & Hs) Hp. repeat split; cbn [cp_timing cp_difficulty cp_effect cp_sample]; try assumption.
    exact (put_Forall _ _ _ _ _ E Hd Hp).
  Qed.

  Lemma add_effect_all c p c' : add_effect c p = Done c' -> cp_all c -> Ge p -> cp_all c'.
  Proof.
    unfold add_effect.
    destruct (effect_point_at c (ep_time p)) as [ex|w|]; cbn [obind]; try discriminate.
    destruct (match ex with Some e => _ | None => _ end); [intros [= <-] H _; exact H|].
    destruct (put ep_time (cp_effect c) p) as [l|w|] eqn:E; cbn [obind]; try discriminate.
    intros [= <-] (Ht & Hd & He & Hs) Hp. repeat split; cbn [cp_timing cp_difficulty cp_effect cp_sample]; try assumption.
    exact (put_Forall _ _ _ _ _ E He Hp).
  Qed.

  Lemma add_sample_all c p c' : add_sample c p = Done c' -> cp_all c -> Gs p -> cp_all c'.
  Proof.
    unfold add_sample.
    destruct (at_opt sp_time (cp_sample c) (sp_time p)) as [ex|w|]; cbn [obind]; try discriminate.
    destruct (match ex with Some e => _ | None => _ end); [intros [= <-] H _; exact H|].
    destruct (put sp_time (cp_sample c) p) as [l|w|] eqn:E; cbn [obind]; try discriminate.
    intros [= <-] (Ht & Hd & He & Hs) Hp. repeat split; cbn [cp_timing cp_difficulty cp_effect cp_sample]; try assumption.
    exact (put_Forall _ _ _ _ _ E Hs Hp).
  Qed.

  Lemma flush_cp_all st c : flush_cp st = Done c -> ts_all st -> cp_all c.
  Proof.
    unfold flush_cp, add_opt. intros H (Hc & Hpt & Hpd & Hpe & Hps).
    destruct (match ts_pt st with Some p => add_timing (ts_cp st) p | None => Done (ts_cp st) end)
      as [c1|w|] eqn:E1; cbn [obind] in H; try discriminate.
    destruct (match ts_pd st with Some p => add_difficulty c1 p | None => Done c1 end)
      as [c2|w|] eqn:E2; cbn [obind] in H; try discriminate.
    destruct (match ts_pe st with Some p => add_effect c2 p | None => Done c2 end)
      as [c3|w|] eqn:E3; cbn [obind] in H; try discriminate.
    assert (G1 : cp_all c1).
    { destruct (ts_pt st) as [p|]; [exact (add_timing_all _ _ _ E1 Hc Hpt)|inversion E1; subst; exact Hc]. }
    assert (G2 : cp_all c2).
    { destruct (ts_pd st) as [p|]; [exact (add_difficulty_all _ _ _ E2 G1 Hpd)|inversion E2; subst; exact G1]. }
    assert (G3 : cp_all c3).
    { destruct (ts_pe st) as [p|]; [exact (add_effect_all _ _ _ E3 G2 Hpe)|inversion E3; subst; exact G2]. }
    destruct (ts_ps st) as [p|]; [exact (add_sample_all _ _ _ H G3 Hps)|inversion H; subst; exact G3].
  Qed.

  Definition pend_ok (p : pend) : Prop :=
    match p with PT q => Gt q | PD q => Gd q | PE q => Ge q | PS q => Gs q end.

  Lemma add_control_point_all st time p tc st' :
    add_control_point st time p tc = Done st' -> ts_all st -> pend_ok p -> ts_all st'.
  Proof.
    unfold add_control_point. intros H Hst Hp.
    assert (Hflush : forall st1,
              (if time_changed time (ts_time st) then flush_pending_points st else Done st) = Done st1 ->
              ts_all st1).
    { intros st1 E. destruct (time_changed time (ts_time st)).
      - unfold flush_pending_points in E.
        destruct (flush_cp st) as [c|w|] eqn:Ef; cbn [obind] in E; try discriminate.
        inversion E; subst. unfold ts_all, pend_all. cbn [ts_cp ts_pt ts_pd ts_pe ts_ps opt_good].
        split; [exact (flush_cp_all _ _ Ef Hst)|repeat split].
      - inversion E; subst. exact Hst. }
    destruct (if time_changed time (ts_time st) then flush_pending_points st else Done st)
      as [st1|w|] eqn:E; cbn [obind] in H; try discriminate.
    specialize (Hflush st1 eq_refl). inversion H; subst; clear H.
    destruct Hflush as (Fc & Ft & Fd & Fe & Fs).
    destruct st1 as [g t pt pd pe ps c]. cbn [ts_cp ts_pt ts_pd ts_pe ts_ps] in *.
    destruct tc; destruct p; cbn [push_front push_back set_time pend_ok] in *; unfold ts_all, pend_all;
      cbn [ts_cp ts_pt ts_pd ts_pe ts_ps]; (split; [exact Fc|]); repeat split; try assumption.
    - destruct pt as [q|]; cbn [keep_first opt_good] in *; assumption.
    - destruct pd as [q|]; cbn [keep_first opt_good] in *; assumption.
    - destruct pe as [q|]; cbn [keep_first opt_good] in *; assumption.
    - destruct ps as [q|]; cbn [keep_first opt_good] in *; assumption.
  Qed.

  Lemma set_time_all st t : ts_all st -> ts_all (set_time st t).
  Proof. destruct st. exact (fun H => H). Qed.

  (* what an accepted line contributes satisfies the predicates *)
  Hypothesis Hline : forall g line r, parse_tp_line g line = Some r ->
    (l_tc r = true -> Gt (line_tp r)) /\ Gd (line_dp r) /\ Gs (line_sp r) /\ forall mode, Ge (line_ep mode r).

  Lemma parse_timing_points_all st l st' r :
    parse_timing_points st l = Done (st', r) -> ts_all st -> ts_all st'.
  Proof.
    unfold parse_timing_points.
    destruct (parse_tp_line (ts_general st) l) as [ln|] eqn:E; [|intros [= <- <-] H; exact H].
    intros H Hst. destruct (apply_line st ln) as [st1|w|] eqn:Ea; cbn [obind] in H; try discriminate.
    inversion H; subst; clear H.
    destruct (Hline _ _ _ E) as (Lt & Ld & Ls & Le).
    unfold apply_line in Ea.
    destruct (if l_tc ln then add_control_point st (l_time ln) (PT (line_tp ln)) (l_tc ln) else Done st)
      as [s1|w|] eqn:E1; cbn [obind] in Ea; try discriminate.
    assert (I1 : ts_all s1).
    { destruct (l_tc ln) eqn:Etc; [|inversion E1; subst; exact Hst].
      apply (add_control_point_all _ _ _ _ _ E1 Hst). cbn [pend_ok]. exact (Lt eq_refl). }
    destruct (add_control_point s1 (l_time ln) (PD (line_dp ln)) (l_tc ln)) as [s2|w|] eqn:E2;
      cbn [obind] in Ea; try discriminate.
    assert (I2 : ts_all s2) by (apply (add_control_point_all _ _ _ _ _ E2 I1); exact Ld).
    destruct (add_control_point s2 (l_time ln) (PS (line_sp ln)) (l_tc ln)) as [s3|w|] eqn:E3;
      cbn [obind] in Ea; try discriminate.
    assert (I3 : ts_all s3) by (apply (add_control_point_all _ _ _ _ _ E3 I2); exact Ls).
    destruct (add_control_point s3 (l_time ln) (PE _) (l_tc ln)) as [s4|w|] eqn:E4;
      cbn [obind] in Ea; try discriminate.
    assert (I4 : ts_all s4) by (apply (add_control_point_all _ _ _ _ _ E4 I3); apply Le).
    inversion Ea; subst. apply set_time_all. exact I4.
  Qed.

  (* ---------- lifted to the Beatmap decoder state ---------- *)

  Definition bm_all (ob : outcome BMD) : Prop :=
    match ob with Done s => ts_all (tpd_core (hod_tp (bmd_ho s))) | _ => True end.

  Lemma bm_all_step : forall sec os l, bm_all os -> bm_all (fst (parser_of bm_parsers sec os l)).
  Proof.
    intros sec [s|w|] l H; [|destruct sec; exact I ..].
    cbn [bm_all] in H.
    destruct sec; open_parsers; unwrap;
      try (match goal with
           | |- context [parse_timing_points ?a ?b] =>
               let E := fresh "E" in
               destruct (parse_timing_points a b) as [[c r]| |] eqn:E; cbn [obind fst snd];
               [apply parse_timing_points_all in E; [|exact H]|exact I|exact I]
           end);
      repeat case_inner; cbn [bm_all]; proj_simpl; try exact I; try exact H.
    exact E.
  Qed.

  Lemma bm_all_create v : bm_all (Done (bmd_create v)).
  Proof. cbn [bm_all]. split; [repeat split; constructor|repeat split]. Qed.
End TPInv.

(* ================================================================== *)
(* 2. the instance: clamps, parse limits, finite times                 *)
(* ================================================================== *)

(* scroll speed within its clamp and a finite time -- the mode-independent part of
   TimingPointsValues.good_ep (the "scroll speed is 1 outside taiko / mania" part depends on
   the mode in force when the line was read: class D22) *)
Definition range_ep (p : EffectPoint) : Prop :=
  in_range sc_lo sc_hi (ep_scroll p) /\ is_finite (ep_time p) = true.
(* volume within [0, 100], a real bank, a finite time, and the custom index within the limits *)
Definition range_sp (p : SamplePoint) : Prop := good_sp p /\ i32_ok (sp_custom p) = true.

Lemma parse_tp_line_custom g line r : parse_tp_line g line = Some r -> i32_ok (l_custom r) = true.
Proof.
  unfold parse_tp_line. rewrite parse_fields_nth. unfold parse_opts. intros H.
  repeat match type of H with
         | obnd ?x _ = Some _ => destruct x eqn:?; cbn [obnd] in H; [|discriminate H]
         end.
  destruct p as [kiai omit]. cbv zeta in H.
  match type of H with (if ?b then _ else _) = _ => destruct b; [discriminate|] end.
  inversion H; subst; clear H. cbn [l_custom].
  match goal with X : f_custom ?o = Some ?z |- i32_ok ?z = true =>
    unfold f_custom in X; destruct o as [s4|]; [exact (pn_i32_ok _ _ X)|inversion X; reflexivity] end.
Qed.

Lemma line_points_good g line r : parse_tp_line g line = Some r ->
  (l_tc r = true -> good_tp (line_tp r)) /\ good_dp (line_dp r) /\ range_sp (line_sp r) /\
  forall mode, range_ep (line_ep mode r).
Proof.
  intros H. pose proof (parse_tp_line_ok _ _ _ H) as Hok.
  split; [exact (good_line_tp r Hok)|]. split; [exact (good_line_dp r Hok)|].
  split; [split; [exact (good_line_sp r Hok)|exact (parse_tp_line_custom _ _ _ H)]|].
  intros mode. destruct (good_line_ep mode r Hok) as (A & _ & B). exact (conj A B).
Qed.

Definition cp_ranges (c : ControlPoints) : Prop := cp_all good_tp good_dp range_ep range_sp c.

Section WithDist.
  Variable dist_of : Z -> list PCP -> option F64 -> outcome F64.

  (* every decoded map: all four kinds of control points carry values within their clamps /
     limits and finite times *)
  Theorem decoded_cp_ranges lines m :
    decode_beatmap dist_of lines = Done m -> cp_ranges (hov_control_points (bmv_ho m)).
  Proof.
    revert m. unfold decode_beatmap.
    apply (driver_invariant _ _ _ (bm_all good_tp good_dp range_ep range_sp)
             (bm_all_create _ _ _ _)
             (bm_all_step _ _ _ _ line_points_good)
             (fun ov => forall m, ov = Done m -> cp_ranges (hov_control_points (bmv_ho m)))).
    intros st Hst m. destruct st as [s|w|]; cbn [obind]; try discriminate.
    cbn [bm_all] in Hst. intros Hb.
    destruct (bmd_finish_inv dist_of s m Hb) as (_ & _ & _ & _ & Hh).
    destruct (hod_finish_inv dist_of _ _ Hh) as (_ & _ & _ & Htp & _).
    exact (flush_cp_all _ _ _ _ _ _ Htp Hst).
  Qed.
End WithDist.

Print Assumptions decoded_cp_ranges.

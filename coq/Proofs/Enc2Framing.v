(* Enc2Framing: C02 / T02a composed with the framing theorem (C05, T05a) and the projection
   theorems (C07): ONE statement about decoding the lines of an encoding.

     for every map m of the encoder's domain ([simple_ok], proved of every decoded map outside
     D23), every line list ls = encode_lines m, every formatting satisfying [fmt_ok]:
       decode_beatmap (map render ls) = Done m2  ==>
         format version, general, editor, metadata, difficulty, events (background, breaks)
         and colours of m2 are those of [read_back m]

   Steps: (1) the framing specification routes the lines of the encoding: the version line is
   the first non-blank line, every blank line is skipped, every header line switches the section
   and every body line is handed to the parser of its section ([route_encoding]); (2) a
   single-section decoder only sees the lines of its section ([feed_only]); (3) the Beatmap
   decoder's section is the single-section decoder's result (C07); (4) the section's lines,
   parsed from the default state, give [read_back] (T02a). *)
From RM Require Import Model.EncSpec Proofs.EncText Proofs.EncFmt Proofs.EncSimple Proofs.EncImage Proofs.EncEdit
     Proofs.EncRound Proofs.EncShape Proofs.FramingFacts Proofs.DecodersFacts Proofs.DecodersTotal Proofs.NumFacts.
From RM Require Import Gen.Generated.
From Coq Require Import ZifyBool.
Open Scope Z_scope.

(* ---------- routing ---------- *)

Definition tag (sec : section) (ls : list str) : list (section * str) := map (pair sec) ls.

Lemma route_body skip sec : forall b rest,
  Forall (fun l => section_of_line l = None /\ skip l = false) b ->
  route skip (Some sec) (b ++ rest) = tag sec b ++ route skip (Some sec) rest.
Proof.
  induction b as [|l r IH]; intros rest H; [reflexivity|].
  inversion H as [|? ? [H1 H2] Hr]; subst. cbn [app route tag map]. rewrite H2, H1. f_equal. apply IH. exact Hr.
Qed.

(* a blank line, then a header line *)
Lemma route_blank_header skip cur h s rest :
  skip [] = true -> skip h = false -> section_of_line h = Some s ->
  route skip cur ([] :: h :: rest) = route skip (Some s) rest.
Proof.
  intros H0 H1 H2. destruct cur as [c|]; cbn [route].
  - rewrite H0, H1, H2. reflexivity.
  - rewrite section_of_line_nil. cbn [route]. rewrite H2. reflexivity.
Qed.

Section Framing.
  Variables (fmt_f64 : F64 -> str) (fmt_f32 : F32 -> str) (fmt_int : Z -> str).
  Hypothesis Hfmt : fmt_ok fmt_f64 fmt_f32 fmt_int.
  Notation rline := (render fmt_f64 fmt_f32 fmt_int).

  Lemma header_not_skipped s : In s canonical_order -> should_skip_line (rline (header_tok s)) = false.
  Proof.
    intros H. exact (default_skip_keeps_headers _ s (header_recognised fmt_f64 fmt_f32 fmt_int s H)).
  Qed.

  (* one section of the encoding: blank line, header, body *)
  Lemma route_section cur s b rest : In s canonical_order ->
    Forall (fun l => body_line_ok (rline l) = true) b ->
    route should_skip_line cur (map rline ([] :: header_tok s :: b ++ rest)) =
    tag s (map rline b) ++ route should_skip_line (Some s) (map rline rest).
  Proof.
    intros Hs Hb. cbn [map]. change (rline []) with (@nil char).
    rewrite (route_blank_header should_skip_line cur _ s); [|reflexivity|exact (header_not_skipped s Hs)|
      exact (header_recognised fmt_f64 fmt_f32 fmt_int s Hs)].
    rewrite map_app. apply route_body.
    apply Forall_forall. intros l Hl. apply in_map_iff in Hl. destruct Hl as (x & <- & Hx).
    rewrite Forall_forall in Hb. exact (body_line_facts _ (Hb x Hx)).
  Qed.

  (* the version line *)
  Lemma version_of_enc v rest : i32_ok v = true ->
    version_of (map rline (enc_version v :: rest)) = v /\
    body_of (map rline (enc_version v :: rest)) = map rline rest.
  Proof.
    intros Hv. unfold version_of, body_of. cbn [map].
    assert (Hne : rline (enc_version v) = lit version_prefix ++ fmt_int v).
    { unfold enc_version, render. cbn [flat_map render_tok]. rewrite app_nil_r. reflexivity. }
    assert (Hvl : version_of_line (rline (enc_version v)) = Some v).
    { rewrite Hne. unfold version_of_line.
      assert (Hs : starts_with (lit version_prefix) (lit version_prefix ++ fmt_int v) = true).
      { unfold starts_with. rewrite strip_prefix_app_gen. reflexivity. }
      rewrite Hs.
      assert (E : lit version_prefix ++ fmt_int v = lit "osu file format " ++ letter_v :: fmt_int v) by reflexivity.
      rewrite E, (after_last_app letter_v).
      - exact (pn_i32_fmt _ _ _ Hfmt v Hv).
      - apply (plain_no letter_v _ (int_plain _ _ _ Hfmt v)). reflexivity. }
    assert (Hnb : is_blank (rline (enc_version v)) = false) by (rewrite Hne; reflexivity).
    cbn [drop_blank]. rewrite Hnb, Hvl. split; reflexivity.
  Qed.

  (* (1) the framing specification on the lines of an encoding *)
  Theorem route_encoding dist events m ls :
    encode_lines dist events m = Done ls -> i32_ok (bmv_version m) = true -> colors_ok (bmv_colors m) = true ->
    exists tp ho,
      let h := bmv_ho m in
      version_of (map rline ls) = bmv_version m /\
      route should_skip_line None (body_of (map rline ls)) =
        tag SecGeneral (map rline (body (enc_general (hov_general h) (hov_control_points h)))) ++
        tag SecEditor (map rline (body (enc_editor (bmv_editor m)))) ++
        tag SecMetadata (map rline (body (enc_metadata (bmv_metadata m)))) ++
        tag SecDifficulty (map rline (body (enc_difficulty (hov_difficulty h)))) ++
        tag SecEvents (map rline (body (enc_events (hov_events h)))) ++
        tag SecTimingPoints (map rline tp) ++
        tag SecColors (map rline (body (enc_colors (bmv_colors m)))) ++
        tag SecHitObjects (map rline ho).
  Proof.
    intros H Hv Hc. destruct (encode_shape dist events m ls H) as (tp & ho & Htp & Hho & ->).
    exists tp, ho. cbv zeta. cbn [app].
    match goal with |- context [map rline (enc_version ?v :: ?rest)] =>
      destruct (version_of_enc v rest Hv) as (E1 & E2) end.
    split; [exact E1|]. rewrite E2. clear E1 E2.
    assert (Eg : forall g c, enc_general g c = header_tok SecGeneral :: body (enc_general g c)) by reflexivity.
    assert (Ee : forall e, enc_editor e = header_tok SecEditor :: body (enc_editor e)) by reflexivity.
    assert (Em : forall x, enc_metadata x = header_tok SecMetadata :: body (enc_metadata x)) by reflexivity.
    assert (Ed : forall x, enc_difficulty x = header_tok SecDifficulty :: body (enc_difficulty x)) by reflexivity.
    assert (Ev : forall x, enc_events x = header_tok SecEvents :: body (enc_events x)) by reflexivity.
    assert (Ec : forall x, enc_colors x = header_tok SecColors :: body (enc_colors x)) by reflexivity.
    rewrite Eg, Ee, Em, Ed, Ev, Ec. rewrite <- (app_nil_r ho) at 1. cbn [app].
    rewrite (route_section None SecGeneral); [|cbn; tauto|apply general_body_lines]. f_equal.
    rewrite (route_section _ SecEditor); [|cbn; tauto|apply editor_body_lines]. f_equal.
    rewrite (route_section _ SecMetadata); [|cbn; tauto|apply metadata_body_lines]. f_equal.
    rewrite (route_section _ SecDifficulty); [|cbn; tauto|apply difficulty_body_lines]. f_equal.
    rewrite (route_section _ SecEvents); [|cbn; tauto|apply events_body_lines]. f_equal.
    rewrite (route_section _ SecTimingPoints); [|cbn; tauto|apply Forall_num_body, Htp]. f_equal.
    rewrite (route_section _ SecColors); [|cbn; tauto|apply colors_body_lines; [exact Hfmt|exact Hc]]. f_equal.
    rewrite (route_section _ SecHitObjects); [|cbn; tauto|apply Forall_num_body, Hho].
    cbn [map route]. rewrite app_nil_r. reflexivity.
    all: exact Hfmt.
  Qed.
End Framing.

(* ---------- (2) a single-section decoder only sees its own lines ---------- *)

Definition section_eq_dec (a b : section) : {a = b} + {a <> b}.
Proof. decide equality. Defined.
Definition section_eqb (a b : section) : bool := if section_eq_dec a b then true else false.

Section Only.
  Context {G : Type} (which : section) (p : G -> str -> G * res).
  Hypothesis Hwhich : In which [SecGeneral; SecEditor; SecMetadata; SecDifficulty; SecEvents; SecColors].

  Lemma parser_of_simple sec st l :
    fst (parser_of (simple_parsers which p) sec st l) = if section_eqb sec which then fst (p st l) else st.
  Proof.
    destruct Hwhich as [<-|[<-|[<-|[<-|[<-|[<-|[]]]]]]]; destruct sec; reflexivity.
  Qed.

  Lemma feed_tag sec ls : forall st,
    feed (simple_parsers which p) st (tag sec ls) = if section_eqb sec which then run_lines p st ls else st.
  Proof.
    induction ls as [|l r IH]; intros st; [destruct (section_eqb sec which); reflexivity|].
    cbn [tag map]. rewrite feed_cons, parser_of_simple. fold (tag sec r). rewrite IH.
    destruct (section_eqb sec which); reflexivity.
  Qed.
End Only.

(* a single-section decoder on a line list whose routing is known *)
Lemma simple_decoder_routed {G} (which : section) (p : G -> str -> G * res) (dflt : G) lines R :
  route should_skip_line None (body_of lines) = R ->
  driver (fun _ => dflt) (simple_parsers which p) (fun s => s) lines = feed (simple_parsers which p) dflt R.
Proof. intros H. rewrite driver_refines. change (skip (simple_parsers which p)) with should_skip_line. rewrite H. reflexivity. Qed.

(* ---------- the format version ---------- *)

Definition vinv (v : Z) (os : outcome BMD) : Prop :=
  match os with Done s => bmd_version s = v | _ => True end.

Lemma vinv_step v : forall sec os l, vinv v os -> vinv v (fst (parser_of bm_parsers sec os l)).
Proof.
  intros sec [s|w|] l H; [|destruct sec; exact I ..].
  cbn [vinv] in H.
  destruct sec; open_parsers; unwrap; repeat case_inner; cbn [vinv]; proj_simpl; try exact I; exact H.
Qed.

Lemma decoded_version dist lines m : decode_beatmap dist lines = Done m -> bmv_version m = version_of lines.
Proof.
  unfold decode_beatmap. rewrite driver_refines.
  pose proof (feed_invariant bm_parsers (vinv (version_of lines)) (vinv_step (version_of lines))
                (route (skip bm_parsers) None (body_of lines)) (Done (bmd_create (version_of lines))) eq_refl) as Hv.
  destruct (feed bm_parsers _ _) as [s|w|]; cbn [obind]; try discriminate.
  intros Hb. destruct (bmd_finish_inv dist s m Hb) as (E & _). rewrite E. exact Hv.
Qed.

(* ---------- (3) + (4): decoding the lines of an encoding ---------- *)

Section Composition.
  Variables (fmt_f64 : F64 -> str) (fmt_f32 : F32 -> str) (fmt_int : Z -> str).
  Hypothesis Hfmt : fmt_ok fmt_f64 fmt_f32 fmt_int.
  Notation rline := (render fmt_f64 fmt_f32 fmt_int).

  Ltac only_section :=
    rewrite !feed_app, !feed_tag by (cbn; tauto); cbn [section_eqb section_eq_dec section_rec section_rect]; reflexivity.

  Theorem encoding_simple_sections_decoded dist events m ls dist2 m2 :
    simple_ok m = true -> encode_lines dist events m = Done ls ->
    decode_beatmap dist2 (map rline ls) = Done m2 ->
    bmv_version m2 = bmv_version m /\
    hov_general (bmv_ho m2) = hov_general (bmv_ho (read_back m)) /\
    bmv_editor m2 = bmv_editor (read_back m) /\
    bmv_metadata m2 = bmv_metadata (read_back m) /\
    hov_difficulty (bmv_ho m2) = hov_difficulty (bmv_ho (read_back m)) /\
    hov_events (bmv_ho m2) = hov_events (bmv_ho (read_back m)) /\
    bmv_colors m2 = bmv_colors (read_back m).
  Proof.
    intros Hok He Hd.
    destruct (simple_ok_parts m Hok) as (Qv & _ & _ & _ & _ & _ & Qc & _).
    destruct (route_encoding fmt_f64 fmt_f32 fmt_int Hfmt dist events m ls He Qv Qc) as (tp & ho & Ev & Er).
    cbv zeta in Er.
    destruct (simple_sections_read_back fmt_f64 fmt_f32 fmt_int Hfmt m Hok) as (Rg & Re & Rm & Rd & Rv & Rc).
    split; [rewrite (decoded_version dist2 _ m2 Hd); exact Ev|].
    split; [rewrite (beatmap_general dist2 _ m2 Hd); unfold decode_general;
            rewrite (simple_decoder_routed SecGeneral parse_general general_default _ _ Er), <- Rg; only_section|].
    split; [rewrite (beatmap_editor dist2 _ m2 Hd); unfold decode_editor;
            rewrite (simple_decoder_routed SecEditor parse_editor editor_default _ _ Er), <- Re; only_section|].
    split; [rewrite (beatmap_metadata dist2 _ m2 Hd); unfold decode_metadata;
            rewrite (simple_decoder_routed SecMetadata parse_metadata metadata_default _ _ Er), <- Rm; only_section|].
    split; [rewrite (beatmap_difficulty dist2 _ m2 Hd); unfold decode_difficulty;
            rewrite (simple_decoder_routed SecDifficulty parse_difficulty difficulty_default _ _ Er), <- Rd; only_section|].
    split; [rewrite (beatmap_events dist2 _ m2 Hd); unfold decode_events;
            rewrite (simple_decoder_routed SecEvents parse_events events_default _ _ Er), <- Rv; only_section|].
    rewrite (beatmap_colors dist2 _ m2 Hd); unfold decode_colors;
      rewrite (simple_decoder_routed SecColors parse_colors colors_default _ _ Er), <- Rc; only_section.
  Qed.

  (* ... for the maps obtained by decoding (outside D23) *)
  Corollary decoded_encoding_simple_sections dist events lines m ls dist2 m2 :
    Forall no_lf_line lines -> decode_beatmap dist lines = Done m -> d23_class m = false ->
    encode_lines dist events m = Done ls ->
    decode_beatmap dist2 (map rline ls) = Done m2 ->
    bmv_version m2 = bmv_version m /\
    hov_general (bmv_ho m2) = hov_general (bmv_ho (read_back m)) /\
    bmv_editor m2 = bmv_editor (read_back m) /\
    bmv_metadata m2 = bmv_metadata (read_back m) /\
    hov_difficulty (bmv_ho m2) = hov_difficulty (bmv_ho (read_back m)) /\
    hov_events (bmv_ho m2) = hov_events (bmv_ho (read_back m)) /\
    bmv_colors m2 = bmv_colors (read_back m).
  Proof.
    intros Hl Hd H23. exact (encoding_simple_sections_decoded dist events m ls dist2 m2 (decode_image_inv dist lines m Hl Hd H23)).
  Qed.
End Composition.

Print Assumptions decoded_encoding_simple_sections.

(* BezierTermination: T01g -- termination of the Bezier subdivision loop of
   approximate_bspline (the `while let Some(parent) = to_flatten.pop()` loop).

   1. What binary fuel means: [iterP step p k s] performs exactly
      [Pos.to_nat p] steps ([iterP_run]); so a loop that stops within n steps
      returns its result for every fuel >= n.
   2. The loop as a stack machine over any point type ([bstep_g]; the model's
      [bspline_step1] is the IEEE binary32 instance, by reflexivity).  If the
      subdivision tree below an array is flat at depth <= d ([within d]), the
      loop pops it after at most 2^(d+1) - 1 iterations ([within_run]) and
      the whole loop returns within 2^(d+1) iterations.
      For the model: [within 19 points] => approximate_bezier_L1 with the
      pinned fuel 2^20 is [Done] -- an IEEE statement, for NaN / infinite
      coordinates too.
   3. Exact arithmetic (points in R x R): the second differences of either
      child are averages of the parent's second differences, scaled by 1/4
      ([dd_left], [dd_right], [B2_left], [B2_right]).  Hence if every
      ||P_i - 2 P_i+1 + P_i+2|| <= M and M <= 4^d / 2 (the flatness test is
      ||.||^2 > 0.25, i.e. ||.|| > 0.5), the tree is flat at depth d: the loop
      runs at most 2^(d+1) iterations ([T01g_exact]).
   4. IEEE, restricted classes ([..._partial]): segments of one or two
      control points are flat immediately; so are segments whose second
      differences all evaluate to NaN or to something not above the limit.
   NOT proved (the gap named in DESIGN C01 T01g): that binary32 rounding cannot
   stall the flatness test for arbitrary finite coordinates. *)
From RM Require Import Model.ControlPoints Model.Curve Proofs.BezierRefine Proofs.PathFacts
     Proofs.DeCasteljau.
From Coq Require Import Reals Lra Lia.
Open Scope nat_scope.

(* ------------------------------------------------------------------ *)
(* 1. binary fuel = a number of steps                                  *)

Section Run.
  Context {St Res : Type} (step : St -> St + outcome Res).

  Fixpoint run (n : nat) (s : St) : St + outcome Res :=
    match n with
    | O => inl s
    | S n' => match step s with inl s' => run n' s' | inr r => inr r end
    end.

  Definition cont (k : St -> outcome Res) (x : St + outcome Res) : outcome Res :=
    match x with inl s => k s | inr r => r end.

  Lemma run_add n : forall m s,
    run (n + m) s = match run n s with inl s' => run m s' | inr r => inr r end.
  Proof.
    induction n as [|n IH]; intros m s; [reflexivity|].
    cbn [Nat.add run]. destruct (step s) as [s'|r]; [apply IH|reflexivity].
  Qed.

  Lemma cont_ext k1 k2 x : (forall s, k1 s = k2 s) -> cont k1 x = cont k2 x.
  Proof. intros H. destruct x; [apply H|reflexivity]. Qed.

  Lemma iterP_run p : forall k s, iterP step p k s = cont k (run (Pos.to_nat p) s).
  Proof.
    induction p as [q IH|q IH|]; intros k s.
    - rewrite Pos2Nat.inj_xI. cbn [iterP]. change (S (2 * Pos.to_nat q)) with (1 + 2 * Pos.to_nat q).
      replace (1 + 2 * Pos.to_nat q) with (S (Pos.to_nat q + Pos.to_nat q)) by lia.
      cbn [run]. destruct (step s) as [s'|r]; [|reflexivity].
      rewrite IH, run_add. destruct (run (Pos.to_nat q) s') as [s2|r]; cbn [cont]; [apply IH|reflexivity].
    - rewrite Pos2Nat.inj_xO. cbn [iterP].
      replace (2 * Pos.to_nat q) with (Pos.to_nat q + Pos.to_nat q) by lia.
      rewrite IH, run_add. destruct (run (Pos.to_nat q) s) as [s2|r]; cbn [cont]; [apply IH|reflexivity].
    - cbn [iterP]. change (Pos.to_nat 1) with 1. cbn [run]. destruct (step s); reflexivity.
  Qed.

  Lemma run_stop n m s r : run n s = inr r -> n <= m -> run m s = inr r.
  Proof. intros H Hle. replace m with (n + (m - n)) by lia. rewrite run_add, H. reflexivity. Qed.

  (* a loop that stops within n steps returns for every fuel >= n *)
  Lemma iter_fuel_run p s n r : run n s = inr r -> n <= Pos.to_nat p -> iter_fuel step p s = r.
  Proof.
    intros H Hle. unfold iter_fuel. rewrite iterP_run, (run_stop n _ s r H Hle). reflexivity.
  Qed.

  (* ... and conversely, fuel is only ever exhausted after exactly that many steps *)
  Lemma iter_fuel_out p s : iter_fuel step p s = OutOfFuel ->
    (exists s', run (Pos.to_nat p) s = inl s') \/ run (Pos.to_nat p) s = inr OutOfFuel.
  Proof.
    unfold iter_fuel. rewrite iterP_run. destruct (run (Pos.to_nat p) s) as [s'|r]; cbn [cont]; intros H.
    - left. eauto.
    - right. rewrite H. reflexivity.
  Qed.
End Run.

(* ------------------------------------------------------------------ *)
(* 2. the loop over any point type                                     *)

Section GenericLoop.
  Context {P : Type}.
  Variable flat : list P -> bool.
  Variable sub : list P -> list P * list P.
  Variable emit : list P -> list P.

  Definition bstep_g (st : list (list P) * list P)
    : (list (list P) * list P) + outcome (list P) :=
    match fst st with
    | [] => inr (Done (snd st))
    | parent :: rest =>
        match parent with
        | [] => inr (Panic 2)
        | _ =>
            if flat parent then inl (rest, snd st ++ emit parent)
            else let '(l, r) := sub parent in inl (l :: r :: rest, snd st)
        end
    end.

  (* the subdivision tree below c is flat at depth <= d *)
  Fixpoint within (d : nat) (c : list P) : Prop :=
    c <> [] /\
    (flat c = true \/
     match d with
     | O => False
     | S d' => within d' (fst (sub c)) /\ within d' (snd (sub c))
     end).

  Lemma within_mono d : forall c d', within d c -> d <= d' -> within d' c.
  Proof.
    induction d as [|d IH]; intros c d' [Hne H] Hle.
    - destruct H as [H|[]]. destruct d'; (split; [exact Hne|left; exact H]).
    - destruct d' as [|d']; [lia|]. split; [exact Hne|].
      destruct H as [H|[H1 H2]]; [left; exact H|right].
      split; apply IH; try assumption; lia.
  Qed.

  (* iterations needed to dispose of one array: at most 2^(d+1) - 1 *)
  Lemma within_run d : forall c rest path, within d c ->
    exists n path', 1 <= n /\ n + 1 <= 2 ^ S d /\
      forall m, run bstep_g (n + m) (c :: rest, path) = run bstep_g m (rest, path').
  Proof.
    induction d as [|d IH]; intros c rest path [Hne H].
    - destruct H as [H|[]]. exists 1, (path ++ emit c). split; [lia|]. split; [cbn; lia|].
      intros m. cbn [Nat.add run]. unfold bstep_g at 1. cbn [fst snd]. rewrite H.
      destruct c; [congruence|reflexivity].
    - destruct (flat c) eqn:Ef.
      + exists 1, (path ++ emit c). split; [lia|]. split; [change (2 ^ S (S d)) with (2 * 2 ^ S d); pose proof (Nat.pow_nonzero 2 (S d)); lia|].
        intros m. cbn [Nat.add run]. unfold bstep_g at 1. cbn [fst snd]. rewrite Ef.
        destruct c; [congruence|reflexivity].
      + destruct H as [H|[H1 H2]]; [congruence|].
        destruct (sub c) as [l r] eqn:Es. cbn [fst snd] in H1, H2.
        destruct (IH l (r :: rest) path H1) as (n1 & p1 & Hn1 & Hc1 & R1).
        destruct (IH r rest p1 H2) as (n2 & p2 & Hn2 & Hc2 & R2).
        exists (1 + (n1 + n2)), p2. split; [lia|]. split; [change (2 ^ S (S d)) with (2 * 2 ^ S d); lia|].
        intros m. cbn [Nat.add run]. unfold bstep_g at 1. cbn [fst snd]. rewrite Ef, Es.
        destruct c; [congruence|].
        rewrite <- Nat.add_assoc, R1, R2. reflexivity.
  Qed.

  (* the whole loop, started on one array *)
  Theorem loop_terminates d c path : within d c ->
    exists n path', n <= 2 ^ S d /\ run bstep_g n ([c], path) = inr (Done path').
  Proof.
    intros H. destruct (within_run d c [] path H) as (n & p' & Hn & Hc & R).
    exists (n + 1), p'. split; [exact Hc|]. rewrite R. reflexivity.
  Qed.
End GenericLoop.

(* ---------- the model is the IEEE instance ---------- *)

Definition sub32 (m : list Pos) : list Pos * list Pos := subdiv (length m) m.

Lemma model_bspline_step st : bspline_step1 st = bstep_g flat_enough sub32 bezier_approx_pts st.
Proof. reflexivity. Qed.

Definition within32 : nat -> list Pos -> Prop := within flat_enough sub32.

(* IEEE: a segment whose subdivision tree is flat at depth d needs fuel 2^(d+1) *)
Theorem approximate_bezier_L1_within d fuel path points :
  within32 d points -> 2 ^ S d <= Pos.to_nat fuel ->
  exists path', approximate_bezier_L1 fuel path points tt = Done (path', tt).
Proof.
  intros H Hf. destruct (loop_terminates flat_enough sub32 bezier_approx_pts d points path H)
    as (n & p' & Hn & R).
  unfold approximate_bezier_L1.
  rewrite (iter_fuel_run bspline_step1 fuel ([points], path) n (Done p')); [|exact R|lia].
  cbn [obind]. assert (Hne : points <> []) by (destruct d; exact (proj1 H)).
  destruct points; [congruence|]. eexists. reflexivity.
Qed.

Lemma bezier_fuel_steps : Pos.to_nat bezier_fuel = 2 ^ 20.
Proof.
  change bezier_fuel with (2 ^ 20)%positive. rewrite Pos2Nat.inj_pow.
  change (Pos.to_nat 2) with 2. change (Pos.to_nat 20) with 20. reflexivity.
Qed.

(* with the pinned fuel: depth 19 *)
Corollary approximate_bezier_L1_depth19 path points :
  within32 19 points -> exists path', approximate_bezier_L1 bezier_fuel path points tt = Done (path', tt).
Proof.
  intros H. apply (approximate_bezier_L1_within 19); [exact H|].
  rewrite bezier_fuel_steps. apply Nat.le_refl.
Qed.

(* ---------- IEEE, restricted classes ---------- *)

(* one or two control points: no second difference, flat immediately; every fuel >= 2 *)
Theorem bezier_two_points_partial fuel path a b :
  (2 <= Pos.to_nat fuel) ->
  approximate_bezier_L1 fuel path [a; b] tt = Done (path ++ bezier_approx_pts [a; b] ++ [b], tt).
Proof.
  intros Hf. unfold approximate_bezier_L1.
  rewrite (iter_fuel_run bspline_step1 fuel _ 2 (Done (path ++ bezier_approx_pts [a; b]))); [|reflexivity|exact Hf].
  cbn [obind last]. rewrite <- app_assoc. reflexivity.
Qed.

Theorem bezier_one_point_partial fuel path a :
  (2 <= Pos.to_nat fuel) ->
  approximate_bezier_L1 fuel path [a] tt = Done (path ++ bezier_approx_pts [a] ++ [a], tt).
Proof.
  intros Hf. unfold approximate_bezier_L1.
  rewrite (iter_fuel_run bspline_step1 fuel _ 2 (Done (path ++ bezier_approx_pts [a]))); [|reflexivity|exact Hf].
  cbn [obind last]. rewrite <- app_assoc. reflexivity.
Qed.

(* any segment that passes the flatness test as given (e.g. all second
   differences NaN, or all control points equal and finite): two iterations *)
Theorem bezier_flat_partial fuel path points :
  points <> [] -> flat_enough points = true -> (2 <= Pos.to_nat fuel) ->
  approximate_bezier_L1 fuel path points tt
  = Done (path ++ bezier_approx_pts points ++ [last points pos0], tt).
Proof.
  intros Hne Hflat Hf. unfold approximate_bezier_L1.
  rewrite (iter_fuel_run bspline_step1 fuel _ 2 (Done (path ++ bezier_approx_pts points))); [| |exact Hf].
  - cbn [obind]. destruct points; [congruence|]. rewrite <- app_assoc. reflexivity.
  - cbn [run]. unfold bspline_step1 at 1. cbn [fst snd]. rewrite Hflat.
    destruct points; [congruence|]. reflexivity.
Qed.

(* ------------------------------------------------------------------ *)
(* 3. exact arithmetic                                                 *)

(* the flatness test, written once over a point type: the model is the
   binary32 instance (by reflexivity), [flat_R] below the real one *)
Section FlatG.
  Context {P : Type} (far : P -> P -> P -> bool).
  Fixpoint flat_g (pts : list P) : bool :=
    match pts with
    | prev :: ((curr :: next :: _) as t) => if far prev curr next then false else flat_g t
    | _ => true
    end.
End FlatG.

Definition far32 (prev curr next : Pos) : bool :=
  S.gt (plen_sq (padd (psub prev (pmul curr s2)) next)) bezier_limit.

Lemma model_flat pts : flat_enough pts = flat_g far32 pts.
Proof. reflexivity. Qed.

(* BEZIER_TOLERANCE * BEZIER_TOLERANCE * 4.0 = 0.25f32 = 0x3E800000 *)
Lemma bezier_limit_bits : S.bits bezier_limit = 1048576000%Z.
Proof. vm_compute. reflexivity. Qed.

(* homomorphisms (coordinate projections) commute with the subdivision *)
Section Hom.
  Context {T U : Type} (avgT : T -> T -> T) (avgU : U -> U -> U) (dT : T) (dU : U) (h : T -> U).
  Hypothesis h_avg : forall a b, h (avgT a b) = avgU (h a) (h b).
  Hypothesis h_d : h dT = dU.

  Lemma map_avg_step m : map h (avg_step_g avgT m) = avg_step_g avgU (map h m).
  Proof.
    induction m as [|a|a b r IH] using list_ind2; try reflexivity.
    change (avg_step_g avgT (a :: b :: r)) with (avgT a b :: avg_step_g avgT (b :: r)).
    change (map h (a :: b :: r)) with (h a :: h b :: map h r).
    change (avg_step_g avgU (h a :: h b :: map h r)) with (avgU (h a) (h b) :: avg_step_g avgU (map h (b :: r))).
    cbn [map]. rewrite h_avg. f_equal. exact IH.
  Qed.

  Lemma map_hd m : h (hd dT m) = hd dU (map h m).
  Proof. destruct m; [exact h_d|reflexivity]. Qed.

  Lemma map_last m : h (last m dT) = last (map h m) dU.
  Proof.
    induction m as [|a|a b r IH] using list_ind2; [exact h_d|reflexivity|].
    change (last (a :: b :: r) dT) with (last (b :: r) dT). rewrite IH. reflexivity.
  Qed.

  Lemma map_subdiv n : forall m,
    map h (fst (subdiv_g avgT dT n m)) = fst (subdiv_g avgU dU n (map h m)) /\
    map h (snd (subdiv_g avgT dT n m)) = snd (subdiv_g avgU dU n (map h m)).
  Proof.
    induction n as [|n IH]; intros m; [split; reflexivity|].
    cbn [subdiv_g]. specialize (IH (avg_step_g avgT m)). rewrite map_avg_step in IH.
    destruct (subdiv_g avgT dT n (avg_step_g avgT m)) as [l r].
    destruct (subdiv_g avgU dU n (avg_step_g avgU (map h m))) as [l' r'].
    cbn [fst snd] in *. destruct IH as [IH1 IH2]. split.
    - cbn [map]. rewrite map_hd, IH1. reflexivity.
    - rewrite map_app. cbn [map]. rewrite map_last, IH2. reflexivity.
  Qed.
End Hom.

Open Scope R_scope.

(* first and second differences *)
Fixpoint diff (m : list R) : list R :=
  match m with
  | a :: ((b :: _) as t) => (b - a) :: diff t
  | _ => []
  end.

Fixpoint dd (m : list R) : list R :=
  match m with
  | a :: ((b :: c :: _) as t) => (a - 2 * b + c) :: dd t
  | _ => []
  end.

Lemma diff_cons2 a b r : diff (a :: b :: r) = (b - a) :: diff (b :: r).
Proof. reflexivity. Qed.
Lemma dd_cons3 a b c r : dd (a :: b :: c :: r) = (a - 2 * b + c) :: dd (b :: c :: r).
Proof. reflexivity. Qed.

Lemma dd_diff m : dd m = diff (diff m).
Proof.
  induction m as [|a|a b r IH] using list_ind2; try reflexivity.
  destruct r as [|c r]; [reflexivity|].
  rewrite dd_cons3, IH, !diff_cons2. f_equal. ring.
Qed.

Lemma diff_length m : length (diff m) = pred (length m).
Proof.
  induction m as [|a|a b r IH] using list_ind2; try reflexivity.
  rewrite diff_cons2. cbn [length pred] in *. rewrite IH. reflexivity.
Qed.

Lemma A_length m : length (A m) = pred (length m).
Proof. apply lstep_length. Qed.

(* averaging commutes with differencing *)
Lemma diff_A m : diff (A m) = A (diff m).
Proof.
  unfold A. induction m as [|a|a b r IH] using list_ind2; try reflexivity.
  destruct r as [|c r]; [reflexivity|].
  change (lstep (1 / 2) (a :: b :: c :: r))
    with (((1 - 1 / 2) * a + 1 / 2 * b) :: ((1 - 1 / 2) * b + 1 / 2 * c) :: lstep (1 / 2) (c :: r)).
  rewrite diff_cons2.
  change (((1 - 1 / 2) * b + 1 / 2 * c) :: lstep (1 / 2) (c :: r)) with (lstep (1 / 2) (b :: c :: r)).
  rewrite IH.
  change (diff (a :: b :: c :: r)) with ((b - a) :: (c - b) :: diff (c :: r)).
  rewrite lstep_cons2. change ((c - b) :: diff (c :: r)) with (diff (b :: c :: r)).
  f_equal. field.
Qed.

Definition half (x : R) : R := x / 2.

Lemma diff_map_half m : diff (map half m) = map half (diff m).
Proof.
  induction m as [|a|a b r IH] using list_ind2; try reflexivity.
  change (map half (a :: b :: r)) with (half a :: half b :: map half r).
  rewrite !diff_cons2. cbn [map]. change (half b :: map half r) with (map half (b :: r)).
  rewrite IH. f_equal. unfold half. field.
Qed.

Lemma left_length n : forall m, length (left n m) = n.
Proof. induction n as [|n IH]; intros m; [reflexivity|]. cbn [left length]. rewrite IH. reflexivity. Qed.

(* the differences of the left polygon: half the left polygon of the differences *)
Lemma diff_left n : forall m, length m = S n -> diff (left (S n) m) = map half (left n (diff m)).
Proof.
  induction n as [|n IH]; intros m H; [reflexivity|].
  destruct m as [|a [|b r]]; try discriminate H.
  assert (HA : length (A (a :: b :: r)) = S n) by (rewrite A_length, H; reflexivity).
  change (left (S (S n)) (a :: b :: r)) with (a :: left (S n) (A (a :: b :: r))).
  change (left (S n) (A (a :: b :: r))) with (hd 0 (A (a :: b :: r)) :: left n (A (A (a :: b :: r)))) at 1.
  rewrite diff_cons2.
  change (hd 0 (A (a :: b :: r)) :: left n (A (A (a :: b :: r)))) with (left (S n) (A (a :: b :: r))).
  rewrite (IH _ HA), diff_A.
  change (left (S n) (diff (a :: b :: r))) with (hd 0 (diff (a :: b :: r)) :: left n (A (diff (a :: b :: r)))).
  cbn [map]. f_equal. unfold A. rewrite lstep_cons2, diff_cons2. cbn [hd]. unfold half. field.
Qed.

Lemma diff_snoc m x y : diff ((m ++ [x]) ++ [y]) = diff (m ++ [x]) ++ [y - x].
Proof.
  induction m as [|a|a b r IH] using list_ind2; try reflexivity.
  change (((a :: b :: r) ++ [x]) ++ [y]) with (a :: ((b :: r) ++ [x]) ++ [y]).
  change ((a :: b :: r) ++ [x]) with (a :: (b :: r) ++ [x]).
  change (((b :: r) ++ [x]) ++ [y]) with (b :: (r ++ [x]) ++ [y]).
  change ((b :: r) ++ [x]) with (b :: r ++ [x]).
  rewrite !diff_cons2.
  change (b :: (r ++ [x]) ++ [y]) with (((b :: r) ++ [x]) ++ [y]).
  change (b :: r ++ [x]) with ((b :: r) ++ [x]).
  rewrite IH. reflexivity.
Qed.

Lemma diff_right n : forall m, length m = S n -> diff (right (S n) m) = map half (right n (diff m)).
Proof.
  induction n as [|n IH]; intros m H; [reflexivity|].
  destruct (split_last2 m n H) as (m' & x & y & ->).
  set (m := (m' ++ [x]) ++ [y]) in *.
  assert (HA : length (A m) = S n) by (rewrite A_length, H; reflexivity).
  change (right (S (S n)) m) with (right (S n) (A m) ++ [last m 0]).
  change (right (S n) (A m)) with (right n (A (A m)) ++ [last (A m) 0]) at 1.
  rewrite diff_snoc.
  change (right n (A (A m)) ++ [last (A m) 0]) with (right (S n) (A m)).
  rewrite (IH _ HA), diff_A.
  change (right (S n) (diff m)) with (right n (A (diff m)) ++ [last (diff m) 0]).
  rewrite map_app. f_equal. cbn [map]. f_equal.
  unfold m at 1. rewrite last_last. unfold m at 1. unfold A. rewrite last_lstep.
  unfold m. rewrite diff_snoc, last_last. unfold half. field.
Qed.

Definition quarter (x : R) : R := half (half x).

(* T01g, the algebraic core: the second differences of either child are
   those of the parent, averaged (left / right of the same construction) and
   scaled by 1/4 *)
Theorem dd_left k m : length m = S (S k) -> dd (left (S (S k)) m) = map quarter (left k (dd m)).
Proof.
  intros H. rewrite !dd_diff, (diff_left _ m H), diff_map_half.
  rewrite diff_left by (rewrite diff_length, H; reflexivity).
  rewrite map_map. reflexivity.
Qed.

Theorem dd_right k m : length m = S (S k) -> dd (right (S (S k)) m) = map quarter (right k (dd m)).
Proof.
  intros H. rewrite !dd_diff, (diff_right _ m H), diff_map_half.
  rewrite diff_right by (rewrite diff_length, H; reflexivity).
  rewrite map_map. reflexivity.
Qed.

(* ---------- bounds: pairs (x_i, y_i) of Euclidean norm <= M ---------- *)

Definition B2 (M : R) (X Y : list R) : Prop := Forall2 (fun x y => x * x + y * y <= M * M) X Y.

Lemma avg_norm M x y x2 y2 : x * x + y * y <= M * M -> x2 * x2 + y2 * y2 <= M * M ->
  ((1 - 1 / 2) * x + 1 / 2 * x2) * ((1 - 1 / 2) * x + 1 / 2 * x2) +
  ((1 - 1 / 2) * y + 1 / 2 * y2) * ((1 - 1 / 2) * y + 1 / 2 * y2) <= M * M.
Proof.
  intros H1 H2. pose proof (Rle_0_sqr (x - x2)) as Hx. pose proof (Rle_0_sqr (y - y2)) as Hy.
  unfold Rsqr in *. nra.
Qed.

Lemma B2_A M X Y : B2 M X Y -> B2 M (A X) (A Y).
Proof.
  unfold B2, A. induction 1 as [|x y X' Y' Hxy HF IH]; [constructor|].
  inversion HF as [|x2 y2 X2 Y2 H2 HF2]; subst; [constructor|].
  rewrite !lstep_cons2. constructor; [apply avg_norm; assumption|exact IH].
Qed.

Lemma B2_zero M : 0 * 0 + 0 * 0 <= M * M.
Proof. pose proof (Rle_0_sqr M) as H. unfold Rsqr in H. lra. Qed.

Lemma B2_hd M X Y : B2 M X Y -> hd 0 X * hd 0 X + hd 0 Y * hd 0 Y <= M * M.
Proof. intros [|x y X' Y' H _]; [apply B2_zero|exact H]. Qed.

Lemma B2_last M X Y : B2 M X Y -> last X 0 * last X 0 + last Y 0 * last Y 0 <= M * M.
Proof.
  unfold B2. induction 1 as [|x y X' Y' Hxy HF IH]; [apply B2_zero|].
  inversion HF; subst; [exact Hxy|exact IH].
Qed.

Lemma B2_left M n : forall X Y, B2 M X Y -> B2 M (left n X) (left n Y).
Proof.
  induction n as [|n IH]; intros X Y H; [constructor|].
  cbn [left]. constructor; [apply B2_hd; exact H|]. apply IH. apply B2_A. exact H.
Qed.

Lemma B2_right M n : forall X Y, B2 M X Y -> B2 M (right n X) (right n Y).
Proof.
  induction n as [|n IH]; intros X Y H; [constructor|].
  cbn [right]. apply Forall2_app; [apply IH; apply B2_A; exact H|].
  constructor; [apply B2_last; exact H|constructor].
Qed.

Lemma B2_quarter M X Y : B2 M X Y -> B2 (M / 4) (map quarter X) (map quarter Y).
Proof.
  unfold B2. induction 1 as [|x y X' Y' Hxy HF IH]; [constructor|].
  cbn [map]. constructor; [|exact IH]. unfold quarter, half.
  replace (x / 2 / 2 * (x / 2 / 2) + y / 2 / 2 * (y / 2 / 2)) with ((x * x + y * y) / 16) by field.
  replace (M / 4 * (M / 4)) with (M * M / 16) by field. lra.
Qed.

Lemma dd_left_B2 M n X Y : length X = n -> length Y = n ->
  B2 M (dd X) (dd Y) -> B2 (M / 4) (dd (left n X)) (dd (left n Y)).
Proof.
  intros HX HY H. destruct n as [|[|k]]; try constructor.
  rewrite (dd_left k X HX), (dd_left k Y HY). apply B2_quarter, B2_left. exact H.
Qed.

Lemma dd_right_B2 M n X Y : length X = n -> length Y = n ->
  B2 M (dd X) (dd Y) -> B2 (M / 4) (dd (right n X)) (dd (right n Y)).
Proof.
  intros HX HY H. destruct n as [|[|k]]; try constructor.
  rewrite (dd_right k X HX), (dd_right k Y HY). apply B2_quarter, B2_right. exact H.
Qed.

(* ---------- the loop over points of the real plane ---------- *)

Definition RP : Type := (R * R)%type.
Definition avgRR (a b : RP) : RP := (avgR (fst a) (fst b), avgR (snd a) (snd b)).
Definition zeroRR : RP := (0, 0).
(* (prev - curr * 2 + next).length_squared() > limit, limit = 0.25 *)
Definition far_R (prev curr next : RP) : bool :=
  if Rlt_dec (1 / 4)
       ((fst prev - 2 * fst curr + fst next) * (fst prev - 2 * fst curr + fst next) +
        (snd prev - 2 * snd curr + snd next) * (snd prev - 2 * snd curr + snd next))
  then true else false.
Definition flat_R : list RP -> bool := flat_g far_R.
Definition sub_R (m : list RP) : list RP * list RP := subdiv_g avgRR zeroRR (length m) m.

Lemma sub_R_fst m :
  map fst (fst (sub_R m)) = left (length m) (map fst m) /\
  map fst (snd (sub_R m)) = right (length m) (map fst m).
Proof.
  unfold sub_R.
  pose proof (map_subdiv avgRR avgR zeroRR 0 fst (fun a b => eq_refl) eq_refl (length m) m) as [H1 H2].
  split.
  - exact (eq_trans H1 (f_equal fst (subdiv_left_right (length m) (map fst m)))).
  - exact (eq_trans H2 (f_equal snd (subdiv_left_right (length m) (map fst m)))).
Qed.

Lemma sub_R_snd m :
  map snd (fst (sub_R m)) = left (length m) (map snd m) /\
  map snd (snd (sub_R m)) = right (length m) (map snd m).
Proof.
  unfold sub_R.
  pose proof (map_subdiv avgRR avgR zeroRR 0 snd (fun a b => eq_refl) eq_refl (length m) m) as [H1 H2].
  split.
  - exact (eq_trans H1 (f_equal fst (subdiv_left_right (length m) (map snd m)))).
  - exact (eq_trans H2 (f_equal snd (subdiv_left_right (length m) (map snd m)))).
Qed.

Lemma flat_R_of_B2 M : forall c, B2 M (dd (map fst c)) (dd (map snd c)) -> M * M <= 1 / 4 ->
  flat_R c = true.
Proof.
  intros c H HM. induction c as [|p|p q r IH] using list_ind2; try reflexivity.
  destruct r as [|s r]; [reflexivity|].
  change (map fst (p :: q :: s :: r)) with (fst p :: fst q :: fst s :: map fst r) in H.
  change (map snd (p :: q :: s :: r)) with (snd p :: snd q :: snd s :: map snd r) in H.
  rewrite !dd_cons3 in H. inversion H as [|? ? ? ? Hh Ht]; subst.
  change (flat_R (p :: q :: s :: r)) with (if far_R p q s then false else flat_R (q :: s :: r)).
  unfold far_R. destruct (Rlt_dec _ _) as [Hlt|_]; [lra|]. apply IH. exact Ht.
Qed.

Definition within_R : nat -> list RP -> Prop := within flat_R sub_R.

(* if every || P_i - 2 P_i+1 + P_i+2 || <= M and M <= 4^d / 2, the
   subdivision tree is flat at depth d *)
Theorem within_exact d : forall (c : list RP) M,
  c <> [] -> B2 M (dd (map fst c)) (dd (map snd c)) -> 0 <= M -> M <= 4 ^ d / 2 ->
  within_R d c.
Proof.
  induction d as [|d IH]; intros c M Hne HB H0 HM.
  - split; [exact Hne|]. left. apply (flat_R_of_B2 M); [exact HB|].
    cbn [pow] in HM. nra.
  - split; [exact Hne|]. right.
    destruct (sub_R_fst c) as [F1 F2]. destruct (sub_R_snd c) as [S1 S2].
    assert (Hlen : (1 <= length c)%nat) by (destruct c; [congruence|cbn [length]; lia]).
    assert (HM' : M / 4 <= 4 ^ d / 2) by (cbn [pow] in HM; lra).
    assert (H0' : 0 <= M / 4) by lra.
    split.
    + apply (IH _ (M / 4)); try assumption.
      * intros E. rewrite E in F1. cbn [map] in F1.
        apply (f_equal (@length R)) in F1. rewrite left_length in F1. cbn [length] in F1. lia.
      * rewrite F1, S1. apply dd_left_B2; try (apply map_length). exact HB.
    + apply (IH _ (M / 4)); try assumption.
      * intros E. rewrite E in F2. cbn [map] in F2.
        apply (f_equal (@length R)) in F2. rewrite right_length in F2. cbn [length] in F2. lia.
      * rewrite F2, S2. apply dd_right_B2; try (apply map_length). exact HB.
Qed.

(* T01g in exact arithmetic: the loop returns after at most 2^(d+1)
   iterations, d = ceil(log4(M / 0.5)) *)
Theorem T01g_exact d (c : list RP) M path (emit : list RP -> list RP) :
  c <> [] -> B2 M (dd (map fst c)) (dd (map snd c)) -> 0 <= M -> M <= 4 ^ d / 2 ->
  exists n path', (n <= 2 ^ S d)%nat /\
    run (bstep_g flat_R sub_R emit) n ([c], path) = inr (Done path').
Proof.
  intros Hne HB H0 HM. apply loop_terminates. exact (within_exact d c M Hne HB H0 HM).
Qed.

(* with the fuel of the model: enough for M <= 4^19 / 2 = 2^37 *)
Corollary T01g_exact_fuel (c : list RP) M path (emit : list RP -> list RP) :
  c <> [] -> B2 M (dd (map fst c)) (dd (map snd c)) -> 0 <= M -> M <= 4 ^ 19 / 2 ->
  exists path', iter_fuel (bstep_g flat_R sub_R emit) bezier_fuel ([c], path) = Done path'.
Proof.
  intros Hne HB H0 HM. destruct (T01g_exact 19 c M path emit Hne HB H0 HM) as (n & p' & Hn & R).
  exists p'. apply (iter_fuel_run _ _ _ n); [exact R|]. rewrite bezier_fuel_steps. exact Hn.
Qed.

(* not vacuous: the control polygon (0,0) (1,0) (0,0) has one second
   difference (-2, 0); M = 2 <= 4^1 / 2: at most 4 iterations *)
Example T01g_exact_example path emit :
  exists n path', (n <= 4)%nat /\
    run (bstep_g flat_R sub_R emit) n ([[(0, 0); (1, 0); (0, 0)]], path) = inr (Done path').
Proof.
  apply (T01g_exact 1 [(0, 0); (1, 0); (0, 0)] 2); [discriminate| |lra|cbn [pow]; lra].
  cbn [map fst snd]. rewrite !dd_cons3. constructor; [|constructor]. lra.
Qed.

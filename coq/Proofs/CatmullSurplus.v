(* CatmullSurplus: the curve distance of an osu!-mode Catmull slider is not
   negative, for bounded inputs (closes [neg_dist_class] for them).

   calculate_path hands calculate_length the path and the surplus [opt]; the
   invariant of CatmullSurplusLoop, carried through calculate_path's loop
   over the segments (Linear / PerfectCurve / B-spline segments and non-osu!
   Catmull segments only extend the path; the joint vertex `skip_first`
   drops equals its neighbour numerically, which keeps the length of the
   following segment), gives
        - opt <= (3/4 + 2 c u) * (sum of the segment lengths of the path)
   and CatmullSurplusFold turns that into "the natural length is not
   negative", hence (CurveDistNonneg) the distance is not negative for every
   requested length that is absent or positive.

   Hypotheses ([catmull_hyp]): every sub-path approximate_catmull produces
   for an osu!-mode Catmull segment of the control-point list has finite
   vertices with |c| <= 2^20 and consecutive vertices that are numerically
   equal or at least 2^-60 apart (no underflow in the binary32 step
   lengths); those sub-paths have at most 2^30 - 1 vertices in total and the
   computed path has at most 2^30 vertices. *)
From RM Require Import Model.ControlPoints Model.Curve Proofs.BezierRefine Proofs.FloatFacts Proofs.LengthFacts Proofs.LengthBound
  Proofs.FloatNonneg Proofs.CurveDistNonneg Proofs.PathFacts
  Proofs.AdjustExact Proofs.AdjustIEEEBase Proofs.AdjustIEEE Proofs.AdjustIEEESum Proofs.AdjustIEEELen
  Proofs.CatmullSurplusFold Proofs.CatmullSurplusLen Proofs.CatmullSurplusSeg Proofs.CatmullSurplusLoop.
From Flocq Require Import Core BinarySingleNaN.
From Coq Require Import Reals Lra Psatz Lia List Bool.
Import ListNotations.
Open Scope R_scope.

Local Notation fin x := (is_finite x = true).
Local Notation pw k := (bpow radix2 k).

(* ---------- the hypothesis on one Catmull sub-path ---------- *)

Definition cat_ok (cat : list Pos) : Prop :=
  Forall (fun p => coord_le p 20) cat /\ csegs_ok cat.

(* ---------- numerically equal vertices ---------- *)

Lemma Seq_R (a b : F32) : S.eq a b = true -> fin b -> fin a /\ B2R a = B2R b.
Proof.
  intros E Fb. unfold S.eq, feq in E.
  assert (Fa : fin a).
  { destruct a as [s|s| |s m e Hm]; try reflexivity; destruct b as [s'|s'| |s' m' e' Hm']; try discriminate;
      try (destruct s; discriminate); try (destruct s, s'; discriminate). }
  split; [exact Fa|]. rewrite (Beqb_correct 24 128 a b Fa Fb) in E.
  unfold Raux.Req_bool in E. destruct (Raux.Rcompare_spec (B2R a) (B2R b)); try discriminate. assumption.
Qed.

Lemma peqb_R2 l f : peqb l f = true -> coord_le f 20 -> coord_le l 20 /\ R2 l = R2 f.
Proof.
  unfold peqb. intros E ((Fx & Mx) & (Fy & My)). apply andb_true_iff in E. destruct E as (Ex & Ey).
  destruct (Seq_R _ _ Ex Fx) as (Fx' & Rx). destruct (Seq_R _ _ Ey Fy) as (Fy' & Ry).
  split; [|unfold R2; rewrite Rx, Ry; reflexivity].
  split; (split; [assumption|]); [rewrite Rx|rewrite Ry]; assumption.
Qed.

(* ---------- catmull_simplify at a joint ---------- *)

Lemma simplify_loop_acc l : forall i n prev lso rem acc opt,
  simplify_loop l i n prev lso rem acc opt =
  (acc ++ fst (simplify_loop l i n prev lso rem [] opt), snd (simplify_loop l i n prev lso rem [] opt)).
Proof.
  induction l as [|curr t IH]; intros i n prev lso rem acc opt.
  - rewrite !simplify_loop_nil. cbn [fst snd]. rewrite app_nil_r. reflexivity.
  - destruct lso as [ls|].
    + rewrite !simplify_loop_some. cbv zeta. destruct (_ || _ || _)%bool.
      * rewrite (IH _ _ _ _ _ (acc ++ [curr])), (IH _ _ _ _ _ ([] ++ [curr])). cbn [fst snd].
        rewrite <- !app_assoc. reflexivity.
      * apply IH.
    + rewrite !simplify_loop_none.
      rewrite (IH _ _ _ _ _ (acc ++ [curr])), (IH _ _ _ _ _ ([] ++ [curr])). cbn [fst snd].
      rewrite <- !app_assoc. reflexivity.
Qed.

Lemma gstate_start full f P0 q : full = P0 ++ [q] -> coord_le q 20 -> R2 q = R2 f -> coord_le f 20 ->
  gstate full f (Some f) D.zero 0.
Proof.
  intros Ef Hq Eq Hf. split; [exact Hf|]. split; [exists P0, q; split; [exact Ef|split; [exact Hq|exact Eq]]|].
  exists 0. split; [reflexivity|]. split; [apply rel_zero|].
  rewrite edist_refl. split; [lra|]. split; [left; split; reflexivity|cbn [INR]; lra].
Qed.

(* the path after one osu!-mode Catmull segment, joint vertex dropped or not *)
Lemma catmull_step_sinv cat path opt c :
  cat_ok cat -> SInv c path opt -> INR c + INR (length cat) <= cmax ->
  let p1 := path ++ fst (catmull_simplify cat opt) in
  let p2 := if skip_first p1 (length path) then drop_joint p1 (length path) else p1 in
  exists c1, SInv c1 p2 (snd (catmull_simplify cat opt)) /\ INR c1 <= INR c + INR (length cat).
Proof.
  intros (Hco & Hsg) HPI Hc. cbv zeta.
  destruct cat as [|f t].
  - cbn [catmull_simplify simplify_loop simplify_loop_g fst snd length]. rewrite app_nil_r, skip_first_none.
    exists c. split; [exact HPI|cbn [length INR]; lra].
  - unfold catmull_simplify. rewrite simplify_loop_none. cbn [app].
    set (n := Z.of_nat (length (f :: t))).
    rewrite (simplify_loop_acc t _ n f (Some f) D.zero [f] opt). cbn [fst snd].
    destruct (simplify_loop t (0 + 1) n f (Some f) D.zero [] opt) as [K o1] eqn:EK. cbn [fst snd].
    inversion Hco as [|? ? Hf _]; subst.
    change (length (f :: t)) with (S (length t)) in Hc. rewrite S_INR in Hc.
    pose proof (pos_INR (length t)) as Plt. pose proof (pos_INR c) as Pc.
    assert (Keep : exists c1, SInv c1 (path ++ [f] ++ K) o1 /\ INR c1 <= INR c + INR (length (f :: t))).
    { assert (HPI' : SInv (S c) (path ++ [f]) opt).
      { apply (SInv_mono c (S c) path); [exact HPI|lia|apply Lam_app_ge]. }
      assert (Hg : gstate (path ++ [f]) f (Some f) D.zero 0) by (apply (gstate_start _ f path f); auto).
      assert (Erun : simplify_loop t (0 + 1) n f (Some f) D.zero [f] opt = ([f] ++ K, o1)).
      { rewrite simplify_loop_acc, EK. reflexivity. }
      destruct (simplify_loop_inv t _ n f (Some f) D.zero [f] opt path (S c) 0%nat _ _ Hco Hsg Hg HPI'
                  ltac:(cbn [INR]; lra) ltac:(rewrite S_INR; lra) Erun) as (c1 & HP & Hc1).
      exists c1. split; [exact HP|]. change (length (f :: t)) with (S (length t)). rewrite !S_INR in *. lra. }
    destruct path as [|x path0] eqn:Epath.
    + cbn [length]. rewrite skip_first_nil. exact Keep.
    + assert (Hne : x :: path0 <> []) by discriminate.
      destruct (exists_last Hne) as (pre & l & El). rewrite El in *.
      change ((pre ++ [l]) ++ f :: K) with ((pre ++ [l]) ++ f :: K).
      replace ((pre ++ [l]) ++ [f] ++ K) with ((pre ++ [l]) ++ f :: K) in * by reflexivity.
      rewrite skip_first_spec. destruct (peqb l f) eqn:Epe; [|exact Keep].
      rewrite drop_joint_spec.
      destruct (peqb_R2 l f Epe Hf) as (Hl & Rl).
      assert (Hg : gstate ((pre ++ [l]) ++ []) f (Some f) D.zero 0).
      { apply (gstate_start _ f pre l); auto. apply app_nil_r. }
      assert (HPI0 : SInv c ((pre ++ [l]) ++ []) opt) by (rewrite app_nil_r; exact HPI).
      destruct (simplify_loop_inv t _ n f (Some f) D.zero [] opt (pre ++ [l]) c 0%nat _ _ Hco Hsg Hg HPI0
                  ltac:(cbn [INR]; lra) ltac:(lra) EK) as (c1 & HP & Hc1).
      exists c1. split; [exact HP|]. change (length (f :: t)) with (S (length t)). rewrite S_INR. lra.
Qed.

(* ---------- one segment of calculate_path ---------- *)

Lemma subpath_shape fuel lm osu path sub kind opt b p1 o1 b1 :
  calculate_subpath (approximate_bezier_L1 fuel) lm osu path sub kind opt b = Done (p1, o1, b1) ->
  ((osu && is_catmull kind)%bool = false /\ o1 = opt /\ exists new, p1 = path ++ new) \/
  ((osu && is_catmull kind)%bool = true /\
   exists cat, approximate_catmull sub = Done cat /\
               p1 = path ++ fst (catmull_simplify cat opt) /\ o1 = snd (catmull_simplify cat opt)).
Proof.
  assert (Bz : forall s, bez3 (approximate_bezier_L1 fuel) path s opt b = Done (p1, o1, b1) ->
                         o1 = opt /\ exists new, p1 = path ++ new).
  { intros s H. unfold bez3 in H. destruct b.
    destruct (approximate_bezier_L1 fuel path s tt) as [[p2 []]| |] eqn:E; cbn [obind] in H; try discriminate.
    inversion H; subst. split; [reflexivity|].
    destruct (bezier_endpoints fuel path s p1 E) as (mid & ->). eexists. reflexivity. }
  unfold calculate_subpath. intros H. destruct kind; cbn [is_catmull].
  - destruct (approximate_catmull sub) as [cat| |] eqn:Ec; cbn [obind] in H; try discriminate.
    destruct osu; cbn [negb andb] in *.
    + right. split; [reflexivity|]. exists cat. split; [reflexivity|].
      destruct (catmull_simplify cat opt) as [kept o']. inversion H; subst. split; reflexivity.
    + left. split; [reflexivity|]. inversion H; subst. split; [reflexivity|]. exists cat. reflexivity.
  - left. rewrite andb_false_r. split; [reflexivity|]. exact (Bz _ H).
  - left. rewrite andb_false_r. split; [reflexivity|]. inversion H; subst. split; [reflexivity|]. exists sub. reflexivity.
  - left. rewrite andb_false_r. split; [reflexivity|].
    destruct sub as [|a [|m [|c0 [|d r]]]]; try exact (Bz _ H).
    destruct (approximate_circular_arc lm a m c0) as [[arc|]| |]; cbn [obind] in H; try discriminate.
    + inversion H; subst. split; [reflexivity|]. exists arc. reflexivity.
    + exact (Bz _ H).
Qed.

(* after the joint: still an extension of the old path *)
Lemma joint_extends (path new : list Pos) :
  exists ext, (if skip_first (path ++ new) (length path) then drop_joint (path ++ new) (length path)
               else path ++ new) = path ++ ext.
Proof.
  destruct (skip_first (path ++ new) (length path)) eqn:E; [|exists new; reflexivity].
  destruct new as [|x t]; [rewrite app_nil_r, skip_first_none in E; discriminate|].
  rewrite drop_joint_spec. exists t. reflexivity.
Qed.

(* ---------- the Catmull sub-paths of calculate_path ---------- *)

(* the control flow of calculate_path's loop depends on the control points
   only: the sub-paths handed to the osu!-mode simplification *)
Fixpoint catmull_cats (k i start n : nat) (osu : bool) (pts : list PathControlPoint) (verts : list Pos)
  : list (list Pos) :=
  match k with
  | O => []
  | S k' =>
      match aget pts i with
      | Done cp =>
          if ((match pc_type cp with None => true | Some _ => false end) && Nat.ltb i (n - 1))%bool
          then catmull_cats k' (S i) start n osu pts verts
          else if (Nat.ltb i start || Nat.leb (length verts) i)%bool then []
          else
            match firstn (S i - start) (skipn start verts) with
            | [] => []
            | [v] => catmull_cats k' (S i) i n osu pts verts
            | seg =>
                match aget pts start with
                | Done cps =>
                    (if (osu && is_catmull (match pc_type cps with None => Linear | Some t => t end))%bool
                     then match approximate_catmull seg with Done cat => [cat] | _ => [] end
                     else []) ++ catmull_cats k' (S i) i n osu pts verts
                | _ => []
                end
            end
      | _ => []
      end
  end.

Lemma cpath_loop_sinv fuel lm osu pts verts : forall k i start n path opt b path' opt' b' c,
  cpath_loop (approximate_bezier_L1 fuel) lm k i start n osu pts verts path opt b = Done (path', opt', b') ->
  Forall cat_ok (catmull_cats k i start n osu pts verts) ->
  SInv c path opt ->
  INR c + INR (length (concat (catmull_cats k i start n osu pts verts))) <= cmax ->
  exists c', SInv c' path' opt' /\
             INR c' <= INR c + INR (length (concat (catmull_cats k i start n osu pts verts))).
Proof.
  induction k as [|k IH]; intros i start n path opt b path' opt' b' c; cbn [cpath_loop catmull_cats].
  - intros H _ HPI _. inversion H; subst. exists c. split; [exact HPI|cbn; lra].
  - destruct (aget pts i) as [cp| |] eqn:Ecp; cbn [obind]; try discriminate.
    destruct ((match pc_type cp with None => true | Some _ => false end) && Nat.ltb i (n - 1))%bool.
    { apply IH. }
    destruct (Nat.ltb i start || Nat.leb (length verts) i)%bool; [discriminate|].
    destruct (firstn (S i - start) (skipn start verts)) as [|v [|v2 seg]] eqn:Es; [discriminate| |].
    { intros H Hok HPI Hc. apply (IH _ _ _ _ _ _ _ _ _ c H Hok); [|exact Hc].
      apply (SInv_mono c c path); [exact HPI|lia|apply Lam_app_ge]. }
    destruct (aget pts start) as [cps| |] eqn:Ecps; cbn [obind]; try discriminate.
    set (kind := match pc_type cps with None => Linear | Some t => t end).
    destruct (calculate_subpath (approximate_bezier_L1 fuel) lm osu path (v :: v2 :: seg) kind opt b)
      as [[[p1 o1] b1]| |] eqn:Esub; cbn [obind]; try discriminate.
    cbv beta iota zeta.
    destruct (subpath_shape _ _ _ _ _ _ _ _ _ _ _ Esub) as [(Ek & -> & new & ->)|(Ek & cat & Ecat & -> & ->)]; rewrite Ek.
    + (* the surplus is unchanged, the path extended *)
      cbn [app]. intros H Hok HPI Hc.
      destruct (joint_extends path new) as (ext & Eext). rewrite Eext in H.
      apply (IH _ _ _ _ _ _ _ _ _ c H Hok); [|exact Hc].
      apply (SInv_mono c c path); [exact HPI|lia|apply Lam_app_ge].
    + (* an osu!-mode Catmull segment *)
      rewrite Ecat. cbn [app concat]. rewrite app_length, plus_INR.
      intros H Hok HPI Hc. inversion Hok as [|? ? Hcat Hok']; subst.
      pose proof (pos_INR (length (concat (catmull_cats k (S i) i n osu pts verts)))) as Pr.
      destruct (catmull_step_sinv cat path opt c Hcat HPI ltac:(lra)) as (c1 & HP1 & Hc1). cbv zeta in HP1.
      destruct (IH _ _ _ _ _ _ _ _ _ c1 H Hok' HP1 ltac:(lra)) as (c' & HP & Hc').
      exists c'. split; [exact HP|lra].
Qed.

(* ---------- calculate_path, calculate_length, the curve ---------- *)

Definition catmull_subpaths (mode : Z) (pts : list PathControlPoint) : list (list Pos) :=
  catmull_cats (length pts) 0 0 (length pts) (is_osu mode) pts (map pc_pos pts).

(* THE HYPOTHESES: bounded, non-degenerate Catmull sub-paths *)
Definition catmull_hyp (mode : Z) (pts : list PathControlPoint) : Prop :=
  Forall cat_ok (catmull_subpaths mode pts) /\
  INR (length (concat (catmull_subpaths mode pts))) <= cmax.

Theorem calculate_path_sinv lm fuel mode pts path opt :
  catmull_hyp mode pts ->
  calculate_path_L1 lm fuel mode pts = Done (path, opt) ->
  exists c, SInv c path opt /\ INR c <= cmax.
Proof.
  intros (Hok & Hn) H. unfold calculate_path_L1 in H. destruct pts as [|p r] eqn:Ep.
  - inversion H; subst. exists 0%nat. split; [exact SInv_zero|cbn; unfold cmax; lra].
  - rewrite <- Ep in *.
    destruct (cpath_loop _ _ _ _ _ _ _ _ _ _ _ _) as [[[p1 o1] u]| |] eqn:E; cbn [obind] in H; try discriminate.
    inversion H; subst p1 o1.
    destruct (cpath_loop_sinv _ _ _ _ _ _ _ _ _ _ _ _ _ _ _ 0%nat E Hok SInv_zero ltac:(cbn [INR]; fold (catmull_subpaths mode pts); lra))
      as (c & HP & Hc).
    exists c. split; [exact HP|]. cbn [INR] in Hc. fold (catmull_subpaths mode pts) in Hc. lra.
Qed.

(* readable form: the surplus is finite and takes at most 76% of the sum of
   the segment lengths calculate_length is going to add *)
Theorem catmull_surplus_bound lm fuel mode pts path opt :
  catmull_hyp mode pts ->
  calculate_path_L1 lm fuel mode pts = Done (path, opt) ->
  fin opt /\ - B2R opt <= 0.76 * Lam path.
Proof.
  intros Hh H. destruct (calculate_path_sinv lm fuel mode pts path opt Hh H) as (c & (Fo & _ & No) & Hc).
  split; [exact Fo|]. apply Rle_trans with (1 := No). apply Rmult_le_compat_r; [apply Lam_nonneg|].
  pose proof (pos_INR c). unfold cmax, u64 in *. lra.
Qed.

Lemma seg_lens_length path : length (seg_lens path) = Nat.pred (length path).
Proof. induction path as [|a [|b t] IH]; try reflexivity. cbn [seg_lens length] in *. rewrite IH. reflexivity. Qed.

(* the natural length is not negative *)
Theorem natural_len_nn_sinv c path opt :
  SInv c path opt -> INR c <= cmax -> INR (length path) <= cmax ->
  nn64 (natural_len path opt) = true.
Proof.
  intros (Fo & Uo & No) Hc Hl.
  destruct (nn64 opt) eqn:Eo; [exact (natural_len_nn path opt Eo)|].
  assert (Na : B2R opt <= 0).
  { destruct opt as [s|s| |s m e Hm]; try discriminate. destruct s; [|discriminate].
    apply Rlt_le. apply F2R_lt_0. reflexivity. }
  rewrite natural_len_fold.
  pose proof (fold_low opt Fo (seg_lens path) 0 0%nat opt (low_start opt Fo Na) (seg_lens_nn path)) as HL.
  apply (low_nn opt _ _ _ HL). rewrite Rplus_0_l. fold (Lam path). rewrite Nat.add_0_l, seg_lens_length.
  pose proof (Lam_nonneg path) as PL. pose proof (pos_INR c) as Pc. pose proof u64_pos as Up.
  assert (Hp : INR (Nat.pred (length path)) <= cmax).
  { apply Rle_trans with (2 := Hl). apply le_INR. lia. }
  pose proof (pos_INR (Nat.pred (length path))) as Pp.
  set (N := INR (Nat.pred (length path))) in *. set (kap := 3 / 4 + 2 * INR c * u64) in *.
  assert (Hk : 0 <= kap) by (unfold kap; assert (0 <= INR c * u64) by (apply Rmult_le_pos; lra); lra).
  assert (H1 : - B2R opt * (1 + N * u64) <= kap * Lam path * (1 + N * u64)).
  { apply Rmult_le_compat_r; [|exact No]. assert (0 <= N * u64) by (apply Rmult_le_pos; lra). lra. }
  assert (H2 : kap * (1 + N * u64) <= 1).
  { unfold kap, cmax, u64 in *.
    assert (Hx : 3 / 4 + 2 * INR c * / 9007199254740992 <= 4 / 5) by lra.
    assert (Hy : 1 + N * / 9007199254740992 <= 5 / 4) by lra.
    assert (Hy0 : 0 <= 1 + N * / 9007199254740992) by lra.
    apply Rle_trans with (4 / 5 * (5 / 4)); [apply Rmult_le_compat; lra|lra]. }
  replace (kap * Lam path * (1 + N * u64)) with (kap * (1 + N * u64) * Lam path) in H1 by ring.
  assert (H3 : kap * (1 + N * u64) * Lam path <= 1 * Lam path) by (apply Rmult_le_compat_r; lra).
  lra.
Qed.

(* THE CURVE DISTANCE IS NOT NEGATIVE (bounded, non-degenerate Catmull sub-paths) *)
Theorem curve_dist_nonneg_bounded lm fuel mode pts e path opt path' lens :
  catmull_hyp mode pts ->
  calculate_path_L1 lm fuel mode pts = Done (path, opt) -> INR (length path) <= cmax ->
  req_ok e -> calculate_length path e opt = Done (path', lens) ->
  D.lt (Curve.dist lens) D.zero = false.
Proof.
  intros Hh Hp Hl He Hc. destruct (calculate_path_sinv lm fuel mode pts path opt Hh Hp) as (c & HPI & Hcm).
  rewrite nn64_lt_zero.
  rewrite (calculate_length_dist_nn_natural path e opt path' lens He (natural_len_nn_sinv c path opt HPI Hcm Hl) Hc).
  reflexivity.
Qed.

(* the same for the curve of the decoder *)
Definition path_small (lm : Libm) (fuel : positive) (mode : Z) (pts : list PathControlPoint) : Prop :=
  forall path opt, calculate_path_L1 lm fuel mode pts = Done (path, opt) -> INR (length path) <= cmax.

Theorem curve_dist_nn_bounded lm fuel mode pts e c :
  catmull_hyp mode pts -> path_small lm fuel mode pts -> req_ok e ->
  curve_L1 lm fuel mode pts e = Done c -> nn64 (Curve.dist (c_lengths c)) = true.
Proof.
  intros Hh Hs He H. destruct (curve_L1_unfold lm fuel mode pts e c H) as (path & opt & Hp & Hl).
  pose proof (curve_dist_nonneg_bounded lm fuel mode pts e path opt _ _ Hh Hp (Hs path opt Hp) He Hl) as Hd.
  rewrite nn64_lt_zero in Hd. destruct (nn64 (Curve.dist (c_lengths c))); [reflexivity|discriminate].
Qed.

(* PositionEndIEEE: progress 1 in IEEE arithmetic when the last cumulative
   length may be REPEATED (duplicate end points, the "last two points equal"
   branch of calculate_length whose lengths list is one longer than the path).

   For non-decreasing lengths of the class proved in LengthMono (no NaN, no
   negative entry) with a finite total L:
     - progress 1 gives exactly the distance L (1 * L = L);
     - the transcribed binary search returns an index whose length is
       numerically equal to L (any of the equal entries);
     - interpolate_vertices at such an index and distance has weight exactly 1:
       the result is the first vertex (index 0), the last vertex (index past
       the path), the segment's first vertex (near-zero-segment guard) or
       p0 + (p1 - p0) for a vertex p1 whose cumulative length equals L -- the
       vertex up to ONE rounding.  (Over the reals all vertices carrying the
       length L coincide with the last one: PositionExact.) *)
From RM Require Import Model.ControlPoints Model.Curve Proofs.BezierRefine Proofs.LengthFacts
  Proofs.FloatFacts Proofs.PositionFacts Proofs.PositionExact Proofs.LengthMono.
From Flocq Require Import Core Plus_error BinarySingleNaN.
From Coq Require Import Reals Lra.
Require Import ZifyBool.
Open Scope R_scope.

Local Notation fexp64 := (SpecFloat.fexp 53 1024).
Local Notation RN := (round radix2 fexp64 (round_mode mode_NE)).
Local Notation fin x := (is_finite x = true).

(* ---------- comparisons of finite numbers ---------- *)

Lemma cmp_finite L x : fin L -> fin x ->
  (cmp_or_equal L x = Lt <-> B2R x < B2R L) /\
  (cmp_or_equal L x = Gt <-> B2R L < B2R x) /\
  (cmp_or_equal L x = Eq <-> B2R x = B2R L).
Proof.
  intros FL Fx. unfold cmp_or_equal, D.gt, fgt, D.lt, flt.
  rewrite (Bltb_correct 53 1024 x L Fx FL), (Bltb_correct 53 1024 L x FL Fx).
  destruct (Rlt_bool_spec (B2R x) (B2R L)); destruct (Rlt_bool_spec (B2R L) (B2R x));
    repeat split; intros; try discriminate; try reflexivity; lra.
Qed.

Lemma le_finite x y : fin x -> fin y -> D.le x y = true -> B2R x <= B2R y.
Proof.
  intros Fx Fy. unfold D.le, fle. rewrite (Bleb_correct 53 1024 x y Fx Fy).
  destruct (Rle_bool_spec (B2R x) (B2R y)); [auto|discriminate].
Qed.

(* ---------- the search at the total distance ---------- *)
Local Open Scope nat_scope.

Lemma lengths_all_finite pre L :
  nondec (pre ++ [L]) -> Forall pos64 (pre ++ [L]) -> fin L -> Forall (fun v => fin v) (pre ++ [L]).
Proof.
  intros N P F. destruct (pre ++ [L]) as [|x l] eqn:E; [constructor|].
  apply nondec_finite; try assumption.
  rewrite <- (last_cons_shift l x x), <- E, last_last. exact F.
Qed.

(* the index selected for the total distance carries a length numerically equal to it *)
Theorem search_at_total pre L :
  nondec (pre ++ [L]) -> Forall pos64 (pre ++ [L]) -> fin L ->
  exists x, nth_error (pre ++ [L]) (idx_of_dist (pre ++ [L]) L) = Some x /\ fin x /\ B2R x = B2R L.
Proof.
  intros N P F. set (lens := pre ++ [L]) in *.
  pose proof (lengths_all_finite pre L N P F) as AF. fold lens in AF. rewrite Forall_forall in AF.
  assert (Fn : forall i x, nth_error lens i = Some x -> fin x) by (intros i x H; apply AF; eapply nth_error_In; eauto).
  assert (Le : forall i j x y, i <= j -> nth_error lens i = Some x -> nth_error lens j = Some y -> (B2R x <= B2R y)%R).
  { intros i j x y Hij Hx Hy. apply le_finite; [eapply Fn; eauto|eapply Fn; eauto|]. exact (nondec_le lens N P i j x y Hij Hx Hy). }
  pose proof (bsearch_by_contract (cmp_or_equal L) lens) as C.
  assert (M1 : forall i j x y, i <= j -> nth_error lens i = Some x -> nth_error lens j = Some y ->
               cmp_or_equal L x = Gt -> cmp_or_equal L y = Gt).
  { intros i j x y Hij Hx Hy Hg. pose proof (Le i j x y Hij Hx Hy).
    apply (cmp_finite L x F (Fn _ _ Hx)) in Hg. apply (cmp_finite L y F (Fn _ _ Hy)). lra. }
  assert (M2 : forall i j x y, i <= j -> nth_error lens i = Some x -> nth_error lens j = Some y ->
               cmp_or_equal L y = Lt -> cmp_or_equal L x = Lt).
  { intros i j x y Hij Hx Hy Hg. pose proof (Le i j x y Hij Hx Hy).
    apply (cmp_finite L y F (Fn _ _ Hy)) in Hg. apply (cmp_finite L x F (Fn _ _ Hx)). lra. }
  specialize (C M1 M2). unfold idx_of_dist.
  assert (HlastL : nth_error lens (length pre) = Some L) by (unfold lens; apply nth_error_app_mid_pos).
  assert (HeqL : cmp_or_equal L L = Eq) by apply cmp_self.
  destruct (bsearch_by (cmp_or_equal L) lens) as [i|i].
  - destruct C as (x & Hx & He). exists x. split; [exact Hx|]. split; [eapply Fn; eauto|].
    apply (cmp_finite L x F (Fn _ _ Hx)). exact He.
  - exfalso. destruct C as (_ & Hlo & Hhi). destruct (Nat.lt_ge_cases (length pre) i) as [H|H].
    + rewrite (Hlo _ L H HlastL) in HeqL. discriminate.
    + rewrite (Hhi _ L H HlastL) in HeqL. discriminate.
Qed.

(* ---------- the weight at a length numerically equal to the segment's end ---------- *)
Local Open Scope R_scope.

Lemma eps_finite_pos : fin D.eps /\ 0 < B2R D.eps.
Proof.
  assert (H : B2SF D.eps = SpecFloat.S754_finite false 4503599627370496 (-104)) by (vm_compute; reflexivity).
  destruct D.eps as [s|s| |s m e Hm]; try discriminate. cbn in H. inversion H; subst.
  split; [reflexivity|]. cbn. apply F2R_gt_0. cbn. lia.
Qed.

Lemma sub_finite_bounded (a b : F64) : fin a -> fin b -> 0 <= B2R b <= B2R a ->
  fin (D.sub a b) /\ B2R (D.sub a b) = RN (B2R a - B2R b).
Proof.
  intros Fa Fb Hr. pose proof (Bminus_correct 53 1024 Hp64 He64 mode_NE a b Fa Fb) as H.
  assert (H0 : 0 <= RN (B2R a - B2R b)).
  { apply round_ge_generic; [apply (fexp_correct 53 1024); exact Hp64|apply valid_rnd_N|apply generic_format_0|lra]. }
  assert (H1 : RN (B2R a - B2R b) <= B2R a).
  { apply round_le_generic; [apply (fexp_correct 53 1024); exact Hp64|apply valid_rnd_N|apply generic_format_B2R|lra]. }
  rewrite Rlt_bool_true in H.
  - destruct H as (HR & HF & _). split; assumption.
  - rewrite Rabs_pos_eq by exact H0. apply Rle_lt_trans with (1 := H1).
    pose proof (abs_B2R_lt_emax 53 1024 a) as Hb. rewrite Rabs_pos_eq in Hb by lra. exact Hb.
Qed.

(* a - b rounds to zero only when a = b *)
Lemma RN_minus_eq_0 (a b : F64) : RN (B2R a - B2R b) = 0 -> B2R a = B2R b.
Proof.
  intros H. unfold Rminus in H.
  assert (Hopp : generic_format radix2 fexp64 (- B2R b)) by (apply generic_format_opp, generic_format_B2R).
  pose proof (@round_plus_eq_0 radix2 fexp64 (fexp_correct 53 1024 Hp64)
                (@monotone_exp_not_FTZ fexp64 (fexp_correct 53 1024 Hp64) (fexp_monotone 53 1024))
                (round_mode mode_NE) (valid_rnd_N _) (B2R a) (- B2R b)
                (generic_format_B2R 53 1024 a) Hopp H). lra.
Qed.

(* outside the near-zero-segment guard the subtraction d1 - d0 is not zero *)
Lemma guard_false_nonzero d0 d1 : fin d0 -> fin d1 -> 0 <= B2R d0 <= B2R d1 ->
  D.le (D.abs (D.sub d0 d1)) D.eps = false -> B2R (D.sub d1 d0) <> 0.
Proof.
  intros F0 F1 Hr Hg Hz.
  destruct (sub_finite_bounded d1 d0 F1 F0 Hr) as [Fs Rs]. rewrite Rs in Hz.
  apply RN_minus_eq_0 in Hz.
  (* then d0 - d1 is a zero, and |0| <= eps *)
  pose proof (Bminus_correct 53 1024 Hp64 He64 mode_NE d0 d1 F0 F1) as H.
  replace (B2R d0 - B2R d1) with 0 in H by lra. rewrite round_0 in H by apply valid_rnd_N.
  rewrite Rabs_R0, Rlt_bool_true in H by apply bpow_gt_0. destruct H as (HR & HF & _).
  destruct eps_finite_pos as [Fe Pe].
  unfold D.le, fle, D.abs, fabs in Hg. rewrite Bleb_correct in Hg; [|rewrite is_finite_Babs; exact HF|exact Fe].
  rewrite B2R_Babs in Hg. unfold D.sub, fsub in Hg. rewrite HR, Rabs_R0 in Hg.
  rewrite Rle_bool_true in Hg by lra. discriminate.
Qed.

(* x / y = 1 for finite non-zero x, y with the same real value *)
Lemma D_div_same_value x y : fin64 x -> fin64 y -> B2R x = B2R y -> B2R x <> 0 -> D.div x y = D.one.
Proof.
  intros Fx Fy He Hnz.
  assert (E : x = y).
  { apply B2R_Bsign_inj; try assumption.
    destruct x as [sx|sx| |sx mx ex Hx]; try discriminate; [exfalso; apply Hnz; reflexivity|].
    destruct y as [sy|sy| |sy my ey Hy]; try discriminate; [exfalso; apply Hnz; rewrite He; reflexivity|].
    cbn [Bsign]. cbn [B2R] in He.
    destruct sx, sy; try reflexivity; exfalso.
    - assert (F2R (Float radix2 (cond_Zopp true (Zpos mx)) ex) < 0) by (apply F2R_lt_0; cbn; lia).
      assert (0 < F2R (Float radix2 (cond_Zopp false (Zpos my)) ey)) by (apply F2R_gt_0; cbn; lia). lra.
    - assert (0 < F2R (Float radix2 (cond_Zopp false (Zpos mx)) ex)) by (apply F2R_gt_0; cbn; lia).
      assert (F2R (Float radix2 (cond_Zopp true (Zpos my)) ey) < 0) by (apply F2R_lt_0; cbn; lia). lra. }
  subst y. apply D_div_self; assumption.
Qed.

(* interpolate_vertices at a distance numerically equal to the cumulative
   length of the selected vertex: weight exactly 1 *)
Theorem interpolate_at_equal_length path lengths i p0 p1 d0 d1 d :
  nth_error path i = Some p0 -> nth_error path (S i) = Some p1 ->
  nth_error lengths i = Some d0 -> nth_error lengths (S i) = Some d1 ->
  fin64 d0 -> fin64 d1 -> fin64 d -> 0 <= B2R d0 <= B2R d1 -> B2R d = B2R d1 ->
  fin32 (px (psub p1 p0)) -> fin32 (py (psub p1 p0)) ->
  interpolate_vertices path lengths (S i) d =
  Done (if D.le (D.abs (D.sub d0 d1)) D.eps then p0 else padd p0 (psub p1 p0)).
Proof.
  intros H0 H1 L0 L1 F0 F1 Fd Hr He Hx Hy.
  rewrite (interpolate_between path lengths i d p0 p1 d0 d1 H0 H1 L0 L1).
  destruct (D.le (D.abs (D.sub d0 d1)) D.eps) eqn:Eg; [reflexivity|].
  pose proof (guard_false_nonzero d0 d1 F0 F1 Hr Eg) as Hnz.
  destruct (sub_finite_bounded d1 d0 F1 F0 Hr) as [Fs1 Rs1].
  destruct (sub_finite_bounded d d0 Fd F0 ltac:(lra)) as [Fs Rs].
  rewrite (D_div_same_value (D.sub d d0) (D.sub d1 d0) Fs Fs1) by (rewrite ?Rs, ?Rs1, ?He; congruence).
  rewrite f32_of_one. unfold pmul. rewrite (S_mul_one_r _ Hx), (S_mul_one_r _ Hy).
  destruct (psub p1 p0); reflexivity.
Qed.

(* ---------- progress 1, repeated last length allowed ---------- *)
Local Open Scope nat_scope.

(* consecutive vertices differ by finite f32 amounts *)
Definition diffs_finite (path : list Pos) : Prop :=
  forall i p0 p1, nth_error path i = Some p0 -> nth_error path (S i) = Some p1 ->
  fin32 (px (psub p1 p0)) /\ fin32 (py (psub p1 p0)).

Theorem position_at_one_repeated path pre L :
  nondec (pre ++ [L]) -> Forall pos64 (pre ++ [L]) -> fin64 L -> diffs_finite path ->
  length path <= length (pre ++ [L]) -> path <> [] ->
  progress_to_dist (pre ++ [L]) D.one = L /\
  exists q, position_at path (pre ++ [L]) D.one = Done q /\
    (q = hd pos0 path \/ q = last path pos0 \/
     exists i p0 p1 d0 d1,
       S i = idx_of_dist (pre ++ [L]) L /\
       nth_error path i = Some p0 /\ nth_error path (S i) = Some p1 /\
       nth_error (pre ++ [L]) i = Some d0 /\ nth_error (pre ++ [L]) (S i) = Some d1 /\
       B2R d1 = B2R L /\
       ((D.le (D.abs (D.sub d0 d1)) D.eps = true /\ q = p0) \/
        (D.le (D.abs (D.sub d0 d1)) D.eps = false /\ q = padd p0 (psub p1 p0)))).
Proof.
  intros N P F Df Hlen Hne. set (lens := pre ++ [L]) in *.
  assert (Hd : progress_to_dist lens D.one = L).
  { unfold progress_to_dist, lens. rewrite clamp01_one, dist_app. apply D_mul_one_l. exact F. }
  split; [exact Hd|]. unfold position_at. rewrite Hd.
  destruct (search_at_total pre L N P F) as (x & Hx & Fx & Ex). fold lens in Hx.
  pose proof (lengths_all_finite pre L N P F) as AF. fold lens in AF. rewrite Forall_forall in AF.
  set (i := idx_of_dist lens L) in *.
  destruct path as [|f0 rest] eqn:Ep; [congruence|]. rewrite <- Ep in *.
  destruct i as [|i1] eqn:Ei.
  - exists f0. split; [rewrite Ep; reflexivity|]. left. rewrite Ep. reflexivity.
  - destruct (Nat.le_gt_cases (length path) (S i1)) as [Hi|Hi].
    + exists (last path pos0). split; [apply interpolate_past_end; [rewrite Ep; discriminate|exact Hi]|]. right. left. reflexivity.
    + destruct (nth_error path i1) as [p0|] eqn:E0; [|apply nth_error_None in E0; lia].
      destruct (nth_error path (S i1)) as [p1|] eqn:E1; [|apply nth_error_None in E1; lia].
      destruct (nth_error lens i1) as [d0|] eqn:G0; [|apply nth_error_None in G0; lia].
      assert (F0 : fin d0) by (apply AF; eapply nth_error_In; eauto).
      assert (Hr : (0 <= B2R d0 <= B2R x)%R).
      { split.
        - apply (posf_B2R 53 1024). rewrite Forall_forall in P. apply P. eapply nth_error_In; eauto.
        - apply le_finite; try assumption. exact (N i1 d0 x G0 Hx). }
      destruct (Df i1 p0 p1 E0 E1) as [Dx Dy].
      pose proof (interpolate_at_equal_length path lens i1 p0 p1 d0 x L E0 E1 G0 Hx F0 Fx F Hr (eq_sym Ex) Dx Dy) as HI.
      eexists. split; [exact HI|]. right. right.
      exists i1, p0, p1, d0, x. repeat split; try assumption.
      destruct (D.le (D.abs (D.sub d0 x)) D.eps); [left|right]; split; reflexivity.
Qed.

(* the same, stated on any lengths list of the class proved in LengthMono
   (every zero-seed outcome of calculate_length: C16_lengths_nondecreasing) *)
Theorem position_at_one_lengths_ok path lens :
  lengths_ok lens -> fin64 (Curve.dist lens) -> diffs_finite path ->
  length path <= length lens -> path <> [] ->
  let L := Curve.dist lens in
  progress_to_dist lens D.one = L /\
  exists q, position_at path lens D.one = Done q /\
    (q = hd pos0 path \/ q = last path pos0 \/
     exists i p0 p1 d0 d1,
       S i = idx_of_dist lens L /\
       nth_error path i = Some p0 /\ nth_error path (S i) = Some p1 /\
       nth_error lens i = Some d0 /\ nth_error lens (S i) = Some d1 /\
       B2R d1 = B2R L /\
       ((D.le (D.abs (D.sub d0 d1)) D.eps = true /\ q = p0) \/
        (D.le (D.abs (D.sub d0 d1)) D.eps = false /\ q = padd p0 (psub p1 p0)))).
Proof.
  intros ((t & Et) & N & P) F Df Hlen Hne. cbv zeta.
  assert (Hl : lens <> []) by (rewrite Et; discriminate).
  destruct (exists_last Hl) as (pre & L & E). rewrite E in *. rewrite dist_app in *.
  exact (position_at_one_repeated path pre L N P F Df Hlen Hne).
Qed.

(* EncTimingExample: T02d with decidable hypotheses only, non-vacuity on concrete decoded
   maps, and model-level witnesses for the two side conditions that decoded maps can
   violate (all by vm_compute on booleans / dumps, never on float values).
     - [t02d_checks g m]: one boolean -- sorted control points, values inside their clamps,
       collect_samples succeeds and [rt_side] holds of its result;
     - [enc_timing_round_trip_checked]: t02d_checks g m = true -> the [TimingPoints] section
       of the encoding of m decodes to the timing points and the three timelines of m;
     - [t02d_example], [t02d_plain_example]: the checks hold of decoded maps (so the theorem
       applies to them: taiko map with same-time timing + inherited lines, kiai, omit flag,
       a sample point collected from a hit object; the mania map of Proofs/EncRound.v);
     - [near_one_witness]: a chronological file whose decoded map violates
       [values_separated] (slider velocity 0.9999999999999999 on a timing point): the encoder
       writes no inherited line at that time, so the velocity comes back as 1.0. *)
From RM Require Import Model.EncTimingSpec Proofs.BSearch Proofs.ControlPointsFacts
  Proofs.TPFloatFacts Proofs.TimingPointsFacts Proofs.TimingPointsValues
  Proofs.EncFmt Proofs.EncSimple Proofs.EncTimingParse Proofs.EncCollect Proofs.EncGroups
  Proofs.EncTimingDecode Proofs.EncTimingInv Proofs.EncTimingRT Proofs.EncRound.
From RM Require Import Gen.Generated.
From Flocq Require Import BinarySingleNaN.
From Coq Require Import Sorting.Sorted.
From Coq Require Import ZifyBool.
Open Scope Z_scope.

(* ---------- boolean forms of the hypotheses ---------- *)

Fixpoint incrb (l : list Z) : bool :=
  match l with
  | a :: ((b :: _) as t) => (a <? b) && incrb t
  | _ => true
  end.

Lemma incrb_sorted l : incrb l = true -> StronglySorted Z.lt l.
Proof.
  intros H. apply Sorted_StronglySorted; [intros x y z; lia|].
  induction l as [|a l IH]; [constructor|]. destruct l as [|b l]; [repeat constructor|].
  cbn [incrb] in H. apply andb_true_iff in H. destruct H as (Hab & Ht).
  constructor; [exact (IH Ht) | constructor; lia].
Qed.

Definition cp_sortedb (c : ControlPoints) : bool :=
  incrb (map (K tp_time) (cp_timing c)) && incrb (map (K dp_time) (cp_difficulty c)) &&
  incrb (map (K ep_time) (cp_effect c)) && incrb (map (K sp_time) (cp_sample c)).

Lemma cp_sortedb_ok c : cp_sortedb c = true -> cp_sorted c.
Proof.
  unfold cp_sortedb. intros H.
  repeat match type of H with _ && _ = true => let X := fresh "X" in
           apply andb_true_iff in H; destruct H as [H X] end.
  repeat split; apply incrb_sorted; assumption.
Qed.

Definition good_tpb (p : TimingPoint) : bool :=
  D.le bl_lo (tp_beat_len p) && D.le (tp_beat_len p) bl_hi && (0 <? tp_sig p) && is_finite (tp_time p).
Definition good_dpb (p : DifficultyPoint) : bool :=
  D.le sv_lo (dp_sv p) && D.le (dp_sv p) sv_hi && is_finite (dp_time p).
Definition good_epb (mode : Z) (p : EffectPoint) : bool :=
  D.le sc_lo (ep_scroll p) && D.le (ep_scroll p) sc_hi &&
  (scroll_mode mode || f64_eqb (ep_scroll p) D.one) && is_finite (ep_time p).
Definition cp_values_goodb (mode : Z) (c : ControlPoints) : bool :=
  forallb good_tpb (cp_timing c) && forallb good_dpb (cp_difficulty c) && forallb (good_epb mode) (cp_effect c).

Lemma cp_values_goodb_ok mode c : cp_values_goodb mode c = true -> cp_values_good mode c.
Proof.
  unfold cp_values_goodb. intros H. apply andb_true_iff in H. destruct H as (H & H3).
  apply andb_true_iff in H. destruct H as (H1 & H2). rewrite forallb_forall in H1, H2, H3.
  repeat split; apply Forall_forall; intros p Hp.
  - specialize (H1 p Hp). unfold good_tpb in H1.
    repeat match type of H1 with _ && _ = true => let X := fresh "X" in
             apply andb_true_iff in H1; destruct H1 as [H1 X] end.
    repeat split; try assumption. lia.
  - specialize (H2 p Hp). unfold good_dpb in H2.
    repeat match type of H2 with _ && _ = true => let X := fresh "X" in
             apply andb_true_iff in H2; destruct H2 as [H2 X] end.
    repeat split; assumption.
  - specialize (H3 p Hp). unfold good_epb in H3.
    repeat match type of H3 with _ && _ = true => let X := fresh "X" in
             apply andb_true_iff in H3; destruct H3 as [H3 X] end.
    repeat split; try assumption. intros Hm. rewrite Hm in X0. cbn [orb] in X0. exact (f64_eqb_eq _ _ X0).
Qed.

Section Checked.
  Variable dist_of : Z -> list PCP -> option F64 -> outcome F64.
  Variable events_of : F64 -> F64 -> F64 -> F64 -> F64 -> Z -> outcome (list EncEvent).

  (* every hypothesis of [enc_timing_round_trip], as one boolean *)
  Definition t02d_checks (g : tp_general) (m : BeatmapV) : bool :=
    let c0 := hov_control_points (bmv_ho m) in
    cp_sortedb c0 && cp_values_goodb (tpg_mode g) c0 &&
    match enc_control_points dist_of events_of m with
    | Done c => rt_side (tpg_mode g) c
    | _ => false
    end.

  Theorem enc_timing_round_trip_checked fmt_f64 fmt_f32 fmt_int :
    fmt_ok fmt_f64 fmt_f32 fmt_int -> no_leading_zero fmt_int ->
    forall m g, t02d_checks g m = true ->
    let c0 := hov_control_points (bmv_ho m) in
    exists ls c',
      enc_timing_points dist_of events_of m = Done (header_tok SecTimingPoints :: ls) /\
      tp_decode g (map (render fmt_f64 fmt_f32 fmt_int) ls) = Done (c', map (fun _ => Ok) ls) /\
      cp_timing c' = cp_timing c0 /\
      (forall t, sv_at c' t = sv_at c0 t) /\
      (forall t, kiai_at c' t = kiai_at c0 t) /\
      (forall t, scroll_at c' t = scroll_at c0 t).
  Proof.
    intros Hfmt Hlead m g H c0. unfold t02d_checks in H. fold c0 in H.
    apply andb_true_iff in H. destruct H as (H & H3). apply andb_true_iff in H. destruct H as (H1 & H2).
    destruct (enc_control_points dist_of events_of m) as [c| |] eqn:E; try discriminate H3.
    exact (enc_timing_round_trip _ _ _ Hfmt Hlead dist_of events_of m c g (cp_sortedb_ok _ H1) (cp_values_goodb_ok _ _ H2) E H3).
  Qed.
End Checked.

(* ---------- non-vacuity ---------- *)

(* taiko; a timing line and an inherited line at the same time (twice), kiai on / off, the
   omit flag, signature 3, bank 2, volume 60, a short-decimal and a 17-digit beat length, and
   two circles: the second one makes collect_samples add a sample point at 2500 *)
Definition t02d_text : str :=
  join_lines ["osu file format v14"; "[General]"; "Mode: 1"; "[Difficulty]"; "SliderMultiplier: 1.4";
              "[TimingPoints]";
              "0,500,4,1,0,100,1,0"; "0,-50,4,1,0,100,0,0"; "1000,-200,4,1,0,60,0,1";
              "1500,-66.67,4,1,0,60,0,1";
              "2000,400,3,2,0,60,1,8"; "2000,-133.33333333333334,3,2,0,60,0,1"; "3000,-100,4,1,0,100,0,0";
              "[HitObjects]"; "256,192,500,1,0,0:0:0:0:"; "256,192,2500,1,2,0:0:0:0:"]%string.

Definition g_taiko : tp_general := mkTPG 1 1 100.
Definition g_mania : tp_general := mkTPG 3 1 100.

(* one record as integers: kind, time, beat field, then the six property fields *)
Definition dump_wrec (r : wrec) : list Z :=
  match r with
  | WT t p => [1; D.bits (tp_time t); D.bits (tp_beat_len t); pr_sig p; pr_bank p; pr_custom p; pr_vol p; pr_flags p]
  | WI time p => [0; D.bits time; D.bits (D.div f64_m100 (pr_sv p)); pr_sig p; pr_bank p; pr_custom p; pr_vol p; pr_flags p]
  end.

Definition example_facts (g : tp_general) (text : str) : option (bool * list Z * list (list Z)) :=
  match decode_beatmap stub_dist (lines_of_text text) with
  | Done m =>
      match enc_control_points stub_dist stub_events m with
      | Done c => Some (t02d_checks stub_dist stub_events g m,
                        [Z.of_nat (length (cp_timing c)); Z.of_nat (length (cp_difficulty c));
                         Z.of_nat (length (cp_effect c));
                         Z.of_nat (length (cp_sample (hov_control_points (bmv_ho m))));
                         Z.of_nat (length (cp_sample c)); Z.of_nat (length (enc_decisions c))],
                        map dump_wrec (enc_records c))
      | _ => None
      end
  | _ => None
  end.

(* the checks hold; 2 timing, 5 difficulty, 5 effect points; collect_samples takes the sample
   points from 4 to 5; 6 groups; 7 written records (the group at 2000 writes both lines; the
   group at 2500 exists only because of the collected sample point and writes nothing: its
   properties repeat the last written ones, the bank being refreshed on timing groups only) *)
Lemma t02d_example :
  match example_facts g_taiko t02d_text with
  | Some (ok, counts, recs) => ok = true /\ counts = [2; 5; 5; 4; 5; 6] /\ length recs = 7%nat
  | None => False
  end.
Proof. vm_compute. repeat split; reflexivity. Qed.

(* ... and of the mania file of Proofs/EncRound.v *)
Lemma t02d_plain_example :
  match example_facts g_mania plain_text with
  | Some (ok, _, recs) => ok = true /\ length recs = 2%nat
  | None => False
  end.
Proof. vm_compute. split; reflexivity. Qed.

(* hence the theorem applies: the conclusion of T02d for the concrete decoded map.  (Stated for
   an arbitrary text first, so that nothing is evaluated by the kernel's conversion.) *)
Definition t02d_conclusion (fmt_f64 : F64 -> str) (fmt_f32 : F32 -> str) (fmt_int : Z -> str)
           (g : tp_general) (text : str) : Prop :=
  match decode_beatmap stub_dist (lines_of_text text) with
  | Done m =>
      let c0 := hov_control_points (bmv_ho m) in
      exists ls c',
        enc_timing_points stub_dist stub_events m = Done (header_tok SecTimingPoints :: ls) /\
        tp_decode g (map (render fmt_f64 fmt_f32 fmt_int) ls) = Done (c', map (fun _ => Ok) ls) /\
        cp_timing c' = cp_timing c0 /\
        (forall t, sv_at c' t = sv_at c0 t) /\ (forall t, kiai_at c' t = kiai_at c0 t) /\
        (forall t, scroll_at c' t = scroll_at c0 t)
  | _ => False
  end.

Definition example_ok (g : tp_general) (text : str) : Prop :=
  match example_facts g text with Some (ok, _, _) => ok = true | None => False end.

Lemma example_apply fmt_f64 fmt_f32 fmt_int g text :
  fmt_ok fmt_f64 fmt_f32 fmt_int -> no_leading_zero fmt_int ->
  example_ok g text -> t02d_conclusion fmt_f64 fmt_f32 fmt_int g text.
Proof.
  intros Hfmt Hlead H. unfold example_ok, example_facts in H. unfold t02d_conclusion.
  destruct (decode_beatmap stub_dist (lines_of_text text)) as [m| |]; [|exact H..].
  destruct (enc_control_points stub_dist stub_events m) as [c| |] eqn:E; [|destruct H..].
  exact (enc_timing_round_trip_checked stub_dist stub_events _ _ _ Hfmt Hlead m g H).
Qed.

Lemma t02d_example_ok : example_ok g_taiko t02d_text.
Proof. vm_compute. reflexivity. Qed.

Theorem t02d_example_round_trip fmt_f64 fmt_f32 fmt_int :
  fmt_ok fmt_f64 fmt_f32 fmt_int -> no_leading_zero fmt_int ->
  t02d_conclusion fmt_f64 fmt_f32 fmt_int g_taiko t02d_text.
Proof. intros Hfmt Hlead. exact (example_apply _ _ _ g_taiko t02d_text Hfmt Hlead t02d_example_ok). Qed.

(* ---------- a decoded map outside [values_separated] ---------- *)

(* chronological; at 100 a timing line and an inherited line whose multiplier is
   100 / 100.00000000000001 = 0.9999999999999999 (one ulp below 1), after velocity 2 *)
Definition near_one_text : str :=
  join_lines ["osu file format v14"; "[TimingPoints]";
              "0,500,4,1,0,100,1,0"; "0,-50,4,1,0,100,0,0";
              "100,400,4,1,0,100,1,0"; "100,-100.00000000000001,4,1,0,100,0,0"]%string.

Definition g_osu : tp_general := mkTPG 0 1 100.

(* the decoded map holds velocity 0x3FEFFFFFFFFFFFFF at 100; [values_separated] fails (it is
   within f64::EPSILON of 1.0); the encoder writes three records -- timing + inherited at 0,
   timing only at 100 -- so a decoder sets the velocity at 100 to 1.0 (rec_T_sv) *)
Lemma near_one_witness :
  match decode_beatmap stub_dist (lines_of_text near_one_text) with
  | Done m =>
      match enc_control_points stub_dist stub_events m with
      | Done c =>
          map (fun p => D.bits (dp_sv p)) (cp_difficulty c) = [D.bits (D.of_Z 2); 4607182418800017407] /\
          values_separated c = false /\
          times_separated c = true /\ svs_round_trip c = true /\ scroll_follows_sv 0 c = true /\
          forallb wrec_ok (enc_records c) = true /\
          map (fun r => match r with WT t _ => [1; D.bits (tp_time t)] | WI t _ => [0; D.bits t] end) (enc_records c) =
            [[1; D.bits (D.of_Z 0)]; [0; D.bits (D.of_Z 0)]; [1; D.bits (D.of_Z 100)]]
      | _ => False
      end
  | _ => False
  end.
Proof. vm_compute. repeat split; reflexivity. Qed.

(* ---------- the same witnesses, decoded again ---------- *)

(* for every formatting satisfying [fmt_ok], decoding the rendered section is the run-based
   specification on the parsed records (no rendering needed to compute it) *)
Definition respec (g : tp_general) (c : ControlPoints) : outcome ControlPoints :=
  cp_run cp_empty (flat_map (run_ops (tpg_mode g)) (runs (map (wrec_parsed g) (enc_records c)))).

Lemma legacy_spec_respec fmt_f64 fmt_f32 fmt_int :
  fmt_ok fmt_f64 fmt_f32 fmt_int -> no_leading_zero fmt_int ->
  forall g c, forallb wrec_ok (enc_records c) = true ->
  legacy_spec g (map (render fmt_f64 fmt_f32 fmt_int) (map wrec_line (enc_records c))) = respec g c.
Proof.
  intros Hfmt Hlead g c Hok. rewrite map_map. unfold legacy_spec, spec_ops, respec.
  rewrite (proj1 (accepted_records _ _ _ Hfmt Hlead g (enc_records c) Hok)). reflexivity.
Qed.

Definition dp_dump (c : ControlPoints) : list (list Z) :=
  map (fun p => [D.bits (dp_time p); D.bits (dp_sv p)]) (cp_difficulty c).

(* velocity 0x3FEFFFFFFFFFFFFF at 100 is read back as 1.0 = 0x3FF0000000000000 *)
Lemma near_one_redecoded :
  match decode_beatmap stub_dist (lines_of_text near_one_text) with
  | Done m =>
      match enc_control_points stub_dist stub_events m with
      | Done c =>
          match respec g_osu c with
          | Done c' => dp_dump c = [[D.bits (D.of_Z 0); D.bits (D.of_Z 2)]; [D.bits (D.of_Z 100); 4607182418800017407]] /\
                       dp_dump c' = [[D.bits (D.of_Z 0); D.bits (D.of_Z 2)]; [D.bits (D.of_Z 100); 4607182418800017408]]
          | _ => False
          end
      | _ => False
      end
  | _ => False
  end.
Proof. vm_compute. split; reflexivity. Qed.

(* a hit object (volume 50) at 1e-17 ms: within f64::EPSILON of the control-point time 0 but
   with another total_cmp key.  collect_samples adds a sample point there, the encoder writes
   a third line "1e-17,-50,...", the decoder puts all three lines into ONE pending group and
   the last inherited line wins: the difficulty point moves from 0 to 1e-17, so the slider
   velocity AT 0 is 2.0 before and 1.0 after (relative of D8; [times_separated] fails) *)
Definition near_time_text : str :=
  join_lines ["osu file format v14"; "[TimingPoints]"; "0,500,4,1,0,100,1,0"; "0,-50,4,1,0,100,0,0";
              "[HitObjects]"; "256,192,0.00000000000000001,1,0,0:0:0:50:"]%string.

Lemma near_time_witness :
  match decode_beatmap stub_dist (lines_of_text near_time_text) with
  | Done m =>
      match enc_control_points stub_dist stub_events m with
      | Done c =>
          match respec g_osu c with
          | Done c' =>
              times_separated c = false /\
              values_separated c = true /\ svs_round_trip c = true /\ forallb wrec_ok (enc_records c) = true /\
              length (enc_records c) = 3%nat /\
              dp_dump c = [[D.bits (D.of_Z 0); D.bits (D.of_Z 2)]] /\
              dp_dump c' = [[D.bits (D.of_decimal false 1 (-17)); D.bits (D.of_Z 2)]] /\
              D.bits (sv_lookup c D.zero) = D.bits (D.of_Z 2) /\
              D.bits (sv_lookup c' D.zero) = D.bits (D.of_Z 1)
          | _ => False
          end
      | _ => False
      end
  | _ => False
  end.
Proof. vm_compute. repeat split; reflexivity. Qed.

(* TimingPointsFacts: the pending-slot state machine of parse_timing_points
   refines the run-based legacy specification (T12a); every stored value
   respects its clamp and every list is strictly sorted (T12b); NaN beat
   lengths (T12c); defaults of omitted trailing fields (T12d). *)
From RM Require Import Model.TimingPoints Proofs.BSearch Proofs.ControlPointsFacts Proofs.TPFloatFacts.
From RM Require Import Gen.Generated.
Require Import ZifyBool.
Open Scope Z_scope.

(* ---------- outcomes ---------- *)

Lemma obind_Done_r {A} (x : outcome A) : obind x (fun a => Done a) = x.
Proof. destruct x; reflexivity. Qed.

Lemma cp_run_app a : forall c b, cp_run c (a ++ b) = obind (cp_run c a) (fun c' => cp_run c' b).
Proof.
  induction a as [|o a IH]; intros c b; cbn [app cp_run obind]; [reflexivity|].
  destruct (cp_step c o) as [c1| |]; cbn [obind]; [apply IH | reflexivity..].
Qed.

(* ---------- the flush test ---------- *)

Lemma eps_above_zero : Bleb D.eps (B754_zero false : F64) = false.
Proof. vm_compute. reflexivity. Qed.

Lemma time_changed_refl t : time_changed t t = false.
Proof.
  unfold time_changed, D.ge, fge, D.abs, fabs, D.sub, fsub.
  apply Bminus_self_small. exact eps_above_zero.
Qed.

(* ---------- one accepted line, in closed form ---------- *)

Definition merge (st : TPState) (mode : Z) (r : tp_line) : TPState :=
  let tc := l_tc r in
  mkTS (ts_general st) (l_time r)
    (if tc then keep_first (ts_pt st) (line_tp r) else ts_pt st)
    (if tc then keep_first (ts_pd st) (line_dp r) else Some (line_dp r))
    (if tc then keep_first (ts_pe st) (line_ep mode r) else Some (line_ep mode r))
    (if tc then keep_first (ts_ps st) (line_sp r) else Some (line_sp r))
    (ts_cp st).

(* only the first add_control_point of a line can flush: the later ones see
   pending time = time *)
Lemma apply_line_eq st r :
  apply_line st r =
  obind (if time_changed (l_time r) (ts_time st) then flush_pending_points st else Done st)
        (fun st1 => Done (merge st1 (tpg_mode (ts_general st)) r)).
Proof.
  destruct st as [g t pt pd pe ps c].
  unfold apply_line, add_control_point, flush_pending_points, merge.
  cbv zeta. cbn [ts_time ts_general].
  destruct (l_tc r) eqn:Etc; destruct (time_changed (l_time r) t) eqn:Ech;
    cbn [ts_time ts_general obind]; rewrite ?Ech; cbn [ts_time ts_general obind];
    try (destruct (flush_cp _) as [c'| |]; [|reflexivity..]);
    repeat (cbn [ts_time ts_general ts_pt ts_pd ts_pe ts_ps ts_cp set_time push_front push_back obind keep_first];
            rewrite ?time_changed_refl);
    reflexivity.
Qed.

Lemma apply_line_general st r st' : apply_line st r = Done st' -> ts_general st' = ts_general st.
Proof.
  rewrite apply_line_eq. unfold flush_pending_points.
  destruct (time_changed _ _); [destruct (flush_cp st); cbn [obind]; try discriminate|];
    cbn [obind]; intros H; inversion H; reflexivity.
Qed.

(* ---------- rejected lines vanish ---------- *)

Fixpoint rec_run (st : TPState) (rs : list tp_line) : outcome TPState :=
  match rs with
  | [] => Done st
  | r :: rest => obind (apply_line st r) (fun st' => rec_run st' rest)
  end.

Lemma tp_run_accepted lines : forall st,
  tp_run st lines =
  obind (rec_run st (accepted (ts_general st) lines))
        (fun st' => Done (st', spec_results (ts_general st) lines)).
Proof.
  induction lines as [|l lines IH]; intros st; [reflexivity|].
  cbn [tp_run accepted spec_results flat_map map]. unfold parse_timing_points.
  destruct (parse_tp_line (ts_general st) l) as [r|]; cbn [obind app rec_run].
  - destruct (apply_line st r) as [st1| |] eqn:E; cbn [obind]; [|reflexivity..].
    rewrite IH, (apply_line_general _ _ _ E).
    fold (accepted (ts_general st) lines). fold (spec_results (ts_general st) lines).
    destruct (rec_run st1 _); reflexivity.
  - rewrite IH. fold (accepted (ts_general st) lines). fold (spec_results (ts_general st) lines).
    destruct (rec_run st _); reflexivity.
Qed.

(* ---------- runs ---------- *)

(* consecutive lines all share a time *)
Fixpoint chain (l : list tp_line) : Prop :=
  match l with
  | a :: ((b :: _) as t) => same_time (l_time b) (l_time a) = true /\ chain t
  | _ => True
  end.

Lemma chain_snoc r : forall cur,
  chain cur -> (forall x, last_opt cur = Some x -> same_time (l_time r) (l_time x) = true) ->
  chain (cur ++ [r]).
Proof.
  induction cur as [|a cur IH]; intros Hc Hl; [exact I|].
  destruct cur as [|b cur].
  - cbn. split; [apply Hl; reflexivity | exact I].
  - destruct Hc as (Hab & Hc). change ((a :: b :: cur) ++ [r]) with (a :: b :: (cur ++ [r])).
    split; [exact Hab|]. apply (IH Hc). intros x Hx. apply Hl. exact Hx.
Qed.

Lemma runs_cons r rest :
  runs (r :: rest) =
  match runs rest with
  | (r2 :: run) :: more => if same_time (l_time r2) (l_time r) then (r :: r2 :: run) :: more
                           else [r] :: (r2 :: run) :: more
  | _ => [[r]]
  end.
Proof. reflexivity. Qed.

Lemma runs_head r rs : exists run more, runs (r :: rs) = (r :: run) :: more.
Proof.
  rewrite runs_cons. destruct (runs rs) as [|[|r2 run] more]; eauto.
  destruct (same_time _ _); eauto.
Qed.

Lemma runs_chain cur : chain cur -> cur <> [] -> runs cur = [cur].
Proof.
  induction cur as [|a cur IH]; intros Hc Hne; [congruence|].
  destruct cur as [|b cur]; [reflexivity|].
  destruct Hc as (Hab & Hc). rewrite runs_cons, (IH Hc) by discriminate. rewrite Hab. reflexivity.
Qed.

Lemma runs_cut r rs : forall cur x,
  chain cur -> last_opt cur = Some x -> same_time (l_time r) (l_time x) = false ->
  runs (cur ++ r :: rs) = cur :: runs (r :: rs).
Proof.
  induction cur as [|a cur IH]; intros x Hc Hl Hs; [discriminate|].
  destruct cur as [|b cur].
  - inversion Hl; subst x. change ([a] ++ r :: rs) with (a :: r :: rs).
    destruct (runs_head r rs) as (run & more & E).
    rewrite runs_cons, E, Hs. reflexivity.
  - destruct Hc as (Hab & Hc).
    change ((a :: b :: cur) ++ r :: rs) with (a :: ((b :: cur) ++ r :: rs)).
    rewrite runs_cons, (IH x Hc Hl Hs), Hab. reflexivity.
Qed.

(* the runs partition the accepted lines, in order *)
Lemma concat_runs ls : concat (runs ls) = ls.
Proof.
  induction ls as [|r ls IH]; [reflexivity|].
  rewrite runs_cons. destruct ls as [|r' ls']; [reflexivity|].
  destruct (runs_head r' ls') as (run & more & E). rewrite E in *.
  destruct (same_time _ _); cbn [concat app] in *; rewrite <- IH; reflexivity.
Qed.

Section FlatRuns.
  Context {B : Type} (f : list tp_line -> list B) (Hf : f [] = []).

  Lemma flat_runs_chain cur : chain cur -> flat_map f (runs cur) = f cur.
  Proof.
    intros Hc. destruct cur as [|a cur]; [symmetry; exact Hf|].
    rewrite runs_chain by (auto; discriminate). cbn [flat_map]. apply app_nil_r.
  Qed.

  Lemma flat_runs_cut cur r rs :
    chain cur -> (forall x, last_opt cur = Some x -> same_time (l_time r) (l_time x) = false) ->
    flat_map f (runs (cur ++ r :: rs)) = f cur ++ flat_map f (runs (r :: rs)).
  Proof.
    intros Hc Hl. destruct cur as [|a cur]; [rewrite Hf; reflexivity|].
    assert (exists x, last_opt (a :: cur) = Some x) as (x & Hx).
    { clear. revert a. induction cur as [|b cur IH]; intros a; [eexists; reflexivity|].
      destruct (IH b) as (x & Hx). exists x. exact Hx. }
    rewrite (runs_cut r rs _ x Hc Hx (Hl x Hx)). reflexivity.
  Qed.
End FlatRuns.

(* ---------- winners ---------- *)

Lemma hd_error_snoc {A} (l : list A) (x : A) :
  hd_error (l ++ [x]) = match hd_error l with Some y => Some y | None => Some x end.
Proof. destruct l; reflexivity. Qed.

Lemma timing_winner_snoc cur r :
  timing_winner (cur ++ [r]) =
  if l_tc r then match timing_winner cur with Some x => Some x | None => Some r end
  else timing_winner cur.
Proof.
  unfold timing_winner. rewrite filter_app. cbn [filter].
  destruct (l_tc r); [apply hd_error_snoc | rewrite app_nil_r; reflexivity].
Qed.

Lemma winner_snoc cur r :
  winner (cur ++ [r]) =
  if l_tc r then match winner cur with Some x => Some x | None => Some r end
  else Some r.
Proof.
  unfold winner. rewrite timing_winner_snoc. rewrite filter_app. cbn [filter]. unfold inherited at 2.
  destruct (l_tc r); cbn [negb].
  - rewrite app_nil_r. destruct (last_opt (filter inherited cur)); [reflexivity|].
    destruct (timing_winner cur); reflexivity.
  - rewrite last_opt_app_single. reflexivity.
Qed.

Lemma run_ops_nil mode : run_ops mode [] = [].
Proof. reflexivity. Qed.

(* ---------- the invariant: pending slots = winners of the open run ---------- *)

Record Inv (g : tp_general) (st : TPState) (cur : list tp_line) : Prop := mkInv {
  inv_g : ts_general st = g;
  inv_pt : ts_pt st = omap line_tp (timing_winner cur);
  inv_pd : ts_pd st = omap line_dp (winner cur);
  inv_pe : ts_pe st = omap (line_ep (tpg_mode g)) (winner cur);
  inv_ps : ts_ps st = omap line_sp (winner cur);
  inv_time : forall x, last_opt cur = Some x -> ts_time st = l_time x }.

Lemma inv_init g : Inv g (tp_init g) [].
Proof. constructor; try reflexivity. intros x H; discriminate. Qed.

Lemma flush_inv g st cur : Inv g st cur -> flush_cp st = cp_run (ts_cp st) (run_ops (tpg_mode g) cur).
Proof.
  intros [Hg Ht Hd He Hs _]. unfold flush_cp, run_ops. rewrite Ht, Hd, He, Hs. unfold winner.
  destruct (timing_winner cur) as [w|]; destruct (last_opt (filter inherited cur)) as [v|];
    cbn [omap add_opt app cp_run cp_step obind];
    repeat match goal with
           | |- context [obind ?x _] =>
               match x with
               | add_timing _ _ => destruct x as [?c| |]
               | add_difficulty _ _ => destruct x as [?c| |]
               | add_effect _ _ => destruct x as [?c| |]
               | add_sample _ _ => destruct x as [?c| |]
               end; cbn [obind]; try reflexivity
           end;
    try reflexivity; try (destruct (add_sample _ _); reflexivity).
Qed.

Lemma merge_inv g st cur r :
  Inv g st cur -> Inv g (merge st (tpg_mode g) r) (cur ++ [r]).
Proof.
  intros [Hg Ht Hd He Hs _]. unfold merge.
  constructor; cbn [ts_general ts_pt ts_pd ts_pe ts_ps ts_time];
    rewrite ?timing_winner_snoc, ?winner_snoc; try assumption.
  - rewrite Ht. destruct (l_tc r); [|reflexivity]. destruct (timing_winner cur); reflexivity.
  - rewrite Hd. destruct (l_tc r); [|reflexivity]. destruct (winner cur); reflexivity.
  - rewrite He. destruct (l_tc r); [|reflexivity]. destruct (winner cur); reflexivity.
  - rewrite Hs. destruct (l_tc r); [|reflexivity]. destruct (winner cur); reflexivity.
  - intros x. rewrite last_opt_app_single. intros H; inversion H; reflexivity.
Qed.

Lemma merge_cp st mode r : ts_cp (merge st mode r) = ts_cp st.
Proof. reflexivity. Qed.

(* T12a, on accepted lines, from any state whose slots hold the winners of
   an open run *)
Lemma rec_run_spec g : forall rs cur st,
  Inv g st cur -> chain cur ->
  obind (rec_run st rs) tp_finish =
  cp_run (ts_cp st) (flat_map (run_ops (tpg_mode g)) (runs (cur ++ rs))).
Proof.
  induction rs as [|r rs IH]; intros cur st HI Hch.
  - cbn [rec_run obind]. rewrite app_nil_r. unfold tp_finish.
    rewrite (flush_inv _ _ _ HI), (flat_runs_chain _ (run_ops_nil _)) by exact Hch. reflexivity.
  - cbn [rec_run]. rewrite apply_line_eq, (inv_g _ _ _ HI).
    destruct (time_changed (l_time r) (ts_time st)) eqn:Ech.
    + unfold flush_pending_points. rewrite (flush_inv _ _ _ HI).
      rewrite (flat_runs_cut _ (run_ops_nil _)); [|exact Hch|].
      2:{ intros x Hx. unfold same_time. rewrite <- (inv_time _ _ _ HI x Hx), Ech. reflexivity. }
      rewrite cp_run_app.
      destruct (cp_run (ts_cp st) (run_ops (tpg_mode g) cur)) as [c| |]; cbn [obind]; [|reflexivity..].
      set (st1 := mkTS (ts_general st) (ts_time st) None None None None c).
      assert (H1 : Inv g st1 []).
      { constructor; try reflexivity; [exact (inv_g _ _ _ HI) | intros x H; discriminate]. }
      rewrite (IH [r] (merge st1 (tpg_mode g) r) (merge_inv _ _ _ r H1) I). reflexivity.
    + cbn [obind].
      rewrite (IH (cur ++ [r]) (merge st (tpg_mode g) r) (merge_inv _ _ _ r HI)).
      * rewrite <- app_assoc. reflexivity.
      * apply chain_snoc; [exact Hch|]. intros x Hx. unfold same_time.
        rewrite <- (inv_time _ _ _ HI x Hx), Ech. reflexivity.
Qed.

(* T12a *)
Lemma tp_decode_spec g lines :
  tp_decode g lines = obind (legacy_spec g lines) (fun c => Done (c, spec_results g lines)).
Proof.
  unfold tp_decode, legacy_spec, spec_ops. rewrite tp_run_accepted. cbn [tp_init ts_general].
  pose proof (rec_run_spec g (accepted g lines) [] (tp_init g) (inv_init g) I) as H.
  cbn [app tp_init ts_cp] in H. rewrite <- H.
  destruct (rec_run _ _) as [st| |]; cbn [obind]; [|reflexivity..].
  destruct (tp_finish st); reflexivity.
Qed.

(* ---------- the runs are maximal ---------- *)

(* adjacent runs are separated by a time change *)
Fixpoint separated (rs : list (list tp_line)) : Prop :=
  match rs with
  | r1 :: ((r2 :: _) as t) =>
      (forall x y, last_opt r1 = Some x -> hd_error r2 = Some y ->
                   same_time (l_time y) (l_time x) = false) /\ separated t
  | _ => True
  end.

Lemma runs_maximal ls : Forall chain (runs ls) /\ separated (runs ls).
Proof.
  induction ls as [|r ls IH]; [split; constructor|].
  rewrite runs_cons. destruct IH as (Hc & Hs).
  destruct (runs ls) as [|[|r2 run] more]; [split; [repeat constructor | exact I]..|].
  inversion Hc as [|? ? Hc1 Hc2]; subst.
  destruct (same_time (l_time r2) (l_time r)) eqn:E.
  - split.
    + constructor; [split; assumption | exact Hc2].
    + destruct more as [|m more]; [exact I|]. destruct Hs as (Hs1 & Hs2). split; [|exact Hs2].
      intros x y Hx Hy. apply Hs1; [|exact Hy]. exact Hx.
  - split.
    + constructor; [exact I | exact Hc].
    + split; [|exact Hs]. intros x y Hx Hy. inversion Hx; inversion Hy; subst. exact E.
Qed.

(* EncodeTotal: C01, layer 4 -- `Beatmap::encode` on maps that came out of the
   decoder (Model/Encode.v, with the curve and slider-event models of
   Model/DrvEnc.v as its parameters).

   1. The encoder model step by step ([encode_avoids]).  On a map with the
      shape of a decoded map (Proofs/DecodedObjects.v) the only steps that can
      fail -- panic or run out of fuel -- are the two calls of
      SliderEventsIter::new(..).collect() in collect_samples (osu! and catch
      maps only).  Everything else returns: the lookups behind binary
      searches, ControlPoints::add on the cloned collection, the
      `0..=span_count as usize` loops, add_path_data's indexing, the curve
      (which already returned a value for the very same arguments during
      decoding).
   2. Panic: SliderEventsIter::new panics exactly when the curve distance is
      negative (C20 / finding D18).  The distance of a decoded slider is 0, the
      requested length, or the natural length; it is not negative unless the
      osu!-mode Catmull surplus is (Proofs/CurveDistNonneg.v).
   3. Fuel: the only loop without a structural bound is the tick loop of the
      slider events; its length is bounded once the tick distance is bounded
      below.
   4. Writer: an `Err` needs a failing writer event or a failing flush. *)
From RM Require Import Model.Encode Model.CurveDist.
From RM Require Model.DrvEnc Model.Curve Model.SliderEvents.
From RM Require Import Proofs.ControlPointsFacts Proofs.MapLevelFacts Proofs.DecodersTotal
     Proofs.DecodeNoPanic Proofs.FloatNonneg Proofs.CurveDistNonneg Proofs.DecodedObjects.
From RM Require Import Gen.Generated.
From Coq Require Import ZifyBool Permutation.
Open Scope Z_scope.

(* ================================================================== *)
(* outcomes that avoid a failure class                                  *)
(* ================================================================== *)

Inductive bad := BPanic | BFuel.

Definition avoids {A} (b : bad) (o : outcome A) : Prop :=
  match o, b with
  | Panic _, BPanic => False
  | OutOfFuel, BFuel => False
  | _, _ => True
  end.

Lemma avoids_done {A} b (a : A) : avoids b (Done a).
Proof. destruct b; exact I. Qed.

Lemma avoids_obind {A C} b (o : outcome A) (g : A -> outcome C) :
  avoids b o -> (forall a, o = Done a -> avoids b (g a)) -> avoids b (obind o g).
Proof. destruct o as [a|w|]; cbn [obind]; intros Ho Hg; [exact (Hg a eq_refl)|exact Ho|exact Ho]. Qed.

Lemma done_avoids {A} b (o : outcome A) : (exists a, o = Done a) -> avoids b o.
Proof. intros (a & ->). apply avoids_done. Qed.

Lemma avoids_both {A} (o : outcome A) : avoids BPanic o -> avoids BFuel o -> exists a, o = Done a.
Proof. destruct o as [a|w|]; cbn; intros H1 H2; [eauto|contradiction|contradiction]. Qed.

Lemma avoids_panic_iff {A} (o : outcome A) : avoids BPanic o <-> forall w, o <> Panic w.
Proof.
  destruct o as [a|w|]; cbn; split; intros H; try exact I; try discriminate.
  - contradiction.
  - exact (H w eq_refl).
Qed.

Lemma avoids_fuel_iff {A} (o : outcome A) : avoids BFuel o <-> o <> OutOfFuel.
Proof.
  destruct o as [a|w|]; cbn; split; intros H; try exact I; try discriminate.
  - contradiction.
  - exact (H eq_refl).
Qed.

(* ================================================================== *)
(* 1. the encoder, step by step                                        *)
(* ================================================================== *)

Section Walk.
  Variable dist_of : Z -> list PCP -> option F64 -> outcome F64.
  Variable events_of : F64 -> F64 -> F64 -> F64 -> F64 -> Z -> outcome (list EncEvent).

  Notation fin := (obj_fin dist_of).

  (* ---------- [HitObjects] ---------- *)

  Lemma span_iters_done s : 0 <= sl_repeat_count s -> exists n, span_iters s = Done n.
  Proof.
    intros H. unfold span_iters. replace (sl_repeat_count s + 1 <? 0) with false by lia. eauto.
  Qed.

  Lemma slider_toks_done s pos mode : slider_img s -> slider_dist_done dist_of s ->
    exists l, slider_toks dist_of s pos mode = Done l.
  Proof.
    intros ((Hr & _) & _) (d & Hd). unfold slider_toks, slider_curve_dist.
    destruct (span_iters_done s Hr) as (n & ->).
    destruct (sl_expected_dist s) as [e|] eqn:Ee; cbn [obind]; [eauto|].
    rewrite Hd. cbn [obind]. eauto.
  Qed.

  Lemma object_line_done mode h : fin h -> exists l, object_line dist_of mode h = Done l.
  Proof.
    unfold obj_fin, object_line, object_pos. intros H.
    destruct (h_kind h) as [c|s|sp|hd]; cbn [obind]; try (eexists; reflexivity).
    destruct H as (Hi & Hd). destruct (slider_toks_done s (sl_pos s) mode Hi Hd) as (l & ->).
    cbn [obind]. eauto.
  Qed.

  Lemma object_lines_done mode l : Forall fin l -> exists ls, object_lines dist_of mode l = Done ls.
  Proof.
    induction l as [|h r IH]; intros H; cbn [object_lines]; [eauto|].
    inversion H as [|? ? Hh Hr]; subst.
    destruct (object_line_done mode h Hh) as (x & ->). cbn [obind].
    destruct (IH Hr) as (xs & ->). cbn [obind]. eauto.
  Qed.

  Lemma enc_hit_objects_done mode l : Forall fin l -> exists ls, enc_hit_objects dist_of mode l = Done ls.
  Proof.
    intros H. unfold enc_hit_objects. destruct (object_lines_done mode l H) as (ls & ->).
    cbn [obind]. eauto.
  Qed.

  (* ---------- collect_samples ---------- *)

  Lemma end_time_done h : fin h -> exists t, end_time dist_of h = Done t.
  Proof.
    unfold obj_fin, end_time. intros H.
    destruct (h_kind h) as [c|s|sp|hd]; try (eexists; reflexivity).
    destruct H as (_ & d & Hd). unfold enc_slider_duration, slider_curve_dist. rewrite Hd.
    cbn [obind]. eauto.
  Qed.

  Section Objects.
    Variables (b : bad) (mode version : Z) (tick_rate slider_mult : F64) (c0 : ControlPoints).

    (* the two places where SliderEventsIter::new(..).collect() is called *)
    Definition events_avoid (h : HitObject) : Prop :=
      match h_kind h with
      | KSlider s =>
          (mode = 0 -> avoids b (slider_events dist_of events_of (h_start h) s version tick_rate c0)) /\
          (mode = 2 -> avoids b (juicestream_events dist_of events_of (h_start h) s version tick_rate
                                                    slider_mult c0))
      | _ => True
      end.

    Lemma object_samples_avoids h : fin h -> events_avoid h ->
      avoids b (object_samples dist_of events_of mode version tick_rate slider_mult c0 h).
    Proof.
      intros Hf He. unfold object_samples.
      destruct (end_time_done h Hf) as (t & ->). cbn [obind].
      unfold events_avoid in He.
      destruct (h_kind h) as [c|s|sp|hd]; try apply avoids_done.
      destruct He as (H0 & H2).
      destruct (mode =? 0) eqn:E0.
      { apply avoids_obind; [apply H0; lia|]. intros; apply avoids_done. }
      destruct (mode =? 1); [apply avoids_done|].
      destruct (mode =? 2) eqn:E2; [|apply avoids_done].
      apply avoids_obind; [apply H2; lia|]. intros; apply avoids_done.
    Qed.

    Lemma all_object_samples_avoids l : Forall fin l -> Forall events_avoid l ->
      avoids b (all_object_samples dist_of events_of mode version tick_rate slider_mult c0 l).
    Proof.
      induction l as [|h r IH]; intros Hf He; cbn [all_object_samples]; [apply avoids_done|].
      inversion Hf as [|? ? Hf1 Hf2]; subst. inversion He as [|? ? He1 He2]; subst.
      apply avoids_obind; [apply object_samples_avoids; assumption|]. intros x _.
      apply avoids_obind; [apply IH; assumption|]. intros; apply avoids_done.
    Qed.
  End Objects.

  (* ControlPoints::add(sample) on a sorted collection *)
  Lemma add_sample_sorted c p : cp_sorted c -> exists c', add_sample c p = Done c' /\ cp_sorted c'.
  Proof. exact (cp_step_sorted c (OpAddS p)). Qed.

  Lemma add_collected_sorted l : forall c last, cp_sorted c ->
    exists c', add_collected c last l = Done c' /\ cp_sorted c'.
  Proof.
    induction l as [|s r IH]; intros c last Hc; cbn [add_collected]; [eauto|].
    destruct (sp_redundant s last); [apply IH; exact Hc|].
    destruct (add_sample_sorted c s Hc) as (c' & -> & Hc'). cbn [obind]. apply IH. exact Hc'.
  Qed.

  Lemma collect_samples_avoids b mode version tick_rate slider_mult c0 objs :
    cp_sorted c0 -> Forall fin objs ->
    Forall (events_avoid b mode version tick_rate slider_mult c0) objs ->
    avoids b (collect_samples dist_of events_of mode version tick_rate slider_mult c0 objs) /\
    (forall c, collect_samples dist_of events_of mode version tick_rate slider_mult c0 objs = Done c ->
               cp_sorted c).
  Proof.
    intros Hc Hf He. unfold collect_samples.
    pose proof (all_object_samples_avoids b mode version tick_rate slider_mult c0 objs Hf He) as Ha.
    destruct (all_object_samples dist_of events_of mode version tick_rate slider_mult c0 objs)
      as [collected|w|]; cbn [obind]; [|split; [exact Ha|discriminate] ..].
    destruct (ssort sp_key collected) as [|s r].
    - split; [apply avoids_done|]. intros c [= <-]. exact Hc.
    - destruct (add_sample_sorted c0 s Hc) as (c1 & -> & Hc1). cbn [obind].
      destruct (add_collected_sorted r c1 s Hc1) as (c2 & -> & Hc2).
      split; [apply avoids_done|]. intros c [= <-]. exact Hc2.
  Qed.

  (* ---------- [TimingPoints] ---------- *)

  Lemma props_new_done t c last ub : cp_sorted c -> exists p, props_new t c last ub = Done p.
  Proof.
    intros (_ & Hd & He & _). unfold props_new, difficulty_point_at, effect_point_at.
    rewrite (at_opt_spec dp_time _ _ Hd). cbn [obind].
    rewrite (at_opt_spec ep_time _ _ He). cbn [obind]. eauto.
  Qed.

  Lemma group_lines_done c gs : cp_sorted c -> forall last, exists ls, group_lines c last gs = Done ls.
  Proof.
    intros Hc. induction gs as [|g r IH]; intros last; cbn [group_lines]; [eauto|].
    destruct (props_new_done (gr_time g) c last
                (match gr_timing g with Some _ => true | None => false end) Hc) as (props & ->).
    cbn [obind].
    destruct (gr_timing g) as [t|].
    - destruct (props_redundant props _).
      + destruct (IH (mkProps D.one (pr_sig props) (pr_bank props) (pr_custom props) (pr_vol props)
                              (pr_flags props))) as (ls & ->). cbn [obind]. eauto.
      + destruct (IH props) as (ls & ->). cbn [obind]. eauto.
    - destruct (props_redundant props last).
      + destruct (IH last) as (ls & ->). cbn [obind]. eauto.
      + destruct (IH props) as (ls & ->). cbn [obind]. eauto.
  Qed.

  (* ---------- Beatmap::encode ---------- *)

  Definition map_events_avoid (b : bad) (m : BeatmapV) : Prop :=
    let ho := bmv_ho m in
    Forall (events_avoid b (g_mode (hov_general ho)) (bmv_version m)
                         (d_slider_tick_rate (hov_difficulty ho)) (d_slider_multiplier (hov_difficulty ho))
                         (hov_control_points ho))
           (hov_hit_objects ho).

  Definition map_shape (m : BeatmapV) : Prop :=
    cp_sorted (hov_control_points (bmv_ho m)) /\ Forall fin (hov_hit_objects (bmv_ho m)).

  Theorem enc_timing_points_avoids b m : map_shape m -> map_events_avoid b m ->
    avoids b (enc_timing_points dist_of events_of m).
  Proof.
    intros (Hc & Hf) He. unfold enc_timing_points.
    destruct (collect_samples_avoids b _ _ _ _ _ _ Hc Hf He) as (Ha & Hs).
    apply avoids_obind; [exact Ha|]. intros c Ec.
    destruct (group_lines_done c (groups_of c) (Hs c Ec) props_default) as (ls & ->).
    cbn [obind]. apply avoids_done.
  Qed.

  Theorem encode_avoids b m : map_shape m -> map_events_avoid b m ->
    avoids b (encode_tokens dist_of events_of m).
  Proof.
    intros Hm He. unfold encode_tokens, encode_lines.
    apply avoids_obind; [|intros; apply avoids_done].
    apply avoids_obind; [exact (enc_timing_points_avoids b m Hm He)|]. intros tp _.
    destruct (enc_hit_objects_done (g_mode (hov_general (bmv_ho m))) _ (proj2 Hm)) as (ls & ->).
    cbn [obind]. apply avoids_done.
  Qed.

  (* with both classes avoided the encoder returns its token stream *)
  Corollary encode_done m : map_shape m -> map_events_avoid BPanic m -> map_events_avoid BFuel m ->
    exists toks, encode_tokens dist_of events_of m = Done toks.
  Proof.
    intros Hm H1 H2. apply avoids_both; apply encode_avoids; assumption.
  Qed.

  (* the arguments SliderEventsIter::new receives for a slider of a map with
     the decoded shape: the curve distance itself, and the span count >= 1 *)
  Lemma slider_events_args b start s version tick_rate c d :
    cp_sorted c -> 0 <= sl_repeat_count s ->
    dist_of (sl_mode s) (sl_control_points s) (sl_expected_dist s) = Done d ->
    (forall dur vel td, avoids b (events_of start dur vel td d (sl_repeat_count s + 1))) ->
    avoids b (slider_events dist_of events_of start s version tick_rate c).
  Proof.
    intros (_ & Hd & _) Hr Ed Hev. unfold slider_events, difficulty_point_at.
    rewrite (at_opt_spec dp_time _ _ Hd). cbn [obind].
    destruct (match last_not_after dp_time (cp_difficulty c) start with
              | Some p => (dp_sv p, dp_ticks p) | None => (D.one, true) end) as [sv gt].
    unfold enc_slider_duration, slider_curve_dist. rewrite Ed. cbn [obind]. apply Hev.
  Qed.

  Lemma juicestream_events_args b start s version tick_rate slider_mult c d :
    cp_sorted c -> 0 <= sl_repeat_count s ->
    dist_of (sl_mode s) (sl_control_points s) (sl_expected_dist s) = Done d ->
    (forall dur vel td, avoids b (events_of start dur vel td d (sl_repeat_count s + 1))) ->
    avoids b (juicestream_events dist_of events_of start s version tick_rate slider_mult c).
  Proof.
    intros (_ & Hd & _) Hr Ed Hev. unfold juicestream_events, difficulty_point_at.
    rewrite (at_opt_spec dp_time _ _ Hd). cbn [obind].
    unfold enc_slider_duration, slider_curve_dist. rewrite Ed. cbn [obind]. apply Hev.
  Qed.
End Walk.
